import P2sh.Model.Proto
import P2sh.Spec.Rfc
import P2sh.Props.C15
import P2sh.Props.C16Path
import P2sh.Props.C17More
import P2sh.Props.C17Packet
/-!
# C17 on the packet — every other property of every layer reads as before

C17Packet proves, for ONE assignment `pkt.<names>.p = v` / `$n.<names>.p = v` on a fresh packet over a well-formed frame
(the names lead the reference cursor to layer `l` at byte `s`, depth `d`): the bytes written (`set_then_serialise`), that
the re-parsed packet is the fresh packet over the patched frame (`set_then_reparse_packet`), and the read-back of the SAME
layer (`set_then_read`).  This file closes the open item: **every other property of every OTHER layer reads as before**,
after serialise + re-parse and immediately.

## the boundary: structural fields

`structural l p` — the fields whose bits overlap a bit range the reference layering reads (`layeringReads`; that these
are ALL the bits `Rfc.headerLen`, `Rfc.lengthEnd`, `Rfc.innerOf` — hence `Rfc.arrive`, `Rfc.down`, `Rfc.cursorAt` — read
is the theorem `layering_reads`).  The table (`structural_table`: it is `Rfc.structural`, the fields the reference marks
dirty): `eth.type`, `vlan.type`, `ipv4.ihl`, `ipv4.totlen`, `ipv4.proto`, `ipv6.len`, `ipv6.nextheader`,
`tcp.dataoff` = `tcp.len`, `udp.len`.  `ipv4.version` / `ipv6.version` are NOT read by the layering (and are read-only).

For a STRUCTURAL field the statement of C17 demands nothing of the layers BELOW the assigned one (that is how the
property is read in this project: the reference state becomes dirty from that depth on), and nothing below is claimed
here.  What is proved for structural fields: immediately after the assignment the layers above AND the assigned layer
itself read as before (`set_then_others_read_same_now`, scope clause); after write + re-parse the layers above read as
before (`set_then_above_read_same`) — the assigned layer itself need not: `ipv4.ihl = 15` on a short frame turns the IPv4
layer into an error object (example at the end).  For NON-structural fields everything reads as before, at every depth.

## contents

* bits: `bitSlice_succ`, `bitSlice_ext` (a slice is determined by its bits), `setByte_bit`, `bitAt_setBits_outside`,
  `setBits_patched` — `Rfc.setBits` changes no bit slice, byte or tail outside the range (`Patched`).
* `cursor_patched` — **the layering of the patched frame is the old one**: for a non-structural field, every head and
  every path of layer names leads to the same cursor (same layer kinds, offsets, depths, delimiting ends) over
  `Rfc.SState.patch` (= `Rfc.setBits frame (8·s + o) w n`) as over the original state.  Proof: the chain of layers
  (`Inv`, `downN_mono`: offsets grow by at least the fixed header size) puts every header before, at, or after the
  assigned one (`Pos`); none of its layering reads overlaps the field (`Ctx.pos_clean`).
* `reference_read_patched` — the reference read (`Rfc.readExpect`) of EVERY head and path on the patched state equals the
  one on the original state, except the reads `Touches` names: the assigned field itself (`tcp.len` / `tcp.dataoff` are
  one field) and the `payload` of a layer above the assigned one (it contains the assigned bytes).
* `set_then_others_read_same` — **main theorem, after serialise + re-parse**: every property `q` that is not a layer name
  (field of any kind, record-header word, `payload`, or no property of that layer) of every layer any head + names lead
  to reads exactly what it read on the untouched packet; exceptions as in `Touches`.  `payload_above_patched` states what
  the excepted payload of a layer above reads: the old payload with exactly the field's bits replaced.
  (Model values are compared, not `Reads … Expect`: the reference allows alternatives, so equality is proved through
  `get_same` — the getters of a header parsed from the patched frame — rather than through `named_path_reads_reference`.)
* `set_then_others_read_same_now` — **the immediate version** (no re-parse), for ANY accepted assignment (numbers, the
  flag, addresses from text) and ANY read `hd'.<names'>.q` (the names need not lead anywhere, `q` may be a layer name):
  through the cache tree the assignment left (`Mod`: the fresh tree with the chain cached down to the replaced header;
  `Mod.walk_same`, `Mod.descend_same`) it yields what it yields on the untouched packet, unless it reads the assigned
  field itself; for a structural `p` restricted to depth `≤ d` as said above.  Payloads of enclosing layers read the
  captured bytes here (the model's payload getter reads the raw capture).
* non-vacuity: `udpFrame` (Ethernet + IPv4 + UDP), `ipv4.ttl = 9`, `eth.type = 0x86DD`, `ipv4.ihl = 15`.

Not covered: assignments to the record layer (`pkt.caplen = …`); reads whose last property is a layer name after a
re-parse (they are covered at the reference level by `reference_read_patched`, and immediately by
`set_then_others_read_same_now`).
-/
namespace P2sh.Props.C17
open P2sh P2sh.Proto P2sh.Spec
open P2sh.Props.C16 (hdrLayer parseAs Stands Parsed headOf specState kindLayer Spine IsLayer)

/-! ## bits -/

/-- eight bits put together, most significant first -/
theorem fold8 (f : Nat → Nat) (hf : ∀ k, f k < 2) :
    (List.range 8).foldl (fun acc k => acc * 2 + f k) 0 < 256 ∧
    ∀ k, k < 8 → (List.range 8).foldl (fun acc k => acc * 2 + f k) 0 / 2 ^ (7 - k) % 2 = f k := by
  have h0 := hf 0; have h1 := hf 1; have h2 := hf 2; have h3 := hf 3
  have h4 := hf 4; have h5 := hf 5; have h6 := hf 6; have h7 := hf 7
  simp only [range8, List.foldl]
  refine ⟨by omega, ?_⟩
  intro k hk
  have : k = 0 ∨ k = 1 ∨ k = 2 ∨ k = 3 ∨ k = 4 ∨ k = 5 ∨ k = 6 ∨ k = 7 := by omega
  rcases this with rfl | rfl | rfl | rfl | rfl | rfl | rfl | rfl <;> simp <;> omega

theorem setByte_eq (b j o w v : Nat) :
    setByte b j o w v = (List.range 8).foldl (fun acc k => acc * 2 +
      (if o ≤ 8 * j + k ∧ 8 * j + k < o + w then v / 2 ^ (o + w - 1 - (8 * j + k)) % 2 else b / 2 ^ (7 - k) % 2)) 0 := rfl

theorem setByte_bit_lt (b j o w v k : Nat) :
    (if o ≤ 8 * j + k ∧ 8 * j + k < o + w then v / 2 ^ (o + w - 1 - (8 * j + k)) % 2 else b / 2 ^ (7 - k) % 2) < 2 := by
  split <;> omega

theorem setByte_lt (b j o w v : Nat) : setByte b j o w v < 256 :=
  (fold8 _ (setByte_bit_lt b j o w v)).1

/-- bit `k` of a patched byte: the value's bit inside the range, the old bit outside -/
theorem setByte_bit (b j o w v k : Nat) (hk : k < 8) :
    setByte b j o w v / 2 ^ (7 - k) % 2 =
      (if o ≤ 8 * j + k ∧ 8 * j + k < o + w then v / 2 ^ (o + w - 1 - (8 * j + k)) % 2 else b / 2 ^ (7 - k) % 2) :=
  (fold8 _ (setByte_bit_lt b j o w v)).2 k hk


theorem beNat_append (xs : List Nat) (y : Nat) : Rfc.beNat (xs ++ [y]) = Rfc.beNat xs * 256 + y := by
  simp [Rfc.beNat, List.foldl_append]

theorem mod_two_mul (X P c : Nat) (hP : 0 < P) (hc : c < 2) : (2 * X + c) % (2 * P) = 2 * (X % P) + c := by
  have hX := Nat.div_add_mod X P
  have hr := Nat.mod_lt X hP
  have e : 2 * X + c = (2 * (X % P) + c) + (2 * P) * (X / P) := by
    have : 2 * P * (X / P) = 2 * (P * (X / P)) := Nat.mul_assoc 2 P (X / P)
    rw [this]
    generalize P * (X / P) = t at *
    generalize X % P = r at *
    omega
  rw [e, Nat.add_mul_mod_self_left]
  exact Nat.mod_eq_of_lt (by generalize X % P = r at *; omega)

/-- one more bit at the end of a slice -/
theorem bitSlice_succ (bs : List Nat) (hb : ∀ i, Rfc.byteAt bs i < 256) (o w : Nat) :
    Rfc.bitSlice bs o (w + 1) = 2 * Rfc.bitSlice bs o w + Rfc.bitAt bs (o + w) := by
  have hpow : 2 ^ (w + 1) = 2 * 2 ^ w := by rw [Nat.pow_succ, Nat.mul_comm]
  have hP : 0 < 2 ^ w := Nat.two_pow_pos w
  have hy := hb ((o + w) / 8)
  by_cases hm : (o + w) % 8 = 0
  · have eL : (o + w + 7) / 8 = (o + w) / 8 := by omega
    have eL' : (o + (w + 1) + 7) / 8 = (o + w) / 8 + 1 := by omega
    have eR : (o + w) / 8 + 1 - o / 8 = ((o + w) / 8 - o / 8) + 1 := by omega
    have eI : o / 8 + ((o + w) / 8 - o / 8) = (o + w) / 8 := by omega
    have s0 : 8 * ((o + w) / 8) - (o + w) = 0 := by omega
    have s1 : 8 * ((o + w) / 8 + 1) - (o + (w + 1)) = 7 := by omega
    simp only [Rfc.bitSlice, eL, eL', eR, List.range_succ, List.map_append, List.map_cons, List.map_nil, eI, s0, s1,
      beNat_append, Rfc.bitAt, hm]
    generalize Rfc.beNat _ = X
    generalize Rfc.byteAt bs ((o + w) / 8) = y at *
    have e1 : (X * 256 + y) / 2 ^ 7 = 2 * X + y / 128 := by omega
    have e2 : y / 2 ^ (7 - 0) % 2 = y / 128 := by omega
    rw [e1, e2, hpow, Nat.pow_zero, Nat.div_one]
    exact mod_two_mul X (2 ^ w) (y / 128) hP (by omega)
  · have eL : (o + w + 7) / 8 = (o + w) / 8 + 1 := by omega
    have eL' : (o + (w + 1) + 7) / 8 = (o + w) / 8 + 1 := by omega
    have eR : (o + w) / 8 + 1 - o / 8 = ((o + w) / 8 - o / 8) + 1 := by omega
    have eI : o / 8 + ((o + w) / 8 - o / 8) = (o + w) / 8 := by omega
    have s0 : 8 * ((o + w) / 8 + 1) - (o + w) = (7 - (o + w) % 8) + 1 := by omega
    have s1 : 8 * ((o + w) / 8 + 1) - (o + (w + 1)) = 7 - (o + w) % 8 := by omega
    simp only [Rfc.bitSlice, eL, eL', eR, List.range_succ, List.map_append, List.map_cons, List.map_nil, eI, s0, s1,
      beNat_append, Rfc.bitAt]
    generalize Rfc.beNat _ = X
    generalize Rfc.byteAt bs ((o + w) / 8) = y at *
    have ht : 7 - (o + w) % 8 < 7 := by omega
    generalize 7 - (o + w) % 8 = t at *
    have e1 : (X * 256 + y) / 2 ^ (t + 1) = (X * 256 + y) / 2 ^ t / 2 := by
      rw [Nat.pow_succ, Nat.div_div_eq_div_mul]
    have e2 : (X * 256 + y) / 2 ^ t % 2 = y / 2 ^ t % 2 := by
      have : t = 0 ∨ t = 1 ∨ t = 2 ∨ t = 3 ∨ t = 4 ∨ t = 5 ∨ t = 6 := by omega
      rcases this with rfl | rfl | rfl | rfl | rfl | rfl | rfl <;> simp <;> omega
    rw [e1, ← e2, hpow]
    generalize (X * 256 + y) / 2 ^ t = Z
    have := mod_two_mul (Z / 2) (2 ^ w) (Z % 2) hP (by omega)
    have e3 : 2 * (Z / 2) + Z % 2 = Z := by omega
    rw [e3] at this
    exact this

/-- a slice is determined by its bits -/
theorem bitSlice_ext (A B : List Nat) (hA : ∀ i, Rfc.byteAt A i < 256) (hB : ∀ i, Rfc.byteAt B i < 256) (o : Nat) :
    ∀ w, (∀ i, o ≤ i → i < o + w → Rfc.bitAt A i = Rfc.bitAt B i) → Rfc.bitSlice A o w = Rfc.bitSlice B o w := by
  intro w
  induction w with
  | zero => intro _; simp [Rfc.bitSlice, Nat.mod_one]
  | succ w ih =>
    intro h
    rw [bitSlice_succ A hA, bitSlice_succ B hB, ih (fun i h1 h2 => h i h1 (by omega)), h (o + w) (by omega) (by omega)]


/-! ## `setBits` leaves every bit outside the range alone -/

theorem byteAt_ge (bs : List Nat) (j : Nat) (h : bs.length ≤ j) : Rfc.byteAt bs j = 0 := by
  simp [Rfc.byteAt, List.getD_eq_getElem?_getD, List.getElem?_eq_none h]

theorem byteAt_lt_of_wf (bs : List Nat) (hw : wf bs) (j : Nat) : Rfc.byteAt bs j < 256 := getB_lt hw j

theorem byteAt_setBits (bs : List Nat) (O W v j : Nat) :
    Rfc.byteAt (Rfc.setBits bs O W v) j = if j < bs.length then setByte (Rfc.byteAt bs j) j O W v else 0 := by
  by_cases h : j < bs.length
  · have h' : j < (Rfc.setBits bs O W v).length := by rw [setBits_length]; exact h
    rw [byteAt_eq_getElem _ _ h', setBits_getElem, if_pos h]
  · rw [if_neg h, byteAt_ge _ _ (by rw [setBits_length]; omega)]

theorem setBits_wf (bs : List Nat) (O W v : Nat) : wf (Rfc.setBits bs O W v) := by
  intro x hx
  obtain ⟨j, hj, rfl⟩ := List.getElem_of_mem hx
  rw [setBits_getElem]
  exact setByte_lt _ _ _ _ _

theorem bitAt_setBits_outside (bs : List Nat) (O W v i : Nat) (h : i < O ∨ O + W ≤ i) :
    Rfc.bitAt (Rfc.setBits bs O W v) i = Rfc.bitAt bs i := by
  simp only [Rfc.bitAt, byteAt_setBits]
  by_cases hj : i / 8 < bs.length
  · rw [if_pos hj, setByte_bit _ _ _ _ _ _ (Nat.mod_lt _ (by decide))]
    have e : 8 * (i / 8) + i % 8 = i := by omega
    rw [e, if_neg (by omega)]
  · rw [if_neg hj, byteAt_ge _ _ (by omega)]

theorem byteAt_drop' (bs : List Nat) (t j : Nat) : Rfc.byteAt (bs.drop t) j = Rfc.byteAt bs (t + j) := by
  simp [Rfc.byteAt, List.getD_eq_getElem?_getD, List.getElem?_drop]

theorem bitAt_drop (bs : List Nat) (t i : Nat) : Rfc.bitAt (bs.drop t) i = Rfc.bitAt bs (8 * t + i) := by
  have e1 : (8 * t + i) / 8 = t + i / 8 := by omega
  have e2 : (8 * t + i) % 8 = i % 8 := by omega
  simp only [Rfc.bitAt, byteAt_drop', e1, e2]

/-- the two frames agree outside the bit range `[O, O + W)` -/
structure Patched (fr fr' : List Nat) (O W : Nat) : Prop where
  len : fr'.length = fr.length
  slice : ∀ t a b, (8 * t + a + b ≤ O ∨ O + W ≤ 8 * t + a) →
    Rfc.bitSlice (fr'.drop t) a b = Rfc.bitSlice (fr.drop t) a b
  byte : ∀ j, (8 * j + 8 ≤ O ∨ O + W ≤ 8 * j) → Rfc.byteAt fr' j = Rfc.byteAt fr j
  drop : ∀ t, O + W ≤ 8 * t → fr'.drop t = fr.drop t

/-- **`setBits` changes nothing outside the range**: every bit slice that does not overlap it, every byte that lies
outside it, and everything after it, is as before -/
theorem setBits_patched (bs : List Nat) (hw : wf bs) (O W v : Nat) : Patched bs (Rfc.setBits bs O W v) O W := by
  have hw' := setBits_wf bs O W v
  refine ⟨setBits_length bs O W v, ?_, ?_, ?_⟩
  · intro t a b h
    apply bitSlice_ext
    · intro i; rw [byteAt_drop']; exact byteAt_lt_of_wf _ hw' _
    · intro i; rw [byteAt_drop']; exact byteAt_lt_of_wf _ hw _
    · intro i h1 h2
      rw [bitAt_drop, bitAt_drop, bitAt_setBits_outside _ _ _ _ _ (by omega)]
  · intro j h
    rw [byteAt_setBits]
    split
    · exact setByte_outside _ _ _ _ _ (byteAt_lt_of_wf _ hw _) h
    · rw [byteAt_ge _ _ (by omega)]
  · intro t h
    apply List.ext_getElem
    · simp [setBits_length]
    · intro i h1 h2
      have h1' : t + i < (Rfc.setBits bs O W v).length := by
        rw [List.length_drop] at h1; omega
      simp only [List.getElem_drop]
      rw [setBits_getElem _ _ _ _ _ h1']
      have h2' : t + i < bs.length := by rw [setBits_length] at h1'; exact h1'
      rw [byteAt_eq_getElem _ _ h2']
      exact setByte_outside _ _ _ _ _ (hw _ (List.getElem_mem h2')) (by omega)


/-! ## the fields the layering reads -/

/-- the bit ranges `(offset, width)` of a header that the reference layering (`Rfc.headerLen`, `Rfc.lengthEnd`,
`Rfc.innerOf`, hence `Rfc.arrive`, `Rfc.down`, `Rfc.cursorAt`) reads: IHL, total length and protocol of IPv4; payload
length and next header of IPv6; the data offset of TCP; the length of UDP; the EtherType of Ethernet and of the VLAN tag.
`layering_reads` proves that these are all it reads. -/
def layeringReads : Rfc.Layer → List (Nat × Nat)
  | .record => []
  | .ethernet => [(96, 16)]
  | .dot1q => [(16, 16)]
  | .ipv4 => [(4, 4), (16, 16), (72, 8)]
  | .ipv6 => [(32, 16), (48, 8)]
  | .tcp => [(96, 4)]
  | .udp => [(32, 16)]

/-- **structural fields**: the properties whose bits overlap a range the layering reads -/
def structural (l : Rfc.Layer) (p : PP) : Bool :=
  match Rfc.layout l p with
  | some (o, w) => (layeringReads l).any fun ab => !(decide (ab.1 + ab.2 ≤ o) || decide (o + w ≤ ab.1))
  | none => false

/-- the table: `eth.type`, `vlan.type`, `ipv4.ihl`, `ipv4.totlen`, `ipv4.proto`, `ipv6.len`, `ipv6.nextheader`,
`tcp.dataoff` = `tcp.len`, `udp.len` — the same table the reference marks dirty (`Rfc.structural`) -/
theorem structural_table : ∀ l p, structural l p = Rfc.structural l p := by
  intro l p; cases l <;> cases p <;> rfl

/-- no layering read of the header at byte `s'` overlaps the bit range `[O, O + W)` of the frame -/
def Clean (O W : Nat) (l' : Rfc.Layer) (s' : Nat) : Prop :=
  ∀ ab ∈ layeringReads l', 8 * s' + ab.1 + ab.2 ≤ O ∨ O + W ≤ 8 * s' + ab.1

/-- **`layeringReads` is what the layering reads**: two frames that agree outside a bit range which overlaps none of
these ranges of the header at `s'` give that header the same length, the same delimited end, the same inner layer -/
theorem layering_reads (fr fr' : List Nat) (O W : Nat) (P : Patched fr fr' O W) (l' : Rfc.Layer) (s' : Nat)
    (hc : Clean O W l' s') :
    Rfc.headerLen fr' l' s' = Rfc.headerLen fr l' s' ∧ Rfc.lengthEnd fr' l' s' = Rfc.lengthEnd fr l' s' ∧
    Rfc.innerOf fr' l' s' = Rfc.innerOf fr l' s' := by
  have hs : ∀ a b, (a, b) ∈ layeringReads l' → Rfc.bitSlice (fr'.drop s') a b = Rfc.bitSlice (fr.drop s') a b := by
    intro a b hab
    exact P.slice s' a b (by have := hc (a, b) hab; simpa [Nat.add_assoc] using this)
  cases l' <;> simp [layeringReads] at hs <;>
    simp [Rfc.headerLen, Rfc.lengthEnd, Rfc.innerOf, Rfc.typeField, Rfc.layout, Rfc.fixedSize, hs]

theorem arrive_same (fr fr' : List Nat) (O W : Nat) (P : Patched fr fr' O W) (l' : Rfc.Layer) (s' : Nat)
    (hc : Clean O W l' s') (dd : Nat) (ee : List Nat) :
    Rfc.arrive fr' l' s' dd ee = Rfc.arrive fr l' s' dd ee := by
  obtain ⟨h1, h2, -⟩ := layering_reads fr fr' O W P l' s' hc
  unfold Rfc.arrive Rfc.malformed Rfc.complete
  rw [P.len, h1, h2]

theorem reads_within (l' : Rfc.Layer) : ∀ ab ∈ layeringReads l', ab.1 + ab.2 ≤ 8 * Rfc.fixedSize l' := by
  cases l' <;> simp [layeringReads, Rfc.fixedSize]


/-! ## the chain of layers of a frame, relative to one of its headers -/

theorem downN_nonat (st : Rfc.SState) (c : Rfc.Cur) (hc : ∀ l s d e, c ≠ .at l s d e) (n : Nat)
    (l : Rfc.Layer) (s d : Nat) (e : List Nat) : Rfc.downN st n c ≠ .at l s d e := by
  cases c with
  | «at» a b c f => exact absurd rfl (hc a b c f)
  | free => rw [C16.downN_free]; intro h; cases h
  | null => rw [C16.downN_null]; intro h; cases h
  | err =>
    cases n with
    | zero => intro h; cases h
    | succ n => rw [C16.downN_err]; intro h; cases h

theorem arrive_at (fr : List Nat) (l'' : Rfc.Layer) (s'' dd : Nat) (ee : List Nat) (a : Rfc.Layer) (b c : Nat) (f : List Nat)
    (h : Rfc.arrive fr l'' s'' dd ee = .at a b c f) :
    a = l'' ∧ b = s'' ∧ c = dd ∧ Rfc.fixedSize l'' ≤ Rfc.headerLen fr l'' s'' := by
  unfold Rfc.arrive at h
  split at h
  · cases h
  · split at h
    · cases h
    · split at h
      · cases h
      · rename_i h1 h2 h3
        cases h
        simp [Rfc.malformed] at h2
        exact ⟨rfl, rfl, rfl, by omega⟩

theorem inner_pos (fr : List Nat) (l' : Rfc.Layer) (s' : Nat) (l'' : Rfc.Layer) (s'' : Nat)
    (h : Rfc.innerOf fr l' s' = some (l'', s'')) (hr : l' = .record → s' = 0) :
    s'' = s' + Rfc.headerLen fr l' s' ∧ l'' ≠ .record := by
  refine ⟨?_, C16.innerOf_ne_record fr l' s' l'' s'' h⟩
  cases l' <;> simp only [Rfc.innerOf, Rfc.typeField, Rfc.layout] at h
  · cases h; simp [hr rfl, Rfc.headerLen, Rfc.fixedSize]
  all_goals first | (cases h; done) | (split at h <;> cases h <;> rfl)

/-- going down from a well-formed header: depths count the steps, offsets grow by at least the fixed header size -/
theorem downN_mono (st : Rfc.SState) (l : Rfc.Layer) (s d : Nat) (e : List Nat) :
    ∀ (j : Nat) (l' : Rfc.Layer) (s' d' : Nat) (e' : List Nat), Rfc.downN st j (.at l' s' d' e') = .at l s d e →
      Rfc.fixedSize l' ≤ Rfc.headerLen st.fr l' s' → (l' = .record → s' = 0) →
      d = d' + j ∧ (j = 0 → l' = l ∧ s' = s) ∧ (0 < j → s' + Rfc.fixedSize l' ≤ s ∧ l ≠ .record) := by
  intro j
  induction j with
  | zero =>
    intro l' s' d' e' h _ _
    simp only [Rfc.downN] at h
    cases h
    exact ⟨rfl, fun _ => ⟨rfl, rfl⟩, fun h => absurd h (by omega)⟩
  | succ j ih =>
    intro l' s' d' e' h hnm hr
    simp only [Rfc.downN, Rfc.down] at h
    split at h
    · exact absurd h (downN_nonat st _ (by intro _ _ _ _ h; cases h) _ _ _ _ _)
    · cases hin : Rfc.innerOf st.fr l' s' with
      | none =>
        rw [hin] at h
        exact absurd h (downN_nonat st _ (by intro _ _ _ _ h; cases h) _ _ _ _ _)
      | some ls =>
        obtain ⟨l'', s''⟩ := ls
        rw [hin] at h
        simp only at h
        obtain ⟨hs'', hl''⟩ := inner_pos _ _ _ _ _ hin hr
        cases ha : Rfc.arrive st.fr l'' s'' (d' + 1) e' with
        | «at» a b c f =>
          rw [ha] at h
          obtain ⟨rfl, rfl, rfl, hnm'⟩ := arrive_at _ _ _ _ _ _ _ _ _ ha
          obtain ⟨h1, h2, h3⟩ := ih a b (d' + 1) f h hnm' (fun h => absurd h hl'')
          refine ⟨by omega, fun h => absurd h (by omega), fun _ => ?_⟩
          by_cases hj : j = 0
          · obtain ⟨rfl, rfl⟩ := h2 hj
            exact ⟨by omega, hl''⟩
          · obtain ⟨h4, h5⟩ := h3 (by omega)
            exact ⟨by omega, h5⟩
        | free => rw [ha] at h; exact absurd h (downN_nonat st _ (by intro _ _ _ _ h; cases h) _ _ _ _ _)
        | null => rw [ha] at h; exact absurd h (downN_nonat st _ (by intro _ _ _ _ h; cases h) _ _ _ _ _)
        | err => rw [ha] at h; exact absurd h (downN_nonat st _ (by intro _ _ _ _ h; cases h) _ _ _ _ _)

/-- where the header `l'` at byte `s'`, depth `d'` lies relative to the header `l` at byte `s`, depth `d`: wholly
before it, that very header, or wholly after its fixed part -/
def Pos (l : Rfc.Layer) (s d : Nat) (l' : Rfc.Layer) (s' d' : Nat) : Prop :=
  (d' < d ∧ s' + Rfc.fixedSize l' ≤ s) ∨ (l' = l ∧ s' = s ∧ d' = d) ∨ (d < d' ∧ s + Rfc.fixedSize l ≤ s')

/-- a cursor on the chain of layers that contains the header `l` at `s` (depth `d`): above it (and it is reached by
going further down), that header, or below it -/
def Inv (st : Rfc.SState) (l : Rfc.Layer) (s d : Nat) (e : List Nat) : Rfc.Cur → Prop
  | .at l' s' d' e' =>
    Rfc.fixedSize l' ≤ Rfc.headerLen st.fr l' s' ∧ (l' = .record → s' = 0) ∧
    ((∃ j, 0 < j ∧ Rfc.downN st j (.at l' s' d' e') = .at l s d e) ∨ (l' = l ∧ s' = s ∧ d' = d) ∨
      (d < d' ∧ s + Rfc.fixedSize l ≤ s'))
  | _ => True

theorem inv_pos (st : Rfc.SState) (l : Rfc.Layer) (s d : Nat) (e : List Nat) (l' : Rfc.Layer) (s' d' : Nat) (e' : List Nat)
    (h : Inv st l s d e (.at l' s' d' e')) : Pos l s d l' s' d' := by
  obtain ⟨hnm, hr, ⟨j, hj, hd⟩ | h2 | h3⟩ := h
  · obtain ⟨h1, -, h3⟩ := downN_mono st l s d e j l' s' d' e' hd hnm hr
    exact Or.inl ⟨by omega, (h3 hj).1⟩
  · exact Or.inr (Or.inl h2)
  · exact Or.inr (Or.inr h3)

/-- one step down the chain stays on the chain -/
theorem inv_step (st : Rfc.SState) (l : Rfc.Layer) (s d : Nat) (e : List Nat) (l' : Rfc.Layer) (s' d' : Nat) (e' : List Nat)
    (h : Inv st l s d e (.at l' s' d' e')) (l'' : Rfc.Layer) (s'' : Nat)
    (hin : Rfc.innerOf st.fr l' s' = some (l'', s'')) :
    Pos l s d l'' s'' (d' + 1) ∧ Inv st l s d e (Rfc.arrive st.fr l'' s'' (d' + 1) e') := by
  obtain ⟨hnm, hr, hrel⟩ := h
  obtain ⟨hs'', hl''⟩ := inner_pos _ _ _ _ _ hin hr
  have hinv : ∀ (rel : ∀ a b c f, Rfc.arrive st.fr l'' s'' (d' + 1) e' = .at a b c f →
      ((∃ j, 0 < j ∧ Rfc.downN st j (.at a b c f) = .at l s d e) ∨ (a = l ∧ b = s ∧ c = d) ∨
        (d < c ∧ s + Rfc.fixedSize l ≤ b))), Inv st l s d e (Rfc.arrive st.fr l'' s'' (d' + 1) e') := by
    intro rel
    cases ha : Rfc.arrive st.fr l'' s'' (d' + 1) e' with
    | «at» a b c f =>
      obtain ⟨rfl, rfl, rfl, hnm'⟩ := arrive_at _ _ _ _ _ _ _ _ _ ha
      exact ⟨hnm', fun h => absurd h hl'', rel _ _ _ _ ha⟩
    | _ => trivial
  rcases hrel with ⟨j, hj, hd⟩ | ⟨rfl, rfl, rfl⟩ | ⟨h1, h2⟩
  · -- above the header
    obtain ⟨j', rfl⟩ : ∃ j', j = j' + 1 := ⟨j - 1, by omega⟩
    simp only [Rfc.downN, Rfc.down] at hd
    split at hd
    · exact absurd hd (downN_nonat st _ (by intro _ _ _ _ h; cases h) _ _ _ _ _)
    · rw [hin] at hd
      simp only at hd
      cases ha : Rfc.arrive st.fr l'' s'' (d' + 1) e' with
      | «at» a b c f =>
        rw [ha] at hd
        obtain ⟨rfl, rfl, rfl, hnm'⟩ := arrive_at _ _ _ _ _ _ _ _ _ ha
        obtain ⟨h1, h2, h3⟩ := downN_mono st l s d e j' a b (d' + 1) f hd hnm' (fun h => absurd h hl'')
        by_cases hj' : j' = 0
        · obtain ⟨rfl, rfl⟩ := h2 hj'
          refine ⟨Or.inr (Or.inl ⟨rfl, rfl, by omega⟩), ?_⟩
          rw [← ha]
          exact hinv (fun _ _ _ _ hh => by
            rw [ha] at hh; cases hh; exact Or.inr (Or.inl ⟨rfl, rfl, by omega⟩))
        · refine ⟨Or.inl ⟨by omega, (h3 (by omega)).1⟩, ?_⟩
          rw [← ha]
          exact hinv (fun _ _ _ _ hh => by
            rw [ha] at hh; cases hh; exact Or.inl ⟨j', by omega, hd⟩)
      | free => rw [ha] at hd; exact absurd hd (downN_nonat st _ (by intro _ _ _ _ h; cases h) _ _ _ _ _)
      | null => rw [ha] at hd; exact absurd hd (downN_nonat st _ (by intro _ _ _ _ h; cases h) _ _ _ _ _)
      | err => rw [ha] at hd; exact absurd hd (downN_nonat st _ (by intro _ _ _ _ h; cases h) _ _ _ _ _)
  · -- the header itself
    refine ⟨Or.inr (Or.inr ⟨by omega, by omega⟩), hinv (fun a b c f hh => ?_)⟩
    obtain ⟨rfl, rfl, rfl, -⟩ := arrive_at _ _ _ _ _ _ _ _ _ hh
    exact Or.inr (Or.inr ⟨by omega, by omega⟩)
  · -- below it
    refine ⟨Or.inr (Or.inr ⟨by omega, by omega⟩), hinv (fun a b c f hh => ?_)⟩
    obtain ⟨rfl, rfl, rfl, -⟩ := arrive_at _ _ _ _ _ _ _ _ _ hh
    exact Or.inr (Or.inr ⟨by omega, by omega⟩)


/-! ## the layering of the patched frame -/

/-- a reference state `st`, a header `l` at byte `s` (depth `d`, cursor `.at l s d e`) of its frame, a NON-structural
field `p` of that header with bit range `(o, w)`, and a second frame `fr'` that agrees with `st.fr` outside the bits
`8·s + o … 8·s + o + w` (for instance `Rfc.setBits st.fr (8·s + o) w n`: `setBits_patched`) -/
structure Ctx where
  st : Rfc.SState
  fr' : List Nat
  l : Rfc.Layer
  s : Nat
  d : Nat
  e : List Nat
  p : PP
  o : Nat
  w : Nat
  hl : l ≠ .record
  hlay : Rfc.layout l p = some (o, w)
  hns : structural l p = false
  P : Patched st.fr fr' (8 * s + o) w

/-- the state over the other frame -/
def Ctx.st' (C : Ctx) : Rfc.SState := { C.st with fr := C.fr' }

theorem Ctx.pos_clean (C : Ctx) (l' : Rfc.Layer) (s' d' : Nat) (h : Pos C.l C.s C.d l' s' d') :
    Clean (8 * C.s + C.o) C.w l' s' := by
  intro ab hab
  have hw := reads_within l' ab hab
  have hf := (layout_field C.l C.p C.o C.w C.hlay).2.2 C.hl
  rcases h with ⟨_, h⟩ | ⟨rfl, rfl, _⟩ | ⟨_, h⟩
  · left; omega
  · have hns := C.hns
    simp only [structural, C.hlay, List.any_eq_false] at hns
    have := hns ab hab
    simp at this
    omega
  · right; omega

theorem Ctx.inv_clean (C : Ctx) (l' : Rfc.Layer) (s' d' : Nat) (e' : List Nat)
    (h : Inv C.st C.l C.s C.d C.e (.at l' s' d' e')) : Clean (8 * C.s + C.o) C.w l' s' :=
  C.pos_clean l' s' d' (inv_pos _ _ _ _ _ _ _ _ _ h)

theorem Ctx.inner_same (C : Ctx) (l' : Rfc.Layer) (s' d' : Nat) (e' : List Nat)
    (h : Inv C.st C.l C.s C.d C.e (.at l' s' d' e')) : Rfc.innerOf C.fr' l' s' = Rfc.innerOf C.st.fr l' s' :=
  (layering_reads _ _ _ _ C.P l' s' (C.inv_clean l' s' d' e' h)).2.2

theorem Ctx.next_same (C : Ctx) (l' : Rfc.Layer) (s' d' : Nat) (e' : List Nat)
    (h : Inv C.st C.l C.s C.d C.e (.at l' s' d' e')) (l'' : Rfc.Layer) (s'' : Nat)
    (hin : Rfc.innerOf C.st.fr l' s' = some (l'', s'')) :
    Rfc.arrive C.fr' l'' s'' (d' + 1) e' = Rfc.arrive C.st.fr l'' s'' (d' + 1) e' ∧
    Inv C.st C.l C.s C.d C.e (Rfc.arrive C.st.fr l'' s'' (d' + 1) e') := by
  obtain ⟨hp, hi⟩ := inv_step _ _ _ _ _ _ _ _ _ h l'' s'' hin
  exact ⟨arrive_same _ _ _ _ C.P l'' s'' (C.pos_clean _ _ _ hp) _ _, hi⟩

theorem Ctx.down_same (C : Ctx) (c : Rfc.Cur) (h : Inv C.st C.l C.s C.d C.e c) :
    Rfc.down C.st' c = Rfc.down C.st c ∧ Inv C.st C.l C.s C.d C.e (Rfc.down C.st c) := by
  cases c with
  | «at» l' s' d' e' =>
    have hd : C.st'.isDirty d' = C.st.isDirty d' := rfl
    have hf : C.st'.fr = C.fr' := rfl
    simp only [Rfc.down, hd, hf, C.inner_same l' s' d' e' h]
    split
    · exact ⟨rfl, trivial⟩
    · cases hin : Rfc.innerOf C.st.fr l' s' with
      | none => exact ⟨rfl, trivial⟩
      | some ls =>
        obtain ⟨l'', s''⟩ := ls
        exact C.next_same l' s' d' e' h l'' s'' hin
  | _ => exact ⟨rfl, trivial⟩

theorem Ctx.downN_same (C : Ctx) : ∀ (n : Nat) (c : Rfc.Cur), Inv C.st C.l C.s C.d C.e c →
    Rfc.downN C.st' n c = Rfc.downN C.st n c ∧ Inv C.st C.l C.s C.d C.e (Rfc.downN C.st n c) := by
  intro n
  induction n with
  | zero => intro c h; exact ⟨rfl, h⟩
  | succ n ih =>
    intro c h
    obtain ⟨h1, h2⟩ := C.down_same c h
    simp only [Rfc.downN, h1]
    exact ih _ h2

theorem Ctx.cursorAt_same (C : Ctx) : ∀ (ns : List PP) (c : Rfc.Cur), Inv C.st C.l C.s C.d C.e c →
    Rfc.cursorAt C.st' ns c = Rfc.cursorAt C.st ns c ∧ Inv C.st C.l C.s C.d C.e (Rfc.cursorAt C.st ns c) := by
  intro ns
  induction ns with
  | nil => intro c h; exact ⟨rfl, h⟩
  | cons nm rest ih =>
    intro c h
    cases c with
    | «at» l' s' d' e' =>
      have hd : C.st'.isDirty d' = C.st.isDirty d' := rfl
      have hf : C.st'.fr = C.fr' := rfl
      simp only [Rfc.cursorAt, hd, hf, C.inner_same l' s' d' e' h]
      cases Rfc.Layer.propOf nm with
      | none => exact ⟨rfl, trivial⟩
      | some want =>
        simp only
        split
        · exact ⟨rfl, trivial⟩
        · cases hin : Rfc.innerOf C.st.fr l' s' with
          | none => exact ⟨rfl, trivial⟩
          | some ls =>
            obtain ⟨l'', s''⟩ := ls
            obtain ⟨h1, h2⟩ := C.next_same l' s' d' e' h l'' s'' hin
            simp only [h1]
            split
            · exact ih _ h2
            · exact ⟨rfl, trivial⟩
    | _ => exact ⟨rfl, trivial⟩


/-! ## what the reference reads on the patched frame -/

/-- the bits of the header a read of `q` may report: the field's own range; for `tcp.flags` the reference also allows
the four reserved bits in front of the control bits -/
def readRange (l' : Rfc.Layer) (q : PP) (a b : Nat) : Nat × Nat :=
  if l' = .tcp ∧ q = .flags then (100, 12) else (a, b)

set_option maxHeartbeats 1000000 in
/-- a field whose bits do not overlap the changed range reads the same on both frames -/
theorem fieldExpect_same (st : Rfc.SState) (fr' : List Nat) (O W : Nat) (P : Patched st.fr fr' O W)
    (l' : Rfc.Layer) (s' : Nat) (q : PP) (a b : Nat) (hlay : Rfc.layout l' q = some (a, b))
    (hdis : l' ≠ .record → 8 * s' + (readRange l' q a b).1 + (readRange l' q a b).2 ≤ O ∨
      O + W ≤ 8 * s' + (readRange l' q a b).1) :
    Rfc.fieldExpect { st with fr := fr' } l' s' q a b = Rfc.fieldExpect st l' s' q a b := by
  have hsl := P.slice
  have hby := P.byte
  cases l' <;> cases q <;> simp [Rfc.layout] at hlay <;> obtain ⟨rfl, rfl⟩ := hlay <;>
    simp [readRange] at hdis <;>
    simp (disch := omega) [Rfc.fieldExpect, Rfc.kindOf, Rfc.hdrAt, List.range, List.range.loop, byteAt_drop', hsl, hby]


/-- the payload of a header that ends after the changed range is the same on both frames -/
theorem payloadExpect_same (st : Rfc.SState) (fr' : List Nat) (O W : Nat) (P : Patched st.fr fr' O W)
    (l' : Rfc.Layer) (s' : Nat) (ends : List Nat) (hh : Rfc.headerLen fr' l' s' = Rfc.headerLen st.fr l' s')
    (hafter : O + W ≤ 8 * (s' + Rfc.headerLen st.fr l' s')) :
    Rfc.payloadExpect { st with fr := fr' } l' s' ends = Rfc.payloadExpect st l' s' ends := by
  simp only [Rfc.payloadExpect, hh, P.len, List.drop_take, P.drop _ hafter]

/-- two different fields of one header do not overlap (`tcp.len` and `tcp.dataoff` are one field) -/
theorem layout_disjoint (l : Rfc.Layer) (p q : PP) (o w a b : Nat) (hp : Rfc.layout l p = some (o, w))
    (hq : Rfc.layout l q = some (a, b)) (hne : q ≠ p)
    (halias : ¬(p = .dataoff ∧ q = .len) ∧ ¬(p = .len ∧ q = .dataoff)) :
    (readRange l q a b).1 + (readRange l q a b).2 ≤ o ∨ o + w ≤ (readRange l q a b).1 := by
  cases l <;> cases p <;> simp [Rfc.layout] at hp <;> obtain ⟨rfl, rfl⟩ := hp <;>
    cases q <;> simp [Rfc.layout] at hq <;> obtain ⟨rfl, rfl⟩ := hq <;> simp [readRange] at hne halias ⊢

/-- the reads (property `q` of the layer at depth `d'`) an assignment to `p` of the layer at depth `d` is meant to change: the field itself (under either of its names), and the payload of
a layer above it, which contains the field's bytes -/
def Touches (d : Nat) (p : PP) (d' : Nat) (q : PP) : Prop :=
  (d' = d ∧ (q = p ∨ (p = .dataoff ∧ q = .len) ∨ (p = .len ∧ q = .dataoff))) ∨ (q = .payload ∧ d' < d)

theorem Ctx.readFrom_same (C : Ctx) : ∀ (path : List PP) (c : Rfc.Cur), Inv C.st C.l C.s C.d C.e c →
    (∀ ns q l' s' d' e', path = ns ++ [q] → Rfc.cursorAt C.st ns c = .at l' s' d' e' → ¬ Touches C.d C.p d' q) →
    Rfc.readFrom C.st' path c = Rfc.readFrom C.st path c := by
  intro path
  induction path with
  | nil => intro c _ _; rfl
  | cons q ps ih =>
    intro c h hex
    cases c with
    | «at» l' s' d' e' =>
      have hd : C.st'.isDirty d' = C.st.isDirty d' := rfl
      have hf : C.st'.fr = C.fr' := rfl
      simp only [Rfc.readFrom, hd, hf, C.inner_same l' s' d' e' h]
      cases hnm : Rfc.Layer.propOf q with
      | some want =>
        simp only
        split
        · rfl
        · rename_i hdirty
          cases hin : Rfc.innerOf C.st.fr l' s' with
          | none => rfl
          | some ls =>
            obtain ⟨l'', s''⟩ := ls
            obtain ⟨h1, h2⟩ := C.next_same l' s' d' e' h l'' s'' hin
            simp only [h1]
            split
            · rename_i hw
              apply ih _ h2
              intro ns q0 a b c f hps hc
              apply hex (q :: ns) q0 a b c f (by rw [hps]; rfl)
              subst hw
              simpa [Rfc.cursorAt, hnm, hdirty, hin] using hc
            · rfl
      | none =>
        simp only
        cases ps with
        | cons r rs => simp only [List.isEmpty_cons, Bool.not_false, if_true]
        | nil =>
          have hnt := hex [] q l' s' d' e' rfl rfl
          have hpos := inv_pos _ _ _ _ _ _ _ _ _ h
          have hclean := C.inv_clean l' s' d' e' h
          have hfix := (layout_field C.l C.p C.o C.w C.hlay).2.2 C.hl
          simp only [List.isEmpty_nil, Bool.not_true, Bool.false_eq_true, if_false]
          by_cases hpay : q = .payload
          · simp only [hpay, if_true]
            split
            · rfl
            · apply payloadExpect_same C.st C.fr' _ _ C.P l' s' e' (layering_reads _ _ _ _ C.P l' s' hclean).1
              have hnm' := h.1
              rcases hpos with ⟨h1, _⟩ | ⟨rfl, rfl, _⟩ | ⟨_, h3⟩
              · exact absurd (Or.inr ⟨hpay, h1⟩) hnt
              · omega
              · omega
          · simp only [hpay, if_false]
            cases hlq : Rfc.layout l' q with
            | none => rfl
            | some ab =>
              obtain ⟨a, b⟩ := ab
              apply fieldExpect_same C.st C.fr' _ _ C.P l' s' q a b hlq
              intro hrec
              have hin : (readRange l' q a b).1 + (readRange l' q a b).2 ≤ 8 * Rfc.fixedSize l' := by
                have := (layout_field l' q a b hlq).2.2 hrec
                simp only [readRange]
                split
                · rename_i hh; rw [hh.1]; simp [Rfc.fixedSize]
                · exact this
              rcases hpos with ⟨_, h1⟩ | ⟨rfl, rfl, hdd⟩ | ⟨_, h3⟩
              · left; omega
              · have hqp : q ≠ C.p := fun hh => hnt (Or.inl ⟨hdd, Or.inl hh⟩)
                have hal : ¬(C.p = .dataoff ∧ q = .len) ∧ ¬(C.p = .len ∧ q = .dataoff) :=
                  ⟨fun hh => hnt (Or.inl ⟨hdd, Or.inr (Or.inl hh)⟩), fun hh => hnt (Or.inl ⟨hdd, Or.inr (Or.inr hh)⟩)⟩
                have := layout_disjoint _ C.p q C.o C.w a b C.hlay hlq hqp hal
                omega
              · right; omega
    | _ => rfl


theorem downN_add (st : Rfc.SState) : ∀ (a b : Nat) (c : Rfc.Cur), Rfc.downN st (a + b) c = Rfc.downN st b (Rfc.downN st a c) := by
  intro a
  induction a with
  | zero => intro b c; simp [Rfc.downN]
  | succ a ih =>
    intro b c
    have : a + 1 + b = (a + b) + 1 := by omega
    rw [this]
    simp only [Rfc.downN]
    exact ih b _

/-- a path of layer names that arrives somewhere went down one layer per name -/
theorem cursorAt_is_downN (st : Rfc.SState) (l : Rfc.Layer) (s d : Nat) (e : List Nat) :
    ∀ (ns : List PP) (c : Rfc.Cur), Rfc.cursorAt st ns c = .at l s d e → Rfc.downN st ns.length c = .at l s d e := by
  intro ns
  induction ns with
  | nil => intro c h; exact h
  | cons nm rest ih =>
    intro c h
    cases c with
    | «at» l' s' d' e' =>
      simp only [Rfc.cursorAt] at h
      cases hnm : Rfc.Layer.propOf nm with
      | none => rw [hnm] at h; cases h
      | some want =>
        rw [hnm] at h
        simp only at h
        split at h
        · cases h
        · rename_i hdirty
          cases hin : Rfc.innerOf st.fr l' s' with
          | none => rw [hin] at h; cases h
          | some ls =>
            obtain ⟨l'', s''⟩ := ls
            rw [hin] at h
            simp only at h
            split at h
            · simp only [List.length_cons, Rfc.downN, Rfc.down, hdirty, hin]
              exact ih _ h
            · cases h
    | free => cases h
    | null => cases h
    | err => cases h

theorem target_on_chain (st : Rfc.SState) (hd : Rfc.Head) (ns : List PP) (l : Rfc.Layer) (s d : Nat) (e : List Nat)
    (h : Rfc.cursorAt st ns (Rfc.headCur st hd) = .at l s d e) : ∃ k, Rfc.downN st k Rfc.startCur = .at l s d e := by
  cases hd with
  | pkt => exact ⟨ns.length, cursorAt_is_downN st l s d e ns _ h⟩
  | dollar n =>
    simp only [Rfc.headCur] at h
    split at h
    · cases ns <;> cases h
    · exact ⟨n.toNat + ns.length, by rw [downN_add]; exact cursorAt_is_downN st l s d e ns _ h⟩

theorem inv_start (st : Rfc.SState) (l : Rfc.Layer) (s d : Nat) (e : List Nat) (hl : l ≠ .record)
    (hT : ∃ k, Rfc.downN st k Rfc.startCur = .at l s d e) : Inv st l s d e Rfc.startCur := by
  obtain ⟨k, hk⟩ := hT
  refine ⟨by simp [Rfc.fixedSize], fun _ => rfl, Or.inl ⟨k, ?_, hk⟩⟩
  cases k with
  | zero => simp only [Rfc.downN, Rfc.startCur] at hk; cases hk; exact absurd rfl hl
  | succ k => omega

theorem Ctx.headCur_same (C : Ctx) (hT : ∃ k, Rfc.downN C.st k Rfc.startCur = .at C.l C.s C.d C.e) (hd' : Rfc.Head) :
    Rfc.headCur C.st' hd' = Rfc.headCur C.st hd' ∧ Inv C.st C.l C.s C.d C.e (Rfc.headCur C.st hd') := by
  have h0 := inv_start C.st C.l C.s C.d C.e C.hl hT
  cases hd' with
  | pkt => exact ⟨rfl, h0⟩
  | dollar n =>
    simp only [Rfc.headCur]
    split
    · exact ⟨rfl, trivial⟩
    · exact C.downN_same _ _ h0

/-- the context of one assignment: the frame with the field's bits replaced -/
def mkCtx (st : Rfc.SState) (hw : wf st.fr) (l : Rfc.Layer) (s d : Nat) (e : List Nat) (hl : l ≠ .record) (p : PP) (o w : Nat)
    (hlay : Rfc.layout l p = some (o, w)) (hns : structural l p = false) (n : Nat) : Ctx :=
  { st := st, fr' := Rfc.setBits st.fr (8 * s + o) w n, l := l, s := s, d := d, e := e, p := p, o := o, w := w,
    hl := hl, hlay := hlay, hns := hns, P := setBits_patched st.fr hw (8 * s + o) w n }

theorem patch_eq (st : Rfc.SState) (l : Rfc.Layer) (s o w n : Nat) (hl : l ≠ .record) :
    st.patch l s o w n = { st with fr := Rfc.setBits st.fr (8 * s + o) w n } := by
  simp [Rfc.SState.patch, hl]

/-- **the layering of the patched frame is the old one** when the assigned field is not structural: for a state whose
layer names `names` (from head `hd`) lead to the header `l` at byte `s`, and a non-structural field `p` of `l` with bit
range `(o, w)`: over the state patched the way the reference patches it (`Rfc.SState.patch`: the frame becomes
`Rfc.setBits frame (8·s + o) w n`), EVERY head and path of layer names leads to the same cursor — the same layer kind at
the same offset and depth with the same delimiting ends, or the same error / null / free verdict -/
theorem cursor_patched (st : Rfc.SState) (hw : wf st.fr) (hd : Rfc.Head) (names : List PP) (l : Rfc.Layer) (s d : Nat)
    (e : List Nat) (hcur : Rfc.cursorAt st names (Rfc.headCur st hd) = .at l s d e) (hl : l ≠ .record)
    (p : PP) (o w : Nat) (hlay : Rfc.layout l p = some (o, w)) (hns : structural l p = false) (n : Nat)
    (hd' : Rfc.Head) (names' : List PP) :
    Rfc.cursorAt (st.patch l s o w n) names' (Rfc.headCur (st.patch l s o w n) hd') =
      Rfc.cursorAt st names' (Rfc.headCur st hd') := by
  rw [patch_eq st l s o w n hl]
  let C := mkCtx st hw l s d e hl p o w hlay hns n
  obtain ⟨h1, h2⟩ := C.headCur_same (target_on_chain st hd names l s d e hcur) hd'
  show Rfc.cursorAt C.st' names' (Rfc.headCur C.st' hd') = Rfc.cursorAt C.st names' (Rfc.headCur C.st hd')
  rw [h1]
  exact (C.cursorAt_same names' _ h2).1

/-- **the reference reads of the patched frame are the old ones**, for every head and every path — whatever it ends
in: a field, a layer name, `payload`, a name that disagrees with the type field — except the reads the assignment is
meant to change (`Touches`): the assigned field itself (`tcp.len` and `tcp.dataoff` are one field) and the `payload` of
a layer ABOVE the assigned one, which contains the field's bytes -/
theorem reference_read_patched (st : Rfc.SState) (hw : wf st.fr) (hd : Rfc.Head) (names : List PP) (l : Rfc.Layer) (s d : Nat)
    (e : List Nat) (hcur : Rfc.cursorAt st names (Rfc.headCur st hd) = .at l s d e) (hl : l ≠ .record)
    (p : PP) (o w : Nat) (hlay : Rfc.layout l p = some (o, w)) (hns : structural l p = false) (n : Nat)
    (hd' : Rfc.Head) (path : List PP)
    (hother : ∀ ns q l' s' d' e', path = ns ++ [q] → Rfc.cursorAt st ns (Rfc.headCur st hd') = .at l' s' d' e' →
      ¬ Touches d p d' q) :
    Rfc.readExpect (st.patch l s o w n) hd' path = Rfc.readExpect st hd' path := by
  rw [patch_eq st l s o w n hl]
  let C := mkCtx st hw l s d e hl p o w hlay hns n
  obtain ⟨h1, h2⟩ := C.headCur_same (target_on_chain st hd names l s d e hcur) hd'
  have := C.readFrom_same path _ h2 hother
  show Rfc.readExpect C.st' hd' path = Rfc.readExpect C.st hd' path
  have hwild : C.st'.wild = C.st.wild := rfl
  simp only [Rfc.readExpect, hwild, h1, this]


/-! ## the model: what the getters of a re-parsed header yield -/

theorem get_none (l' : Rfc.Layer) (q : PP) (b : Nat → Nat) (h : Rfc.layout l' q = none) : (parseAs l' b).get q = none := by
  cases l' <;> cases q <;> simp [Rfc.layout] at h <;> rfl

theorem readRange_covers (l' : Rfc.Layer) (q : PP) (a b : Nat) (hlq : Rfc.layout l' q = some (a, b)) :
    (readRange l' q a b).1 ≤ a ∧ a + b ≤ (readRange l' q a b).1 + (readRange l' q a b).2 := by
  simp only [readRange]
  split
  · rename_i h
    obtain ⟨rfl, rfl⟩ := h
    simp [Rfc.layout] at hlq
    obtain ⟨rfl, rfl⟩ := hlq
    simp
  · simp

set_option maxHeartbeats 1000000 in
/-- **the getter of a header parsed from the other frame**: a property whose bits do not overlap the changed range
yields the same value -/
theorem get_same (raw raw' : List Nat) (O W : Nat) (P : Patched raw raw' O W) (hw : wf raw) (hw' : wf raw')
    (l' : Rfc.Layer) (s' : Nat) (q : PP) (hrec : l' ≠ .record)
    (hdis : ∀ a b, Rfc.layout l' q = some (a, b) → 8 * s' + a + b ≤ O ∨ O + W ≤ 8 * s' + a) :
    (parseAs l' (rd raw' s')).get q = (parseAs l' (rd raw s')).get q := by
  cases hlq : Rfc.layout l' q with
  | none => rw [get_none l' q _ hlq, get_none l' q _ hlq]
  | some ab =>
    obtain ⟨a, b⟩ := ab
    have hd := hdis a b hlq
    have hwithin := C16.layout_within l' q a b hlq hrec
    cases hk : Rfc.kindOf l' q with
    | num =>
      rw [C16.getter_is_slice l' q a b _ (rd_lt hw' s') hlq hk hrec, C16.getter_is_slice l' q a b _ (rd_lt hw s') hlq hk hrec,
        C16.slice_hdr_drop raw' s' _ a b hwithin, C16.slice_hdr_drop raw s' _ a b hwithin, P.slice s' a b (by omega)]
    | flag =>
      have : l' = .dot1q ∧ q = .dei := by
        cases l' <;> cases q <;> simp [Rfc.kindOf] at hk <;> simp [Rfc.layout] at hlq <;> exact ⟨rfl, rfl⟩
      obtain ⟨rfl, rfl⟩ := this
      simp [Rfc.layout] at hlq
      obtain ⟨rfl, rfl⟩ := hlq
      rw [C16.dei_is_slice _ (rd_lt hw' s'), C16.dei_is_slice _ (rd_lt hw s'),
        C16.slice_hdr_drop raw' s' 4 3 1 (by omega), C16.slice_hdr_drop raw s' 4 3 1 (by omega), P.slice s' 3 1 (by omega)]
    | mac =>
      have hby : ∀ j, (8 * j + 8 ≤ O ∨ O + W ≤ 8 * j) → getB raw' j = getB raw j := P.byte
      cases l' <;> cases q <;> simp [Rfc.kindOf] at hk <;> simp [Rfc.layout] at hlq <;> obtain ⟨rfl, rfl⟩ := hlq <;>
        simp (disch := omega) [parseAs, Hdr.get, EthHdr.get, EthHdr.parse, rd, hby]
    | v4 =>
      have hby : ∀ j, (8 * j + 8 ≤ O ∨ O + W ≤ 8 * j) → getB raw' j = getB raw j := P.byte
      cases l' <;> cases q <;> simp [Rfc.kindOf] at hk <;> simp [Rfc.layout] at hlq <;> obtain ⟨rfl, rfl⟩ := hlq <;>
        simp (disch := omega) [parseAs, Hdr.get, Ipv4Hdr.get, Ipv4Hdr.parse, rd, hby]
    | v6 =>
      have hby : ∀ j, (8 * j + 8 ≤ O ∨ O + W ≤ 8 * j) → getB raw' j = getB raw j := P.byte
      cases l' <;> cases q <;> simp [Rfc.kindOf] at hk <;> simp [Rfc.layout] at hlq <;> obtain ⟨rfl, rfl⟩ := hlq <;>
        simp (disch := omega) [parseAs, Hdr.get, Ipv6Hdr.get, Ipv6Hdr.parse, v6Groups, List.range, List.range.loop, rd, hby]

/-- where an untouched field of a layer on the chain lies relative to the assigned bits -/
theorem Ctx.field_disjoint (C : Ctx) (l' : Rfc.Layer) (s' d' : Nat) (e' : List Nat)
    (h : Inv C.st C.l C.s C.d C.e (.at l' s' d' e')) (q : PP) (a b : Nat) (hlq : Rfc.layout l' q = some (a, b))
    (hnt : ¬ Touches C.d C.p d' q) (hrec : l' ≠ .record) :
    8 * s' + a + b ≤ 8 * C.s + C.o ∨ 8 * C.s + C.o + C.w ≤ 8 * s' + a := by
  have hpos := inv_pos _ _ _ _ _ _ _ _ _ h
  have hfix := (layout_field C.l C.p C.o C.w C.hlay).2.2 C.hl
  have hin := (layout_field l' q a b hlq).2.2 hrec
  rcases hpos with ⟨_, h1⟩ | ⟨rfl, rfl, hdd⟩ | ⟨_, h3⟩
  · left; omega
  · have hqp : q ≠ C.p := fun hh => hnt (Or.inl ⟨hdd, Or.inl hh⟩)
    have hal : ¬(C.p = .dataoff ∧ q = .len) ∧ ¬(C.p = .len ∧ q = .dataoff) :=
      ⟨fun hh => hnt (Or.inl ⟨hdd, Or.inr (Or.inl hh)⟩), fun hh => hnt (Or.inl ⟨hdd, Or.inr (Or.inr hh)⟩)⟩
    have := layout_disjoint _ C.p q C.o C.w a b C.hlay hlq hqp hal
    have := readRange_covers _ q a b hlq
    omega
  · right; omega

/-- the payload of the assigned layer and of every layer below it starts after the assigned bits -/
theorem Ctx.payload_after (C : Ctx) (l' : Rfc.Layer) (s' d' : Nat) (e' : List Nat)
    (h : Inv C.st C.l C.s C.d C.e (.at l' s' d' e')) (hnt : ¬ d' < C.d) :
    8 * C.s + C.o + C.w ≤ 8 * (s' + Rfc.headerLen C.st.fr l' s') := by
  have hpos := inv_pos _ _ _ _ _ _ _ _ _ h
  have hfix := (layout_field C.l C.p C.o C.w C.hlay).2.2 C.hl
  have hnm := h.1
  rcases hpos with ⟨h1, _⟩ | ⟨rfl, rfl, _⟩ | ⟨_, h3⟩
  · exact absurd h1 hnt
  · omega
  · omega


/-! ## the packet: reads through the re-parsed packet -/

theorem walk_payload_out (raw : List Nat) (h : Hdr) (off : Nat) (inner : Obj) :
    (walk raw none [.payload] (.layer h off inner)).2 = .ok (bytesVal (raw.drop off)) := by
  have : layerProp h .payload = none := layerProp_none h .payload rfl
  simp [walk, getProp, this]

/-- a path of names that ends at the record layer is the empty path from `pkt` or `$0` -/
theorem cursor_record (st : Rfc.SState) (hd' : Head) (names' : List PP) (s' d' : Nat) (e' : List Nat)
    (h : Rfc.cursorAt st names' (Rfc.headCur st (headOf hd')) = .at .record s' d' e') :
    names' = [] ∧ d' = 0 ∧ ∀ raw root path, access raw root hd' path none = walk raw none path root := by
  have hst : Rfc.fixedSize .record ≤ Rfc.headerLen st.fr .record 0 := by simp [Rfc.headerLen]
  cases hd' with
  | pkt =>
    have := cursorAt_is_downN st .record s' d' e' names' _ h
    obtain ⟨h1, -, h3⟩ := downN_mono st .record s' d' e' names'.length .record 0 0 [] this hst (fun _ => rfl)
    have hz : names'.length = 0 := by
      rcases Nat.eq_zero_or_pos names'.length with hz | hpos
      · exact hz
      · exact absurd rfl (h3 hpos).2
    exact ⟨List.length_eq_zero_iff.mp hz, by omega, fun _ _ _ => rfl⟩
  | dollar m =>
    simp only [headOf, Rfc.headCur] at h
    split at h
    · cases names' <;> cases h
    · rename_i hm
      have := cursorAt_is_downN st .record s' d' e' names' _ h
      rw [← downN_add] at this
      obtain ⟨h1, -, h3⟩ := downN_mono st .record s' d' e' _ .record 0 0 [] this hst (fun _ => rfl)
      have hz : m.toNat + names'.length = 0 := by
        rcases Nat.eq_zero_or_pos (m.toNat + names'.length) with hz | hpos
        · exact hz
        · exact absurd rfl (h3 hpos).2
      have hm' : ¬ (m < 0 ∨ m > (maxProtoDepth : Int)) := hm
      have hm0 : m.toNat = 0 := by omega
      refine ⟨List.length_eq_zero_iff.mp (by omega), by omega, fun raw root path => ?_⟩
      simp [access, hm', hm0, descend]

/-- **reads on the fresh packet over the patched frame**: for a frame whose layer names `names` (from `hd`) lead to the
header `l` at byte `s`, a non-structural field `p` of `l` with bit range `(o, w)` and any `n`: on the fresh packet over
`Rfc.setBits raw (8·s + o) w n`, every property `q` (a field or `payload`) of every layer a path of names `names'`
(from any head `hd'`) leads to reads what it reads on the fresh packet over `raw` — except the reads `Touches` names -/
theorem fresh_read_same (ph : PcapHdr) (raw : List Nat) (hw : wf raw) (hd : Head) (names : List PP)
    (l : Rfc.Layer) (s d : Nat) (e : List Nat)
    (hcur : Rfc.cursorAt (specState ph raw) names (Rfc.headCur (specState ph raw) (headOf hd)) = .at l s d e)
    (hl : l ≠ .record) (p : PP) (o w : Nat) (hlay : Rfc.layout l p = some (o, w)) (hns : structural l p = false) (n : Nat)
    (hd' : Head) (names' : List PP) (q : PP) (l' : Rfc.Layer) (s' d' : Nat) (e' : List Nat)
    (hcur' : Rfc.cursorAt (specState ph raw) names' (Rfc.headCur (specState ph raw) (headOf hd')) = .at l' s' d' e')
    (hq : Rfc.Layer.propOf q = none) (hnt : ¬ Touches d p d' q) :
    (access (Rfc.setBits raw (8 * s + o) w n) (Pkt.new ph (Rfc.setBits raw (8 * s + o) w n)).root hd' (names' ++ [q]) none).2 =
      (access raw (Pkt.new ph raw).root hd' (names' ++ [q]) none).2 := by
  have hw' : wf (Rfc.setBits raw (8 * s + o) w n) := setBits_wf raw _ _ _
  let C := mkCtx (specState ph raw) hw l s d e hl p o w hlay hns n
  have hT := target_on_chain _ _ _ _ _ _ _ hcur
  by_cases hrec : l' = .record
  · subst hrec
    obtain ⟨rfl, rfl, hacc⟩ := cursor_record _ hd' names' s' d' e' hcur'
    have hd0 : 0 < d := by
      obtain ⟨k, hk⟩ := hT
      obtain ⟨h1, h2, -⟩ := downN_mono _ l s d e k .record 0 0 [] hk (by simp [Rfc.headerLen]) (fun _ => rfl)
      rcases Nat.eq_zero_or_pos k with hz | hpos
      · exact absurd (h2 hz).1.symm hl
      · omega
    have hpay : q ≠ .payload := fun hh => hnt (Or.inr ⟨hh, hd0⟩)
    rw [hacc, hacc]
    have hlp : ∀ x, layerProp (.pcap x) q = none := fun x => layerProp_none _ q hq
    simp [walk, getProp, Pkt.new, hlp, hpay]
  · obtain ⟨h1, h2⟩ := C.headCur_same hT (headOf hd')
    obtain ⟨h3, h4⟩ := C.cursorAt_same names' _ h2
    have hcur'' : Rfc.cursorAt (specState ph (Rfc.setBits raw (8 * s + o) w n)) names'
        (Rfc.headCur (specState ph (Rfc.setBits raw (8 * s + o) w n)) (headOf hd')) = .at l' s' d' e' := by
      show Rfc.cursorAt C.st' names' (Rfc.headCur C.st' (headOf hd')) = _
      rw [h1, h3]; exact hcur'
    have hinv : Inv C.st C.l C.s C.d C.e (.at l' s' d' e') := by
      have : Rfc.cursorAt C.st names' (Rfc.headCur C.st (headOf hd')) = .at l' s' d' e' := hcur'
      rw [this] at h4; exact h4
    obtain ⟨oA, hstA, hpaA, houtA, -, -⟩ := C16.access_spine ph raw hw hd' names' q [] l' s' d' e' hcur'
    obtain ⟨oB, hstB, hpaB, houtB, -, -⟩ := C16.access_spine ph _ hw' hd' names' q [] l' s' d' e' hcur''
    obtain ⟨hoA, -, -, -⟩ := target_object raw hw oA l' s' d' e' hrec hstA hpaA
    obtain ⟨hoB, -, -, -⟩ := target_object _ hw' oB l' s' d' e' hrec hstB hpaB
    rw [houtA none, houtB none, hoA, hoB]
    have hP : Patched raw (Rfc.setBits raw (8 * s + o) w n) (8 * s + o) w := C.P
    by_cases hpay : q = .payload
    · subst hpay
      rw [walk_payload_out, walk_payload_out]
      have hh := (layering_reads _ _ _ _ hP l' s' (C.inv_clean l' s' d' e' hinv)).1
      have hafter : 8 * s + o + w ≤ 8 * (s' + Rfc.headerLen raw l' s') :=
        C.payload_after l' s' d' e' hinv (fun hh => hnt (Or.inr ⟨rfl, hh⟩))
      rw [hh, hP.drop _ hafter]
    · rw [read_field_out _ q _ _ _ hq hpay, read_field_out _ q _ _ _ hq hpay,
        get_same raw _ _ _ hP hw hw' l' s' q hrec (fun a b hlq => C.field_disjoint l' s' d' e' hinv q a b hlq hnt hrec)]


theorem run_get_one (P : Pkt) (hd' : Head) (path : List PP) :
    (P.run [.get hd' path]).2 = [(access P.raw P.root hd' path none).2.toOut] := by
  simp [Pkt.run, Pkt.step]

theorem run_set_reparse_get (P : Pkt) (hd hd' : Head) (path path' : List PP) (v : Val) :
    (P.run [.set hd path v, .reparse, .get hd' path']).2 =
      (P.run [.set hd path v]).2 ++ [.bytes (P.run [.set hd path v]).1.bytes] ++
        ((P.run [.set hd path v, .reparse]).1.run [.get hd' path']).2 := by
  simp [Pkt.run, Pkt.step]

/-- **C17 on the packet, (2b): after serialise + re-parse every other property of every layer reads as before.**
A fresh packet over a well-formed frame (record header within 32 bits); ONE accepted assignment `pkt.<names>.p = v` /
`$n.<names>.p = v` of a numeric, NON-structural field `p` (bit range `(o, w)`) of the layer `l` the names lead to
(reference cursor at byte `s`, depth `d`); the packet is written out and re-parsed (`.reparse`, which yields the bytes:
record header ++ frame with exactly the field's bits replaced by `n`, the value the field now holds).  Then for EVERY
head `hd'` (`pkt` or any `$m`), every path of layer names `names'` that leads to a layer of the original frame (cursor
`.at l' s' d' e'`) and every property `q` of it that is not a layer name — a field of any kind (number, flag, MAC / IPv4
/ IPv6 address text), a word of the record header, `payload`, or no property of that layer at all (a runtime error) —
the read `hd'.<names'>.q` through the re-parsed packet yields exactly what it yields on the untouched packet.
Excepted (`Touches`): the assigned field itself (`tcp.len` / `tcp.dataoff` are one field) — it reads `n`,
`set_then_read` — and the `payload` of a layer ABOVE the assigned one, which contains the assigned bytes
(`payload_above_patched` says what it reads). -/
theorem set_then_others_read_same (ph : PcapHdr) (hfit : C15.PcapHdr.fits ph) (raw : List Nat) (hw : wf raw) (hd : Head)
    (names : List PP) (p : PP) (v : Val) (l : Rfc.Layer) (s d : Nat) (e : List Nat) (o w : Nat)
    (hcur : Rfc.cursorAt (specState ph raw) names (Rfc.headCur (specState ph raw) (headOf hd)) = .at l s d e)
    (hl : l ≠ .record) (hlay : Rfc.layout l p = some (o, w)) (hk : Rfc.kindOf l p = .num) (h1 : Hdr)
    (hs : (parseAs l (rd raw s)).set p (toSetVal v) = some h1) (hns : structural l p = false) :
    ∃ n, n < 2 ^ w ∧ h1.get p = some (.num n) ∧
      ∀ (hd' : Head) (names' : List PP) (q : PP) (l' : Rfc.Layer) (s' d' : Nat) (e' : List Nat),
        Rfc.cursorAt (specState ph raw) names' (Rfc.headCur (specState ph raw) (headOf hd')) = .at l' s' d' e' →
        Rfc.Layer.propOf q = none → ¬ Touches d p d' q →
        ((Pkt.new ph raw).run [.set hd (names ++ [p]) v, .reparse, .get hd' (names' ++ [q])]).2 =
          .ok v :: .bytes (ph.toBytes ++ Rfc.setBits raw (8 * s + o) w n) ::
            ((Pkt.new ph raw).run [.get hd' (names' ++ [q])]).2 := by
  obtain ⟨n, hn, hget, hP⟩ := set_then_reparse_packet ph hfit raw hw hd names p v l s d e o w hcur hl hlay hk h1 hs
  obtain ⟨n', -, hget', hout, hbytes⟩ := set_then_serialise ph raw hw hd names p v l s d e o w hcur hl hlay hk h1 hs
  have hnn : n' = n := by rw [hget] at hget'; cases hget'; rfl
  subst hnn
  refine ⟨n', hn, hget, ?_⟩
  intro hd' names' q l' s' d' e' hcur' hq hnt
  rw [run_set_reparse_get, hout, hbytes, hP, run_get_one, run_get_one]
  have := fresh_read_same ph raw hw hd names l s d e hcur hl p o w hlay hns n' hd' names' q l' s' d' e' hcur' hq hnt
  simp only [Pkt.new] at this ⊢
  rw [this]
  rfl


/-! ### the payload of a layer above the assigned one -/

theorem setBits_drop (bs : List Nat) (O W v t : Nat) (h : 8 * t ≤ O) :
    (Rfc.setBits bs O W v).drop t = Rfc.setBits (bs.drop t) (O - 8 * t) W v := by
  apply List.ext_getElem
  · simp [setBits_length]
  · intro i h1 h2
    have h1' : t + i < (Rfc.setBits bs O W v).length := by rw [List.length_drop] at h1; omega
    simp only [List.getElem_drop]
    rw [setBits_getElem _ _ _ _ _ h1', setBits_getElem, byteAt_drop']
    have := setByte_shift (Rfc.byteAt bs (t + i)) i (O - 8 * t) W v t
    have e1 : i + t = t + i := by omega
    have e2 : O - 8 * t + 8 * t = O := by omega
    rw [e1, e2] at this
    exact this

/-- **the payload of a layer ABOVE the assigned one, read through the re-parsed packet**: the old payload with exactly
the assigned field's bits replaced — the bit range counted from the start of that payload -/
theorem payload_above_patched (ph : PcapHdr) (raw : List Nat) (hw : wf raw) (hd : Head) (names : List PP)
    (l : Rfc.Layer) (s d : Nat) (e : List Nat)
    (hcur : Rfc.cursorAt (specState ph raw) names (Rfc.headCur (specState ph raw) (headOf hd)) = .at l s d e)
    (hl : l ≠ .record) (p : PP) (o w : Nat) (hlay : Rfc.layout l p = some (o, w)) (hns : structural l p = false) (n : Nat)
    (hd' : Head) (names' : List PP) (l' : Rfc.Layer) (s' d' : Nat) (e' : List Nat)
    (hcur' : Rfc.cursorAt (specState ph raw) names' (Rfc.headCur (specState ph raw) (headOf hd')) = .at l' s' d' e')
    (hrec : l' ≠ .record) (habove : d' < d) :
    s' + Rfc.headerLen raw l' s' ≤ s ∧
    (access raw (Pkt.new ph raw).root hd' (names' ++ [.payload]) none).2 =
      .ok (bytesVal (raw.drop (s' + Rfc.headerLen raw l' s'))) ∧
    (access (Rfc.setBits raw (8 * s + o) w n) (Pkt.new ph (Rfc.setBits raw (8 * s + o) w n)).root hd'
        (names' ++ [.payload]) none).2 =
      .ok (bytesVal (Rfc.setBits (raw.drop (s' + Rfc.headerLen raw l' s'))
        (8 * (s - (s' + Rfc.headerLen raw l' s')) + o) w n)) := by
  have hw' : wf (Rfc.setBits raw (8 * s + o) w n) := setBits_wf raw _ _ _
  let C := mkCtx (specState ph raw) hw l s d e hl p o w hlay hns n
  have hT := target_on_chain _ _ _ _ _ _ _ hcur
  obtain ⟨h1, h2⟩ := C.headCur_same hT (headOf hd')
  obtain ⟨h3, h4⟩ := C.cursorAt_same names' _ h2
  have hcur'' : Rfc.cursorAt (specState ph (Rfc.setBits raw (8 * s + o) w n)) names'
      (Rfc.headCur (specState ph (Rfc.setBits raw (8 * s + o) w n)) (headOf hd')) = .at l' s' d' e' := by
    show Rfc.cursorAt C.st' names' (Rfc.headCur C.st' (headOf hd')) = _
    rw [h1, h3]; exact hcur'
  have hinv : Inv C.st C.l C.s C.d C.e (.at l' s' d' e') := by
    have : Rfc.cursorAt C.st names' (Rfc.headCur C.st (headOf hd')) = .at l' s' d' e' := hcur'
    rw [this] at h4; exact h4
  -- the next layer starts at or before the assigned header
  have hCs : C.s = s := rfl
  have hCd : C.d = d := rfl
  have hle : s' + Rfc.headerLen raw l' s' ≤ s := by
    obtain ⟨hnm, hr, ⟨j, hj, hdn⟩ | ⟨_, _, hh⟩ | ⟨hh, _⟩⟩ := hinv
    · obtain ⟨j', rfl⟩ : ∃ j', j = j' + 1 := ⟨j - 1, by omega⟩
      simp only [Rfc.downN, Rfc.down] at hdn
      split at hdn
      · exact absurd hdn (downN_nonat _ _ (by intro _ _ _ _ h; cases h) _ _ _ _ _)
      · cases hin : Rfc.innerOf C.st.fr l' s' with
        | none => rw [hin] at hdn; exact absurd hdn (downN_nonat _ _ (by intro _ _ _ _ h; cases h) _ _ _ _ _)
        | some ls =>
          obtain ⟨l'', s''⟩ := ls
          have hpos := (inv_step _ _ _ _ _ _ _ _ _ ⟨hnm, hr, Or.inl ⟨j' + 1, hj, by
            simp only [Rfc.downN, Rfc.down]; rw [if_neg (by assumption)]; exact hdn⟩⟩ l'' s'' hin).1
          obtain ⟨hs'', -⟩ := inner_pos _ _ _ _ _ hin hr
          have : s'' ≤ s := by
            rcases hpos with ⟨_, h⟩ | ⟨_, h, _⟩ | ⟨h, _⟩
            · omega
            · omega
            · omega
          have hfr : C.st.fr = raw := rfl
          rw [hfr] at hs''
          omega
    · omega
    · omega
  obtain ⟨oA, hstA, hpaA, houtA, -, -⟩ := C16.access_spine ph raw hw hd' names' .payload [] l' s' d' e' hcur'
  obtain ⟨oB, hstB, hpaB, houtB, -, -⟩ := C16.access_spine ph _ hw' hd' names' .payload [] l' s' d' e' hcur''
  obtain ⟨hoA, -, -, -⟩ := target_object raw hw oA l' s' d' e' hrec hstA hpaA
  obtain ⟨hoB, -, -, -⟩ := target_object _ hw' oB l' s' d' e' hrec hstB hpaB
  have hP : Patched raw (Rfc.setBits raw (8 * s + o) w n) (8 * s + o) w := C.P
  have hh := (layering_reads _ _ _ _ hP l' s' (C.inv_clean l' s' d' e' hinv)).1
  refine ⟨hle, by rw [houtA none, hoA, walk_payload_out], ?_⟩
  rw [houtB none, hoB, walk_payload_out, hh, setBits_drop _ _ _ _ _ (by omega)]
  congr 4
  omega

/-! ### structural fields: the layers above the assigned one

For a STRUCTURAL field the statement demands nothing of the layers below the assigned one, and after a re-parse the
assigned layer itself may have become an error object (see the example at the end).  What still holds after write +
re-parse: every field of every layer ABOVE the assigned one reads as before. -/

theorem clean_above (O W s : Nat) (hO : 8 * s ≤ O) (l' : Rfc.Layer) (s' : Nat) (h : s' + Rfc.fixedSize l' ≤ s) :
    Clean O W l' s' := by
  intro ab hab
  have := reads_within l' ab hab
  left; omega

/-- a cursor reached by names lies at least as deep as where the names started -/
theorem cursorAt_depth (st : Rfc.SState) (ns : List PP) (l0 : Rfc.Layer) (s0 d0 : Nat) (e0 : List Nat)
    (l' : Rfc.Layer) (s' d' : Nat) (e' : List Nat) (h : Rfc.cursorAt st ns (.at l0 s0 d0 e0) = .at l' s' d' e')
    (hnm : Rfc.fixedSize l0 ≤ Rfc.headerLen st.fr l0 s0) (hr : l0 = .record → s0 = 0) : d' = d0 + ns.length :=
  (downN_mono st l' s' d' e' ns.length l0 s0 d0 e0 (cursorAt_is_downN st l' s' d' e' ns _ h) hnm hr).1

/-- **layers above the assigned header**: whatever bits from `8·s` on are changed, the names that led to a layer above
the header at `s` (depth `d`) still lead there -/
theorem above_cursorAt (st : Rfc.SState) (fr' : List Nat) (O W : Nat) (P : Patched st.fr fr' O W) (l : Rfc.Layer) (s d : Nat)
    (e : List Nat) (hO : 8 * s ≤ O) :
    ∀ (ns : List PP) (c : Rfc.Cur), Inv st l s d e c → ∀ l' s' d' e', Rfc.cursorAt st ns c = .at l' s' d' e' → d' < d →
      Rfc.cursorAt { st with fr := fr' } ns c = .at l' s' d' e' ∧ Inv st l s d e (.at l' s' d' e') := by
  intro ns
  induction ns with
  | nil => intro c hi l' s' d' e' h _; simp only [Rfc.cursorAt] at h ⊢; subst h; exact ⟨rfl, hi⟩
  | cons nm rest ih =>
    intro c hi l' s' d' e' h hd
    cases c with
    | «at» l0 s0 d0 e0 =>
      have hpos0 := inv_pos _ _ _ _ _ _ _ _ _ hi
      have hdirty : ({ st with fr := fr' } : Rfc.SState).isDirty d0 = st.isDirty d0 := rfl
      simp only [Rfc.cursorAt] at h
      simp only [Rfc.cursorAt, hdirty]
      cases hnm : Rfc.Layer.propOf nm with
      | none => rw [hnm] at h; cases h
      | some want =>
        rw [hnm] at h
        simp only at h ⊢
        split at h
        · cases h
        · rename_i hnd
          rw [if_neg hnd]
          cases hin : Rfc.innerOf st.fr l0 s0 with
          | none => rw [hin] at h; cases h
          | some ls =>
            obtain ⟨l2, s2⟩ := ls
            rw [hin] at h
            simp only at h
            split at h
            · rename_i hw
              subst hw
              obtain ⟨hpos, hinv2⟩ := inv_step _ _ _ _ _ _ _ _ _ hi l2 s2 hin
              -- the next cursor is an `.at`, and it is still above the header
              cases ha : Rfc.arrive st.fr l2 s2 (d0 + 1) e0 with
              | «at» a b c f =>
                rw [ha] at h hinv2
                obtain ⟨rfl, rfl, rfl, hnm2⟩ := arrive_at _ _ _ _ _ _ _ _ _ ha
                have hdep := cursorAt_depth st rest a b (d0 + 1) f l' s' d' e' h hinv2.1 hinv2.2.1
                have hab : d0 + 1 < d := by omega
                have h0 : s0 + Rfc.fixedSize l0 ≤ s := by
                  rcases hpos0 with ⟨_, h⟩ | ⟨_, _, h⟩ | ⟨h, _⟩
                  · exact h
                  · omega
                  · omega
                have h2 : b + Rfc.fixedSize a ≤ s := by
                  rcases hpos with ⟨_, h⟩ | ⟨_, _, h⟩ | ⟨h, _⟩
                  · exact h
                  · omega
                  · omega
                have e1 := (layering_reads _ _ _ _ P l0 s0 (clean_above O W s hO l0 s0 h0)).2.2
                have e2 := arrive_same _ _ _ _ P a b (clean_above O W s hO a b h2) (d0 + 1) e0
                simp only [e1, hin, if_true, e2, ha]
                exact ih _ hinv2 l' s' d' e' h hd
              | free => rw [ha] at h; cases rest <;> cases h
              | null => rw [ha] at h; cases rest <;> cases h
              | err => rw [ha] at h; cases rest <;> cases h
            · cases h
    | free => cases h
    | null => cases h
    | err => cases h

theorem above_downN (st : Rfc.SState) (fr' : List Nat) (O W : Nat) (P : Patched st.fr fr' O W) (l : Rfc.Layer) (s d : Nat)
    (e : List Nat) (hO : 8 * s ≤ O) :
    ∀ (n : Nat) (c : Rfc.Cur), Inv st l s d e c → ∀ l' s' d' e', Rfc.downN st n c = .at l' s' d' e' → d' < d →
      Rfc.downN { st with fr := fr' } n c = .at l' s' d' e' ∧ Inv st l s d e (.at l' s' d' e') := by
  intro n
  induction n with
  | zero => intro c hi l' s' d' e' h _; simp only [Rfc.downN] at h ⊢; subst h; exact ⟨rfl, hi⟩
  | succ n ih =>
    intro c hi l' s' d' e' h hd
    cases c with
    | «at» l0 s0 d0 e0 =>
      have hpos0 := inv_pos _ _ _ _ _ _ _ _ _ hi
      have hdirty : ({ st with fr := fr' } : Rfc.SState).isDirty d0 = st.isDirty d0 := rfl
      simp only [Rfc.downN, Rfc.down] at h
      simp only [Rfc.downN, Rfc.down, hdirty]
      split at h
      · exact absurd h (downN_nonat st _ (by intro _ _ _ _ h; cases h) _ _ _ _ _)
      · rename_i hnd
        rw [if_neg hnd]
        cases hin : Rfc.innerOf st.fr l0 s0 with
        | none => rw [hin] at h; exact absurd h (downN_nonat st _ (by intro _ _ _ _ h; cases h) _ _ _ _ _)
        | some ls =>
          obtain ⟨l2, s2⟩ := ls
          rw [hin] at h
          simp only at h
          obtain ⟨hpos, hinv2⟩ := inv_step _ _ _ _ _ _ _ _ _ hi l2 s2 hin
          cases ha : Rfc.arrive st.fr l2 s2 (d0 + 1) e0 with
          | «at» a b c f =>
            rw [ha] at h hinv2
            obtain ⟨rfl, rfl, rfl, hnm2⟩ := arrive_at _ _ _ _ _ _ _ _ _ ha
            have hdep := (downN_mono st l' s' d' e' n a b (d0 + 1) f h hinv2.1 hinv2.2.1).1
            have hab : d0 + 1 < d := by omega
            have h0 : s0 + Rfc.fixedSize l0 ≤ s := by
              rcases hpos0 with ⟨_, h⟩ | ⟨_, _, h⟩ | ⟨h, _⟩
              · exact h
              · omega
              · omega
            have h2 : b + Rfc.fixedSize a ≤ s := by
              rcases hpos with ⟨_, h⟩ | ⟨_, _, h⟩ | ⟨h, _⟩
              · exact h
              · omega
              · omega
            have e1 := (layering_reads _ _ _ _ P l0 s0 (clean_above O W s hO l0 s0 h0)).2.2
            have e2 := arrive_same _ _ _ _ P a b (clean_above O W s hO a b h2) (d0 + 1) e0
            simp only [e1, hin, e2, ha]
            exact ih _ hinv2 l' s' d' e' h hd
          | free => rw [ha] at h; exact absurd h (downN_nonat st _ (by intro _ _ _ _ h; cases h) _ _ _ _ _)
          | null => rw [ha] at h; exact absurd h (downN_nonat st _ (by intro _ _ _ _ h; cases h) _ _ _ _ _)
          | err => rw [ha] at h; exact absurd h (downN_nonat st _ (by intro _ _ _ _ h; cases h) _ _ _ _ _)
    | free => rw [C16.downN_free] at h; cases h
    | null => rw [C16.downN_null] at h; cases h
    | err => rw [C16.downN_err] at h; cases h

theorem inv_down (st : Rfc.SState) (l : Rfc.Layer) (s d : Nat) (e : List Nat) (c : Rfc.Cur) (h : Inv st l s d e c) :
    Inv st l s d e (Rfc.down st c) := by
  cases c with
  | «at» l0 s0 d0 e0 =>
    simp only [Rfc.down]
    split
    · trivial
    · cases hin : Rfc.innerOf st.fr l0 s0 with
      | none => trivial
      | some ls => exact (inv_step _ _ _ _ _ _ _ _ _ h ls.1 ls.2 hin).2
  | _ => trivial

theorem inv_downN (st : Rfc.SState) (l : Rfc.Layer) (s d : Nat) (e : List Nat) :
    ∀ (n : Nat) (c : Rfc.Cur), Inv st l s d e c → Inv st l s d e (Rfc.downN st n c) := by
  intro n
  induction n with
  | zero => intro c h; exact h
  | succ n ih => intro c h; exact ih _ (inv_down st l s d e c h)

/-- **reads of the layers above, on the fresh packet over a frame changed from the assigned header on**: whatever `w`
bits at `8·s + o` are replaced — structural or not — every field `q` of a layer ABOVE the header at `s` reads the same -/
theorem fresh_read_above (ph : PcapHdr) (raw : List Nat) (hw : wf raw) (hd : Head) (names : List PP)
    (l : Rfc.Layer) (s d : Nat) (e : List Nat)
    (hcur : Rfc.cursorAt (specState ph raw) names (Rfc.headCur (specState ph raw) (headOf hd)) = .at l s d e)
    (hl : l ≠ .record) (o w n : Nat)
    (hd' : Head) (names' : List PP) (q : PP) (l' : Rfc.Layer) (s' d' : Nat) (e' : List Nat)
    (hcur' : Rfc.cursorAt (specState ph raw) names' (Rfc.headCur (specState ph raw) (headOf hd')) = .at l' s' d' e')
    (hq : Rfc.Layer.propOf q = none) (hqp : q ≠ .payload) (habove : d' < d) :
    (access (Rfc.setBits raw (8 * s + o) w n) (Pkt.new ph (Rfc.setBits raw (8 * s + o) w n)).root hd' (names' ++ [q]) none).2 =
      (access raw (Pkt.new ph raw).root hd' (names' ++ [q]) none).2 := by
  have hw' : wf (Rfc.setBits raw (8 * s + o) w n) := setBits_wf raw _ _ _
  have hP : Patched raw (Rfc.setBits raw (8 * s + o) w n) (8 * s + o) w := setBits_patched raw hw _ _ _
  have hT := target_on_chain _ _ _ _ _ _ _ hcur
  have h0 := inv_start (specState ph raw) l s d e hl hT
  by_cases hrec : l' = .record
  · subst hrec
    obtain ⟨rfl, rfl, hacc⟩ := cursor_record _ hd' names' s' d' e' hcur'
    rw [hacc, hacc]
    have hlp : ∀ x, layerProp (.pcap x) q = none := fun x => layerProp_none _ q hq
    simp [walk, getProp, Pkt.new, hlp, hqp]
  · -- the cursor over the changed frame
    have hboth : Rfc.cursorAt (specState ph (Rfc.setBits raw (8 * s + o) w n)) names'
        (Rfc.headCur (specState ph (Rfc.setBits raw (8 * s + o) w n)) (headOf hd')) = .at l' s' d' e' ∧
        Inv (specState ph raw) l s d e (.at l' s' d' e') := by
      have hst' : specState ph (Rfc.setBits raw (8 * s + o) w n) =
          { specState ph raw with fr := Rfc.setBits raw (8 * s + o) w n } := rfl
      rw [hst']
      cases hd' with
      | pkt => exact above_cursorAt (specState ph raw) _ _ _ hP l s d e (by omega) names' _ h0 l' s' d' e' hcur' habove
      | dollar m =>
        simp only [headOf, Rfc.headCur] at hcur' ⊢
        split at hcur'
        · cases names' <;> cases hcur'
        · rename_i hm
          rw [if_neg hm]
          have hmid := inv_downN (specState ph raw) l s d e m.toNat _ h0
          cases hc : Rfc.downN (specState ph raw) m.toNat Rfc.startCur with
          | «at» l1 s1 d1 e1 =>
            rw [hc] at hcur' hmid
            have hdep := cursorAt_depth _ names' l1 s1 d1 e1 l' s' d' e' hcur' hmid.1 hmid.2.1
            obtain ⟨e1', -⟩ := above_downN (specState ph raw) _ _ _ hP l s d e (by omega) m.toNat _ h0 l1 s1 d1 e1 hc (by omega)
            rw [e1']
            exact above_cursorAt (specState ph raw) _ _ _ hP l s d e (by omega) names' _ hmid l' s' d' e' hcur' habove
          | free => rw [hc] at hcur'; cases names' <;> cases hcur'
          | null => rw [hc] at hcur'; cases names' <;> cases hcur'
          | err => rw [hc] at hcur'; cases names' <;> cases hcur'
    obtain ⟨hcur'', hinv⟩ := hboth
    obtain ⟨oA, hstA, hpaA, houtA, -, -⟩ := C16.access_spine ph raw hw hd' names' q [] l' s' d' e' hcur'
    obtain ⟨oB, hstB, hpaB, houtB, -, -⟩ := C16.access_spine ph _ hw' hd' names' q [] l' s' d' e' hcur''
    obtain ⟨hoA, -, -, -⟩ := target_object raw hw oA l' s' d' e' hrec hstA hpaA
    obtain ⟨hoB, -, -, -⟩ := target_object _ hw' oB l' s' d' e' hrec hstB hpaB
    rw [houtA none, houtB none, hoA, hoB, read_field_out _ q _ _ _ hq hqp, read_field_out _ q _ _ _ hq hqp,
      get_same raw _ _ _ hP hw hw' l' s' q hrec (fun a b hlq => by
        have hin := (layout_field l' q a b hlq).2.2 hrec
        have hpos := inv_pos _ _ _ _ _ _ _ _ _ hinv
        rcases hpos with ⟨_, h⟩ | ⟨_, _, h⟩ | ⟨h, _⟩
        · left; omega
        · omega
        · omega)]

/-- **C17 on the packet, structural fields included: after serialise + re-parse the layers ABOVE read as before.**
One accepted assignment of ANY numeric field `p` of the layer at depth `d` — a length or type field too —, then write +
re-parse: every field `q` (not `payload`, which contains the assigned bytes) of every layer at a depth `d' < d` reads
through the re-parsed packet what it read on the untouched packet.  For a structural `p` this is all that is demanded
and all that holds: the layers below may be parsed differently, and the assigned layer itself may have become an error
object (a header length beyond the capture — see the example at the end of the file). -/
theorem set_then_above_read_same (ph : PcapHdr) (hfit : C15.PcapHdr.fits ph) (raw : List Nat) (hw : wf raw) (hd : Head)
    (names : List PP) (p : PP) (v : Val) (l : Rfc.Layer) (s d : Nat) (e : List Nat) (o w : Nat)
    (hcur : Rfc.cursorAt (specState ph raw) names (Rfc.headCur (specState ph raw) (headOf hd)) = .at l s d e)
    (hl : l ≠ .record) (hlay : Rfc.layout l p = some (o, w)) (hk : Rfc.kindOf l p = .num) (h1 : Hdr)
    (hs : (parseAs l (rd raw s)).set p (toSetVal v) = some h1) :
    ∃ n, n < 2 ^ w ∧ h1.get p = some (.num n) ∧
      ∀ (hd' : Head) (names' : List PP) (q : PP) (l' : Rfc.Layer) (s' d' : Nat) (e' : List Nat),
        Rfc.cursorAt (specState ph raw) names' (Rfc.headCur (specState ph raw) (headOf hd')) = .at l' s' d' e' →
        Rfc.Layer.propOf q = none → q ≠ .payload → d' < d →
        ((Pkt.new ph raw).run [.set hd (names ++ [p]) v, .reparse, .get hd' (names' ++ [q])]).2 =
          .ok v :: .bytes (ph.toBytes ++ Rfc.setBits raw (8 * s + o) w n) ::
            ((Pkt.new ph raw).run [.get hd' (names' ++ [q])]).2 := by
  obtain ⟨n, hn, hget, hP⟩ := set_then_reparse_packet ph hfit raw hw hd names p v l s d e o w hcur hl hlay hk h1 hs
  obtain ⟨n', -, hget', hout, hbytes⟩ := set_then_serialise ph raw hw hd names p v l s d e o w hcur hl hlay hk h1 hs
  have hnn : n' = n := by rw [hget] at hget'; cases hget'; rfl
  subst hnn
  refine ⟨n', hn, hget, ?_⟩
  intro hd' names' q l' s' d' e' hcur' hq hqp habove
  rw [run_set_reparse_get, hout, hbytes, hP, run_get_one, run_get_one]
  have := fresh_read_above ph raw hw hd names l s d e hcur hl o w n' hd' names' q l' s' d' e' hcur' hq hqp habove
  simp only [Pkt.new] at this ⊢
  rw [this]
  rfl

/-! ## the immediate version: reads through the cache tree the assignment left -/

/-- `q` names the assigned field `p` (`tcp.len` and `tcp.dataoff` are one field) -/
def SameField (p q : PP) : Prop := q = p ∨ (p = .dataoff ∧ q = .len) ∨ (p = .len ∧ q = .dataoff)

/-- the type field of the header is as before: `$n` and the named layer getters go on as before -/
def KeepsType (h0 h1 : Hdr) : Prop := dispatch h1 = dispatch h0 ∧ ∀ k, typeMismatch h1 k = typeMismatch h0 k

set_option maxHeartbeats 1000000 in
/-- an accepted assignment to a non-structural field leaves the type field alone -/
theorem set_keeps_type (h0 h1 : Hdr) (p : PP) (sv : SetVal) (hs : h0.set p sv = some h1)
    (hns : structural (hdrLayer h0) p = false) : KeepsType h0 h1 := by
  cases h0 <;> simp only [Hdr.set, Option.map_eq_some_iff] at hs <;> obtain ⟨x, hx, rfl⟩ := hs <;>
    simp only [hdrLayer] at hns
  · exact ⟨rfl, fun k => rfl⟩
  · cases p <;> simp only [EthHdr.set, Option.map_eq_some_iff] at hx <;>
      first
      | (cases hx; done)
      | exact absurd hns (by decide)
      | (obtain ⟨n, -, rfl⟩ := hx; exact ⟨rfl, fun k => by cases k <;> rfl⟩)
  · cases p <;> simp only [VlanHdr.set, Option.map_eq_some_iff] at hx <;>
      first
      | (cases hx; done)
      | exact absurd hns (by decide)
      | (obtain ⟨n, -, rfl⟩ := hx; exact ⟨rfl, fun k => by cases k <;> rfl⟩)
      | (cases sv <;> simp at hx; subst hx; exact ⟨rfl, fun k => by cases k <;> rfl⟩)
  · cases p <;> simp only [Ipv4Hdr.set, Option.map_eq_some_iff] at hx <;>
      first
      | (cases hx; done)
      | exact absurd hns (by decide)
      | (obtain ⟨n, -, rfl⟩ := hx; exact ⟨rfl, fun k => by cases k <;> rfl⟩)
  · cases p <;> simp only [Ipv6Hdr.set, Option.map_eq_some_iff] at hx <;>
      first
      | (cases hx; done)
      | exact absurd hns (by decide)
      | (obtain ⟨n, -, rfl⟩ := hx; exact ⟨rfl, fun k => by cases k <;> rfl⟩)
  · exact ⟨rfl, fun k => by cases k <;> rfl⟩
  · exact ⟨rfl, fun k => by cases k <;> rfl⟩

theorem set_same_shape (h0 h1 : Hdr) (p : PP) (sv : SetVal) (hs : h0.set p sv = some h1) :
    h1.kindName = h0.kindName ∧ ∀ q, layerProp h1 q = layerProp h0 q := by
  cases h0 <;> simp only [Hdr.set, Option.map_eq_some_iff] at hs <;> obtain ⟨x, -, rfl⟩ := hs <;>
    exact ⟨rfl, fun q => by cases q <;> rfl⟩

/-- a named layer getter whose name the type field agrees with parses the layer `$n` descends into (record layer included) -/
theorem named_dispatch (h : Hdr) (nm : PP) (k : LayerKind) (hl : layerProp h nm = some k) (hm : typeMismatch h k = false) :
    dispatch h = some k := by
  cases h with
  | pcap x => cases nm <;> simp [layerProp] at hl; subst hl; rfl
  | _ => exact C16.named_getter_agrees_dispatch _ nm k (by intro ph hh; cases hh) hl hm

/-- `Mod j T F`: `F` is a freshly parsed object (nothing cached below it), `T` is the same object with the chain of
layers cached `j` levels down, where the header has been replaced by the one an accepted assignment to `p` produced;
`deep` records that the assignment left the type field alone (non-structural `p`) -/
inductive Mod (raw : List Nat) (p : PP) (sv : SetVal) (deep : Bool) : Nat → Obj → Obj → Prop
  | here (h0 h1 : Hdr) (off : Nat) : h0.set p sv = some h1 → (deep = true → KeepsType h0 h1) →
      Mod raw p sv deep 0 (.layer h1 off .none) (.layer h0 off .none)
  | down (h : Hdr) (off : Nat) (i : Obj) (kind : LayerKind) (j : Nat) : dispatch h = some kind →
      Mod raw p sv deep j i (parseLayer raw kind off) → Mod raw p sv deep (j + 1) (.layer h off i) (.layer h off .none)

theorem Mod.isLayer {raw : List Nat} {p : PP} {sv : SetVal} {deep : Bool} {j : Nat} {T F : Obj}
    (h : Mod raw p sv deep j T F) : ∃ h' off' i', T = .layer h' off' i' := by
  cases h with
  | here h0 h1 off _ _ => exact ⟨_, _, _, rfl⟩
  | down h off i kind j _ _ => exact ⟨_, _, _, rfl⟩

theorem Mod.toVal {raw : List Nat} {p : PP} {sv : SetVal} {deep : Bool} {j : Nat} {T F : Obj}
    (h : Mod raw p sv deep j T F) : T.toVal = F.toVal := by
  cases h with
  | here h0 h1 off hs _ => simp [Obj.toVal, (set_same_shape h0 h1 p sv hs).1]
  | down h off i kind j _ _ => rfl

/-- **reads through a tree with one replaced header**: a path of names and a last property read the same on `T` and on
the fresh `F`, unless the path ends at the replaced header in the assigned field; paths that pass THROUGH the replaced
header (or ask it for a layer) need the type field to be as before (`deep`) -/
theorem Mod.walk_same {raw : List Nat} {p : PP} {sv : SetVal} {deep : Bool} :
    ∀ (ns : List PP) (j : Nat) (T F : Obj), Mod raw p sv deep j T F → ∀ q,
      ¬(ns.length = j ∧ SameField p q) →
      (deep = true ∨ ns.length < j ∨ (ns.length = j ∧ Rfc.Layer.propOf q = none)) →
      (walk raw none (ns ++ [q]) T).2 = (walk raw none (ns ++ [q]) F).2 := by
  intro ns
  induction ns with
  | nil =>
    intro j T F hm q hbad hok
    have hw1 : ∀ o, walk raw none ([] ++ [q]) o = getProp raw q (walk raw none []) true o := fun o => rfl
    rw [hw1, hw1]
    cases hm with
    | here h0 h1 off hs hk =>
      have hsh := (set_same_shape h0 h1 p sv hs).2 q
      simp only [getProp, hsh]
      cases hlp : layerProp h0 q with
      | none =>
        have hget : h1.get q = h0.get q := by
          apply set_frame h0 h1 p q sv hs
          · intro hh; exact hbad ⟨rfl, Or.inl hh⟩
          · exact ⟨fun hh => hbad ⟨rfl, Or.inr (Or.inl hh)⟩, fun hh => hbad ⟨rfl, Or.inr (Or.inr hh)⟩⟩
        simp only [hget]
        split <;> rfl
      | some kind =>
        have hdeep : deep = true := by
          rcases hok with h | h | ⟨_, h⟩
          · exact h
          · simp at h
          · rw [layerProp_none h0 q h] at hlp; cases hlp
        simp only [(hk hdeep).2 kind]
        split <;> rfl
    | down h off i kind j hd hm' =>
      simp only [getProp]
      cases hlp : layerProp h q with
      | none => simp only; split <;> rfl
      | some kind' =>
        simp only
        cases hmm : typeMismatch h kind' with
        | true => rfl
        | false =>
          have hkk := named_dispatch h q kind' hlp hmm
          rw [hd] at hkk; cases hkk
          obtain ⟨h', off', i', rfl⟩ := hm'.isLayer
          simp only [Bool.false_eq_true, if_false, walk]
          rw [hm'.toVal]
  | cons nm rest ih =>
    intro j T F hm q hbad hok
    have hw1 : ∀ o, walk raw none ((nm :: rest) ++ [q]) o = getProp raw nm (walk raw none (rest ++ [q])) false o := by
      intro o
      rw [List.cons_append, C16.walk_cons]
      cases rest <;> rfl
    rw [hw1, hw1]
    cases hm with
    | here h0 h1 off hs hk =>
      have hdeep : deep = true := by
        rcases hok with h | h | ⟨h, _⟩
        · exact h
        · simp at h
        · simp at h
      have hsh := (set_same_shape h0 h1 p sv hs).2 nm
      simp only [getProp, hsh]
      cases hlp : layerProp h0 nm with
      | none =>
        simp only
        generalize (if nm = PP.payload then some (bytesVal (List.drop off raw)) else Option.map FieldVal.toVal (h1.get nm)) = x
        generalize (if nm = PP.payload then some (bytesVal (List.drop off raw)) else Option.map FieldVal.toVal (h0.get nm)) = y
        cases x <;> cases y <;> rfl
      | some kind =>
        simp only [(hk hdeep).2 kind]
        split <;> rfl
    | down h off i kind j hd hm' =>
      simp only [getProp]
      cases hlp : layerProp h nm with
      | none => simp only; split <;> rfl
      | some kind' =>
        simp only
        cases hmm : typeMismatch h kind' with
        | true => rfl
        | false =>
          have hkk := named_dispatch h nm kind' hlp hmm
          rw [hd] at hkk; cases hkk
          obtain ⟨h', off', i', rfl⟩ := hm'.isLayer
          simp only [Bool.false_eq_true, if_false]
          apply ih j _ _ hm' q
          · intro hh; exact hbad ⟨by simp [hh.1], hh.2⟩
          · rcases hok with h | h | ⟨h, h2⟩
            · exact Or.inl h
            · exact Or.inr (Or.inl (by simp at h; omega))
            · exact Or.inr (Or.inr ⟨by simp at h; omega, h2⟩)

/-- the same for `$m`: `get_inner` follows the cache where there is one and the type fields below it -/
theorem Mod.descend_same {raw : List Nat} {p : PP} {sv : SetVal} {deep : Bool} (kf : Obj → Obj × StepOut) :
    ∀ (m j : Nat) (T F : Obj), Mod raw p sv deep j T F →
      (m ≤ j → ∀ T' F', Mod raw p sv deep (j - m) T' F' → (kf T').2 = (kf F').2) → (deep = true ∨ m ≤ j) →
      (descend raw kf m T).2 = (descend raw kf m F).2 := by
  intro m
  induction m with
  | zero => intro j T F hm hkf _; exact hkf (Nat.zero_le _) T F hm
  | succ m ih =>
    intro j T F hm hkf hok
    cases hm with
    | here h0 h1 off hs hk =>
      have hdeep : deep = true := by
        rcases hok with h | h
        · exact h
        · omega
      simp only [descend, innerStep, (hk hdeep).1]
      cases dispatch h0 <;> rfl
    | down h off i kind j hd hm' =>
      obtain ⟨h', off', i', rfl⟩ := hm'.isLayer
      simp only [descend, innerStep, hd]
      apply ih j _ _ hm'
      · intro hmj T' F' hm2
        have := hkf (by omega) T' F'
        rw [Nat.add_sub_add_right] at this
        exact this hm2
      · rcases hok with h | h
        · exact Or.inl h
        · exact Or.inr (by omega)

/-- the tree a path of layer names followed by the assignment leaves behind -/
theorem nav_mod (raw : List Nat) (hw : wf raw) (st : Rfc.SState) (hfr : st.fr = raw) (hd : st.dirty = none)
    (p : PP) (sv : SetVal) (deep : Bool) (l : Rfc.Layer) (s d : Nat) (e : List Nat) (hl : l ≠ .record) (h1 : Hdr)
    (hs : (parseAs l (rd raw s)).set p sv = some h1) (hkeep : deep = true → KeepsType (parseAs l (rd raw s)) h1)
    (k : Obj → Obj × StepOut)
    (hk : (k (.layer (parseAs l (rd raw s)) (s + Rfc.headerLen raw l s) .none)).1 =
      .layer h1 (s + Rfc.headerLen raw l s) .none) :
    ∀ (names : List PP) (o : Obj) (c : Rfc.Cur), Stands raw o c → Rfc.cursorAt st names c = .at l s d e →
      Mod raw p sv deep names.length (C16.nav raw names k o).1 o := by
  intro names
  induction names with
  | nil =>
    intro o c hst hc
    simp only [Rfc.cursorAt] at hc
    subst hc
    rcases hst with ⟨hr, _⟩ | ⟨_, rfl⟩
    · exact absurd hr hl
    · simp only [C16.nav, hk, List.length_nil]
      exact .here _ _ _ hs hkeep
  | cons nm rest ih =>
    intro o c hst hc
    cases c with
    | free => simp [Rfc.cursorAt] at hc
    | err => simp [Rfc.cursorAt] at hc
    | null => simp [Rfc.cursorAt] at hc
    | «at» l0 s0 d0 ends =>
      obtain ⟨h, off, rfl⟩ := C16.stands_at_layer raw o l0 s0 d0 ends hst
      have hdirty : st.isDirty d0 = false := by simp [Rfc.SState.isDirty, hd]
      simp only [Rfc.cursorAt, hdirty, hfr] at hc
      cases hnm : Rfc.Layer.propOf nm with
      | none => simp [hnm] at hc
      | some want =>
        simp only [hnm] at hc
        cases hin : Rfc.innerOf raw l0 s0 with
        | none => simp [hin] at hc
        | some ls =>
          obtain ⟨l2, s2⟩ := ls
          simp only [hin, Bool.false_eq_true, if_false] at hc
          by_cases hl2 : l2 = want
          · subst hl2
            simp only [if_true] at hc
            obtain ⟨kind, hk', rfl, hinner, hlp, hmm, hstep⟩ := C16.name_step raw hw l0 s0 d0 ends h off hst nm l2 hnm s2 hin
            subst hk'
            simp only [C16.nav, hstep, List.length_cons]
            exact .down h s2 _ kind _ (named_dispatch h nm kind hlp hmm)
              (ih (parseLayer raw kind s2) _ (C16.arrive_stands raw hw kind s2 (d0 + 1) ends) hc)
          · simp [hl2] at hc

/-- the tree `$n` followed by a continuation leaves behind -/
theorem descend_mod (raw : List Nat) (hw : wf raw) (st : Rfc.SState) (hfr : st.fr = raw) (hd : st.dirty = none)
    (p : PP) (sv : SetVal) (deep : Bool) (kf : Obj → Obj × StepOut) (l1 : Rfc.Layer) (s1 d1 : Nat) (e1 : List Nat) (j : Nat)
    (hkf : ∀ o1, Stands raw o1 (.at l1 s1 d1 e1) → Mod raw p sv deep j (kf o1).1 o1) :
    ∀ (n : Nat) (o : Obj) (c : Rfc.Cur), Stands raw o c → Rfc.downN st n c = .at l1 s1 d1 e1 →
      Mod raw p sv deep (n + j) (descend raw kf n o).1 o := by
  intro n
  induction n with
  | zero =>
    intro o c hst hc
    simp only [Rfc.downN] at hc
    subst hc
    rw [Nat.zero_add]
    exact hkf o hst
  | succ n ih =>
    intro o c hst hc
    cases c with
    | free => rw [C16.downN_free] at hc; cases hc
    | err => rw [C16.downN_err] at hc; cases hc
    | null => rw [C16.downN_null] at hc; cases hc
    | «at» l0 s0 d0 ends =>
      obtain ⟨h, off, rfl⟩ := C16.stands_at_layer raw o l0 s0 d0 ends hst
      have hdirty : st.isDirty d0 = false := by simp [Rfc.SState.isDirty, hd]
      rcases C16.inner_agrees raw hw l0 s0 d0 ends h off hst with ⟨hdis, hin⟩ | ⟨kind, hdis, hin⟩
      · simp only [Rfc.downN, Rfc.down, hdirty, hfr, hin, Bool.false_eq_true, if_false] at hc
        rw [C16.downN_null] at hc; cases hc
      · simp only [Rfc.downN, Rfc.down, hdirty, hfr, hin, Bool.false_eq_true, if_false] at hc
        have hstep : descend raw kf (n + 1) (.layer h off .none) =
            (.layer h off (descend raw kf n (parseLayer raw kind off)).1, (descend raw kf n (parseLayer raw kind off)).2) := by
          simp [descend, innerStep, hdis]
        have e : n + 1 + j = (n + j) + 1 := by omega
        rw [hstep, e]
        exact .down h off _ kind _ hdis (ih (parseLayer raw kind off) _ (C16.arrive_stands raw hw kind off (d0 + 1) ends) hc)

/-- how many layers below the packet object a head starts -/
def headDepth : Head → Nat
  | .pkt => 0
  | .dollar m => m.toNat

/-- the depth of the layer a head and a path of names lead to -/
theorem cursor_depth (st : Rfc.SState) (hd : Head) (names : List PP) (l : Rfc.Layer) (s d : Nat) (e : List Nat)
    (h : Rfc.cursorAt st names (Rfc.headCur st (headOf hd)) = .at l s d e) : d = headDepth hd + names.length := by
  have hst : Rfc.fixedSize .record ≤ Rfc.headerLen st.fr .record 0 := by simp [Rfc.headerLen]
  cases hd with
  | pkt =>
    have := cursorAt_is_downN st l s d e names _ h
    obtain ⟨h1, -, -⟩ := downN_mono st l s d e names.length .record 0 0 [] this hst (fun _ => rfl)
    simp only [headDepth]; omega
  | dollar m =>
    simp only [headOf, Rfc.headCur] at h
    split at h
    · cases names <;> cases h
    · have := cursorAt_is_downN st l s d e names _ h
      rw [← downN_add] at this
      obtain ⟨h1, -, -⟩ := downN_mono st l s d e _ .record 0 0 [] this hst (fun _ => rfl)
      simp only [headDepth]; omega

/-- **the cache tree after the assignment** is the fresh packet object with the chain of layers cached down to the
assigned header, that header replaced -/
theorem access_mod (ph : PcapHdr) (raw : List Nat) (hw : wf raw) (hd : Head) (names : List PP) (p : PP) (v : Val)
    (l : Rfc.Layer) (s d : Nat) (e : List Nat)
    (hcur : Rfc.cursorAt (specState ph raw) names (Rfc.headCur (specState ph raw) (headOf hd)) = .at l s d e)
    (hl : l ≠ .record) (hfield : Rfc.Layer.propOf p = none) (hpay : p ≠ .payload) (h1 : Hdr)
    (hs : (parseAs l (rd raw s)).set p (toSetVal v) = some h1) (deep : Bool)
    (hkeep : deep = true → KeepsType (parseAs l (rd raw s)) h1) :
    Mod raw p (toSetVal v) deep d (access raw (Pkt.new ph raw).root hd (names ++ [p]) (some v)).1 (Pkt.new ph raw).root := by
  have hd' := cursor_depth _ hd names l s d e hcur
  have hlp := layerProp_none (parseAs l (rd raw s)) p hfield
  have hk : (walk raw (some v) [p] (.layer (parseAs l (rd raw s)) (s + Rfc.headerLen raw l s) .none)).1 =
      .layer h1 (s + Rfc.headerLen raw l s) .none := by
    simp [walk, setProp, hlp, hpay, hs]
  cases hd with
  | pkt =>
    simp only [headDepth, Nat.zero_add] at hd'
    subst hd'
    simp only [access, C16.walk_append]
    exact nav_mod raw hw (specState ph raw) rfl rfl p _ deep l s _ e hl h1 hs hkeep _ hk names _ _
      (C16.root_stands ph raw) hcur
  | dollar n =>
    simp only [headOf, Rfc.headCur] at hcur
    by_cases hn : n < 0 ∨ n > 10
    · simp only [hn, if_true] at hcur
      cases names <;> simp [Rfc.cursorAt] at hcur
    · simp only [hn, if_false] at hcur
      have hn' : ¬ (n < 0 ∨ n > (maxProtoDepth : Int)) := hn
      simp only [headDepth] at hd'
      subst hd'
      cases hmid : Rfc.downN (specState ph raw) n.toNat Rfc.startCur with
      | free => rw [hmid] at hcur; cases names <;> simp [Rfc.cursorAt] at hcur
      | err => rw [hmid] at hcur; cases names <;> simp [Rfc.cursorAt] at hcur
      | null => rw [hmid] at hcur; cases names <;> simp [Rfc.cursorAt] at hcur
      | «at» l1 s1 d1 e1 =>
        rw [hmid] at hcur
        simp only [access, hn', if_false, C16.walk_append]
        exact descend_mod raw hw (specState ph raw) rfl rfl p _ deep _ l1 s1 d1 e1 names.length
          (fun o1 hst1 => nav_mod raw hw (specState ph raw) rfl rfl p _ deep l s _ e hl h1 hs hkeep _ hk names o1 _ hst1 hcur)
          n.toNat _ _ (C16.root_stands ph raw) hmid

/-- **C17 on the packet, immediately after the assignment (no re-parse): every other property of every layer reads
as before.**  A fresh packet over a well-formed frame, ONE accepted assignment `pkt.<names>.p = v` / `$n.<names>.p = v`
to a field `p` of the layer `l` (depth `d`) the names lead to — ANY accepted assignment: numbers, the flag, addresses
from text.  Then every read `hd'.<names'>.q` — any head, any names (whether or not they lead anywhere), any last
property `q` (field, `payload`, layer name, or no property at all) — through the cache tree the assignment left yields
what it yields on the untouched packet, provided
* it is not a read of the assigned field itself (`headDepth hd' + names'.length = d` and `q` names `p`), and
* when `p` is STRUCTURAL the read stays at or above the assigned layer and does not ask it for a layer: depth `< d`, or
  depth `= d` with `q` not a layer name (for a non-structural `p` there is no such restriction: layers below read as
  before too).
In particular the `payload` of the layers above reads the captured bytes: the model's payload getter reads the raw
capture, which an assignment never changes (only serialisation merges the header back in). -/
theorem set_then_others_read_same_now (ph : PcapHdr) (raw : List Nat) (hw : wf raw) (hd : Head) (names : List PP)
    (p : PP) (v : Val) (l : Rfc.Layer) (s d : Nat) (e : List Nat)
    (hcur : Rfc.cursorAt (specState ph raw) names (Rfc.headCur (specState ph raw) (headOf hd)) = .at l s d e)
    (hl : l ≠ .record) (hfield : Rfc.Layer.propOf p = none) (hpay : p ≠ .payload) (h1 : Hdr)
    (hs : (parseAs l (rd raw s)).set p (toSetVal v) = some h1)
    (hd' : Head) (names' : List PP) (q : PP)
    (hother : ¬(headDepth hd' + names'.length = d ∧ SameField p q))
    (hscope : structural l p = false ∨ headDepth hd' + names'.length < d ∨
      (headDepth hd' + names'.length = d ∧ Rfc.Layer.propOf q = none)) :
    ((Pkt.new ph raw).run [.set hd (names ++ [p]) v, .get hd' (names' ++ [q])]).2 =
      .ok v :: ((Pkt.new ph raw).run [.get hd' (names' ++ [q])]).2 := by
  obtain ⟨hout, -⟩ := set_then_serialise_hdr ph raw hw hd names p v l s d e hcur hl hfield hpay h1 hs
  have hmod := access_mod ph raw hw hd names p v l s d e hcur hl hfield hpay h1 hs (!(structural l p))
    (fun hh => set_keeps_type _ _ p _ hs (by rw [C16.hdrLayer_parseAs]; simpa using hh))
  have hdeep : ∀ x, structural l p = false ∨ x → (!(structural l p)) = true ∨ x := by
    intro x hx; rcases hx with h | h
    · exact Or.inl (by simp [h])
    · exact Or.inr h
  have hrun2 : ((Pkt.new ph raw).run [.set hd (names ++ [p]) v, .get hd' (names' ++ [q])]).2 =
      [(access raw (Pkt.new ph raw).root hd (names ++ [p]) (some v)).2.toOut,
       (access raw (access raw (Pkt.new ph raw).root hd (names ++ [p]) (some v)).1 hd' (names' ++ [q]) none).2.toOut] := by
    simp [Pkt.run, Pkt.step, Pkt.new]
  have hrun1 : ((Pkt.new ph raw).run [.get hd' (names' ++ [q])]).2 =
      [(access raw (Pkt.new ph raw).root hd' (names' ++ [q]) none).2.toOut] := by
    simp [Pkt.run, Pkt.step, Pkt.new]
  rw [hrun2, hrun1, hout]
  have key : (access raw (access raw (Pkt.new ph raw).root hd (names ++ [p]) (some v)).1 hd' (names' ++ [q]) none).2 =
      (access raw (Pkt.new ph raw).root hd' (names' ++ [q]) none).2 := by
    cases hd' with
    | pkt =>
      simp only [headDepth, Nat.zero_add] at hother hscope
      simp only [access]
      exact Mod.walk_same names' d _ _ hmod q hother (hdeep _ hscope)
    | dollar m =>
      simp only [headDepth] at hother hscope
      by_cases hm : m < 0 ∨ m > (maxProtoDepth : Int)
      · simp [access, hm]
      · simp only [access, hm, if_false]
        apply Mod.descend_same _ m.toNat d _ _ hmod
        · intro hmd T' F' hm2
          apply Mod.walk_same names' _ T' F' hm2 q
          · intro hh; exact hother ⟨by omega, hh.2⟩
          · rcases hdeep _ hscope with h | h | ⟨h, h2⟩
            · exact Or.inl h
            · exact Or.inr (Or.inl (by omega))
            · exact Or.inr (Or.inr ⟨by omega, h2⟩)
        · rcases hdeep _ hscope with h | h | ⟨h, _⟩
          · exact Or.inl h
          · exact Or.inr (by omega)
          · exact Or.inr (by omega)
  rw [key]
  rfl

/-! ## a concrete frame -/

/-- Ethernet + IPv4 (id 0x1234, TTL 64, UDP) + UDP (53 → 8080, length 10) + two bytes -/
def udpFrame : Bytes :=
  [0,1,2,3,4,5, 6,7,8,9,10,11, 8,0,
   0x45,0,0,30, 0x12,0x34,0,0, 64,17,0,0, 10,0,0,1, 10,0,0,2,
   0,53, 0x1f,0x90, 0,10, 0,0, 0xde,0xad]

/-- `pkt.eth.ipv4.ttl = 9`, write + re-parse; then `eth.type`, `ipv4.id`, `ipv4.ttl`, `$3.dstport`, `$3.len` read 0x0800,
0x1234, 9, 8080, 10 — the old values except the TTL -/
example :
    ((Pkt.new (rec0 udpFrame) udpFrame).run [.set .pkt [.eth, .ipv4, .ttl] (.int 9), .reparse, .get .pkt [.eth, .etype],
      .get .pkt [.eth, .ipv4, .id], .get .pkt [.eth, .ipv4, .ttl], .get (.dollar 3) [.dstport],
      .get .pkt [.eth, .ipv4, .udp, .len]]).2.map numOf
      = [some 9, none, some 0x0800, some 0x1234, some 9, some 8080, some 10] ∧
    ((Pkt.new (rec0 udpFrame) udpFrame).run [.get .pkt [.eth, .etype], .get .pkt [.eth, .ipv4, .id],
      .get .pkt [.eth, .ipv4, .ttl], .get (.dollar 3) [.dstport], .get .pkt [.eth, .ipv4, .udp, .len]]).2.map numOf
      = [some 0x0800, some 0x1234, some 64, some 8080, some 10] ∧
    structural .ipv4 .ttl = false ∧ structural .ipv4 .ihl = true := by decide

/-- the theorem on that frame: the setter accepts `ipv4.ttl = 9` (the hypothesis is satisfiable); after write + re-parse
`$3.dstport`, `pkt.eth.src` (address text), `pkt.eth.ipv4.id` and `pkt.eth.ipv4.udp.payload` read what they read before -/
example : ((parseAs .ipv4 (rd udpFrame 14)).set .ttl (toSetVal (.int 9))).isSome = true := by decide

example (h1 : Hdr) (hs : (parseAs .ipv4 (rd udpFrame 14)).set .ttl (toSetVal (.int 9)) = some h1) :
    ∃ n, n < 2 ^ 8 ∧ h1.get .ttl = some (.num n) ∧
      ((Pkt.new (rec0 udpFrame) udpFrame).run [.set .pkt ([.eth, .ipv4] ++ [.ttl]) (.int 9), .reparse,
          .get (.dollar 3) ([] ++ [.dstport])]).2 =
        .ok (.int 9) :: .bytes ((rec0 udpFrame).toBytes ++ Rfc.setBits udpFrame (8 * 14 + 64) 8 n) ::
          ((Pkt.new (rec0 udpFrame) udpFrame).run [.get (.dollar 3) ([] ++ [.dstport])]).2 ∧
      ((Pkt.new (rec0 udpFrame) udpFrame).run [.set .pkt ([.eth, .ipv4] ++ [.ttl]) (.int 9), .reparse,
          .get .pkt ([.eth] ++ [.src])]).2 =
        .ok (.int 9) :: .bytes ((rec0 udpFrame).toBytes ++ Rfc.setBits udpFrame (8 * 14 + 64) 8 n) ::
          ((Pkt.new (rec0 udpFrame) udpFrame).run [.get .pkt ([.eth] ++ [.src])]).2 ∧
      ((Pkt.new (rec0 udpFrame) udpFrame).run [.set .pkt ([.eth, .ipv4] ++ [.ttl]) (.int 9), .reparse,
          .get .pkt ([.eth, .ipv4] ++ [.id])]).2 =
        .ok (.int 9) :: .bytes ((rec0 udpFrame).toBytes ++ Rfc.setBits udpFrame (8 * 14 + 64) 8 n) ::
          ((Pkt.new (rec0 udpFrame) udpFrame).run [.get .pkt ([.eth, .ipv4] ++ [.id])]).2 ∧
      ((Pkt.new (rec0 udpFrame) udpFrame).run [.set .pkt ([.eth, .ipv4] ++ [.ttl]) (.int 9), .reparse,
          .get .pkt ([.eth, .ipv4, .udp] ++ [.payload])]).2 =
        .ok (.int 9) :: .bytes ((rec0 udpFrame).toBytes ++ Rfc.setBits udpFrame (8 * 14 + 64) 8 n) ::
          ((Pkt.new (rec0 udpFrame) udpFrame).run [.get .pkt ([.eth, .ipv4, .udp] ++ [.payload])]).2 := by
  obtain ⟨n, hn, hget, h⟩ := set_then_others_read_same (rec0 udpFrame) (by unfold C15.PcapHdr.fits; decide) udpFrame
    (by unfold wf; decide) .pkt [.eth, .ipv4] .ttl (.int 9) .ipv4 14 2 [44] 64 8 (by rfl) (by decide) rfl rfl h1 hs rfl
  exact ⟨n, hn, hget,
    h (.dollar 3) [] .dstport .udp 34 3 [44, 44] (by rfl) rfl (by unfold Touches; decide),
    h .pkt [.eth] .src .ethernet 0 1 [] (by rfl) rfl (by unfold Touches; decide),
    h .pkt [.eth, .ipv4] .id .ipv4 14 2 [44] (by rfl) rfl (by unfold Touches; decide),
    h .pkt [.eth, .ipv4, .udp] .payload .udp 34 3 [44, 44] (by rfl) rfl (by unfold Touches; decide)⟩

/-- the reference on that frame: after `ipv4.ttl = 9` the patched state expects the old `udp.dstport`, by the theorem -/
example : Rfc.readExpect ((specState (rec0 udpFrame) udpFrame).patch .ipv4 14 64 8 9) (.dollar 3) [.dstport] =
    Rfc.readExpect (specState (rec0 udpFrame) udpFrame) (.dollar 3) [.dstport] :=
  reference_read_patched _ (by unfold wf; decide) .pkt [.eth, .ipv4] .ipv4 14 2 [44] (by rfl) (by decide) .ttl 64 8 rfl rfl 9
    (.dollar 3) [.dstport] (by
      intro ns q l' s' d' e' hp hc
      have : ns = [] ∧ q = .dstport := by
        cases ns with
        | nil => simp at hp; exact ⟨rfl, hp.symm⟩
        | cons a t => cases t <;> simp at hp
      obtain ⟨rfl, rfl⟩ := this
      have : d' = 3 := by
        have h3 : Rfc.cursorAt (specState (rec0 udpFrame) udpFrame) [] (Rfc.headCur (specState (rec0 udpFrame) udpFrame) (.dollar 3)) =
            .at .udp 34 3 [44, 44] := by rfl
        rw [h3] at hc; cases hc; rfl
      subst this
      unfold Touches; decide)

/-- the immediate version on that frame: after `pkt.eth.ipv4.ttl = 9` (no re-parse) `$3.dstport`, `pkt.eth.ipv4.proto` and
the payload of the ENCLOSING Ethernet layer read what they read before -/
example (h1 : Hdr) (hs : (parseAs .ipv4 (rd udpFrame 14)).set .ttl (toSetVal (.int 9)) = some h1) :
    ((Pkt.new (rec0 udpFrame) udpFrame).run [.set .pkt ([.eth, .ipv4] ++ [.ttl]) (.int 9), .get (.dollar 3) ([] ++ [.dstport])]).2 =
      .ok (.int 9) :: ((Pkt.new (rec0 udpFrame) udpFrame).run [.get (.dollar 3) ([] ++ [.dstport])]).2 ∧
    ((Pkt.new (rec0 udpFrame) udpFrame).run [.set .pkt ([.eth, .ipv4] ++ [.ttl]) (.int 9), .get .pkt ([.eth, .ipv4] ++ [.proto])]).2 =
      .ok (.int 9) :: ((Pkt.new (rec0 udpFrame) udpFrame).run [.get .pkt ([.eth, .ipv4] ++ [.proto])]).2 ∧
    ((Pkt.new (rec0 udpFrame) udpFrame).run [.set .pkt ([.eth, .ipv4] ++ [.ttl]) (.int 9), .get .pkt ([.eth] ++ [.payload])]).2 =
      .ok (.int 9) :: ((Pkt.new (rec0 udpFrame) udpFrame).run [.get .pkt ([.eth] ++ [.payload])]).2 := by
  have h := set_then_others_read_same_now (rec0 udpFrame) udpFrame (by unfold wf; decide) .pkt [.eth, .ipv4] .ttl (.int 9)
    .ipv4 14 2 [44] (by rfl) (by decide) rfl (by decide) h1 hs
  exact ⟨h (.dollar 3) [] .dstport (by unfold SameField; decide) (Or.inl rfl),
    h .pkt [.eth, .ipv4] .proto (by unfold SameField; decide) (Or.inl rfl),
    h .pkt [.eth] .payload (by unfold SameField; decide) (Or.inl rfl)⟩

/-- **the boundary for structural fields**, on that frame.  `pkt.eth.type = 0x86DD` (structural): immediately afterwards
`pkt.eth.src` and `pkt.caplen` read as before (the theorem), but `pkt.eth.ipv4` is now null — nothing is demanded of the
layers below.  `pkt.eth.ipv4.ihl = 15` (structural), then write + re-parse: `pkt.eth.type` reads as before, but the IPv4
layer ITSELF is now an error object (60 announced header bytes, 30 captured), so `pkt.eth.ipv4.ttl` is a runtime error:
after a re-parse not even the assigned layer's other fields are preserved by an assignment to a length field. -/
example :
    (match ((Pkt.new (rec0 udpFrame) udpFrame).run [.set .pkt [.eth, .etype] (.int 0x86DD), .get .pkt [.eth, .ipv4]]).2 with
      | [.ok _, .ok .null] => true | _ => false) = true ∧
    ((Pkt.new (rec0 udpFrame) udpFrame).run [.set .pkt [.eth, .ipv4, .ihl] (.int 15), .reparse, .get .pkt [.eth, .etype]]).2.map numOf
      = [some 15, none, some 0x0800] ∧
    (match ((Pkt.new (rec0 udpFrame) udpFrame).run [.set .pkt [.eth, .ipv4, .ihl] (.int 15), .reparse, .get .pkt [.eth, .ipv4],
        .get .pkt [.eth, .ipv4, .ttl]]).2 with
      | [.ok _, .bytes _, .ok (.err _), .rterr] => true | _ => false) = true ∧
    structural .ethernet .etype = true ∧ structural .ipv4 .ihl = true := by decide

example (h1 : Hdr) (hs : (parseAs .ethernet (rd udpFrame 0)).set .etype (toSetVal (.int 0x86DD)) = some h1) :
    ((Pkt.new (rec0 udpFrame) udpFrame).run [.set .pkt ([.eth] ++ [.etype]) (.int 0x86DD), .get .pkt ([.eth] ++ [.src])]).2 =
      .ok (.int 0x86DD) :: ((Pkt.new (rec0 udpFrame) udpFrame).run [.get .pkt ([.eth] ++ [.src])]).2 ∧
    ((Pkt.new (rec0 udpFrame) udpFrame).run [.set .pkt ([.eth] ++ [.etype]) (.int 0x86DD), .get .pkt ([] ++ [.caplen])]).2 =
      .ok (.int 0x86DD) :: ((Pkt.new (rec0 udpFrame) udpFrame).run [.get .pkt ([] ++ [.caplen])]).2 := by
  have h := set_then_others_read_same_now (rec0 udpFrame) udpFrame (by unfold wf; decide) .pkt [.eth] .etype (.int 0x86DD)
    .ethernet 0 1 [] (by rfl) (by decide) rfl (by decide) h1 hs
  exact ⟨h .pkt [.eth] .src (by unfold SameField; decide) (Or.inr (Or.inr ⟨rfl, rfl⟩)),
    h .pkt [] .caplen (by unfold SameField; decide) (Or.inr (Or.inl (by decide)))⟩

/-- `pkt.eth.ipv4.ihl = 15` (structural), write + re-parse: `pkt.eth.type` and `pkt.eth.dst` read as before, by the theorem -/
example (h1 : Hdr) (hs : (parseAs .ipv4 (rd udpFrame 14)).set .ihl (toSetVal (.int 15)) = some h1) :
    ∃ n, ((Pkt.new (rec0 udpFrame) udpFrame).run [.set .pkt ([.eth, .ipv4] ++ [.ihl]) (.int 15), .reparse,
          .get .pkt ([.eth] ++ [.etype])]).2 =
        .ok (.int 15) :: .bytes ((rec0 udpFrame).toBytes ++ Rfc.setBits udpFrame (8 * 14 + 4) 4 n) ::
          ((Pkt.new (rec0 udpFrame) udpFrame).run [.get .pkt ([.eth] ++ [.etype])]).2 ∧
      ((Pkt.new (rec0 udpFrame) udpFrame).run [.set .pkt ([.eth, .ipv4] ++ [.ihl]) (.int 15), .reparse,
          .get (.dollar 1) ([] ++ [.dst])]).2 =
        .ok (.int 15) :: .bytes ((rec0 udpFrame).toBytes ++ Rfc.setBits udpFrame (8 * 14 + 4) 4 n) ::
          ((Pkt.new (rec0 udpFrame) udpFrame).run [.get (.dollar 1) ([] ++ [.dst])]).2 := by
  obtain ⟨n, -, -, h⟩ := set_then_above_read_same (rec0 udpFrame) (by unfold C15.PcapHdr.fits; decide) udpFrame
    (by unfold wf; decide) .pkt [.eth, .ipv4] .ihl (.int 15) .ipv4 14 2 [44] 4 4 (by rfl) (by decide) rfl rfl h1 hs
  exact ⟨n, h .pkt [.eth] .etype .ethernet 0 1 [] (by rfl) rfl (by decide) (by decide),
    h (.dollar 1) [] .dst .ethernet 0 1 [] (by rfl) rfl (by decide) (by decide)⟩

end P2sh.Props.C17

#print axioms P2sh.Props.C17.cursor_patched
#print axioms P2sh.Props.C17.reference_read_patched
#print axioms P2sh.Props.C17.set_then_others_read_same
#print axioms P2sh.Props.C17.payload_above_patched
#print axioms P2sh.Props.C17.set_then_others_read_same_now
#print axioms P2sh.Props.C17.set_then_above_read_same
#print axioms P2sh.Props.C17.structural_table
#print axioms P2sh.Props.C17.layering_reads
