import P2sh.Props.FnChain
set_option linter.unusedSimpArgs false
set_option linter.unusedVariables false
/-!
# `match` in the checked compiler soundness for programs with functions

`Props/FnChain.lean` proves the checked compiler soundness `csound_all` and `program_vm_fn` for the fragment `fragOK`,
which excludes `match`.  This file adds `match` (scrutinee, arms with literal / boolean / range / default patterns,
the default arm): the fragment is `fragOKm` = `fragOK` + `match`.

**Why a copy.**  `FnChain`'s induction is monolithic and closed: `CSound fuel` is a structure whose nine statements
quantify over the FIXED predicates `fragE` / `fragS` / … (with `fragE (.matchE ..) = false`), and every case of
`csoundE_succ` calls the induction hypothesis `ih.E` on SUB-expressions — under `fragE`.  An expression such as
`1 + match x {…}` is in no case reachable from outside: the `bin` case of `csoundE_succ` would need `ih.E` for a
sub-expression that is not `fragE`.  So the statements (`CSound…_m`) are re-stated over `fragE_m` / `initE_m` (which
descend into `match`), with one more member (`CSoundArms_m`), and the induction cases are re-run (their proof text
is `FnChain`'s, the predicates renamed).  Everything of `FnChain` that does not mention the fragment predicates is
REUSED, not copied: the values `nb`, the shadow `sh`, every `cs_…` step lemma, `Pre` / `Post` / `PostS`,
`exitSD` / `exitVD` / `exitTD` and their lemmas, `caps_load_c`, `needT`, `maxFrameNeed`, `fits`, `DSteps_dsteps`.

New here:
* `cs_dup`, `cs_cmp`, `cs_pat`, `cs_pats` — the checked (`DSteps`) versions of `fs_dup` / `fs_cmp` / `fs_pat` / `fs_pats`
  (`Core/Fn/Sound.lean`): the template `Dup; <push c>; <op>; JumpIfFalse t` needs room for two more operands;
* `CSoundArms_m`, `csoundArms_succ_m` — the arms clause; the `matchE` case of `csoundE_succ_m`;
* `fragE_m` … `fragOKm`, `initE_m` … `initOK_m` (a `match` reads the slots its scrutinee, its arm bodies and its
  default read);
* `csound_all_m`, `program_checked_fn_m`, `program_checkedRun_fn_m`, `program_vm_fn_m`, `oracle_vm_fn_partial_m`;
* `fragOKm_of_fragOK`: the old fragment is inside the new one and `initOK_m` agrees with `initOK` on it;
* `ExampleM`: `fn f(n) { match n { 0 => 10, 1..3 => 20, true => 30, _ => 40 } }` called four times; all hypotheses by
  `rfl` / `decide`.
-/
namespace P2sh.FnChain
open P2sh P2sh.Core.Fn
open P2sh.Core hiding SoundIfV SoundP SoundS SoundV branchV branchV_cons2 branchV_single bytes_branchV bytes_compileArms bytes_compileP bytes_compileS compileArms compileP compileS compileS_ifS constsArms constsP constsS evalArms evalP evalS ifV sizeArms sizeE sizeP sizeS sizeV sizeV_cons2 sizeV_single soundIfV_succ soundP_succ soundS_succ soundV_succ sound_all sound_zero valueOf_expr valueOf_ifS valueOf_other
open P2sh.FnVm (DSteps dstep dsteps preOk postOk nextD noHeapI checkedRun)
open P2sh.Vm (stackSize maxFrames)

/-! ## the checked steps of the match template -/

section
variable {K : List Val} {F : FnDef → Option (List Instr)} {X : Ctxt}

theorem Room.mono {m m' : Nat} (h : Room X m) (hle : m' ≤ m) : Room X m' := ⟨by have := h.1; omega, h.2⟩

theorem cs_dup {pc v ops σ dl db} (h : codeAt X.code pc [Instr.dup]) (hr : Room X (ops.length + 1 + 1 + σ.l.length)) :
    dstep K F (X.st pc (v :: ops) σ, sh (ops.length + 1) dl db) = some (X.st (pc + 1) (v :: v :: ops) σ, sh (ops.length + 1 + 1) dl db) :=
  dstep_mk (fetch_codeAt h) (fs_dup h) (by simp [preOk, noHeapI, FnVm.need, sh_succ]) (post_st (by nocall) hr) (by simp [nextD, sh_succ])

/-- one comparison of the template, checked: `Dup; <push c>; <op>; JumpIfFalse t` with the scrutinee on top; two more
operands are live in between -/
theorem cs_cmp {pos sz t : Nat} {v c r : Val} {ops : List Val} {σ : Sto} {o : Operator} {dl db : List Bool} (push : Instr) (hsz : push.size = sz)
    (ho : o = .notEqual ∨ o = .greaterEq ∨ o = .greater)
    (hpush : dstep K F (X.st (pos + 1) (v :: v :: ops) σ, sh (ops.length + 1 + 1) dl db) =
      some (X.st (pos + 1 + sz) (c :: v :: v :: ops) σ, sh (ops.length + 1 + 1 + 1) dl db))
    (h : codeAt X.code pos [.dup, push, .op o, .jif t]) (hop : cmpH σ.a o v c = .ok r) (hr : Room X (ops.length + 3 + σ.l.length)) :
    DSteps K F (X.st pos (v :: ops) σ, sh (ops.length + 1) dl db)
      (X.st (if r.isFalsey then t else pos + 1 + sz + 1 + 3) (v :: ops) σ, sh (ops.length + 1) dl db) := by
  obtain ⟨h1, h⟩ := codeAt_cons h
  obtain ⟨_, h⟩ := codeAt_cons h
  rw [hsz] at h
  obtain ⟨h3, h⟩ := codeAt_cons h
  obtain ⟨h4, _⟩ := codeAt_cons h
  have h3 : codeAt X.code (pos + 1 + sz) [Instr.op o] := h3
  have h4 : codeAt X.code (pos + 1 + sz + 1) [Instr.jif t] := h4
  obtain ⟨e1, e2⟩ := opH_cmp ho hop
  have s1 := DS.one (cs_dup (K := K) (F := F) (v := v) (ops := ops) (σ := σ) (dl := dl) (db := db) h1 (hr.mono (by omega)))
  have s3 := DS.one (cs_op (K := K) (F := F) (ops := v :: ops) (σ := σ) (dl := dl) (db := db) h3 e1 (hr.mono (by simp)))
  have s4 := DS.one (cs_jif (K := K) (F := F) (v := r) (ops := v :: ops) (σ := σ) (dl := dl) (db := db) h4 (hr.mono (by simp)))
  rw [e2] at s4
  exact s1.trans ((DS.one hpush).trans (s3.trans s4))

theorem cs_pat (p : CPat) (pos k t : Nat) (v : Val) (ops : List Val) (σ : Sto) (b : Bool) (dl db : List Bool)
    (h : codeAt X.code pos (compilePat pos k t p)) (hp : poolAt K k (patConsts p)) (ht : patTestH σ.a v p = some b)
    (hr : Room X (ops.length + 3 + σ.l.length)) :
    DSteps K F (X.st pos (v :: ops) σ, sh (ops.length + 1) dl db) (X.st (if b then t else pos + patBytes p) (v :: ops) σ, sh (ops.length + 1) dl db) := by
  have hr3 : Room X ((v :: v :: ops).length + 1 + σ.l.length) := hr.mono (by simp)
  cases p with
  | lit c =>
    simp only [patTestH] at ht
    simp only [compilePat] at h
    cases hop : cmpH σ.a .notEqual v c with
    | ok r =>
      simp only [hop, Option.some.injEq] at ht
      subst ht
      have hc : codeAt X.code (pos + 1) [Instr.const k] := (codeAt_cons (codeAt_cons h).2).1
      have := cs_cmp (K := K) (F := F) (sz := 3) (ops := ops) (dl := dl) (db := db) (.const k) rfl (Or.inl rfl)
        (cs_const hc (poolAt_get (by simpa [patConsts] using hp)) hr3) h hop hr
      exact this.to (by simp [patBytes])
    | err m => simp [hop] at ht
    | panic m => simp [hop] at ht
  | bool c =>
    simp only [patTestH] at ht
    simp only [compilePat] at h
    cases hop : cmpH σ.a .notEqual v (.bool c) with
    | ok r =>
      simp only [hop, Option.some.injEq] at ht
      subst ht
      cases c with
      | true =>
        have h : codeAt X.code pos [.dup, .tru, .op .notEqual, .jif t] := by simpa using h
        have hc : codeAt X.code (pos + 1) [Instr.tru] := (codeAt_cons (codeAt_cons h).2).1
        have := cs_cmp (K := K) (F := F) (sz := 1) (ops := ops) (dl := dl) (db := db) .tru rfl (Or.inl rfl) (cs_tru hc hr3) h hop hr
        exact this.to (by simp [patBytes])
      | false =>
        have h : codeAt X.code pos [.dup, .fls, .op .notEqual, .jif t] := by simpa using h
        have hc : codeAt X.code (pos + 1) [Instr.fls] := (codeAt_cons (codeAt_cons h).2).1
        have := cs_cmp (K := K) (F := F) (sz := 1) (ops := ops) (dl := dl) (db := db) .fls rfl (Or.inl rfl) (cs_fls hc hr3) h hop hr
        exact this.to (by simp [patBytes])
    | err m => simp [hop] at ht
    | panic m => simp [hop] at ht
  | range incl lo hi =>
    simp only [patTestH] at ht
    simp only [compilePat] at h
    have hA : codeAt X.code pos [.dup, .const k, .op .greaterEq, .jif (pos + 16)] :=
      codeAt_left (b := [.dup, .const (k + 1), .op (if incl then .greater else .greaterEq), .jif t]) (by simpa using h)
    have hB : codeAt X.code (pos + 8) [.dup, .const (k + 1), .op (if incl then .greater else .greaterEq), .jif t] := by
      have := codeAt_right (a := [.dup, .const k, .op .greaterEq, .jif (pos + 16)]) (by simpa using h)
      simpa [bytes, Instr.size] using this
    have hp1 : poolAt K k [lo] := poolAt_left (b := [hi]) (by simpa [patConsts] using hp)
    have hp2 : poolAt K (k + 1) [hi] := by
      have := poolAt_right (a := [lo]) (b := [hi]) (by simpa [patConsts] using hp)
      simpa using this
    cases hop1 : cmpH σ.a .greaterEq v lo with
    | ok r1 =>
      simp only [hop1] at ht
      have hc1 : codeAt X.code (pos + 1) [Instr.const k] := (codeAt_cons (codeAt_cons hA).2).1
      have s1 := cs_cmp (K := K) (F := F) (sz := 3) (ops := ops) (dl := dl) (db := db) (.const k) rfl (Or.inr (Or.inl rfl))
        (cs_const hc1 (poolAt_get hp1) hr3) hA hop1 hr
      by_cases hf : r1.isFalsey = true
      · simp only [hf, if_true, Option.some.injEq] at ht s1
        subst ht
        exact s1.to (by simp [patBytes])
      · simp only [hf, Bool.false_eq_true, if_false] at ht s1
        cases hop2 : cmpH σ.a (if incl then .greater else .greaterEq) v hi with
        | ok r2 =>
          simp only [hop2, Option.some.injEq] at ht
          subst ht
          have hc2 : codeAt X.code (pos + 8 + 1) [Instr.const (k + 1)] := (codeAt_cons (codeAt_cons hB).2).1
          have s2 := cs_cmp (K := K) (F := F) (sz := 3) (ops := ops) (dl := dl) (db := db) (.const (k + 1)) rfl
            (by cases incl <;> simp) (cs_const hc2 (poolAt_get hp2) hr3) hB hop2 hr
          exact ((s1.to (by simp)).trans s2).to (by simp [patBytes])
        | err m => simp [hop2] at ht
        | panic m => simp [hop2] at ht
    | err m => simp [hop1] at ht
    | panic m => simp [hop1] at ht
  | dflt =>
    simp only [patTestH, Option.some.injEq] at ht
    subst ht
    simp only [compilePat] at h
    exact (DS.one (cs_jump (ops := v :: ops) h (hr.mono (by simp)))).to (by simp)

/-- the tests of the patterns of one arm, checked, with the scrutinee `v` on top of the operands -/
theorem cs_pats : ∀ (ps : List CPat) (pos k t : Nat) (v : Val) (ops : List Val) (σ : Sto) (b : Bool) (dl db : List Bool),
    codeAt X.code pos (compilePats pos k t ps) → poolAt K k (patsConsts ps) → patsTestH σ.a v ps = some b →
    Room X (ops.length + 3 + σ.l.length) →
    DSteps K F (X.st pos (v :: ops) σ, sh (ops.length + 1) dl db) (X.st (if b then t else pos + patsBytes ps) (v :: ops) σ, sh (ops.length + 1) dl db)
  | [], pos, k, t, v, ops, σ, b, dl, db, _, _, ht, _ => by
    simp only [patsTestH, Option.some.injEq] at ht
    subst ht
    exact (DSteps.refl _).to (by simp [patsBytes])
  | p :: ps, pos, k, t, v, ops, σ, b, dl, db, h, hp, ht, hr => by
    simp only [compilePats] at h
    simp only [patsConsts] at hp
    simp only [patsTestH] at ht
    cases h1 : patTestH σ.a v p with
    | none => simp [h1] at ht
    | some b1 =>
      have s1 := cs_pat (K := K) (F := F) p pos k t v ops σ b1 dl db (codeAt_left h) (poolAt_left hp) h1 hr
      cases b1 with
      | true =>
        simp only [h1, Option.some.injEq] at ht
        subst ht
        exact s1
      | false =>
        simp only [h1] at ht
        have hr' := codeAt_right h
        rw [bytes_compilePat] at hr'
        have s2 := cs_pats ps (pos + patBytes p) (k + (patConsts p).length) t v ops σ b dl db hr' (poolAt_right hp) ht hr
        refine (s1.to (by simp)).trans (s2.to ?_)
        cases b <;> simp [patsBytes, Nat.add_assoc]

end

/-! ## the fragment with `match`, and `initOK` through `match` -/

mutual
/-- the fragment `FnVm` covers (no arrays, maps, indexing, builtin functions), WITH `match`; no literal is a builtin function -/
def fragE_m : FExpr → Bool
  | .lit _ v => nb v
  | .tru _ | .fls _ | .null _ | .gget .. | .lget .. | .curr _ | .fget .. => true
  | .un _ _ e => fragE_m e
  | .bin _ _ a b => fragE_m a && fragE_m b
  | .lt _ a b | .le _ a b | .and _ a b | .or _ a b => fragE_m a && fragE_m b
  | .ite _ c t e => fragE_m c && fragE_m t && fragE_m e
  | .gset _ _ e | .lset _ _ e | .fset _ _ e => fragE_m e
  | .call _ f args => fragE_m f && fragArgs_m args
  | .mkclos .. => true
  | .matchE _ s arms => fragE_m s && fragArms_m arms
  | .arrLit .. | .mapLit .. | .index .. | .setIndex .. | .bfn .. => false
def fragArms_m : FArms → Bool
  | .last _ _ d => fragE_m d
  | .cons _ _ body rest => fragE_m body && fragArms_m rest
def fragArgs_m : FArgs → Bool
  | .nil => true
  | .cons a r => fragE_m a && fragArgs_m r
def fragS_m : FStmt → Bool
  | .letG _ _ e | .letL _ _ e | .expr _ e | .ret _ e => fragE_m e
  | .block _ b => fragP_m b
  | .loopS _ _ b => fragP_m b
  | .whileS _ _ c b => fragE_m c && fragP_m b
  | .breakS .. | .continueS .. | .retN _ => true
  | .ifS _ _ c t e => fragE_m c && fragP_m t && fragP_m e
def fragP_m : List FStmt → Bool
  | [] => true
  | s :: r => fragS_m s && fragP_m r
end

mutual
/-- as `initE`, and a `match` reads what its scrutinee, the bodies of its arms and its default read -/
def initE_m (D : List Nat) : FExpr → Bool
  | .lget _ i => decide (i ∈ D)
  | .lset _ i e => decide (i ∈ D) && initE_m D e
  | .mkclos _ _ _ _ _ _ caps => caps.all (capOK D)
  | .un _ _ e => initE_m D e
  | .bin _ _ a b => initE_m D a && initE_m D b
  | .lt _ a b | .le _ a b | .and _ a b | .or _ a b => initE_m D a && initE_m D b
  | .ite _ c t e => initE_m D c && initE_m D t && initE_m D e
  | .gset _ _ e | .fset _ _ e => initE_m D e
  | .call _ f args => initE_m D f && initArgs_m D args
  | .matchE _ s arms => initE_m D s && initArms_m D arms
  | _ => true
def initArms_m (D : List Nat) : FArms → Bool
  | .last _ _ d => initE_m D d
  | .cons _ _ body rest => initE_m D body && initArms_m D rest
def initArgs_m (D : List Nat) : FArgs → Bool
  | .nil => true
  | .cons a r => initE_m D a && initArgs_m D r
def initS_m (D : List Nat) : FStmt → Bool
  | .letG _ _ e | .letL _ _ e | .expr _ e | .ret _ e => initE_m D e
  | .block _ b => initP_m D b
  | .loopS _ _ b => initP_m D b
  | .whileS _ _ c b => initE_m D c && initP_m D b
  | .breakS .. | .continueS .. | .retN _ => true
  | .ifS _ _ c t e => initE_m D c && initP_m D t && initP_m D e
def initP_m (D : List Nat) : List FStmt → Bool
  | [] => true
  | s :: r =>
    initS_m D s && initP_m (defS s D) r
end

theorem initP_cons_m (D : List Nat) (s : FStmt) (r : List FStmt) : initP_m D (s :: r) = (initS_m D s && initP_m (defS s D) r) := by
  rw [initP_m]

/-! ## the checked statements of compiler correctness, over the fragment with `match` -/

section
variable (Φ : FnDef → Option FDecl) (K : List Val) (F : FnDef → Option (List Instr)) (W : Nat)

/-- every declaration is in the fragment, reads no slot before its `let` (the parameters are
defined at entry), and an activation of it needs at most `W` stack slots -/
def GoodΦ_m : Prop :=
  ∀ fd d, Φ fd = some d → fragP_m d.body = true ∧ initP_m (List.range d.np) d.body = true ∧ d.np ≤ d.nl ∧ d.nl + sizeP d.body + 3 ≤ W

def CSoundE_m (fuel : Nat) : Prop :=
  ∀ (e : FExpr) (X : Ctxt) (pos k : Nat) (ops : List Val) (cx : Option (FnDef × Nat)) (σ σ' : Sto) (v : Val) (db dl : List Bool) (D : List Nat),
    codeAt X.code pos (compileE pos k e) → poolAt K k (constsE e) → Agree cx X → evalE Φ fuel cx σ e = some (v, σ') →
    fragE_m e = true → initE_m D e = true → Pre W X db ops σ dl D (sizeE e) fuel →
    DSteps K F (X.st pos ops σ, sh ops.length dl db) (X.st (pos + bytes (compileE pos k e)) (v :: ops) σ', sh (ops.length + 1) dl db)
      ∧ Post σ σ' dl dl ∧ nb v = true

/-- the arms of a `match`, the scrutinee `v` on top of the operands: the value of the chosen arm replaces it -/
def CSoundArms_m (fuel : Nat) : Prop :=
  ∀ (arms : FArms) (X : Ctxt) (pos k : Nat) (ops : List Val) (cx : Option (FnDef × Nat)) (σ σ' : Sto) (v r : Val) (db dl : List Bool) (D : List Nat),
    codeAt X.code pos (compileArms pos k arms) → poolAt K k (constsArms arms) → Agree cx X →
    evalArms Φ fuel cx σ v arms = some (r, σ') →
    fragArms_m arms = true → initArms_m D arms = true → Pre W X db (v :: ops) σ dl D (sizeArms arms) fuel →
    DSteps K F (X.st pos (v :: ops) σ, sh (ops.length + 1) dl db)
        (X.st (pos + bytes (compileArms pos k arms)) (r :: ops) σ', sh (ops.length + 1) dl db)
      ∧ Post σ σ' dl dl ∧ nb r = true

def CSoundArgs_m (fuel : Nat) : Prop :=
  ∀ (args : FArgs) (X : Ctxt) (pos k : Nat) (ops : List Val) (cx : Option (FnDef × Nat)) (σ σ' : Sto) (vs : List Val) (db dl : List Bool) (D : List Nat),
    codeAt X.code pos (compileArgs pos k args) → poolAt K k (constsArgs args) → Agree cx X →
    evalArgs Φ fuel cx σ args = some (vs, σ') →
    fragArgs_m args = true → initArgs_m D args = true → Pre W X db ops σ dl D (sizeArgs args) fuel →
    DSteps K F (X.st pos ops σ, sh ops.length dl db)
        (X.st (pos + bytes (compileArgs pos k args)) (vs.reverse ++ ops) σ', sh (vs.length + ops.length) dl db)
      ∧ vs.length = args.length ∧ Post σ σ' dl dl ∧ nbs vs

def CSoundS_m (fuel : Nat) : Prop :=
  ∀ (s : FStmt) (X : Ctxt) (pos k : Nat) (ctx : List LoopCtx) (ops : List Val) (cx : Option (FnDef × Nat)) (σ σ' : Sto) (f : FFlow) (bv : Val)
    (db dl : List Bool) (D : List Nat),
    codeAt X.code pos (compileS pos k ctx s) → poolAt K k (constsS s) → Agree cx X →
    evalS Φ fuel cx σ s = some (σ', f, bv) →
    fragS_m s = true → initS_m D s = true → Pre W X db ops σ dl D (sizeS s) fuel →
    ∃ dl', DSteps K F (X.st pos ops σ, sh ops.length dl db) (exitSD X ctx (pos + bytes (compileS pos k ctx s)) ops σ' dl' db f)
      ∧ PostS σ σ' dl dl' f bv ∧ (f = .normal → ∀ i ∈ defS s D, dl'[i]? = some true)

def CSoundSV_m (fuel : Nat) : Prop :=
  ∀ (s : FStmt) (X : Ctxt) (pos k : Nat) (ctx : List LoopCtx) (ops : List Val) (cx : Option (FnDef × Nat)) (σ σ' : Sto) (f : FFlow) (bv : Val)
    (db dl : List Bool) (D : List Nat),
    codeAt X.code pos (valueOf s.isExprStmt (compileS pos k ctx s)) → poolAt K k (constsS s) → Agree cx X →
    evalS Φ fuel cx σ s = some (σ', f, bv) →
    fragS_m s = true → initS_m D s = true → Pre W X db ops σ dl D (sizeS s + 1) fuel →
    ∃ dl', DSteps K F (X.st pos ops σ, sh ops.length dl db)
        (exitVD X ctx (pos + bytes (valueOf s.isExprStmt (compileS pos k ctx s))) ops σ' dl' db f bv)
      ∧ PostS σ σ' dl dl' f bv

def CSoundST_m (fuel : Nat) : Prop :=
  ∀ (s : FStmt) (X : Ctxt) (pos k : Nat) (ctx : List LoopCtx) (ops : List Val) (fd : FnDef) (id : Nat) (σ σ' : Sto) (f : FFlow) (bv : Val)
    (db dl : List Bool) (D : List Nat),
    codeAt X.code pos (tailOf s (compileS pos k ctx s)) → poolAt K k (constsS s) → Agree (some (fd, id)) X →
    evalS Φ fuel (some (fd, id)) σ s = some (σ', f, bv) →
    fragS_m s = true → initS_m D s = true → Pre W X db ops σ dl D (sizeS s + 1) fuel →
    ∃ dl', DSteps K F (X.st pos ops σ, sh ops.length dl db) (exitTD X ctx ops σ' dl' db f bv) ∧ PostS σ σ' dl dl' f bv

def CSoundP_m (fuel : Nat) : Prop :=
  ∀ (ss : List FStmt) (X : Ctxt) (pos k : Nat) (ctx : List LoopCtx) (ops : List Val) (cx : Option (FnDef × Nat)) (σ σ' : Sto) (f : FFlow) (bv : Val)
    (db dl : List Bool) (D : List Nat),
    codeAt X.code pos (compileP pos k ctx ss) → poolAt K k (constsP ss) → Agree cx X →
    evalP Φ fuel cx σ ss = some (σ', f, bv) →
    fragP_m ss = true → initP_m D ss = true → Pre W X db ops σ dl D (sizeP ss) fuel →
    ∃ dl', DSteps K F (X.st pos ops σ, sh ops.length dl db) (exitSD X ctx (pos + bytes (compileP pos k ctx ss)) ops σ' dl' db f)
      ∧ PostS σ σ' dl dl' f bv

def CSoundV_m (fuel : Nat) : Prop :=
  ∀ (ss : List FStmt) (X : Ctxt) (pos k : Nat) (ctx : List LoopCtx) (ops : List Val) (cx : Option (FnDef × Nat)) (σ σ' : Sto) (f : FFlow) (bv : Val)
    (db dl : List Bool) (D : List Nat),
    codeAt X.code pos (branchV pos k ctx ss) → poolAt K k (constsP ss) → Agree cx X →
    evalP Φ fuel cx σ ss = some (σ', f, bv) →
    fragP_m ss = true → initP_m D ss = true → Pre W X db ops σ dl D (sizeP ss + 1) fuel →
    ∃ dl', DSteps K F (X.st pos ops σ, sh ops.length dl db) (exitVD X ctx (pos + bytes (branchV pos k ctx ss)) ops σ' dl' db f bv)
      ∧ PostS σ σ' dl dl' f bv

def CSoundT_m (fuel : Nat) : Prop :=
  ∀ (ss : List FStmt) (X : Ctxt) (pos k : Nat) (ctx : List LoopCtx) (ops : List Val) (fd : FnDef) (id : Nat) (σ σ' : Sto) (f : FFlow) (bv : Val)
    (db dl : List Bool) (D : List Nat),
    codeAt X.code pos (tailP pos k ctx ss) → poolAt K k (constsP ss) → Agree (some (fd, id)) X →
    evalP Φ fuel (some (fd, id)) σ ss = some (σ', f, bv) →
    fragP_m ss = true → initP_m D ss = true → Pre W X db ops σ dl D (sizeP ss + 1) fuel →
    ∃ dl', DSteps K F (X.st pos ops σ, sh ops.length dl db) (exitTD X ctx ops σ' dl' db f bv) ∧ PostS σ σ' dl dl' f bv

def CSoundIfV_m (fuel : Nat) : Prop :=
  ∀ (ls l : Nat) (c : FExpr) (thn els : List FStmt) (X : Ctxt) (pos k : Nat) (ctx : List LoopCtx) (ops : List Val) (cx : Option (FnDef × Nat))
    (σ σ' : Sto) (f : FFlow) (bv : Val) (db dl : List Bool) (D : List Nat),
    codeAt X.code pos (ifV pos k ctx c thn els) → poolAt K k (constsE c ++ constsP thn ++ constsP els) → Agree cx X →
    evalS Φ fuel cx σ (.ifS ls l c thn els) = some (σ', f, bv) →
    fragS_m (.ifS ls l c thn els) = true → initS_m D (.ifS ls l c thn els) = true → Pre W X db ops σ dl D (sizeS (.ifS ls l c thn els)) fuel →
    ∃ dl', DSteps K F (X.st pos ops σ, sh ops.length dl db) (exitVD X ctx (pos + bytes (ifV pos k ctx c thn els)) ops σ' dl' db f bv)
      ∧ PostS σ σ' dl dl' f bv

structure CSound_m (fuel : Nat) : Prop where
  E : CSoundE_m Φ K F W fuel
  Arms : CSoundArms_m Φ K F W fuel
  Args : CSoundArgs_m Φ K F W fuel
  S : CSoundS_m Φ K F W fuel
  SV : CSoundSV_m Φ K F W fuel
  ST : CSoundST_m Φ K F W fuel
  P : CSoundP_m Φ K F W fuel
  V : CSoundV_m Φ K F W fuel
  T : CSoundT_m Φ K F W fuel
  IfV : CSoundIfV_m Φ K F W fuel

end

section
variable {Φ : FnDef → Option FDecl} {K : List Val} {F : FnDef → Option (List Instr)} {W : Nat}

theorem csoundE_succ_m (fuel : Nat) (ih : CSound_m Φ K F W fuel) (hL : Linked Φ K F) (hG : GoodΦ_m Φ W) : CSoundE_m Φ K F W (fuel + 1) := by
  intro e X pos k ops cx σ σ' v db dl D h hp hx he hfr hin hP
  cases e with
  | lit l x =>
    simp only [evalE, Option.some.injEq, Prod.mk.injEq] at he
    obtain ⟨rfl, rfl⟩ := he
    simp only [compileE] at h ⊢
    simp only [constsE] at hp
    simp only [fragE_m] at hfr
    exact ⟨(DS.one (cs_const h (poolAt_get hp) (hP.room 1 (by sz)))).toPc (by parith), .rfl' hP.nbS, hfr⟩
  | tru l =>
    simp only [evalE, Option.some.injEq, Prod.mk.injEq] at he
    obtain ⟨rfl, rfl⟩ := he
    simp only [compileE] at h ⊢
    exact ⟨(DS.one (cs_tru h (hP.room 1 (by sz)))).toPc (by parith), .rfl' hP.nbS, rfl⟩
  | fls l =>
    simp only [evalE, Option.some.injEq, Prod.mk.injEq] at he
    obtain ⟨rfl, rfl⟩ := he
    simp only [compileE] at h ⊢
    exact ⟨(DS.one (cs_fls h (hP.room 1 (by sz)))).toPc (by parith), .rfl' hP.nbS, rfl⟩
  | null l =>
    simp only [evalE, Option.some.injEq, Prod.mk.injEq] at he
    obtain ⟨rfl, rfl⟩ := he
    simp only [compileE] at h ⊢
    exact ⟨(DS.one (cs_null h (hP.room 1 (by sz)))).toPc (by parith), .rfl' hP.nbS, rfl⟩
  | gget l i =>
    simp only [evalE, Option.some.injEq, Prod.mk.injEq] at he
    obtain ⟨rfl, rfl⟩ := he
    simp only [compileE] at h ⊢
    exact ⟨(DS.one (cs_getGlobal h (hP.room 1 (by sz)))).toPc (by parith), .rfl' hP.nbS, nbs_getD hP.nbS.g i⟩
  | lget l i =>
    simp only [evalE] at he
    cases hv : σ.l[i]? with
    | none => simp [hv] at he
    | some x =>
      simp only [hv, Option.some.injEq, Prod.mk.injEq] at he
      obtain ⟨rfl, rfl⟩ := he
      simp only [compileE] at h ⊢
      have hi : i ∈ D := by simpa [initE_m] using hin
      exact ⟨(DS.one (cs_getLocal h hv (hP.defd i hi) hP.dbl (hP.room 1 (by sz)))).toPc (by parith), .rfl' hP.nbS,
        hP.nbS.l _ (List.mem_of_getElem? hv)⟩
  | curr l =>
    simp only [evalE] at he
    cases cx with
    | none => simp at he
    | some c =>
      obtain ⟨fd, id⟩ := c
      simp only [Option.some.injEq, Prod.mk.injEq] at he
      obtain ⟨rfl, rfl⟩ := he
      simp only [compileE] at h ⊢
      obtain ⟨hfd, hid, _⟩ := hx fd id rfl
      exact ⟨((DS.one (cs_currClosure h (hP.room 1 (by sz)))).to (by rw [hfd, hid])).toPc (by parith), .rfl' hP.nbS, rfl⟩
  | fget l i =>
    simp only [evalE] at he
    cases cx with
    | none => simp at he
    | some c =>
      obtain ⟨fd, id⟩ := c
      simp only at he
      cases hv : freeGet σ.h id i with
      | none => simp [hv] at he
      | some x =>
        simp only [hv, Option.some.injEq, Prod.mk.injEq] at he
        obtain ⟨rfl, rfl⟩ := he
        simp only [compileE] at h ⊢
        obtain ⟨_, hid, _⟩ := hx fd id rfl
        exact ⟨(DS.one (cs_getFree h (by rw [hid]; exact hv) (hP.room 1 (by sz)))).toPc (by parith), .rfl' hP.nbS, freeGet_nb hP.nbS.h hv⟩
  | fset l i a =>
    simp only [compileE] at h ⊢
    simp only [evalE] at he
    simp only [constsE] at hp
    simp only [fragE_m] at hfr
    simp only [initE_m] at hin
    cases hea : evalE Φ fuel cx σ a with
    | none => simp [hea] at he
    | some r =>
      obtain ⟨va, σ1⟩ := r
      simp only [hea] at he
      cases cx with
      | none => simp at he
      | some c =>
        obtain ⟨fd, id⟩ := c
        simp only at he
        cases hv : freeSet σ1.h id i va with
        | none => simp [hv] at he
        | some h' =>
          simp only [hv, Option.some.injEq, Prod.mk.injEq] at he
          obtain ⟨rfl, rfl⟩ := he
          generalize hca : compileE pos k a = ca at *
          obtain ⟨ha, Qa, nva⟩ := ih.E a X pos k ops (some (fd, id)) σ σ1 va db dl D (hca ▸ codeAt_left h) hp hx hea hfr hin (hP.sub (by sz))
          rw [hca] at ha
          have hs : codeAt X.code (pos + bytes ca) [Instr.setFree i] := codeAt_right h
          obtain ⟨_, hid, _⟩ := hx fd id rfl
          exact ⟨(ha.trans (DS.one (cs_setFree hs (by rw [hid]; exact hv) ((hP.next Qa).room 1 (by sz))))).toPc (by parith),
            Qa.setH (freeSet_nbs Qa.nbS.h nva hv), nva⟩
  | mkclos l code lines np nl body caps =>
    simp only [compileE] at h ⊢
    simp only [evalE] at he
    simp only [constsE] at hp
    simp only [initE_m] at hin
    cases hc : capVals cx σ caps with
    | none => simp [hc] at he
    | some vs =>
      simp only [hc, Option.some.injEq, Prod.mk.injEq] at he
      obtain ⟨rfl, rfl⟩ := he
      obtain ⟨s1, hlen, hnvs⟩ := caps_load_c (K := K) (F := F) (W := W) caps X pos ops cx σ vs db dl D fuel (codeAt_left h) hx hc hin (hP.sub (by sz))
      have hcl : codeAt X.code (pos + bytes (caps.map capInstr)) [Instr.closure (k + (constsP body).length) vs.length] := by
        rw [hlen]; exact codeAt_right h
      have hk : K[k + (constsP body).length]? = some (.func (mkFd code lines ⟨np, nl, body, l⟩)) := poolAt_get (poolAt_right hp)
      exact ⟨(s1.trans (DS.one (cs_closure hcl hk (hP.room 1 (by sz))))).toPc (by parith),
        (Post.rfl' hP.nbS).setH (pushH_nbs hP.nbS.h hnvs), rfl⟩
  | un l op a =>
    simp only [compileE] at h ⊢
    simp only [evalE] at he
    simp only [constsE] at hp
    simp only [fragE_m] at hfr
    simp only [initE_m] at hin
    cases hea : evalE Φ fuel cx σ a with
    | none => simp [hea] at he
    | some r =>
      obtain ⟨va, σ1⟩ := r
      simp only [hea] at he
      cases hop : unH σ1.a op va with
      | ok r' =>
        simp only [hop, Option.some.injEq, Prod.mk.injEq] at he
        obtain ⟨rfl, rfl⟩ := he
        generalize hca : compileE pos k a = ca at *
        obtain ⟨ha, Qa, nva⟩ := ih.E a X pos k ops cx σ σ1 va db dl D (hca ▸ codeAt_left h) hp hx hea hfr hin (hP.sub (by sz))
        rw [hca] at ha
        have hu : codeAt X.code (pos + bytes ca) [unInstr op] := codeAt_right h
        exact ⟨(ha.trans (DS.one (cs_un hu hop ((hP.next Qa).room 1 (by sz))))).toPc
          (by simp [bytes_append, bytes]; cases op <;> simp [unInstr, Instr.size] <;> omega), Qa, unH_nb hop⟩
      | err m => simp [hop] at he
      | panic m => simp [hop] at he
  | bin l op a b =>
    simp only [compileE] at h ⊢
    simp only [evalE] at he
    simp only [constsE] at hp
    simp only [fragE_m, Bool.and_eq_true] at hfr
    simp only [initE_m, Bool.and_eq_true] at hin
    cases hea : evalE Φ fuel cx σ a with
    | none => simp [hea] at he
    | some ra =>
      obtain ⟨va, σ1⟩ := ra
      simp only [hea] at he
      cases heb : evalE Φ fuel cx σ1 b with
      | none => simp [heb] at he
      | some rb =>
        obtain ⟨vb, σ2⟩ := rb
        simp only [heb] at he
        generalize hca : compileE pos k a = ca at *
        generalize hcb : compileE (pos + bytes ca) (k + (constsE a).length) b = cb at *
        obtain ⟨ha, Qa, nva⟩ := ih.E a X pos k ops cx σ σ1 va db dl D (hca ▸ codeAt_left (codeAt_left h)) (poolAt_left hp) hx hea hfr.1 hin.1
          (hP.sub (by sz))
        obtain ⟨hb, Qb, nvb⟩ := ih.E b X (pos + bytes ca) (k + (constsE a).length) (va :: ops) cx σ1 σ2 vb db dl D
          (hcb ▸ codeAt_right (codeAt_left h)) (poolAt_right hp) hx heb hfr.2 hin.2 ((hP.next Qa).sub (by sz))
        rw [hca] at ha; rw [hcb] at hb
        have ho : codeAt X.code (pos + bytes ca + bytes cb) [Instr.op op] := (codeAt_right h).to (by parith)
        have hR := (hP.next (Qa.trans Qb)).room 1 (by sz)
        cases hop : opH σ2.a op va vb with
        | same r' =>
          simp only [hop, Option.some.injEq, Prod.mk.injEq] at he
          obtain ⟨rfl, rfl⟩ := he
          exact ⟨((ha.trans hb).trans (DS.one (cs_op ho hop hR))).toPc (by parith), Qa.trans Qb, opH_same_nb hop⟩
        | new r' a' =>
          simp only [hop, Option.some.injEq, Prod.mk.injEq] at he
          obtain ⟨rfl, rfl⟩ := he
          exact ⟨((ha.trans hb).trans (DS.one (cs_opNew ho hop hR))).toPc (by parith), (Qa.trans Qb).setA a', opH_new_nb hop⟩
        | fail => simp [hop] at he
  | lt l a b =>
    simp only [compileE] at h ⊢
    simp only [evalE] at he
    simp only [constsE] at hp
    simp only [fragE_m, Bool.and_eq_true] at hfr
    simp only [initE_m, Bool.and_eq_true] at hin
    cases heb : evalE Φ fuel cx σ b with
    | none => simp [heb] at he
    | some rb =>
      obtain ⟨vb, σ1⟩ := rb
      simp only [heb] at he
      cases hea : evalE Φ fuel cx σ1 a with
      | none => simp [hea] at he
      | some ra =>
        obtain ⟨va, σ2⟩ := ra
        simp only [hea] at he
        generalize hcb : compileE pos k b = cb at *
        generalize hca : compileE (pos + bytes cb) (k + (constsE b).length) a = ca at *
        obtain ⟨hb, Qb, nvb⟩ := ih.E b X pos k ops cx σ σ1 vb db dl D (hcb ▸ codeAt_left (codeAt_left h)) (poolAt_left hp) hx heb hfr.2 hin.2
          (hP.sub (by sz))
        obtain ⟨ha, Qa, nva⟩ := ih.E a X (pos + bytes cb) (k + (constsE b).length) (vb :: ops) cx σ1 σ2 va db dl D
          (hca ▸ codeAt_right (codeAt_left h)) (poolAt_right hp) hx hea hfr.1 hin.1 ((hP.next Qb).sub (by sz))
        rw [hcb] at hb; rw [hca] at ha
        have ho : codeAt X.code (pos + bytes cb + bytes ca) [Instr.op .greater] := (codeAt_right h).to (by parith)
        have hR := (hP.next (Qb.trans Qa)).room 1 (by sz)
        cases hop : opH σ2.a .greater vb va with
        | same r' =>
          simp only [hop, Option.some.injEq, Prod.mk.injEq] at he
          obtain ⟨rfl, rfl⟩ := he
          exact ⟨((hb.trans ha).trans (DS.one (cs_op ho hop hR))).toPc (by parith), Qb.trans Qa, opH_same_nb hop⟩
        | new r' a' =>
          simp only [hop, Option.some.injEq, Prod.mk.injEq] at he
          obtain ⟨rfl, rfl⟩ := he
          exact ⟨((hb.trans ha).trans (DS.one (cs_opNew ho hop hR))).toPc (by parith), (Qb.trans Qa).setA a', opH_new_nb hop⟩
        | fail => simp [hop] at he
  | le l a b =>
    simp only [compileE] at h ⊢
    simp only [evalE] at he
    simp only [constsE] at hp
    simp only [fragE_m, Bool.and_eq_true] at hfr
    simp only [initE_m, Bool.and_eq_true] at hin
    cases heb : evalE Φ fuel cx σ b with
    | none => simp [heb] at he
    | some rb =>
      obtain ⟨vb, σ1⟩ := rb
      simp only [heb] at he
      cases hea : evalE Φ fuel cx σ1 a with
      | none => simp [hea] at he
      | some ra =>
        obtain ⟨va, σ2⟩ := ra
        simp only [hea] at he
        generalize hcb : compileE pos k b = cb at *
        generalize hca : compileE (pos + bytes cb) (k + (constsE b).length) a = ca at *
        obtain ⟨hb, Qb, nvb⟩ := ih.E b X pos k ops cx σ σ1 vb db dl D (hcb ▸ codeAt_left (codeAt_left h)) (poolAt_left hp) hx heb hfr.2 hin.2
          (hP.sub (by sz))
        obtain ⟨ha, Qa, nva⟩ := ih.E a X (pos + bytes cb) (k + (constsE b).length) (vb :: ops) cx σ1 σ2 va db dl D
          (hca ▸ codeAt_right (codeAt_left h)) (poolAt_right hp) hx hea hfr.1 hin.1 ((hP.next Qb).sub (by sz))
        rw [hcb] at hb; rw [hca] at ha
        have ho : codeAt X.code (pos + bytes cb + bytes ca) [Instr.op .greaterEq] := (codeAt_right h).to (by parith)
        have hR := (hP.next (Qb.trans Qa)).room 1 (by sz)
        cases hop : opH σ2.a .greaterEq vb va with
        | same r' =>
          simp only [hop, Option.some.injEq, Prod.mk.injEq] at he
          obtain ⟨rfl, rfl⟩ := he
          exact ⟨((hb.trans ha).trans (DS.one (cs_op ho hop hR))).toPc (by parith), Qb.trans Qa, opH_same_nb hop⟩
        | new r' a' =>
          simp only [hop, Option.some.injEq, Prod.mk.injEq] at he
          obtain ⟨rfl, rfl⟩ := he
          exact ⟨((hb.trans ha).trans (DS.one (cs_opNew ho hop hR))).toPc (by parith), (Qb.trans Qa).setA a', opH_new_nb hop⟩
        | fail => simp [hop] at he
  | and l a b =>
    simp only [compileE] at h ⊢
    simp only [evalE] at he
    simp only [constsE] at hp
    simp only [fragE_m, Bool.and_eq_true] at hfr
    simp only [initE_m, Bool.and_eq_true] at hin
    cases hea : evalE Φ fuel cx σ a with
    | none => simp [hea] at he
    | some ra =>
      obtain ⟨va, σ1⟩ := ra
      simp only [hea] at he
      generalize hca : compileE pos k a = ca at *
      generalize hcb : compileE (pos + bytes ca + 3 + 1) (k + (constsE a).length) b = cb at *
      obtain ⟨ha, Qa, nva⟩ := ih.E a X pos k ops cx σ σ1 va db dl D (hca ▸ codeAt_left (codeAt_left h)) (poolAt_left hp) hx hea hfr.1 hin.1
        (hP.sub (by sz))
      rw [hca] at ha
      have hj : codeAt X.code (pos + bytes ca) [Instr.jifnp (pos + bytes ca + 3 + 1 + bytes cb)] :=
        codeAt_mid ca [_] (.pop :: cb) (by simpa using h)
      have hpop : codeAt X.code (pos + bytes ca + 3) [Instr.pop] := by
        have := codeAt_mid (ca ++ [.jifnp (pos + bytes ca + 3 + 1 + bytes cb)]) [.pop] cb (by simpa using h)
        simpa [bytes_append, bytes, Instr.size, Nat.add_assoc] using this
      have hbb : codeAt X.code (pos + bytes ca + 3 + 1) cb := (codeAt_right h).to (by parith)
      have hP1 := hP.next Qa
      by_cases hf : falseyH σ1.a va = true
      · simp only [hf, if_true, Option.some.injEq, Prod.mk.injEq] at he
        obtain ⟨rfl, rfl⟩ := he
        refine ⟨ha.trans ((DS.one (cs_jifnp hj (hP1.room 1 (by sz)))).toPc ?_), Qa, nva⟩
        simp [hf, bytes_append, bytes, Instr.size]; omega
      · simp only [hf, Bool.false_eq_true, if_false] at he
        obtain ⟨hb, Qb, nvb⟩ := ih.E b X (pos + bytes ca + 3 + 1) (k + (constsE a).length) ops cx σ1 σ' v db dl D (hcb ▸ hbb) (poolAt_right hp) hx he
          hfr.2 hin.2 (hP1.sub (by sz))
        rw [hcb] at hb
        refine ⟨ha.trans (((DS.one (cs_jifnp hj (hP1.room 1 (by sz)))).toPc ?_).trans (((DS.one (cs_pop hpop hP1.room0)).trans hb).toPc (by parith))),
          Qa.trans Qb, nvb⟩
        simp [hf]
  | or l a b =>
    simp only [compileE] at h ⊢
    simp only [evalE] at he
    simp only [constsE] at hp
    simp only [fragE_m, Bool.and_eq_true] at hfr
    simp only [initE_m, Bool.and_eq_true] at hin
    cases hea : evalE Φ fuel cx σ a with
    | none => simp [hea] at he
    | some ra =>
      obtain ⟨va, σ1⟩ := ra
      simp only [hea] at he
      generalize hca : compileE pos k a = ca at *
      generalize hcb : compileE (pos + bytes ca + 3 + 3 + 1) (k + (constsE a).length) b = cb at *
      obtain ⟨ha, Qa, nva⟩ := ih.E a X pos k ops cx σ σ1 va db dl D (hca ▸ codeAt_left (codeAt_left h)) (poolAt_left hp) hx hea hfr.1 hin.1
        (hP.sub (by sz))
      rw [hca] at ha
      have hj : codeAt X.code (pos + bytes ca) [Instr.jifnp (pos + bytes ca + 3 + 3)] :=
        codeAt_mid ca [_] (.jump (pos + bytes ca + 3 + 3 + 1 + bytes cb) :: .pop :: cb) (by simpa using h)
      have hjmp : codeAt X.code (pos + bytes ca + 3) [Instr.jump (pos + bytes ca + 3 + 3 + 1 + bytes cb)] := by
        have := codeAt_mid (ca ++ [.jifnp (pos + bytes ca + 3 + 3)]) [.jump (pos + bytes ca + 3 + 3 + 1 + bytes cb)] (.pop :: cb) (by simpa using h)
        simpa [bytes_append, bytes, Instr.size, Nat.add_assoc] using this
      have hpop : codeAt X.code (pos + bytes ca + 3 + 3) [Instr.pop] := by
        have := codeAt_mid (ca ++ [.jifnp (pos + bytes ca + 3 + 3), .jump (pos + bytes ca + 3 + 3 + 1 + bytes cb)]) [.pop] cb (by simpa using h)
        simpa [bytes_append, bytes, Instr.size, Nat.add_assoc] using this
      have hbb : codeAt X.code (pos + bytes ca + 3 + 3 + 1) cb := (codeAt_right h).to (by parith)
      have hP1 := hP.next Qa
      by_cases hf : falseyH σ1.a va = true
      · simp only [hf, if_true] at he
        obtain ⟨hb, Qb, nvb⟩ := ih.E b X (pos + bytes ca + 3 + 3 + 1) (k + (constsE a).length) ops cx σ1 σ' v db dl D (hcb ▸ hbb) (poolAt_right hp) hx he
          hfr.2 hin.2 (hP1.sub (by sz))
        rw [hcb] at hb
        refine ⟨ha.trans (((DS.one (cs_jifnp hj (hP1.room 1 (by sz)))).toPc ?_).trans (((DS.one (cs_pop hpop hP1.room0)).trans hb).toPc (by parith))),
          Qa.trans Qb, nvb⟩
        simp [hf]
      · simp only [hf, Bool.false_eq_true, if_false, Option.some.injEq, Prod.mk.injEq] at he
        obtain ⟨rfl, rfl⟩ := he
        refine ⟨ha.trans (((DS.one (cs_jifnp hj (hP1.room 1 (by sz)))).toPc ?_).trans ((DS.one (cs_jump (ops := va :: ops) hjmp (hP1.room 1 (by sz)))).toPc (by parith))),
          Qa, nva⟩
        simp [hf]
  | ite l c t e =>
    simp only [compileE] at h ⊢
    simp only [evalE] at he
    simp only [constsE] at hp
    simp only [fragE_m, Bool.and_eq_true] at hfr
    simp only [initE_m, Bool.and_eq_true] at hin
    cases hec : evalE Φ fuel cx σ c with
    | none => simp [hec] at he
    | some rc =>
      obtain ⟨vc, σ1⟩ := rc
      simp only [hec] at he
      generalize hcc : compileE pos k c = cc at *
      generalize hct : compileE (pos + bytes cc + 3) (k + (constsE c).length) t = ct at *
      generalize hce : compileE (pos + bytes cc + 3 + bytes ct + 3) (k + (constsE c).length + (constsE t).length) e = ce at *
      obtain ⟨hc, Qc, nvc⟩ := ih.E c X pos k ops cx σ σ1 vc db dl D (hcc ▸ codeAt_mid [] cc _ (by simpa using h)) (poolAt_left (poolAt_left hp)) hx hec
        hfr.1.1 hin.1.1 (hP.sub (by sz))
      rw [hcc] at hc
      have hj : codeAt X.code (pos + bytes cc) [Instr.jif (pos + bytes cc + 3 + bytes ct + 3)] :=
        codeAt_mid cc [_] (ct ++ [.jump (pos + bytes cc + 3 + bytes ct + 3 + bytes ce)] ++ ce) (by simpa using h)
      have htt : codeAt X.code (pos + bytes cc + 3) ct :=
        (codeAt_right (codeAt_left (codeAt_left h))).to (by parith)
      have hm : codeAt X.code (pos + bytes cc + 3 + bytes ct) [Instr.jump (pos + bytes cc + 3 + bytes ct + 3 + bytes ce)] :=
        (codeAt_right (codeAt_left h)).to (by parith)
      have hee : codeAt X.code (pos + bytes cc + 3 + bytes ct + 3) ce := (codeAt_right h).to (by parith)
      have hpt : poolAt K (k + (constsE c).length) (constsE t) := poolAt_right (poolAt_left hp)
      have hpe : poolAt K (k + (constsE c).length + (constsE t).length) (constsE e) := by
        have := poolAt_right hp
        simpa [Nat.add_assoc] using this
      have hP1 := hP.next Qc
      refine (fun (x : _ ∧ _) => ⟨hc.trans x.1, x.2⟩) ?_
      by_cases hf : falseyH σ1.a vc = true
      · simp only [hf, if_true] at he
        obtain ⟨hb, Qb, nvb⟩ := ih.E e X (pos + bytes cc + 3 + bytes ct + 3) _ ops cx σ1 σ' v db dl D (hce ▸ hee) hpe hx he hfr.2 hin.2 (hP1.sub (by sz))
        rw [hce] at hb
        exact ⟨((DS.one (cs_jif hj hP1.room0)).toPc (by simp [hf])).trans (hb.toPc (by parith)), Qc.trans Qb, nvb⟩
      · simp only [hf, Bool.false_eq_true, if_false] at he
        obtain ⟨ha, Qa, nva⟩ := ih.E t X (pos + bytes cc + 3) _ ops cx σ1 σ' v db dl D (hct ▸ htt) hpt hx he hfr.1.2 hin.1.2 (hP1.sub (by sz))
        rw [hct] at ha
        exact ⟨((DS.one (cs_jif hj hP1.room0)).toPc (by simp [hf])).trans
          ((ha.trans (DS.one (cs_jump hm ((hP1.next Qa).room 1 (by sz))))).toPc (by parith)), Qc.trans Qa, nva⟩
  | gset l i a =>
    simp only [compileE] at h ⊢
    simp only [evalE] at he
    simp only [constsE] at hp
    simp only [fragE_m] at hfr
    simp only [initE_m] at hin
    cases hea : evalE Φ fuel cx σ a with
    | none => simp [hea] at he
    | some r =>
      obtain ⟨va, σ1⟩ := r
      simp only [hea] at he
      by_cases hi : i < σ1.g.length
      · simp only [hi, if_true, Option.some.injEq, Prod.mk.injEq] at he
        obtain ⟨rfl, rfl⟩ := he
        generalize hca : compileE pos k a = ca at *
        obtain ⟨ha, Qa, nva⟩ := ih.E a X pos k ops cx σ σ1 va db dl D (hca ▸ codeAt_left h) hp hx hea hfr hin (hP.sub (by sz))
        rw [hca] at ha
        have hs : codeAt X.code (pos + bytes ca) [Instr.setGlobal i] := codeAt_right h
        exact ⟨(ha.trans (DS.one (cs_setGlobal hs hi ((hP.next Qa).room 1 (by sz))))).toPc (by parith), Qa.gset nva i, nva⟩
      · simp [hi] at he
  | lset l i a =>
    simp only [compileE] at h ⊢
    simp only [evalE] at he
    simp only [constsE] at hp
    simp only [fragE_m] at hfr
    simp only [initE_m, Bool.and_eq_true, decide_eq_true_eq] at hin
    cases hea : evalE Φ fuel cx σ a with
    | none => simp [hea] at he
    | some r =>
      obtain ⟨va, σ1⟩ := r
      simp only [hea] at he
      by_cases hi : i < σ1.l.length
      · simp only [hi, if_true, Option.some.injEq, Prod.mk.injEq] at he
        obtain ⟨rfl, rfl⟩ := he
        generalize hca : compileE pos k a = ca at *
        obtain ⟨ha, Qa, nva⟩ := ih.E a X pos k ops cx σ σ1 va db dl D (hca ▸ codeAt_left h) hp hx hea hfr hin.2 (hP.sub (by sz))
        rw [hca] at ha
        have hs : codeAt X.code (pos + bytes ca) [Instr.setLocal i] := codeAt_right h
        have hP1 := hP.next Qa
        have hstep := cs_setLocal (K := K) (F := F) (v := va) (ops := ops) (dl := dl) (db := db) hs hi hP1.dll hP1.dbl (hP1.room 1 (by sz))
        rw [set_true_id (hP.defd i hin.1)] at hstep
        exact ⟨(ha.trans (DS.one hstep)).toPc (by parith), Qa.lset nva i, nva⟩
      · simp [hi] at he
  | matchE l s arms =>
    simp only [compileE] at h ⊢
    simp only [evalE] at he
    simp only [constsE] at hp
    simp only [fragE_m, Bool.and_eq_true] at hfr
    simp only [initE_m, Bool.and_eq_true] at hin
    cases hes : evalE Φ fuel cx σ s with
    | none => simp [hes] at he
    | some r =>
      obtain ⟨vs, σ1⟩ := r
      simp only [hes] at he
      have hza := sizeArms_pos arms
      have hzs := sizeE_pos s
      generalize hcs : compileE pos k s = cs at *
      obtain ⟨s1, Q1, nvs⟩ := ih.E s X pos k ops cx σ σ1 vs db dl D (hcs ▸ codeAt_left h) (poolAt_left hp) hx hes hfr.1 hin.1
        (hP.sub (by simp only [sizeE]; omega))
      rw [hcs] at s1
      obtain ⟨s2, Q2, nvr⟩ := ih.Arms arms X (pos + bytes cs) (k + (constsE s).length) ops cx σ1 σ' vs v db dl D (codeAt_right h) (poolAt_right hp) hx he
        hfr.2 hin.2 ((hP.next Q1).sub (by simp only [sizeE, List.length_cons]; omega))
      exact ⟨(s1.trans s2).toPc (by simp [bytes_append]; omega), Q1.trans Q2, nvr⟩
  | call l f args =>
    simp only [compileE] at h ⊢
    simp only [evalE] at he
    simp only [constsE] at hp
    simp only [fragE_m, Bool.and_eq_true] at hfr
    simp only [initE_m, Bool.and_eq_true] at hin
    cases hef : evalE Φ fuel cx σ f with
    | none => simp [hef] at he
    | some rf =>
      obtain ⟨vf, σ1⟩ := rf
      simp only [hef] at he
      cases hea : evalArgs Φ fuel cx σ1 args with
      | none => simp [hea] at he
      | some ra =>
        obtain ⟨vs, σ2⟩ := ra
        simp only [hea] at he
        generalize hcf : compileE pos k f = cf at *
        generalize hca : compileArgs (pos + bytes cf) (k + (constsE f).length) args = ca at *
        obtain ⟨s1, Q1, nvf⟩ := ih.E f X pos k ops cx σ σ1 vf db dl D (hcf ▸ codeAt_left (codeAt_left h)) (poolAt_left hp) hx hef hfr.1 hin.1
          (hP.sub (by sz))
        rw [hcf] at s1
        obtain ⟨s2, hlen, Q2, nvs⟩ := ih.Args args X (pos + bytes cf) (k + (constsE f).length) (vf :: ops) cx σ1 σ2 vs db dl D
          (hca ▸ codeAt_right (codeAt_left h)) (poolAt_right hp) hx hea hfr.2 hin.2 ((hP.next Q1).sub (by sz))
        rw [hca] at s2
        have hcall : codeAt X.code (pos + bytes cf + bytes ca) [Instr.call args.length] := (codeAt_right h).to (by parith)
        have Q12 := Q1.trans Q2
        have hP2 := hP.next Q12
        cases vf with
        | clos fd fr id =>
          simp only at he
          cases hd : Φ fd with
          | none => simp [hd] at he
          | some d =>
            simp only [hd] at he
            obtain ⟨kd, hF, hpd, hnp, hnl⟩ := hL fd d hd
            obtain ⟨hgf, hgi, hgn, hgw⟩ := hG fd d hd
            by_cases harity : vs.length = d.np
            · simp only [harity, if_true] at he
              have hstk := hP2.stk
              have hfrm := hP2.frm
              rw [Nat.succ_mul] at hstk
              have hstep := cs_call (K := K) (F := F) (X := X) (σ := σ2) (fr := fr) (id := id) (ops := ops) (dl := dl) (db := db)
                hcall hlen (by rw [hnp, ← harity, hlen]) hF (by rw [hnl]; omega) (by omega)
              let X' := X.callee (pos + bytes cf + bytes ca) (compileFn kd d) fd id (.clos fd fr id :: (ops ++ (σ2.l.reverse ++ X.base)))
              have hx' : Agree (some (fd, id)) X' := by
                intro fd' id' hfd'
                cases hfd'
                exact ⟨rfl, rfl, by simp [X', Ctxt.callee]⟩
              simp only [Sto.enter_eq, Sto.back_eq] at he
              cases hb : evalP Φ fuel (some (fd, id)) ⟨vs ++ List.replicate (d.nl - d.np) .null, σ2.g, σ2.h, σ2.a⟩ d.body with
              | none => simp [hb] at he
              | some rb =>
                obtain ⟨σ3, fb, bv⟩ := rb
                -- the callee's activation: the parameters are defined, the other slots are not
                have hP' : Pre W X' (sh (ops.length + 1) dl db) [] ⟨vs ++ List.replicate (d.nl - d.np) .null, σ2.g, σ2.h, σ2.a⟩
                    (List.replicate d.np true ++ List.replicate (d.nl - d.np) false) (List.range d.np) (sizeP d.body + 1) fuel := by
                  refine ⟨?_, by simp [harity], ?_, ⟨nbs_append nvs (nbs_replicate_null _), hP2.nbS.g, hP2.nbS.h⟩, ?_, ?_⟩
                  · simp [X', Ctxt.callee, sh_length, hP.dbl, hP2.dll]; omega
                  · intro i hi
                    have hi' : i < d.np := by simpa using hi
                    rw [List.getElem?_append_left (by simpa using hi')]
                    simp [hi']
                  · simp [X', Ctxt.callee, harity]; omega
                  · simp [X', Ctxt.callee]; omega
                obtain ⟨dl3, hbody, Q3⟩ := ih.T d.body X' 0 kd [] [] fd id _ σ3 fb bv _ _ _ ⟨[], [], by simp [X', Ctxt.callee, compileFn], rfl⟩ hpd hx' hb
                  hgf hgi hP'
                have hstart : DSteps K F (X.st pos ops σ, sh ops.length dl db)
                    (X'.st 0 [] ⟨vs ++ List.replicate (d.nl - d.np) .null, σ2.g, σ2.h, σ2.a⟩,
                      sh 0 (List.replicate d.np true ++ List.replicate (d.nl - d.np) false) (sh (ops.length + 1) dl db)) := by
                  refine (s1.trans s2).trans (DS.one ?_)
                  have := hstep
                  rw [hnl, ← hlen, harity] at this
                  show dstep K F (_, sh (vs.length + (ops.length + 1)) dl db) = _
                  rw [harity]
                  exact this
                simp only [hb] at he
                have hnb3 : NBS ⟨σ2.l, σ3.g, σ3.h, σ3.a⟩ := ⟨hP2.nbS.l, Q3.post.nbS.g, Q3.post.nbS.h⟩
                have Qr : Post σ ⟨σ2.l, σ3.g, σ3.h, σ3.a⟩ dl dl := ⟨Q12.len, rfl, fun _ h => h, hnb3⟩
                cases fb with
                | normal =>
                  simp only [Option.some.injEq, Prod.mk.injEq] at he
                  obtain ⟨rfl, rfl⟩ := he
                  refine ⟨(hstart.trans hbody).to ?_, Qr, Q3.bv⟩
                  simp [exitTD, exitT, retSt, X', Ctxt.callee, Ctxt.st, Ctxt.at, bytes_append, bytes, Instr.size, Nat.add_assoc, sh_succ]
                | ret rv =>
                  simp only [Option.some.injEq, Prod.mk.injEq] at he
                  obtain ⟨rfl, rfl⟩ := he
                  refine ⟨(hstart.trans hbody).to ?_, Qr, Q3.fl _ rfl⟩
                  simp [exitTD, exitT, exitS, retSt, X', Ctxt.callee, Ctxt.st, Ctxt.at, bytes_append, bytes, Instr.size, Nat.add_assoc, sh_succ]
                | brk lb => simp at he
                | cont lb => simp at he
            · simp [harity] at he
        | builtin name => simp [nb] at nvf
        | _ => simp at he
  | arrLit l es => simp [fragE_m] at hfr
  | mapLit l es => simp [fragE_m] at hfr
  | index l c i => simp [fragE_m] at hfr
  | setIndex l c i e => simp [fragE_m] at hfr
  | bfn l i => simp [fragE_m] at hfr

theorem sizeArms_ge (a : FArms) : 7 ≤ Fn.sizeArms a := by
  cases a with
  | last la lp d => simp only [Fn.sizeArms]; omega
  | cons la pats body rest => have := sizeArms_pos rest; have := sizeE_pos body; simp only [Fn.sizeArms]; omega

theorem csoundArms_succ_m (fuel : Nat) (ih : CSound_m Φ K F W fuel) : CSoundArms_m Φ K F W (fuel + 1) := by
  intro arms X pos k ops cx σ σ' v r db dl D h hp hx he hfr hin hP
  cases arms with
  | last la lp d =>
    simp only [compileArms] at h ⊢
    simp only [constsArms] at hp
    simp only [evalArms] at he
    simp only [fragArms_m] at hfr
    simp only [initArms_m] at hin
    generalize hcd : compileE (pos + 3 + 3 + 1) k d = cd at *
    obtain ⟨h1, h⟩ := codeAt_cons (by simpa using h)
    obtain ⟨_, h⟩ := codeAt_cons h
    obtain ⟨h3, h⟩ := codeAt_cons h
    simp only [Instr.size] at h3 h
    obtain ⟨sd, Qd, nvd⟩ := ih.E d X (pos + 3 + 3 + 1) k ops cx σ σ' r db dl D (hcd ▸ h) hp hx he hfr hin
      (hP.sub (by simp only [sizeArms, List.length_cons]; omega))
    rw [hcd] at sd
    have j1 := DS.one (cs_jump (K := K) (F := F) (ops := v :: ops) (σ := σ) (dl := dl) (db := db) h1 hP.room0)
    have j2 := DS.one (cs_pop (K := K) (F := F) (v := v) (ops := ops) (σ := σ) (dl := dl) (db := db) h3
      (hP.room0.mono (by simp)))
    exact ⟨(j1.trans (j2.trans sd)).toPc (by simp [bytes_append, bytes, Instr.size]; omega), Qd, nvd⟩
  | cons la pats body rest =>
    simp only [compileArms] at h ⊢
    simp only [constsArms] at hp
    simp only [evalArms] at he
    simp only [fragArms_m, Bool.and_eq_true] at hfr
    simp only [initArms_m, Bool.and_eq_true] at hin
    have hzr := sizeArms_ge rest
    have hzb := sizeE_pos body
    generalize hps : pats.map erasePat = ps at *
    generalize hcb : compileE (pos + patsBytes ps + 3 + 1) (k + (patsConsts ps).length) body = cb at *
    generalize hcr : compileArms (pos + patsBytes ps + 3 + 1 + bytes cb + 3)
      (k + (patsConsts ps).length + (constsE body).length) rest = cr at *
    have hpats : codeAt X.code pos (compilePats pos k (pos + patsBytes ps + 3) ps) :=
      codeAt_left (codeAt_left (codeAt_left (codeAt_left h)))
    have hjo : codeAt X.code (pos + patsBytes ps) [Instr.jump (pos + patsBytes ps + 3 + 1 + bytes cb + 3)] := by
      have := codeAt_mid (compilePats pos k (pos + patsBytes ps + 3) ps) [_]
        (.pop :: (cb ++ [.jump (pos + patsBytes ps + 3 + 1 + bytes cb + 3 + bytes cr)] ++ cr)) (by simpa using h)
      simpa [bytes_compilePats] using this
    have hpop : codeAt X.code (pos + patsBytes ps + 3) [Instr.pop] := by
      have := codeAt_mid (compilePats pos k (pos + patsBytes ps + 3) ps ++ [.jump (pos + patsBytes ps + 3 + 1 + bytes cb + 3)]) [.pop]
        (cb ++ [.jump (pos + patsBytes ps + 3 + 1 + bytes cb + 3 + bytes cr)] ++ cr) (by simpa using h)
      simpa [bytes_append, bytes_compilePats, bytes, Instr.size, Nat.add_assoc] using this
    have hbody : codeAt X.code (pos + patsBytes ps + 3 + 1) cb := by
      have := codeAt_right (codeAt_left (codeAt_left h))
      simpa [bytes_append, bytes_compilePats, bytes, Instr.size, Nat.add_assoc] using this
    have hje : codeAt X.code (pos + patsBytes ps + 3 + 1 + bytes cb)
        [Instr.jump (pos + patsBytes ps + 3 + 1 + bytes cb + 3 + bytes cr)] := by
      exact (codeAt_right (codeAt_left h)).to (by simp [bytes_append, bytes_compilePats, bytes, Instr.size]; omega)
    have hrest : codeAt X.code (pos + patsBytes ps + 3 + 1 + bytes cb + 3) cr := by
      exact (codeAt_right h).to (by simp [bytes_append, bytes_compilePats, bytes, Instr.size]; omega)
    have hpp : poolAt K k (patsConsts ps) := poolAt_left (poolAt_left hp)
    have hpb : poolAt K (k + (patsConsts ps).length) (constsE body) := poolAt_right (poolAt_left hp)
    have hpr : poolAt K (k + (patsConsts ps).length + (constsE body).length) (constsArms rest) := by
      have := poolAt_right hp
      simpa [Nat.add_assoc] using this
    have hroom3 : Room X (ops.length + 3 + σ.l.length) :=
      (hP.room 2 (by simp only [sizeArms]; omega)).mono (by simp)
    cases hm : patsTestH σ.a v ps with
    | none => simp [hm] at he
    | some b =>
      have sp := cs_pats (K := K) (F := F) (X := X) ps pos k (pos + patsBytes ps + 3) v ops σ b dl db hpats hpp hm hroom3
      cases b with
      | true =>
        simp only [hm] at he
        simp only [if_true] at sp
        obtain ⟨sb, Qb, nvb⟩ := ih.E body X _ _ ops cx σ σ' r db dl D (hcb ▸ hbody) hpb hx he hfr.1 hin.1
          (hP.sub (by simp only [sizeArms, List.length_cons]; omega))
        rw [hcb] at sb
        have j2 := DS.one (cs_pop (K := K) (F := F) (v := v) (ops := ops) (σ := σ) (dl := dl) (db := db) hpop
          (hP.room0.mono (by simp)))
        have hPb : Pre W X db (r :: ops) σ' dl D 0 (fuel + 1) := (hP.next Qb).sub0 (by simp)
        have j3 := DS.one (cs_jump (K := K) (F := F) (ops := r :: ops) (σ := σ') (dl := dl) (db := db) hje hPb.room0)
        exact ⟨(sp.trans (j2.trans (sb.trans j3))).toPc (by simp [bytes_append, bytes_compilePats, bytes, Instr.size]; omega), Qb, nvb⟩
      | false =>
        simp only [hm] at he
        simp only [Bool.false_eq_true, if_false] at sp
        obtain ⟨sr, Qr, nvr⟩ := ih.Arms rest X _ _ ops cx σ σ' v r db dl D (hcr ▸ hrest) hpr hx he hfr.2 hin.2
          (hP.sub (by simp only [sizeArms, List.length_cons]; omega))
        rw [hcr] at sr
        have j2 := DS.one (cs_jump (K := K) (F := F) (ops := v :: ops) (σ := σ) (dl := dl) (db := db) hjo hP.room0)
        exact ⟨(sp.trans (j2.trans sr)).toPc (by simp [bytes_append, bytes_compilePats, bytes, Instr.size]; omega), Qr, nvr⟩

theorem csoundArgs_succ_m (fuel : Nat) (ih : CSound_m Φ K F W fuel) : CSoundArgs_m Φ K F W (fuel + 1) := by
  intro args X pos k ops cx σ σ' vs db dl D h hp hx he hfr hin hP
  cases args with
  | nil =>
    simp only [evalArgs, Option.some.injEq, Prod.mk.injEq] at he
    obtain ⟨rfl, rfl⟩ := he
    refine ⟨(DSteps.refl _).to (by simp [compileArgs, bytes]), rfl, .rfl' hP.nbS, ?_⟩
    intro v hv; cases hv
  | cons a rest =>
    simp only [compileArgs] at h ⊢
    simp only [constsArgs] at hp
    simp only [evalArgs] at he
    simp only [fragArgs_m, Bool.and_eq_true] at hfr
    simp only [initArgs_m, Bool.and_eq_true] at hin
    cases hea : evalE Φ fuel cx σ a with
    | none => simp [hea] at he
    | some ra =>
      obtain ⟨va, σ1⟩ := ra
      simp only [hea] at he
      cases her : evalArgs Φ fuel cx σ1 rest with
      | none => simp [her] at he
      | some rr =>
        obtain ⟨vr, σ2⟩ := rr
        simp only [her, Option.some.injEq, Prod.mk.injEq] at he
        obtain ⟨rfl, rfl⟩ := he
        generalize hca : compileE pos k a = ca at *
        have hpa := sizeE_pos a
        obtain ⟨s1, Q1, nva⟩ := ih.E a X pos k ops cx σ σ1 va db dl D (hca ▸ codeAt_left h) (poolAt_left hp) hx hea hfr.1 hin.1 (hP.sub (by sz))
        rw [hca] at s1
        obtain ⟨s2, hl, Q2, nvr⟩ := ih.Args rest X (pos + bytes ca) (k + (constsE a).length) (va :: ops) cx σ1 σ2 vr db dl D
          (codeAt_right h) (poolAt_right hp) hx her hfr.2 hin.2 ((hP.next Q1).sub (by sz))
        have s12 : DSteps K F (X.st pos ops σ, sh ops.length dl db)
            (X.st (pos + bytes (ca ++ compileArgs (pos + bytes ca) (k + (constsE a).length) rest)) (vr.reverse ++ va :: ops) σ2,
              sh (vr.length + (ops.length + 1)) dl db) := (s1.trans s2).toPc (by simp [bytes_append]; omega)
        have e2 : vr.reverse ++ va :: ops = (va :: vr).reverse ++ ops := by simp
        have e3 : vr.length + (ops.length + 1) = (va :: vr).length + ops.length := by simp; omega
        refine ⟨s12.to (by rw [e2, e3]), by simp [FArgs.length, hl], Q1.trans Q2, ?_⟩
        · intro x hx'
          rcases List.mem_cons.mp hx' with rfl | hx'
          · exact nva
          · exact nvr x hx'

end

section
variable {Φ : FnDef → Option FDecl} {K : List Val} {F : FnDef → Option (List Instr)} {W : Nat}

theorem csoundP_succ_m (fuel : Nat) (ih : CSound_m Φ K F W fuel) : CSoundP_m Φ K F W (fuel + 1) := by
  intro ss X pos k ctx ops cx σ σ' f bv db dl D h hp hx he hfr hin hP
  cases ss with
  | nil =>
    simp only [evalP, Option.some.injEq, Prod.mk.injEq] at he
    obtain ⟨rfl, rfl, rfl⟩ := he
    exact ⟨dl, (DSteps.refl _).to (exitSD_normal_eq (by simp [compileP, bytes])), ⟨.rfl' hP.nbS, rfl, by intro v hv; cases hv⟩⟩
  | cons s rest =>
    simp only [evalP] at he
    cases h1 : evalS Φ fuel cx σ s with
    | none => simp [h1] at he
    | some r1 =>
      obtain ⟨σ1, f1, v1⟩ := r1
      simp only [compileP] at h ⊢
      simp only [constsP] at hp
      simp only [fragP_m, Bool.and_eq_true] at hfr
      rw [initP_cons_m] at hin
      simp only [Bool.and_eq_true] at hin
      generalize hcs : compileS pos k ctx s = cs at *
      obtain ⟨dl1, hs, Q1, hd1⟩ := ih.S s X pos k ctx ops cx σ σ1 f1 v1 db dl D (hcs ▸ codeAt_left h) (poolAt_left hp) hx h1 hfr.1 hin.1
        (hP.sub (by sz))
      rw [hcs] at hs
      cases f1 with
      | normal =>
        simp only [h1] at he
        cases rest with
        | nil =>
          simp only [Option.some.injEq, Prod.mk.injEq] at he
          obtain ⟨rfl, rfl, rfl⟩ := he
          exact ⟨dl1, hs.to (exitSD_pc (by simp [compileP, bytes_append, bytes])), Q1⟩
        | cons s2 rest2 =>
          simp only at he
          obtain ⟨dl2, hr, Q2⟩ := ih.P (s2 :: rest2) X (pos + bytes cs) (k + (constsS s).length) ctx ops cx σ1 σ' f bv db dl1 (defS s D)
            (codeAt_right h) (poolAt_right hp) hx he hfr.2 hin.2 (((hP.next Q1.post).withD (hd1 rfl)).sub (by sz))
          exact ⟨dl2, (hs.trans hr).to (exitSD_pc (by simp [bytes_append, Nat.add_assoc])), ⟨Q1.post.trans Q2.post, Q2.bv, Q2.fl⟩⟩
      | brk lb =>
        simp only [h1, Option.some.injEq, Prod.mk.injEq] at he
        obtain ⟨rfl, rfl, rfl⟩ := he
        exact ⟨dl1, hs.to (exitSD_ne_normal (by simp)), ⟨Q1.post, rfl, Q1.fl⟩⟩
      | cont lb =>
        simp only [h1, Option.some.injEq, Prod.mk.injEq] at he
        obtain ⟨rfl, rfl, rfl⟩ := he
        exact ⟨dl1, hs.to (exitSD_ne_normal (by simp)), ⟨Q1.post, rfl, Q1.fl⟩⟩
      | ret rv =>
        simp only [h1, Option.some.injEq, Prod.mk.injEq] at he
        obtain ⟨rfl, rfl, rfl⟩ := he
        exact ⟨dl1, hs.to (exitSD_ne_normal (by simp)), ⟨Q1.post, rfl, Q1.fl⟩⟩

theorem csoundIfV_succ_m (fuel : Nat) (ih : CSound_m Φ K F W fuel) : CSoundIfV_m Φ K F W (fuel + 1) := by
  intro ls l c thn els X pos k ctx ops cx σ σ' f bv db dl D h hp hx he hfr hin hP
  simp only [evalS] at he
  simp only [fragS_m, Bool.and_eq_true] at hfr
  simp only [initS_m, Bool.and_eq_true] at hin
  have hzt := sizeP_le_sizeV thn
  have hze := sizeP_le_sizeV els
  cases hec : evalE Φ fuel cx σ c with
  | none => simp [hec] at he
  | some rc =>
    obtain ⟨vc, σ1⟩ := rc
    simp only [hec] at he
    simp only [ifV] at h ⊢
    generalize hcc : compileE pos k c = cc at *
    generalize hct : branchV (pos + bytes cc + 3) (k + (constsE c).length) ctx thn = ct at *
    generalize hce : branchV (pos + bytes cc + 3 + bytes ct + 3) (k + (constsE c).length + (constsP thn).length) ctx els = ce at *
    obtain ⟨hc, Qc, nvc⟩ := ih.E c X pos k ops cx σ σ1 vc db dl D (hcc ▸ codeAt_mid [] cc _ (by simpa using h)) (poolAt_left (poolAt_left hp)) hx hec
      hfr.1.1 hin.1.1 (hP.sub (by sz))
    rw [hcc] at hc
    have hj : codeAt X.code (pos + bytes cc) [Instr.jif (pos + bytes cc + 3 + bytes ct + 3)] :=
      codeAt_mid cc [_] (ct ++ [.jump (pos + bytes cc + 3 + bytes ct + 3 + bytes ce)] ++ ce) (by simpa using h)
    have htt : codeAt X.code (pos + bytes cc + 3) ct :=
      (codeAt_right (codeAt_left (codeAt_left h))).to (by parith)
    have hm : codeAt X.code (pos + bytes cc + 3 + bytes ct) [Instr.jump (pos + bytes cc + 3 + bytes ct + 3 + bytes ce)] :=
      (codeAt_right (codeAt_left h)).to (by parith)
    have hee : codeAt X.code (pos + bytes cc + 3 + bytes ct + 3) ce :=
      (codeAt_right h).to (by parith)
    have hpt : poolAt K (k + (constsE c).length) (constsP thn) := poolAt_right (poolAt_left hp)
    have hpe : poolAt K (k + (constsE c).length + (constsP thn).length) (constsP els) := by
      have := poolAt_right hp
      simpa [Nat.add_assoc] using this
    have hP1 := hP.next Qc
    have s0 := hc.trans (DS.one (cs_jif hj hP1.room0))
    by_cases hf : falseyH σ1.a vc = true
    · simp only [hf, if_true] at he s0
      obtain ⟨dl2, hb, Q2⟩ := ih.V els X _ _ ctx ops cx σ1 σ' f bv db dl D (hce ▸ hee) hpe hx he hfr.2 hin.2 (hP1.sub (by sz))
      rw [hce] at hb
      exact ⟨dl2, (s0.trans hb).to (exitVD_pc (by parith)), ⟨Qc.trans Q2.post, Q2.bv, Q2.fl⟩⟩
    · simp only [hf, Bool.false_eq_true, if_false] at he s0
      obtain ⟨dl2, hb, Q2⟩ := ih.V thn X _ _ ctx ops cx σ1 σ' f bv db dl D (hct ▸ htt) hpt hx he hfr.1.2 hin.1.2 (hP1.sub (by sz))
      rw [hct] at hb
      have Q : PostS σ σ' dl dl2 f bv := ⟨Qc.trans Q2.post, Q2.bv, Q2.fl⟩
      by_cases hn : f = .normal
      · subst hn
        have hb' : DSteps K F (X.st (pos + bytes cc + 3) ops σ1, sh ops.length dl db)
            (X.st (pos + bytes cc + 3 + bytes ct) (bv :: ops) σ', sh (ops.length + 1) dl2 db) := hb
        exact ⟨dl2, ((s0.trans hb').trans (DS.one (cs_jump (ops := bv :: ops) hm ((hP1.next Q2.post).room 1 (by sz))))).to
          (exitVD_normal_eq (by parith)), Q⟩
      · exact ⟨dl2, (s0.trans hb).to (exitVD_V hn), Q⟩

theorem csoundS_succ_m (fuel : Nat) (ih : CSound_m Φ K F W fuel) (hI : CSoundIfV_m Φ K F W (fuel + 1)) : CSoundS_m Φ K F W (fuel + 1) := by
  intro s X pos k ctx ops cx σ σ' f bv db dl D h hp hx he hfr hin hP
  cases s with
  | letG l i e =>
    simp only [evalS] at he
    simp only [constsS] at hp
    simp only [fragS_m] at hfr
    simp only [initS_m] at hin
    cases hee : evalE Φ fuel cx σ e with
    | none => simp [hee] at he
    | some r =>
      obtain ⟨v, σ1⟩ := r
      simp only [hee] at he
      by_cases hi : i < σ1.g.length
      · simp only [hi, if_true, Option.some.injEq, Prod.mk.injEq] at he
        obtain ⟨rfl, rfl, rfl⟩ := he
        simp only [compileS] at h ⊢
        generalize hce : compileE pos k e = ce at *
        obtain ⟨h1, Q1, nv⟩ := ih.E e X pos k ops cx σ σ1 v db dl D (hce ▸ codeAt_left h) hp hx hee hfr hin (hP.sub (by sz))
        rw [hce] at h1
        have hs : codeAt X.code (pos + bytes ce) [Instr.defGlobal i] := codeAt_right h
        have Q := Q1.gset nv i
        exact ⟨dl, (h1.trans (DS.one (cs_defGlobal hs hi (hP.next Q1).room0))).to (exitSD_normal_eq (by parith)),
          ⟨Q, rfl, by intro w hw; cases hw⟩, fun _ j hj => Q.mono j (hP.defd j hj)⟩
      · simp [hi] at he
  | letL l i e =>
    simp only [evalS] at he
    simp only [constsS] at hp
    simp only [fragS_m] at hfr
    simp only [initS_m] at hin
    cases hee : evalE Φ fuel cx σ e with
    | none => simp [hee] at he
    | some r =>
      obtain ⟨v, σ1⟩ := r
      simp only [hee] at he
      by_cases hi : i < σ1.l.length
      · simp only [hi, if_true, Option.some.injEq, Prod.mk.injEq] at he
        obtain ⟨rfl, rfl, rfl⟩ := he
        simp only [compileS] at h ⊢
        generalize hce : compileE pos k e = ce at *
        obtain ⟨h1, Q1, nv⟩ := ih.E e X pos k ops cx σ σ1 v db dl D (hce ▸ codeAt_left h) hp hx hee hfr hin (hP.sub (by sz))
        rw [hce] at h1
        have hs : codeAt X.code (pos + bytes ce) [Instr.defLocal i] := codeAt_right h
        have hP1 := hP.next Q1
        have Q := Q1.letL nv i
        refine ⟨dl.set i true, (h1.trans (DS.one (cs_defLocal hs hi hP1.dll hP1.dbl hP1.room0))).to (exitSD_normal_eq (by parith)),
          ⟨Q, rfl, by intro w hw; cases hw⟩, fun _ j hj => ?_⟩
        simp only [defS, List.mem_cons] at hj
        rcases hj with rfl | hj
        · have : j < dl.length := by rw [hP1.dll]; exact hi
          simp [this]
        · exact Q.mono j (hP.defd j hj)
      · simp [hi] at he
  | expr l e =>
    simp only [evalS] at he
    simp only [constsS] at hp
    simp only [fragS_m] at hfr
    simp only [initS_m] at hin
    cases hee : evalE Φ fuel cx σ e with
    | none => simp [hee] at he
    | some r =>
      obtain ⟨v, σ1⟩ := r
      simp only [hee, Option.some.injEq, Prod.mk.injEq] at he
      obtain ⟨rfl, rfl, rfl⟩ := he
      simp only [compileS] at h ⊢
      generalize hce : compileE pos k e = ce at *
      obtain ⟨h1, Q1, nv⟩ := ih.E e X pos k ops cx σ σ1 v db dl D (hce ▸ codeAt_left h) hp hx hee hfr hin (hP.sub (by sz))
      rw [hce] at h1
      have hpop : codeAt X.code (pos + bytes ce) [Instr.pop] := codeAt_right h
      exact ⟨dl, (h1.trans (DS.one (cs_pop hpop (hP.next Q1).room0))).to (exitSD_normal_eq (by parith)),
        ⟨Q1, nv, by intro w hw; cases hw⟩, fun _ j hj => Q1.mono j (hP.defd j hj)⟩
  | ret l e =>
    simp only [evalS] at he
    simp only [constsS] at hp
    simp only [fragS_m] at hfr
    simp only [initS_m] at hin
    cases cx with
    | none => simp at he
    | some c =>
      obtain ⟨fd, id⟩ := c
      simp only at he
      cases hee : evalE Φ fuel (some (fd, id)) σ e with
      | none => simp [hee] at he
      | some r =>
        obtain ⟨v, σ1⟩ := r
        simp only [hee, Option.some.injEq, Prod.mk.injEq] at he
        obtain ⟨rfl, rfl, rfl⟩ := he
        simp only [compileS] at h ⊢
        obtain ⟨h1, Q1, nv⟩ := ih.E e X pos k ops (some (fd, id)) σ σ1 v db dl D (codeAt_left h) hp hx hee hfr hin (hP.sub (by sz))
        exact ⟨dl, (h1.trans (DS.one (cs_retv (codeAt_right h) (hx fd id rfl).2.2 hP.dbl hP.room1))).to rfl,
          ⟨Q1, rfl, by intro w hw; cases hw; exact nv⟩, by intro hf; cases hf⟩
  | retN l =>
    simp only [evalS] at he
    cases cx with
    | none => simp at he
    | some c =>
      obtain ⟨fd, id⟩ := c
      simp only [Option.some.injEq, Prod.mk.injEq] at he
      obtain ⟨rfl, rfl, rfl⟩ := he
      simp only [compileS] at h ⊢
      obtain ⟨h1, h2⟩ := codeAt_cons h
      simp only [Instr.size] at h2
      exact ⟨dl, ((DS.one (cs_null h1 (hP.room 1 (by sz)))).trans (DS.one (cs_retv h2 (hx fd id rfl).2.2 hP.dbl hP.room1))).to rfl,
        ⟨.rfl' hP.nbS, rfl, by intro w hw; cases hw; rfl⟩, by intro hf; cases hf⟩
  | block l body =>
    simp only [evalS] at he
    simp only [constsS] at hp
    simp only [fragS_m] at hfr
    simp only [initS_m] at hin
    simp only [compileS] at h ⊢
    cases hb : evalP Φ fuel cx σ body with
    | none => simp [hb] at he
    | some r =>
      obtain ⟨σ1, f1, v1⟩ := r
      simp only [hb, Option.some.injEq, Prod.mk.injEq] at he
      obtain ⟨rfl, rfl, rfl⟩ := he
      obtain ⟨dl1, hb1, Q1⟩ := ih.P body X pos k ctx ops cx σ σ1 f1 v1 db dl D h hp hx hb hfr hin (hP.sub (by sz))
      exact ⟨dl1, hb1, ⟨Q1.post, rfl, Q1.fl⟩, fun _ j hj => Q1.post.mono j (hP.defd j hj)⟩
  | breakS l lb =>
    simp only [evalS, Option.some.injEq, Prod.mk.injEq] at he
    obtain ⟨rfl, rfl, rfl⟩ := he
    simp only [compileS] at h
    exact ⟨dl, (DS.one (cs_jump h hP.room0)).to rfl, ⟨.rfl' hP.nbS, rfl, by intro w hw; cases hw⟩, by intro hf; cases hf⟩
  | continueS l lb =>
    simp only [evalS, Option.some.injEq, Prod.mk.injEq] at he
    obtain ⟨rfl, rfl, rfl⟩ := he
    simp only [compileS] at h
    exact ⟨dl, (DS.one (cs_jump h hP.room0)).to rfl, ⟨.rfl' hP.nbS, rfl, by intro w hw; cases hw⟩, by intro hf; cases hf⟩
  | ifS ls l c thn els =>
    rw [compileS_ifS] at h ⊢
    obtain ⟨dl1, hv, Q1⟩ := hI ls l c thn els X pos k ctx ops cx σ σ' f bv db dl D (codeAt_left h) (by simpa [constsS] using hp) hx he hfr hin hP
    by_cases hn : f = .normal
    · subst hn
      have hpop : codeAt X.code (pos + bytes (ifV pos k ctx c thn els)) [Instr.pop] := codeAt_right h
      have hv' : DSteps K F (X.st pos ops σ, sh ops.length dl db)
          (X.st (pos + bytes (ifV pos k ctx c thn els)) (bv :: ops) σ', sh (ops.length + 1) dl1 db) := hv
      exact ⟨dl1, (hv'.trans (DS.one (cs_pop hpop (hP.next Q1.post).room0))).to (exitSD_normal_eq (by parith)), Q1,
        fun _ j hj => Q1.post.mono j (hP.defd j hj)⟩
    · exact ⟨dl1, hv.to (exitVD_S hn), Q1, fun hf => absurd hf hn⟩
  | loopS l lbl body =>
    simp only [evalS] at he
    simp only [constsS] at hp
    have hfr0 := hfr
    have hin0 := hin
    simp only [fragS_m] at hfr
    simp only [initS_m] at hin
    have hloop := h
    simp only [compileS] at h ⊢
    generalize hme : (⟨lbl, pos, pos + sizeP body + 3⟩ : LoopCtx) = me at *
    have hml : me.label = lbl := by rw [← hme]
    have hmb : me.begin = pos := by rw [← hme]
    have hmend : me.endp = pos + sizeP body + 3 := by rw [← hme]
    generalize hcb : compileP pos k (me :: ctx) body = cb at *
    have hsz : bytes cb = sizeP body := by rw [← hcb, bytes_compileP]
    have hback : codeAt X.code (pos + bytes cb) [Instr.jump pos] := codeAt_right h
    cases hb : evalP Φ fuel cx σ body with
    | none => simp [hb] at he
    | some r =>
      obtain ⟨σ2, f2, v2⟩ := r
      simp only [hb] at he
      obtain ⟨dl2, h1, Q2⟩ := ih.P body X pos k (me :: ctx) ops cx σ σ2 f2 v2 db dl D (hcb ▸ codeAt_left h) hp hx hb hfr hin (hP.sub (by sz))
      rw [hcb] at h1
      have hP2 := hP.next Q2.post
      cases ha : floopAct lbl f2 with
      | again =>
        simp only [ha] at he
        obtain ⟨dl3, h2, Q3, _⟩ := ih.S (.loopS l lbl body) X pos k ctx ops cx σ2 σ' f bv db dl2 D hloop (by simpa [constsS] using hp) hx he
          hfr0 hin0 (hP2.sub (by omega))
        simp only [compileS, hme, hcb] at h2
        have Q : PostS σ σ' dl dl3 f bv := ⟨Q2.post.trans Q3.post, Q3.bv, Q3.fl⟩
        rcases exitSD_again (X := X) (ctx := ctx) (e := pos + bytes cb) (ops := ops) (σ := σ2) (dl := dl2) (db := db) (hml ▸ ha) with e | e
        · exact ⟨dl3, (h1.to e).trans ((DS.one (cs_jump hback hP2.room0)).trans h2), Q, fun _ j hj => Q.post.mono j (hP.defd j hj)⟩
        · exact ⟨dl3, (h1.to (by rw [e, hmb])).trans h2, Q, fun _ j hj => Q.post.mono j (hP.defd j hj)⟩
      | exit =>
        simp only [ha, Option.some.injEq, Prod.mk.injEq] at he
        obtain ⟨rfl, rfl, rfl⟩ := he
        refine ⟨dl2, h1.to ?_, ⟨Q2.post, rfl, by intro w hw; cases hw⟩, fun _ j hj => Q2.post.mono j (hP.defd j hj)⟩
        rw [exitSD_exit (hml ▸ ha), hmend]
        exact exitSD_normal_eq (by simp [bytes_append, bytes, Instr.size, hsz]; omega)
      | propagate =>
        simp only [ha, Option.some.injEq, Prod.mk.injEq] at he
        obtain ⟨rfl, rfl, rfl⟩ := he
        exact ⟨dl2, h1.to (exitSD_propagate (hml ▸ ha)), ⟨Q2.post, rfl, Q2.fl⟩, fun _ j hj => Q2.post.mono j (hP.defd j hj)⟩
  | whileS l lbl c body =>
    simp only [evalS] at he
    simp only [constsS] at hp
    have hfr0 := hfr
    have hin0 := hin
    simp only [fragS_m, Bool.and_eq_true] at hfr
    simp only [initS_m, Bool.and_eq_true] at hin
    cases hec : evalE Φ fuel cx σ c with
    | none => simp [hec] at he
    | some rc =>
      obtain ⟨vc, σ1⟩ := rc
      simp only [hec] at he
      have hloop := h
      simp only [compileS] at h ⊢
      generalize hcc : compileE pos k c = cc at *
      generalize hme : (⟨lbl, pos, pos + bytes cc + 3 + sizeP body + 3⟩ : LoopCtx) = me at *
      have hml : me.label = lbl := by rw [← hme]
      have hmb : me.begin = pos := by rw [← hme]
      have hmend : me.endp = pos + bytes cc + 3 + sizeP body + 3 := by rw [← hme]
      generalize hcb : compileP (pos + bytes cc + 3) (k + (constsE c).length) (me :: ctx) body = cb at *
      have hsz : bytes cb = sizeP body := by rw [← hcb, bytes_compileP]
      obtain ⟨hc, Qc, nvc⟩ := ih.E c X pos k ops cx σ σ1 vc db dl D (hcc ▸ codeAt_mid [] cc _ (by simpa using h)) (poolAt_left hp) hx hec
        hfr.1 hin.1 (hP.sub (by sz))
      rw [hcc] at hc
      have hj : codeAt X.code (pos + bytes cc) [Instr.jif (pos + bytes cc + 3 + sizeP body + 3)] :=
        codeAt_mid cc [_] (cb ++ [.jump pos]) (by simpa using h)
      have hbody : codeAt X.code (pos + bytes cc + 3) cb :=
        (codeAt_right (codeAt_left h)).to (by parith)
      have hback : codeAt X.code (pos + bytes cc + 3 + bytes cb) [Instr.jump pos] :=
        (codeAt_right h).to (by parith)
      have hP1 := hP.next Qc
      have s0 := hc.trans (DS.one (cs_jif hj hP1.room0))
      by_cases hf : falseyH σ1.a vc = true
      · simp only [hf, if_true, Option.some.injEq, Prod.mk.injEq] at he s0
        obtain ⟨rfl, rfl, rfl⟩ := he
        exact ⟨dl, s0.to (exitSD_normal_eq (by simp [bytes_append, bytes, Instr.size, hsz]; omega)),
          ⟨Qc, rfl, by intro w hw; cases hw⟩, fun _ j hj => Qc.mono j (hP.defd j hj)⟩
      · simp only [hf, Bool.false_eq_true, if_false] at he s0
        cases hb : evalP Φ fuel cx σ1 body with
        | none => simp [hb] at he
        | some r =>
          obtain ⟨σ2, f2, v2⟩ := r
          simp only [hb] at he
          obtain ⟨dl2, h1, Q2⟩ := ih.P body X (pos + bytes cc + 3) _ (me :: ctx) ops cx σ1 σ2 f2 v2 db dl D (hcb ▸ hbody) (poolAt_right hp) hx hb
            hfr.2 hin.2 (hP1.sub (by sz))
          rw [hcb] at h1
          have Q12 := Qc.trans Q2.post
          have hP2 := hP.next Q12
          cases ha : floopAct lbl f2 with
          | again =>
            simp only [ha] at he
            obtain ⟨dl3, h2, Q3, _⟩ := ih.S (.whileS l lbl c body) X pos k ctx ops cx σ2 σ' f bv db dl2 D hloop (by simpa [constsS] using hp) hx he
              hfr0 hin0 (hP2.sub (by omega))
            simp only [compileS, hcc, hme, hcb] at h2
            have Q : PostS σ σ' dl dl3 f bv := ⟨Q12.trans Q3.post, Q3.bv, Q3.fl⟩
            rcases exitSD_again (X := X) (ctx := ctx) (e := pos + bytes cc + 3 + bytes cb) (ops := ops) (σ := σ2) (dl := dl2) (db := db) (hml ▸ ha)
              with e | e
            · exact ⟨dl3, s0.trans ((h1.to e).trans ((DS.one (cs_jump hback hP2.room0)).trans h2)), Q, fun _ j hj => Q.post.mono j (hP.defd j hj)⟩
            · exact ⟨dl3, s0.trans ((h1.to (by rw [e, hmb])).trans h2), Q, fun _ j hj => Q.post.mono j (hP.defd j hj)⟩
          | exit =>
            simp only [ha, Option.some.injEq, Prod.mk.injEq] at he
            obtain ⟨rfl, rfl, rfl⟩ := he
            refine ⟨dl2, s0.trans (h1.to ?_), ⟨Q12, rfl, by intro w hw; cases hw⟩, fun _ j hj => Q12.mono j (hP.defd j hj)⟩
            rw [exitSD_exit (hml ▸ ha), hmend]
            exact exitSD_normal_eq (by simp [bytes_append, bytes, Instr.size, hsz]; omega)
          | propagate =>
            simp only [ha, Option.some.injEq, Prod.mk.injEq] at he
            obtain ⟨rfl, rfl, rfl⟩ := he
            exact ⟨dl2, s0.trans (h1.to (exitSD_propagate (hml ▸ ha))), ⟨Q12, rfl, Q2.fl⟩, fun _ j hj => Q12.mono j (hP.defd j hj)⟩

theorem csoundSV_succ_m (fuel : Nat) (ih : CSound_m Φ K F W fuel) (hS1 : CSoundS_m Φ K F W (fuel + 1)) (hI : CSoundIfV_m Φ K F W (fuel + 1)) :
    CSoundSV_m Φ K F W (fuel + 1) := by
  intro s X pos k ctx ops cx σ σ' f bv db dl D h hp hx he hfr hin hP
  by_cases hxs : s.isExprStmt = true
  · cases s <;> try (simp [FStmt.isExprStmt] at hxs)
    case expr l e =>
      rw [valueOf_expr] at h ⊢
      simp only [evalS] at he
      simp only [fragS_m] at hfr
      simp only [initS_m] at hin
      cases hee : evalE Φ fuel cx σ e with
      | none => simp [hee] at he
      | some r =>
        obtain ⟨v, σ2⟩ := r
        simp only [hee, Option.some.injEq, Prod.mk.injEq] at he
        obtain ⟨rfl, rfl, rfl⟩ := he
        obtain ⟨h1, Q1, nv⟩ := ih.E e X pos k ops cx σ σ2 v db dl D h (by simpa [constsS] using hp) hx hee hfr hin (hP.sub (by sz))
        exact ⟨dl, h1, ⟨Q1, nv, by intro w hw; cases hw⟩⟩
    case ifS ls l c thn els =>
      rw [valueOf_ifS] at h ⊢
      exact hI ls l c thn els X pos k ctx ops cx σ σ' f bv db dl D h (by simpa [constsS] using hp) hx he hfr hin (hP.sub0 (by omega))
  · have hx' : s.isExprStmt = false := by simpa using hxs
    rw [valueOf_other _ _ _ _ hx'] at h ⊢
    obtain ⟨dl1, hs, Q1, _⟩ := hS1 s X pos k ctx ops cx σ σ' f bv db dl D (codeAt_left h) hp hx he hfr hin (hP.sub0 (by omega))
    by_cases hn : f = .normal
    · subst hn
      have hnull : codeAt X.code (pos + bytes (compileS pos k ctx s)) [Instr.null] := codeAt_right h
      have hbv := evalS_other_null (Φ := Φ) _ _ _ _ _ _ hx' he
      subst hbv
      have hs' : DSteps K F (X.st pos ops σ, sh ops.length dl db) (X.st (pos + bytes (compileS pos k ctx s)) ops σ', sh ops.length dl1 db) := hs
      exact ⟨dl1, (hs'.trans (DS.one (cs_null hnull ((hP.next Q1.post).room 1 (by omega))))).to (exitVD_normal_eq (by parith)), Q1⟩
    · exact ⟨dl1, hs.to (exitSD_V hn), Q1⟩

theorem csoundV_succ_m (fuel : Nat) (ih : CSound_m Φ K F W fuel) : CSoundV_m Φ K F W (fuel + 1) := by
  intro ss X pos k ctx ops cx σ σ' f bv db dl D h hp hx he hfr hin hP
  cases ss with
  | nil =>
    simp only [evalP, Option.some.injEq, Prod.mk.injEq] at he
    obtain ⟨rfl, rfl, rfl⟩ := he
    simp only [branchV] at h ⊢
    exact ⟨dl, (DS.one (cs_null h (hP.room 1 (by omega)))).to (exitVD_normal_eq (by simp [bytes, Instr.size])),
      ⟨.rfl' hP.nbS, rfl, by intro w hw; cases hw⟩⟩
  | cons s rest =>
    simp only [evalP] at he
    cases h1 : evalS Φ fuel cx σ s with
    | none => simp [h1] at he
    | some r1 =>
      obtain ⟨σ1, f1, v1⟩ := r1
      simp only [constsP] at hp
      simp only [fragP_m, Bool.and_eq_true] at hfr
      rw [initP_cons_m] at hin
      simp only [Bool.and_eq_true] at hin
      cases rest with
      | cons s2 rest2 =>
        rw [branchV_cons2] at h ⊢
        generalize hcs : compileS pos k ctx s = cs at *
        obtain ⟨dl1, hs, Q1, hd1⟩ := ih.S s X pos k ctx ops cx σ σ1 f1 v1 db dl D (hcs ▸ codeAt_left h) (poolAt_left hp) hx h1 hfr.1 hin.1
          (hP.sub (by sz))
        rw [hcs] at hs
        by_cases hn : f1 = .normal
        · subst hn
          simp only [h1] at he
          obtain ⟨dl2, hr, Q2⟩ := ih.V (s2 :: rest2) X (pos + bytes cs) (k + (constsS s).length) ctx ops cx σ1 σ' f bv db dl1 (defS s D)
            (codeAt_right h) (poolAt_right hp) hx he hfr.2 hin.2 (((hP.next Q1.post).withD (hd1 rfl)).sub (by sz))
          exact ⟨dl2, (hs.trans hr).to (exitVD_pc (by simp [bytes_append, Nat.add_assoc])), ⟨Q1.post.trans Q2.post, Q2.bv, Q2.fl⟩⟩
        · have he' : σ' = σ1 ∧ f = f1 ∧ bv = .null := by
            cases f1 <;> simp_all
          obtain ⟨rfl, rfl, rfl⟩ := he'
          exact ⟨dl1, hs.to (exitSD_V hn), ⟨Q1.post, rfl, Q1.fl⟩⟩
      | nil =>
        simp only [constsP, List.append_nil] at hp
        rw [branchV_single] at h ⊢
        obtain ⟨dl1, hs, Q1⟩ := ih.SV s X pos k ctx ops cx σ σ1 f1 v1 db dl D h hp hx h1 hfr.1 hin.1 (hP.sub (by sz))
        by_cases hn : f1 = .normal
        · subst hn
          simp only [h1, Option.some.injEq, Prod.mk.injEq] at he
          obtain ⟨rfl, rfl, rfl⟩ := he
          exact ⟨dl1, hs, Q1⟩
        · have he' : σ' = σ1 ∧ f = f1 ∧ bv = .null := by
            cases f1 <;> simp_all
          obtain ⟨rfl, rfl, rfl⟩ := he'
          exact ⟨dl1, hs.to (exitVD_V hn), ⟨Q1.post, rfl, Q1.fl⟩⟩

theorem csoundST_succ_m (fuel : Nat) (ih : CSound_m Φ K F W fuel) (hS1 : CSoundS_m Φ K F W (fuel + 1)) (hI : CSoundIfV_m Φ K F W (fuel + 1)) :
    CSoundST_m Φ K F W (fuel + 1) := by
  intro s X pos k ctx ops fd id σ σ' f bv db dl D h hp hx he hfr hin hP
  have hcal : X.callers ≠ [] := (hx fd id rfl).2.2
  by_cases hxs : s.isExprStmt = true
  · cases s <;> try (simp [FStmt.isExprStmt] at hxs)
    case expr l e =>
      rw [tailOf_expr] at h
      simp only [evalS] at he
      simp only [fragS_m] at hfr
      simp only [initS_m] at hin
      cases hee : evalE Φ fuel (some (fd, id)) σ e with
      | none => simp [hee] at he
      | some r =>
        obtain ⟨v, σ2⟩ := r
        simp only [hee, Option.some.injEq, Prod.mk.injEq] at he
        obtain ⟨rfl, rfl, rfl⟩ := he
        obtain ⟨s1, Q1, nv⟩ := ih.E e X pos k ops (some (fd, id)) σ σ2 v db dl D (codeAt_left h) (by simpa [constsS] using hp) hx hee hfr hin
          (hP.sub (by sz))
        exact ⟨dl, (s1.trans (DS.one (cs_retv (codeAt_right h) hcal hP.dbl hP.room1))).to rfl, ⟨Q1, nv, by intro w hw; cases hw⟩⟩
    case ifS ls l c thn els =>
      rw [tailOf_ifS] at h
      obtain ⟨dl1, s1, Q1⟩ := hI ls l c thn els X pos k ctx ops (some (fd, id)) σ σ' f bv db dl D (codeAt_left h) (by simpa [constsS] using hp) hx he
        hfr hin (hP.sub0 (by omega))
      by_cases hn : f = .normal
      · subst hn
        have s1' : DSteps K F (X.st pos ops σ, sh ops.length dl db)
            (X.st (pos + bytes (ifV pos k ctx c thn els)) (bv :: ops) σ', sh (ops.length + 1) dl1 db) := s1
        exact ⟨dl1, (s1'.trans (DS.one (cs_retv (codeAt_right h) hcal hP.dbl hP.room1))).to rfl, Q1⟩
      · exact ⟨dl1, s1.to (exitVD_T hn), Q1⟩
  · have hx' : s.isExprStmt = false := by simpa using hxs
    by_cases hr : s.isRet = true
    · have hcode : tailOf s (compileS pos k ctx s) = compileS pos k ctx s := by simp [tailOf, hx', hr]
      rw [hcode] at h
      obtain ⟨dl1, hs, Q1, _⟩ := hS1 s X pos k ctx ops (some (fd, id)) σ σ' f bv db dl D h hp hx he hfr hin (hP.sub0 (by omega))
      have hn := evalS_ret_flow (Φ := Φ) _ _ _ _ _ _ _ hr he
      exact ⟨dl1, hs.to (exitSD_T hn), Q1⟩
    · have hcode : tailOf s (compileS pos k ctx s) = compileS pos k ctx s ++ [.ret] := by simp [tailOf, hx', hr]
      rw [hcode] at h
      obtain ⟨dl1, hs, Q1, _⟩ := hS1 s X pos k ctx ops (some (fd, id)) σ σ' f bv db dl D (codeAt_left h) hp hx he hfr hin (hP.sub0 (by omega))
      by_cases hn : f = .normal
      · subst hn
        have hbv := evalS_other_null (Φ := Φ) _ _ _ _ _ _ hx' he
        subst hbv
        have hs' : DSteps K F (X.st pos ops σ, sh ops.length dl db) (X.st (pos + bytes (compileS pos k ctx s)) ops σ', sh ops.length dl1 db) := hs
        exact ⟨dl1, (hs'.trans (DS.one (cs_ret (codeAt_right h) hcal hP.dbl hP.room1))).to rfl, Q1⟩
      · exact ⟨dl1, hs.to (exitSD_T hn), Q1⟩

theorem csoundT_succ_m (fuel : Nat) (ih : CSound_m Φ K F W fuel) : CSoundT_m Φ K F W (fuel + 1) := by
  intro ss X pos k ctx ops fd id σ σ' f bv db dl D h hp hx he hfr hin hP
  have hcal : X.callers ≠ [] := (hx fd id rfl).2.2
  cases ss with
  | nil =>
    simp only [evalP, Option.some.injEq, Prod.mk.injEq] at he
    obtain ⟨rfl, rfl, rfl⟩ := he
    simp only [tailP] at h
    exact ⟨dl, (DS.one (cs_ret h hcal hP.dbl hP.room1)).to rfl, ⟨.rfl' hP.nbS, rfl, by intro w hw; cases hw⟩⟩
  | cons s rest =>
    simp only [evalP] at he
    cases h1 : evalS Φ fuel (some (fd, id)) σ s with
    | none => simp [h1] at he
    | some r1 =>
      obtain ⟨σ1, f1, v1⟩ := r1
      simp only [constsP] at hp
      simp only [fragP_m, Bool.and_eq_true] at hfr
      rw [initP_cons_m] at hin
      simp only [Bool.and_eq_true] at hin
      cases rest with
      | cons s2 rest2 =>
        rw [tailP_cons2] at h
        generalize hcs : compileS pos k ctx s = cs at *
        obtain ⟨dl1, hs, Q1, hd1⟩ := ih.S s X pos k ctx ops (some (fd, id)) σ σ1 f1 v1 db dl D (hcs ▸ codeAt_left h) (poolAt_left hp) hx h1
          hfr.1 hin.1 (hP.sub (by sz))
        rw [hcs] at hs
        by_cases hn : f1 = .normal
        · subst hn
          simp only [h1] at he
          obtain ⟨dl2, hr, Q2⟩ := ih.T (s2 :: rest2) X (pos + bytes cs) (k + (constsS s).length) ctx ops fd id σ1 σ' f bv db dl1 (defS s D)
            (codeAt_right h) (poolAt_right hp) hx he hfr.2 hin.2 (((hP.next Q1.post).withD (hd1 rfl)).sub (by sz))
          exact ⟨dl2, hs.trans hr, ⟨Q1.post.trans Q2.post, Q2.bv, Q2.fl⟩⟩
        · have he' : σ' = σ1 ∧ f = f1 ∧ bv = .null := by
            cases f1 <;> simp_all
          obtain ⟨rfl, rfl, rfl⟩ := he'
          exact ⟨dl1, hs.to (exitSD_T hn), ⟨Q1.post, rfl, Q1.fl⟩⟩
      | nil =>
        simp only [constsP, List.append_nil] at hp
        rw [tailP_single] at h
        obtain ⟨dl1, hs, Q1⟩ := ih.ST s X pos k ctx ops fd id σ σ1 f1 v1 db dl D h hp hx h1 hfr.1 hin.1 (hP.sub (by sz))
        by_cases hn : f1 = .normal
        · subst hn
          simp only [h1, Option.some.injEq, Prod.mk.injEq] at he
          obtain ⟨rfl, rfl, rfl⟩ := he
          exact ⟨dl1, hs, Q1⟩
        · have he' : σ' = σ1 ∧ f = f1 ∧ bv = .null := by
            cases f1 <;> simp_all
          obtain ⟨rfl, rfl, rfl⟩ := he'
          exact ⟨dl1, hs.to (exitTD_T hn), ⟨Q1.post, rfl, Q1.fl⟩⟩

theorem csound_zero_m : CSound_m Φ K F W 0 where
  E := by intro e X pos k ops cx σ σ' v db dl D _ _ _ he; simp [evalE] at he
  Arms := by intro a X pos k ops cx σ σ' v r db dl D _ _ _ he; simp [evalArms] at he
  Args := by intro a X pos k ops cx σ σ' vs db dl D _ _ _ he; simp [evalArgs] at he
  S := by intro s X pos k ctx ops cx σ σ' f bv db dl D _ _ _ he; simp [evalS] at he
  SV := by intro s X pos k ctx ops cx σ σ' f bv db dl D _ _ _ he; simp [evalS] at he
  ST := by intro s X pos k ctx ops fd id σ σ' f bv db dl D _ _ _ he; simp [evalS] at he
  P := by intro s X pos k ctx ops cx σ σ' f bv db dl D _ _ _ he; simp [evalP] at he
  V := by intro s X pos k ctx ops cx σ σ' f bv db dl D _ _ _ he; simp [evalP] at he
  T := by intro s X pos k ctx ops fd id σ σ' f bv db dl D _ _ _ he; simp [evalP] at he
  IfV := by intro ls l c t e X pos k ctx ops cx σ σ' f bv db dl D _ _ _ he; simp [evalS] at he

/-- **checked soundness of the compiler with functions and closures** (the fragment `frag…`, no slot read
before its `let`: `init…`): the run `Core.Fn.sound_all` produces passes `FnVm`'s checks at every step -/
theorem csound_all_m (hL : Linked Φ K F) (hG : GoodΦ_m Φ W) : ∀ fuel, CSound_m Φ K F W fuel
  | 0 => csound_zero_m
  | fuel+1 =>
    have ih := csound_all_m hL hG fuel
    have hI := csoundIfV_succ_m fuel ih
    have hS := csoundS_succ_m fuel ih hI
    { E := csoundE_succ_m fuel ih hL hG
      Arms := csoundArms_succ_m fuel ih
      Args := csoundArgs_succ_m fuel ih
      S := hS
      SV := csoundSV_succ_m fuel ih hS hI
      ST := csoundST_succ_m fuel ih hS hI
      P := csoundP_succ_m fuel ih
      V := csoundV_succ_m fuel ih
      T := csoundT_succ_m fuel ih
      IfV := hI }

end

/-! ## whole programs -/

/-- the top-level statements are in the fragment -/
def fragT_m : List FTop → Bool
  | [] => true
  | .stmt s :: r => fragS_m s && fragT_m r
  | _ :: r => fragT_m r

/-- the top-level statements read no local slot (there is none at top level) before it is stored -/
def initT_m : List FTop → Bool
  | [] => true
  | .stmt s :: r => initS_m [] s && initT_m r
  | _ :: r => initT_m r

/-- **the fragment**: `FnVm`'s instructions (no arrays, maps, indexing, builtin functions) and no `match`, in
the top-level statements and in the body of every function literal of the program; `num_params ≤ num_locals` -/
def fragOKm (T : List FTop) : Bool :=
  fragT_m T && (declsT T).all fun x => fragP_m x.2.body && decide (x.2.np ≤ x.2.nl)

/-- **no local is read before it is stored**: in every function literal of the program (at any nesting
depth) with the parameters defined at entry, and in the top-level statements.  A `let x = e` whose `e`
names `x` (the slot being defined) is what this excludes — the real compiler emits `GetLocal` of a slot
that `Call` left stale for it (`FnVm.Stale.stale_local_diverges`). -/
def initOK_m (T : List FTop) : Bool :=
  initT_m T && (declsT T).all fun x => initP_m (List.range x.2.np) x.2.body

theorem goodΦ_program_m {T : List FTop} (hf : fragOKm T = true) (hi : initOK_m T = true) : GoodΦ_m (phiT T) (maxFrameNeed T) := by
  intro fd d h
  have hm : (fd, d) ∈ declsT T := FnVm.lookupFd_mem h
  simp only [fragOKm, Bool.and_eq_true, List.all_eq_true, decide_eq_true_eq] at hf
  simp only [initOK_m, Bool.and_eq_true, List.all_eq_true] at hi
  have h1 := hf.2 _ hm
  have h2 := hi.2 _ hm
  have h3 := maxNeed_mem hm
  exact ⟨h1.1, h2, h1.2, h3⟩

section
variable {Φ : FnDef → Option FDecl} {K : List Val} {F : FnDef → Option (List Instr)} {W : Nat}

/-- the checked form of `Core.Fn.tops_correct` -/
theorem tops_checked_m (hL : Linked Φ K F) (hG : GoodΦ_m Φ W) (fuel : Nat) (X : Ctxt) (hXb : X.base = []) (hXc : X.callers = []) :
    ∀ (T : List FTop) (pos k : Nat) (g g' : List Val) (hp hp' : List (List Val)) (a a' : Heap),
    codeAt X.code pos (compileT pos k T) → poolAt K k (constsT T) → evalT Φ fuel g hp a T = some (g', hp', a') →
    fragT_m T = true → initT_m T = true → NBS ⟨[], g, hp, a⟩ → needT T + fuel * W < stackSize → fuel < maxFrames →
    DSteps K F (X.st pos [] ⟨[], g, hp, a⟩, []) (X.st (pos + bytes (compileT pos k T)) [] ⟨[], g', hp', a'⟩, [])
  | [], pos, k, g, g', hq, hq', a, a', _, _, he, _, _, _, _, _ => by
    simp only [evalT, Option.some.injEq, Prod.mk.injEq] at he
    obtain ⟨rfl, rfl, rfl⟩ := he
    exact (DSteps.refl _).to (by simp [compileT, bytes])
  | .stmt s :: rest, pos, k, g, g', hq, hq', a, a', h, hp, he, hfr, hin, hnb, hst, hfm => by
    simp only [compileT, compileTop] at h ⊢
    simp only [constsT, constsTop] at hp
    simp only [evalT] at he
    simp only [fragT_m, Bool.and_eq_true] at hfr
    simp only [initT_m, Bool.and_eq_true] at hin
    simp only [needT] at hst
    cases hs : evalS Φ fuel none ⟨[], g, hq, a⟩ s with
    | none => simp [hs] at he
    | some r =>
      obtain ⟨σ1, f1, v1⟩ := r
      cases f1 with
      | normal =>
        simp only [hs] at he
        have hP : Pre W X [] [] ⟨[], g, hq, a⟩ [] [] (sizeS s) fuel :=
          ⟨by simp [hXb], rfl, (by intro i hi; cases hi), hnb, (by simp [hXb] <;> omega), (by simp [hXc] <;> omega)⟩
        obtain ⟨dl1, s1, Q1, _⟩ := (csound_all_m hL hG fuel).S s X pos k [] [] none ⟨[], g, hq, a⟩ σ1 .normal v1 [] [] [] (codeAt_left h) (poolAt_left hp)
          (agree_none X) hs hfr.1 hin.1 hP
        have hl := Q1.post.len
        have hdl := Q1.post.dlen
        have hσ1 : σ1 = ⟨[], σ1.g, σ1.h, σ1.a⟩ := by
          cases σ1 with
          | mk l1 g1 h1 a1 =>
            have : l1 = [] := by simpa using hl
            simp [this]
        have hdl1 : dl1 = [] := by simpa using hdl
        have hnb1 : NBS ⟨[], σ1.g, σ1.h, σ1.a⟩ := ⟨(by intro v hv; cases hv), Q1.post.nbS.g, Q1.post.nbS.h⟩
        have s2 := tops_checked_m hL hG fuel X hXb hXc rest _ _ σ1.g g' σ1.h hq' σ1.a a' (codeAt_right h) (poolAt_right hp) he hfr.2 hin.2 hnb1
          (by omega) hfm
        subst hdl1
        have s1' : DSteps K F (X.st pos [] ⟨[], g, hq, a⟩, []) (X.st (pos + bytes (compileS pos k [] s)) [] σ1, []) := s1
        rw [hσ1] at s1'
        exact (s1'.trans s2).toPc (by simp [bytes_append, Nat.add_assoc])
      | brk l => simp [hs] at he
      | cont l => simp [hs] at he
      | ret v => simp [hs] at he
  | .fnDef l gi code lines d :: rest, pos, k, g, g', hq, hq', a, a', h, hp, he, hfr, hin, hnb, hst, hfm => by
    simp only [compileT, compileTop] at h ⊢
    simp only [constsT, constsTop] at hp
    simp only [evalT] at he
    simp only [fragT_m] at hfr
    simp only [initT_m] at hin
    simp only [needT] at hst
    by_cases hi : gi < g.length
    · simp only [hi, if_true] at he
      have hc : codeAt X.code pos [Instr.closure (k + (constsP d.body).length) 0] := codeAt_left (b := [.defGlobal gi]) (codeAt_left h)
      have hdg : codeAt X.code (pos + 4) [Instr.defGlobal gi] := by
        have := codeAt_right (a := [Instr.closure (k + (constsP d.body).length) 0]) (b := [.defGlobal gi]) (codeAt_left h)
        simpa [bytes, Instr.size] using this
      have hk : K[k + (constsP d.body).length]? = some (.func (mkFd code lines d)) := poolAt_get (poolAt_right (poolAt_left hp))
      have hR1 : Room X (0 + 1 + 0) := ⟨(by simp [hXb] <;> omega), (by simp [hXc] <;> omega)⟩
      have hR0 : Room X (0 + 0) := ⟨(by simp [hXb] <;> omega), (by simp [hXc] <;> omega)⟩
      have s1 := DS.one (cs_closure (K := K) (F := F) (X := X) (vs := []) (ops := []) (σ := ⟨[], g, hq, a⟩) (dl := []) (db := []) hc hk hR1)
      have s2 := DS.one (cs_defGlobal (K := K) (F := F) (X := X) (v := .clos (mkFd code lines d) [] hq.length) (ops := [])
        (σ := ⟨[], g, hq ++ [[]], a⟩) (dl := []) (db := []) hdg hi hR0)
      have hnb1 : NBS ⟨[], g.set gi (.clos (mkFd code lines d) [] hq.length), hq ++ [[]], a⟩ :=
        ⟨hnb.l, nbs_set hnb.g rfl gi, pushH_nbs hnb.h (by intro v hv; cases hv)⟩
      have s3 := tops_checked_m hL hG fuel X hXb hXc rest _ _ _ g' _ hq' a a' (codeAt_right h) (poolAt_right hp) he hfr hin hnb1 (by omega) hfm
      have hb : bytes [Instr.closure (k + (constsP d.body).length) 0, Instr.defGlobal gi] = 7 := by simp [bytes, Instr.size]
      rw [hb] at s3
      have s12 : DSteps K F (X.st pos [] ⟨[], g, hq, a⟩, []) (X.st (pos + 7) [] ⟨[], g.set gi (.clos (mkFd code lines d) [] hq.length), hq ++ [[]], a⟩, []) :=
        (s1.trans s2).toPc (by omega)
      exact (s12.trans s3).toPc (by simp [bytes, Instr.size]; omega)
    · simp [hi] at he
  | .fnSet ls l gi code lines d :: rest, pos, k, g, g', hq, hq', a, a', h, hp, he, hfr, hin, hnb, hst, hfm => by
    simp only [compileT, compileTop] at h ⊢
    simp only [constsT, constsTop] at hp
    simp only [evalT] at he
    simp only [fragT_m] at hfr
    simp only [initT_m] at hin
    simp only [needT] at hst
    by_cases hi : gi < g.length
    · simp only [hi, if_true] at he
      obtain ⟨hc, h2⟩ := codeAt_cons (codeAt_left h)
      obtain ⟨hsg, h3⟩ := codeAt_cons h2
      simp only [Instr.size] at hsg h3
      have hk : K[k + (constsP d.body).length]? = some (.func (mkFd code lines d)) := poolAt_get (poolAt_right (poolAt_left hp))
      have hR1 : Room X (0 + 1 + 0) := ⟨(by simp [hXb] <;> omega), (by simp [hXc] <;> omega)⟩
      have hR0 : Room X (0 + 0) := ⟨(by simp [hXb] <;> omega), (by simp [hXc] <;> omega)⟩
      have s1 := DS.one (cs_closure (K := K) (F := F) (X := X) (vs := []) (ops := []) (σ := ⟨[], g, hq, a⟩) (dl := []) (db := []) hc hk hR1)
      have s2 := DS.one (cs_setGlobal (K := K) (F := F) (X := X) (v := .clos (mkFd code lines d) [] hq.length) (ops := [])
        (σ := ⟨[], g, hq ++ [[]], a⟩) (dl := []) (db := []) hsg hi hR1)
      have s2' := DS.one (cs_pop (K := K) (F := F) (X := X) (v := .clos (mkFd code lines d) [] hq.length) (ops := [])
        (σ := ⟨[], g.set gi (.clos (mkFd code lines d) [] hq.length), hq ++ [[]], a⟩) (dl := []) (db := []) h3 hR0)
      have hnb1 : NBS ⟨[], g.set gi (.clos (mkFd code lines d) [] hq.length), hq ++ [[]], a⟩ :=
        ⟨hnb.l, nbs_set hnb.g rfl gi, pushH_nbs hnb.h (by intro v hv; cases hv)⟩
      have s3 := tops_checked_m hL hG fuel X hXb hXc rest _ _ _ g' _ hq' a a' (codeAt_right h) (poolAt_right hp) he hfr hin hnb1 (by omega) hfm
      have hb : bytes [Instr.closure (k + (constsP d.body).length) 0, Instr.setGlobal gi, Instr.pop] = 8 := by simp [bytes, Instr.size]
      rw [hb] at s3
      have s12 : DSteps K F (X.st pos [] ⟨[], g, hq, a⟩, []) (X.st (pos + 8) [] ⟨[], g.set gi (.clos (mkFd code lines d) [] hq.length), hq ++ [[]], a⟩, []) :=
        ((s1.trans s2).trans s2').toPc (by omega)
      exact (s12.trans s3).toPc (by simp [bytes, Instr.size]; omega)
    · simp [hi] at he

end

/-- **DEFINEDNESS and BOUNDS** — the run of the machine with frames that `Core.Fn.program_correct_fn` produces
for a terminating evaluation passes the checks of `FnVm.fstep_refines_partial` at every step (`DSteps`: operands
and local slots read are defined, the callee of every `Call` is a closure, stack ≤ `STACK_SIZE`, frames <
`MAX_FRAMES`), for every program of the fragment (`fragOKm`) that stores every local before reading it
(`initOK_m`), when the evaluation's fuel satisfies the numeric condition `fits`. -/
theorem program_checked_fn_m (fuel : Nat) (T : List FTop) (n : Nat) (a a' : Heap) (g' : List Val) (h' : List (List Val))
    (he : evalT (phiT T) fuel (List.replicate n .null) [[]] a T = some (g', h', a'))
    (hf : fragOKm T = true) (hi : initOK_m T = true) (hfit : fits T fuel) :
    DSteps (constsT T) (codeT T) (FnVm.progInit T n a, [])
      (⟨⟨compileT 0 0 T, ⟨[], [], 0, 0, 0⟩, 0, bytes (compileT 0 0 T), 0⟩, [], g', h', a', []⟩, []) := by
  have hft : fragT_m T = true := by simp only [fragOKm, Bool.and_eq_true] at hf; exact hf.1
  have hit : initT_m T = true := by simp only [initOK_m, Bool.and_eq_true] at hi; exact hi.1
  have hnb : NBS ⟨[], List.replicate n .null, [[]], a⟩ :=
    ⟨(by intro v hv; cases hv), nbs_replicate_null n, (by intro c hc; simp at hc; subst hc; intro v hv; cases hv)⟩
  have := tops_checked_m (linked_program T) (goodΦ_program_m hf hi) fuel (mainCtxt (compileT 0 0 T)) rfl rfl T 0 0 _ g' _ h' a a'
    ⟨[], [], by simp [mainCtxt], rfl⟩ ⟨[], [], by simp, rfl⟩ he hft hit hnb hfit.1 hfit.2
  simpa [Ctxt.st, Ctxt.at, mainCtxt, FnVm.progInit] using this

/-- the same as an instance of `FnVm`'s executable predicate -/
theorem program_checkedRun_fn_m (fuel : Nat) (T : List FTop) (n : Nat) (a a' : Heap) (g' : List Val) (h' : List (List Val))
    (he : evalT (phiT T) fuel (List.replicate n .null) [[]] a T = some (g', h', a'))
    (hf : fragOKm T = true) (hi : initOK_m T = true) (hfit : fits T fuel) :
    ∃ k, checkedRun (constsT T) (codeT T) k (FnVm.progInit T n a, []) = true := by
  obtain ⟨k, hk⟩ := DSteps_dsteps (program_checked_fn_m fuel T n a a' g' h' he hf hi hfit)
  exact ⟨k, by simp [checkedRun, hk]⟩

/-- **MAIN**: a terminating evaluation (`Core.Fn.evalT`, fuel `efuel`) of a program with functions, locals,
recursion and closures that is in the fragment (`fragOKm`), stores every local before reading it (`initOK_m`) and
whose fuel fits (`fits`: `needT T + efuel * maxFrameNeed T < STACK_SIZE`, `efuel < MAX_FRAMES`) ⇒ `Vm.run` on the
encoded main code and the program's constants ends normally with the evaluator's globals, the empty stack and the
main frame alone.  NO hypothesis about an intermediate state of either machine: the remaining hypotheses are
static facts about the compiled program (operands fit their widths, the function constants hold the encoding of
their code, no `CurrentClosure` in the main code, no array / map constant, `n` globals fit). -/
theorem program_vm_fn_m (T : List FTop) (efuel n : Nat) (a a' : Heap) (g' : List Val) (h' : List (List Val))
    (he : evalT (phiT T) efuel (List.replicate n .null) [[]] a T = some (g', h', a'))
    (hf : fragOKm T = true) (hi : initOK_m T = true) (hfit : fits T efuel)
    (main : FnDef) (hcode : main.code = Core.encode (compileT 0 0 T)) (hlines : main.code.length ≤ main.lines.length)
    (hfits : (compileT 0 0 T).all Core.fitsI = true) (hnc : FnVm.noCurr (compileT 0 0 T) = true)
    (hF : FnVm.codedB (codesT 0 T) = true) (hK : FnVm.scalars (constsT T)) (hn : n ≤ P2sh.Gen.Limits.GLOBALS_SIZE) :
    ∃ fuel vs', Vm.run main (constsT T) fuel = (.ok (), vs') ∧ CoreVm.GRel vs'.globals g' ∧ vs'.sp = 0 ∧ vs'.frames.length = 1 := by
  obtain ⟨k, hk⟩ := program_checkedRun_fn_m efuel T n a a' g' h' he hf hi hfit
  exact FnVm.program_run_refines_partial T efuel n k a a' g' h' he main hcode hlines hfits hnc hF hK hn hk


/-! ## the oracle ⇒ the VM model, for programs with functions -/

/-- **oracle ⇒ VM model** (`_partial`: `RefFn`'s fragment `okTop` and this file's `fragOKm`).  When the oracle
(`Spec/Ref.lean`) runs the embedding of the program to its normal end, `Core.Fn.evalT` ends with some fuel `k` in a
configuration related to the oracle's (`RefFn.TopR`), and — when that fuel fits (`fits T k`) — `Vm.run` on the encoded
compiled program ends normally with those globals. -/
theorem oracle_vm_fn_partial_m {N : RefFn.Names} (hN : RefFn.NamesOK N) (n : Nat) {T : List FTop} {fuel : Nat} {v : Val} {env' : Ref.Env}
    {st' : Ref.St} (a : Heap) (hok : RefFn.okTop N (phiT T) n 0 T = true)
    (hrun : RefCore.run (Ref.evalStmts fuel [[]] (RefFn.toTops N T) .null) {} = (.ok (.normal, v, env'), st'))
    (hf : fragOKm T = true) (hi : initOK_m T = true)
    (main : FnDef) (hcode : main.code = Core.encode (compileT 0 0 T)) (hlines : main.code.length ≤ main.lines.length)
    (hfits : (compileT 0 0 T).all Core.fitsI = true) (hnc : FnVm.noCurr (compileT 0 0 T) = true)
    (hF : FnVm.codedB (codesT 0 T) = true) (hK : FnVm.scalars (constsT T)) (hn : n ≤ P2sh.Gen.Limits.GLOBALS_SIZE) :
    ∃ k g' h' a' CT n', evalT (phiT T) k (List.replicate n .null) [[]] a T = some (g', h', a') ∧
      RefFn.TopR N (phiT T) n n' env' CT st' g' h' a' ∧
      (fits T k → ∃ vfuel vs', Vm.run main (constsT T) vfuel = (.ok (), vs') ∧ CoreVm.GRel vs'.globals g' ∧ vs'.sp = 0 ∧
        vs'.frames.length = 1) := by
  obtain ⟨k, g', h', a', CT, n', hev, hr⟩ := RefFn.ref_program_fn_partial hN n [[]] a hok hrun
  exact ⟨k, g', h', a', CT, n', hev, hr, fun hfit =>
    program_vm_fn_m T k n a a' g' h' hev hf hi hfit main hcode hlines hfits hnc hF hK hn⟩

/-! ## the old fragment is inside the new one -/

mutual
theorem fragE_sub : ∀ (e : FExpr), fragE e = true → (fragE_m e = true ∧ ∀ D, initE_m D e = initE D e)
  | .lit l v, h => ⟨by simpa [fragE, fragE_m] using h, fun D => by simp [initE, initE_m]⟩
  | .tru _, _ | .fls _, _ | .null _, _ | .gget .., _ | .curr _, _ | .fget .., _ => ⟨by simp [fragE_m], fun D => by simp [initE, initE_m]⟩
  | .lget .., _ => ⟨by simp [fragE_m], fun D => by simp [initE, initE_m]⟩
  | .mkclos .., _ => ⟨by simp [fragE_m], fun D => by simp [initE, initE_m]⟩
  | .un l op a, h => by
    simp only [fragE] at h
    have ha := fragE_sub a h
    exact ⟨by simp [fragE_m, ha.1], fun D => by simp [initE, initE_m, ha.2]⟩
  | .gset l i a, h => by
    simp only [fragE] at h
    have ha := fragE_sub a h
    exact ⟨by simp [fragE_m, ha.1], fun D => by simp [initE, initE_m, ha.2]⟩
  | .lset l i a, h => by
    simp only [fragE] at h
    have ha := fragE_sub a h
    exact ⟨by simp [fragE_m, ha.1], fun D => by simp [initE, initE_m, ha.2]⟩
  | .fset l i a, h => by
    simp only [fragE] at h
    have ha := fragE_sub a h
    exact ⟨by simp [fragE_m, ha.1], fun D => by simp [initE, initE_m, ha.2]⟩
  | .bin l op a b, h => by
    simp only [fragE, Bool.and_eq_true] at h
    have ha := fragE_sub a h.1
    have hb := fragE_sub b h.2
    exact ⟨by simp [fragE_m, ha.1, hb.1], fun D => by simp [initE, initE_m, ha.2, hb.2]⟩
  | .lt l a b, h => by
    simp only [fragE, Bool.and_eq_true] at h
    have ha := fragE_sub a h.1
    have hb := fragE_sub b h.2
    exact ⟨by simp [fragE_m, ha.1, hb.1], fun D => by simp [initE, initE_m, ha.2, hb.2]⟩
  | .le l a b, h => by
    simp only [fragE, Bool.and_eq_true] at h
    have ha := fragE_sub a h.1
    have hb := fragE_sub b h.2
    exact ⟨by simp [fragE_m, ha.1, hb.1], fun D => by simp [initE, initE_m, ha.2, hb.2]⟩
  | .and l a b, h => by
    simp only [fragE, Bool.and_eq_true] at h
    have ha := fragE_sub a h.1
    have hb := fragE_sub b h.2
    exact ⟨by simp [fragE_m, ha.1, hb.1], fun D => by simp [initE, initE_m, ha.2, hb.2]⟩
  | .or l a b, h => by
    simp only [fragE, Bool.and_eq_true] at h
    have ha := fragE_sub a h.1
    have hb := fragE_sub b h.2
    exact ⟨by simp [fragE_m, ha.1, hb.1], fun D => by simp [initE, initE_m, ha.2, hb.2]⟩
  | .ite l c a b, h => by
    simp only [fragE, Bool.and_eq_true] at h
    have hc := fragE_sub c h.1.1
    have ha := fragE_sub a h.1.2
    have hb := fragE_sub b h.2
    exact ⟨by simp [fragE_m, hc.1, ha.1, hb.1], fun D => by simp [initE, initE_m, hc.2, ha.2, hb.2]⟩
  | .call l f args, h => by
    simp only [fragE, Bool.and_eq_true] at h
    have hf := fragE_sub f h.1
    have ha := fragArgs_sub args h.2
    exact ⟨by simp [fragE_m, hf.1, ha.1], fun D => by simp [initE, initE_m, hf.2, ha.2]⟩
  | .matchE .., h | .arrLit .., h | .mapLit .., h | .index .., h | .setIndex .., h | .bfn .., h => by simp [fragE] at h
theorem fragArgs_sub : ∀ (a : FArgs), fragArgs a = true → (fragArgs_m a = true ∧ ∀ D, initArgs_m D a = initArgs D a)
  | .nil, _ => ⟨by simp [fragArgs_m], fun D => by simp [initArgs, initArgs_m]⟩
  | .cons a r, h => by
    simp only [fragArgs, Bool.and_eq_true] at h
    have ha := fragE_sub a h.1
    have hr := fragArgs_sub r h.2
    exact ⟨by simp [fragArgs_m, ha.1, hr.1], fun D => by simp [initArgs, initArgs_m, ha.2, hr.2]⟩
end

mutual
theorem fragS_sub : ∀ (s : FStmt), fragS s = true → (fragS_m s = true ∧ ∀ D, initS_m D s = initS D s)
  | .letG l i e, h | .letL l i e, h | .expr l e, h | .ret l e, h => by
    simp only [fragS] at h
    have he := fragE_sub e h
    exact ⟨by simp [fragS_m, he.1], fun D => by simp [initS, initS_m, he.2]⟩
  | .breakS .., _ | .continueS .., _ | .retN _, _ => ⟨by simp [fragS_m], fun D => by simp [initS, initS_m]⟩
  | .block l b, h => by
    simp only [fragS] at h
    have hb := fragP_sub b h
    exact ⟨by simp [fragS_m, hb.1], fun D => by simp [initS, initS_m, hb.2]⟩
  | .loopS l lb b, h => by
    simp only [fragS] at h
    have hb := fragP_sub b h
    exact ⟨by simp [fragS_m, hb.1], fun D => by simp [initS, initS_m, hb.2]⟩
  | .whileS l lb c b, h => by
    simp only [fragS, Bool.and_eq_true] at h
    have hc := fragE_sub c h.1
    have hb := fragP_sub b h.2
    exact ⟨by simp [fragS_m, hc.1, hb.1], fun D => by simp [initS, initS_m, hc.2, hb.2]⟩
  | .ifS ls l c t e, h => by
    simp only [fragS, Bool.and_eq_true] at h
    have hc := fragE_sub c h.1.1
    have ht := fragP_sub t h.1.2
    have he := fragP_sub e h.2
    exact ⟨by simp [fragS_m, hc.1, ht.1, he.1], fun D => by simp [initS, initS_m, hc.2, ht.2, he.2]⟩
theorem fragP_sub : ∀ (ss : List FStmt), fragP ss = true → (fragP_m ss = true ∧ ∀ D, initP_m D ss = initP D ss)
  | [], _ => ⟨by simp [fragP_m], fun D => by simp [initP, initP_m]⟩
  | s :: r, h => by
    simp only [fragP, Bool.and_eq_true] at h
    have hs := fragS_sub s h.1
    have hr := fragP_sub r h.2
    exact ⟨by simp [fragP_m, hs.1, hr.1], fun D => by rw [initP_cons, initP_cons_m, hs.2, hr.2]⟩
end

theorem fragT_sub : ∀ (T : List FTop), fragT T = true → (fragT_m T = true ∧ initT_m T = initT T)
  | [], _ => ⟨rfl, rfl⟩
  | .stmt s :: r, h => by
    simp only [fragT, Bool.and_eq_true] at h
    have hs := fragS_sub s h.1
    have hr := fragT_sub r h.2
    exact ⟨by simp [fragT_m, hs.1, hr.1], by simp [initT, initT_m, hs.2, hr.2]⟩
  | .fnDef .. :: r, h => by
    simp only [fragT] at h
    have hr := fragT_sub r h
    exact ⟨by simp [fragT_m, hr.1], by simp [initT, initT_m, hr.2]⟩
  | .fnSet .. :: r, h => by
    simp only [fragT] at h
    have hr := fragT_sub r h
    exact ⟨by simp [fragT_m, hr.1], by simp [initT, initT_m, hr.2]⟩

/-- `FnChain`'s fragment is inside this file's, and on it the two definedness checks agree: `program_vm_fn_m`
subsumes `program_vm_fn` -/
theorem fragOKm_of_fragOK {T : List FTop} (h : fragOK T = true) : fragOKm T = true ∧ initOK_m T = initOK T := by
  simp only [fragOK, Bool.and_eq_true, List.all_eq_true, decide_eq_true_eq] at h
  have hT := fragT_sub T h.1
  refine ⟨?_, ?_⟩
  · simp only [fragOKm, Bool.and_eq_true, List.all_eq_true, decide_eq_true_eq]
    exact ⟨hT.1, fun x hx => ⟨(fragP_sub _ (h.2 x hx).1).1, (h.2 x hx).2⟩⟩
  · simp only [initOK_m, initOK, hT.2]
    congr 1
    rw [Bool.eq_iff_iff]
    simp only [List.all_eq_true]
    constructor
    · intro hh x hx
      rw [← (fragP_sub _ (h.2 x hx).1).2]
      exact hh x hx
    · intro hh x hx
      rw [(fragP_sub _ (h.2 x hx).1).2]
      exact hh x hx

/-! ## non-vacuity -/

namespace ExampleM
open P2sh.FnVm.Example (argsOf)

/-- `fn f(n) { match n { 0 => 10, 1..=3 | 9 => 20, _ => 40 } }` — a literal pattern, an inclusive range and a
literal in one arm, the default arm -/
def fD : FDecl := ⟨1, 1,
  [.expr 1 (.matchE 1 (.lget 1 0)
     (.cons 1 [.lit 1 (.int 0)] (.lit 1 (.int 10))
     (.cons 1 [.range 1 true (.int 1) (.int 3), .lit 1 (.int 9)] (.lit 1 (.int 20))
     (.last 1 1 (.lit 1 (.int 40))))))], 1⟩
def fC : List Nat × List Nat := fnTop 0 fD

/-- `fn f(n) {…}  let r = f(2);  let s = f(7);  let t = match true { false => 1, _ => 2 };` -/
def prog : List FTop :=
  [.fnDef 1 0 fC.1 fC.2 fD,
   .stmt (.letG 2 1 (.call 2 (.gget 2 0) (argsOf [.lit 2 (.int 2)]))),
   .stmt (.letG 3 2 (.call 3 (.gget 3 0) (argsOf [.lit 3 (.int 7)]))),
   .stmt (.letG 4 3 (.matchE 4 (.tru 4) (.cons 4 [.bool 4 false] (.lit 4 (.int 1)) (.last 4 4 (.lit 4 (.int 2))))))]

/-- the function's code: the match template (`Dup; Constant; NotEqual / GreaterEq / Greater; JumpIfFalse`) -/
example : (codesT 0 prog).map (·.2) =
    [[.getLocal 0,
      .dup, .const 0, .op .notEqual, .jif 13, .jump 20, .pop, .const 1, .jump 64,
      .dup, .const 2, .op .greaterEq, .jif 36, .dup, .const 3, .op .greater, .jif 47,
      .dup, .const 4, .op .notEqual, .jif 47, .jump 54, .pop, .const 5, .jump 64,
      .jump 60, .jump 64, .pop, .const 6, .retv]] := by rfl

/-- `FnChain`'s fragment rejects the program, this file's accepts it -/
example : fragOK prog = false ∧ fragOKm prog = true ∧ initOK_m prog = true := ⟨by rfl, by rfl, by rfl⟩
example : fits prog 40 := by decide

def exMain : FnDef := ⟨Core.encode (compileT 0 0 prog), List.replicate (Core.encode (compileT 0 0 prog)).length 1, 0, 0, 0⟩

/-- **the main theorem, instantiated on a program with `match`**: `Vm.run` on the encoded program ends normally,
`r = 20` (range arm), `s = 40` (default arm), `t = 2`; every hypothesis by `rfl` / `decide` -/
theorem match_run : ∃ fuel vs', Vm.run exMain (constsT prog) fuel = (.ok (), vs') ∧
      CoreVm.GRel vs'.globals [.clos (mkFd fC.1 fC.2 fD) [] 1, .int 20, .int 40, .int 2] ∧ vs'.sp = 0 ∧ vs'.frames.length = 1 :=
  program_vm_fn_m prog 40 4 {} {} _ [[], []] (by rfl) (by rfl) (by rfl) (by decide) exMain rfl (by simp [exMain]) (by decide) rfl (by decide)
    (FnVm.scalars_of_all rfl) (by decide)

/-- the checked run itself, executed: 63 steps of `dstep` (every `preOk` / `postOk` check passes) -/
example : ∃ k, checkedRun (constsT prog) (codeT prog) k (FnVm.progInit prog 4 {}, []) = true :=
  program_checkedRun_fn_m 40 prog 4 {} {} _ [[], []] (by rfl) (by rfl) (by rfl) (by decide)

/-- a slot read inside an arm before its `let` is rejected (`initE_m` descends into the arms) -/
def badD : FDecl := ⟨1, 2, [.expr 1 (.matchE 1 (.lget 1 0) (.cons 1 [.lit 1 (.int 0)] (.lget 1 1) (.last 1 1 (.lit 1 (.int 40)))))], 1⟩
example : initOK_m [.fnDef 1 0 (fnTop 0 badD).1 (fnTop 0 badD).2 badD] = false := by rfl

end ExampleM

#print axioms csound_all_m
#print axioms program_checked_fn_m
#print axioms program_checkedRun_fn_m
#print axioms program_vm_fn_m
#print axioms oracle_vm_fn_partial_m
#print axioms ExampleM.match_run

end P2sh.FnChain
