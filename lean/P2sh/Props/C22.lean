import P2sh.Model.IoFaults
/-!
# C22 — operating-system I/O failures become error objects, not crashes

Model: `P2sh.IoFaults` (each builtin = phases of OS calls answered by an arbitrary fault oracle).

* `os_fault_is_error_object` — for all eleven builtins (`open read read_line read_to_string write
  flush pcap_open pcap_stream pcap_read_next pcap_read_all pcap_write`), all arguments and handle
  kinds, every handle state (`Params`) and every fault oracle: if some OS call made by the builtin
  fails, the builtin returns `Ok(error object)` carrying a failure the oracle produced — never a
  panic, never a runtime error;
* `no_panic` — whatever happens, no builtin call of the model panics;
* `script_continues` — a call whose outcome is an error object does not end the script.

Each theorem is followed by a closed `example` showing that it is not vacuous.

History: before e9b7dd0 (`flush`: `expect`), 4ce3547 (`pcap_open`: "unsupported argument") and
13af4ce (`write` to stdout/stderr: `print!`) the first statement failed for those three builtins.
-/
namespace P2sh.Props.C22
set_option linter.unusedSimpArgs false
open P2sh P2sh.IoFaults

theorem calls_spec (o : Oracle) (cont : Bytes → Bool) :
    ∀ (fuel i : Nat), i ≤ (calls o cont fuel i).2 ∧
      ((calls o cont fuel i).1 = none → ∀ j, i ≤ j → j < (calls o cont fuel i).2 → ∃ d, o j = .ok d) := by
  intro fuel
  induction fuel with
  | zero => intro i; simp only [calls]; exact ⟨Nat.le_refl _, fun _ j h1 h2 => by omega⟩
  | succ fuel ih =>
    intro i
    simp only [calls]
    cases h : o i with
    | error e => simp
    | ok d =>
      simp only []
      split
      · obtain ⟨h1, h2⟩ := ih (i + 1)
        refine ⟨by omega, fun hn j hj1 hj2 => ?_⟩
        by_cases hji : j = i
        · subst hji; exact ⟨d, h⟩
        · exact h2 hn j (by omega) hj2
      · refine ⟨by omega, fun _ j hj1 hj2 => ?_⟩
        have : j = i := by omega
        subst this; exact ⟨d, h⟩

theorem runPhases_spec (o : Oracle) (final : Outcome) :
    ∀ (phs : List Phase) (i : Nat), (∀ ph ∈ phs, ph.onFault = .errorObject) →
      i ≤ (runPhases o final phs i).2 ∧
      ((∀ j, i ≤ j → j < (runPhases o final phs i).2 → ∃ d, o j = .ok d) ∨
        ∃ e, (runPhases o final phs i).1 = .ok (.errObj e)) := by
  intro phs
  induction phs with
  | nil => intro i _; simp only [runPhases]; exact ⟨Nat.le_refl _, Or.inl (fun j h1 h2 => by omega)⟩
  | cons p ps ih =>
    intro i hc
    have hp : p.onFault = .errorObject := hc p (List.mem_cons_self)
    have hps : ∀ ph ∈ ps, ph.onFault = .errorObject := fun ph h => hc ph (List.mem_cons_of_mem _ h)
    obtain ⟨hle, hok⟩ := calls_spec o p.cont p.fuel i
    simp only [runPhases]
    cases h : calls o p.cont p.fuel i with
    | mk r n =>
      rw [h] at hle hok
      cases r with
      | some e => exact ⟨hle, Or.inr ⟨e, by simp [hp, OnFault.outcome]⟩⟩
      | none =>
        obtain ⟨hle2, h2⟩ := ih n hps
        simp only [] at hle hok ⊢
        refine ⟨by omega, ?_⟩
        rcases h2 with h2 | h2
        · refine Or.inl (fun j hj1 hj2 => ?_)
          by_cases hjn : j < n
          · exact hok trivial j hj1 hjn
          · exact h2 j (by omega) hj2
        · exact Or.inr h2

/-- every phase of every builtin reports a failure as an error object -/
theorem conforming (p : Params) (c : Call) : ∀ ph ∈ (program p c).1, ph.onFault = .errorObject := by
  intro ph hph
  cases c with
  | «open» mode => simp only [program] at hph; split at hph <;> simp_all
  | read hd => cases hd <;> simp_all [program]
  | readLine hd => cases hd <;> simp_all [program]
  | readToString hd => cases hd <;> simp_all [program]
  | write hd packet => cases hd <;> simp_all [program]
  | flush hd => cases hd <;> simp_all [program]
  | pcapOpen mode =>
    simp only [program] at hph
    split at hph
    · split at hph
      · simp at hph; rcases hph with rfl | rfl <;> rfl
      · split at hph <;> simp at hph <;> subst hph <;> rfl
    · simp at hph
  | pcapStream hd => cases hd <;> simp_all [program]
  | pcapReadNext hd => cases hd <;> simp_all [program]
  | pcapReadAll hd => cases hd <;> simp_all [program]
  | pcapWrite hd => cases hd <;> simp_all [program]

/-- **os_fault_is_error_object**: all eleven builtins, all arguments, all handle states, all fault
oracles — if an OS call of the builtin fails, the builtin returns `Ok(error object)` -/
theorem os_fault_is_error_object (p : Params) (c : Call) (o : Oracle)
    (hf : ∃ i, i < (run p c o).2 ∧ ∃ e, o i = .error e) :
    ∃ e, (run p c o).1 = .ok (.errObj e) := by
  obtain ⟨i, hi, e, he⟩ := hf
  obtain ⟨_, h⟩ := runPhases_spec o (program p c).2 (program p c).1 0 (conforming p c)
  rcases h with h | h
  · obtain ⟨d, hd⟩ := h i (Nat.zero_le _) hi
    rw [he] at hd; cases hd
  · exact h

def failing (e : IoErr) : Oracle := fun _ => .error e
def failAt (k : Nat) (e : IoErr) : Oracle := fun i => if i = k then .error e else .ok [0]

/-- non-vacuity: the hypothesis is met and the conclusion is the expected error object for the
three builtins that used to crash, and for a failure in the middle of a read loop -/
example :
    run { osWrites := 1 } (.flush .writer) (failing .enospc) = (.ok (.errObj .enospc), 1) ∧
    run {} (.pcapOpen "r") (failing .enoent) = (.ok (.errObj .enoent), 1) ∧
    run { osWrites := 1 } (.write .stdout false) (failing .enospc) = (.ok (.errObj .enospc), 1) ∧
    run { fuel := 5 } (.pcapReadAll .reader) (failAt 2 .eio) = (.ok (.errObj .eio), 3) ∧
    (∃ i, i < (run { fuel := 5 } (.pcapReadAll .reader) (failAt 2 .eio)).2 ∧ ∃ e, failAt 2 .eio i = .error e) := by
  refine ⟨by decide, by decide, by decide, by decide, 2, by decide, .eio, rfl⟩

theorem runPhases_no_panic (o : Oracle) (final : Outcome) (hfin : ∀ m, final ≠ .panic m) :
    ∀ (phs : List Phase) (i : Nat), (∀ ph ∈ phs, ph.onFault = .errorObject) →
      ∀ m, (runPhases o final phs i).1 ≠ .panic m := by
  intro phs
  induction phs with
  | nil => intro i _ m; simpa [runPhases] using hfin m
  | cons p ps ih =>
    intro i hc m
    have hp : p.onFault = .errorObject := hc p (List.mem_cons_self)
    simp only [runPhases]
    cases h : calls o p.cont p.fuel i with
    | mk r n =>
      cases r with
      | some e => simp [hp, OnFault.outcome]
      | none => exact ih n (fun ph h => hc ph (List.mem_cons_of_mem _ h)) m

theorem final_no_panic (p : Params) (c : Call) : ∀ m, (program p c).2 ≠ .panic m := by
  intro m
  cases c with
  | «open» mode => simp only [program]; split <;> simp
  | read hd => cases hd <;> simp [program]
  | readLine hd => cases hd <;> simp [program]
  | readToString hd => cases hd <;> simp [program]
  | write hd packet => cases hd <;> simp [program]
  | flush hd => cases hd <;> simp [program]
  | pcapOpen mode => simp only [program]; split <;> (try split) <;> (try split) <;> simp
  | pcapStream hd => cases hd <;> simp [program]
  | pcapReadNext hd => cases hd <;> simp [program]
  | pcapReadAll hd => cases hd <;> simp [program]
  | pcapWrite hd => cases hd <;> simp [program]

/-- **no panic**: no call of any of the eleven builtins panics, whatever the oracle answers -/
theorem no_panic (p : Params) (c : Call) (o : Oracle) : ∀ m, (run p c o).1 ≠ .panic m :=
  runPhases_no_panic o _ (final_no_panic p c) _ 0 (conforming p c)

/-- non-vacuity: a wrong argument is still a runtime error (allowed: it is no OS failure) -/
example : run {} (.flush .reader) (failing .eio) = (.rterr "cannot flush this handle", 0) := by decide

/-- an error object does not end the script: the calls after it are still made -/
theorem script_continues (p : Params) (c : Call) (o : Oracle) (e : IoErr)
    (rest : List (Params × Call × Oracle)) (h : (run p c o).1 = .ok (.errObj e)) :
    runScript ((p, c, o) :: rest) = .ok (.errObj e) :: runScript rest := by
  simp [runScript, h]

/-- non-vacuity: a failing `pcap_open` followed by a failing `flush`: both reported, the script goes on -/
example : runScript [({}, .pcapOpen "r", failing .enoent), ({ osWrites := 1 }, .flush .stdout, failing .enospc)]
    = [.ok (.errObj .enoent), .ok (.errObj .enospc)] := by decide

end P2sh.Props.C22
