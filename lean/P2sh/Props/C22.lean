import P2sh.Model.IoFaults
/-!
# C22 — operating-system I/O failures become error objects, not crashes

Model: `P2sh.IoFaults` (each builtin = phases of OS calls answered by an arbitrary fault oracle).

* `os_fault_is_error_object_partial` — for the code as it is: whatever the oracle, the handle state
  (`Params`) and the arguments, if some OS call made by the builtin fails then the builtin returns
  `Ok(error object)` for that failure — for every call except the `Excluded` ones;
* the excluded calls really misbehave: `flush_panics` (`expect`), `pcap_open_rterr` (the error
  object of `open` becomes the runtime error "unsupported argument"), `write_stdout_panics`
  (`print!`/`eprint!` on a failing stdout/stderr);
* `os_fault_is_error_object_fixed` — with the proposed repairs (`program Fixes.all`) the statement holds
  for all eleven builtins, all arguments, all oracles;
* `pcap_open_header_fault` — `pcap_open` does turn a failure *after* the open (reading the header)
  into an error object, also today;
* `script_continues` — a call whose outcome is an error object does not end the script.
-/
namespace P2sh.Props.C22
set_option linter.unusedSimpArgs false
open P2sh P2sh.IoFaults

theorem calls_spec (o : Oracle) (cont : Bytes → Bool) :
    ∀ (fuel i : Nat), i ≤ (calls o cont fuel i).2 ∧
      ((calls o cont fuel i).1 = none → ∀ j, i ≤ j → j < (calls o cont fuel i).2 → ∃ d, o j = .ok d) := by
  intro fuel
  induction fuel with
  | zero => intro i; simp only [calls]; exact ⟨Nat.le_refl _, fun _ j h1 h2 => by omega⟩
  | succ fuel ih =>
    intro i
    simp only [calls]
    cases h : o i with
    | error e => simp
    | ok d =>
      simp only []
      split
      · obtain ⟨h1, h2⟩ := ih (i + 1)
        refine ⟨by omega, fun hn j hj1 hj2 => ?_⟩
        by_cases hji : j = i
        · subst hji; exact ⟨d, h⟩
        · exact h2 hn j (by omega) hj2
      · refine ⟨by omega, fun _ j hj1 hj2 => ?_⟩
        have : j = i := by omega
        subst this; exact ⟨d, h⟩

theorem runPhases_spec (o : Oracle) (final : Outcome) :
    ∀ (phs : List Phase) (i : Nat), (∀ ph ∈ phs, ph.onFault = .errorObject) →
      i ≤ (runPhases o final phs i).2 ∧
      ((∀ j, i ≤ j → j < (runPhases o final phs i).2 → ∃ d, o j = .ok d) ∨
        ∃ e, (runPhases o final phs i).1 = .ok (.errObj e)) := by
  intro phs
  induction phs with
  | nil => intro i _; simp only [runPhases]; exact ⟨Nat.le_refl _, Or.inl (fun j h1 h2 => by omega)⟩
  | cons p ps ih =>
    intro i hc
    have hp : p.onFault = .errorObject := hc p (List.mem_cons_self)
    have hps : ∀ ph ∈ ps, ph.onFault = .errorObject := fun ph h => hc ph (List.mem_cons_of_mem _ h)
    obtain ⟨hle, hok⟩ := calls_spec o p.cont p.fuel i
    simp only [runPhases]
    cases h : calls o p.cont p.fuel i with
    | mk r n =>
      rw [h] at hle hok
      cases r with
      | some e => exact ⟨hle, Or.inr ⟨e, by simp [hp, OnFault.outcome]⟩⟩
      | none =>
        obtain ⟨hle2, h2⟩ := ih n hps
        simp only [] at hle hok ⊢
        refine ⟨by omega, ?_⟩
        rcases h2 with h2 | h2
        · refine Or.inl (fun j hj1 hj2 => ?_)
          by_cases hjn : j < n
          · exact hok trivial j hj1 hjn
          · exact h2 j (by omega) hj2
        · exact Or.inr h2

/-- every phase of the call reports a failure as an error object -/
def Conforming (fx : Fixes) (p : Params) (c : Call) : Prop :=
  ∀ ph ∈ (program fx p c).1, ph.onFault = .errorObject

theorem fault_is_error_object_of_conforming (fx : Fixes) (p : Params) (c : Call) (o : Oracle)
    (hc : Conforming fx p c) (hf : ∃ i, i < (run fx p c o).2 ∧ ∃ e, o i = .error e) :
    ∃ e, (run fx p c o).1 = .ok (.errObj e) := by
  obtain ⟨i, hi, e, he⟩ := hf
  obtain ⟨_, h⟩ := runPhases_spec o (program fx p c).2 (program fx p c).1 0 hc
  rcases h with h | h
  · obtain ⟨d, hd⟩ := h i (Nat.zero_le _) hi
    rw [he] at hd; cases hd
  · exact h

/-- the calls whose failure handling is not an error object on the current code -/
def Excluded : Call → Prop
  | .flush h => h = .writer ∨ h = .stdout ∨ h = .stderr
  | .pcapOpen mode => validMode mode = true
  | .write h packet => (h = .stdout ∨ h = .stderr) ∧ packet = false
  | _ => False

theorem conforming_of_not_excluded (p : Params) (c : Call) (h : ¬ Excluded c) : Conforming {} p c := by
  intro ph hph
  cases c with
  | «open» mode => simp only [program] at hph; split at hph <;> simp_all
  | read hd => cases hd <;> simp_all [program]
  | readLine hd => cases hd <;> simp_all [program]
  | readToString hd => cases hd <;> simp_all [program]
  | write hd packet => cases hd <;> cases packet <;> simp_all [program, Excluded]
  | flush hd => cases hd <;> simp_all [program, Excluded]
  | pcapOpen mode =>
    simp only [Excluded] at h
    simp only [program] at hph
    simp_all
  | pcapStream hd => cases hd <;> simp_all [program]
  | pcapReadNext hd => cases hd <;> simp_all [program]
  | pcapReadAll hd => cases hd <;> simp_all [program]
  | pcapWrite hd => cases hd <;> simp_all [program]

/-- **os_fault_is_error_object (partial)**: on the current code, for every builtin call that is not
`Excluded`, every handle state and every fault oracle: if an OS call of the builtin fails, the
builtin returns `Ok(error object)` — never a panic, never a runtime error -/
theorem os_fault_is_error_object_partial (p : Params) (c : Call) (o : Oracle) (hex : ¬ Excluded c)
    (hf : ∃ i, i < (run {} p c o).2 ∧ ∃ e, o i = .error e) :
    ∃ e, (run {} p c o).1 = .ok (.errObj e) :=
  fault_is_error_object_of_conforming {} p c o (conforming_of_not_excluded p c hex) hf

theorem fixed_conforming (p : Params) (c : Call) : Conforming Fixes.all p c := by
  intro ph hph
  cases c with
  | «open» mode => simp only [program] at hph; split at hph <;> simp_all [Fixes.all]
  | read hd => cases hd <;> simp_all [program, Fixes.all]
  | readLine hd => cases hd <;> simp_all [program, Fixes.all]
  | readToString hd => cases hd <;> simp_all [program, Fixes.all]
  | write hd packet => cases hd <;> simp_all [program, Fixes.all]
  | flush hd => cases hd <;> simp_all [program, Fixes.all]
  | pcapOpen mode =>
    simp only [program, Fixes.all] at hph
    split at hph
    · split at hph
      · simp at hph; rcases hph with rfl | rfl <;> rfl
      · split at hph <;> simp at hph <;> subst hph <;> rfl
    · simp at hph
  | pcapStream hd => cases hd <;> simp_all [program, Fixes.all]
  | pcapReadNext hd => cases hd <;> simp_all [program, Fixes.all]
  | pcapReadAll hd => cases hd <;> simp_all [program, Fixes.all]
  | pcapWrite hd => cases hd <;> simp_all [program, Fixes.all]

/-- **os_fault_is_error_object** for the repaired builtins: all eleven, all arguments, all handle
states, all fault oracles -/
theorem os_fault_is_error_object_fixed (p : Params) (c : Call) (o : Oracle)
    (hf : ∃ i, i < (run Fixes.all p c o).2 ∧ ∃ e, o i = .error e) :
    ∃ e, (run Fixes.all p c o).1 = .ok (.errObj e) :=
  fault_is_error_object_of_conforming Fixes.all p c o (fixed_conforming p c) hf

/-- the full statement on the current code -/
def OsFaultIsErrorObject : Prop :=
  ∀ (p : Params) (c : Call) (o : Oracle), (∃ i, i < (run {} p c o).2 ∧ ∃ e, o i = .error e) →
    ∃ e, (run {} p c o).1 = .ok (.errObj e)

def failing (e : IoErr) : Oracle := fun _ => .error e

/-- **witness**: `flush(f)` of a writer whose buffered byte cannot be written (ENOSPC) panics -/
theorem flush_panics :
    run {} { osWrites := 1 } (.flush .writer) (failing .enospc) = (.panic "Failed to flush file", 1) := by
  decide

/-- **witness**: `pcap_open` of a missing file is the runtime error "unsupported argument" -/
theorem pcap_open_rterr :
    run {} {} (.pcapOpen "r") (failing .enoent) = (.rterr "unsupported argument", 1) := by
  decide

/-- **witness**: `write(stdout, byte(10))` on a stdout that cannot be written panics -/
theorem write_stdout_panics :
    run {} { osWrites := 1 } (.write .stdout false) (failing .enospc) = (.panic "failed printing to stdout", 1) := by
  decide

theorem os_fault_is_error_object_false : ¬ OsFaultIsErrorObject := by
  intro h
  have := h { osWrites := 1 } (.flush .writer) (failing .enospc) ⟨0, by decide, .enospc, rfl⟩
  rw [flush_panics] at this
  obtain ⟨e, he⟩ := this
  cases he

/-- `pcap_open(path)`: a failure while reading the header (after a successful open) is an error
object on the current code too -/
theorem pcap_open_header_fault (p : Params) (o : Oracle) (d : Bytes) (h0 : o 0 = .ok d)
    (hf : ∃ i, i < (run {} p (.pcapOpen "r") o).2 ∧ ∃ e, o i = .error e) :
    ∃ e, (run {} p (.pcapOpen "r") o).1 = .ok (.errObj e) := by
  have hprog : program {} p (.pcapOpen "r") =
      ([⟨1, fun _ => false, .runtimeError "unsupported argument"⟩, ⟨p.fuel, p.cont, .errorObject⟩], .ok p.final) := by
    simp [program, validMode]
  have hfirst : calls o (fun _ => false) 1 0 = (none, 1) := by simp [calls, h0]
  have hrun : run {} p (.pcapOpen "r") o = runPhases o (.ok p.final) [⟨p.fuel, p.cont, .errorObject⟩] 1 := by
    simp only [run, hprog, runPhases, hfirst]
  rw [hrun] at hf ⊢
  obtain ⟨i, hi, e, he⟩ := hf
  obtain ⟨_, h⟩ := runPhases_spec o (.ok p.final) [⟨p.fuel, p.cont, .errorObject⟩] 1 (by simp)
  rcases h with h | h
  · by_cases hi0 : i = 0
    · subst hi0; rw [h0] at he; cases he
    · obtain ⟨d', hd⟩ := h i (by omega) hi
      rw [he] at hd; cases hd
  · exact h

/-- an error object does not end the script: the calls after it are still made -/
theorem script_continues (fx : Fixes) (p : Params) (c : Call) (o : Oracle) (e : IoErr)
    (rest : List (Params × Call × Oracle)) (h : (run fx p c o).1 = .ok (.errObj e)) :
    runScript fx ((p, c, o) :: rest) = .ok (.errObj e) :: runScript fx rest := by
  simp [runScript, h]

end P2sh.Props.C22
