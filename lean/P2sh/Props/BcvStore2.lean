import P2sh.Props.BcvStore
/-!
# The store typing, part 2: how the state components may change, the primitives of the VM, and the opcodes
that only move values between stack, globals, locals and captured vectors
-/
namespace P2sh.Props.Bcv
open P2sh P2sh.Vm P2sh.Bcv P2sh.Code P2sh.Props.BcvWp P2sh.Props.BcvVals

section
variable {consts : List Val} {F : Nat → Prop} {T : Nat → Nat} {n : Nat} {s : St}

theorem SI.sinv (h : SI consts F T n s) : SInv consts s := ⟨F, T, n, h⟩

/-! ## value lemmas -/

theorem cc_grow {n n' : Nat} (hn : n ≤ n') : ∀ id, CC F n id → CC F n' id :=
  fun _ h => ⟨Nat.lt_of_lt_of_le h.1 hn, h.2⟩

theorem vs_grow {n' : Nat} {v : Val} (hn : n ≤ n') (hv : VS consts F T n v) : VS consts F T n' v :=
  vok_mono (fun _ _ x => x) (cc_grow hn) hv

theorem vs_set!_getD {a : Array Val} {i : Nat} {v : Val} (ha : ∀ j, VS consts F T n (a.getD j .null))
    (hv : VS consts F T n v) : ∀ j, VS consts F T n ((a.set! i v).getD j .null) := by
  intro j
  have hj := ha j
  simp only [Array.getD_eq_getD_getElem?, Array.set!_eq_setIfInBounds, Array.getElem?_setIfInBounds] at hj ⊢
  split
  · split
    · simpa using hv
    · simp
  · exact hj

theorem vsL_range (h : SI consts F T n s) (k b : Nat) :
    VOkL (PP consts F T) (CC F n) ((List.range k).map fun i => s.stack.getD (b + i) .null) :=
  vokL_map_of_forall (fun _ => h.stack _)

theorem getArr_congr {h h' : Heap} {id : Nat} (e : h'.get? id = h.get? id) : h'.getArr id = h.getArr id := by
  unfold Heap.getArr; rw [e]

theorem getArr_set_arr_length (h : Heap) (id : Nat) (ys : List Val) (hl : ys.length = (h.getArr id).length) :
    ((h.set id (.arr ys)).getArr id).length = (h.getArr id).length := by
  cases hg : h.get? id with
  | none => simp only [Heap.getArr, get?_set_none hg, hg]
  | some o0 =>
    have : (h.set id (.arr ys)).getArr id = ys := by simp only [Heap.getArr, get?_set_same hg]
    rw [this, hl]

theorem vokP_zip_map {P : FnDef → Nat → Prop} {C : Nat → Prop} {xs ys : List (Val × Val)} (hx : VOkP P C xs)
    (hy : VOkP P C ys) : VOkP P C ((xs.zip ys).map (fun x => (x.1.1, x.2.2))) := by
  rw [vokP_iff] at *
  intro p hp
  obtain ⟨q, hq, rfl⟩ := List.mem_map.1 hp
  obtain ⟨q1, q2⟩ := q
  have := List.of_mem_zip hq
  exact ⟨(hx _ this.1).1, (hy _ this.2).2⟩

/-! ## updates of the state that keep the typing -/

theorem SI.setSp (h : SI consts F T n s) (k : Nat) : SI consts F T n { s with sp := k } :=
  ⟨h.nx, h.wf, h.pos, h.f0, h.hok, h.fs, h.stack, h.globals, h.cst, h.frames⟩

theorem SI.setStack (h : SI consts F T n s) {v : Val} (hv : VS consts F T n v) (i : Nat) :
    SI consts F T n { s with stack := s.stack.set! i v } :=
  ⟨h.nx, h.wf, h.pos, h.f0, h.hok, h.fs, vs_set!_getD h.stack hv, h.globals, h.cst, h.frames⟩

theorem SI.pushed (h : SI consts F T n s) {v : Val} (hv : VS consts F T n v) :
    SI consts F T n { s with stack := s.stack.set! s.sp v, sp := s.sp + 1 } :=
  ⟨h.nx, h.wf, h.pos, h.f0, h.hok, h.fs, vs_set!_getD h.stack hv, h.globals, h.cst, h.frames⟩

theorem SI.setGlobals (h : SI consts F T n s) {v : Val} (hv : VS consts F T n v) (i : Nat) :
    SI consts F T n { s with globals := s.globals.set! i v } :=
  ⟨h.nx, h.wf, h.pos, h.f0, h.hok, h.fs, h.stack, vs_set!_getD h.globals hv, h.cst, h.frames⟩

theorem SI.setFrames (h : SI consts F T n s) {fs : List Frame} (hf : FramesOk (PP consts F T) fs) :
    SI consts F T n { s with frames := fs } :=
  ⟨h.nx, h.wf, h.pos, h.f0, h.hok, h.fs, h.stack, h.globals, h.cst, hf⟩

theorem SI.ipSet (h : SI consts F T n s) (ip : Nat) : SI consts F T n (withIp ip s) := by
  unfold BcvWp.withIp
  split
  · rename_i f rest hfr
    refine h.setFrames ?_
    have := h.frames
    rw [hfr] at this
    exact this
  · exact h

theorem SI.grow (h : SI consts F T n s) {h' : Heap} {n' : Nat} (hn : n ≤ n') (hnx : h'.next = n') (hw : HeapWf h')
    (hk : HeapOk (PP consts F T) (CC F n') h') (hold : ∀ id, id < n → h'.get? id = s.heap.get? id) :
    SI consts F T n' { s with heap := h' } := by
  refine ⟨hnx, hw, Nat.lt_of_lt_of_le h.pos hn, h.f0, hk, ?_, fun i => vs_grow hn (h.stack i),
    fun i => vs_grow hn (h.globals i), fun i c hc => vs_grow hn (h.cst i c hc), h.frames⟩
  intro id hF
  obtain ⟨hlt, hlen⟩ := h.fs id hF
  refine ⟨Nat.lt_of_lt_of_le hlt hn, ?_⟩
  show T id ≤ (h'.getArr id).length
  rw [getArr_congr (hold id hlt)]; exact hlen

theorem SI.reflected (h : SI consts F T n s) {v : Val} (hv : VS consts F T n v) (d : Nat) :
    ∃ n', n ≤ n' ∧ SI consts F T n' { s with heap := (reflect s.heap d v).1 } ∧
      VS consts F T n' (reflect s.heap d v).2 := by
  have hnew : ∀ id, s.heap.next ≤ id → id < (reflect s.heap d v).1.next → CC F (reflect s.heap d v).1.next id := by
    intro id h1 h2
    refine ⟨h2, fun hF => ?_⟩
    have := (h.fs id hF).1
    rw [h.nx] at h1
    omega
  have hle : n ≤ (reflect s.heap d v).1.next := by
    have := reflect_next_le d s.heap v
    rw [h.nx] at this; exact this
  obtain ⟨h1, h2, h3, _, h5⟩ := reflect_specB (C' := CC F (reflect s.heap d v).1.next) h.wf h.hok hv (cc_grow hle) hnew
  refine ⟨_, hle, h.grow hle rfl h3 h2 ?_, h1⟩
  intro id hid
  exact h5 id (by rw [h.nx]; exact hid)

theorem SI.alloced (h : SI consts F T n s) {o : HObj} (ho : ObjOk (PP consts F T) (CC F n) o) :
    SI consts F T (n + 1) { s with heap := (s.heap.alloc o).1 } ∧ CC F (n + 1) n := by
  refine ⟨h.grow (Nat.le_succ _) (by rw [alloc_next, h.nx]) (heapWf_alloc h.wf) ?_ ?_, Nat.lt_succ_self _, ?_⟩
  · exact heapOk_alloc (heapOk_mono (fun _ _ x => x) (cc_grow (Nat.le_succ _)) h.hok)
      (objOk_mono (fun _ _ x => x) (cc_grow (Nat.le_succ _)) ho)
  · intro id hid
    exact get?_alloc_old h.wf (by rw [h.nx]; exact hid)
  · intro hF
    exact Nat.lt_irrefl _ (h.fs n hF).1

theorem SI.heapSet (h : SI consts F T n s) {id : Nat} {o : HObj} (ho : ObjOk (PP consts F T) (CC F n) o)
    (hlen : F id → T id ≤ ((s.heap.set id o).getArr id).length) : SI consts F T n { s with heap := s.heap.set id o } := by
  refine ⟨h.nx, heapWf_set h.wf, h.pos, h.f0, heapOk_set h.hok ho, ?_, h.stack, h.globals, h.cst, h.frames⟩
  intro id' hF
  refine ⟨(h.fs id' hF).1, ?_⟩
  show T id' ≤ ((s.heap.set id o).getArr id').length
  by_cases e : id' = id
  · subst e; exact hlen hF
  · rw [getArr_congr (get?_set_other e)]; exact (h.fs id' hF).2

/-- a container identity carried by a well-typed value is not a captured vector -/
theorem notF_of_cid (h : SI consts F T n s) {id : Nat} (hc : id = 0 ∨ CC F n id) : ¬ F id := by
  rcases hc with rfl | hc
  · exact h.f0
  · exact hc.2

/-- `Closure`: a new captured vector is registered -/
theorem SI.closure (h : SI consts F T n s) {free : List Val} (hfree : VOkL (PP consts F T) (CC F n) free) :
    SI consts (fun id => F id ∨ id = n) (fun id => if id = n then free.length else T id) (n + 1)
      { s with heap := (s.heap.alloc (.arr free)).1 } ∧
    (∀ v, VS consts F T n v → VS consts (fun id => F id ∨ id = n) (fun id => if id = n then free.length else T id) (n + 1) v) := by
  have hP : ∀ g id, PP consts F T g id → PP consts (fun id => F id ∨ id = n) (fun id => if id = n then free.length else T id) g id := by
    intro g id ⟨h1, h2, h3⟩
    refine ⟨h1, Or.inl h2, ?_⟩
    have : id ≠ n := Nat.ne_of_lt (h.fs id h2).1
    simp only [this, if_false]; exact h3
  have hC : ∀ id, CC F n id → CC (fun id => F id ∨ id = n) (n + 1) id := by
    intro id ⟨h1, h2⟩
    refine ⟨Nat.lt_succ_of_lt h1, ?_⟩
    rintro (h3 | h3)
    · exact h2 h3
    · omega
  have hV : ∀ v, VS consts F T n v → VS consts (fun id => F id ∨ id = n) (fun id => if id = n then free.length else T id) (n + 1) v :=
    fun v hv => vok_mono hP hC hv
  refine ⟨⟨by rw [alloc_next, h.nx], heapWf_alloc h.wf, Nat.succ_pos _, ?_, ?_, ?_, fun i => hV _ (h.stack i),
    fun i => hV _ (h.globals i), fun i c hc => hV _ (h.cst i c hc), ?_⟩, hV⟩
  · rintro (h0 | h0)
    · exact h.f0 h0
    · have := h.pos; omega
  · exact heapOk_alloc (heapOk_mono hP hC h.hok) (vokL_mono hP hC hfree)
  · rintro id (hF | rfl)
    · obtain ⟨hlt, hlen⟩ := h.fs id hF
      have hne : id ≠ n := Nat.ne_of_lt hlt
      refine ⟨Nat.lt_succ_of_lt hlt, ?_⟩
      simp only [hne, if_false]
      show T id ≤ ((s.heap.alloc (.arr free)).1.getArr id).length
      rw [getArr_congr (get?_alloc_old h.wf (by rw [h.nx]; exact hlt))]; exact hlen
    · refine ⟨Nat.lt_succ_self _, ?_⟩
      simp only [if_true]
      show free.length ≤ ((s.heap.alloc (.arr free)).1.getArr id).length
      have : (s.heap.alloc (.arr free)).1.getArr id = free := by
        unfold Heap.getArr; rw [← h.nx, get?_alloc_new]
      rw [this]; exact Nat.le_refl _
  · have : ∀ fs, FramesOk (PP consts F T) fs → FramesOk (PP consts (fun id => F id ∨ id = n) (fun id => if id = n then free.length else T id)) fs := by
      intro fs
      induction fs with
      | nil => intro _; trivial
      | cons f rest ih => intro hf; exact ⟨fun hr => hP _ _ (hf.1 hr), ih hf.2⟩
    exact this _ h.frames

/-! ## the primitives -/

theorem si_pop (h : SI consts F T n s) (line : Nat) :
    wpl (pop line) (fun v s' => SI consts F T n s' ∧ VS consts F T n v) s := by
  rw [wpl_pop]; intro _; exact ⟨h.setSp _, h.stack _⟩

theorem si_push (h : SI consts F T n s) {v : Val} (hv : VS consts F T n v) (line : Nat) :
    wpl (push v line) (fun _ s' => SI consts F T n s') s := by
  rw [wpl_push]; intro _; exact h.pushed hv

theorem si_peek0 (h : SI consts F T n s) :
    wpl (peek 0) (fun v s' => SI consts F T n s' ∧ VS consts F T n v) s := by
  rw [wpl_peek0]
  refine ⟨h, ?_⟩
  split
  · exact vok_null
  · exact h.stack _

theorem si_top0 (h : SI consts F T n s) (line : Nat) :
    wpl (top 0 line) (fun v s' => SI consts F T n s' ∧ VS consts F T n v) s := by
  rw [wpl_top0]; intro _; exact ⟨h, h.stack _⟩

theorem si_setIp (h : SI consts F T n s) (ip : Nat) : wpl (setIp ip) (fun _ s' => SI consts F T n s') s := by
  rw [wpl_setIp]; exact h.ipSet ip

theorem si_reifyM (h : SI consts F T n s) {v : Val} (hv : VS consts F T n v) :
    wpl (reifyM v) (fun v' s' => SI consts F T n s' ∧ VS consts F T n v') s := by
  rw [wpl_reifyM]; exact ⟨h, vok_reify h.hok _ _ hv⟩

theorem si_reflectM (h : SI consts F T n s) {v : Val} (hv : VS consts F T n v) :
    wpl (reflectM v) (fun v' s' => ∃ n', n ≤ n' ∧ SI consts F T n' s' ∧ VS consts F T n' v') s := by
  rw [wpl_reflectM]; exact h.reflected hv _

theorem si_ofOpRes (h : SI consts F T n s) (line : Nat) (r : OpRes) (hr : ∀ v, r = .ok v → VS consts F T n v) :
    wpl (ofOpRes line r) (fun v' s' => ∃ n', n ≤ n' ∧ SI consts F T n' s' ∧ VS consts F T n' v') s := by
  rw [wpl_ofOpRes]
  cases r with
  | ok v => exact h.reflected (hr v rfl) _
  | err m => trivial
  | panic m => trivial

theorem si_curFrame (h : SI consts F T n s) : wpl curFrame (fun _ s' => SI consts F T n s') s := by
  rw [wpl_curFrame']; split <;> first | exact h | trivial

end

/-- one step of a Hoare-style chain -/
macro "wstep" t:term : tactic =>
  `(tactic| first | refine wpl_mono $t ?_ | (rw [wpl_bind]; refine wpl_mono $t ?_))
/-- close a chain: the remaining computation is `pure _` (possibly already simplified away) -/
macro "wfin" t:term : tactic =>
  `(tactic| first | exact $t | (rw [wpl_pure]; exact $t) | (simp only [wpl_bind, wpl_pure]; exact $t))

section
variable {consts : List Val} {F : Nat → Prop} {T : Nat → Nat} {n : Nat} {s : St}

theorem si_binaryVm (h : SI consts F T n s) (k : BinKind) (line : Nat) :
    wpl (binaryVm k line) (fun _ s' => SInv consts s') s := by
  unfold binaryVm
  wstep (si_pop h line); rintro r s1 ⟨h1, hr⟩
  wstep (si_pop h1 line); rintro l s2 ⟨h2, hl⟩
  simp only [wpl_bind, wpl_reifyM]
  refine wpl_mono (si_ofOpRes h2 line _ ?_) ?_
  · intro v hv; exact vok_binaryOp (vok_reify h2.hok _ _ hl) (vok_reify h2.hok _ _ hr) hv
  · rintro v s3 ⟨n', _, h3, hv⟩
    refine wpl_mono (si_push h3 hv line) ?_
    intro _ s4 h4; exact h4.sinv

theorem si_bitwiseVm (h : SI consts F T n s) (op : BitOp) (line : Nat) :
    wpl (bitwiseVm op line) (fun _ s' => SInv consts s') s := by
  unfold bitwiseVm
  wstep (si_pop h line); rintro r s1 ⟨h1, hr⟩
  wstep (si_pop h1 line); rintro l s2 ⟨h2, hl⟩
  wstep (si_ofOpRes h2 line _ ?_)
  · intro v hv; exact vok_bitwiseOp hl hr hv
  · rintro v s3 ⟨n', _, h3, hv⟩
    refine wpl_mono (si_push h3 hv line) ?_
    intro _ s4 h4; exact h4.sinv

end

/-! ## opcodes -/

section
variable {consts : List Val} {F : Nat → Prop} {T : Nat → Nat} {n : Nat} {s : St} {op : Nat} {code : List Nat}
  {ip line : Nat}

set_option quotPrecheck false in
local notation "NM" => (P2sh.Gen.Opcodes.names[op]?).getD "Invalid"
set_option quotPrecheck false in
local notation "GOAL" => wpl (step op code ip line) (fun _ s' => SInv consts s') s

set_option hygiene false in
macro "s_bin" : tactic => `(tactic| (
  unfold step; simp only [hnm]
  wstep (si_binaryVm h _ line); intro _ s' h'; wfin h'))

set_option hygiene false in
macro "s_bit" : tactic => `(tactic| (
  unfold step; simp only [hnm]
  wstep (si_bitwiseVm h _ line); intro _ s' h'; wfin h'))

theorem s_Add (h : SI consts F T n s) (hnm : NM = "Add") : GOAL := by s_bin
theorem s_Sub (h : SI consts F T n s) (hnm : NM = "Sub") : GOAL := by s_bin
theorem s_Mul (h : SI consts F T n s) (hnm : NM = "Mul") : GOAL := by s_bin
theorem s_Div (h : SI consts F T n s) (hnm : NM = "Div") : GOAL := by s_bin
theorem s_Mod (h : SI consts F T n s) (hnm : NM = "Mod") : GOAL := by s_bin
theorem s_Greater (h : SI consts F T n s) (hnm : NM = "Greater") : GOAL := by s_bin
theorem s_GreaterEq (h : SI consts F T n s) (hnm : NM = "GreaterEq") : GOAL := by s_bin
theorem s_And (h : SI consts F T n s) (hnm : NM = "And") : GOAL := by s_bit
theorem s_Or (h : SI consts F T n s) (hnm : NM = "Or") : GOAL := by s_bit
theorem s_Xor (h : SI consts F T n s) (hnm : NM = "Xor") : GOAL := by s_bit
theorem s_ShiftLeft (h : SI consts F T n s) (hnm : NM = "ShiftLeft") : GOAL := by s_bit
theorem s_ShiftRight (h : SI consts F T n s) (hnm : NM = "ShiftRight") : GOAL := by s_bit

theorem s_Pop (h : SI consts F T n s) (hnm : NM = "Pop") : GOAL := by
  unfold step; simp only [hnm]
  wstep (si_pop h line); rintro _ s1 ⟨h1, _⟩; wfin h1.sinv

set_option hygiene false in
macro "s_pushc" : tactic => `(tactic| (
  unfold step; simp only [hnm]
  wstep (si_push h (by simp) line); intro _ s1 h1; wfin h1.sinv))

theorem s_True (h : SI consts F T n s) (hnm : NM = "True") : GOAL := by s_pushc
theorem s_False (h : SI consts F T n s) (hnm : NM = "False") : GOAL := by s_pushc
theorem s_Null (h : SI consts F T n s) (hnm : NM = "Null") : GOAL := by s_pushc

theorem s_Equal (h : SI consts F T n s) (hnm : NM = "Equal") : GOAL := by
  unfold step; simp only [hnm]
  wstep (si_pop h line); rintro r s1 ⟨h1, hr⟩
  wstep (si_pop h1 line); rintro l s2 ⟨h2, hl⟩
  simp only [wpl_bind, wpl_reifyM]
  wstep (si_push h2 (by simp) line)
  intro _ s3 h3; wfin h3.sinv

theorem s_NotEqual (h : SI consts F T n s) (hnm : NM = "NotEqual") : GOAL := by
  unfold step; simp only [hnm]
  wstep (si_pop h line); rintro r s1 ⟨h1, hr⟩
  wstep (si_pop h1 line); rintro l s2 ⟨h2, hl⟩
  simp only [wpl_bind, wpl_reifyM]
  wstep (si_push h2 (by simp) line)
  intro _ s3 h3; wfin h3.sinv

theorem s_Bang (h : SI consts F T n s) (hnm : NM = "Bang") : GOAL := by
  unfold step; simp only [hnm]
  wstep (si_pop h line); rintro r s1 ⟨h1, hr⟩
  simp only [wpl_bind, wpl_reifyM]
  wstep (si_push h1 (by simp) line)
  intro _ s3 h3; wfin h3.sinv

theorem s_Minus (h : SI consts F T n s) (hnm : NM = "Minus") : GOAL := by
  unfold step; simp only [hnm]
  wstep (si_peek0 h); rintro t s1 ⟨h1, _⟩
  simp only [wpl_bind, wpl_ite, wpl_rtErr, wpl_pure]
  split
  · trivial
  · wstep (si_pop h1 line); rintro v s2 ⟨h2, hv⟩
    wstep (si_ofOpRes h2 line _ (fun w hw => vok_unaryMinus hv hw)); rintro r s3 ⟨n', _, h3, hr⟩
    wstep (si_push h3 hr line); intro _ s4 h4; wfin h4.sinv

theorem s_Not (h : SI consts F T n s) (hnm : NM = "Not") : GOAL := by
  unfold step; simp only [hnm]
  wstep (si_pop h line); rintro v s2 ⟨h2, hv⟩
  wstep (si_ofOpRes h2 line _ (fun w hw => vok_unaryNot hv hw)); rintro r s3 ⟨n', _, h3, hr⟩
  wstep (si_push h3 hr line); intro _ s4 h4; wfin h4.sinv

theorem s_Dup (h : SI consts F T n s) (hnm : NM = "Dup") : GOAL := by
  unfold step; simp only [hnm]
  wstep (si_peek0 h); rintro t s1 ⟨h1, ht⟩
  wstep (si_push h1 ht line); intro _ s4 h4; wfin h4.sinv

theorem s_Dollar (hnm : NM = "Dollar") : GOAL := by
  unfold step; simp only [hnm]; simp only [wpl_throw]
theorem s_GetProp (hnm : NM = "GetProp") : GOAL := by
  unfold step; simp only [hnm]; simp only [wpl_throw]
theorem s_SetProp (hnm : NM = "SetProp") : GOAL := by
  unfold step; simp only [hnm]; simp only [wpl_throw]
theorem s_GetBuiltinVar (hnm : NM = "GetBuiltinVar") : GOAL := by
  unfold step; simp only [hnm]
  rw [wpl_bind]; apply wpl_readU8; intro _; simp only [wpl_throw]

theorem s_Constant (h : SI consts F T n s) (hnm : NM = "Constant") : GOAL := by
  unfold step; simp only [hnm]
  rw [wpl_bind]; apply wpl_readU16; intro idx
  simp only [wpl_bind, wpl_get]
  split
  · simp only [wpl_rtErr]
  · rename_i c hc
    wstep (si_push h (h.cst _ _ hc) line); intro _ s1 h1
    wstep (si_setIp h1 _); intro _ s2 h2
    wfin h2.sinv

theorem s_Jump (h : SI consts F T n s) (hnm : NM = "Jump") : GOAL := by
  unfold step; simp only [hnm]
  rw [wpl_bind]; apply wpl_readU16; intro t
  wstep (si_setIp h _); intro _ s2 h2
  wfin h2.sinv

theorem s_JumpIfFalse (h : SI consts F T n s) (hnm : NM = "JumpIfFalse") : GOAL := by
  unfold step; simp only [hnm]
  rw [wpl_bind]; apply wpl_readU16; intro t
  wstep (si_setIp h _); intro _ s1 h1
  wstep (si_pop h1 line); rintro c s2 ⟨h2, _⟩
  simp only [wpl_bind, wpl_reifyM, wpl_ite]
  split
  · wstep (si_setIp h2 _); intro _ s3 h3
    wfin h3.sinv
  · wfin h2.sinv

theorem s_JumpIfFalseNoPop (h : SI consts F T n s) (hnm : NM = "JumpIfFalseNoPop") : GOAL := by
  unfold step; simp only [hnm]
  rw [wpl_bind]; apply wpl_readU16; intro t
  wstep (si_setIp h _); intro _ s1 h1
  wstep (si_top0 h1 line); rintro c s2 ⟨h2, _⟩
  simp only [wpl_bind, wpl_reifyM, wpl_ite]
  split
  · wstep (si_setIp h2 _); intro _ s3 h3
    wfin h3.sinv
  · wfin h2.sinv

theorem s_DefineGlobal (h : SI consts F T n s) (hnm : NM = "DefineGlobal") : GOAL := by
  unfold step; simp only [hnm]
  rw [wpl_bind]; apply wpl_readU16; intro g
  wstep (si_setIp h _); intro _ s1 h1
  wstep (si_pop h1 line); rintro v s2 ⟨h2, hv⟩
  simp only [wpl_bind, wpl_get, wpl_ite, wpl_panicM, wpl_pure, wpl_set]
  split
  · trivial
  · exact (h2.setGlobals hv _).sinv

theorem s_GetGlobal (h : SI consts F T n s) (hnm : NM = "GetGlobal") : GOAL := by
  unfold step; simp only [hnm]
  rw [wpl_bind]; apply wpl_readU16; intro g
  wstep (si_setIp h _); intro _ s1 h1
  simp only [wpl_bind, wpl_get, wpl_ite, wpl_panicM, wpl_pure]
  split
  · trivial
  · wstep (si_push h1 (h1.globals _) line); intro _ s2 h2
    wfin h2.sinv

theorem s_SetGlobal (h : SI consts F T n s) (hnm : NM = "SetGlobal") : GOAL := by
  unfold step; simp only [hnm]
  rw [wpl_bind]; apply wpl_readU16; intro g
  wstep (si_setIp h _); intro _ s1 h1
  wstep (si_top0 h1 line); rintro v s2 ⟨h2, hv⟩
  simp only [wpl_bind, wpl_get, wpl_ite, wpl_panicM, wpl_pure, wpl_set]
  split
  · trivial
  · exact (h2.setGlobals hv _).sinv

theorem s_DefineLocal (h : SI consts F T n s) (hnm : NM = "DefineLocal") : GOAL := by
  unfold step; simp only [hnm]
  rw [wpl_bind]; apply wpl_readU8; intro idx
  wstep (si_setIp h _); intro _ s1 h1
  wstep (si_curFrame h1); intro f s1' h1'
  wstep (si_pop h1' line); rintro v s2 ⟨h2, hv⟩
  simp only [wpl_bind, wpl_get, wpl_ite, wpl_panicM, wpl_pure, wpl_set]
  split
  · trivial
  · exact (h2.setStack hv _).sinv

theorem s_GetLocal (h : SI consts F T n s) (hnm : NM = "GetLocal") : GOAL := by
  unfold step; simp only [hnm]
  rw [wpl_bind]; apply wpl_readU8; intro idx
  wstep (si_setIp h _); intro _ s1 h1
  wstep (si_curFrame h1); intro f s1' h1'
  simp only [wpl_bind, wpl_get, wpl_ite, wpl_panicM, wpl_pure]
  split
  · trivial
  · wstep (si_push h1' (h1'.stack _) line); intro _ s2 h2
    wfin h2.sinv

theorem s_SetLocal (h : SI consts F T n s) (hnm : NM = "SetLocal") : GOAL := by
  unfold step; simp only [hnm]
  rw [wpl_bind]; apply wpl_readU8; intro idx
  wstep (si_setIp h _); intro _ s1 h1
  wstep (si_curFrame h1); intro f s1' h1'
  wstep (si_top0 h1' line); rintro v s2 ⟨h2, hv⟩
  simp only [wpl_bind, wpl_get, wpl_ite, wpl_panicM, wpl_pure, wpl_set]
  split
  · trivial
  · exact (h2.setStack hv _).sinv

theorem s_GetBuiltinFn (h : SI consts F T n s) (hnm : NM = "GetBuiltinFn") : GOAL := by
  unfold step; simp only [hnm]
  rw [wpl_bind]; apply wpl_readU8; intro idx
  wstep (si_setIp h _); intro _ s1 h1
  split
  · wstep (si_push h1 (by simp) line); intro _ s2 h2
    wfin h2.sinv
  · wfin h1.sinv

theorem s_GetFree (h : SI consts F T n s) (hnm : NM = "GetFree") : GOAL := by
  unfold step; simp only [hnm]
  rw [wpl_bind]; apply wpl_readU8; intro idx
  wstep (si_setIp h _); intro _ s1 h1
  wstep (si_curFrame h1); intro f s1' h1'
  simp only [wpl_bind, wpl_get, freeOf]
  split
  · rename_i v hv
    have hvs : VS consts F T n v := (vokL_iff.1 (vokL_getArr h1'.hok)) v (List.mem_of_getElem? hv)
    wstep (si_push h1' hvs line); intro _ s2 h2
    wfin h2.sinv
  · simp only [wpl_panicM]

theorem s_SetFree (h : SI consts F T n s) (hnm : NM = "SetFree") : GOAL := by
  unfold step; simp only [hnm]
  rw [wpl_bind]; apply wpl_readU8; intro idx
  wstep (si_setIp h _); intro _ s1 h1
  wstep (si_curFrame h1); intro f s1' h1'
  simp only [wpl_bind, wpl_get, wpl_ite, wpl_panicM]
  split
  · trivial
  · rw [wpl_top0]; intro _
    simp only [wpl_bind, wpl_modify, wpl_pure]
    refine (h1'.heapSet (o := .arr ((s1'.heap.getArr f.closId).set idx (s1'.stack.getD (s1'.sp - 1) .null))) ?_ ?_).sinv
    · exact vokL_set (vokL_getArr h1'.hok) (h1'.stack _)
    · intro hF
      rw [getArr_set_arr_length _ _ _ (List.length_set ..)]
      exact (h1'.fs _ hF).2

end

end P2sh.Props.Bcv
