import P2sh.Core.Prog
import P2sh.Core.Encode
import P2sh.Core.Fn.Prog
import P2sh.Core.Fn.Encode
/-!
# C02 — compiled programs behave as the reference semantics prescribe (core fragment)

`P2sh.Core` presents the core fragment: `Core.eval`/`Core.evalP` (reference evaluation: left to
right, `<`/`<=` right operand first, short circuit, one branch), `Core.compile`/`compileP` (the
bytes the real compiler emits — compared byte-for-byte on every run by the `core` op) and
`Core.step` (the VM's dispatch — compared with the real VM by the same op).

Closed here, for **every** expression / statement list, any nesting depth:

* `compile_sound_core` — running the compiled program from the empty stack reaches the end of
  the code with the empty stack and exactly the globals the reference evaluation yields;
* `expr_sound` — an expression's code pushes exactly its reference value (anywhere in a larger
  code, with any stack underneath);
* `lt_swaps_operands` / `le_swaps_operands` — the right operand's effects happen first;
* `assign_value_stays` — an assignment leaves the assigned value as its value.

The fragment: literals, operators, `&&` `||`, `if`/`else` and `match` expressions, global `let`
and assignment, blocks, `while` / `loop` with plain and labelled `break` / `continue` in
statement position, statement-level `if`.

**Functions and closures** (`P2sh.Core.Fn`, a layer over the core fragment): function
definitions (`fn f(…) {…}`, `let f = fn(…) {…};`, `f = fn(…) {…};`), parameters and local `let`s
(stack slots), `return e;` / `return;` / the implicit return of a final expression statement,
calls, recursion through the function's own name (`CurrClosure`) and through globals, the arity
check — and CLOSURES: function literals and `fn` statements written inside function bodies and
blocks, at any nesting depth, capturing parameters, locals, captured values (capture chains
through intermediate functions) and the own name of the functions enclosing them; closures as
first-class values (returned, stored in globals and locals, passed as arguments, called after the
function that created them returned); reads of (`GetFree`) and assignments to (`SetFree`) the
closure's own copy of a captured variable, the copy being shared by every activation of one
closure object.  `compile_sound_functions`: every terminating run of every such program is
reproduced by the machine with frames on the compiled program (main code, constant pool with the
function constants, one code per function constant), from the empty stack and no frame back to
the empty stack and no frame, with the same globals and the same closure objects.  Tied byte for
byte (main code, every function's code — nested ones included —, line tables, `num_locals`,
`num_params`, the operands of `Closure` and the loads before it) and run for run with the real
compiler and VM by the `core` op.  What a closure captures and keeps: `Props/C04Closure.lean`.

(Outside these fragments — packet properties, filters, I/O builtins, `format`, mutation of an array that is a map key,
cyclic containers — the three-way differential run: real pipeline / Lean VM model on the real bytecode / Lean reference semantics.)

**Arrays, maps, indexing, builtins** (namespace `Containers`, also over `P2sh.Core.Fn`): array and map
literals, `c[i]`, `c[i] = e`, calls of the pure builtins by name.  Containers are SHARED OBJECTS on a
heap (`Sto.a` / `FSt.a`): `index_assignment_aliases` (+ `_machine`), `array_literal_fresh`,
`array_literal_twice`, `hext_all` (the heap stays well-formed along every evaluation),
`map_literal_last_pair_wins`, `index_errors` (+ `_eval`, `_machine`), `builtin_call_correct`
(and `builtin_call_documented` / `compiled_builtin_call_documented` in `Props/C02Builtins.lean`, with
the C11 contract table).  Tied by the same `core` op (generators `core_heap_program`,
`core_builtin_program` in tools/props/c02.py).
-/
namespace P2sh.Props.C02
open P2sh P2sh.Core

theorem expr_sound (e : CExpr) (C : List Instr) (K : List Val) (pos k : Nat) (stk g : List Val) (v : Val) (g' : List Val)
    (h : codeAt C pos (compile pos k e)) (hp : poolAt K k (consts e)) (he : eval g e = some (v, g')) :
    Steps C K ⟨pos, stk, g⟩ ⟨pos + bytes (compile pos k e), v :: stk, g'⟩ :=
  compile_correct e C K pos k stk g v g' h hp he

/-- every terminating run (any fuel) of every program of the fragment — `let`, expression
statements, blocks, `while` / `loop` with `break` / `continue` (plain and labelled), `if` with
statement blocks — is reproduced by the compiled code, from the empty stack back to the empty
stack (`.normal`: no `break` / `continue` escapes the program — the compiler rejects those) -/
theorem compile_sound_core (fuel : Nat) (ss : List CStmt) (g g' : List Val) (he : evalP fuel g ss = some (g', .normal)) :
    Steps (compileP 0 0 [] ss) (constsP ss) ⟨0, [], g⟩ ⟨bytes (compileP 0 0 [] ss), [], g'⟩ :=
  program_correct fuel ss g g' he

/-- `a < b` evaluates `b` first: the globals `a` sees are those `b` left -/
theorem lt_swaps_operands (a b : CExpr) (g : List Val) :
    eval g (.lt a b) =
      (match eval g b with
       | some (vb, g1) =>
         (match eval g1 a with
          | some (va, g2) => (match execOperator .greater vb va with | .ok r => some (r, g2) | _ => none)
          | none => none)
       | none => none) := rfl

theorem le_swaps_operands (a b : CExpr) (g : List Val) :
    eval g (.le a b) =
      (match eval g b with
       | some (vb, g1) =>
         (match eval g1 a with
          | some (va, g2) => (match execOperator .greaterEq vb va with | .ok r => some (r, g2) | _ => none)
          | none => none)
       | none => none) := rfl

theorem assign_value_stays (i : Nat) (e : CExpr) (g : List Val) (v : Val) (g1 : List Val)
    (h : eval g e = some (v, g1)) (hi : i < g1.length) : eval g (.gset i e) = some (v, g1.set i v) := by
  simp [eval, h, hi]

/-- non-vacuity: `let x = 1 + 2 * 3; x = x - 1;` runs to globals `[6]` on the compiled code -/
example : evalP 10 [.null] [.letG 0 (.bin .add (.lit (.int 1)) (.bin .mul (.lit (.int 2)) (.lit (.int 3)))),
                         .expr (.gset 0 (.bin .sub (.gget 0) (.lit (.int 1))))] = some ([.int 6], .normal) := by
  rfl

/-- non-vacuity with a loop: `let i = 0; let s = 0; while i < 3 { i = i + 1; { s = s + i; } }` ends with `[3, 6]` -/
example : evalP 40 [.null, .null]
    [.letG 0 (.lit (.int 0)), .letG 1 (.lit (.int 0)),
     .whileS none (.lt (.gget 0) (.lit (.int 3)))
       [.expr (.gset 0 (.bin .add (.gget 0) (.lit (.int 1)))),
        .block [.expr (.gset 1 (.bin .add (.gget 1) (.gget 0)))]]] = some ([.int 3, .int 6], .normal) := by
  rfl


/-! ## functions and closures -/

open P2sh.Core.Fn in
/-- **functions, recursion, closures**: every terminating run (any fuel) of every program of `Core.Fn` —
top-level statements and function definitions; bodies with parameters, locals, loops, `return`
from any nesting, implicit returns; calls, recursion, mutual recursion through globals — is
reproduced by the compiled program: main code `compileT`, pool `constsT` (every function
constant after the constants of its body), the code of every function constant `codeT`
(positions from 0).  From the empty stack and no frame to the empty stack and no frame, with
the globals of the reference evaluation. -/
theorem compile_sound_functions (fuel : Nat) (T : List FTop) (g g' : List Val) (h h' : List (List Val)) (a a' : Heap)
    (he : evalT (phiT T) fuel g h a T = some (g', h', a')) :
    FSteps (constsT T) (codeT T)
      ⟨⟨compileT 0 0 T, ⟨[], [], 0, 0, 0⟩, 0, 0, 0⟩, [], g, h, a, []⟩
      ⟨⟨compileT 0 0 T, ⟨[], [], 0, 0, 0⟩, 0, bytes (compileT 0 0 T), 0⟩, [], g', h', a', []⟩ :=
  program_correct_fn fuel T g g' h h' a a' he

open P2sh.Core.Fn in
/-- an expression with calls inside — anywhere in the code of a running function or of the top
level, with any operands underneath — pushes exactly its reference value; the local slots of
the running activation and the globals end as the reference evaluation says -/
theorem expr_sound_functions {Φ : FnDef → Option FDecl} {K : List Val} {F : FnDef → Option (List Instr)} (hL : Linked Φ K F)
    (fuel : Nat) (e : FExpr) (X : Ctxt) (pos k : Nat) (ops : List Val) (cx : Option (FnDef × Nat)) (σ σ' : Sto) (v : Val)
    (h : codeAt X.code pos (compileE pos k e)) (hp : poolAt K k (constsE e)) (hx : Agree cx X)
    (he : evalE Φ fuel cx σ e = some (v, σ')) :
    FSteps K F (X.st pos ops σ) (X.st (pos + bytes (compileE pos k e)) (v :: ops) σ') :=
  (sound_all hL fuel).E e X pos k ops cx σ σ' v h hp hx he

open P2sh.Core.Fn in
/-- the function constants of a compiled program are linked with their declarations and their
code (the hypothesis of `expr_sound_functions` holds for every compiled program) -/
theorem compiled_program_linked (T : List FTop) : Linked (phiT T) (constsT T) (codeT T) := linked_program T

namespace FnExamples
open P2sh.Core.Fn

def argsOf : List FExpr → FArgs
  | [] => .nil
  | a :: r => .cons a (argsOf r)

/-- `fn fact(n) { if n < 2 { 1 } else { n * fact(n - 1) } }` — recursion through `CurrClosure` -/
def factD : FDecl := ⟨1, 1, [.ifS 1 1 (.lt 1 (.lget 1 0) (.lit 1 (.int 2))) [.expr 1 (.lit 1 (.int 1))]
   [.expr 1 (.bin 1 .mul (.lget 1 0) (.call 1 (.curr 1) (argsOf [.bin 1 .sub (.lget 1 0) (.lit 1 (.int 1))])))]], 1⟩

/-- `fn fact(n) {…}  let r = fact(5);` -/
def factProg (n : Int64) : List FTop :=
  [.fnDef 1 0 [] [] factD, .stmt (.letG 2 1 (.call 2 (.gget 2 0) (argsOf [.lit 2 (.int n)])))]

/-- non-vacuity: `fact(5)` is `120` in the reference evaluation … -/
example : evalT (phiT (factProg 5)) 40 [.null, .null] [[]] {} (factProg 5) = some ([.clos (mkFd [] [] factD) [] 1, .int 120], [[], []], {}) := by rfl

/-- … the body's code: the last `Pop` has become `ReturnValue` (the implicit return) … -/
example : compileFn 0 factD =
    [.const 0, .getLocal 0, .op .greater, .jif 15, .const 1, .jump 27,
     .getLocal 0, .currClosure, .getLocal 0, .const 2, .op .sub, .call 1, .op .mul, .retv] := by rfl

/-- … and the machine, run on the compiled program, ends with the same globals, the empty stack, no frame -/
example : frun (constsT (factProg 3)) (codeT (factProg 3)) 200 ⟨⟨compileT 0 0 (factProg 3), ⟨[], [], 0, 0, 0⟩, 0, 0, 0⟩, [], [.null, .null], [[]], {}, []⟩
    = .done ⟨⟨compileT 0 0 (factProg 3), ⟨[], [], 0, 0, 0⟩, 0, bytes (compileT 0 0 (factProg 3)), 0⟩, [],
             [.clos (mkFd [] [] factD) [] 1, .int 6], [[], []], {}, []⟩ := by rfl

/-- `let odd = null; fn even(n) { if n == 0 { true } else { odd(n - 1) } }
odd = fn(n) { if n == 0 { false } else { even(n - 1) } };` — mutual recursion through globals -/
def evenD : FDecl := ⟨1, 1, [.ifS 2 2 (.bin 2 .equal (.lget 2 0) (.lit 2 (.int 0))) [.expr 2 (.tru 2)]
   [.expr 2 (.call 2 (.gget 2 0) (argsOf [.bin 2 .sub (.lget 2 0) (.lit 2 (.int 1))]))]], 2⟩
def oddD : FDecl := ⟨1, 1, [.ifS 3 3 (.bin 3 .equal (.lget 3 0) (.lit 3 (.int 0))) [.expr 3 (.fls 3)]
   [.expr 3 (.call 3 (.gget 3 1) (argsOf [.bin 3 .sub (.lget 3 0) (.lit 3 (.int 1))]))]], 3⟩
def evenOddProg (n : Int64) : List FTop :=
  [.stmt (.letG 1 0 (.null 1)), .fnDef 2 1 [0] [] evenD, .fnSet 3 3 0 [1] [] oddD,
   .stmt (.letG 4 2 (.call 4 (.gget 4 1) (argsOf [.lit 4 (.int n)])))]

example : evalT (phiT (evenOddProg 4)) 60 [.null, .null, .null] [[]] {} (evenOddProg 4)
    = some ([.clos (mkFd [1] [] oddD) [] 2, .clos (mkFd [0] [] evenD) [] 1, .bool true], [[], [], []], {}) := by rfl
example : evalT (phiT (evenOddProg 3)) 60 [.null, .null, .null] [[]] {} (evenOddProg 3)
    = some ([.clos (mkFd [1] [] oddD) [] 2, .clos (mkFd [0] [] evenD) [] 1, .bool false], [[], [], []], {}) := by rfl

/-- `fn root(n) { let i = 0; while true { loop { if i * i > n { return i; } i = i + 1; } } }` — an
early `return` from inside two nested loops; parameter = slot 0, the local `i` = slot 1 -/
def rootD : FDecl := ⟨1, 2,
  [.letL 1 1 (.lit 1 (.int 0)),
   .whileS 2 none (.tru 2)
     [.loopS 3 none
        [.ifS 4 4 (.bin 4 .greater (.bin 4 .mul (.lget 4 1) (.lget 4 1)) (.lget 4 0)) [.ret 4 (.lget 4 1)] [],
         .expr 5 (.lset 5 1 (.bin 5 .add (.lget 5 1) (.lit 5 (.int 1))))]]], 1⟩
def rootProg (n : Int64) : List FTop :=
  [.fnDef 1 0 [] [] rootD, .stmt (.letG 8 1 (.bin 8 .add (.lit 8 (.int 100)) (.call 8 (.gget 8 0) (argsOf [.lit 8 (.int n)]))))]

/-- the call inside `100 + root(10)` returns from the two loops with the pending operand `100` intact -/
example : evalT (phiT (rootProg 10)) 60 [.null, .null] [[]] {} (rootProg 10) = some ([.clos (mkFd [] [] rootD) [] 1, .int 104], [[], []], {}) := by rfl

example : frun (constsT (rootProg 3)) (codeT (rootProg 3)) 300 ⟨⟨compileT 0 0 (rootProg 3), ⟨[], [], 0, 0, 0⟩, 0, 0, 0⟩, [], [.null, .null], [[]], {}, []⟩
    = .done ⟨⟨compileT 0 0 (rootProg 3), ⟨[], [], 0, 0, 0⟩, 0, bytes (compileT 0 0 (rootProg 3)), 0⟩, [],
             [.clos (mkFd [] [] rootD) [] 1, .int 102], [[], []], {}, []⟩ := by rfl

/-- `fn fact(n) {…}  let r = fact(5, 6);` — the wrong number of arguments is a runtime error: the
reference evaluation fails, and so does the machine (at the `Call`, with both arguments pushed) -/
def arityProg : List FTop :=
  [.fnDef 1 0 [] [] factD, .stmt (.letG 2 1 (.call 2 (.gget 2 0) (argsOf [.lit 2 (.int 5), .lit 2 (.int 6)])))]

example : evalT (phiT arityProg) 40 [.null, .null] [[]] {} arityProg = none := by rfl

example : (match frun (constsT arityProg) (codeT arityProg) 200 ⟨⟨compileT 0 0 arityProg, ⟨[], [], 0, 0, 0⟩, 0, 0, 0⟩, [], [.null, .null], [[]], {}, []⟩ with
    | .stuck st => st.act.pc == 16 && st.stk.length == 3 && st.callers.isEmpty
    | _ => false) = true := by rfl

end FnExamples

/-! ## arrays and maps: shared objects -/

namespace Containers
open P2sh.Core.Fn

/-- every object's id is below the allocation counter (holds of the empty heap, kept by every allocation and update) -/
def WF (a : Heap) : Prop := ∀ p ∈ a.objs, p.1 < a.next

theorem wf_empty : WF {} := by intro p hp; simp at hp

theorem find_map_set (id : Nat) (o : HObj) : ∀ (objs : List (Nat × HObj)) (j : Nat),
    (objs.map (fun p => if p.1 == id then (id, o) else p)).find? (fun p => p.1 == j) =
      if j = id then (objs.find? (fun p => p.1 == id)).map (fun _ => (id, o)) else objs.find? (fun p => p.1 == j)
  | [], j => by simp
  | p :: rest, j => by
    have ih := find_map_set id o rest j
    simp only [List.map_cons]
    by_cases hp : p.1 = id
    · have e1 : (if (p.1 == id) = true then (id, o) else p) = (id, o) := by simp [hp]
      rw [e1]
      by_cases hj : j = id
      · subst hj
        rw [List.find?_cons_of_pos (by simp), List.find?_cons_of_pos (by simp [hp])]
        simp
      · rw [List.find?_cons_of_neg (by simp; omega), ih]
        simp only [hj, if_false]
        rw [List.find?_cons_of_neg (by simp [hp]; omega)]
    · have e1 : (if (p.1 == id) = true then (id, o) else p) = p := by simp [hp]
      rw [e1]
      by_cases hj : j = id
      · subst hj
        rw [List.find?_cons_of_neg (by simp [hp]), ih]
        simp only [if_true]
        rw [List.find?_cons_of_neg (by simp [hp])]
      · simp only [hj, if_false] at ih ⊢
        by_cases hpj : p.1 = j
        · rw [List.find?_cons_of_pos (by simp [hpj]), List.find?_cons_of_pos (by simp [hpj])]
        · rw [List.find?_cons_of_neg (by simp [hpj]), List.find?_cons_of_neg (by simp [hpj]), ih]

/-- `setH` changes object `id` (when it exists) and no other -/
theorem get_setH (a : Heap) (id j : Nat) (o : HObj) :
    (setH a id o).get? j = if j = id then (a.get? id).map (fun _ => o) else a.get? j := by
  cases a with
  | mk objs next =>
    simp only [setH, Heap.get?, find_map_set]
    by_cases hj : j = id
    · simp only [hj, if_true]
      cases objs.find? (fun p => p.1 == id) <;> simp
    · simp [hj]

theorem getArr_setH_self (a : Heap) (id : Nat) (xs : List Val) (h : ∃ o, a.get? id = some o) :
    (setH a id (.arr xs)).getArr id = xs := by
  obtain ⟨o, ho⟩ := h
  simp [Heap.getArr, get_setH, ho]

theorem getArr_setH_other (a : Heap) (id j : Nat) (o : HObj) (h : j ≠ id) : (setH a id o).getArr j = a.getArr j := by
  simp [Heap.getArr, get_setH, h]

theorem getMap_setH_self (a : Heap) (id : Nat) (kvs : List (Val × Val)) (h : ∃ o, a.get? id = some o) :
    (setH a id (.map kvs)).getMap id = kvs := by
  obtain ⟨o, ho⟩ := h
  simp [Heap.getMap, get_setH, ho]

theorem exists_of_getArr_ne_nil {a : Heap} {id : Nat} (h : a.getArr id ≠ []) : ∃ o, a.get? id = some o := by
  unfold Heap.getArr at h
  cases hg : a.get? id with
  | none => simp [hg] at h
  | some o => exact ⟨o, rfl⟩

/-- a new object: its id is the allocation counter; every existing object is as it was -/
theorem get_allocH (a : Heap) (o : HObj) (j : Nat) :
    (allocH a o).2 = a.next ∧ (allocH a o).1.next = a.next + 1 ∧
    (allocH a o).1.get? j = if j = a.next then some o else a.get? j := by
  cases a with
  | mk objs next =>
    refine ⟨rfl, rfl, ?_⟩
    simp only [allocH, Heap.get?]
    by_cases hj : j = next
    · subst hj
      rw [List.find?_cons_of_pos (by simp)]
      simp
    · rw [List.find?_cons_of_neg (by simp; omega)]
      simp [hj]

theorem get_fresh {a : Heap} (hwf : WF a) : a.get? a.next = none := by
  unfold Heap.get?
  cases hf : a.objs.find? (fun p => p.1 == a.next) with
  | none => rfl
  | some p =>
    have hm := List.mem_of_find?_eq_some hf
    have hp := List.find?_some hf
    have := hwf p hm
    simp only [beq_iff_eq] at hp
    omega

theorem wf_allocH {a : Heap} (hwf : WF a) (o : HObj) : WF (allocH a o).1 := by
  cases a with
  | mk objs next =>
    intro p hp
    simp only [allocH, List.mem_cons] at hp
    rcases hp with rfl | hp
    · show next < next + 1
      omega
    · have := hwf p hp
      show p.1 < next + 1
      have : p.1 < next := this
      omega

theorem wf_setH {a : Heap} (hwf : WF a) (id : Nat) (o : HObj) (hid : id < a.next) : WF (setH a id o) := by
  cases a with
  | mk objs next =>
    intro p hp
    simp only [setH, List.mem_map] at hp
    obtain ⟨q, hq, rfl⟩ := hp
    by_cases h : q.1 = id
    · simp [h]; exact hid
    · simp [h]; exact hwf q hq


/-! ### index reads that are runtime errors -/

/-- **`index_errors`** (the reading function): an index below zero, an index at or beyond the
length, a key that is absent (or whose value is `null`), a key of an invalid kind, an array
indexed by something that is not an integer, a value that is neither an array nor a map — each
of these reads is a runtime error, not a value -/
theorem index_errors (a : Heap) :
    (∀ id xs (i : Int64), i < 0 → getIndexH a (.arr id xs) (.int i) = none) ∧
    (∀ id xs (i : Int64), (a.getArr id).length ≤ i.toNatClampNeg → getIndexH a (.arr id xs) (.int i) = none) ∧
    (∀ id kvs k, lookupKV a k (a.getMap id) = none → getIndexH a (.map id kvs) k = none) ∧
    (∀ id kvs k, lookupKV a k (a.getMap id) = some .null → getIndexH a (.map id kvs) k = none) ∧
    (∀ id kvs k, k.isValidKey = false → getIndexH a (.map id kvs) k = none) ∧
    (∀ id xs i, (∀ n, i ≠ .int n) → getIndexH a (.arr id xs) i = none) ∧
    (∀ c i, (∀ id xs, c ≠ .arr id xs) → (∀ id kvs, c ≠ .map id kvs) → getIndexH a c i = none) := by
  refine ⟨?_, ?_, ?_, ?_, ?_, ?_, ?_⟩
  · intro id xs i hi; simp [getIndexH, hi]
  · intro id xs i hi
    simp only [getIndexH]
    split
    · rfl
    · exact List.getElem?_eq_none hi
  · intro id kvs k hk; simp only [getIndexH, hk]; split <;> rfl
  · intro id kvs k hk; simp only [getIndexH, hk, isNullV]; split <;> rfl
  · intro id kvs k hk; simp [getIndexH, hk]
  · intro id xs i hi
    cases i <;> first | rfl | (exact absurd rfl (hi _))
  · intro c i h1 h2
    cases c <;> first | rfl | (exact absurd rfl (h1 _ _)) | (exact absurd rfl (h2 _ _))

/-- … in the reference evaluation: when the container and the index evaluate to such a pair, the
index expression has no value — and (`index_errors_machine`) the machine is stuck at the `GetIndex` -/
theorem index_errors_eval {Φ : FnDef → Option FDecl} (fuel : Nat) (cx : Option (FnDef × Nat)) (σ σ1 σ2 : Sto) (l : Nat) (c i : FExpr) (vc vi : Val)
    (hc : evalE Φ fuel cx σ c = some (vc, σ1)) (hi : evalE Φ fuel cx σ1 i = some (vi, σ2)) (hg : getIndexH σ2.a vc vi = none) :
    evalE Φ (fuel + 1) cx σ (.index l c i) = none := by
  simp [evalE, hc, hi, hg]

theorem index_errors_machine {K : List Val} {F : FnDef → Option (List Instr)} {X : Ctxt} {pc : Nat} {c i : Val} {ops : List Val} {σ : Sto}
    (h : codeAt X.code pc [Instr.getIndex]) (hv : getIndexH σ.a c i = none) :
    fstep K F (X.st pc (i :: c :: ops) σ) = none := by
  unfold fstep Ctxt.st Ctxt.at
  simp only [fetch_codeAt h, List.cons_append, hv]

/-! ### an index assignment changes the OBJECT: every alias sees it -/

/-- writing element `i` of the array object `id` through ANY reference to it (`.arr id xs`: the
contents a reference carries are ignored), then reading element `i` through ANY reference to the
same object, yields the value written; the elements at other indices, and every other object, are
as before -/
theorem setIndex_getIndex_arr (a a' : Heap) (id : Nat) (xs ys : List Val) (i : Int64) (v : Val)
    (h : setIndexH a (.arr id xs) (.int i) v = some a') :
    getIndexH a' (.arr id ys) (.int i) = some v ∧
    (∀ (j : Int64), 0 ≤ j → j.toNatClampNeg ≠ i.toNatClampNeg → getIndexH a' (.arr id ys) (.int j) = getIndexH a (.arr id ys) (.int j)) ∧
    (∀ id', id' ≠ id → a'.get? id' = a.get? id') := by
  simp only [setIndexH] at h
  by_cases hneg : i < 0
  · simp [hneg] at h
  · simp only [hneg, if_false] at h
    by_cases hlen : i.toNatClampNeg < (a.getArr id).length
    · simp only [hlen, if_true, Option.some.injEq] at h
      subst h
      have hex : ∃ o, a.get? id = some o := exists_of_getArr_ne_nil (by intro h0; rw [h0] at hlen; simp at hlen)
      refine ⟨?_, ?_, ?_⟩
      · simp [getIndexH, hneg, getArr_setH_self _ _ _ hex, hlen]
      · intro j hj hne
        have hjn : ¬ j < 0 := Int64.not_lt.mpr hj
        simp only [getIndexH, hjn, if_false, getArr_setH_self _ _ _ hex]
        exact List.getElem?_set_ne (Ne.symm hne)
      · intro id' hne
        simp [get_setH, hne]
    · simp [hlen] at h

/-- the three statements `let b = a; b[i] = v; let x = a[i];` (`a`, `b`, `x` the globals `ga`, `gb`,
`gx`) where `a` holds a reference to the array object `id` and `i` is inside it -/
def aliasProg (l ga gb gx : Nat) (i : Int64) (v : Val) : List FStmt :=
  [.letG l gb (.gget l ga),
   .expr l (.setIndex l (.gget l gb) (.lit l (.int i)) (.lit l v)),
   .letG l gx (.index l (.gget l ga) (.lit l (.int i)))]

/-- **`index_assignment_aliases`** (reference evaluation): after `let b = a; b[i] = v;` reading
`a[i]` yields `v` — `x` ends up holding `v`, `b` holds the same reference as `a`, and the only
object that changed is the one both refer to -/
theorem index_assignment_aliases {Φ : FnDef → Option FDecl} (fuel : Nat) (cx : Option (FnDef × Nat)) (lo g : List Val) (h : List (List Val)) (a : Heap)
    (l ga gb gx id : Nat) (xs : List Val) (i : Int64) (v : Val)
    (hga : g[ga]? = some (.arr id xs)) (hgb : gb < g.length) (hgx : gx < g.length) (hab : ga ≠ gb)
    (hi0 : ¬ i < 0) (hi : i.toNatClampNeg < (a.getArr id).length) :
    evalP Φ (fuel + 6) cx ⟨lo, g, h, a⟩ (aliasProg l ga gb gx i v) =
      some (⟨lo, (g.set gb (.arr id xs)).set gx v, h, setH a id (.arr ((a.getArr id).set i.toNatClampNeg v))⟩, .normal, .null) := by
  have hga' : g.getD ga .null = .arr id xs := by simp [List.getD, hga]
  have hex : ∃ o, a.get? id = some o := exists_of_getArr_ne_nil (by intro h0; rw [h0] at hi; simp at hi)
  have hgb2 : (g.set gb (.arr id xs)).getD gb .null = .arr id xs := by simp [List.getD, hgb]
  have hga2 : (g.set gb (.arr id xs)).getD ga .null = .arr id xs := by
    simp [List.getD, List.getElem?_set_ne (Ne.symm hab), hga]
  simp only [aliasProg, Fn.evalP, Fn.evalS, Fn.evalE, hga', hgb, if_true, List.length_set, hgb2, hga2, setIndexH, hi0, hi, if_false,
    Sto.setA_eq, Sto.gset_eq, getIndexH, getArr_setH_self _ _ _ hex, List.length_set, List.getElem?_set_self hi, hgx]


/-- the same, for the three statements as a compiled program on the machine (`program_correct_fn`):
from the empty stack to the empty stack, `x` holds `v`, the object `id` has `v` at index `i` -/
theorem index_assignment_aliases_machine (fuel : Nat) (g : List Val) (h : List (List Val)) (a : Heap)
    (l ga gb gx id : Nat) (xs : List Val) (i : Int64) (v : Val)
    (hga : g[ga]? = some (.arr id xs)) (hgb : gb < g.length) (hgx : gx < g.length) (hab : ga ≠ gb)
    (hi0 : ¬ i < 0) (hi : i.toNatClampNeg < (a.getArr id).length) :
    FSteps (constsT ((aliasProg l ga gb gx i v).map FTop.stmt)) (codeT ((aliasProg l ga gb gx i v).map FTop.stmt))
      ⟨⟨compileT 0 0 ((aliasProg l ga gb gx i v).map FTop.stmt), ⟨[], [], 0, 0, 0⟩, 0, 0, 0⟩, [], g, h, a, []⟩
      ⟨⟨compileT 0 0 ((aliasProg l ga gb gx i v).map FTop.stmt), ⟨[], [], 0, 0, 0⟩, 0,
          bytes (compileT 0 0 ((aliasProg l ga gb gx i v).map FTop.stmt)), 0⟩, [],
        (g.set gb (.arr id xs)).set gx v, h, setH a id (.arr ((a.getArr id).set i.toNatClampNeg v)), []⟩ := by
  apply program_correct_fn (fuel + 5)
  have hga' : g.getD ga .null = .arr id xs := by simp [List.getD, hga]
  have hex : ∃ o, a.get? id = some o := exists_of_getArr_ne_nil (by intro h0; rw [h0] at hi; simp at hi)
  have hgb2 : (g.set gb (.arr id xs)).getD gb .null = .arr id xs := by simp [List.getD, hgb]
  have hga2 : (g.set gb (.arr id xs)).getD ga .null = .arr id xs := by
    simp [List.getD, List.getElem?_set_ne (Ne.symm hab), hga]
  simp only [aliasProg, List.map_cons, List.map_nil, evalT, Fn.evalS, Fn.evalE, hga', hgb, if_true, List.length_set, hgb2, hga2, setIndexH, hi0, hi,
    if_false, Sto.setA_eq, Sto.gset_eq, getIndexH, getArr_setH_self _ _ _ hex, List.getElem?_set_self hi, hgx]

/-! ### a literal is a NEW object -/

/-- **`array_literal_fresh`**: `[e1, …, en]` evaluates its elements left to right (`evalArgs`) and
then creates a NEW object: its id is the allocation counter — no object has it (in a well-formed
heap), so no existing reference denotes it —, it holds exactly the element values, every existing
object is untouched, locals / globals / closure objects are those after the elements.  Evaluated
again (a function called twice, a loop) the literal creates another object: the counter moved. -/
theorem array_literal_fresh {Φ : FnDef → Option FDecl} (fuel : Nat) (cx : Option (FnDef × Nat)) (σ σ' : Sto) (l : Nat) (es : FArgs) (v : Val)
    (he : evalE Φ (fuel + 1) cx σ (.arrLit l es) = some (v, σ')) :
    ∃ vs σ1, evalArgs Φ fuel cx σ es = some (vs, σ1) ∧ v = .arr σ1.a.next [] ∧
      σ'.l = σ1.l ∧ σ'.g = σ1.g ∧ σ'.h = σ1.h ∧
      σ'.a.getArr σ1.a.next = vs ∧ σ'.a.next = σ1.a.next + 1 ∧
      (∀ j, j ≠ σ1.a.next → σ'.a.get? j = σ1.a.get? j) ∧
      (WF σ1.a → σ1.a.get? σ1.a.next = none ∧ WF σ'.a) := by
  simp only [Fn.evalE] at he
  cases hea : evalArgs Φ fuel cx σ es with
  | none => simp [hea] at he
  | some r =>
    obtain ⟨vs, σ1⟩ := r
    simp only [hea, mkArr, Sto.setA_eq, Option.some.injEq, Prod.mk.injEq] at he
    obtain ⟨rfl, rfl⟩ := he
    obtain ⟨e1, e2, _⟩ := get_allocH σ1.a (.arr vs) 0
    refine ⟨vs, σ1, rfl, by rw [e1], rfl, rfl, rfl, ?_, e2, ?_, ?_⟩
    · simp [Heap.getArr, (get_allocH σ1.a (.arr vs) _).2.2, e1]
    · intro j hj
      simp [(get_allocH σ1.a (.arr vs) j).2.2, hj]
    · intro hwf
      exact ⟨get_fresh hwf, wf_allocH hwf _⟩

/-! ### a map literal: pairs in order, a later pair with an equal key wins -/

def flatPairs : List (Val × Val) → List Val
  | [] => []
  | (k, v) :: rest => k :: v :: flatPairs rest

theorem buildMap_flat (a : Heap) : ∀ (ps : List (Val × Val)) (acc : List (Val × Val)), (∀ p ∈ ps, p.1.isValidKey = true) →
    buildMap a (flatPairs ps) acc = some (ps.foldl (fun m p => insertKV a p.1 p.2 m) acc)
  | [], acc, _ => by simp [flatPairs, buildMap]
  | (k, v) :: rest, acc, h => by
    have hk : k.isValidKey = true := h (k, v) (by simp)
    simp only [flatPairs, buildMap, hk, if_true, List.foldl_cons]
    exact buildMap_flat a rest _ (fun p hp => h p (List.mem_cons_of_mem _ hp))

/-- a key that was just inserted is found, with the inserted value (whatever the map held before) -/
theorem lookup_insertKV_self (a : Heap) (k v : Val) (hk : HMap.keyMatch (view a k) (view a k) = true) :
    ∀ kvs, lookupKV a k (insertKV a k v kvs) = some v
  | [] => by simp [insertKV, lookupKV, hk]
  | (k0, v0) :: rest => by
    by_cases hm : HMap.keyMatch (view a k) (view a k0) = true
    · simp [insertKV, lookupKV, hm]
    · simp only [insertKV, hm, Bool.false_eq_true, if_false, lookupKV]
      exact lookup_insertKV_self a k v hk rest

/-- … and an insertion replaces the VALUE of the first entry with an equal key, keeping that entry's key and place -/
theorem insertKV_equal_key (a : Heap) (k0 v0 k v : Val) (rest : List (Val × Val)) (hm : HMap.keyMatch (view a k) (view a k0) = true) :
    insertKV a k v ((k0, v0) :: rest) = (k0, v) :: rest := by
  simp [insertKV, hm]

/-- **`map_literal_last_pair_wins`**: in `map {…, k: v}` — whatever pairs precede the last one, with
keys equal to `k` or not — the map built holds `v` for `k`: it is a NEW object (id = the
allocation counter), its entries are the pairs inserted in order, and looking `k` up in them
yields the value of the LAST pair.  (`k == k` must hold: a NaN key is never found.)  For two
pairs with equal keys the map has ONE entry: the first pair's key with the second pair's value. -/
theorem map_literal_last_pair_wins (a : Heap) (ps : List (Val × Val)) (k v : Val)
    (hps : ∀ p ∈ ps, p.1.isValidKey = true) (hkv : k.isValidKey = true) (hk : HMap.keyMatch (view a k) (view a k) = true) :
    ∃ kvs a', mkMap a (flatPairs (ps ++ [(k, v)])) = some (.map a.next [], a') ∧ a'.getMap a.next = kvs ∧
      lookupKV a k kvs = some v ∧ (∀ j, j ≠ a.next → a'.get? j = a.get? j) ∧
      (∀ k0 v0, ps = [(k0, v0)] → HMap.keyMatch (view a k) (view a k0) = true → kvs = [(k0, v)]) := by
  have hall : ∀ p ∈ ps ++ [(k, v)], p.1.isValidKey = true := by
    intro p hp
    rcases List.mem_append.mp hp with hp | hp
    · exact hps p hp
    · simp only [List.mem_singleton] at hp; subst hp; exact hkv
  have hb := buildMap_flat a (ps ++ [(k, v)]) [] hall
  obtain ⟨e1, _, _⟩ := get_allocH a (.map ((ps ++ [(k, v)]).foldl (fun m p => insertKV a p.1 p.2 m) [])) 0
  refine ⟨(ps ++ [(k, v)]).foldl (fun m p => insertKV a p.1 p.2 m) [], (allocH a (.map ((ps ++ [(k, v)]).foldl (fun m p => insertKV a p.1 p.2 m) []))).1, ?_, ?_, ?_, ?_, ?_⟩
  · simp only [mkMap, hb]
    rw [← e1]
  · simp [Heap.getMap, (get_allocH a _ _).2.2]
  · rw [List.foldl_append]
    exact lookup_insertKV_self a k v hk _
  · intro j hj
    simp [(get_allocH a _ j).2.2, hj]
  · intro k0 v0 hps1 hm
    subst hps1
    simp [insertKV, hm]


/-! ### non-vacuity (by `rfl`): the reference evaluation and the machine on concrete programs -/

def argsOf : List FExpr → FArgs
  | [] => .nil
  | a :: r => .cons a (argsOf r)

def main0 (T : List FTop) (n : Nat) : FSt := ⟨⟨compileT 0 0 T, ⟨[], [], 0, 0, 0⟩, 0, 0, 0⟩, [], List.replicate n .null, [[]], {}, []⟩

/-- the machine's final globals with the containers expanded -/
def runG (T : List FTop) (n fuel : Nat) : Option (List Val) :=
  match frun (constsT T) (codeT T) fuel (main0 T n) with
  | .done s => if s.stk.isEmpty && s.callers.isEmpty then some (s.g.map (view s.a)) else none
  | _ => none

def refG (T : List FTop) (n fuel : Nat) : Option (List Val) :=
  match evalT (phiT T) fuel (List.replicate n .null) [[]] {} T with
  | some (g, _, a) => some (g.map (view a))
  | none => none

/-- `let a = [1, 2, 3]; let b = a; b[0] = 9; let x = a[0];` — `aliasProg` after the literal -/
def aliasT : List FTop :=
  (FStmt.letG 1 0 (.arrLit 1 (argsOf [.lit 1 (.int 1), .lit 1 (.int 2), .lit 1 (.int 3)])) :: aliasProg 2 0 1 2 0 (.int 9)).map .stmt

example : compileT 0 0 aliasT =
    [.const 0, .const 1, .const 2, .array 3, .defGlobal 0, .getGlobal 0, .defGlobal 1,
     .const 3, .getGlobal 1, .const 4, .setIndex, .pop, .getGlobal 0, .const 5, .getIndex, .defGlobal 2] := by rfl
example : refG aliasT 3 20 = some [.arr 1 [.int 9, .int 2, .int 3], .arr 1 [.int 9, .int 2, .int 3], .int 9] := by rfl
example : runG aliasT 3 100 = some [.arr 1 [.int 9, .int 2, .int 3], .arr 1 [.int 9, .int 2, .int 3], .int 9] := by rfl

/-- `fn lit() { [1, 2] }  let a = lit(); let b = lit(); a[0] = 5; let x = b[0]; let y = a[0];` — the literal
evaluated twice is two objects (ids 1 and 2): the write through `a` does not show through `b` -/
def litD : FDecl := ⟨0, 0, [.expr 1 (.arrLit 1 (argsOf [.lit 1 (.int 1), .lit 1 (.int 2)]))], 1⟩
def freshT : List FTop :=
  [.fnDef 1 0 [7] [] litD,
   .stmt (.letG 2 1 (.call 2 (.gget 2 0) .nil)), .stmt (.letG 3 2 (.call 3 (.gget 3 0) .nil)),
   .stmt (.expr 4 (.setIndex 4 (.gget 4 1) (.lit 4 (.int 0)) (.lit 4 (.int 5)))),
   .stmt (.letG 5 3 (.index 5 (.gget 5 2) (.lit 5 (.int 0)))), .stmt (.letG 6 4 (.index 6 (.gget 6 1) (.lit 6 (.int 0))))]

example : (refG freshT 5 30).map (·.drop 1) = some [.arr 1 [.int 5, .int 2], .arr 2 [.int 1, .int 2], .int 1, .int 5] := by rfl
example : (runG freshT 5 200).map (·.drop 1) = some [.arr 1 [.int 5, .int 2], .arr 2 [.int 1, .int 2], .int 1, .int 5] := by rfl

/-- `let m = map {true: 1, false: 0, true: 2}; let x = m[true];` — one entry for `true`, in the first pair's place, with the
last pair's value (keys that are integers or floats hash through `f64`, opaque to the kernel: the tie runs those) -/
def mapT : List FTop :=
  [.stmt (.letG 1 0 (.mapLit 1 (argsOf [.tru 1, .lit 1 (.int 1), .fls 1, .lit 1 (.int 0), .tru 1, .lit 1 (.int 2)]))),
   .stmt (.letG 2 1 (.index 2 (.gget 2 0) (.tru 2)))]

example : refG mapT 2 20 = some [.map 1 [(.bool true, .int 2), (.bool false, .int 0)], .int 2] := by rfl

/-- failing reads: `[1, 2][2]`, `[1, 2][0 - 1]`, `map {true: 2}[false]`, `map {true: 2}[map {}]`, `5[0]` — no value in the
reference evaluation; the machine is stuck at the `GetIndex` (the last instruction before the `DefineGlobal`) -/
def badReads : List (FExpr × FExpr) :=
  [(.arrLit 1 (argsOf [.lit 1 (.int 1), .lit 1 (.int 2)]), .lit 1 (.int 2)),
   (.arrLit 1 (argsOf [.lit 1 (.int 1), .lit 1 (.int 2)]), .bin 1 .sub (.lit 1 (.int 0)) (.lit 1 (.int 1))),
   (.mapLit 1 (argsOf [.tru 1, .lit 1 (.int 2)]), .fls 1),
   (.mapLit 1 (argsOf [.tru 1, .lit 1 (.int 2)]), .mapLit 1 .nil),
   (.lit 1 (.int 5), .lit 1 (.int 0))]
def badT (p : FExpr × FExpr) : List FTop := [.stmt (.letG 1 0 (.index 1 p.1 p.2))]

example : badReads.map (fun p => refG (badT p) 1 20) = [none, none, none, none, none] := by rfl
example : badReads.map (fun p => match frun (constsT (badT p)) (codeT (badT p)) 100 (main0 (badT p) 1) with
    | .stuck s => (match fetch s.act.code s.act.pc with | some .getIndex => true | _ => false)
    | _ => false) = [true, true, true, true, true] := by rfl

/-! ### pure builtins called by name -/

/-- **`builtin_call_correct`**: the call `name(a1, …, an)` of a builtin function (no user binding
hides the name: the recogniser resolves it to entry `i` of the builtin table) — compiled to
`GetBuiltinFn i; a1; …; an; Call n` — evaluates the arguments left to right and yields
`callBuiltinH`: the pure builtin of `Builtins.call` on the views of the argument values; a
mutating builtin has changed the OBJECT of its first argument (every alias sees it); the machine,
from any operands `ops`, in any activation, pushes exactly that value and ends with that heap. -/
theorem builtin_call_correct {Φ : FnDef → Option FDecl} {K : List Val} {F : FnDef → Option (List Instr)} (hL : Linked Φ K F)
    (fuel : Nat) (l lb i : Nat) (args : FArgs) (X : Ctxt) (pos k : Nat) (ops : List Val) (cx : Option (FnDef × Nat)) (σ σ' : Sto) (v : Val)
    (h : codeAt X.code pos (compileE pos k (.call l (.bfn lb i) args))) (hp : poolAt K k (constsE (.call l (.bfn lb i) args))) (hx : Agree cx X)
    (he : evalE Φ (fuel + 2) cx σ (.call l (.bfn lb i) args) = some (v, σ')) :
    compileE pos k (.call l (.bfn lb i) args) = [.getBuiltin i] ++ compileArgs (pos + 2) k args ++ [.call args.length] ∧
    (∃ name vs σ1 a', builtinName i = some name ∧ evalArgs Φ (fuel + 1) cx σ args = some (vs, σ1) ∧
      callBuiltinH σ1.a name vs = some (v, a') ∧ σ' = ⟨σ1.l, σ1.g, σ1.h, a'⟩) ∧
    FSteps K F (X.st pos ops σ) (X.st (pos + bytes (compileE pos k (.call l (.bfn lb i) args))) (v :: ops) σ') := by
  refine ⟨by simp [compileE, bytes, Instr.size, constsE], ?_, (sound_all hL (fuel + 2)).E _ X pos k ops cx σ σ' v h hp hx he⟩
  simp only [Fn.evalE] at he
  cases hn : builtinName i with
  | none => simp [hn] at he
  | some name =>
    simp only [hn] at he
    cases hea : evalArgs Φ (fuel + 1) cx σ args with
    | none => simp [hea] at he
    | some r =>
      obtain ⟨vs, σ1⟩ := r
      simp only [hea] at he
      cases hc : callBuiltinH σ1.a name vs with
      | none => simp [hc] at he
      | some ra =>
        obtain ⟨r', a'⟩ := ra
        simp only [hc, Sto.setA_eq, Option.some.injEq, Prod.mk.injEq] at he
        obtain ⟨rfl, rfl⟩ := he
        exact ⟨name, vs, σ1, a', rfl, rfl, hc, rfl⟩

/-- `let a = [3]; let b = a; push(b, 9); let n = len(a);` — `len` = entry 0, `push` = entry 5 of the builtin table; the
`push` through the alias `b` is seen through `a` -/
def builtinT : List FTop :=
  [.stmt (.letG 1 0 (.arrLit 1 (argsOf [.lit 1 (.int 3)]))),
   .stmt (.letG 2 1 (.gget 2 0)),
   .stmt (.expr 3 (.call 3 (.bfn 3 5) (argsOf [.gget 3 1, .lit 3 (.int 9)]))),
   .stmt (.letG 4 2 (.call 4 (.bfn 4 0) (argsOf [.gget 4 0])))]

example : [builtinName 0, builtinName 5] = [some "len", some "push"] := by rfl
example : compileT 0 0 builtinT =
    [.const 0, .array 1, .defGlobal 0, .getGlobal 0, .defGlobal 1,
     .getBuiltin 5, .getGlobal 1, .const 1, .call 2, .pop, .getBuiltin 0, .getGlobal 0, .call 1, .defGlobal 2] := by rfl
example : refG builtinT 3 30 = some [.arr 1 [.int 3, .int 9], .arr 1 [.int 3, .int 9], .int 2] := by rfl
-- (the machine run of the same program is exercised by the tie: evaluating it inside Lean's elaborator is too costly)

/-- a user binding hides the builtin: `fn h(len) { len + 1 }` reads its parameter; afterwards `len([1])` is the builtin again -/
example : (ofFnBody 50 [] "h" ["len"] (.mk 1 [.exprS 1 (.binary 1 "+" (.ident 1 "len" .get) (.int 1 1))]) 1).map (fun d => compileFn 0 d)
    = some [.getLocal 0, .const 0, .op .add, .retv] := by rfl
example : (ofTops 50 ⟨0, [], []⟩ 0 [.block (.mk 1 [.letS 1 0 "len" (.int 1 7)]), .exprS 2 (.call 2 (.ident 2 "len" .get) [.arr 2 []])]).map
      (fun r => compileT 0 0 r.1)
    = some [.const 0, .defGlobal 0, .getBuiltin 0, .array 0, .call 1, .pop] := by rfl

/-! ### the heap stays well-formed: every literal of a program run from the empty heap is fresh -/

/-- `a'` comes from `a` by allocations and updates: well-formedness is kept, the allocation counter never goes back -/
structure Ext (a a' : Heap) : Prop where
  wf : WF a → WF a'
  mono : a.next ≤ a'.next

theorem Ext.refl (a : Heap) : Ext a a := ⟨id, Nat.le_refl _⟩
theorem Ext.trans {a b c : Heap} (h1 : Ext a b) (h2 : Ext b c) : Ext a c := ⟨fun h => h2.wf (h1.wf h), Nat.le_trans h1.mono h2.mono⟩

theorem ext_allocH (a : Heap) (o : HObj) : Ext a (allocH a o).1 :=
  ⟨fun h => wf_allocH h o, by rw [(get_allocH a o 0).2.1]; omega⟩

theorem ext_setH (a : Heap) (id : Nat) (o : HObj) : Ext a (setH a id o) := by
  cases a with
  | mk objs next =>
    refine ⟨?_, Nat.le_refl _⟩
    intro hwf p hp
    simp only [setH, List.mem_map] at hp
    obtain ⟨q, hq, rfl⟩ := hp
    by_cases h : q.1 = id
    · have := hwf q hq
      simp [h]; rw [← h]; exact this
    · simp [h]; exact hwf q hq

mutual
theorem ext_storeNew : ∀ (v : Val) (a : Heap), Ext a (storeNew a v).2
  | .arr id xs, a => by
    unfold storeNew
    by_cases h : (id != 0) = true
    · simp only [h, if_true]; exact Ext.refl a
    · simp only [h, Bool.false_eq_true, if_false]
      exact (ext_storeList xs a).trans (ext_allocH _ _)
  | .map id kvs, a => by
    unfold storeNew
    by_cases h : (id != 0) = true
    · simp only [h, if_true]; exact Ext.refl a
    · simp only [h, Bool.false_eq_true, if_false]
      exact (ext_storePairs kvs a).trans (ext_allocH _ _)
  | .null, a | .bool _, a | .int _, a | .float _, a | .char _, a | .byte _, a | .str _, a | .builtin _, a | .func _, a
  | .clos .., a | .file _, a | .err _, a | .other _, a => by simp [storeNew]; exact Ext.refl a
theorem ext_storeList : ∀ (vs : List Val) (a : Heap), Ext a (storeList a vs).2
  | [], a => by simp [storeList]; exact Ext.refl a
  | v :: rest, a => by
    unfold storeList
    exact (ext_storeNew v a).trans (ext_storeList rest _)
theorem ext_storePairs : ∀ (ps : List (Val × Val)) (a : Heap), Ext a (storePairs a ps).2
  | [], a => by simp [storePairs]; exact Ext.refl a
  | (k, v) :: rest, a => by
    unfold storePairs
    exact ((ext_storeNew k a).trans (ext_storeNew v _)).trans (ext_storePairs rest _)
end


theorem ext_opH {a a' : Heap} {o : Operator} {l r v : Val} (h : opH a o l r = .new v a') : Ext a a' := by
  unfold opH at h
  split at h
  · simp only [OpOut.new.injEq] at h; rw [← h.2]; exact ext_storeNew _ _
  · simp only [OpOut.new.injEq] at h; rw [← h.2]; exact ext_storeNew _ _
  · split at h <;> simp at h
  · simp at h
  · simp at h

theorem ext_mkArr {a a' : Heap} {vs : List Val} {v : Val} (h : mkArr a vs = (v, a')) : Ext a a' := by
  simp only [mkArr, Prod.mk.injEq] at h
  rw [← h.2]; exact ext_allocH _ _

theorem ext_mkMap {a a' : Heap} {vs : List Val} {v : Val} (h : mkMap a vs = some (v, a')) : Ext a a' := by
  unfold mkMap at h
  split at h
  · simp only [Option.some.injEq, Prod.mk.injEq] at h; rw [← h.2]; exact ext_allocH _ _
  · simp at h

theorem ext_setIndexH {a a' : Heap} {c i v : Val} (h : setIndexH a c i v = some a') : Ext a a' := by
  unfold setIndexH at h
  split at h
  · split at h
    · simp at h
    · split at h
      · simp only [Option.some.injEq] at h; rw [← h]; exact ext_setH _ _ _
      · simp at h
  · split at h
    · simp only [Option.some.injEq] at h; rw [← h]; exact ext_setH _ _ _
    · simp at h
  · simp at h

theorem ext_writeBack (a : Heap) (args : List Val) (nf : Val) : Ext a (writeBack a args nf) := by
  unfold writeBack
  split
  · exact (ext_storeList _ a).trans (ext_setH _ _ _)
  · exact (ext_storePairs _ a).trans (ext_setH _ _ _)
  · exact Ext.refl a

theorem ext_callBuiltinH {a a' : Heap} {name : String} {vs : List Val} {v : Val} (h : callBuiltinH a name vs = some (v, a')) : Ext a a' := by
  unfold callBuiltinH at h
  split at h
  · rename_i w _
    simp only [Option.some.injEq] at h
    have := ext_storeNew w a
    rw [h] at this; exact this
  · rename_i ret nf _
    split at h
    · simp only [Option.some.injEq, Prod.mk.injEq] at h; rw [← h.2]; exact ext_writeBack _ _ _
    · simp only [Option.some.injEq] at h
      have h2 := ext_storeNew ret (writeBack a vs nf)
      rw [h] at h2
      exact (ext_writeBack _ _ _).trans h2
  · simp at h


structure HExt (Φ : FnDef → Option FDecl) (fuel : Nat) : Prop where
  E : ∀ cx σ e v σ', Fn.evalE Φ fuel cx σ e = some (v, σ') → Ext σ.a σ'.a
  Arms : ∀ cx σ w a v σ', Fn.evalArms Φ fuel cx σ w a = some (v, σ') → Ext σ.a σ'.a
  Args : ∀ cx σ a vs σ', Fn.evalArgs Φ fuel cx σ a = some (vs, σ') → Ext σ.a σ'.a
  S : ∀ cx σ s σ' f bv, Fn.evalS Φ fuel cx σ s = some (σ', f, bv) → Ext σ.a σ'.a
  P : ∀ cx σ ss σ' f bv, Fn.evalP Φ fuel cx σ ss = some (σ', f, bv) → Ext σ.a σ'.a

theorem hext_succ {Φ : FnDef → Option FDecl} (fuel : Nat) (ih : HExt Φ fuel) : HExt Φ (fuel + 1) := by
  have hE := ih.E
  have hA := ih.Arms
  have hG := ih.Args
  have hS := ih.S
  have hP := ih.P
  have htr := @Ext.trans
  have hrf := Ext.refl
  have e1 := @ext_opH
  have e2 := @ext_mkArr
  have e3 := @ext_mkMap
  have e4 := @ext_setIndexH
  have e5 := @ext_callBuiltinH
  refine ⟨?_, ?_, ?_, ?_, ?_⟩
  · intro cx σ e v σ' he
    cases e with
    | call l f args =>
      simp only [Fn.evalE, Sto.setA_eq, Sto.enter_eq, Sto.back_eq] at he
      cases hef : Fn.evalE Φ fuel cx σ f with
      | none => simp [hef] at he
      | some rf =>
        obtain ⟨vf, σ1⟩ := rf
        simp only [hef] at he
        cases hea : Fn.evalArgs Φ fuel cx σ1 args with
        | none => simp [hea] at he
        | some ra =>
          obtain ⟨vs, σ2⟩ := ra
          simp only [hea] at he
          have h1 := hE _ _ _ _ _ hef
          have h2 := hG _ _ _ _ _ hea
          cases vf with
          | clos fd fr id =>
            simp only at he
            cases hd : Φ fd with
            | none => simp [hd] at he
            | some d =>
              simp only [hd] at he
              by_cases har : vs.length = d.np
              · simp only [har, if_true] at he
                cases hb : Fn.evalP Φ fuel (some (fd, id)) ⟨vs ++ List.replicate (d.nl - d.np) .null, σ2.g, σ2.h, σ2.a⟩ d.body with
                | none => simp [hb] at he
                | some rb =>
                  obtain ⟨σ3, fb, bv⟩ := rb
                  have h3 := hP _ _ _ _ _ _ hb
                  simp only [hb] at he
                  have : σ'.a = σ3.a := by
                    cases fb <;> simp at he <;> rw [← he.2]
                  rw [this]
                  exact (h1.trans h2).trans h3
              · simp [har] at he
          | builtin name =>
            simp only at he
            cases hr : callBuiltinH σ2.a name vs with
            | none => simp [hr] at he
            | some ra =>
              obtain ⟨r, a'⟩ := ra
              simp only [hr, Option.some.injEq, Prod.mk.injEq] at he
              rw [← he.2]
              exact (h1.trans h2).trans (ext_callBuiltinH hr)
          | _ => simp at he
    | setIndex l c i e =>
      simp only [Fn.evalE, Sto.setA_eq] at he
      cases h1 : Fn.evalE Φ fuel cx σ e with
      | none => simp [h1] at he
      | some r1 =>
        obtain ⟨v1, σ1⟩ := r1
        simp only [h1] at he
        cases h2 : Fn.evalE Φ fuel cx σ1 c with
        | none => simp [h2] at he
        | some r2 =>
          obtain ⟨v2, σ2⟩ := r2
          simp only [h2] at he
          cases h3 : Fn.evalE Φ fuel cx σ2 i with
          | none => simp [h3] at he
          | some r3 =>
            obtain ⟨v3, σ3⟩ := r3
            simp only [h3] at he
            cases h4 : setIndexH σ3.a v2 v3 v1 with
            | none => simp [h4] at he
            | some a' =>
              simp only [h4, Option.some.injEq, Prod.mk.injEq] at he
              rw [← he.2]
              exact (((hE _ _ _ _ _ h1).trans (hE _ _ _ _ _ h2)).trans (hE _ _ _ _ _ h3)).trans (ext_setIndexH h4)
    | _ => simp only [Fn.evalE, Sto.setA_eq, Sto.gset_eq, Sto.lset_eq, Sto.setH_eq, Sto.pushH_eq, Sto.enter_eq, Sto.back_eq] at he <;> grind
  · intro cx σ w a v σ' he
    cases a <;> simp only [Fn.evalArms] at he <;> grind
  · intro cx σ a vs σ' he
    cases a <;> simp only [Fn.evalArgs] at he <;> grind
  · intro cx σ s σ' f bv he
    cases s <;> simp only [Fn.evalS, Sto.gset_eq, Sto.lset_eq] at he <;> grind
  · intro cx σ ss σ' f bv he
    cases ss <;> simp only [Fn.evalP] at he <;> grind


/-- **the heap of arrays and maps stays well-formed, its allocation counter never goes back** — along
every evaluation (expressions, arms, arguments, statements, blocks; calls of closures and of builtins included) -/
theorem hext_all {Φ : FnDef → Option FDecl} : ∀ fuel, HExt Φ fuel
  | 0 => ⟨by intro _ _ _ _ _ he; simp [Fn.evalE] at he, by intro _ _ _ _ _ _ he; simp [Fn.evalArms] at he,
          by intro _ _ _ _ _ he; simp [Fn.evalArgs] at he, by intro _ _ _ _ _ _ he; simp [Fn.evalS] at he,
          by intro _ _ _ _ _ _ he; simp [Fn.evalP] at he⟩
  | fuel+1 => hext_succ fuel (hext_all fuel)

/-- **a literal evaluated twice allocates twice**: whatever is evaluated in between (`mid`: any statements — calls, loops,
other literals, index assignments, mutating builtins), two evaluations of array literals yield references to DIFFERENT
objects (`id2 > id1`), and — when the heap was well-formed before, as the empty heap of a program's start is — each of them
was unused when it was allocated -/
theorem array_literal_twice {Φ : FnDef → Option FDecl} (f1 fm f2 : Nat) (cx : Option (FnDef × Nat)) (σ σ1 σ2 σ3 : Sto)
    (l1 l2 : Nat) (es1 es2 : FArgs) (mid : List FStmt) (v1 v2 : Val) (fl : FFlow) (bv : Val)
    (h1 : Fn.evalE Φ (f1 + 1) cx σ (.arrLit l1 es1) = some (v1, σ1))
    (hm : Fn.evalP Φ fm cx σ1 mid = some (σ2, fl, bv))
    (h2 : Fn.evalE Φ (f2 + 1) cx σ2 (.arrLit l2 es2) = some (v2, σ3)) :
    ∃ id1 id2, v1 = .arr id1 [] ∧ v2 = .arr id2 [] ∧ id1 < id2 ∧
      (WF σ.a → σ1.a.get? id2 = none ∧ WF σ3.a) := by
  obtain ⟨vs1, τ1, ha1, rfl, _, _, _, _, hn1, _, hw1⟩ := array_literal_fresh f1 cx σ σ1 l1 es1 v1 h1
  obtain ⟨vs2, τ2, ha2, rfl, _, _, _, _, hn2, _, hw2⟩ := array_literal_fresh f2 cx σ2 σ3 l2 es2 v2 h2
  have e0 := (hext_all (Φ := Φ) f1).Args _ _ _ _ _ ha1
  have e1 := (hext_all (Φ := Φ) fm).P _ _ _ _ _ _ hm
  have e2 := (hext_all (Φ := Φ) f2).Args _ _ _ _ _ ha2
  have hlt : τ1.a.next < τ2.a.next := by
    have := Nat.le_trans e1.mono e2.mono
    omega
  refine ⟨_, _, rfl, rfl, hlt, ?_⟩
  intro hwf
  have hwτ1 : WF τ1.a := e0.wf hwf
  have hwσ1 : WF σ1.a := (hw1 hwτ1).2
  have hwτ2 : WF τ2.a := e2.wf (e1.wf hwσ1)
  refine ⟨?_, (hw2 hwτ2).2⟩
  -- no object of `σ1.a` has the id of the second literal: all its ids are below its counter
  unfold Heap.get?
  cases hf : σ1.a.objs.find? (fun p => p.1 == τ2.a.next) with
  | none => rfl
  | some p =>
    have hm' := List.mem_of_find?_eq_some hf
    have hp := List.find?_some hf
    have hb := hwσ1 p hm'
    simp only [beq_iff_eq] at hp
    have : σ1.a.next ≤ τ2.a.next := Nat.le_trans e1.mono e2.mono
    omega

end Containers
end P2sh.Props.C02
