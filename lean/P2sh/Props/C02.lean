import P2sh.Core.Prog
import P2sh.Core.Encode
import P2sh.Core.Fn.Prog
/-!
# C02 — compiled programs behave as the reference semantics prescribe (core fragment)

`P2sh.Core` presents the core fragment: `Core.eval`/`Core.evalP` (reference evaluation: left to
right, `<`/`<=` right operand first, short circuit, one branch), `Core.compile`/`compileP` (the
bytes the real compiler emits — compared byte-for-byte on every run by the `core` op) and
`Core.step` (the VM's dispatch — compared with the real VM by the same op).

Closed here, for **every** expression / statement list, any nesting depth:

* `compile_sound_core` — running the compiled program from the empty stack reaches the end of
  the code with the empty stack and exactly the globals the reference evaluation yields;
* `expr_sound` — an expression's code pushes exactly its reference value (anywhere in a larger
  code, with any stack underneath);
* `lt_swaps_operands` / `le_swaps_operands` — the right operand's effects happen first;
* `assign_value_stays` — an assignment leaves the assigned value as its value.

The fragment: literals, operators, `&&` `||`, `if`/`else` and `match` expressions, global `let`
and assignment, blocks, `while` / `loop` with plain and labelled `break` / `continue` in
statement position, statement-level `if`.

**Functions and closures** (`P2sh.Core.Fn`, a layer over the core fragment): function
definitions (`fn f(…) {…}`, `let f = fn(…) {…};`, `f = fn(…) {…};`), parameters and local `let`s
(stack slots), `return e;` / `return;` / the implicit return of a final expression statement,
calls, recursion through the function's own name (`CurrClosure`) and through globals, the arity
check — and CLOSURES: function literals and `fn` statements written inside function bodies and
blocks, at any nesting depth, capturing parameters, locals, captured values (capture chains
through intermediate functions) and the own name of the functions enclosing them; closures as
first-class values (returned, stored in globals and locals, passed as arguments, called after the
function that created them returned); reads of (`GetFree`) and assignments to (`SetFree`) the
closure's own copy of a captured variable, the copy being shared by every activation of one
closure object.  `compile_sound_functions`: every terminating run of every such program is
reproduced by the machine with frames on the compiled program (main code, constant pool with the
function constants, one code per function constant), from the empty stack and no frame back to
the empty stack and no frame, with the same globals and the same closure objects.  Tied byte for
byte (main code, every function's code — nested ones included —, line tables, `num_locals`,
`num_params`, the operands of `Closure` and the loads before it) and run for run with the real
compiler and VM by the `core` op.  What a closure captures and keeps: `Props/C04Closure.lean`.

Open (stated in DESIGN §6): the same for arrays, maps, index expressions — covered by the
three-way differential run (real pipeline / Lean VM model on the real bytecode / Lean reference
semantics).
-/
namespace P2sh.Props.C02
open P2sh P2sh.Core

theorem expr_sound (e : CExpr) (C : List Instr) (K : List Val) (pos k : Nat) (stk g : List Val) (v : Val) (g' : List Val)
    (h : codeAt C pos (compile pos k e)) (hp : poolAt K k (consts e)) (he : eval g e = some (v, g')) :
    Steps C K ⟨pos, stk, g⟩ ⟨pos + bytes (compile pos k e), v :: stk, g'⟩ :=
  compile_correct e C K pos k stk g v g' h hp he

/-- every terminating run (any fuel) of every program of the fragment — `let`, expression
statements, blocks, `while` / `loop` with `break` / `continue` (plain and labelled), `if` with
statement blocks — is reproduced by the compiled code, from the empty stack back to the empty
stack (`.normal`: no `break` / `continue` escapes the program — the compiler rejects those) -/
theorem compile_sound_core (fuel : Nat) (ss : List CStmt) (g g' : List Val) (he : evalP fuel g ss = some (g', .normal)) :
    Steps (compileP 0 0 [] ss) (constsP ss) ⟨0, [], g⟩ ⟨bytes (compileP 0 0 [] ss), [], g'⟩ :=
  program_correct fuel ss g g' he

/-- `a < b` evaluates `b` first: the globals `a` sees are those `b` left -/
theorem lt_swaps_operands (a b : CExpr) (g : List Val) :
    eval g (.lt a b) =
      (match eval g b with
       | some (vb, g1) =>
         (match eval g1 a with
          | some (va, g2) => (match execOperator .greater vb va with | .ok r => some (r, g2) | _ => none)
          | none => none)
       | none => none) := rfl

theorem le_swaps_operands (a b : CExpr) (g : List Val) :
    eval g (.le a b) =
      (match eval g b with
       | some (vb, g1) =>
         (match eval g1 a with
          | some (va, g2) => (match execOperator .greaterEq vb va with | .ok r => some (r, g2) | _ => none)
          | none => none)
       | none => none) := rfl

theorem assign_value_stays (i : Nat) (e : CExpr) (g : List Val) (v : Val) (g1 : List Val)
    (h : eval g e = some (v, g1)) (hi : i < g1.length) : eval g (.gset i e) = some (v, g1.set i v) := by
  simp [eval, h, hi]

/-- non-vacuity: `let x = 1 + 2 * 3; x = x - 1;` runs to globals `[6]` on the compiled code -/
example : evalP 10 [.null] [.letG 0 (.bin .add (.lit (.int 1)) (.bin .mul (.lit (.int 2)) (.lit (.int 3)))),
                         .expr (.gset 0 (.bin .sub (.gget 0) (.lit (.int 1))))] = some ([.int 6], .normal) := by
  rfl

/-- non-vacuity with a loop: `let i = 0; let s = 0; while i < 3 { i = i + 1; { s = s + i; } }` ends with `[3, 6]` -/
example : evalP 40 [.null, .null]
    [.letG 0 (.lit (.int 0)), .letG 1 (.lit (.int 0)),
     .whileS none (.lt (.gget 0) (.lit (.int 3)))
       [.expr (.gset 0 (.bin .add (.gget 0) (.lit (.int 1)))),
        .block [.expr (.gset 1 (.bin .add (.gget 1) (.gget 0)))]]] = some ([.int 3, .int 6], .normal) := by
  rfl


/-! ## functions and closures -/

open P2sh.Core.Fn in
/-- **functions, recursion, closures**: every terminating run (any fuel) of every program of `Core.Fn` —
top-level statements and function definitions; bodies with parameters, locals, loops, `return`
from any nesting, implicit returns; calls, recursion, mutual recursion through globals — is
reproduced by the compiled program: main code `compileT`, pool `constsT` (every function
constant after the constants of its body), the code of every function constant `codeT`
(positions from 0).  From the empty stack and no frame to the empty stack and no frame, with
the globals of the reference evaluation. -/
theorem compile_sound_functions (fuel : Nat) (T : List FTop) (g g' : List Val) (h h' : List (List Val))
    (he : evalT (phiT T) fuel g h T = some (g', h')) :
    FSteps (constsT T) (codeT T)
      ⟨⟨compileT 0 0 T, ⟨[], [], 0, 0, 0⟩, 0, 0, 0⟩, [], g, h, []⟩
      ⟨⟨compileT 0 0 T, ⟨[], [], 0, 0, 0⟩, 0, bytes (compileT 0 0 T), 0⟩, [], g', h', []⟩ :=
  program_correct_fn fuel T g g' h h' he

open P2sh.Core.Fn in
/-- an expression with calls inside — anywhere in the code of a running function or of the top
level, with any operands underneath — pushes exactly its reference value; the local slots of
the running activation and the globals end as the reference evaluation says -/
theorem expr_sound_functions {Φ : FnDef → Option FDecl} {K : List Val} {F : FnDef → Option (List Instr)} (hL : Linked Φ K F)
    (fuel : Nat) (e : FExpr) (X : Ctxt) (pos k : Nat) (ops : List Val) (cx : Option (FnDef × Nat)) (σ σ' : Sto) (v : Val)
    (h : codeAt X.code pos (compileE pos k e)) (hp : poolAt K k (constsE e)) (hx : Agree cx X)
    (he : evalE Φ fuel cx σ e = some (v, σ')) :
    FSteps K F (X.st pos ops σ) (X.st (pos + bytes (compileE pos k e)) (v :: ops) σ') :=
  (sound_all hL fuel).E e X pos k ops cx σ σ' v h hp hx he

open P2sh.Core.Fn in
/-- the function constants of a compiled program are linked with their declarations and their
code (the hypothesis of `expr_sound_functions` holds for every compiled program) -/
theorem compiled_program_linked (T : List FTop) : Linked (phiT T) (constsT T) (codeT T) := linked_program T

namespace FnExamples
open P2sh.Core.Fn

def argsOf : List FExpr → FArgs
  | [] => .nil
  | a :: r => .cons a (argsOf r)

/-- `fn fact(n) { if n < 2 { 1 } else { n * fact(n - 1) } }` — recursion through `CurrClosure` -/
def factD : FDecl := ⟨1, 1, [.ifS 1 1 (.lt 1 (.lget 1 0) (.lit 1 (.int 2))) [.expr 1 (.lit 1 (.int 1))]
   [.expr 1 (.bin 1 .mul (.lget 1 0) (.call 1 (.curr 1) (argsOf [.bin 1 .sub (.lget 1 0) (.lit 1 (.int 1))])))]], 1⟩

/-- `fn fact(n) {…}  let r = fact(5);` -/
def factProg (n : Int64) : List FTop :=
  [.fnDef 1 0 [] [] factD, .stmt (.letG 2 1 (.call 2 (.gget 2 0) (argsOf [.lit 2 (.int n)])))]

/-- non-vacuity: `fact(5)` is `120` in the reference evaluation … -/
example : evalT (phiT (factProg 5)) 40 [.null, .null] [[]] (factProg 5) = some ([.clos (mkFd [] [] factD) [] 1, .int 120], [[], []]) := by rfl

/-- … the body's code: the last `Pop` has become `ReturnValue` (the implicit return) … -/
example : compileFn 0 factD =
    [.const 0, .getLocal 0, .op .greater, .jif 15, .const 1, .jump 27,
     .getLocal 0, .currClosure, .getLocal 0, .const 2, .op .sub, .call 1, .op .mul, .retv] := by rfl

/-- … and the machine, run on the compiled program, ends with the same globals, the empty stack, no frame -/
example : frun (constsT (factProg 3)) (codeT (factProg 3)) 200 ⟨⟨compileT 0 0 (factProg 3), ⟨[], [], 0, 0, 0⟩, 0, 0, 0⟩, [], [.null, .null], [[]], []⟩
    = .done ⟨⟨compileT 0 0 (factProg 3), ⟨[], [], 0, 0, 0⟩, 0, bytes (compileT 0 0 (factProg 3)), 0⟩, [],
             [.clos (mkFd [] [] factD) [] 1, .int 6], [[], []], []⟩ := by rfl

/-- `let odd = null; fn even(n) { if n == 0 { true } else { odd(n - 1) } }
odd = fn(n) { if n == 0 { false } else { even(n - 1) } };` — mutual recursion through globals -/
def evenD : FDecl := ⟨1, 1, [.ifS 2 2 (.bin 2 .equal (.lget 2 0) (.lit 2 (.int 0))) [.expr 2 (.tru 2)]
   [.expr 2 (.call 2 (.gget 2 0) (argsOf [.bin 2 .sub (.lget 2 0) (.lit 2 (.int 1))]))]], 2⟩
def oddD : FDecl := ⟨1, 1, [.ifS 3 3 (.bin 3 .equal (.lget 3 0) (.lit 3 (.int 0))) [.expr 3 (.fls 3)]
   [.expr 3 (.call 3 (.gget 3 1) (argsOf [.bin 3 .sub (.lget 3 0) (.lit 3 (.int 1))]))]], 3⟩
def evenOddProg (n : Int64) : List FTop :=
  [.stmt (.letG 1 0 (.null 1)), .fnDef 2 1 [0] [] evenD, .fnSet 3 3 0 [1] [] oddD,
   .stmt (.letG 4 2 (.call 4 (.gget 4 1) (argsOf [.lit 4 (.int n)])))]

example : evalT (phiT (evenOddProg 4)) 60 [.null, .null, .null] [[]] (evenOddProg 4)
    = some ([.clos (mkFd [1] [] oddD) [] 2, .clos (mkFd [0] [] evenD) [] 1, .bool true], [[], [], []]) := by rfl
example : evalT (phiT (evenOddProg 3)) 60 [.null, .null, .null] [[]] (evenOddProg 3)
    = some ([.clos (mkFd [1] [] oddD) [] 2, .clos (mkFd [0] [] evenD) [] 1, .bool false], [[], [], []]) := by rfl

/-- `fn root(n) { let i = 0; while true { loop { if i * i > n { return i; } i = i + 1; } } }` — an
early `return` from inside two nested loops; parameter = slot 0, the local `i` = slot 1 -/
def rootD : FDecl := ⟨1, 2,
  [.letL 1 1 (.lit 1 (.int 0)),
   .whileS 2 none (.tru 2)
     [.loopS 3 none
        [.ifS 4 4 (.bin 4 .greater (.bin 4 .mul (.lget 4 1) (.lget 4 1)) (.lget 4 0)) [.ret 4 (.lget 4 1)] [],
         .expr 5 (.lset 5 1 (.bin 5 .add (.lget 5 1) (.lit 5 (.int 1))))]]], 1⟩
def rootProg (n : Int64) : List FTop :=
  [.fnDef 1 0 [] [] rootD, .stmt (.letG 8 1 (.bin 8 .add (.lit 8 (.int 100)) (.call 8 (.gget 8 0) (argsOf [.lit 8 (.int n)]))))]

/-- the call inside `100 + root(10)` returns from the two loops with the pending operand `100` intact -/
example : evalT (phiT (rootProg 10)) 60 [.null, .null] [[]] (rootProg 10) = some ([.clos (mkFd [] [] rootD) [] 1, .int 104], [[], []]) := by rfl

example : frun (constsT (rootProg 3)) (codeT (rootProg 3)) 300 ⟨⟨compileT 0 0 (rootProg 3), ⟨[], [], 0, 0, 0⟩, 0, 0, 0⟩, [], [.null, .null], [[]], []⟩
    = .done ⟨⟨compileT 0 0 (rootProg 3), ⟨[], [], 0, 0, 0⟩, 0, bytes (compileT 0 0 (rootProg 3)), 0⟩, [],
             [.clos (mkFd [] [] rootD) [] 1, .int 102], [[], []], []⟩ := by rfl

/-- `fn fact(n) {…}  let r = fact(5, 6);` — the wrong number of arguments is a runtime error: the
reference evaluation fails, and so does the machine (at the `Call`, with both arguments pushed) -/
def arityProg : List FTop :=
  [.fnDef 1 0 [] [] factD, .stmt (.letG 2 1 (.call 2 (.gget 2 0) (argsOf [.lit 2 (.int 5), .lit 2 (.int 6)])))]

example : evalT (phiT arityProg) 40 [.null, .null] [[]] arityProg = none := by rfl

example : (match frun (constsT arityProg) (codeT arityProg) 200 ⟨⟨compileT 0 0 arityProg, ⟨[], [], 0, 0, 0⟩, 0, 0, 0⟩, [], [.null, .null], [[]], []⟩ with
    | .stuck st => st.act.pc == 16 && st.stk.length == 3 && st.callers.isEmpty
    | _ => false) = true := by rfl

end FnExamples

end P2sh.Props.C02
