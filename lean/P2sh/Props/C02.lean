import P2sh.Core.Prog
import P2sh.Core.Encode
/-!
# C02 — compiled programs behave as the reference semantics prescribe (core fragment)

`P2sh.Core` presents the core fragment: `Core.eval`/`Core.evalP` (reference evaluation: left to
right, `<`/`<=` right operand first, short circuit, one branch), `Core.compile`/`compileP` (the
bytes the real compiler emits — compared byte-for-byte on every run by the `core` op) and
`Core.step` (the VM's dispatch — compared with the real VM by the same op).

Closed here, for **every** expression / statement list, any nesting depth:

* `compile_sound_core` — running the compiled program from the empty stack reaches the end of
  the code with the empty stack and exactly the globals the reference evaluation yields;
* `expr_sound` — an expression's code pushes exactly its reference value (anywhere in a larger
  code, with any stack underneath);
* `lt_swaps_operands` / `le_swaps_operands` — the right operand's effects happen first;
* `assign_value_stays` — an assignment leaves the assigned value as its value.

The fragment: literals, operators, `&&` `||`, `if`/`else` and `match` expressions, global `let`
and assignment, blocks, `while` / `loop` with plain and labelled `break` / `continue` in
statement position, statement-level `if`.
Open (stated in DESIGN §6): the same for functions, closures, arrays, maps, index expressions —
covered by the three-way differential run (real pipeline / Lean VM model on the real bytecode /
Lean reference semantics).
-/
namespace P2sh.Props.C02
open P2sh P2sh.Core

theorem expr_sound (e : CExpr) (C : List Instr) (K : List Val) (pos k : Nat) (stk g : List Val) (v : Val) (g' : List Val)
    (h : codeAt C pos (compile pos k e)) (hp : poolAt K k (consts e)) (he : eval g e = some (v, g')) :
    Steps C K ⟨pos, stk, g⟩ ⟨pos + bytes (compile pos k e), v :: stk, g'⟩ :=
  compile_correct e C K pos k stk g v g' h hp he

/-- every terminating run (any fuel) of every program of the fragment — `let`, expression
statements, blocks, `while` / `loop` with `break` / `continue` (plain and labelled), `if` with
statement blocks — is reproduced by the compiled code, from the empty stack back to the empty
stack (`.normal`: no `break` / `continue` escapes the program — the compiler rejects those) -/
theorem compile_sound_core (fuel : Nat) (ss : List CStmt) (g g' : List Val) (he : evalP fuel g ss = some (g', .normal)) :
    Steps (compileP 0 0 [] ss) (constsP ss) ⟨0, [], g⟩ ⟨bytes (compileP 0 0 [] ss), [], g'⟩ :=
  program_correct fuel ss g g' he

/-- `a < b` evaluates `b` first: the globals `a` sees are those `b` left -/
theorem lt_swaps_operands (a b : CExpr) (g : List Val) :
    eval g (.lt a b) =
      (match eval g b with
       | some (vb, g1) =>
         (match eval g1 a with
          | some (va, g2) => (match execOperator .greater vb va with | .ok r => some (r, g2) | _ => none)
          | none => none)
       | none => none) := rfl

theorem le_swaps_operands (a b : CExpr) (g : List Val) :
    eval g (.le a b) =
      (match eval g b with
       | some (vb, g1) =>
         (match eval g1 a with
          | some (va, g2) => (match execOperator .greaterEq vb va with | .ok r => some (r, g2) | _ => none)
          | none => none)
       | none => none) := rfl

theorem assign_value_stays (i : Nat) (e : CExpr) (g : List Val) (v : Val) (g1 : List Val)
    (h : eval g e = some (v, g1)) (hi : i < g1.length) : eval g (.gset i e) = some (v, g1.set i v) := by
  simp [eval, h, hi]

/-- non-vacuity: `let x = 1 + 2 * 3; x = x - 1;` runs to globals `[6]` on the compiled code -/
example : evalP 10 [.null] [.letG 0 (.bin .add (.lit (.int 1)) (.bin .mul (.lit (.int 2)) (.lit (.int 3)))),
                         .expr (.gset 0 (.bin .sub (.gget 0) (.lit (.int 1))))] = some ([.int 6], .normal) := by
  rfl

/-- non-vacuity with a loop: `let i = 0; let s = 0; while i < 3 { i = i + 1; { s = s + i; } }` ends with `[3, 6]` -/
example : evalP 40 [.null, .null]
    [.letG 0 (.lit (.int 0)), .letG 1 (.lit (.int 0)),
     .whileS none (.lt (.gget 0) (.lit (.int 3)))
       [.expr (.gset 0 (.bin .add (.gget 0) (.lit (.int 1)))),
        .block [.expr (.gset 1 (.bin .add (.gget 1) (.gget 0)))]]] = some ([.int 3, .int 6], .normal) := by
  rfl

end P2sh.Props.C02
