import P2sh.Model.Proto
import P2sh.Spec.Rfc
import P2sh.Props.C16
import P2sh.Props.C16More
import P2sh.Props.C17
import P2sh.Props.C18
import P2sh.Props.C18More
/-!
# C17, continued — the written bytes, and addresses assigned from text

* `set_bytes_local` — stated on bytes: after an accepted assignment to a numeric field of an Ethernet, VLAN, IPv4, IPv6,
  TCP or UDP header whose fields are within their widths (`HdrWf`: what `from_bytes` produces, `parse_wf`), the
  serialised header is the old one with the bits `Rfc.layout` gives the field replaced by the value the getter now
  returns (`Rfc.setBits`, the function the reference state `Rfc.SState.patch` uses): no bit outside the range changes.
  `pcap_set_bytes_local` is the little-endian record header, `vlan_dei_bytes_local` the one flag.
  Tools: `setBits_local` / `setBits_splice` (a change confined to the covering bytes), `setByte_outside`,
  `setByte_inside`, `setByte_part`.
* `eth_assign_addr`, `ipv4_assign_addr`, `ipv6_assign_addr` — an address property assigned from any text the model's
  `from_str` accepts: accepted, still well-formed, unchanged by serialise + re-parse, reads back as the text of the
  parsed address, other properties as before.  `*_assign_text_roundtrip`: assigning the text of address `a` and
  re-parsing reads the text of `a` (C18 round trips).  `set_wf`: accepted assignments keep `HdrWf`; `setBits_frame`: the
  same change seen in the whole frame, where the reference patches the bits at `8·offset + o`.  `*_assign_reference`: for a text the reference parser calls
  standard the value read back is the reference's rendering of the reference's value (C18 `*_reference_standard`,
  C16 `*_text_is_reference`).
-/
namespace P2sh.Props.C17
open P2sh P2sh.Proto P2sh.Spec
open P2sh.Props.C16 (hdrLayer)

/-! ## `setBits`, byte by byte -/

/-- byte `j` of `setBits _ o w v` when the old byte there is `b` -/
def setByte (b j o w v : Nat) : Nat :=
  (List.range 8).foldl (fun acc k =>
    acc * 2 + (if o ≤ 8 * j + k ∧ 8 * j + k < o + w then v / 2 ^ (o + w - 1 - (8 * j + k)) % 2 else b / 2 ^ (7 - k) % 2)) 0

theorem setBits_length (bs : List Nat) (o w v : Nat) : (Rfc.setBits bs o w v).length = bs.length := by
  simp [Rfc.setBits]

theorem bitAt_byte (bs : List Nat) (j k : Nat) (hk : k < 8) :
    Rfc.bitAt bs (8 * j + k) = Rfc.byteAt bs j / 2 ^ (7 - k) % 2 := by
  have e1 : (8 * j + k) / 8 = j := by omega
  have e2 : (8 * j + k) % 8 = k := by omega
  simp [Rfc.bitAt, e1, e2]

theorem setBits_getElem (bs : List Nat) (o w v j : Nat) (hj : j < (Rfc.setBits bs o w v).length) :
    (Rfc.setBits bs o w v)[j] = setByte (Rfc.byteAt bs j) j o w v := by
  have e8 : List.range 8 = [0, 1, 2, 3, 4, 5, 6, 7] := by decide
  have b0 : Rfc.bitAt bs (8 * j) = Rfc.byteAt bs j / 2 ^ 7 % 2 := bitAt_byte bs j 0 (by omega)
  simp only [Rfc.setBits, setByte, List.getElem_map, List.getElem_range, e8]
  simp [List.foldl, bitAt_byte, b0]

theorem range8 : List.range 8 = [0, 1, 2, 3, 4, 5, 6, 7] := by decide

set_option maxRecDepth 100000 in
theorem bits_byte : ∀ y : Fin 256, (List.range 8).foldl (fun acc k => acc * 2 + y.val / 2 ^ (7 - k) % 2) 0 = y.val := by
  decide +kernel

/-- the eight bits of a number, most significant first, put together again: its low byte -/
theorem foldl_bits (x : Nat) : (List.range 8).foldl (fun acc k => acc * 2 + x / 2 ^ (7 - k) % 2) 0 = x % 256 := by
  have h := bits_byte ⟨x % 256, Nat.mod_lt _ (by decide)⟩
  simp only [range8, List.foldl] at h ⊢
  have t0 : x / 2 ^ (7 - 0) % 2 = x % 256 / 2 ^ (7 - 0) % 2 := by simp only [Nat.reducePow, Nat.reduceSub]; omega
  have t1 : x / 2 ^ (7 - 1) % 2 = x % 256 / 2 ^ (7 - 1) % 2 := by simp only [Nat.reducePow, Nat.reduceSub]; omega
  have t2 : x / 2 ^ (7 - 2) % 2 = x % 256 / 2 ^ (7 - 2) % 2 := by simp only [Nat.reducePow, Nat.reduceSub]; omega
  have t3 : x / 2 ^ (7 - 3) % 2 = x % 256 / 2 ^ (7 - 3) % 2 := by simp only [Nat.reducePow, Nat.reduceSub]; omega
  have t4 : x / 2 ^ (7 - 4) % 2 = x % 256 / 2 ^ (7 - 4) % 2 := by simp only [Nat.reducePow, Nat.reduceSub]; omega
  have t5 : x / 2 ^ (7 - 5) % 2 = x % 256 / 2 ^ (7 - 5) % 2 := by simp only [Nat.reducePow, Nat.reduceSub]; omega
  have t6 : x / 2 ^ (7 - 6) % 2 = x % 256 / 2 ^ (7 - 6) % 2 := by simp only [Nat.reducePow, Nat.reduceSub]; omega
  have t7 : x / 2 ^ (7 - 7) % 2 = x % 256 / 2 ^ (7 - 7) % 2 := by simp only [Nat.reducePow, Nat.reduceSub]; omega
  rw [t0, t1, t2, t3, t4, t5, t6, t7]
  exact h

theorem setByte_outside (b j o w v : Nat) (hb : b < 256) (h : 8 * j + 8 ≤ o ∨ o + w ≤ 8 * j) : setByte b j o w v = b := by
  have c : ∀ k, k < 8 → ¬ (o ≤ 8 * j + k ∧ 8 * j + k < o + w) := by intro k hk; omega
  have c0 := c 0 (by omega); have c1 := c 1 (by omega); have c2 := c 2 (by omega); have c3 := c 3 (by omega)
  have c4 := c 4 (by omega); have c5 := c 5 (by omega); have c6 := c 6 (by omega); have c7 := c 7 (by omega)
  have h := foldl_bits b
  rw [Nat.mod_eq_of_lt hb] at h
  simp only [range8, List.foldl] at h
  simp only [setByte, range8, List.foldl, c0, c1, c2, c3, c4, c5, c6, c7, if_false]
  exact h

theorem setByte_shift (b j o w v k : Nat) : setByte b (j + k) (o + 8 * k) w v = setByte b j o w v := by
  unfold setByte
  congr 1
  funext acc i
  have e1 : (o + 8 * k ≤ 8 * (j + k) + i ∧ 8 * (j + k) + i < o + 8 * k + w) ↔ (o ≤ 8 * j + i ∧ 8 * j + i < o + w) := by omega
  have e2 : o + 8 * k + w - 1 - (8 * (j + k) + i) = o + w - 1 - (8 * j + i) := by omega
  simp only [e1, e2]

theorem byteAt_eq_getElem (bs : List Nat) (j : Nat) (h : j < bs.length) : Rfc.byteAt bs j = bs[j] := by
  simp [Rfc.byteAt, List.getD_eq_getElem?_getD, List.getElem?_eq_getElem h]

/-- **splicing**: if `B` agrees with `A` before byte `k` and from byte `k + m` on, the `w` bits at `o` lie within bytes
`k … k + m − 1`, and those `m` bytes of `B` are those of `A` with the bits replaced, then `B` is `A` with the bits
replaced -/
theorem setBits_splice (A B : List Nat) (o w v k m : Nat) (hA : ∀ x ∈ A, x < 256) (hlen : A.length = B.length)
    (hk : 8 * k ≤ o) (hm : o + w ≤ 8 * (k + m))
    (hpre : A.take k = B.take k) (hpost : A.drop (k + m) = B.drop (k + m))
    (hmid : Rfc.setBits ((A.drop k).take m) (o - 8 * k) w v = (B.drop k).take m) :
    Rfc.setBits A o w v = B := by
  apply List.ext_getElem
  · rw [setBits_length, hlen]
  · intro j h1 h2
    rw [setBits_getElem]
    have hjA : j < A.length := by rw [setBits_length] at h1; exact h1
    rw [byteAt_eq_getElem A j hjA]
    have hb : A[j] < 256 := hA _ (List.getElem_mem hjA)
    by_cases c1 : j < k
    · rw [setByte_outside _ _ _ _ _ hb (by omega)]
      have e1 : (A.take k)[j]'(by simp; omega) = A[j] := by simp
      have e2 : (B.take k)[j]'(by simp; omega) = B[j] := by simp
      rw [← e1, ← e2]; simp only [hpre]
    · by_cases c2 : k + m ≤ j
      · rw [setByte_outside _ _ _ _ _ hb (by omega)]
        have e1 : (A.drop (k + m))[j - (k + m)]'(by simp; omega) = A[j] := by simp; congr 1; omega
        have e2 : (B.drop (k + m))[j - (k + m)]'(by simp; omega) = B[j] := by simp; congr 1; omega
        rw [← e1, ← e2]; simp only [hpost]
      · have hlm : ((A.drop k).take m).length = m ∨ True := Or.inr trivial
        have hjm : j - k < (Rfc.setBits ((A.drop k).take m) (o - 8 * k) w v).length := by
          rw [setBits_length]; simp; omega
        have e2 : ((B.drop k).take m)[j - k]'(by simp; omega) = B[j] := by simp; congr 1; omega
        have e3 := setBits_getElem ((A.drop k).take m) (o - 8 * k) w v (j - k) hjm
        have e4 : Rfc.byteAt ((A.drop k).take m) (j - k) = A[j] := by
          rw [byteAt_eq_getElem _ _ (by simp; omega)]; simp; congr 1; omega
        rw [e4] at e3
        have e5 := setByte_shift A[j] (j - k) (o - 8 * k) w v k
        have e6 : j - k + k = j := by omega
        have e7 : o - 8 * k + 8 * k = o := by omega
        rw [e6, e7] at e5
        rw [e5, ← e3, ← e2]
        simp only [hmid]


/-- the same with the covering bytes computed from the bit range -/
theorem setBits_local (A B : List Nat) (o w v : Nat) (hA : ∀ x ∈ A, x < 256) (hlen : A.length = B.length)
    (hpre : A.take (o / 8) = B.take (o / 8)) (hpost : A.drop ((o + w + 7) / 8) = B.drop ((o + w + 7) / 8))
    (hmid : Rfc.setBits ((A.drop (o / 8)).take ((o + w + 7) / 8 - o / 8)) (o % 8) w v =
      (B.drop (o / 8)).take ((o + w + 7) / 8 - o / 8)) :
    Rfc.setBits A o w v = B := by
  have e : o / 8 + ((o + w + 7) / 8 - o / 8) = (o + w + 7) / 8 := by omega
  have e' : o - 8 * (o / 8) = o % 8 := by omega
  exact setBits_splice A B o w v (o / 8) ((o + w + 7) / 8 - o / 8) hA hlen (by omega) (by omega) hpre
    (by rw [e]; exact hpost) (by rw [e']; exact hmid)

theorem setBits_eq_map (bs : List Nat) (o w v : Nat) :
    Rfc.setBits bs o w v = (List.range bs.length).map (fun j => setByte (Rfc.byteAt bs j) j o w v) := by
  apply List.ext_getElem
  · simp [setBits_length]
  · intro j h1 h2
    rw [setBits_getElem]; simp

/-- a byte that lies wholly inside the range is the corresponding byte of the value -/
theorem setByte_inside (b j o w v : Nat) (h1 : o ≤ 8 * j) (h2 : 8 * j + 8 ≤ o + w) :
    setByte b j o w v = v / 2 ^ (o + w - 8 * j - 8) % 256 := by
  have c : ∀ k, k < 8 → (o ≤ 8 * j + k ∧ 8 * j + k < o + w) := by intro k hk; omega
  have c0 := c 0 (by omega); have c1 := c 1 (by omega); have c2 := c 2 (by omega); have c3 := c 3 (by omega)
  have c4 := c 4 (by omega); have c5 := c 5 (by omega); have c6 := c 6 (by omega); have c7 := c 7 (by omega)
  have e : ∀ k, k < 8 → v / 2 ^ (o + w - 1 - (8 * j + k)) = v / 2 ^ (o + w - 8 * j - 8) / 2 ^ (7 - k) := by
    intro k hk
    rw [Nat.div_div_eq_div_mul, ← Nat.pow_add]
    congr 2; omega
  have e0 := e 0 (by omega); have e1 := e 1 (by omega); have e2 := e 2 (by omega); have e3 := e 3 (by omega)
  have e4 := e 4 (by omega); have e5 := e 5 (by omega); have e6 := e 6 (by omega); have e7 := e 7 (by omega)
  have h := foldl_bits (v / 2 ^ (o + w - 8 * j - 8))
  simp only [range8, List.foldl] at h
  simp only [setByte, range8, List.foldl, c0, c1, c2, c3, c4, c5, c6, c7, and_self, if_true, e0, e1, e2, e3, e4, e5, e6, e7]
  exact h
theorem setBits_whole1 (a n : Nat) : Rfc.setBits [a] 0 8 n = [n % 256] := by
  simp [setBits_eq_map, List.range, List.range.loop, setByte_inside]
theorem setBits_whole2 (a b n : Nat) : Rfc.setBits [a, b] 0 16 n = [n / 256 % 256, n % 256] := by
  simp [setBits_eq_map, List.range, List.range.loop, setByte_inside]
theorem setBits_whole4 (a b c d n : Nat) :
    Rfc.setBits [a, b, c, d] 0 32 n = [n / 16777216 % 256, n / 65536 % 256, n / 256 % 256, n % 256] := by
  simp [setBits_eq_map, List.range, List.range.loop, setByte_inside]


/-- a byte whose bits `lo … hi − 1` are replaced by the low `hi − lo` bits of `x` -/
def partByte (b x lo hi : Nat) : Nat := b / 2 ^ (8 - lo) * 2 ^ (8 - lo) + x % 2 ^ (hi - lo) * 2 ^ (8 - hi) + b % 2 ^ (8 - hi)

/-- the ways a field of the seven headers shares a byte with its neighbours -/
def shapes : List (Nat × Nat) := [(0, 3), (0, 4), (0, 6), (3, 4), (3, 8), (4, 8), (6, 8)]

set_option maxHeartbeats 1000000 in
/-- a byte the range covers in part: the covered bits come from the value, the others stay -/
theorem setByte_part (b j o w v lo hi : Nat) (hb : b < 256) (hs : (lo, hi) ∈ shapes)
    (hlo : max o (8 * j) = 8 * j + lo) (hhi : min (o + w) (8 * j + 8) = 8 * j + hi) :
    setByte b j o w v = partByte b (v / 2 ^ (o + w - 8 * j - hi)) lo hi := by
  have e : ∀ k, k < hi → v / 2 ^ (o + w - 1 - (8 * j + k)) = v / 2 ^ (o + w - 8 * j - hi) / 2 ^ (hi - 1 - k) := by
    intro k hk
    rw [Nat.div_div_eq_div_mul, ← Nat.pow_add]
    congr 2; omega
  have e0 := e 0; have e1 := e 1; have e2 := e 2; have e3 := e 3
  have e4 := e 4; have e5 := e 5; have e6 := e 6; have e7 := e 7
  generalize v / 2 ^ (o + w - 8 * j - hi) = x at *
  simp only [shapes, List.mem_cons, Prod.mk.injEq, List.mem_nil_iff, or_false] at hs
  have c : ∀ k, k < 8 → ((o ≤ 8 * j + k ∧ 8 * j + k < o + w) ↔ (lo ≤ k ∧ k < hi)) := by intro k hk; omega
  have c0 := c 0 (by omega); have c1 := c 1 (by omega); have c2 := c 2 (by omega); have c3 := c 3 (by omega)
  have c4 := c 4 (by omega); have c5 := c 5 (by omega); have c6 := c 6 (by omega); have c7 := c 7 (by omega)
  simp only [setByte, range8, List.foldl, c0, c1, c2, c3, c4, c5, c6, c7, partByte]
  rcases hs with ⟨rfl, rfl⟩ | ⟨rfl, rfl⟩ | ⟨rfl, rfl⟩ | ⟨rfl, rfl⟩ | ⟨rfl, rfl⟩ | ⟨rfl, rfl⟩ | ⟨rfl, rfl⟩ <;>
    simp at e0 e1 e2 e3 e4 e5 e6 e7 ⊢ <;> simp only [*] <;> omega


/-- rewrites one partly covered byte, whichever of the seven shapes it has -/
macro "part_byte" : tactic => `(tactic| first
  | rw [setByte_part _ _ _ _ _ 0 3 (by omega) (by decide) (by omega) (by omega)]
  | rw [setByte_part _ _ _ _ _ 0 4 (by omega) (by decide) (by omega) (by omega)]
  | rw [setByte_part _ _ _ _ _ 0 6 (by omega) (by decide) (by omega) (by omega)]
  | rw [setByte_part _ _ _ _ _ 3 4 (by omega) (by decide) (by omega) (by omega)]
  | rw [setByte_part _ _ _ _ _ 3 8 (by omega) (by decide) (by omega) (by omega)]
  | rw [setByte_part _ _ _ _ _ 4 8 (by omega) (by decide) (by omega) (by omega)]
  | rw [setByte_part _ _ _ _ _ 6 8 (by omega) (by decide) (by omega) (by omega)])

/-- closes the side goals of `setBits_local` once both serialisations are explicit byte lists -/
macro "bits_side" : tactic => `(tactic| (
  first
  | omega
  | (simp [setBits_whole1, setBits_whole2, setBits_whole4]; done)
  | (simp [setBits_whole1, setBits_whole2, setBits_whole4]; omega)
  | (rw [setBits_eq_map]; simp [List.range, List.range.loop, Rfc.byteAt, setByte_inside]; repeat part_byte
     simp [partByte]; omega)))

/-! ## an accepted assignment changes the serialised header inside the field's bit range only -/

theorem casted_eq (bits : Nat) (v : SetVal) (n : Nat) (h : casted bits v = some n) : n < 2 ^ bits := by
  cases v with
  | int i =>
    simp only [casted, castU, Option.some.injEq] at h
    subst h
    have hp : 0 < 2 ^ bits := Nat.two_pow_pos bits
    have hpos : (0 : Int) < ((2 ^ bits : Nat) : Int) := by omega
    have h1 := Int.emod_lt_of_pos i hpos
    have h2 := Int.emod_nonneg i (Int.ne_of_gt hpos)
    omega
  | _ => simp [casted] at h

theorem checked_le (hi : Nat) (v : SetVal) (n : Nat) (h : checked hi v = some n) : n ≤ hi := by
  cases v <;> simp [checked] at h
  obtain ⟨h1, rfl⟩ := h
  omega

theorem udp_set_bytes_local (h h' : UdpHdr) (p : PP) (o w : Nat) (v : SetVal)
    (hlay : Rfc.layout .udp p = some (o, w)) (hs : h.set p v = some h') :
    ∃ n, h'.get p = some (.num n) ∧ n < 2 ^ w ∧ h'.toBytes = Rfc.setBits h.toBytes o w n := by
  cases p <;> simp [Rfc.layout] at hlay <;> obtain ⟨rfl, rfl⟩ := hlay <;>
    simp only [UdpHdr.set, Option.map_eq_some_iff] at hs <;> obtain ⟨n, hn, rfl⟩ := hs <;>
    have hn' := casted_eq _ _ _ hn <;>
    refine ⟨n, rfl, hn', ?_⟩ <;> symm <;>
    (refine setBits_local _ _ _ _ _ ?_ ?_ ?_ ?_ ?_) <;>
    simp [UdpHdr.toBytes, be16] <;> bits_side

/-- the record header is little-endian: the four bytes of the word are replaced, as `Rfc.SState.patch` does -/
theorem pcap_set_bytes_local (h h' : PcapHdr) (p : PP) (o w : Nat) (v : SetVal)
    (hlay : Rfc.layout .record p = some (o, w)) (hs : h.set p v = some h') :
    ∃ n, h'.get p = some (.num n) ∧ n < 2 ^ w ∧
      h'.toBytes = h.toBytes.take (o / 8) ++ Rfc.toLE (w / 8) n ++ h.toBytes.drop (o / 8 + w / 8) := by
  cases p <;> simp [Rfc.layout] at hlay <;> obtain ⟨rfl, rfl⟩ := hlay <;>
    simp only [PcapHdr.set, Option.map_eq_some_iff] at hs <;> obtain ⟨n, hn, rfl⟩ := hs <;>
    have hn' := casted_eq _ _ _ hn <;>
    refine ⟨n, rfl, hn', ?_⟩ <;>
    simp [PcapHdr.toBytes, le32, Rfc.toLE, List.range, List.range.loop]

theorem list_len4 (l : List Nat) (h : l.length = 4) : ∃ a b c d, l = [a, b, c, d] := by
  match l, h with
  | [a, b, c, d], _ => exact ⟨a, b, c, d, rfl⟩

theorem list_len6 (l : List Nat) (h : l.length = 6) : ∃ a b c d e f, l = [a, b, c, d, e, f] := by
  match l, h with
  | [a, b, c, d, e, f], _ => exact ⟨a, b, c, d, e, f, rfl⟩

theorem list_len8 (l : List Nat) (h : l.length = 8) : ∃ a b c d e f g i, l = [a, b, c, d, e, f, g, i] := by
  match l, h with
  | [a, b, c, d, e, f, g, i], _ => exact ⟨a, b, c, d, e, f, g, i, rfl⟩

def bytesOk (l : List Nat) : Prop := ∀ x ∈ l, x < 256

def EthWf (h : EthHdr) : Prop :=
  h.dst.length = 6 ∧ h.src.length = 6 ∧ bytesOk h.dst ∧ bytesOk h.src ∧ h.ethertype < 65536

theorem eth_set_bytes_local (h h' : EthHdr) (hwf : EthWf h) (p : PP) (o w : Nat) (v : SetVal)
    (hlay : Rfc.layout .ethernet p = some (o, w)) (hk : Rfc.kindOf .ethernet p = .num) (hs : h.set p v = some h') :
    ∃ n, h'.get p = some (.num n) ∧ n < 2 ^ w ∧ h'.toBytes = Rfc.setBits h.toBytes o w n := by
  obtain ⟨dst, src, et⟩ := h
  obtain ⟨l1, l2, b1, b2, w1⟩ := hwf
  obtain ⟨d0, d1, d2, d3, d4, d5, rfl⟩ := list_len6 dst l1
  obtain ⟨s0, s1, s2, s3, s4, s5, rfl⟩ := list_len6 src l2
  simp [bytesOk] at b1 b2
  cases p <;> simp [Rfc.layout, Rfc.kindOf] at hlay hk <;> obtain ⟨rfl, rfl⟩ := hlay <;>
    simp only [EthHdr.set, Option.map_eq_some_iff] at hs <;> obtain ⟨n, hn, rfl⟩ := hs <;>
    have hn' := checked_le _ _ _ hn <;>
    refine ⟨n, rfl, by omega, ?_⟩ <;> symm <;>
    (refine setBits_local _ _ _ _ _ ?_ ?_ ?_ ?_ ?_) <;>
    simp [EthHdr.toBytes, be16] <;> bits_side

def VlanWf (h : VlanHdr) : Prop := h.priority < 8 ∧ h.vid < 4096 ∧ h.ethertype < 65536

theorem vlan_set_bytes_local (h h' : VlanHdr) (hwf : VlanWf h) (p : PP) (o w : Nat) (v : SetVal)
    (hlay : Rfc.layout .dot1q p = some (o, w)) (hk : Rfc.kindOf .dot1q p = .num) (hs : h.set p v = some h') :
    ∃ n, h'.get p = some (.num n) ∧ n < 2 ^ w ∧ h'.toBytes = Rfc.setBits h.toBytes o w n := by
  obtain ⟨pr, dei, vid, et⟩ := h
  obtain ⟨w1, w2, w3⟩ := hwf
  simp only at w1 w2 w3
  cases p <;> simp [Rfc.layout, Rfc.kindOf] at hlay hk <;> obtain ⟨rfl, rfl⟩ := hlay <;>
    simp only [VlanHdr.set, Option.map_eq_some_iff] at hs <;> obtain ⟨n, hn, rfl⟩ := hs <;>
    have hn' := checked_le _ _ _ hn <;>
    refine ⟨n, rfl, by omega, ?_⟩ <;> symm <;>
    (refine setBits_local _ _ _ _ _ ?_ ?_ ?_ ?_ ?_) <;>
    cases dei <;> simp [VlanHdr.toBytes, be16] <;> bits_side

/-- the one flag: DEI is bit 3 of the tag -/
theorem vlan_dei_bytes_local (h h' : VlanHdr) (hwf : VlanWf h) (v : SetVal) (hs : h.set .dei v = some h') :
    ∃ b, h'.get .dei = some (.flag b) ∧ h'.toBytes = Rfc.setBits h.toBytes 3 1 (if b then 1 else 0) := by
  obtain ⟨pr, dei, vid, et⟩ := h
  obtain ⟨w1, w2, w3⟩ := hwf
  simp only at w1 w2 w3
  cases v <;> simp [VlanHdr.set] at hs
  subst hs
  rename_i b
  refine ⟨b, rfl, ?_⟩
  symm
  refine setBits_local _ _ _ _ _ ?_ ?_ ?_ ?_ ?_ <;> cases dei <;> cases b <;> simp [VlanHdr.toBytes, be16] <;> bits_side


def Ipv4Wf (h : Ipv4Hdr) : Prop :=
  h.version < 16 ∧ h.ihl < 16 ∧ h.dscp < 64 ∧ h.ecn < 4 ∧ h.totlen < 65536 ∧ h.ident < 65536 ∧ h.flags < 8 ∧
  h.fragoff < 8192 ∧ h.ttl < 256 ∧ h.proto < 256 ∧ h.checksum < 65536 ∧ h.src.length = 4 ∧ h.dst.length = 4 ∧
  bytesOk h.src ∧ bytesOk h.dst ∧ bytesOk h.options

set_option maxHeartbeats 4000000 in
theorem ipv4_set_bytes_local (h h' : Ipv4Hdr) (hwf : Ipv4Wf h) (p : PP) (o w : Nat) (v : SetVal)
    (hlay : Rfc.layout .ipv4 p = some (o, w)) (hk : Rfc.kindOf .ipv4 p = .num) (hs : h.set p v = some h') :
    ∃ n, h'.get p = some (.num n) ∧ n < 2 ^ w ∧ h'.toBytes = Rfc.setBits h.toBytes o w n := by
  obtain ⟨version, ihl, dscp, ecn, totlen, ident, flags, fragoff, ttl, proto, checksum, src, dst, opts⟩ := h
  obtain ⟨w1, w2, w3, w4, w5, w6, w7, w8, w9, w10, w11, l1, l2, b1, b2, b3⟩ := hwf
  simp only at w1 w2 w3 w4 w5 w6 w7 w8 w9 w10 w11 l1 l2 b1 b2 b3
  obtain ⟨s0, s1, s2, s3, rfl⟩ := list_len4 src l1
  obtain ⟨d0, d1, d2, d3, rfl⟩ := list_len4 dst l2
  simp [bytesOk] at b1 b2
  have hopts : ∀ x ∈ opts, x < 256 := b3
  cases p <;> simp [Rfc.layout, Rfc.kindOf] at hlay hk <;> obtain ⟨rfl, rfl⟩ := hlay <;>
    simp only [Ipv4Hdr.set, Option.map_eq_some_iff] at hs <;>
    first
    | (cases hs; done)
    | (obtain ⟨n, hn, rfl⟩ := hs
       have hn' := checked_le _ _ _ hn
       refine ⟨n, rfl, by omega, ?_⟩
       symm
       refine setBits_local _ _ _ _ _ ?_ ?_ ?_ ?_ ?_ <;> (try simp [Ipv4Hdr.toBytes, be16]) <;>
         first
         | (refine ⟨?_, ?_, ?_, ?_, ?_, ?_, ?_, ?_, ?_, ?_, ?_, ?_, ?_, ?_, ?_, ?_, ?_, ?_, ?_, ?_, ?_⟩ <;>
              first | omega | exact hopts)
         | bits_side)


def groupsOk (l : List Nat) : Prop := ∀ g ∈ l, g < 65536

def Ipv6Wf (h : Ipv6Hdr) : Prop :=
  h.version < 16 ∧ h.tc < 256 ∧ h.flow < 1048576 ∧ h.plen < 65536 ∧ h.nh < 256 ∧ h.hop < 256 ∧
  h.src.length = 8 ∧ h.dst.length = 8 ∧ groupsOk h.src ∧ groupsOk h.dst

theorem v6Bytes_ok (a : List Nat) : ∀ x ∈ v6Bytes a, x < 256 := by
  intro x hx
  simp only [v6Bytes, List.mem_flatMap] at hx
  obtain ⟨g, _, hg⟩ := hx
  simp [be16] at hg
  omega

set_option maxHeartbeats 4000000 in
theorem ipv6_set_bytes_local (h h' : Ipv6Hdr) (hwf : Ipv6Wf h) (p : PP) (o w : Nat) (v : SetVal)
    (hlay : Rfc.layout .ipv6 p = some (o, w)) (hk : Rfc.kindOf .ipv6 p = .num) (hs : h.set p v = some h') :
    ∃ n, h'.get p = some (.num n) ∧ n < 2 ^ w ∧ h'.toBytes = Rfc.setBits h.toBytes o w n := by
  obtain ⟨version, tc, flow, plen, nh, hop, src, dst⟩ := h
  obtain ⟨w1, w2, w3, w4, w5, w6, -, -, -, -⟩ := hwf
  simp only at w1 w2 w3 w4 w5 w6
  have hsrc := v6Bytes_ok src
  have hdst := v6Bytes_ok dst
  have e1 : tc * 16 % 256 = (tc % 16) * 16 := by omega
  have e2 : flow / 65536 % 256 = flow / 65536 := by omega
  have e3 := or_disjoint' (tc % 16) (flow / 65536) (by omega) (by omega)
  cases p <;> simp [Rfc.layout, Rfc.kindOf] at hlay hk <;> obtain ⟨rfl, rfl⟩ := hlay <;>
    simp only [Ipv6Hdr.set, Option.map_eq_some_iff] at hs <;>
    first
    | (cases hs; done)
    | (obtain ⟨n, hn, rfl⟩ := hs
       have hn' := casted_eq _ _ _ hn
       have f1 : ∀ m, m * 16 % 256 = (m % 16) * 16 := by intro m; omega
       have f3 := or_disjoint' (n % 16) (flow / 65536) (by omega) (by omega)
       have f4 := or_disjoint' (tc % 16) (n % 1048576 / 65536) (by omega) (by omega)
       have f5 : n % 1048576 / 65536 % 256 = n % 1048576 / 65536 := by omega
       refine ⟨_, rfl, by first | omega | (simp only []; omega), ?_⟩
       symm
       refine setBits_local _ _ _ _ _ ?_ ?_ ?_ ?_ ?_ <;>
         (try simp only [Ipv6Hdr.toBytes, e1, e2, e3, f1 n, f3, f4, f5]) <;> (try simp [be16]) <;>
         first
         | (refine ⟨?_, ?_, ?_, ?_, ?_, ?_, ?_, ?_, ?_⟩ <;>
              first | omega | (intro x hx; rcases hx with hx | hx; exact hsrc x hx; exact hdst x hx))
         | bits_side)


def TcpWf (h : TcpHdr) : Prop :=
  h.srcport < 65536 ∧ h.dstport < 65536 ∧ h.seq < 4294967296 ∧ h.ack < 4294967296 ∧ h.dataoff < 16 ∧ h.flags < 4096 ∧
  h.win < 65536 ∧ h.checksum < 65536 ∧ h.urgent < 65536 ∧ bytesOk h.options

set_option maxHeartbeats 4000000 in
theorem tcp_set_bytes_local (h h' : TcpHdr) (hwf : TcpWf h) (p : PP) (o w : Nat) (v : SetVal)
    (hlay : Rfc.layout .tcp p = some (o, w)) (hs : h.set p v = some h') :
    ∃ n, h'.get p = some (.num n) ∧ n < 2 ^ w ∧ h'.toBytes = Rfc.setBits h.toBytes o w n := by
  obtain ⟨srcport, dstport, seq, ack, dataoff, flags, win, checksum, urgent, opts⟩ := h
  obtain ⟨w1, w2, w3, w4, w5, w6, w7, w8, w9, b3⟩ := hwf
  simp only at w1 w2 w3 w4 w5 w6 w7 w8 w9 b3
  have hopts : ∀ x ∈ opts, x < 256 := b3
  cases p <;> simp [Rfc.layout] at hlay <;> obtain ⟨rfl, rfl⟩ := hlay <;>
    simp only [TcpHdr.set, Option.map_eq_some_iff] at hs <;>
    first
    | (cases hs; done)
    | (obtain ⟨n, hn, rfl⟩ := hs
       have hn' := casted_eq _ _ _ hn
       refine ⟨_, rfl, by first | omega | (simp only []; omega), ?_⟩
       symm
       refine setBits_local _ _ _ _ _ ?_ ?_ ?_ ?_ ?_ <;>
         (try simp [TcpHdr.toBytes, be16, be32]) <;>
         first
         | (refine ⟨?_, ?_, ?_, ?_, ?_, ?_, ?_, ?_, ?_, ?_, ?_, ?_, ?_, ?_, ?_, ?_, ?_, ?_, ?_, ?_, ?_⟩ <;>
              first | omega | exact hopts)
         | bits_side)


/-- every field of the header is within its width (what `from_bytes` produces and the setters keep) -/
def HdrWf : Hdr → Prop
  | .pcap h => h.sec < 4294967296 ∧ h.usec < 4294967296 ∧ h.caplen < 4294967296 ∧ h.wirelen < 4294967296
  | .eth h => EthWf h
  | .vlan h => VlanWf h
  | .ipv4 h => Ipv4Wf h
  | .ipv6 h => Ipv6Wf h
  | .tcp h => TcpWf h
  | .udp _ => True

/-- **an accepted assignment to a numeric field changes the serialised header inside the field's bit range only**:
the new header bytes are the old ones with the `w` bits at bit offset `o` — the range `Rfc.layout` gives the field —
replaced by the value the getter now returns, which fits `w` bits; every other bit is as before (`Rfc.setBits`).
All six protocol headers, options included; the little-endian record header is `pcap_set_bytes_local`. -/
theorem set_bytes_local (hd hd' : Hdr) (hwf : HdrWf hd) (p : PP) (o w : Nat) (v : SetVal)
    (hL : hdrLayer hd ≠ .record) (hlay : Rfc.layout (hdrLayer hd) p = some (o, w))
    (hk : Rfc.kindOf (hdrLayer hd) p = .num) (hs : hd.set p v = some hd') :
    ∃ n, hd'.get p = some (.num n) ∧ n < 2 ^ w ∧ hd'.toBytes = Rfc.setBits hd.toBytes o w n := by
  cases hd <;> simp only [Hdr.set, Option.map_eq_some_iff] at hs <;> obtain ⟨x, hx, rfl⟩ := hs <;>
    simp only [hdrLayer, HdrWf, Hdr.get, Hdr.toBytes] at *
  · exact absurd rfl hL
  · exact eth_set_bytes_local _ _ hwf p o w v hlay hk hx
  · exact vlan_set_bytes_local _ _ hwf p o w v hlay hk hx
  · exact ipv4_set_bytes_local _ _ hwf p o w v hlay hk hx
  · exact ipv6_set_bytes_local _ _ hwf p o w v hlay hk hx
  · exact tcp_set_bytes_local _ _ hwf p o w v hlay hx
  · exact udp_set_bytes_local _ _ p o w v hlay hx

/-- `ipv4.flags = 5` on a header with fragment offset 0x1abc: byte 6 changes from 0x5a to 0xba, nothing else -/
example :
    let h : Ipv4Hdr := ⟨4, 6, 1, 2, 50, 7, 2, 0x1abc, 64, 6, 0xABCD, [10, 0, 0, 1], [10, 0, 0, 2], [1, 2, 3, 4]⟩
    (h.set .flags (.int 5)).map Ipv4Hdr.toBytes = some (Rfc.setBits h.toBytes 48 3 5) ∧
    (h.set .flags (.int 5)).map Ipv4Hdr.toBytes = some ((h.toBytes.take 6) ++ [0xba] ++ h.toBytes.drop 7) ∧
    h.toBytes.getD 6 0 = 0x5a := by decide

/-- `tcp.flags = 0x10` leaves the data offset and the reserved bits of byte 12 alone; `tcp.dataoff = 7` the flags -/
example :
    let h : TcpHdr := ⟨80, 8080, 1, 2, 6, 0xA12, 512, 7, 0x1234, [1, 2, 3, 4]⟩
    (h.set .flags (.int 0x10)).map TcpHdr.toBytes = some (Rfc.setBits h.toBytes 104 8 0x10) ∧
    (h.set .dataoff (.int 7)).map TcpHdr.toBytes = some (Rfc.setBits h.toBytes 96 4 7) ∧
    (Rfc.setBits h.toBytes 104 8 0x10).getD 12 0 = 0x6A := by decide

example (h : TcpHdr) (hwf : TcpWf h) (h' : TcpHdr) (hs : h.set .flags (.int 0x10) = some h') :
    ∃ n, h'.get .flags = some (.num n) ∧ n < 2 ^ 8 ∧ h'.toBytes = Rfc.setBits h.toBytes 104 8 n :=
  set_bytes_local (.tcp h) (.tcp h') hwf .flags 104 8 (.int 0x10) (by simp [hdrLayer]) rfl rfl (by simp [Hdr.set, hs])

/-! ## assigning an address from text -/

theorem parseUnsigned_bound (radix max : Nat) (g : List Char) (v : Nat) (h : parseUnsigned radix max g = some v) : v ≤ max := by
  have hc : ∀ ds, checkDigits radix max ds = some v → v ≤ max := by
    intro ds hd
    simp only [checkDigits] at hd
    split at hd
    · split at hd
      · cases hd; assumption
      · cases hd
    · cases hd
  unfold parseUnsigned at h
  split at h <;> first | (cases h; done) | exact hc _ h

theorem parseAll_bound (radix max : Nat) : ∀ (parts : List (List Char)) (vs : List Nat),
    parseAll radix max parts = some vs → ∀ v ∈ vs, v ≤ max := by
  intro parts
  induction parts with
  | nil => intro vs h v hv; simp [parseAll] at h; subst h; cases hv
  | cons p ps ih =>
    intro vs h v hv
    simp only [parseAll] at h
    cases hp : parseUnsigned radix max p with
    | none => simp [hp] at h
    | some x =>
      simp only [hp, Option.map_eq_some_iff] at h
      obtain ⟨ws, hws, rfl⟩ := h
      simp only [List.mem_cons] at hv
      rcases hv with rfl | hv
      · exact parseUnsigned_bound radix max p _ hp
      · exact ih ws hws v hv

/-- what `MacAddress::from_str` accepts is six bytes -/
theorem parseMac_ok (t : List Char) (a : List Nat) (h : Proto.parseMac t = some a) : a.length = 6 ∧ bytesOk a := by
  simp only [Proto.parseMac] at h
  split at h
  · cases h
  · rename_i hl
    refine ⟨by rw [C18.parseAll_length 16 255 _ a h]; omega, ?_⟩
    intro x hx; have := parseAll_bound 16 255 _ a h x hx; omega

theorem parseV4_ok (t : List Char) (a : List Nat) (h : Proto.parseV4 t = some a) : a.length = 4 ∧ bytesOk a := by
  simp only [Proto.parseV4] at h
  split at h
  · cases h
  · rename_i hl
    refine ⟨by rw [C18.parseAll_length 10 255 _ a h]; omega, ?_⟩
    intro x hx; have := parseAll_bound 10 255 _ a h x hx; omega

theorem v6GroupsOf_bound (t : List Char) (a : List Nat) (h : v6GroupsOf t = some a) : groupsOk a := by
  simp only [v6GroupsOf] at h
  split at h
  · cases h; intro g hg; cases hg
  · intro g hg; have := parseAll_bound 16 65535 _ a h g hg; omega

/-- what `Ipv6Address::from_str` accepts is eight 16-bit groups -/
theorem parseV6_ok (t : List Char) (a : List Nat) (h : Proto.parseV6 t = some a) : a.length = 8 ∧ groupsOk a := by
  simp only [Proto.parseV6] at h
  split at h
  · rename_i hd tl hf
    split at h
    · rename_i front back h1 h2
      split at h
      · cases h
      · rename_i hlen
        cases h
        refine ⟨by simp; omega, ?_⟩
        intro g hg
        simp only [List.mem_append, List.mem_replicate] at hg
        rcases hg with (hg | hg) | hg
        · exact v6GroupsOf_bound _ _ h1 g hg
        · omega
        · exact v6GroupsOf_bound _ _ h2 g hg
    · cases h
  · split at h
    · rename_i front h1
      split at h
      · cases h
      · rename_i hlen
        cases h
        exact ⟨by omega, v6GroupsOf_bound _ _ h1⟩
    · cases h

theorem eth_reparse_wf (h : EthHdr) (hwf : EthWf h) : EthHdr.parse (reader h.toBytes) = h := by
  obtain ⟨dst, src, et⟩ := h
  obtain ⟨l1, l2, -, -, w1⟩ := hwf
  obtain ⟨d0, d1, d2, d3, d4, d5, rfl⟩ := list_len6 dst l1
  obtain ⟨s0, s1, s2, s3, s4, s5, rfl⟩ := list_len6 src l2
  exact eth_reparse _ _ _ _ _ _ _ _ _ _ _ _ _ w1

theorem ipv4_reparse_wf (h : Ipv4Hdr) (hwf : Ipv4Wf h) (hopt : h.options.length = max (h.ihl * 4) 20 - 20) :
    Ipv4Hdr.parse (reader h.toBytes) = h := by
  obtain ⟨version, ihl, dscp, ecn, totlen, ident, flags, fragoff, ttl, proto, checksum, src, dst, opts⟩ := h
  obtain ⟨w1, w2, w3, w4, w5, w6, w7, w8, w9, w10, w11, l1, l2, b1, b2, b3⟩ := hwf
  obtain ⟨s0, s1, s2, s3, rfl⟩ := list_len4 src l1
  obtain ⟨d0, d1, d2, d3, rfl⟩ := list_len4 dst l2
  exact ipv4_reparse _ _ _ _ _ _ _ _ _ _ _ _ _ _ _ _ _ _ _ _ w1 w2 w3 w4 w5 w6 w7 w8 w11 hopt

theorem ipv6_reparse_wf (h : Ipv6Hdr) (hwf : Ipv6Wf h) : Ipv6Hdr.parse (reader h.toBytes) = h := by
  obtain ⟨version, tc, flow, plen, nh, hop, src, dst⟩ := h
  obtain ⟨w1, w2, w3, w4, w5, w6, l1, l2, g1, g2⟩ := hwf
  obtain ⟨s0, s1, s2, s3, s4, s5, s6, s7, rfl⟩ := list_len8 src l1
  obtain ⟨d0, d1, d2, d3, d4, d5, d6, d7, rfl⟩ := list_len8 dst l2
  refine ipv6_reparse _ _ _ _ _ _ _ _ _ _ _ _ _ _ _ _ _ _ _ _ _ _ w1 w2 w3 w4 ?_
  intro g hg
  simp only [List.mem_cons, List.mem_nil_iff, or_false] at hg
  simp only [groupsOk, List.mem_cons, List.mem_nil_iff, or_false, forall_eq_or_imp, forall_eq] at g1 g2
  omega

def isAddr (p : PP) : Prop := p = .dst ∨ p = .src

/-- **Ethernet: an address assigned from text** — whatever text `MacAddress::from_str` accepts: the assignment is
accepted, the header stays well-formed, serialising and re-parsing gives it back, and the property then reads as the
text of the parsed address; the other properties read as before -/
theorem eth_assign_addr (h : EthHdr) (hwf : EthWf h) (p : PP) (hp : isAddr p) (t : List Char) (a : List Nat)
    (ht : Proto.parseMac t = some a) :
    ∃ h', h.set p (.str t) = some h' ∧ EthWf h' ∧ EthHdr.parse (reader h'.toBytes) = h' ∧
      (EthHdr.parse (reader h'.toBytes)).get p = some (.text (showMac a)) ∧
      ∀ q, q ≠ p → (EthHdr.parse (reader h'.toBytes)).get q = h.get q := by
  obtain ⟨la, ba⟩ := parseMac_ok t a ht
  obtain ⟨l1, l2, b1, b2, w1⟩ := hwf
  rcases hp with rfl | rfl
  · have hwf' : EthWf { h with dst := a } := ⟨la, l2, ba, b2, w1⟩
    have hs : h.set .dst (.str t) = some { h with dst := a } := by simp [EthHdr.set, EthHdr.setMac, ht]
    have hre := eth_reparse_wf _ hwf'
    refine ⟨_, hs, hwf', hre, by rw [hre]; rfl, fun q hq => ?_⟩
    rw [hre]; exact eth_set_frame h _ .dst q _ hs hq
  · have hwf' : EthWf { h with src := a } := ⟨l1, la, b1, ba, w1⟩
    have hs : h.set .src (.str t) = some { h with src := a } := by simp [EthHdr.set, EthHdr.setMac, ht]
    have hre := eth_reparse_wf _ hwf'
    refine ⟨_, hs, hwf', hre, by rw [hre]; rfl, fun q hq => ?_⟩
    rw [hre]; exact eth_set_frame h _ .src q _ hs hq

/-- **IPv4 address from text** (the header's option bytes are as many as IHL says) -/
theorem ipv4_assign_addr (h : Ipv4Hdr) (hwf : Ipv4Wf h) (hopt : h.options.length = max (h.ihl * 4) 20 - 20)
    (p : PP) (hp : isAddr p) (t : List Char) (a : List Nat) (ht : Proto.parseV4 t = some a) :
    ∃ h', h.set p (.str t) = some h' ∧ Ipv4Wf h' ∧ Ipv4Hdr.parse (reader h'.toBytes) = h' ∧
      (Ipv4Hdr.parse (reader h'.toBytes)).get p = some (.text (showV4 a)) ∧
      ∀ q, q ≠ p → (Ipv4Hdr.parse (reader h'.toBytes)).get q = h.get q := by
  obtain ⟨la, ba⟩ := parseV4_ok t a ht
  obtain ⟨w1, w2, w3, w4, w5, w6, w7, w8, w9, w10, w11, l1, l2, b1, b2, b3⟩ := hwf
  rcases hp with rfl | rfl
  · have hwf' : Ipv4Wf { h with dst := a } := ⟨w1, w2, w3, w4, w5, w6, w7, w8, w9, w10, w11, l1, la, b1, ba, b3⟩
    have hs : h.set .dst (.str t) = some { h with dst := a } := by simp [Ipv4Hdr.set, Ipv4Hdr.setAddr, ht]
    have hre := ipv4_reparse_wf _ hwf' hopt
    refine ⟨_, hs, hwf', hre, by rw [hre]; rfl, fun q hq => ?_⟩
    rw [hre]; exact ipv4_set_frame h _ .dst q _ hs hq
  · have hwf' : Ipv4Wf { h with src := a } := ⟨w1, w2, w3, w4, w5, w6, w7, w8, w9, w10, w11, la, l2, ba, b2, b3⟩
    have hs : h.set .src (.str t) = some { h with src := a } := by simp [Ipv4Hdr.set, Ipv4Hdr.setAddr, ht]
    have hre := ipv4_reparse_wf _ hwf' hopt
    refine ⟨_, hs, hwf', hre, by rw [hre]; rfl, fun q hq => ?_⟩
    rw [hre]; exact ipv4_set_frame h _ .src q _ hs hq

/-- **IPv6 address from text**: form 1 or form 2, whatever `Ipv6Address::from_str` accepts -/
theorem ipv6_assign_addr (h : Ipv6Hdr) (hwf : Ipv6Wf h) (p : PP) (hp : isAddr p) (t : List Char) (a : List Nat)
    (ht : Proto.parseV6 t = some a) :
    ∃ h', h.set p (.str t) = some h' ∧ Ipv6Wf h' ∧ Ipv6Hdr.parse (reader h'.toBytes) = h' ∧
      (Ipv6Hdr.parse (reader h'.toBytes)).get p = some (.text (showV6 a)) ∧
      ∀ q, q ≠ p → (Ipv6Hdr.parse (reader h'.toBytes)).get q = h.get q := by
  obtain ⟨la, ga⟩ := parseV6_ok t a ht
  obtain ⟨w1, w2, w3, w4, w5, w6, l1, l2, g1, g2⟩ := hwf
  rcases hp with rfl | rfl
  · have hwf' : Ipv6Wf { h with dst := a } := ⟨w1, w2, w3, w4, w5, w6, l1, la, g1, ga⟩
    have hs : h.set .dst (.str t) = some { h with dst := a } := by simp [Ipv6Hdr.set, Ipv6Hdr.setAddr, ht]
    have hre := ipv6_reparse_wf _ hwf'
    refine ⟨_, hs, hwf', hre, by rw [hre]; rfl, fun q hq => ?_⟩
    rw [hre]; exact ipv6_set_frame h _ .dst q _ hs hq
  · have hwf' : Ipv6Wf { h with src := a } := ⟨w1, w2, w3, w4, w5, w6, la, l2, ga, g2⟩
    have hs : h.set .src (.str t) = some { h with src := a } := by simp [Ipv6Hdr.set, Ipv6Hdr.setAddr, ht]
    have hre := ipv6_reparse_wf _ hwf'
    refine ⟨_, hs, hwf', hre, by rw [hre]; rfl, fun q hq => ?_⟩
    rw [hre]; exact ipv6_set_frame h _ .src q _ hs hq


/-! ### "assign the text of address `a`, write, re-parse, read the property: the text of `a`" -/

theorem mac_assign_text_roundtrip (h : EthHdr) (hwf : EthWf h) (p : PP) (hp : isAddr p) (a : List Nat)
    (hlen : a.length = 6) (hb : bytesOk a) :
    ∃ h', h.set p (.str (showMac a)) = some h' ∧
      (EthHdr.parse (reader h'.toBytes)).get p = some (.text (showMac a)) ∧
      ∀ q, q ≠ p → (EthHdr.parse (reader h'.toBytes)).get q = h.get q := by
  obtain ⟨h', h1, -, -, h4, h5⟩ := eth_assign_addr h hwf p hp _ a (C18.mac_roundtrip a hlen hb)
  exact ⟨h', h1, h4, h5⟩

theorem v4_assign_text_roundtrip (h : Ipv4Hdr) (hwf : Ipv4Wf h) (hopt : h.options.length = max (h.ihl * 4) 20 - 20)
    (p : PP) (hp : isAddr p) (a : List Nat) (hlen : a.length = 4) (hb : bytesOk a) :
    ∃ h', h.set p (.str (showV4 a)) = some h' ∧
      (Ipv4Hdr.parse (reader h'.toBytes)).get p = some (.text (showV4 a)) ∧
      ∀ q, q ≠ p → (Ipv4Hdr.parse (reader h'.toBytes)).get q = h.get q := by
  obtain ⟨h', h1, -, -, h4, h5⟩ := ipv4_assign_addr h hwf hopt p hp _ a (C18.v4_roundtrip a hlen hb)
  exact ⟨h', h1, h4, h5⟩

theorem v6_assign_text_roundtrip (h : Ipv6Hdr) (hwf : Ipv6Wf h) (p : PP) (hp : isAddr p) (a : List Nat)
    (hlen : a.length = 8) (hg : groupsOk a) :
    ∃ h', h.set p (.str (showV6 a)) = some h' ∧
      (Ipv6Hdr.parse (reader h'.toBytes)).get p = some (.text (showV6 a)) ∧
      ∀ q, q ≠ p → (Ipv6Hdr.parse (reader h'.toBytes)).get q = h.get q := by
  obtain ⟨h', h1, -, -, h4, h5⟩ := ipv6_assign_addr h hwf p hp _ a (C18.v6_roundtrip a hlen hg)
  exact ⟨h', h1, h4, h5⟩

/-! ### against the reference: a text the reference parser calls standard -/

/-- **a standard MAC text is accepted, and after write + re-parse the property reads as the reference's rendering of
the reference's value** -/
theorem mac_assign_reference (h : EthHdr) (hwf : EthWf h) (p : PP) (hp : isAddr p) (t : List Char) (gs : List Nat)
    (hstd : Rfc.parseMac t = .std gs) :
    ∃ h', h.set p (.str t) = some h' ∧ (EthHdr.parse (reader h'.toBytes)).get p = some (.text (Rfc.showMacU gs)) := by
  have ht := C18.mac_reference_standard t gs hstd
  obtain ⟨h', h1, -, -, h4, -⟩ := eth_assign_addr h hwf p hp t gs ht
  rw [C16.mac_text_is_reference gs (parseMac_ok t gs ht).2] at h4
  exact ⟨h', h1, h4⟩

theorem v4_assign_reference (h : Ipv4Hdr) (hwf : Ipv4Wf h) (hopt : h.options.length = max (h.ihl * 4) 20 - 20)
    (p : PP) (hp : isAddr p) (t : List Char) (gs : List Nat) (hstd : Rfc.parseV4 t = .std gs) :
    ∃ h', h.set p (.str t) = some h' ∧ (Ipv4Hdr.parse (reader h'.toBytes)).get p = some (.text (Rfc.showV4 gs)) := by
  have ht := C18.v4_reference_standard t gs hstd
  obtain ⟨h', h1, -, -, h4, -⟩ := ipv4_assign_addr h hwf hopt p hp t gs ht
  rw [C16.v4_text_is_reference gs (parseV4_ok t gs ht).2] at h4
  exact ⟨h', h1, h4⟩

/-- **a standard IPv6 text — with or without `::`, wherever it is — is accepted, and after write + re-parse the
property reads as one of the reference's renderings of the reference's value** -/
theorem v6_assign_reference (h : Ipv6Hdr) (hwf : Ipv6Wf h) (p : PP) (hp : isAddr p) (t : List Char) (gs : List Nat)
    (hstd : Rfc.parseV6 t = .std gs) :
    ∃ h' txt, h.set p (.str t) = some h' ∧ (Ipv6Hdr.parse (reader h'.toBytes)).get p = some (.text txt) ∧
      txt = Rfc.showV6Full Rfc.digitL 0 gs ∧ txt ∈ Rfc.showV6All gs := by
  have ht := C18.v6_reference_standard t gs hstd
  obtain ⟨h', h1, -, -, h4, -⟩ := ipv6_assign_addr h hwf p hp t gs ht
  have hg := (parseV6_ok t gs ht).2
  exact ⟨h', _, h1, h4, C16.v6_text_is_reference gs hg, C16.v6_text_in_reference_renderings gs hg⟩

set_option maxRecDepth 100000 in
/-- `ipv6.dst = "fe80::A:0b"` on a well-formed header: after write + re-parse it reads `fe80:0:0:0:0:0:a:b` -/
example :
    let h : Ipv6Hdr := ⟨6, 0, 0, 8, 17, 64, [0, 0, 0, 0, 0, 0, 0, 1], [0, 0, 0, 0, 0, 0, 0, 2]⟩
    (h.set .dst (.str "fe80::A:0b".toList)).bind (fun h' => (Ipv6Hdr.parse (reader h'.toBytes)).get .dst) =
      some (.text "fe80:0:0:0:0:0:a:b".toList) ∧
    Rfc.parseV6 "fe80::A:0b".toList = .std [0xfe80, 0, 0, 0, 0, 0, 10, 11] ∧
    Rfc.showV6Full Rfc.digitL 0 [0xfe80, 0, 0, 0, 0, 0, 10, 11] = "fe80:0:0:0:0:0:a:b".toList := by decide

example (h : Ipv6Hdr) (hwf : Ipv6Wf h) :
    ∃ h' txt, h.set .dst (.str "fe80::A:0b".toList) = some h' ∧
      (Ipv6Hdr.parse (reader h'.toBytes)).get .dst = some (.text txt) ∧
      txt = Rfc.showV6Full Rfc.digitL 0 [0xfe80, 0, 0, 0, 0, 0, 10, 11] ∧ txt ∈ Rfc.showV6All [0xfe80, 0, 0, 0, 0, 0, 10, 11] :=
  v6_assign_reference h hwf .dst (Or.inl rfl) _ _ (by decide)

example (h : EthHdr) (hwf : EthWf h) :
    ∃ h', h.set .src (.str "00:1b:2C:ff:0a:99".toList) = some h' ∧
      (EthHdr.parse (reader h'.toBytes)).get .src = some (.text (Rfc.showMacU [0, 0x1b, 0x2c, 0xff, 0x0a, 0x99])) :=
  mac_assign_reference h hwf .src (Or.inr rfl) _ _ (by decide)

example : Rfc.showMacU [0, 0x1b, 0x2c, 0xff, 0x0a, 0x99] = "00:1B:2C:FF:0A:99".toList := by decide

/-! ### every parsed header is well-formed, and accepted assignments keep it so -/

theorem parse_wf (L : Rfc.Layer) (b : Nat → Nat) (hb : ∀ i, b i < 256) : HdrWf (C16.parseAs L b) := by
  have h0 := hb 0; have h1 := hb 1; have h2 := hb 2; have h3 := hb 3; have h4 := hb 4; have h5 := hb 5
  have h6 := hb 6; have h7 := hb 7; have h8 := hb 8; have h9 := hb 9; have h10 := hb 10; have h11 := hb 11
  have h12 := hb 12; have h13 := hb 13; have h14 := hb 14; have h15 := hb 15; have h16 := hb 16; have h17 := hb 17
  have h18 := hb 18; have h19 := hb 19
  have hgr : ∀ c : Nat → Nat, (∀ i, c i < 256) → groupsOk (v6Groups c) := by
    intro c hc g hg
    simp only [v6Groups, List.mem_map, List.mem_range] at hg
    obtain ⟨i, _, rfl⟩ := hg
    have := hc (2 * i); have := hc (2 * i + 1); omega
  cases L
  · simp [C16.parseAs, HdrWf, PcapHdr.parse, u32le]; omega
  · simp [C16.parseAs, HdrWf, EthWf, EthHdr.parse, u16be, bytesOk, hb]; omega
  · simp [C16.parseAs, HdrWf, VlanWf, VlanHdr.parse, u16be]; omega
  · simp only [C16.parseAs, HdrWf, Ipv4Wf, Ipv4Hdr.parse, u16be, bytesOk]
    refine ⟨by omega, by omega, by omega, by omega, by omega, by omega, by omega, by omega, by omega, by omega, by omega,
      rfl, rfl, by simp [hb], by simp [hb], ?_⟩
    intro x hx; simp only [List.mem_map] at hx; obtain ⟨i, _, rfl⟩ := hx; exact hb _
  · simp only [C16.parseAs, HdrWf, Ipv6Wf, Ipv6Hdr.parse, u16be]
    refine ⟨by omega, by omega, by omega, by omega, by omega, by omega, by simp [v6Groups], by simp [v6Groups],
      hgr (fun i => b (8 + i)) (fun i => hb (8 + i)), hgr (fun i => b (24 + i)) (fun i => hb (24 + i))⟩
  · simp only [C16.parseAs, HdrWf, TcpWf, TcpHdr.parse, u16be, u32be, bytesOk]
    refine ⟨by omega, by omega, by omega, by omega, by omega, by omega, by omega, by omega, by omega, ?_⟩
    intro x hx; simp only [List.mem_map] at hx; obtain ⟨i, _, rfl⟩ := hx; exact hb _
  · trivial


/-- **in the frame**: a header that sits behind `pre` and before `post` — the reference patches the frame's bits at
`8·|pre| + o`; that is the frame with the header's bytes replaced by the new serialisation -/
theorem setBits_frame (pre A B post : List Nat) (o w v : Nat) (hpre : bytesOk pre) (hA : bytesOk A) (hpost : bytesOk post)
    (hlen : A.length = B.length) (hrange : o + w ≤ 8 * A.length) (h : Rfc.setBits A o w v = B) :
    Rfc.setBits (pre ++ A ++ post) (8 * pre.length + o) w v = pre ++ B ++ post := by
  refine setBits_splice _ _ _ _ _ pre.length A.length ?_ ?_ (by omega) (by omega) ?_ ?_ ?_
  · intro x hx
    simp only [List.mem_append] at hx
    rcases hx with (hx | hx) | hx
    · exact hpre x hx
    · exact hA x hx
    · exact hpost x hx
  · simp [hlen]
  · simp
  · rw [List.append_assoc, List.append_assoc, List.drop_append, List.drop_append,
      List.drop_eq_nil_of_le (by omega), List.drop_eq_nil_of_le (by simp), hlen]
    simp
  · have e : 8 * pre.length + o - 8 * pre.length = o := by omega
    rw [e]
    simp [List.append_assoc, hlen, h]


/-- **accepted assignments keep a header well-formed** (so every header a script can reach is: `parse_wf`) -/
theorem set_wf (hd hd' : Hdr) (hwf : HdrWf hd) (p : PP) (v : SetVal) (hs : hd.set p v = some hd') : HdrWf hd' := by
  cases hd <;> simp only [Hdr.set, Option.map_eq_some_iff] at hs <;> obtain ⟨x, hx, rfl⟩ := hs <;>
    simp only [HdrWf] at hwf ⊢
  · -- pcap
    obtain ⟨w1, w2, w3, w4⟩ := hwf
    cases p <;> simp only [PcapHdr.set, Option.map_eq_some_iff] at hx <;>
      first
      | (cases hx; done)
      | (obtain ⟨n, hn, rfl⟩ := hx; have := casted_eq _ _ _ hn; exact ⟨by first | omega | (simp only []; omega), by first | omega | (simp only []; omega), by first | omega | (simp only []; omega), by first | omega | (simp only []; omega)⟩)
  · -- eth
    obtain ⟨l1, l2, b1, b2, w1⟩ := hwf
    cases p <;> simp only [EthHdr.set, Option.map_eq_some_iff] at hx <;>
      first
      | (cases hx; done)
      | (obtain ⟨n, hn, rfl⟩ := hx; have := checked_le _ _ _ hn; exact ⟨l1, l2, b1, b2, by first | omega | (simp only []; omega)⟩)
      | (obtain ⟨a, ha, rfl⟩ := hx
         cases v with
         | str s =>
           obtain ⟨la, ba⟩ := parseMac_ok _ _ ha
           first | exact ⟨la, l2, ba, b2, w1⟩ | exact ⟨l1, la, b1, ba, w1⟩
         | _ => cases ha)
  · -- vlan
    obtain ⟨w1, w2, w3⟩ := hwf
    cases p <;> simp only [VlanHdr.set, Option.map_eq_some_iff] at hx <;>
      first
      | (cases hx; done)
      | (obtain ⟨n, hn, rfl⟩ := hx; have := checked_le _ _ _ hn; exact ⟨by first | omega | (simp only []; omega), by first | omega | (simp only []; omega), by first | omega | (simp only []; omega)⟩)
      | (cases v <;> simp at hx; subst hx; exact ⟨w1, w2, w3⟩)
  · -- ipv4
    obtain ⟨w1, w2, w3, w4, w5, w6, w7, w8, w9, w10, w11, l1, l2, b1, b2, b3⟩ := hwf
    cases p <;> simp only [Ipv4Hdr.set, Option.map_eq_some_iff] at hx <;>
      first
      | (cases hx; done)
      | (obtain ⟨n, hn, rfl⟩ := hx; have := checked_le _ _ _ hn
         exact ⟨by first | omega | (simp only []; omega), by first | omega | (simp only []; omega), by first | omega | (simp only []; omega), by first | omega | (simp only []; omega), by first | omega | (simp only []; omega), by first | omega | (simp only []; omega), by first | omega | (simp only []; omega), by first | omega | (simp only []; omega), by first | omega | (simp only []; omega), by first | omega | (simp only []; omega), by first | omega | (simp only []; omega),
           l1, l2, b1, b2, b3⟩)
      | (obtain ⟨a, ha, rfl⟩ := hx
         cases v with
         | str s =>
           obtain ⟨la, ba⟩ := parseV4_ok _ _ ha
           first
           | exact ⟨w1, w2, w3, w4, w5, w6, w7, w8, w9, w10, w11, la, l2, ba, b2, b3⟩
           | exact ⟨w1, w2, w3, w4, w5, w6, w7, w8, w9, w10, w11, l1, la, b1, ba, b3⟩
         | _ => cases ha)
  · -- ipv6
    obtain ⟨w1, w2, w3, w4, w5, w6, l1, l2, g1, g2⟩ := hwf
    cases p <;> simp only [Ipv6Hdr.set, Option.map_eq_some_iff] at hx <;>
      first
      | (cases hx; done)
      | (obtain ⟨n, hn, rfl⟩ := hx; have := casted_eq _ _ _ hn
         exact ⟨by first | omega | (simp only []; omega), by first | omega | (simp only []; omega), by first | omega | (simp only []; omega), by first | omega | (simp only []; omega), by first | omega | (simp only []; omega), by first | omega | (simp only []; omega), l1, l2, g1, g2⟩)
      | (obtain ⟨a, ha, rfl⟩ := hx
         cases v with
         | str s =>
           obtain ⟨la, ga⟩ := parseV6_ok _ _ ha
           first
           | exact ⟨w1, w2, w3, w4, w5, w6, la, l2, ga, g2⟩
           | exact ⟨w1, w2, w3, w4, w5, w6, l1, la, g1, ga⟩
         | _ => cases ha)
  · -- tcp
    obtain ⟨w1, w2, w3, w4, w5, w6, w7, w8, w9, b3⟩ := hwf
    cases p <;> simp only [TcpHdr.set, Option.map_eq_some_iff] at hx <;>
      first
      | (cases hx; done)
      | (obtain ⟨n, hn, rfl⟩ := hx; have := casted_eq _ _ _ hn
         exact ⟨by first | omega | (simp only []; omega), by first | omega | (simp only []; omega), by first | omega | (simp only []; omega),
           by first | omega | (simp only []; omega), by first | omega | (simp only []; omega), by first | omega | (simp only []; omega),
           by first | omega | (simp only []; omega), by first | omega | (simp only []; omega), by first | omega | (simp only []; omega), b3⟩)


/-- a parsed TCP header is well-formed, an assignment keeps it so, and the bytes change inside the field only -/
example (b : Nat → Nat) (hb : ∀ i, b i < 256) (hd' : Hdr) (hs : (C16.parseAs .tcp b).set .winsize (.int 1000) = some hd') :
    HdrWf hd' ∧ ∃ n, hd'.get .winsize = some (.num n) ∧ n < 2 ^ 16 ∧
      hd'.toBytes = Rfc.setBits (C16.parseAs .tcp b).toBytes 112 16 n :=
  ⟨set_wf _ _ (parse_wf .tcp b hb) _ _ hs,
   set_bytes_local _ _ (parse_wf .tcp b hb) .winsize 112 16 _ (by simp [C16.parseAs, hdrLayer]) rfl rfl hs⟩

/-- a header between 14 bytes of Ethernet and two bytes of payload: patching the frame is re-serialising the header -/
example : Rfc.setBits ([1,2,3,4,5,6,7,8,9,10,11,12,8,0] ++ (UdpHdr.toBytes ⟨53, 53, 10, 0⟩) ++ [0xde, 0xad]) (8 * 14 + 16) 16 4660 =
    [1,2,3,4,5,6,7,8,9,10,11,12,8,0] ++ (UdpHdr.toBytes ⟨53, 4660, 10, 0⟩) ++ [0xde, 0xad] := by decide

end P2sh.Props.C17
