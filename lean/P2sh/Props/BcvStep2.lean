import P2sh.Props.BcvStep
/-! # Per-opcode lemmas, part 2: opcodes with an operand (constants, jumps, globals, locals, captured values) -/
namespace P2sh.Props.Bcv
open P2sh P2sh.Vm P2sh.Bcv P2sh.Code P2sh.Props.BcvWp

variable {consts : List Val} {s : St} {f : Frame} {rest : List Frame} {sm : Summary} {i : Instr} {ws : List Nat}
  {h : Nat} {succs : List (Nat × Nat)}

theorem t_Constant (T : Top consts s f rest sm i ws h succs) (line : Nat) (hn : i.name = "Constant") : Goal consts s f line := by
  bcv_pre T hn
  split at he
  case isFalse => cases he
  obtain ⟨hp, rfl⟩ := simple_ok he
  apply goal_of T
  unfold step; simp only [hnm]
  rw [wp_bind, wp_readU16 _ _ _ _ (by omega)]
  simp only [wp_bind, wp_get]
  split
  · simp only [wp_rtErr]
  · simp only [wp_bind, wp_push, wp_setIp, withIp, hfr, wp_pure]
    intro _
    refine ⟨_, _, List.mem_singleton.mpr rfl, f.ip + 2, by omega, rfl, ?_, by simp, rfl, rfl⟩
    dsimp only; omega

theorem t_Jump (T : Top consts s f rest sm i ws h succs) (line : Nat) (hn : i.name = "Jump") : Goal consts s f line := by
  bcv_pre T hn
  cases he
  apply goal_of T
  unfold step; simp only [hnm]
  rw [wp_bind, wp_readU16 _ _ _ _ (by omega)]
  simp only [wp_bind, wp_setIp, withIp, hfr, wp_pure]
  exact ⟨_, _, List.mem_singleton.mpr rfl, rfl, hsp, rfl, rfl, rfl⟩

theorem t_JumpIfFalse (T : Top consts s f rest sm i ws h succs) (line : Nat) (hn : i.name = "JumpIfFalse") :
    Goal consts s f line := by
  bcv_pre T hn
  split at he
  case isFalse => cases he
  cases he
  apply goal_of T
  unfold step; simp only [hnm]
  rw [wp_bind, wp_readU16 _ _ _ _ (by omega)]
  simp only [wp_bind, wp_setIp, withIp, hfr, wp_pop, wp_reifyM, wp_ite, wp_pure]
  intro _
  split
  · refine ⟨_, _, List.mem_cons_of_mem _ (List.mem_singleton.mpr rfl), rfl, ?_, rfl, rfl, rfl⟩
    dsimp only; omega
  · refine ⟨_, _, List.mem_cons_self, f.ip + 2, by omega, rfl, ?_, rfl, rfl, rfl⟩
    dsimp only; omega

theorem t_JumpIfFalseNoPop (T : Top consts s f rest sm i ws h succs) (line : Nat) (hn : i.name = "JumpIfFalseNoPop") :
    Goal consts s f line := by
  bcv_pre T hn
  split at he
  case isFalse => cases he
  cases he
  apply goal_of T
  unfold step; simp only [hnm]
  rw [wp_bind, wp_readU16 _ _ _ _ (by omega)]
  simp only [wp_bind, wp_setIp, withIp, hfr, wp_top0, wp_reifyM, wp_ite, wp_pure]
  intro _
  split
  · exact ⟨_, _, List.mem_cons_of_mem _ (List.mem_singleton.mpr rfl), rfl, hsp, rfl, rfl, rfl⟩
  · exact ⟨_, _, List.mem_cons_self, f.ip + 2, by omega, rfl, hsp, rfl, rfl, rfl⟩

theorem t_DefineGlobal (T : Top consts s f rest sm i ws h succs) (line : Nat) (hn : i.name = "DefineGlobal") :
    Goal consts s f line := by
  bcv_pre T hn
  split at he
  case isFalse => cases he
  rename_i hg
  obtain ⟨hp, rfl⟩ := simple_ok he
  have hgs := T.inv.globals
  apply goal_of T
  unfold step; simp only [hnm]
  rw [wp_bind, wp_readU16 _ _ _ _ (by omega)]
  simp only [wp_bind, wp_setIp, withIp, hfr, wp_pop, wp_get, wp_ite, wp_panicM, wp_set, wp_pure]
  intro _
  rw [if_neg (by omega)]
  refine ⟨_, _, List.mem_singleton.mpr rfl, f.ip + 2, by omega, rfl, ?_, rfl, by simp, rfl⟩
  dsimp only; omega

theorem t_GetGlobal (T : Top consts s f rest sm i ws h succs) (line : Nat) (hn : i.name = "GetGlobal") :
    Goal consts s f line := by
  bcv_pre T hn
  split at he
  case isFalse => cases he
  rename_i hg
  obtain ⟨hp, rfl⟩ := simple_ok he
  have hgs := T.inv.globals
  apply goal_of T
  unfold step; simp only [hnm]
  rw [wp_bind, wp_readU16 _ _ _ _ (by omega)]
  simp only [wp_bind, wp_setIp, withIp, hfr, wp_push, wp_get, wp_ite, wp_panicM, wp_pure]
  rw [if_neg (by omega)]
  intro _
  refine ⟨_, _, List.mem_singleton.mpr rfl, f.ip + 2, by omega, rfl, ?_, by simp, rfl, rfl⟩
  dsimp only; omega

theorem t_SetGlobal (T : Top consts s f rest sm i ws h succs) (line : Nat) (hn : i.name = "SetGlobal") :
    Goal consts s f line := by
  bcv_pre T hn
  split at he
  case isFalse => cases he
  rename_i hg
  obtain ⟨hp, rfl⟩ := simple_ok he
  have hgs := T.inv.globals
  apply goal_of T
  unfold step; simp only [hnm]
  rw [wp_bind, wp_readU16 _ _ _ _ (by omega)]
  simp only [wp_bind, wp_setIp, withIp, hfr, wp_top0, wp_get, wp_ite, wp_panicM, wp_set, wp_pure]
  intro _
  rw [if_neg (by omega)]
  refine ⟨_, _, List.mem_singleton.mpr rfl, f.ip + 2, by omega, rfl, ?_, rfl, by simp, rfl⟩
  dsimp only; omega

theorem t_DefineLocal (T : Top consts s f rest sm i ws h succs) (line : Nat) (hn : i.name = "DefineLocal") :
    Goal consts s f line := by
  bcv_pre T hn
  split at he
  case isFalse => cases he
  rename_i hl
  obtain ⟨hp, rfl⟩ := simple_ok he
  have hsz := T.inv.size
  have hbp := T.bp
  apply goal_of T
  unfold step; simp only [hnm]
  rw [wp_bind, wp_readU8 _ _ _ _ (by omega)]
  simp only [wp_bind, wp_setIp, withIp, hfr, wp_curFrame', wp_pop, wp_get, wp_ite, wp_panicM, wp_set, wp_pure]
  intro _
  rw [if_neg (by omega)]
  refine ⟨_, _, List.mem_singleton.mpr rfl, f.ip + 1, by omega, rfl, ?_, by simp, rfl, rfl⟩
  dsimp only; omega

theorem t_GetLocal (T : Top consts s f rest sm i ws h succs) (line : Nat) (hn : i.name = "GetLocal") :
    Goal consts s f line := by
  bcv_pre T hn
  split at he
  case isFalse => cases he
  rename_i hl
  obtain ⟨hp, rfl⟩ := simple_ok he
  have hsz := T.inv.size
  have hbp := T.bp
  apply goal_of T
  unfold step; simp only [hnm]
  rw [wp_bind, wp_readU8 _ _ _ _ (by omega)]
  simp only [wp_bind, wp_setIp, withIp, hfr, wp_curFrame', wp_push, wp_get, wp_ite, wp_panicM, wp_pure]
  rw [if_neg (by omega)]
  intro _
  refine ⟨_, _, List.mem_singleton.mpr rfl, f.ip + 1, by omega, rfl, ?_, by simp, rfl, rfl⟩
  dsimp only; omega

theorem t_SetLocal (T : Top consts s f rest sm i ws h succs) (line : Nat) (hn : i.name = "SetLocal") :
    Goal consts s f line := by
  bcv_pre T hn
  split at he
  case isFalse => cases he
  rename_i hl
  obtain ⟨hp, rfl⟩ := simple_ok he
  have hsz := T.inv.size
  have hbp := T.bp
  apply goal_of T
  unfold step; simp only [hnm]
  rw [wp_bind, wp_readU8 _ _ _ _ (by omega)]
  simp only [wp_bind, wp_setIp, withIp, hfr, wp_curFrame', wp_top0, wp_get, wp_ite, wp_panicM, wp_set, wp_pure]
  intro _
  rw [if_neg (by omega)]
  refine ⟨_, _, List.mem_singleton.mpr rfl, f.ip + 1, by omega, rfl, ?_, by simp, rfl, rfl⟩
  dsimp only; omega

theorem t_GetBuiltinFn (T : Top consts s f rest sm i ws h succs) (line : Nat) (hn : i.name = "GetBuiltinFn") :
    Goal consts s f line := by
  bcv_pre T hn
  split at he
  case isFalse => cases he
  rename_i hb
  obtain ⟨hp, rfl⟩ := simple_ok he
  apply goal_of T
  unfold step; simp only [hnm]
  rw [wp_bind, wp_readU8 _ _ _ _ (by omega)]
  have hname : ∃ n, builtinName (f.fn.code.getD (f.ip + 1) 0) = some n := by
    unfold builtinName
    rw [List.getElem?_eq_getElem hb]
    exact ⟨_, rfl⟩
  obtain ⟨n, hn'⟩ := hname
  simp only [wp_bind, wp_setIp, withIp, hfr, hn', wp_push, wp_pure]
  intro _
  refine ⟨_, _, List.mem_singleton.mpr rfl, f.ip + 1, by omega, rfl, ?_, by simp, rfl, rfl⟩
  dsimp only; omega

theorem t_GetBuiltinVar (T : Top consts s f rest sm i ws h succs) (line : Nat) (hn : i.name = "GetBuiltinVar") :
    Goal consts s f line := by
  bcv_pre T hn
  unfold Goal step; simp only [hnm]
  rw [wp_bind, wp_bind, wp_readU8 _ _ _ _ (by omega)]
  simp only [wp_bind, wp_throw_unmodelled]

theorem nfree_pos {k : Nat} (hk : k < (Cx.mk consts (kindOf rest) f.fn).nfree) : rest ≠ [] ∧ k < freeNeed f.fn := by
  unfold Cx.nfree kindOf at hk
  by_cases hr : rest = []
  · simp [hr] at hk
  · simp [hr] at hk
    exact ⟨hr, hk⟩

theorem t_GetFree (T : Top consts s f rest sm i ws h succs) (hC : CD consts s) (line : Nat) (hn : i.name = "GetFree") :
    Goal consts s f line := by
  bcv_pre T hn
  split at he
  case isFalse => cases he
  rename_i hk
  obtain ⟨hp, rfl⟩ := simple_ok he
  obtain ⟨hr, hk'⟩ := nfree_pos hk
  have hfree := hC.frames f rest hfr hr
  apply goal_of T
  unfold step; simp only [hnm]
  rw [wp_bind, wp_readU8 _ _ _ _ (by omega)]
  simp only [wp_bind, wp_setIp, withIp, hfr, wp_curFrame', wp_get, freeOf]
  have hsome : ∃ v, (s.heap.getArr f.closId)[f.fn.code.getD (f.ip + 1) 0]? = some v :=
    ⟨_, List.getElem?_eq_getElem (by omega)⟩
  obtain ⟨v, hv⟩ := hsome
  simp only [hv, wp_bind, wp_push, wp_pure]
  intro _
  refine ⟨_, _, List.mem_singleton.mpr rfl, f.ip + 1, by omega, rfl, ?_, by simp, rfl, rfl⟩
  dsimp only; omega

theorem t_SetFree (T : Top consts s f rest sm i ws h succs) (hC : CD consts s) (line : Nat) (hn : i.name = "SetFree") :
    Goal consts s f line := by
  bcv_pre T hn
  split at he
  case isFalse => cases he
  rename_i hk
  obtain ⟨hp, rfl⟩ := simple_ok he
  obtain ⟨hr, hk'⟩ := nfree_pos hk
  have hfree := hC.frames f rest hfr hr
  apply goal_of T
  unfold step; simp only [hnm]
  rw [wp_bind, wp_readU8 _ _ _ _ (by omega)]
  simp only [wp_bind, wp_setIp, withIp, hfr, wp_curFrame', wp_get, freeOf, wp_ite, wp_panicM, wp_pure, wp_top0, wp_modify]
  rw [if_neg (by omega)]
  intro _
  exact ⟨_, _, List.mem_singleton.mpr rfl, f.ip + 1, by omega, rfl, by dsimp only; omega, rfl, rfl, rfl⟩

end P2sh.Props.Bcv
