import P2sh.Spec.PcapFile
/-!
# C19 — the oracle is sound

`decode_encode`: the specification's decoder (`Spec.PcapFile.decode`, what the check uses as its
oracle on every generated file) inverts the specification's encoder on every well-formed file: header,
records in order, empty tail.  Together with `P2sh.Props.C19.read_all_decodes` (the model returns
`f.records` on `encode f`) this ties model, encoder and oracle together.
-/
namespace P2sh.Props.C19
open P2sh.Spec.PcapFile

theorem leVal4 (n : Nat) (h : n < 4294967296) : leVal (leBytes 4 n) = n := by
  simp only [leBytes, leVal, UInt8.toNat_ofNat']; omega

theorem leVal2 (n : Nat) (h : n < 65536) : leVal (leBytes 2 n) = n := by
  simp only [leBytes, leVal, UInt8.toNat_ofNat']; omega

theorem leBytes_length (k n : Nat) : (leBytes k n).length = k := by
  induction k generalizing n with
  | zero => rfl
  | succ k ih => simp [leBytes, ih]

/-- the field that sits right after `pre` -/
theorem field_at (pre mid post : Bytes) : field (pre ++ (mid ++ post)) pre.length mid.length = leVal mid := by
  simp [field]

theorem decodeHeader_encode (h : Header) (wf : WfHeader h) (rest : Bytes) :
    decodeHeader (encodeHeader h ++ rest) = some h := by
  obtain ⟨hm, h1, h2, h3, h4, h5, h6⟩ := wf
  have hmag : h.magic < 4294967296 := by rcases hm with hm | hm <;> rw [hm] <;> decide
  have e0 := field_at [] (leBytes 4 h.magic) (leBytes 2 h.versionMajor ++ leBytes 2 h.versionMinor ++ leBytes 4 h.thiszone ++ leBytes 4 h.sigfigs ++ leBytes 4 h.snaplen ++ leBytes 4 h.linktype ++ rest)
  have e1 := field_at (leBytes 4 h.magic) (leBytes 2 h.versionMajor) (leBytes 2 h.versionMinor ++ leBytes 4 h.thiszone ++ leBytes 4 h.sigfigs ++ leBytes 4 h.snaplen ++ leBytes 4 h.linktype ++ rest)
  have e2 := field_at (leBytes 4 h.magic ++ leBytes 2 h.versionMajor) (leBytes 2 h.versionMinor) (leBytes 4 h.thiszone ++ leBytes 4 h.sigfigs ++ leBytes 4 h.snaplen ++ leBytes 4 h.linktype ++ rest)
  have e3 := field_at (leBytes 4 h.magic ++ leBytes 2 h.versionMajor ++ leBytes 2 h.versionMinor) (leBytes 4 h.thiszone) (leBytes 4 h.sigfigs ++ leBytes 4 h.snaplen ++ leBytes 4 h.linktype ++ rest)
  have e4 := field_at (leBytes 4 h.magic ++ leBytes 2 h.versionMajor ++ leBytes 2 h.versionMinor ++ leBytes 4 h.thiszone) (leBytes 4 h.sigfigs) (leBytes 4 h.snaplen ++ leBytes 4 h.linktype ++ rest)
  have e5 := field_at (leBytes 4 h.magic ++ leBytes 2 h.versionMajor ++ leBytes 2 h.versionMinor ++ leBytes 4 h.thiszone ++ leBytes 4 h.sigfigs) (leBytes 4 h.snaplen) (leBytes 4 h.linktype ++ rest)
  have e6 := field_at (leBytes 4 h.magic ++ leBytes 2 h.versionMajor ++ leBytes 2 h.versionMinor ++ leBytes 4 h.thiszone ++ leBytes 4 h.sigfigs ++ leBytes 4 h.snaplen) (leBytes 4 h.linktype) rest
  simp only [List.length_append, leBytes_length, List.length_nil, List.nil_append, List.append_assoc, Nat.reduceAdd,
    leVal4 _ hmag, leVal2 _ h1, leVal2 _ h2, leVal4 _ h3, leVal4 _ h4, leVal4 _ h5, leVal4 _ h6] at e0 e1 e2 e3 e4 e5 e6
  have hlen : ¬ (encodeHeader h ++ rest).length < 24 := by
    simp [encodeHeader, leBytes_length]; omega
  simp only [encodeHeader, List.append_assoc] at hlen
  simp only [decodeHeader, encodeHeader, List.append_assoc, hlen, if_false, e0, e1, e2, e3, e4, e5, e6, hm, if_true]

theorem decodeRecord_encode (snap : Nat) (r : Record) (wf : WfRecord snap r) (rest : Bytes) :
    decodeRecord snap (encodeRecord r ++ rest) = some (r, rest) := by
  obtain ⟨h1, h2, h3, hcap, hfit, h4⟩ := wf
  have e0 := field_at [] (leBytes 4 r.tsSec) (leBytes 4 r.tsUsec ++ leBytes 4 r.caplen ++ leBytes 4 r.wirelen ++ r.data ++ rest)
  have e1 := field_at (leBytes 4 r.tsSec) (leBytes 4 r.tsUsec) (leBytes 4 r.caplen ++ leBytes 4 r.wirelen ++ r.data ++ rest)
  have e2 := field_at (leBytes 4 r.tsSec ++ leBytes 4 r.tsUsec) (leBytes 4 r.caplen) (leBytes 4 r.wirelen ++ r.data ++ rest)
  have e3 := field_at (leBytes 4 r.tsSec ++ leBytes 4 r.tsUsec ++ leBytes 4 r.caplen) (leBytes 4 r.wirelen) (r.data ++ rest)
  simp only [List.length_append, leBytes_length, List.length_nil, List.nil_append, List.append_assoc, Nat.reduceAdd,
    leVal4 _ h1, leVal4 _ h2, leVal4 _ h3, leVal4 _ h4] at e0 e1 e2 e3
  have hl : (encodeRecord r ++ rest).length = 16 + r.data.length + rest.length := by
    simp [encodeRecord, leBytes_length]; omega
  have hd : (encodeRecord r ++ rest).drop 16 = r.data ++ rest := by
    have : encodeRecord r ++ rest = (leBytes 4 r.tsSec ++ leBytes 4 r.tsUsec ++ leBytes 4 r.caplen ++ leBytes 4 r.wirelen) ++ (r.data ++ rest) := by
      simp [encodeRecord, List.append_assoc]
    rw [this, List.drop_left' (by simp [leBytes_length])]
  have hd2 : (encodeRecord r ++ rest).drop (16 + r.caplen) = rest := by
    rw [← List.drop_drop, hd, hcap, List.drop_left]
  have c1 : ¬ (encodeRecord r ++ rest).length < 16 := by omega
  have c2 : ¬ r.caplen > snap := by omega
  have c3 : ¬ (encodeRecord r ++ rest).length < 16 + r.caplen := by omega
  simp only [decodeRecord, c1, if_false]
  simp only [encodeRecord, List.append_assoc] at e0 e1 e2 e3 hd hd2 c3 ⊢
  simp only [e0, e1, e2, e3, c2, c3, if_false, hd, hd2]
  rw [hcap, List.take_left]
  obtain ⟨a, b, c, d, e⟩ := r
  simp_all

theorem encodeRecords_length_ge (rs : List Record) : rs.length ≤ (encodeRecords rs).length := by
  induction rs with
  | nil => simp [encodeRecords]
  | cons r rs ih =>
    simp only [encodeRecords, List.map_cons, List.flatten_cons, List.length_append, List.length_cons] at *
    have : 16 ≤ (encodeRecord r).length := by simp [encodeRecord, leBytes_length]; omega
    omega

theorem decodeRecords_encode (snap : Nat) (rs : List Record) (wf : ∀ r ∈ rs, WfRecord snap r) :
    ∀ fuel, rs.length ≤ fuel → decodeRecords snap fuel (encodeRecords rs) = (rs, []) := by
  induction rs with
  | nil =>
    intro fuel _
    cases fuel <;> simp [decodeRecords, encodeRecords, decodeRecord]
  | cons r rs ih =>
    intro fuel hf
    obtain ⟨m, rfl⟩ : ∃ m, fuel = m + 1 := ⟨fuel - 1, by simp at hf; omega⟩
    have hr := decodeRecord_encode snap r (wf r (List.mem_cons_self)) (encodeRecords rs)
    have he : encodeRecords (r :: rs) = encodeRecord r ++ encodeRecords rs := by simp [encodeRecords]
    simp only [decodeRecords, he, hr, ih (fun q hq => wf q (List.mem_cons_of_mem _ hq)) m (by simp at hf; omega)]

/-- **the oracle is sound**: the specification's decoder inverts its encoder on well-formed files -/
theorem decode_encode (f : File) (wf : WfFile f) : decode (encode f) = some (f.hdr, f.records, []) := by
  have hh := decodeHeader_encode f.hdr wf.hdr (encodeRecords f.records)
  have hd : (encodeHeader f.hdr ++ encodeRecords f.records).drop 24 = encodeRecords f.records := by
    apply List.drop_left'
    simp [encodeHeader, leBytes_length]
  have hfuel : f.records.length ≤ (encodeHeader f.hdr ++ encodeRecords f.records).length := by
    have := encodeRecords_length_ge f.records
    simp only [List.length_append]; omega
  simp only [decode, encode, hh, hd, decodeRecords_encode f.hdr.snaplen f.records wf.recs _ hfuel]

end P2sh.Props.C19
