import P2sh.Core.Fn.Encode
/-!
# C13 for the layer with functions, closures, containers and builtin calls (`Core.Fn`)

`fail_line_fn`: when the operation of a construct fails — an operator on operands it does not
accept, an index read or write (`a[i]`, `a[i] = v`) out of range / with a missing or invalid key /
on a value that is neither an array nor a map, a call of a builtin that reports an error, of a
value that is not a function, of a function with the wrong number of arguments — after its
sub-expressions have been evaluated, then IN WHICHEVER ACTIVATION the construct is evaluated
(`X`: the top level, a called function, a closure: `X.code` is that function's code) the machine
runs to a state that is stuck (`fstep = none`: the VM's runtime error at `ip`) in that same
activation, at the construct's OWN instruction — the last one of its code: `Op` / `GetIndex` /
`SetIndex` / `Call n` — and the entry of the construct's line table for that instruction (the last
one of `linesE`) is the line of the construct's token.  The line tables of the main code and of
every function constant (`byteLines code (linesT …)`: one entry per code byte) are compared byte
for byte with the real compiler's by the tie (op `core`), and the reported line of every failing
generated program with the real VM's.
-/
namespace P2sh.Props.C13
open P2sh P2sh.Core P2sh.Core.Fn

section
variable {Φ : FnDef → Option FDecl} {K : List Val} {F : FnDef → Option (List Instr)} {X : Ctxt}

theorem stuck_op_fn {pc : Nat} {o : Operator} {l r : Val} {ops : List Val} {σ : Sto}
    (h : codeAt X.code pc [Instr.op o]) (hv : opH σ.a o l r = .fail) :
    fstep K F (X.st pc (r :: l :: ops) σ) = none := by
  unfold fstep Ctxt.st Ctxt.at
  simp only [fetch_codeAt h, List.cons_append, hv]

theorem stuck_getIndex {pc : Nat} {c i : Val} {ops : List Val} {σ : Sto}
    (h : codeAt X.code pc [Instr.getIndex]) (hv : getIndexH σ.a c i = none) :
    fstep K F (X.st pc (i :: c :: ops) σ) = none := by
  unfold fstep Ctxt.st Ctxt.at
  simp only [fetch_codeAt h, List.cons_append, hv]

theorem stuck_setIndex {pc : Nat} {c i v : Val} {ops : List Val} {σ : Sto}
    (h : codeAt X.code pc [Instr.setIndex]) (hv : setIndexH σ.a c i v = none) :
    fstep K F (X.st pc (i :: c :: v :: ops) σ) = none := by
  unfold fstep Ctxt.st Ctxt.at
  simp only [fetch_codeAt h, List.cons_append, hv]

/-- what makes a call fail at the `Call` itself (not inside the callee) -/
def callFails (Φ : FnDef → Option FDecl) (a : Heap) (vf : Val) (vs : List Val) : Prop :=
  match vf with
  | .clos fd _ _ => vs.length ≠ fd.numParams
  | .builtin name => callBuiltinH a name vs = none
  | _ => True

theorem stuck_call {pc : Nat} {vf : Val} {vs ops : List Val} {σ : Sto}
    (h : codeAt X.code pc [Instr.call vs.length]) (hv : callFails Φ σ.a vf vs) :
    fstep K F (X.st pc (vs.reverse ++ (vf :: ops)) σ) = none := by
  unfold fstep Ctxt.st Ctxt.at
  have hget : (vs.reverse ++ vf :: ops ++ (σ.l.reverse ++ X.base))[vs.length]? = some vf := by
    rw [List.append_assoc, List.getElem?_append_right (by simp)]
    simp
  have ht : (vs.reverse ++ vf :: ops ++ (σ.l.reverse ++ X.base)).take vs.length = vs.reverse := by
    rw [List.append_assoc]; exact List.take_left' (by simp)
  simp only [fetch_codeAt h, hget]
  cases vf <;> simp only [callFails] at hv <;> try rfl
  case builtin name => simp only [ht, List.reverse_reverse, hv]
  case clos fd fr id => simp [hv]

macro "parith" : tactic =>
  `(tactic| first
    | omega
    | (simp [bytes_append, bytes, Instr.size]; done)
    | (simp [bytes_append, bytes, Instr.size]; omega))

/-- the failing state: stuck, in the activation `X`, at byte `pc` where instruction `i` sits -/
def StuckAt (K : List Val) (F : FnDef → Option (List Instr)) (X : Ctxt) (s0 : FSt) (pc : Nat) (i : Instr) : Prop :=
  ∃ st, FSteps K F s0 st ∧ fstep K F st = none ∧ st.act.code = X.code ∧ st.act.fd = X.fd ∧ st.act.pc = pc ∧ st.callers = X.callers ∧
    fetch X.code pc = some i

/-- **`fail_line_fn`, operators** -/
theorem fail_line_fn_op (hL : Linked Φ K F) (fuel : Nat) (l : Nat) (op : Operator) (a b : FExpr) (pos k : Nat) (ops : List Val)
    (cx : Option (FnDef × Nat)) (σ σ1 σ2 : Sto) (va vb : Val)
    (h : codeAt X.code pos (compileE pos k (.bin l op a b))) (hp : poolAt K k (constsE (.bin l op a b))) (hx : Agree cx X)
    (ha : evalE Φ fuel cx σ a = some (va, σ1)) (hb : evalE Φ fuel cx σ1 b = some (vb, σ2)) (hf : opH σ2.a op va vb = .fail) :
    evalE Φ (fuel + 1) cx σ (.bin l op a b) = none ∧
    StuckAt K F X (X.st pos ops σ) (pos + bytes (compileE pos k a) + bytes (compileE (pos + bytes (compileE pos k a)) (k + (constsE a).length) b)) (.op op) ∧
    (compileE pos k (.bin l op a b)).getLast? = some (.op op) ∧ (linesE (.bin l op a b)).getLast? = some l := by
  simp only [compileE] at h
  simp only [constsE] at hp
  generalize hca : compileE pos k a = ca at *
  generalize hcb : compileE (pos + bytes ca) (k + (constsE a).length) b = cb at *
  have s1 := (sound_all hL fuel).E a X pos k ops cx σ σ1 va (hca ▸ codeAt_left (codeAt_left h)) (poolAt_left hp) hx ha
  have s2 := (sound_all hL fuel).E b X (pos + bytes ca) (k + (constsE a).length) (va :: ops) cx σ1 σ2 vb
    (hcb ▸ codeAt_right (codeAt_left h)) (poolAt_right hp) hx hb
  rw [hca] at s1; rw [hcb] at s2
  have ho : codeAt X.code (pos + bytes ca + bytes cb) [Instr.op op] := (codeAt_right h).to (by parith)
  refine ⟨by simp [evalE, ha, hb, hf], ⟨_, s1.trans s2, stuck_op_fn ho hf, rfl, rfl, rfl, rfl, fetch_codeAt ho⟩, ?_, ?_⟩
  · simp [compileE, hca, hcb]
  · simp [linesE]

/-- **`fail_line_fn`, index reads** -/
theorem fail_line_fn_index (hL : Linked Φ K F) (fuel : Nat) (l : Nat) (c i : FExpr) (pos k : Nat) (ops : List Val)
    (cx : Option (FnDef × Nat)) (σ σ1 σ2 : Sto) (vc vi : Val)
    (h : codeAt X.code pos (compileE pos k (.index l c i))) (hp : poolAt K k (constsE (.index l c i))) (hx : Agree cx X)
    (hc : evalE Φ fuel cx σ c = some (vc, σ1)) (hi : evalE Φ fuel cx σ1 i = some (vi, σ2)) (hf : getIndexH σ2.a vc vi = none) :
    evalE Φ (fuel + 1) cx σ (.index l c i) = none ∧
    StuckAt K F X (X.st pos ops σ) (pos + bytes (compileE pos k c) + bytes (compileE (pos + bytes (compileE pos k c)) (k + (constsE c).length) i)) .getIndex ∧
    (compileE pos k (.index l c i)).getLast? = some .getIndex ∧ (linesE (.index l c i)).getLast? = some l := by
  simp only [compileE] at h
  simp only [constsE] at hp
  generalize hcc : compileE pos k c = cc at *
  generalize hci : compileE (pos + bytes cc) (k + (constsE c).length) i = ci at *
  have s1 := (sound_all hL fuel).E c X pos k ops cx σ σ1 vc (hcc ▸ codeAt_left (codeAt_left h)) (poolAt_left hp) hx hc
  have s2 := (sound_all hL fuel).E i X (pos + bytes cc) (k + (constsE c).length) (vc :: ops) cx σ1 σ2 vi
    (hci ▸ codeAt_right (codeAt_left h)) (poolAt_right hp) hx hi
  rw [hcc] at s1; rw [hci] at s2
  have ho : codeAt X.code (pos + bytes cc + bytes ci) [Instr.getIndex] := (codeAt_right h).to (by parith)
  refine ⟨by simp [evalE, hc, hi, hf], ⟨_, s1.trans s2, stuck_getIndex ho hf, rfl, rfl, rfl, rfl, fetch_codeAt ho⟩, ?_, ?_⟩
  · simp [compileE, hcc, hci]
  · simp [linesE]

/-- **`fail_line_fn`, calls** (a builtin that reports an error, a value that is not a function, the wrong number of arguments) -/
theorem fail_line_fn_call (hL : Linked Φ K F) (fuel : Nat) (l : Nat) (f : FExpr) (args : FArgs) (pos k : Nat) (ops : List Val)
    (cx : Option (FnDef × Nat)) (σ σ1 σ2 : Sto) (vf : Val) (vs : List Val)
    (h : codeAt X.code pos (compileE pos k (.call l f args))) (hp : poolAt K k (constsE (.call l f args))) (hx : Agree cx X)
    (hcf : evalE Φ fuel cx σ f = some (vf, σ1)) (hca : evalArgs Φ fuel cx σ1 args = some (vs, σ2)) (hf : callFails Φ σ2.a vf vs) :
    StuckAt K F X (X.st pos ops σ)
      (pos + bytes (compileE pos k f) + bytes (compileArgs (pos + bytes (compileE pos k f)) (k + (constsE f).length) args)) (.call args.length) ∧
    (compileE pos k (.call l f args)).getLast? = some (.call args.length) ∧ (linesE (.call l f args)).getLast? = some l := by
  simp only [compileE] at h
  simp only [constsE] at hp
  generalize hc1 : compileE pos k f = cf at *
  generalize hc2 : compileArgs (pos + bytes cf) (k + (constsE f).length) args = ca at *
  have s1 := (sound_all hL fuel).E f X pos k ops cx σ σ1 vf (hc1 ▸ codeAt_left (codeAt_left h)) (poolAt_left hp) hx hcf
  obtain ⟨s2, hlen⟩ := (sound_all hL fuel).Args args X (pos + bytes cf) (k + (constsE f).length) (vf :: ops) cx σ1 σ2 vs
    (hc2 ▸ codeAt_right (codeAt_left h)) (poolAt_right hp) hx hca
  rw [hc1] at s1; rw [hc2] at s2
  have ho : codeAt X.code (pos + bytes cf + bytes ca) [Instr.call args.length] := (codeAt_right h).to (by parith)
  have ho' : codeAt X.code (pos + bytes cf + bytes ca) [Instr.call vs.length] := by rw [hlen]; exact ho
  refine ⟨⟨_, s1.trans s2, stuck_call (Φ := Φ) ho' hf, rfl, rfl, rfl, rfl, fetch_codeAt ho⟩, ?_, ?_⟩
  · simp [compileE, hc1, hc2]
  · simp [linesE]

/-- **`fail_line_fn`, index assignments** -/
theorem fail_line_fn_setIndex (hL : Linked Φ K F) (fuel : Nat) (l : Nat) (c i e : FExpr) (pos k : Nat) (ops : List Val)
    (cx : Option (FnDef × Nat)) (σ σ1 σ2 σ3 : Sto) (v vc vi : Val)
    (h : codeAt X.code pos (compileE pos k (.setIndex l c i e))) (hp : poolAt K k (constsE (.setIndex l c i e))) (hx : Agree cx X)
    (he : evalE Φ fuel cx σ e = some (v, σ1)) (hc : evalE Φ fuel cx σ1 c = some (vc, σ2)) (hi : evalE Φ fuel cx σ2 i = some (vi, σ3))
    (hf : setIndexH σ3.a vc vi v = none) :
    evalE Φ (fuel + 1) cx σ (.setIndex l c i e) = none ∧
    (∃ pc, StuckAt K F X (X.st pos ops σ) pc .setIndex ∧ pc + 1 = pos + bytes (compileE pos k (.setIndex l c i e))) ∧
    (compileE pos k (.setIndex l c i e)).getLast? = some .setIndex ∧ (linesE (.setIndex l c i e)).getLast? = some l := by
  have hend : bytes (compileE pos k (.setIndex l c i e)) =
      bytes (compileE pos k e) + bytes (compileE (pos + bytes (compileE pos k e)) (k + (constsE e).length) c) +
        bytes (compileE (pos + bytes (compileE pos k e) + bytes (compileE (pos + bytes (compileE pos k e)) (k + (constsE e).length) c))
          (k + (constsE e).length + (constsE c).length) i) + 1 := by
    simp [compileE, bytes_append, bytes, Instr.size]; omega
  simp only [compileE] at h
  simp only [constsE] at hp
  generalize hce : compileE pos k e = ce at *
  generalize hcc : compileE (pos + bytes ce) (k + (constsE e).length) c = cc at *
  generalize hci : compileE (pos + bytes ce + bytes cc) (k + (constsE e).length + (constsE c).length) i = ci at *
  have h' : codeAt X.code pos (ce ++ cc ++ ci ++ [Instr.setIndex]) := h
  have hpe : poolAt K k (constsE e) := poolAt_left (poolAt_left hp)
  have hpc : poolAt K (k + (constsE e).length) (constsE c) := poolAt_right (poolAt_left hp)
  have hpi : poolAt K (k + (constsE e).length + (constsE c).length) (constsE i) := by
    have := poolAt_right hp
    simpa [Nat.add_assoc] using this
  have s1 := (sound_all hL fuel).E e X pos k ops cx σ σ1 v (hce ▸ codeAt_left (codeAt_left (codeAt_left h'))) hpe hx he
  have s2 := (sound_all hL fuel).E c X (pos + bytes ce) _ (v :: ops) cx σ1 σ2 vc (hcc ▸ codeAt_right (codeAt_left (codeAt_left h'))) hpc hx hc
  have s3 := (sound_all hL fuel).E i X (pos + bytes ce + bytes cc) _ (vc :: v :: ops) cx σ2 σ3 vi
    (hci ▸ (codeAt_right (codeAt_left h')).to (by parith)) hpi hx hi
  rw [hce] at s1; rw [hcc] at s2; rw [hci] at s3
  have ho : codeAt X.code (pos + bytes ce + bytes cc + bytes ci) [Instr.setIndex] := (codeAt_right h').to (by parith)
  refine ⟨by simp [evalE, he, hc, hi, hf], ⟨_, ⟨_, (s1.trans s2).trans s3, stuck_setIndex ho hf, rfl, rfl, rfl, rfl, fetch_codeAt ho⟩, ?_⟩, ?_, ?_⟩
  · rw [hend]; show pos + bytes ce + bytes cc + bytes ci + 1 = _; omega
  · simp [compileE, hce, hcc, hci]
  · simp [linesE]

end

/-! ## the line table is aligned with the code: entry `j` of `linesE e` belongs to instruction `j` of `compileE pos k e`
(so the last entry — the construct's own line — belongs to the construct's own, last, instruction) -/

mutual
/-- the line table of an expression has one entry per instruction of its code -/
theorem linesE_length : ∀ (e : FExpr) (pos k : Nat), (linesE e).length = (compileE pos k e).length
  | .lit .., _, _ | .tru _, _, _ | .fls _, _, _ | .null _, _, _ | .gget .., _, _ | .lget .., _, _ | .curr _, _, _ | .fget .., _, _
  | .bfn .., _, _ => by simp [linesE, compileE]
  | .un _ _ a, pos, k => by simp [linesE, compileE, ← linesE_length a]
  | .gset _ _ a, pos, k | .lset _ _ a, pos, k | .fset _ _ a, pos, k => by simp [linesE, compileE, ← linesE_length a]
  | .bin _ _ a b, pos, k => by simp [linesE, compileE, ← linesE_length a, ← linesE_length b]
  | .lt _ a b, pos, k | .le _ a b, pos, k => by simp [linesE, compileE, ← linesE_length b, ← linesE_length a]
  | .and _ a b, pos, k | .or _ a b, pos, k => by simp [linesE, compileE, ← linesE_length a, ← linesE_length b]
  | .ite _ c t e, pos, k => by simp [linesE, compileE, ← linesE_length c, ← linesE_length t, ← linesE_length e]
  | .matchE l s arms, pos, k => by
    simp only [linesE, compileE, List.length_append, ← linesE_length s]
    rw [linesArms_length l arms (pos + bytes (compileE pos k s)) (k + (constsE s).length)]
  | .call _ f args, pos, k => by simp [linesE, compileE, ← linesE_length f, ← linesArgs_length args]
  | .mkclos .., pos, k => by simp [linesE, compileE]
  | .arrLit _ es, pos, k | .mapLit _ es, pos, k => by simp [linesE, compileE, ← linesArgs_length es]
  | .index _ c i, pos, k => by simp [linesE, compileE, ← linesE_length c, ← linesE_length i]
  | .setIndex _ c i e, pos, k => by simp [linesE, compileE, ← linesE_length e, ← linesE_length c, ← linesE_length i]
theorem linesArms_length (lm : Nat) : ∀ (arms : FArms) (pos k : Nat), (linesArms lm arms).length = (Fn.compileArms pos k arms).length
  | .last _ _ d, pos, k => by simp [linesArms, Fn.compileArms, ← linesE_length d]
  | .cons la pats body rest, pos, k => by
    simp [linesArms, Fn.compileArms, ← lineTablePats_length la, ← linesE_length body, ← linesArms_length lm rest]
theorem linesArgs_length : ∀ (args : FArgs) (pos k : Nat), (linesArgs args).length = (compileArgs pos k args).length
  | .nil, _, _ => by simp [linesArgs, compileArgs]
  | .cons a rest, pos, k => by simp [linesArgs, compileArgs, ← linesE_length a, ← linesArgs_length rest]
end


/-- **`fail_line_fn`**: the four statements together — a failing operator, index read, index
assignment, call (builtin error / not a function / wrong number of arguments), in any activation -/
theorem fail_line_fn :
    type_of% (@fail_line_fn_op) ∧ type_of% (@fail_line_fn_index) ∧ type_of% (@fail_line_fn_setIndex) ∧ type_of% (@fail_line_fn_call) :=
  ⟨@fail_line_fn_op, @fail_line_fn_index, @fail_line_fn_setIndex, @fail_line_fn_call⟩

/-! ## non-vacuity: a failing index read inside a called function is reported with ITS line, from THAT function's line table -/

namespace Example
def argsOf : List FExpr → FArgs
  | [] => .nil
  | a :: r => .cons a (argsOf r)

/-- ```
fn f(a) {          // line 1
  a[5]             // line 2
}
let r = f([1]);    // line 4
``` -/
def fD : FDecl := ⟨1, 1, [.expr 2 (.index 2 (.lget 2 0) (.lit 2 (.int 5)))], 1⟩
def T : List FTop :=
  [.fnDef 1 0 (fnTop 0 fD).1 (fnTop 0 fD).2 fD,
   .stmt (.letG 4 1 (.call 4 (.gget 4 0) (argsOf [.arrLit 4 (argsOf [.lit 4 (.int 1)])])))]

/-- the function constant's line table (one entry per code byte: `GetLocal 0` 2 bytes, `Constant` 3, `GetIndex` 1, `ReturnValue` 1) -/
example : (fnTop 0 fD).2 = [2, 2, 2, 2, 2, 2, 2] := by rfl
/-- the reference evaluation fails; the machine is stuck inside `f` (one caller frame below), at the `GetIndex` (byte 5 of `f`'s
code), whose entry in `f`'s line table — the table stored in the function constant of the running frame — is 2 -/
example : evalT (phiT T) 20 [.null, .null] [[]] {} T = none := by rfl
example : (match frun (constsT T) (codeT T) 100 ⟨⟨compileT 0 0 T, ⟨[], [], 0, 0, 0⟩, 0, 0, 0⟩, [], [.null, .null], [[]], {}, []⟩ with
    | .stuck st => (st.callers.length, st.act.pc, st.act.fd.lines[st.act.pc]?, (byteLines st.act.code (linesT 1 fD.body))[st.act.pc]?)
    | _ => (0, 0, none, none)) = (1, 5, some 2, some 2) := by rfl
end Example

end P2sh.Props.C13
