import P2sh.Props.C10
import P2sh.Proofs.OpsLemmas
/-!
# C10 — the IEEE fact `FloatLaw` proved from Lean's logical model of `Float`

In this Lean `Float` is a structure over `Float.Model` (a `UInt64` whose NaN patterns are
canonical); `==` is `UnpackedFloat.compare … = some .eq` on the unpacked values and `toBits` is
the field of the model.  Hence:

* `unpack_inj`       — on valid bit patterns `UnpackedFloat.unpack binary64` is injective (sign,
                       exponent and mantissa fields are recovered; NaN is canonical);
* `float_beq_cases`  — `x == y` implies: both are zeros (of either sign), or `x = y`;
* **`floatLaw : FloatLaw`** — equal doubles feed the same bytes to the hasher (`-0.0` normalised);
* **`hash_respects_eq_all`**, **`run_refines_unconditional`** — the C10 theorems without the hypothesis.

Nothing here depends on an opaque constant: `Float.toBits`, `Float.beq`, `0.0`, `-0.0`, `/` all
unfold to the model (`Int64.toFloat`, used by `Val.hashStream (.int n)`, *is* opaque, but the law
quantifies over all doubles, so nothing about it is needed).
-/
namespace P2sh.Props.C10
open P2sh P2sh.Proofs
open Float.Model Float.Model.UnpackedFloat

/-! ## the three fields of a packed `binary64` determine the bit pattern -/

abbrev F64 : Format := Format.binary64

theorem mant_toNat (b : BitVec 64) : (unpackMantissa (spec := F64) b).toNat = b.toNat % 2 ^ 52 := by
  simp [unpackMantissa]

theorem exp_toNat (b : BitVec 64) : (unpackExponent (spec := F64) b).toNat = b.toNat / 2 ^ 52 % 2 ^ 11 := by
  simp [unpackExponent, Nat.shiftRight_eq_div_pow]

theorem sign_toNat (b : BitVec 64) : (unpackSign (spec := F64) b).toNat = b.toNat / 2 ^ 63 := by
  have h : b.toNat < 2 ^ 64 := b.isLt
  simp [unpackSign, Nat.shiftRight_eq_div_pow]
  omega

theorem eq_of_fields (b b' : BitVec 64)
    (hs : unpackSign (spec := F64) b = unpackSign (spec := F64) b')
    (he : unpackExponent (spec := F64) b = unpackExponent (spec := F64) b')
    (hm : unpackMantissa (spec := F64) b = unpackMantissa (spec := F64) b') : b = b' := by
  apply BitVec.eq_of_toNat_eq
  have h1 := congrArg BitVec.toNat hs
  have h2 := congrArg BitVec.toNat he
  have h3 := congrArg BitVec.toNat hm
  rw [sign_toNat, sign_toNat] at h1
  rw [exp_toNat, exp_toNat] at h2
  rw [mant_toNat, mant_toNat] at h3
  have hb : b.toNat < 2 ^ 64 := b.isLt
  have hb' : b'.toNat < 2 ^ 64 := b'.isLt
  omega

theorem one_append_toNat (x : BitVec 52) : (1#1 ++ x).toNat = 2 ^ 52 + x.toNat := by
  rw [BitVec.toNat_append, ← Nat.shiftLeft_add_eq_or_of_lt x.isLt]
  rfl

theorem one_append_pos (x : BitVec 52) : 0 < (1#1 ++ x).toNat := by
  rw [one_append_toNat]; exact Nat.lt_of_lt_of_le (by decide) (Nat.le_add_right _ _)

theorem sign_ofBitVec_inj (a b : BitVec 1) (h : Sign.ofBitVec a = Sign.ofBitVec b) : a = b := by
  have ha : a = 0#1 ∨ a = 1#1 := by
    have := a.isLt
    rcases Nat.lt_or_ge a.toNat 1 with h | h
    · exact Or.inl (BitVec.eq_of_toNat_eq (by simp; omega))
    · exact Or.inr (BitVec.eq_of_toNat_eq (by simp; omega))
  have hb : b = 0#1 ∨ b = 1#1 := by
    have := b.isLt
    rcases Nat.lt_or_ge b.toNat 1 with h | h
    · exact Or.inl (BitVec.eq_of_toNat_eq (by simp; omega))
    · exact Or.inr (BitVec.eq_of_toNat_eq (by simp; omega))
  rcases ha with rfl | rfl <;> rcases hb with rfl | rfl
  · rfl
  · simp [Sign.ofBitVec] at h
  · simp [Sign.ofBitVec] at h
  · rfl

/-- the five shapes of an unpacked `binary64` -/
theorem unpack_view (b : BitVec 64) :
    (unpackExponent (spec := F64) b = -1#_ ∧ unpackMantissa (spec := F64) b = 0#_ ∧
      UnpackedFloat.unpack F64 b = .infinity (Sign.ofBitVec (unpackSign (spec := F64) b))) ∨
    (unpackExponent (spec := F64) b = -1#_ ∧ unpackMantissa (spec := F64) b ≠ 0#_ ∧
      UnpackedFloat.unpack F64 b = .notANumber) ∨
    (unpackExponent (spec := F64) b = 0#_ ∧ unpackMantissa (spec := F64) b = 0#_ ∧
      UnpackedFloat.unpack F64 b = .zero (Sign.ofBitVec (unpackSign (spec := F64) b))) ∨
    (unpackExponent (spec := F64) b = 0#_ ∧ unpackMantissa (spec := F64) b ≠ 0#_ ∧
      ∃ e hp, UnpackedFloat.unpack F64 b =
        .finite (Sign.ofBitVec (unpackSign (spec := F64) b)) (unpackMantissa (spec := F64) b).toNat e hp) ∨
    (unpackExponent (spec := F64) b ≠ -1#_ ∧ unpackExponent (spec := F64) b ≠ 0#_ ∧
      ∃ (_ : Int) (hp : _), UnpackedFloat.unpack F64 b =
        .finite (Sign.ofBitVec (unpackSign (spec := F64) b)) (1#1 ++ unpackMantissa (spec := F64) b).toNat
          (((unpackExponent (spec := F64) b).toNat : Int) - 1075) hp) := by
  unfold UnpackedFloat.unpack
  simp only []
  split
  · next h1 =>
    split
    · next h2 => exact Or.inl ⟨h1, h2, rfl⟩
    · next h2 => exact Or.inr (Or.inl ⟨h1, h2, rfl⟩)
  · next h1 =>
    split
    · next h3 =>
      split
      · next h2 => exact Or.inr (Or.inr (Or.inl ⟨h3, h2, rfl⟩))
      · next h2 =>
        have hp : 0 < (unpackMantissa (spec := F64) b).toNat :=
          Nat.pos_of_ne_zero (fun e => h2 (BitVec.eq_of_toNat_eq (by simpa using e)))
        exact Or.inr (Or.inr (Or.inr (Or.inl ⟨h3, h2, _, hp, rfl⟩)))
    · next h3 => exact Or.inr (Or.inr (Or.inr (Or.inr ⟨h1, h3, 0, one_append_pos _, rfl⟩)))

/-- on valid bit patterns (NaN canonical) `unpack` is injective -/
theorem unpack_inj (b b' : BitVec 64) (v : F64.Valid b) (v' : F64.Valid b')
    (h : UnpackedFloat.unpack F64 b = UnpackedFloat.unpack F64 b') : b = b' := by
  have hm : (unpackMantissa (spec := F64) b).toNat < 2 ^ 52 := (unpackMantissa (spec := F64) b).isLt
  have hm' : (unpackMantissa (spec := F64) b').toNat < 2 ^ 52 := (unpackMantissa (spec := F64) b').isLt
  have he : (unpackExponent (spec := F64) b).toNat < 2 ^ 11 := (unpackExponent (spec := F64) b).isLt
  have he' : (unpackExponent (spec := F64) b').toNat < 2 ^ 11 := (unpackExponent (spec := F64) b').isLt
  rcases unpack_view b with ⟨e1, m1, u⟩ | ⟨e1, m1, u⟩ | ⟨e1, m1, u⟩ | ⟨e1, m1, e, hp, u⟩ | ⟨e1, m1, k, hp, u⟩ <;>
  rcases unpack_view b' with ⟨e1', m1', u'⟩ | ⟨e1', m1', u'⟩ | ⟨e1', m1', u'⟩ | ⟨e1', m1', e', hp', u'⟩ | ⟨e1', m1', k', hp', u'⟩ <;>
  rw [u, u'] at h <;> first
    | exact UnpackedFloat.noConfusion h
    | skip
  · -- infinity / infinity
    injection h with hs
    exact eq_of_fields b b' (sign_ofBitVec_inj _ _ hs) (e1.trans e1'.symm) (m1.trans m1'.symm)
  · -- NaN / NaN
    rw [v.eq_packedNaN e1 m1, v'.eq_packedNaN e1' m1']
  · -- zero / zero
    injection h with hs
    exact eq_of_fields b b' (sign_ofBitVec_inj _ _ hs) (e1.trans e1'.symm) (m1.trans m1'.symm)
  · -- subnormal / subnormal
    injection h with hs hmm _
    exact eq_of_fields b b' (sign_ofBitVec_inj _ _ hs) (e1.trans e1'.symm) (BitVec.eq_of_toNat_eq hmm)
  · -- subnormal / normal
    injection h with hs hmm _
    rw [one_append_toNat] at hmm
    omega
  · -- normal / subnormal
    injection h with hs hmm _
    rw [one_append_toNat] at hmm
    omega
  · -- normal / normal
    injection h with hs hmm hee
    rw [one_append_toNat, one_append_toNat] at hmm
    exact eq_of_fields b b' (sign_ofBitVec_inj _ _ hs) (BitVec.eq_of_toNat_eq (by omega))
      (BitVec.eq_of_toNat_eq (by omega))

/-! ## doubles -/

theorem float_eq_of_unpack (x y : Float) (h : x.toModel.unpack = y.toModel.unpack) : x = y := by
  obtain ⟨⟨bx, vx⟩⟩ := x
  obtain ⟨⟨by', vy⟩⟩ := y
  have e := unpack_inj bx.toBitVec by'.toBitVec vx vy h
  have e' : bx = by' := UInt64.toBitVec_inj.mp e
  subst e'
  rfl

theorem zero_unpack : (0.0 : Float).toModel.unpack = .zero .positive := rfl

/-- IEEE `==` on doubles, as Lean's model defines it: two doubles compare equal only if both are
zeros (of either sign) or they are the same double (NaN never compares equal) -/
theorem float_beq_cases (x y : Float) (h : (x == y) = true) :
    ((x == (0.0 : Float)) = true ∧ (y == (0.0 : Float)) = true) ∨ x = y := by
  rw [float_beq_iff] at h
  have hx0 := float_beq_iff x 0.0
  have hy0 := float_beq_iff y 0.0
  unfold fcmp at h hx0 hy0
  rw [zero_unpack] at hx0 hy0
  have key := float_eq_of_unpack x y
  generalize x.toModel.unpack = ux at h hx0 key
  generalize y.toModel.unpack = uy at h hy0 key
  cases ux with
  | notANumber => cases uy <;> cases h
  | infinity s =>
    cases uy with
    | infinity t =>
      cases s <;> cases t
      · exact Or.inr (key rfl)
      · exact absurd h (by decide)
      · exact absurd h (by decide)
      · exact Or.inr (key rfl)
    | notANumber => cases h
    | zero t => cases s <;> cases h
    | finite t m e hp => cases s <;> cases h
  | zero s =>
    cases uy with
    | zero t => exact Or.inl ⟨hx0.mpr rfl, hy0.mpr rfl⟩
    | notANumber => cases h
    | infinity t => cases t <;> cases h
    | finite t m e hp => cases t <;> cases h
  | finite s m e hp =>
    cases uy with
    | notANumber => cases h
    | infinity t => cases t <;> cases h
    | zero t => cases s <;> cases h
    | finite t m' e' hp' =>
      cases s <;> cases t
      · have h' : some ((compare e e').then (compare m m')).swap = some Ordering.eq := h
        have : e = e' ∧ m = m' := by
          simpa [Ordering.then_eq_eq, Int.compare_eq_eq, Nat.compare_eq_eq] using h'
        obtain ⟨h1, h2⟩ := this
        subst h1 h2
        exact Or.inr (key rfl)
      · cases h
      · cases h
      · have h' : some ((compare e e').then (compare m m')) = some Ordering.eq := h
        have : e = e' ∧ m = m' := by
          simpa [Ordering.then_eq_eq, Int.compare_eq_eq, Nat.compare_eq_eq] using h'
        obtain ⟨h1, h2⟩ := this
        subst h1 h2
        exact Or.inr (key rfl)

/-- **floatLaw**: the IEEE fact `FloatLaw`, proved from the logical model of `Float` in Lean's core:
doubles that compare equal feed the same bytes to the hasher once `-0.0` is normalised to `0.0` -/
theorem floatLaw : FloatLaw := by
  intro x y h
  rcases float_beq_cases x y h with ⟨hx, hy⟩ | rfl
  · unfold hashFloatBits
    rw [if_pos hx, if_pos hy]
  · rfl

/-! ## the C10 theorems without the hypothesis -/

/-- **hash respects ==**, for all values, unconditionally -/
theorem hash_respects_eq_all (a b : Val) (h : a.eq b = true) : a.hashStream = b.hashStream :=
  hash_respects_eq floatLaw a b h

/-- any sequence of inserts and lookups, with any keys at all, behaves like the association list
under `==` — unconditionally -/
theorem run_refines_unconditional (ops : List MapOp) (m : HMap.Entries) :
    runModel m ops = runSpec m ops :=
  run_refines_all floatLaw ops m

/-! ## concrete instances -/

-- `0.0 == -0.0`, their bit patterns differ, and `hashFloatBits` normalises them to the same bytes
example : ((0.0 : Float) == -0.0) = true := by decide
example : (0.0 : Float).toBits ≠ (-0.0 : Float).toBits := by decide
example : hashFloatBits (0.0 : Float) = hashFloatBits (-0.0 : Float) := by decide
example : hashFloatBits (-0.0 : Float) = [0, 0, 0, 0, 0, 0, 0, 0] := by decide
-- an ordinary double equals itself and hashes as its bits (0x3ff0000000000000)
example : ((1.0 : Float) == 1.0) = true := by decide
example : hashFloatBits (1.0 : Float) = [0, 0, 0, 0, 0, 0, 240, 63] := by decide
-- NaN is not equal to itself, so the law says nothing about it
example : ((0.0 / 0.0 : Float) == (0.0 / 0.0 : Float)) = false := by decide
-- the float keys `0.0` and `-0.0` are `==` and hash alike (a map cannot hold both)
example : (Val.float 0.0).eq (.float (-0.0)) = true ∧
    (Val.float 0.0).hashStream = (Val.float (-0.0)).hashStream :=
  ⟨by rw [Val.eq]; decide, hash_respects_eq_all _ _ (by rw [Val.eq]; decide)⟩

end P2sh.Props.C10
