import P2sh.Props.BcvStep1
import P2sh.Props.BcvStep2
import P2sh.Props.BcvStep3
import P2sh.Props.BcvStep4
/-!
# Bcv soundness, part 1: the frame-stack invariant is preserved by every iteration of `VM::run`
(the statements relative to the closure discipline `CD`; `P2sh/Props/Bcv.lean` removes the assumption)

`Bcv.check` accepts a function's code only with a table of operand-stack heights that satisfies the local
condition `okAt` at every entry.  This file proves that the table is an invariant of the VM model:

* `Inv` (`P2sh/Props/BcvInv.lean`): every frame on the frame stack runs checked code, the top frame stands at an
  offset `ip` with `sp = bp + numLocals + H[ip]`, every suspended frame stands just after its `Call` at the
  height it will have on return (`callee.bp = bp + numLocals + H[ip]`), function frames have `1 ≤ bp`,
  `bp + numLocals ≤ STACK_SIZE`, the stack / globals arrays keep their sizes, the constants are the pool's.
* `tick_inv`: one iteration of `VM::run` (`tick`) from a state with `Inv` and the closure discipline `CD` does not
  panic (other than the memory exclusion "capacity overflow") and re-establishes `Inv`.
* `CD` (closures in stack slots are checked functions with a long enough captured vector; so are the running frames)
  is what the store typing `SInv` (`P2sh/Props/BcvStore*.lean`) provides.
-/
namespace P2sh.Props.Bcv
open P2sh P2sh.Vm P2sh.Bcv P2sh.Code P2sh.Props.BcvWp

theorem shapeOf_names {n : String} {ws : List Nat} (h : shapeOf n = some ws) :
    n ∈ ["Constant", "Jump", "JumpIfFalse", "JumpIfFalseNoPop", "DefineGlobal", "GetGlobal", "SetGlobal", "Array", "Map", "Call", "DefineLocal", "GetLocal", "SetLocal", "GetBuiltinFn", "GetBuiltinVar", "GetFree", "SetFree", "GetProp", "SetProp", "Closure", "Pop", "Add", "Sub", "Mul", "Div", "Mod", "True", "False", "Equal", "NotEqual", "Greater", "GreaterEq", "Minus", "Bang", "Null", "GetIndex", "SetIndex", "ReturnValue", "Return", "CurrClosure", "Not", "And", "Or", "Xor", "ShiftLeft", "ShiftRight", "Dup", "Dollar"] := by
  unfold shapeOf at h
  split at h <;> first | (cases h; done) | simp

section
variable {consts : List Val} {s : St} {f : Frame} {rest : List Frame} {sm : Summary} {i : Instr} {ws : List Nat}
  {h : Nat} {succs : List (Nat × Nat)}

/-- every opcode: the instruction of a checked frame executes without panic and re-establishes the invariant -/
theorem goal_all (T : Top consts s f rest sm i ws h succs) (hC : CD consts s) (line : Nat) : Goal consts s f line := by
  have hm := shapeOf_names T.shape
  simp only [List.mem_cons, List.mem_nil_iff, or_false] at hm
  rcases hm with hn | hn | hn | hn | hn | hn | hn | hn | hn | hn | hn | hn | hn | hn | hn | hn | hn | hn | hn | hn | hn | hn | hn | hn | hn | hn | hn | hn | hn | hn | hn | hn | hn | hn | hn | hn | hn | hn | hn | hn | hn | hn | hn | hn | hn | hn | hn | hn
  · exact t_Constant T line hn
  · exact t_Jump T line hn
  · exact t_JumpIfFalse T line hn
  · exact t_JumpIfFalseNoPop T line hn
  · exact t_DefineGlobal T line hn
  · exact t_GetGlobal T line hn
  · exact t_SetGlobal T line hn
  · exact t_Array T line hn
  · exact t_Map T line hn
  · exact t_Call T hC line hn
  · exact t_DefineLocal T line hn
  · exact t_GetLocal T line hn
  · exact t_SetLocal T line hn
  · exact t_GetBuiltinFn T line hn
  · exact t_GetBuiltinVar T line hn
  · exact t_GetFree T hC line hn
  · exact t_SetFree T hC line hn
  · exact t_GetProp T line hn
  · exact t_SetProp T line hn
  · exact t_Closure T line hn
  · exact t_Pop T line hn
  · exact t_Add T line hn
  · exact t_Sub T line hn
  · exact t_Mul T line hn
  · exact t_Div T line hn
  · exact t_Mod T line hn
  · exact t_True T line hn
  · exact t_False T line hn
  · exact t_Equal T line hn
  · exact t_NotEqual T line hn
  · exact t_Greater T line hn
  · exact t_GreaterEq T line hn
  · exact t_Minus T line hn
  · exact t_Bang T line hn
  · exact t_Null T line hn
  · exact t_GetIndex T line hn
  · exact t_SetIndex T line hn
  · exact t_ReturnValue T line hn
  · exact t_Return T line hn
  · exact t_CurrClosure T line hn
  · exact t_Not T line hn
  · exact t_And T line hn
  · exact t_Or T line hn
  · exact t_Xor T line hn
  · exact t_ShiftLeft T line hn
  · exact t_ShiftRight T line hn
  · exact t_Dup T line hn
  · exact t_Dollar T line hn

/-- **one iteration of `VM::run` preserves the invariant and does not panic** -/
theorem tick_inv (hI : Inv consts s) (hC : CD consts s) : wp tick (fun _ s' => Inv consts s') s := by
  obtain ⟨f, rest, hf, _, _⟩ := hI.top
  unfold tick
  simp only [wp_bind, wp_curFrame', hf, wp_ite]
  split
  · rename_i hlt
    obtain ⟨hlines, sm, i, ws, h, succs, T⟩ := top_of_inv hI hf hlt
    have hl : f.fn.lines[f.ip]? = some (f.fn.lines[f.ip]) := List.getElem?_eq_getElem hlines
    rw [hl]
    have hg := goal_all T hC (f.fn.lines[f.ip])
    unfold Goal at hg
    simp only [wp_bind, wp_pure] at hg ⊢
    exact hg
  · simp only [wp_pure]
    exact hI
end

/-! ## accepted programs -/

theorem go_ok (consts : List Val) : ∀ (cs : List Val) (i : Nat) (r : List (Nat × Summary)),
    checkProgram.go consts i cs = .ok r → ∀ g, Val.func g ∈ cs → ∃ sm, check consts .func g = .ok sm := by
  intro cs
  induction cs with
  | nil => intro i r _ g hg; cases hg
  | cons c cs ih =>
    intro i r h g hg
    cases c with
    | func g' =>
      unfold checkProgram.go at h
      cases hc : check consts .func g' with
      | error e => simp [hc, bind, Except.bind] at h
      | ok sm =>
        simp only [hc, bind, Except.bind, pure, Except.pure] at h
        cases hgo : checkProgram.go consts (i + 1) cs with
        | error e => simp [hgo] at h
        | ok r' =>
          rcases List.mem_cons.mp hg with heq | hmem
          · cases heq; exact ⟨sm, hc⟩
          · exact ih _ _ hgo g hmem
    | _ =>
      unfold checkProgram.go at h
      rcases List.mem_cons.mp hg with heq | hmem
      · cases heq
      · exact ih _ _ h g hmem

theorem checkProgram_ok {consts : List Val} {main : FnDef} {ps : ProgSummary} (h : checkProgram consts main = .ok ps) :
    consts.all plainConst = true ∧ (∃ sm, check consts .main main = .ok sm) ∧
      ∀ g, Val.func g ∈ consts → ∃ sm, check consts .func g = .ok sm := by
  unfold checkProgram at h
  by_cases hp : consts.all plainConst = true
  · cases hm : check consts .main main with
    | error e => simp [hp, hm, bind, Except.bind] at h
    | ok sm =>
      simp only [hp, hm, bind, Except.bind, pure, Except.pure] at h
      cases hgo : checkProgram.go consts 0 consts with
      | error e => simp [hgo] at h
      | ok r => exact ⟨hp, ⟨sm, rfl⟩, go_ok consts consts 0 r hgo⟩
  · simp [hp, bind, Except.bind] at h

/-- `checkProgram` accepts: the main code, every function constant, plain constants -/
def ProgOk (consts : List Val) (main : FnDef) : Prop := ∃ ps, checkProgram consts main = .ok ps

/-- the states at the iteration boundaries of `VM::run` started in `s0` -/
inductive Reach (s0 : St) : St → Prop
  | init : Reach s0 s0
  | step {s s' : St} : Reach s0 s → exec tick s = (.ok true, s') → Reach s0 s'

section
variable {consts : List Val} {main : FnDef}

/-- the initial state satisfies the invariant -/
theorem init_inv (hp : ProgOk consts main) : Inv consts (initState main consts) := by
  obtain ⟨ps, hps⟩ := hp
  obtain ⟨_, ⟨sm, hsm⟩, _⟩ := checkProgram_ok hps
  obtain ⟨hacc, hnl, hz⟩ := check_ok hsm
  have hz' : main.numLocals = 0 := hz rfl
  refine ⟨⟨_, [], rfl, ⟨sm, 0, hsm, accept_entry hacc, ?_, ?_⟩, rfl⟩, ?_, ?_, rfl⟩
  · show 0 = 0 + main.numLocals + 0
    omega
  · show 0 + main.numLocals ≤ stackSize
    unfold stackSize; omega
  · simp [initState]
  · simp [initState]

/-- **`step_preserves_inv`**: a successful iteration leads to a state satisfying the invariant -/
theorem step_preserves_inv {s s' : St} {b : Bool} (hI : Inv consts s) (hC : CD consts s) (he : exec tick s = (.ok b, s')) :
    Inv consts s' := wp_ok (a := b) (tick_inv hI hC) he

/-- **`no_panic_step`**: an iteration from a state satisfying the invariant never yields `Res.panic`, except
the memory exclusion of property C08 (`"capacity overflow"`: a string repetition beyond 2^24 bytes); it may yield a
runtime error (`err`) or `unmodelled` (packet / IO opcodes and builtins) -/
theorem no_panic_step {s s' : St} {msg : String} (hI : Inv consts s) (hC : CD consts s)
    (he : exec tick s = (.error (.panic msg), s')) : msg = "capacity overflow" := wp_no_panic (tick_inv hI hC) he

theorem reach_inv {s0 s : St} (h0 : Inv consts s0) (hCD : ∀ s, Reach s0 s → CD consts s) (hr : Reach s0 s) : Inv consts s := by
  induction hr with
  | init => exact h0
  | step hr he ih => exact step_preserves_inv ih (hCD _ hr) he

theorem runLoop_safe {s0 : St} (h0 : Inv consts s0) (hCD : ∀ s, Reach s0 s → CD consts s) :
    ∀ (fuel : Nat) (s : St), Reach s0 s → ∀ msg s', exec (runLoop fuel) s = (.error (.panic msg), s') → msg = "capacity overflow" := by
  intro fuel
  induction fuel with
  | zero =>
    intro s _ msg s' he
    simp [runLoop, exec_throw] at he
  | succ fuel ih =>
    intro s hr msg s' he
    rw [exec_runLoop_succ] at he
    have hI := reach_inv h0 hCD hr
    cases ht : exec tick s with
    | mk r s1 =>
      rw [ht] at he
      cases r with
      | error e =>
        simp only at he
        cases he
        exact no_panic_step hI (hCD _ hr) ht
      | ok b =>
        cases b with
        | true => exact ih s1 (Reach.step hr ht) msg s' he
        | false => simp at he

/-- **`vm_safe`, relative to the closure discipline**: on a program accepted by `checkProgram` the VM model never
ends in a panic (other than the memory exclusion), provided `CD` holds at every reachable state -/
theorem vm_safe_partial (hp : ProgOk consts main)
    (hCD : ∀ s, Reach (initState main consts) s → CD consts s) (fuel : Nat) (msg : String) :
    (run main consts fuel).1 = .error (.panic msg) → msg = "capacity overflow" := by
  intro h
  have := runLoop_safe (init_inv hp) hCD fuel _ Reach.init msg (run main consts fuel).2
  apply this
  show exec (runLoop fuel) (initState main consts) = _
  rw [← h]
  rfl

/-- **`sound_heights`** (state form): in a state satisfying the invariant, the frame on top runs checked code and,
when its `ip` is inside the code, the verifier's table has an entry for `ip` and `sp - bp - numLocals` is that height -/
theorem sound_heights_inv {s : St} {f : Frame} {rest : List Frame} (hI : Inv consts s) (hf : s.frames = f :: rest)
    (hlt : f.ip < f.fn.code.length) :
    ∃ sm h, check consts (kindOf rest) f.fn = .ok sm ∧ sm.heightAt f.ip = some h ∧ s.sp = f.bp + f.fn.numLocals + h := by
  obtain ⟨_, sm, i, ws, h, succs, T⟩ := top_of_inv hI hf hlt
  obtain ⟨f', rest', hf', ⟨sm', h', hck, hsucc, hsp, _⟩, _⟩ := hI.top
  rw [hf] at hf'
  cases hf'
  exact ⟨sm', h', hck, succOk_lt hsucc hlt, hsp⟩

/-- the same for a suspended frame `f` (with `b` the base pointer of the frame above it): it stands at a checked
offset, and `b` is the stack pointer the verifier's height predicts for the moment the call returns -/
theorem sound_heights_suspended {f : Frame} {rest : List Frame} {b : Nat} (hb : Below consts (f :: rest) b)
    (hlt : f.ip < f.fn.code.length) :
    ∃ sm h, check consts (kindOf rest) f.fn = .ok sm ∧ sm.heightAt f.ip = some h ∧ b = f.bp + f.fn.numLocals + h := by
  obtain ⟨_, ⟨sm, h, hck, hsucc, hsp, _⟩, _⟩ := hb
  exact ⟨sm, h, hck, succOk_lt hsucc hlt, hsp⟩

theorem below_tail {f : Frame} {rest : List Frame} {b : Nat} (hb : Below consts (f :: rest) b) : Below consts rest f.bp :=
  hb.2.2

/-- **`sound_heights`**: along every execution of an accepted program (given the closure discipline), whenever
the running frame's `ip` is inside its code, `sp - bp - numLocals` is the height the verifier computed for `ip` -/
theorem sound_heights_partial (hp : ProgOk consts main)
    (hCD : ∀ s, Reach (initState main consts) s → CD consts s) {s : St} (hr : Reach (initState main consts) s)
    {f : Frame} {rest : List Frame} (hf : s.frames = f :: rest) (hlt : f.ip < f.fn.code.length) :
    ∃ sm h, check consts (kindOf rest) f.fn = .ok sm ∧ sm.heightAt f.ip = some h ∧ s.sp = f.bp + f.fn.numLocals + h :=
  sound_heights_inv (reach_inv (init_inv hp) hCD hr) hf hlt

/-- **`loop_constant_stack`**: two visits of the same instruction of the same function (a loop head, for example)
see the same operand-stack height, whatever happened in between — loops, calls, closures, `match`, `break` included -/
theorem loop_constant_stack_inv {s1 s2 : St} {f1 f2 : Frame} {r1 r2 : List Frame} (h1 : Inv consts s1) (h2 : Inv consts s2)
    (hf1 : s1.frames = f1 :: r1) (hf2 : s2.frames = f2 :: r2) (hfn : f1.fn = f2.fn) (hip : f1.ip = f2.ip)
    (hk : kindOf r1 = kindOf r2) (hlt : f1.ip < f1.fn.code.length) :
    s1.sp - (f1.bp + f1.fn.numLocals) = s2.sp - (f2.bp + f2.fn.numLocals) := by
  obtain ⟨sm1, a, hc1, ha, hs1⟩ := sound_heights_inv h1 hf1 hlt
  obtain ⟨sm2, b, hc2, hb, hs2⟩ := sound_heights_inv h2 hf2 (by rw [← hfn, ← hip]; exact hlt)
  rw [hfn, hk] at hc1
  rw [hc1] at hc2
  cases hc2
  rw [hip] at ha
  rw [ha] at hb
  cases hb
  omega

theorem loop_constant_stack_partial (hp : ProgOk consts main)
    (hCD : ∀ s, Reach (initState main consts) s → CD consts s) {s1 s2 : St}
    (hr1 : Reach (initState main consts) s1) (hr2 : Reach (initState main consts) s2)
    {f1 f2 : Frame} {r1 r2 : List Frame} (hf1 : s1.frames = f1 :: r1) (hf2 : s2.frames = f2 :: r2)
    (hfn : f1.fn = f2.fn) (hip : f1.ip = f2.ip) (hk : kindOf r1 = kindOf r2) (hlt : f1.ip < f1.fn.code.length) :
    s1.sp - (f1.bp + f1.fn.numLocals) = s2.sp - (f2.bp + f2.fn.numLocals) :=
  loop_constant_stack_inv (reach_inv (init_inv hp) hCD hr1) (reach_inv (init_inv hp) hCD hr2) hf1 hf2 hfn hip hk hlt

/-- a terminated run of an accepted program leaves the operand stack empty (`sp = 0`): the main code's end has height 0 -/
theorem end_height_zero {s : St} {f : Frame} (hI : Inv consts s) (hf : s.frames = [f]) (hend : f.ip = f.fn.code.length) :
    s.sp = f.fn.numLocals := by
  obtain ⟨f', rest', hf', ⟨sm, h, hck, hsucc, hsp, _⟩, hb⟩ := hI.top
  rw [hf] at hf'
  cases hf'
  have hb0 : f.bp = 0 := hb
  unfold succOk at hsucc
  simp [hend] at hsucc
  omega
end

end P2sh.Props.Bcv
