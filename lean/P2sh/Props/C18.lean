import P2sh.Model.Proto
import P2sh.Spec.Rfc
/-!
# C18 — MAC, IPv4 and IPv6 address text

* `mac_roundtrip`, `v4_roundtrip`, `v6_roundtrip` — for every address, the text `Display` prints parses back to it.
* `mac_rejects_bad_count`, `v4_rejects_bad_count`, `v6_rejects_too_many`, `v6_rejects_bad_count_plain` — wrong number of
  groups; `mac_rejects_bad_group`, `v4_rejects_bad_group`, `v6_rejects_bad_group`, `checkDigits_out_of_range` — a group that is
  not a number of the type's range.
* `v6_leading_compression_rejected_witness`, `v6_trailing_compression_rejected_witness` — `::1`, `1::`, `::` are standard
  (RFC 4291 §2.2 form 2) and refused today; `v6_wrong_count_accepted_witness` — a single colon at an end, and the empty
  text, are read as a compression although the reference counts the groups wrong.
-/
open P2sh P2sh.Proto P2sh.Spec
namespace P2sh.Props.C18

theorem lowerDigit_val : ∀ d : Fin 16, digitVal (lowerDigit d.val) = some d.val := by decide
theorem lowerDigit_ne : ∀ d : Fin 16, lowerDigit d.val ≠ ':' ∧ lowerDigit d.val ≠ '+' ∧ lowerDigit d.val ≠ '-' ∧ lowerDigit d.val ≠ '.' := by decide
theorem upperDigit_val : ∀ d : Fin 16, digitVal (upperDigit d.val) = some d.val := by decide
theorem upperDigit_ne : ∀ d : Fin 16, upperDigit d.val ≠ ':' ∧ upperDigit d.val ≠ '+' ∧ upperDigit d.val ≠ '-' := by decide

theorem ldv (d : Nat) (h : d < 16) : digitVal (lowerDigit d) = some d := lowerDigit_val ⟨d, h⟩
theorem ldn (d : Nat) (h : d < 16) : lowerDigit d ≠ ':' ∧ lowerDigit d ≠ '+' ∧ lowerDigit d ≠ '-' ∧ lowerDigit d ≠ '.' := lowerDigit_ne ⟨d, h⟩
theorem udv (d : Nat) (h : d < 16) : digitVal (upperDigit d) = some d := upperDigit_val ⟨d, h⟩
theorem udn (d : Nat) (h : d < 16) : upperDigit d ≠ ':' ∧ upperDigit d ≠ '+' ∧ upperDigit d ≠ '-' := upperDigit_ne ⟨d, h⟩

/-- a text that does not start with a sign is parsed as digits -/
theorem parseUnsigned_nosign (radix max : Nat) (c : Char) (cs : List Char) (h1 : c ≠ '+') (h2 : c ≠ '-') :
    parseUnsigned radix max (c :: cs) = checkDigits radix max (c :: cs) := by
  unfold parseUnsigned
  split <;> simp_all

theorem dv1 (a : Nat) (ha : a < 16) : digitsVal 16 [lowerDigit a] 0 = some a := by
  simp [digitsVal, ldv a ha, ha]
theorem dv2 (a b : Nat) (ha : a < 16) (hb : b < 16) : digitsVal 16 [lowerDigit a, lowerDigit b] 0 = some (a * 16 + b) := by
  simp [digitsVal, ldv a ha, ldv b hb, ha, hb]
theorem dv3 (a b c : Nat) (ha : a < 16) (hb : b < 16) (hc : c < 16) :
    digitsVal 16 [lowerDigit a, lowerDigit b, lowerDigit c] 0 = some ((a * 16 + b) * 16 + c) := by
  simp [digitsVal, ldv a ha, ldv b hb, ldv c hc, ha, hb, hc]
theorem dv4 (a b c d : Nat) (ha : a < 16) (hb : b < 16) (hc : c < 16) (hd : d < 16) :
    digitsVal 16 [lowerDigit a, lowerDigit b, lowerDigit c, lowerDigit d] 0 = some (((a * 16 + b) * 16 + c) * 16 + d) := by
  simp [digitsVal, ldv a ha, ldv b hb, ldv c hc, ldv d hd, ha, hb, hc, hd]

theorem hex16L_parses (g : Nat) (hg : g < 65536) : parseUnsigned 16 65535 (hex16L g) = some g := by
  unfold hex16L
  by_cases h1 : g < 16
  · simp only [h1, if_true]
    rw [parseUnsigned_nosign _ _ _ _ (ldn g h1).2.1 (ldn g h1).2.2.1, checkDigits, dv1 g h1]
    simp; omega
  · by_cases h2 : g < 256
    · simp only [h1, h2, if_true, if_false]
      rw [parseUnsigned_nosign _ _ _ _ (ldn (g / 16) (by omega)).2.1 (ldn (g / 16) (by omega)).2.2.1, checkDigits,
        dv2 _ _ (by omega) (by omega)]
      simp; omega
    · by_cases h3 : g < 4096
      · simp only [h1, h2, h3, if_true, if_false]
        rw [parseUnsigned_nosign _ _ _ _ (ldn (g / 256) (by omega)).2.1 (ldn (g / 256) (by omega)).2.2.1, checkDigits,
          dv3 _ _ _ (by omega) (by omega) (by omega)]
        simp; omega
      · simp only [h1, h2, h3, if_false]
        rw [parseUnsigned_nosign _ _ _ _ (ldn (g / 4096 % 16) (by omega)).2.1 (ldn (g / 4096 % 16) (by omega)).2.2.1, checkDigits,
          dv4 _ _ _ _ (by omega) (by omega) (by omega) (by omega)]
        simp; omega

theorem hex16L_clean (g : Nat) (hg : g < 65536) : ':' ∉ hex16L g ∧ hex16L g ≠ [] := by
  unfold hex16L
  have n := fun d (h : d < 16) => (ldn d h).1
  by_cases h1 : g < 16
  · simp [h1, Ne.symm (n g h1)]
  · by_cases h2 : g < 256
    · simp [h1, h2, Ne.symm (n (g / 16) (by omega)), Ne.symm (n (g % 16) (by omega))]
    · by_cases h3 : g < 4096
      · simp [h1, h2, h3, Ne.symm (n (g / 256) (by omega)), Ne.symm (n (g / 16 % 16) (by omega)), Ne.symm (n (g % 16) (by omega))]
      · simp [h1, h2, h3, Ne.symm (n (g / 4096 % 16) (by omega)), Ne.symm (n (g / 256 % 16) (by omega)),
          Ne.symm (n (g / 16 % 16) (by omega)), Ne.symm (n (g % 16) (by omega))]

/-! ## splitting a joined text -/

theorem splitOn_nosep (sep : Char) (g : List Char) (h : sep ∉ g) : splitOn sep g = [g] := by
  induction g with
  | nil => rfl
  | cons c cs ih =>
    have hc : c ≠ sep := fun e => h (by simp [e])
    have hcs : sep ∉ cs := fun e => h (by simp [e])
    simp [splitOn, hc, ih hcs]

theorem splitOn_append (sep : Char) (g rest : List Char) (h : sep ∉ g) :
    splitOn sep (g ++ sep :: rest) = g :: splitOn sep rest := by
  induction g with
  | nil => simp [splitOn]
  | cons c cs ih =>
    have hc : c ≠ sep := fun e => h (by simp [e])
    have hcs : sep ∉ cs := fun e => h (by simp [e])
    simp [splitOn, hc, ih hcs]

theorem splitOn_join (sep : Char) (gs : List (List Char)) (hne : gs ≠ []) (h : ∀ g ∈ gs, sep ∉ g) :
    splitOn sep (joinSep sep gs) = gs := by
  induction gs with
  | nil => exact absurd rfl hne
  | cons g rest ih =>
    cases rest with
    | nil => simpa [joinSep] using splitOn_nosep sep g (h g (by simp))
    | cons g2 rest2 =>
      have := ih (by simp) (fun x hx => h x (by simp [hx]))
      simp only [joinSep]
      rw [splitOn_append sep g _ (h g (by simp)), this]

theorem parseAll_map (radix max : Nat) (f : Nat → List Char) (a : List Nat)
    (h : ∀ x ∈ a, parseUnsigned radix max (f x) = some x) : parseAll radix max (a.map f) = some a := by
  induction a with
  | nil => rfl
  | cons x xs ih =>
    simp [parseAll, h x (by simp), ih (fun y hy => h y (by simp [hy]))]

/-! ## round trips -/

set_option maxRecDepth 100000 in
theorem hex2U_ok : ∀ b : Fin 256, parseUnsigned 16 255 (hex2U b.val) = some b.val ∧ ':' ∉ hex2U b.val := by decide +kernel

set_option maxRecDepth 100000 in
theorem dec8_ok : ∀ b : Fin 256, parseUnsigned 10 255 (dec8 b.val) = some b.val ∧ '.' ∉ dec8 b.val := by decide +kernel

/-- **MAC round trip**: the text `Display` prints parses back to the same six bytes -/
theorem mac_roundtrip (a : List Nat) (hlen : a.length = 6) (hb : ∀ b ∈ a, b < 256) : parseMac (showMac a) = some a := by
  have hsplit : splitOn ':' (joinSep ':' (a.map hex2U)) = a.map hex2U := by
    apply splitOn_join
    · intro e; simp [List.map_eq_nil_iff] at e; simp [e] at hlen
    · intro g hg
      obtain ⟨b, hbm, rfl⟩ := List.mem_map.mp hg
      exact (hex2U_ok ⟨b, hb b hbm⟩).2
  simp only [parseMac, showMac, hsplit, List.length_map, hlen]
  simpa using parseAll_map 16 255 hex2U a (fun b hbm => (hex2U_ok ⟨b, hb b hbm⟩).1)

/-- **IPv4 round trip** -/
theorem v4_roundtrip (a : List Nat) (hlen : a.length = 4) (hb : ∀ b ∈ a, b < 256) : parseV4 (showV4 a) = some a := by
  have hsplit : splitOn '.' (joinSep '.' (a.map dec8)) = a.map dec8 := by
    apply splitOn_join
    · intro e; simp [List.map_eq_nil_iff] at e; simp [e] at hlen
    · intro g hg
      obtain ⟨b, hbm, rfl⟩ := List.mem_map.mp hg
      exact (dec8_ok ⟨b, hb b hbm⟩).2
  simp only [parseV4, showV4, hsplit, List.length_map, hlen]
  simpa using parseAll_map 10 255 dec8 a (fun b hbm => (dec8_ok ⟨b, hb b hbm⟩).1)

theorem hex16L_not_empty (g : Nat) (hg : g < 65536) : (hex16L g).isEmpty = false := by
  have := (hex16L_clean g hg).2
  cases h : hex16L g <;> simp_all

/-- **IPv6 round trip**: the eight-group text `Display` prints parses back to the same address -/
theorem v6_roundtrip (a0 a1 a2 a3 a4 a5 a6 a7 : Nat) (h0 : a0 < 65536) (h1 : a1 < 65536) (h2 : a2 < 65536) (h3 : a3 < 65536)
    (h4 : a4 < 65536) (h5 : a5 < 65536) (h6 : a6 < 65536) (h7 : a7 < 65536) :
    parseV6 (showV6 [a0, a1, a2, a3, a4, a5, a6, a7]) = some [a0, a1, a2, a3, a4, a5, a6, a7] := by
  have hsplit : splitOn ':' (joinSep ':' ([a0, a1, a2, a3, a4, a5, a6, a7].map hex16L)) = [a0, a1, a2, a3, a4, a5, a6, a7].map hex16L := by
    apply splitOn_join
    · simp
    · intro g hg
      simp only [List.map_cons, List.map_nil, List.mem_cons, List.mem_nil_iff, or_false] at hg
      rcases hg with rfl | rfl | rfl | rfl | rfl | rfl | rfl | rfl <;> exact (hex16L_clean _ (by assumption)).1
  simp only [parseV6, showV6, hsplit]
  simp [v6Loop, hex16L_not_empty, hex16L_parses, *]

/-! ## rejection -/

theorem mac_rejects_bad_count (s : List Char) (h : (splitOn ':' s).length ≠ 6) : parseMac s = none := by
  simp [parseMac, h]

theorem v4_rejects_bad_count (s : List Char) (h : (splitOn '.' s).length ≠ 4) : parseV4 s = none := by
  simp [parseV4, h]

theorem v6_rejects_too_many (s : List Char) (h : (splitOn ':' s).length > 8) : parseV6 s = none := by
  simp [parseV6, h]

theorem parseAll_none_of_mem (radix max : Nat) (parts : List (List Char)) (p : List Char) (hp : p ∈ parts)
    (hbad : parseUnsigned radix max p = none) : parseAll radix max parts = none := by
  induction parts with
  | nil => cases hp
  | cons q qs ih =>
    simp only [parseAll]
    cases hq : parseUnsigned radix max q with
    | none => rfl
    | some v =>
      have : p ∈ qs := by
        cases hp with
        | head => rw [hbad] at hq; cases hq
        | tail _ h => exact h
      simp [ih this]

/-- a group whose digits denote a value beyond the type is refused -/
theorem checkDigits_out_of_range (radix max : Nat) (ds : List Char) (v : Nat) (hv : digitsVal radix ds 0 = some v)
    (hbig : v > max) : checkDigits radix max ds = none := by
  simp [checkDigits, hv]; omega

/-- MAC and IPv4: one bad group (not a number, or out of range) makes the whole text invalid -/
theorem mac_rejects_bad_group (s p : List Char) (hp : p ∈ splitOn ':' s) (hbad : parseUnsigned 16 255 p = none) :
    parseMac s = none := by
  simp only [parseMac]
  split
  · rfl
  · exact parseAll_none_of_mem 16 255 _ p hp hbad

theorem v4_rejects_bad_group (s p : List Char) (hp : p ∈ splitOn '.' s) (hbad : parseUnsigned 10 255 p = none) :
    parseV4 s = none := by
  simp only [parseV4]
  split
  · rfl
  · exact parseAll_none_of_mem 10 255 _ p hp hbad

/-- without an empty segment the loop never sets `compressed` and counts one part per segment -/
theorem v6Loop_plain : ∀ (segs : List (List Char)) (i : Nat) (st st' : V6St),
    (∀ seg ∈ segs, seg.isEmpty = false) → st.compressed = false → v6Loop segs i st = some st' →
    st'.compressed = false ∧ st'.partIndex = st.partIndex + segs.length := by
  intro segs
  induction segs with
  | nil => intro i st st' _ hc h; simp [v6Loop] at h; subst h; exact ⟨hc, rfl⟩
  | cons seg rest ih =>
    intro i st st' hne hc h
    have hs := hne seg (by simp)
    rw [v6Loop] at h
    simp only [hs, Bool.false_eq_true, if_false] at h
    by_cases h8 : st.partIndex ≥ 8
    · simp [h8] at h
    · simp only [h8, if_false] at h
      cases hp : parseUnsigned 16 65535 seg with
      | none => simp [hp] at h
      | some v =>
        simp only [hp] at h
        have := ih _ _ _ (fun x hx => hne x (by simp [hx])) (by exact hc) h
        exact ⟨this.1, by rw [this.2]; simp; omega⟩

/-- IPv6 without `::` (no empty segment): anything but eight groups is refused -/
theorem v6_rejects_bad_count_plain (s : List Char) (hne : ∀ seg ∈ splitOn ':' s, seg.isEmpty = false)
    (hcount : (splitOn ':' s).length ≠ 8) : parseV6 s = none := by
  simp only [parseV6]
  split
  · rfl
  · split
    · rfl
    · rename_i st hst
      have := v6Loop_plain _ 0 {} st hne rfl hst
      simp [this.1]
      intro h8
      have := this.2
      simp at this
      omega

/-- a segment that is not a 16-bit hexadecimal number is refused wherever it stands -/
theorem v6Loop_bad_group : ∀ (segs : List (List Char)) (i : Nat) (st : V6St) (p : List Char),
    p ∈ segs → p.isEmpty = false → parseUnsigned 16 65535 p = none → v6Loop segs i st = none := by
  intro segs
  induction segs with
  | nil => intro i st p hp; cases hp
  | cons seg rest ih =>
    intro i st p hp hne hbad
    simp only [v6Loop]
    cases hp with
    | head => simp [hne, hbad]
    | tail _ hmem =>
      split
      · split
        · rfl
        · exact ih _ _ p hmem hne hbad
      · split
        · rfl
        · split
          · exact ih _ _ p hmem hne hbad
          · rfl

theorem v6_rejects_bad_group (s p : List Char) (hp : p ∈ splitOn ':' s) (hne : p.isEmpty = false)
    (hbad : parseUnsigned 16 65535 p = none) : parseV6 s = none := by
  simp only [parseV6]
  split
  · rfl
  · rw [v6Loop_bad_group _ 0 {} p hp hne hbad]

/-! ## the standard forms refused today, and the malformed ones accepted -/

/-- `::1` — the loopback address — is refused: the split yields two empty segments -/
theorem v6_leading_compression_rejected_witness :
    parseV6 [':', ':', '1'] = none ∧ Rfc.parseV6 [':', ':', '1'] = .std [0, 0, 0, 0, 0, 0, 0, 1] := by decide

/-- `1::` is refused too, and so is `::` -/
theorem v6_trailing_compression_rejected_witness :
    parseV6 ['1', ':', ':'] = none ∧ Rfc.parseV6 ['1', ':', ':'] = .std [1, 0, 0, 0, 0, 0, 0, 0] ∧
    parseV6 [':', ':'] = none ∧ Rfc.parseV6 [':', ':'] = .std [0, 0, 0, 0, 0, 0, 0, 0] := by decide

/-- `1::2` (compression in the middle) is accepted with the right value -/
theorem v6_middle_compression_example :
    parseV6 ['1', ':', ':', '2'] = some [1, 0, 0, 0, 0, 0, 0, 2] ∧ Rfc.parseV6 ['1', ':', ':', '2'] = .std [1, 0, 0, 0, 0, 0, 0, 2] := by decide

/-- seven groups behind a single colon, and the empty text, are accepted although they have the wrong number of groups -/
theorem v6_wrong_count_accepted_witness :
    parseV6 [':', '1', ':', '2', ':', '3', ':', '4', ':', '5', ':', '6', ':', '7'] = some [0, 1, 2, 3, 4, 5, 6, 7] ∧
    Rfc.parseV6 [':', '1', ':', '2', ':', '3', ':', '4', ':', '5', ':', '6', ':', '7'] = .bad ∧
    parseV6 [] = some [0, 0, 0, 0, 0, 0, 0, 0] ∧ Rfc.parseV6 [] = .bad := by decide
end P2sh.Props.C18
