import P2sh.Model.Proto
import P2sh.Spec.Rfc
/-!
# C18 — MAC, IPv4 and IPv6 address text

* `mac_roundtrip`, `v4_roundtrip`, `v6_roundtrip` — for every address, the text `Display` prints parses back to it.
* `v6_accepts_all` — RFC 4291 §2.2 form 2: any groups before and after one `::` (at most seven in all, so also none
  before — a leading `::` — and none after — a trailing `::`), each written with any digits `u16::from_str_radix`
  accepts (1–4 hexadecimal digits of either case in particular), parse to those groups with the zero groups in between.
* `mac_rejects_bad_count`, `v4_rejects_bad_count`, `v6_rejects_bad_count_plain`, `v6_rejects_too_many` — wrong number of
  groups; `mac_rejects_bad_group`, `v4_rejects_bad_group`, `v6_rejects_bad_group`, `v6_rejects_bad_group_compressed`,
  `checkDigits_out_of_range` — a group that is not a number of the type's range (an empty group — a lone colon at an end,
  a second `::` — included).

History: before /repo commit d061929 the IPv6 parser split on `:` and counted empty segments: `::1`, `1::` and `::` were
refused, `:1:2:3:4:5:6:7` and the empty text accepted; `v6_accepts_all` was open and three witnesses recorded this.
-/
open P2sh P2sh.Proto P2sh.Spec
namespace P2sh.Props.C18

theorem lowerDigit_val : ∀ d : Fin 16, digitVal (lowerDigit d.val) = some d.val := by decide
theorem lowerDigit_ne : ∀ d : Fin 16, lowerDigit d.val ≠ ':' ∧ lowerDigit d.val ≠ '+' ∧ lowerDigit d.val ≠ '-' ∧ lowerDigit d.val ≠ '.' := by decide
theorem upperDigit_val : ∀ d : Fin 16, digitVal (upperDigit d.val) = some d.val := by decide
theorem upperDigit_ne : ∀ d : Fin 16, upperDigit d.val ≠ ':' ∧ upperDigit d.val ≠ '+' ∧ upperDigit d.val ≠ '-' := by decide

theorem ldv (d : Nat) (h : d < 16) : digitVal (lowerDigit d) = some d := lowerDigit_val ⟨d, h⟩
theorem ldn (d : Nat) (h : d < 16) : lowerDigit d ≠ ':' ∧ lowerDigit d ≠ '+' ∧ lowerDigit d ≠ '-' ∧ lowerDigit d ≠ '.' := lowerDigit_ne ⟨d, h⟩
theorem udv (d : Nat) (h : d < 16) : digitVal (upperDigit d) = some d := upperDigit_val ⟨d, h⟩
theorem udn (d : Nat) (h : d < 16) : upperDigit d ≠ ':' ∧ upperDigit d ≠ '+' ∧ upperDigit d ≠ '-' := upperDigit_ne ⟨d, h⟩

/-- a text that does not start with a sign is parsed as digits -/
theorem parseUnsigned_nosign (radix max : Nat) (c : Char) (cs : List Char) (h1 : c ≠ '+') (h2 : c ≠ '-') :
    parseUnsigned radix max (c :: cs) = checkDigits radix max (c :: cs) := by
  unfold parseUnsigned
  split <;> simp_all

theorem dv1 (a : Nat) (ha : a < 16) : digitsVal 16 [lowerDigit a] 0 = some a := by
  simp [digitsVal, ldv a ha, ha]
theorem dv2 (a b : Nat) (ha : a < 16) (hb : b < 16) : digitsVal 16 [lowerDigit a, lowerDigit b] 0 = some (a * 16 + b) := by
  simp [digitsVal, ldv a ha, ldv b hb, ha, hb]
theorem dv3 (a b c : Nat) (ha : a < 16) (hb : b < 16) (hc : c < 16) :
    digitsVal 16 [lowerDigit a, lowerDigit b, lowerDigit c] 0 = some ((a * 16 + b) * 16 + c) := by
  simp [digitsVal, ldv a ha, ldv b hb, ldv c hc, ha, hb, hc]
theorem dv4 (a b c d : Nat) (ha : a < 16) (hb : b < 16) (hc : c < 16) (hd : d < 16) :
    digitsVal 16 [lowerDigit a, lowerDigit b, lowerDigit c, lowerDigit d] 0 = some (((a * 16 + b) * 16 + c) * 16 + d) := by
  simp [digitsVal, ldv a ha, ldv b hb, ldv c hc, ldv d hd, ha, hb, hc, hd]

theorem hex16L_parses (g : Nat) (hg : g < 65536) : parseUnsigned 16 65535 (hex16L g) = some g := by
  unfold hex16L
  by_cases h1 : g < 16
  · simp only [h1, if_true]
    rw [parseUnsigned_nosign _ _ _ _ (ldn g h1).2.1 (ldn g h1).2.2.1, checkDigits, dv1 g h1]
    simp; omega
  · by_cases h2 : g < 256
    · simp only [h1, h2, if_true, if_false]
      rw [parseUnsigned_nosign _ _ _ _ (ldn (g / 16) (by omega)).2.1 (ldn (g / 16) (by omega)).2.2.1, checkDigits,
        dv2 _ _ (by omega) (by omega)]
      simp; omega
    · by_cases h3 : g < 4096
      · simp only [h1, h2, h3, if_true, if_false]
        rw [parseUnsigned_nosign _ _ _ _ (ldn (g / 256) (by omega)).2.1 (ldn (g / 256) (by omega)).2.2.1, checkDigits,
          dv3 _ _ _ (by omega) (by omega) (by omega)]
        simp; omega
      · simp only [h1, h2, h3, if_false]
        rw [parseUnsigned_nosign _ _ _ _ (ldn (g / 4096 % 16) (by omega)).2.1 (ldn (g / 4096 % 16) (by omega)).2.2.1, checkDigits,
          dv4 _ _ _ _ (by omega) (by omega) (by omega) (by omega)]
        simp; omega

theorem hex16L_clean (g : Nat) (hg : g < 65536) : ':' ∉ hex16L g ∧ hex16L g ≠ [] := by
  unfold hex16L
  have n := fun d (h : d < 16) => (ldn d h).1
  by_cases h1 : g < 16
  · simp [h1, Ne.symm (n g h1)]
  · by_cases h2 : g < 256
    · simp [h1, h2, Ne.symm (n (g / 16) (by omega)), Ne.symm (n (g % 16) (by omega))]
    · by_cases h3 : g < 4096
      · simp [h1, h2, h3, Ne.symm (n (g / 256) (by omega)), Ne.symm (n (g / 16 % 16) (by omega)), Ne.symm (n (g % 16) (by omega))]
      · simp [h1, h2, h3, Ne.symm (n (g / 4096 % 16) (by omega)), Ne.symm (n (g / 256 % 16) (by omega)),
          Ne.symm (n (g / 16 % 16) (by omega)), Ne.symm (n (g % 16) (by omega))]

/-! ## splitting a joined text -/

theorem splitOn_nosep (sep : Char) (g : List Char) (h : sep ∉ g) : splitOn sep g = [g] := by
  induction g with
  | nil => rfl
  | cons c cs ih =>
    have hc : c ≠ sep := fun e => h (by simp [e])
    have hcs : sep ∉ cs := fun e => h (by simp [e])
    simp [splitOn, hc, ih hcs]

theorem splitOn_append (sep : Char) (g rest : List Char) (h : sep ∉ g) :
    splitOn sep (g ++ sep :: rest) = g :: splitOn sep rest := by
  induction g with
  | nil => simp [splitOn]
  | cons c cs ih =>
    have hc : c ≠ sep := fun e => h (by simp [e])
    have hcs : sep ∉ cs := fun e => h (by simp [e])
    simp [splitOn, hc, ih hcs]

theorem splitOn_join (sep : Char) (gs : List (List Char)) (hne : gs ≠ []) (h : ∀ g ∈ gs, sep ∉ g) :
    splitOn sep (joinSep sep gs) = gs := by
  induction gs with
  | nil => exact absurd rfl hne
  | cons g rest ih =>
    cases rest with
    | nil => simpa [joinSep] using splitOn_nosep sep g (h g (by simp))
    | cons g2 rest2 =>
      have := ih (by simp) (fun x hx => h x (by simp [hx]))
      simp only [joinSep]
      rw [splitOn_append sep g _ (h g (by simp)), this]

theorem parseAll_map (radix max : Nat) (f : Nat → List Char) (a : List Nat)
    (h : ∀ x ∈ a, parseUnsigned radix max (f x) = some x) : parseAll radix max (a.map f) = some a := by
  induction a with
  | nil => rfl
  | cons x xs ih =>
    simp [parseAll, h x (by simp), ih (fun y hy => h y (by simp [hy]))]

/-! ## round trips -/

set_option maxRecDepth 100000 in
theorem hex2U_ok : ∀ b : Fin 256, parseUnsigned 16 255 (hex2U b.val) = some b.val ∧ ':' ∉ hex2U b.val := by decide +kernel

set_option maxRecDepth 100000 in
theorem dec8_ok : ∀ b : Fin 256, parseUnsigned 10 255 (dec8 b.val) = some b.val ∧ '.' ∉ dec8 b.val := by decide +kernel

/-- **MAC round trip**: the text `Display` prints parses back to the same six bytes -/
theorem mac_roundtrip (a : List Nat) (hlen : a.length = 6) (hb : ∀ b ∈ a, b < 256) : parseMac (showMac a) = some a := by
  have hsplit : splitOn ':' (joinSep ':' (a.map hex2U)) = a.map hex2U := by
    apply splitOn_join
    · intro e; simp [List.map_eq_nil_iff] at e; simp [e] at hlen
    · intro g hg
      obtain ⟨b, hbm, rfl⟩ := List.mem_map.mp hg
      exact (hex2U_ok ⟨b, hb b hbm⟩).2
  simp only [parseMac, showMac, hsplit, List.length_map, hlen]
  simpa using parseAll_map 16 255 hex2U a (fun b hbm => (hex2U_ok ⟨b, hb b hbm⟩).1)

/-- **IPv4 round trip** -/
theorem v4_roundtrip (a : List Nat) (hlen : a.length = 4) (hb : ∀ b ∈ a, b < 256) : parseV4 (showV4 a) = some a := by
  have hsplit : splitOn '.' (joinSep '.' (a.map dec8)) = a.map dec8 := by
    apply splitOn_join
    · intro e; simp [List.map_eq_nil_iff] at e; simp [e] at hlen
    · intro g hg
      obtain ⟨b, hbm, rfl⟩ := List.mem_map.mp hg
      exact (dec8_ok ⟨b, hb b hbm⟩).2
  simp only [parseV4, showV4, hsplit, List.length_map, hlen]
  simpa using parseAll_map 10 255 dec8 a (fun b hbm => (dec8_ok ⟨b, hb b hbm⟩).1)

theorem hex16L_not_empty (g : Nat) (hg : g < 65536) : hex16L g ≠ [] := (hex16L_clean g hg).2

/-! ## IPv6: where the `::` is -/

/-- no `::` inside and no `:` at the end -/
def clean : List Char → Bool
  | [] => true
  | [c] => c != ':'
  | c :: d :: r => !(c == ':' && d == ':') && clean (d :: r)

theorem findDouble_step (acc : List Char) (c : Char) (l : List Char) (h : c ≠ ':' ∨ l.head? ≠ some ':') :
    findDouble acc (c :: l) = findDouble (c :: acc) l := by
  rw [findDouble.eq_def]
  split
  · rename_i heq; simp at heq; obtain ⟨rfl, rfl⟩ := heq; simp at h
  · rename_i heq; simp at heq; obtain ⟨rfl, rfl⟩ := heq; rfl
  · rename_i heq; simp at heq

theorem findDouble_clean : ∀ (t rest acc : List Char), clean t = true →
    findDouble acc (t ++ ':' :: ':' :: rest) = some (acc.reverse ++ t, rest) := by
  intro t
  induction t with
  | nil => intro rest acc _; simp [findDouble]
  | cons c t ih =>
    intro rest acc h
    cases t with
    | nil =>
      simp [clean] at h
      rw [List.cons_append, findDouble_step _ _ _ (Or.inl h)]
      simp [findDouble]
    | cons d r =>
      simp only [clean, Bool.and_eq_true, Bool.not_eq_true'] at h
      have hcd : c ≠ ':' ∨ (d :: r ++ ':' :: ':' :: rest).head? ≠ some ':' := by
        by_cases hc : c = ':'
        · right; simp; intro hd; simp [hc, hd] at h
        · left; exact hc
      rw [List.cons_append, findDouble_step _ _ _ hcd, ih rest (c :: acc) h.2]
      simp

theorem findDouble_none_of_clean : ∀ (t acc : List Char), clean t = true → findDouble acc t = none := by
  intro t
  induction t with
  | nil => intro acc _; simp [findDouble]
  | cons c t ih =>
    intro acc h
    cases t with
    | nil => simp [clean] at h; rw [findDouble_step _ _ _ (Or.inl h)]; simp [findDouble]
    | cons d r =>
      simp only [clean, Bool.and_eq_true, Bool.not_eq_true'] at h
      have hcd : c ≠ ':' ∨ (d :: r).head? ≠ some ':' := by
        by_cases hc : c = ':'
        · right; simp; intro hd; simp [hc, hd] at h
        · left; exact hc
      rw [findDouble_step _ _ _ hcd, ih (c :: acc) h.2]

theorem clean_nocolon : ∀ (g : List Char), ':' ∉ g → clean g = true := by
  intro g
  induction g with
  | nil => intro _; rfl
  | cons c t ih =>
    intro h
    have hc : c ≠ ':' := fun e => h (by simp [e])
    have ht : ':' ∉ t := fun e => h (by simp [e])
    cases t with
    | nil => simp [clean, hc]
    | cons d r => simp [clean, hc, ih ht]

theorem clean_append : ∀ (g t : List Char), ':' ∉ g → g ≠ [] → clean t = true → t ≠ [] → t.head? ≠ some ':' →
    clean (g ++ ':' :: t) = true := by
  intro g
  induction g with
  | nil => intro t _ hne; exact absurd rfl hne
  | cons c g ih =>
    intro t h _ ht htne hth
    have hc : c ≠ ':' := fun e => h (by simp [e])
    have hg : ':' ∉ g := fun e => h (by simp [e])
    cases g with
    | nil =>
      cases t with
      | nil => exact absurd rfl htne
      | cons d r =>
        have hd : d ≠ ':' := by simpa using hth
        simp [clean, hc, hd, ht]
    | cons d r =>
      have := ih t hg (by simp) ht htne hth
      rw [List.cons_append] at this
      simp [clean, hc, this]

/-- groups that are not empty and contain no colon -/
def Plain (gs : List (List Char)) : Prop := ∀ g ∈ gs, ':' ∉ g ∧ g ≠ []

theorem join_head (gs : List (List Char)) (h : Plain gs) (hne : gs ≠ []) :
    joinSep ':' gs ≠ [] ∧ (joinSep ':' gs).head? ≠ some ':' := by
  cases gs with
  | nil => exact absurd rfl hne
  | cons g rest =>
    obtain ⟨hg, hgne⟩ := h g (by simp)
    cases g with
    | nil => exact absurd rfl hgne
    | cons c cs =>
      have hc : c ≠ ':' := fun e => hg (by simp [e])
      cases rest <;> simp [joinSep, hc]

theorem clean_join : ∀ (gs : List (List Char)), Plain gs → clean (joinSep ':' gs) = true := by
  intro gs
  induction gs with
  | nil => intro _; rfl
  | cons g rest ih =>
    intro h
    have hrest : Plain rest := fun x hx => h x (by simp [hx])
    cases rest with
    | nil => simpa [joinSep] using clean_nocolon g (h g (by simp)).1
    | cons g2 r2 =>
      have hj := join_head (g2 :: r2) hrest (by simp)
      simp only [joinSep]
      exact clean_append g _ (h g (by simp)).1 (h g (by simp)).2 (ih hrest) hj.1 hj.2

/-- the groups of a joined text are the groups that were joined -/
theorem groups_join (gs : List (List Char)) (h : Plain gs) : v6GroupsOf (joinSep ':' gs) = parseAll 16 65535 gs := by
  cases gs with
  | nil => simp [v6GroupsOf, joinSep, parseAll]
  | cons g rest =>
    have hj := join_head (g :: rest) h (by simp)
    have he : (joinSep ':' (g :: rest)).isEmpty = false := by
      cases hjj : joinSep ':' (g :: rest) with
      | nil => exact absurd hjj hj.1
      | cons _ _ => rfl
    simp only [v6GroupsOf, he]
    rw [splitOn_join ':' (g :: rest) (by simp) (fun x hx => (h x hx).1)]
    simp

theorem parseAll_length (radix max : Nat) : ∀ (parts : List (List Char)) (vs : List Nat),
    parseAll radix max parts = some vs → vs.length = parts.length := by
  intro parts
  induction parts with
  | nil => intro vs h; simp [parseAll] at h; subst h; rfl
  | cons p ps ih =>
    intro vs h
    simp only [parseAll] at h
    cases hp : parseUnsigned radix max p with
    | none => simp [hp] at h
    | some v =>
      simp only [hp, Option.map_eq_some_iff] at h
      obtain ⟨ws, hws, rfl⟩ := h
      simp [ih ws hws]

/-! ## IPv6: standard forms -/

/-- **RFC 4291 §2.2 form 2, every position of the `::`**: `pre` groups, `::`, `post` groups — at most seven in all; `pre`
empty is a leading `::`, `post` empty a trailing one, both empty the text `::` — parse to the groups' values with zero
groups in between.  The group texts are any texts the group parser accepts: one to four hexadecimal digits of either
case in particular. -/
theorem v6_accepts_all (pre post : List (List Char)) (pv qv : List Nat) (hpre : Plain pre) (hpost : Plain post)
    (hp : parseAll 16 65535 pre = some pv) (hq : parseAll 16 65535 post = some qv) (hlen : pre.length + post.length ≤ 7) :
    parseV6 (joinSep ':' pre ++ ':' :: ':' :: joinSep ':' post) =
      some (pv ++ List.replicate (8 - pv.length - qv.length) 0 ++ qv) := by
  have hl1 := parseAll_length 16 65535 pre pv hp
  have hl2 := parseAll_length 16 65535 post qv hq
  simp only [parseV6]
  rw [findDouble_clean _ _ [] (clean_join pre hpre)]
  simp only [List.reverse_nil, List.nil_append, groups_join pre hpre, groups_join post hpost, hp, hq]
  have : ¬ (pv.length + qv.length > 7) := by omega
  simp [this]

/-- `::1`, `1::`, `::`, `fe80::1:2`, `A::b:00c` -/
example : parseV6 "::1".toList = some [0, 0, 0, 0, 0, 0, 0, 1] ∧ parseV6 "1::".toList = some [1, 0, 0, 0, 0, 0, 0, 0] ∧
    parseV6 "::".toList = some [0, 0, 0, 0, 0, 0, 0, 0] ∧ parseV6 "fe80::1:2".toList = some [0xfe80, 0, 0, 0, 0, 0, 1, 2] ∧
    parseV6 "A::b:00c".toList = some [10, 0, 0, 0, 0, 0, 11, 12] := by decide

/-- the leading `::` as an instance of the theorem -/
example : parseV6 (joinSep ':' [] ++ ':' :: ':' :: joinSep ':' [['1']]) = some ([] ++ List.replicate (8 - 0 - 1) 0 ++ [1]) :=
  v6_accepts_all [] [['1']] [] [1] (by intro g hg; cases hg) (by intro g hg; simp at hg; subst hg; decide) rfl (by decide) (by decide)

/-- **IPv6 round trip**: the eight-group text `Display` prints parses back to the same address -/
theorem v6_roundtrip (a : List Nat) (hlen : a.length = 8) (hg : ∀ g ∈ a, g < 65536) : parseV6 (showV6 a) = some a := by
  have hplain : Plain (a.map hex16L) := by
    intro t ht
    obtain ⟨g, hgm, rfl⟩ := List.mem_map.mp ht
    exact hex16L_clean g (hg g hgm)
  have hall : parseAll 16 65535 (a.map hex16L) = some a :=
    parseAll_map 16 65535 hex16L a (fun g hgm => hex16L_parses g (hg g hgm))
  simp only [parseV6, showV6]
  rw [findDouble_none_of_clean _ [] (clean_join _ hplain), groups_join _ hplain, hall]
  simp [hlen]

example : parseV6 (showV6 [0xfe80, 0, 0, 0, 0x1, 0xabcd, 0xffff, 0x10]) = some [0xfe80, 0, 0, 0, 0x1, 0xabcd, 0xffff, 0x10] :=
  v6_roundtrip _ rfl (by decide)

/-! ## rejection -/

theorem mac_rejects_bad_count (s : List Char) (h : (splitOn ':' s).length ≠ 6) : parseMac s = none := by
  simp [parseMac, h]

theorem v4_rejects_bad_count (s : List Char) (h : (splitOn '.' s).length ≠ 4) : parseV4 s = none := by
  simp [parseV4, h]

theorem parseAll_none_of_mem (radix max : Nat) (parts : List (List Char)) (p : List Char) (hp : p ∈ parts)
    (hbad : parseUnsigned radix max p = none) : parseAll radix max parts = none := by
  induction parts with
  | nil => cases hp
  | cons q qs ih =>
    simp only [parseAll]
    cases hq : parseUnsigned radix max q with
    | none => rfl
    | some v =>
      have : p ∈ qs := by
        cases hp with
        | head => rw [hbad] at hq; cases hq
        | tail _ h => exact h
      simp [ih this]

/-- a group whose digits denote a value beyond the type is refused -/
theorem checkDigits_out_of_range (radix max : Nat) (ds : List Char) (v : Nat) (hv : digitsVal radix ds 0 = some v)
    (hbig : v > max) : checkDigits radix max ds = none := by
  simp [checkDigits, hv]; omega

/-- MAC and IPv4: one bad group (not a number, or out of range) makes the whole text invalid -/
theorem mac_rejects_bad_group (s p : List Char) (hp : p ∈ splitOn ':' s) (hbad : parseUnsigned 16 255 p = none) :
    parseMac s = none := by
  simp only [parseMac]
  split
  · rfl
  · exact parseAll_none_of_mem 16 255 _ p hp hbad

theorem v4_rejects_bad_group (s p : List Char) (hp : p ∈ splitOn '.' s) (hbad : parseUnsigned 10 255 p = none) :
    parseV4 s = none := by
  simp only [parseV4]
  split
  · rfl
  · exact parseAll_none_of_mem 10 255 _ p hp hbad

/-- IPv6 without `::`: anything but eight groups is refused (seven groups behind or before a lone colon and the empty
text included) -/
theorem v6_rejects_bad_count_plain (s : List Char) (hno : findDouble [] s = none)
    (hcount : (splitOn ':' s).length ≠ 8) : parseV6 s = none := by
  simp only [parseV6, hno]
  cases hg : v6GroupsOf s with
  | none => rfl
  | some front =>
    have hl : front.length ≠ 8 := by
      simp only [v6GroupsOf] at hg
      split at hg
      · cases hg; simp
      · have := parseAll_length 16 65535 _ front hg; omega
    simp [hl]

/-- IPv6 with `::`: the `::` replaces at least one group, so more than seven groups around it are refused -/
theorem v6_rejects_too_many (s head tail : List Char) (front back : List Nat) (hf : findDouble [] s = some (head, tail))
    (h1 : v6GroupsOf head = some front) (h2 : v6GroupsOf tail = some back) (hmany : front.length + back.length > 7) :
    parseV6 s = none := by
  simp [parseV6, hf, h1, h2, hmany]

theorem v6GroupsOf_bad_group (t p : List Char) (hne : t ≠ []) (hp : p ∈ splitOn ':' t)
    (hbad : parseUnsigned 16 65535 p = none) : v6GroupsOf t = none := by
  have : t.isEmpty = false := by cases t <;> simp_all
  simp only [v6GroupsOf, this]
  exact parseAll_none_of_mem 16 65535 _ p hp hbad

/-- IPv6 without `::`: a group that is not a 16-bit hexadecimal number — the empty group a lone colon at an end leaves
included — makes the text invalid -/
theorem v6_rejects_bad_group (s p : List Char) (hno : findDouble [] s = none) (hp : p ∈ splitOn ':' s)
    (hbad : parseUnsigned 16 65535 p = none) : parseV6 s = none := by
  by_cases hs : s = []
  · subst hs; simp [parseV6, findDouble, v6GroupsOf]
  · simp [parseV6, hno, v6GroupsOf_bad_group s p hs hp hbad]

/-- IPv6 with `::`: the same on either side of it (a second `::` leaves an empty group) -/
theorem v6_rejects_bad_group_compressed (s head tail p : List Char) (hf : findDouble [] s = some (head, tail))
    (hp : (head ≠ [] ∧ p ∈ splitOn ':' head) ∨ (tail ≠ [] ∧ p ∈ splitOn ':' tail))
    (hbad : parseUnsigned 16 65535 p = none) : parseV6 s = none := by
  simp only [parseV6, hf]
  rcases hp with ⟨hne, hm⟩ | ⟨hne, hm⟩
  · simp [v6GroupsOf_bad_group head p hne hm hbad]
  · rw [v6GroupsOf_bad_group tail p hne hm hbad]
    cases v6GroupsOf head <;> rfl

/-- seven groups behind a lone colon, seven before one, the empty text, two `::`, `:::`, a 17-bit group, nine groups -/
example : parseV6 ":1:2:3:4:5:6:7".toList = none ∧ parseV6 "1:2:3:4:5:6:7:".toList = none ∧ parseV6 [] = none ∧
    parseV6 "1::2::3".toList = none ∧ parseV6 ":::".toList = none ∧ parseV6 "10000::".toList = none ∧
    parseV6 "1:2:3:4:5:6:7:8:9".toList = none ∧ parseV6 "1:2:3:4::5:6:7:8".toList = none := by decide

end P2sh.Props.C18
