import P2sh.Model.Proto
/-!
# C15 — reading packet fields never alters the bytes written back out

* `*_toBytes_parse` — per header: serialising the freshly parsed header gives back the header bytes
  (pcap record, Ethernet, VLAN, IPv4's fixed 20 bytes, IPv6, UDP; TCP only its first 18 bytes).
* `tcp_urgent_dropped_witness`, `ipv4_options_dropped_witness`, `ipv4_short_ihl_witness`, `error_object_swallows_witness`
  — kernel-checked instances of the violations present in the code today.
* `reads_preserve_bytes_partial` — after ANY script of reads (`G` steps and `W`), if the cache tree that the reads
  built is `Lossless` (no TCP layer, every IPv4 layer has IHL = 5, an error object only where no byte is left) the
  packet serialises to record header ++ captured bytes.  `read_states_faithful` is the invariant behind it: every
  cached layer is what `from_bytes` yields at its offset.
-/
namespace P2sh.Props.C15
open P2sh P2sh.Proto

def hdrBytes (b : Nat → Nat) (n : Nat) : Bytes := (List.range n).map b

/-! ## headers -/

theorem pcap_toBytes_parse (b : Nat → Nat) (hb : ∀ i, b i < 256) : (PcapHdr.parse b).toBytes = hdrBytes b 16 := by
  have := hb 0; have := hb 1; have := hb 2; have := hb 3; have := hb 4; have := hb 5; have := hb 6; have := hb 7
  have := hb 8; have := hb 9; have := hb 10; have := hb 11; have := hb 12; have := hb 13; have := hb 14; have := hb 15
  simp [PcapHdr.parse, PcapHdr.toBytes, hdrBytes, le32, u32le, List.range, List.range.loop]
  omega

theorem eth_toBytes_parse (b : Nat → Nat) (hb : ∀ i, b i < 256) : (EthHdr.parse b).toBytes = hdrBytes b 14 := by
  have := hb 12; have := hb 13
  simp [EthHdr.parse, EthHdr.toBytes, hdrBytes, be16, u16be, List.range, List.range.loop]
  omega

theorem vlan_toBytes_parse (b : Nat → Nat) (hb : ∀ i, b i < 256) : (VlanHdr.parse b).toBytes = hdrBytes b 4 := by
  have := hb 0; have := hb 1; have := hb 2; have := hb 3
  simp only [VlanHdr.parse, VlanHdr.toBytes, hdrBytes, be16, u16be, List.range, List.range.loop, List.map, List.cons_append, List.nil_append]
  by_cases hd : b 0 / 16 % 2 = 1 <;> simp [hd] <;> omega

theorem ipv4_toBytes_parse (b : Nat → Nat) (hb : ∀ i, b i < 256) : (Ipv4Hdr.parse b).toBytes = hdrBytes b 20 := by
  have := hb 0; have := hb 1; have := hb 2; have := hb 3; have := hb 4; have := hb 5; have := hb 6; have := hb 7
  have := hb 10; have := hb 11
  simp [Ipv4Hdr.parse, Ipv4Hdr.toBytes, hdrBytes, be16, u16be, List.range, List.range.loop]
  omega

theorem udp_toBytes_parse (b : Nat → Nat) (hb : ∀ i, b i < 256) : (UdpHdr.parse b).toBytes = hdrBytes b 8 := by
  have := hb 0; have := hb 1; have := hb 2; have := hb 3; have := hb 4; have := hb 5; have := hb 6; have := hb 7
  simp [UdpHdr.parse, UdpHdr.toBytes, hdrBytes, be16, u16be, List.range, List.range.loop]
  omega

/-- TCP writes the first eighteen bytes of its header: the urgent pointer is missing -/
theorem tcp_toBytes_parse_partial (b : Nat → Nat) (hb : ∀ i, b i < 256) : (TcpHdr.parse b).toBytes = hdrBytes b 18 := by
  have := hb 0; have := hb 1; have := hb 2; have := hb 3; have := hb 4; have := hb 5; have := hb 6; have := hb 7
  have := hb 8; have := hb 9; have := hb 10; have := hb 11; have := hb 12; have := hb 13; have := hb 14; have := hb 15
  have := hb 16; have := hb 17
  simp [TcpHdr.parse, TcpHdr.toBytes, hdrBytes, be16, be32, u16be, u32be, List.range, List.range.loop]
  omega

set_option maxRecDepth 100000 in
theorem or_nibbles : ∀ x : Fin 256, ((x.val / 16) * 16) ||| (x.val % 16) = x.val := by decide +kernel

theorem v6_addr_bytes (c : Nat → Nat) (hc : ∀ i, c i < 256) : v6Bytes (v6Groups c) = (List.range 16).map c := by
  have := hc 0; have := hc 1; have := hc 2; have := hc 3; have := hc 4; have := hc 5; have := hc 6; have := hc 7
  have := hc 8; have := hc 9; have := hc 10; have := hc 11; have := hc 12; have := hc 13; have := hc 14; have := hc 15
  simp [v6Bytes, v6Groups, be16, List.range, List.range.loop, List.flatMap]
  omega

theorem ipv6_toBytes_parse (b : Nat → Nat) (hb : ∀ i, b i < 256) : (Ipv6Hdr.parse b).toBytes = hdrBytes b 40 := by
  have h0 := hb 0; have h1 := hb 1; have h2 := hb 2; have h3 := hb 3; have h4 := hb 4; have h5 := hb 5
  have e1 : ((b 0 % 16 * 16 + b 1 / 16) * 16 % 256) = (b 1 / 16) * 16 := by omega
  have e2 : ((b 1 % 16 * 65536 + b 2 * 256 + b 3) / 65536 % 256) = b 1 % 16 := by omega
  have hs := v6_addr_bytes (fun i => b (8 + i)) (fun i => hb _)
  have hd := v6_addr_bytes (fun i => b (24 + i)) (fun i => hb _)
  simp only [Ipv6Hdr.parse, Ipv6Hdr.toBytes, hs, hd, e1, e2, or_nibbles ⟨b 1, h1⟩]
  simp [hdrBytes, be16, u16be, List.range, List.range.loop]
  omega

/-! ## witnesses of the violations present today (each one is a frame, a read, and the bytes that come out) -/

/-- Ethernet + IPv4 (IHL 5, protocol 6) + a 20-byte TCP header whose urgent pointer is 0x1234, two bytes of data -/
def tcpFrame : Bytes :=
  [0,1,2,3,4,5, 6,7,8,9,10,11, 8,0,
   0x45,0,0,42, 0,0,0,0, 64,6,0,0, 10,0,0,1, 10,0,0,2,
   0x1f,0x90,0,80, 0,0,0,1, 0,0,0,2, 0x50,0x12,0xff,0xff, 0xab,0xcd,0x12,0x34, 0xde,0xad]

def rec0 (raw : Bytes) : PcapHdr := { sec := 0, usec := 0, caplen := raw.length, wirelen := raw.length }

/-- reading `eth.ipv4.tcp` and writing the packet loses the urgent pointer -/
theorem tcp_urgent_dropped_witness :
    let p := ((Pkt.new (rec0 tcpFrame) tcpFrame).run [.get .pkt [.eth, .ipv4, .tcp], .write]).1
    p.bytes ≠ (rec0 tcpFrame).toBytes ++ tcpFrame ∧ p.bytes.length + 2 = ((rec0 tcpFrame).toBytes ++ tcpFrame).length := by
  decide

/-- IPv4 with IHL 6 (four option bytes 1,2,3,4) + UDP -/
def optFrame : Bytes :=
  [0,1,2,3,4,5, 6,7,8,9,10,11, 8,0,
   0x46,0,0,32, 0,0,0,0, 64,17,0,0, 10,0,0,1, 10,0,0,2, 1,2,3,4,
   0,53,0,53, 0,8,0,0]

theorem ipv4_options_dropped_witness :
    let p := ((Pkt.new (rec0 optFrame) optFrame).run [.get .pkt [.eth, .ipv4], .write]).1
    p.bytes.length + 4 = ((rec0 optFrame).toBytes ++ optFrame).length := by
  decide

/-- the same frame with IHL 4: sixteen header bytes, but twenty are written and then the bytes from offset 16 again -/
def shortIhlFrame : Bytes := optFrame.set 14 0x44

theorem ipv4_short_ihl_witness :
    let p := ((Pkt.new (rec0 shortIhlFrame) shortIhlFrame).run [.get .pkt [.eth, .ipv4], .write]).1
    p.bytes.length = ((rec0 shortIhlFrame).toBytes ++ shortIhlFrame).length + 4 := by
  decide

/-- an Ethernet header followed by ten bytes: `eth.ipv4` yields an error object, and the ten bytes are not written -/
def truncFrame : Bytes := [0,1,2,3,4,5, 6,7,8,9,10,11, 8,0, 0x45,0,0,20, 0,0,0,0, 64,17]

theorem error_object_swallows_witness :
    let r := (Pkt.new (rec0 truncFrame) truncFrame).run [.get .pkt [.eth, .ipv4], .write]
    r.1.bytes = (rec0 truncFrame).toBytes ++ truncFrame.take 14 := by
  decide

/-! ## the invariant of read-only access -/

theorem hdrBytes_rd (raw : Bytes) (s n : Nat) : hdrBytes (rd raw s) n = slice raw s n := rfl

theorem drop_split (raw : Bytes) (s n : Nat) (h : s + n ≤ raw.length) :
    raw.drop s = slice raw s n ++ raw.drop (s + n) := by
  rw [slice_eq_take_drop raw s n h, ← List.drop_drop, List.take_append_drop]

/-- every cached layer below is what `from_bytes` yields at its offset; plain values never appear -/
def Faithful (raw : Bytes) : Nat → Obj → Prop
  | _, .none => True
  | _, .err => True
  | _, .val _ => False
  | s, .layer h off inner => (∃ k, parseLayer raw k s = .obj (.layer h off .none)) ∧ Faithful raw off inner

/-- the cache tree contains none of the three shapes that lose bytes today -/
def Lossless (raw : Bytes) : Nat → Obj → Bool
  | _, .none => true
  | s, .err => decide (raw.length ≤ s)
  | _, .val _ => false
  | s, .layer h off inner =>
    match h with
    | .tcp _ => false
    | .udp _ => true
    | .ipv4 _ => decide (off = s + 20) && Lossless raw off inner
    | _ => Lossless raw off inner

theorem parseLayer_faithful {raw : Bytes} {k : LayerKind} {s : Nat} {ni : Obj}
    (h : parseLayer raw k s = .obj ni) : Faithful raw s ni := by
  cases k <;> simp only [parseLayer] at h <;> (repeat' split at h) <;> cases h <;>
    first
    | exact trivial
    | (refine ⟨⟨.eth, ?_⟩, trivial⟩; simp [parseLayer, *]; done)
    | (refine ⟨⟨.vlan, ?_⟩, trivial⟩; simp [parseLayer, *]; done)
    | (refine ⟨⟨.ipv4, ?_⟩, trivial⟩; simp [parseLayer, *]; done)
    | (refine ⟨⟨.ipv6, ?_⟩, trivial⟩; simp [parseLayer, *]; done)
    | (refine ⟨⟨.tcp, ?_⟩, trivial⟩; simp [parseLayer, *]; done)
    | (refine ⟨⟨.udp, ?_⟩, trivial⟩; simp [parseLayer, *]; done)


/-- a layer writes its header, then (TCP, UDP: always; others: when nothing is cached) the raw bytes after its payload
offset, else the cached inner object -/
theorem ser_layer_eq (raw : Bytes) (h : Hdr) (off : Nat) (inner : Obj)
    (hin : inner ≠ .none → ser raw inner = raw.drop off) :
    ser raw (.layer h off inner) = h.toBytes ++ raw.drop off := by
  cases inner with
  | none => cases h <;> simp [ser]
  | err => have := hin (by simp); cases h <;> simp_all [ser]
  | val v => have := hin (by simp); cases h <;> simp_all [ser]
  | layer a b c => have := hin (by simp); cases h <;> simp_all [ser]

theorem ser_tcp_udp (raw : Bytes) (off : Nat) (inner : Obj) :
    (∀ t, ser raw (.layer (.tcp t) off inner) = t.toBytes ++ raw.drop off) ∧
    (∀ u, ser raw (.layer (.udp u) off inner) = u.toBytes ++ raw.drop off) := by
  constructor <;> intro x <;> cases inner <;> simp [ser, Hdr.toBytes]

theorem ser_exact (raw : Bytes) (hw : wf raw) :
    ∀ (o : Obj) (s : Nat), Faithful raw s o → Lossless raw s o = true → o ≠ .none → ser raw o = raw.drop s := by
  intro o
  induction o with
  | none => intro s _ _ h; exact absurd rfl h
  | err => intro s _ hl _; simp [Lossless] at hl; simp [ser, List.drop_eq_nil_of_le hl]
  | val v => intro s hf; exact hf.elim
  | layer h off inner ih =>
    intro s hf hl _
    obtain ⟨⟨k, hk⟩, hfi⟩ := hf
    have hb := rd_lt hw s
    cases k <;> simp only [parseLayer] at hk <;> (repeat' split at hk) <;> cases hk
    · -- eth
      simp only [Lossless] at hl
      rw [ser_layer_eq raw _ _ inner (fun hne => ih _ hfi hl hne)]
      simp only [Hdr.toBytes]
      rw [eth_toBytes_parse _ hb, hdrBytes_rd]
      exact (drop_split raw s 14 (by omega)).symm
    · -- vlan
      simp only [Lossless] at hl
      rw [ser_layer_eq raw _ _ inner (fun hne => ih _ hfi hl hne)]
      simp only [Hdr.toBytes]
      rw [vlan_toBytes_parse _ hb, hdrBytes_rd]
      exact (drop_split raw s 4 (by omega)).symm
    · -- ipv4
      simp only [Lossless, Bool.and_eq_true, decide_eq_true_eq] at hl
      obtain ⟨hoff, hl⟩ := hl
      rw [ser_layer_eq raw _ _ inner (fun hne => ih _ hfi hl hne)]
      simp only [Hdr.toBytes]
      rw [ipv4_toBytes_parse _ hb, hdrBytes_rd, hoff]
      exact (drop_split raw s 20 (by omega)).symm
    · -- ipv6
      simp only [Lossless] at hl
      rw [ser_layer_eq raw _ _ inner (fun hne => ih _ hfi hl hne)]
      simp only [Hdr.toBytes]
      rw [ipv6_toBytes_parse _ hb, hdrBytes_rd]
      exact (drop_split raw s 40 (by omega)).symm
    · -- tcp
      simp [Lossless] at hl
    · -- udp
      rw [(ser_tcp_udp raw _ inner).2]
      rw [udp_toBytes_parse _ hb, hdrBytes_rd]
      exact (drop_split raw s 8 (by omega)).symm

/-- a continuation that keeps faithful objects faithful -/
def Keeps (raw : Bytes) (k : Obj → Obj × StepOut) : Prop := ∀ o s, Faithful raw s o → Faithful raw s (k o).1

theorem getProp_faithful (raw : Bytes) (p : PP) (k : Obj → Obj × StepOut) (last : Bool) (hk : Keeps raw k) :
    Keeps raw (getProp raw p k last) := by
  intro o s hf
  cases o with
  | none => simpa [getProp] using hf
  | err => simpa [getProp] using hf
  | val v => exact hf.elim
  | layer h off inner =>
    obtain ⟨hp, hfi⟩ := hf
    simp only [getProp]
    split
    · cases inner with
      | none =>
        simp only []
        split
        · exact ⟨hp, trivial⟩
        · rename_i hq; exact ⟨hp, hk _ _ (parseLayer_faithful hq)⟩
      | err => exact ⟨hp, hk _ _ hfi⟩
      | val v => exact hfi.elim
      | layer a b c => exact ⟨hp, hk _ _ hfi⟩
    · split <;> exact ⟨hp, hfi⟩

theorem walk_faithful (raw : Bytes) : ∀ ps, Keeps raw (walk raw none ps) := by
  intro ps
  induction ps with
  | nil => intro o s h; simpa [walk] using h
  | cons p ps ih =>
    cases ps with
    | nil => simp only [walk]; exact getProp_faithful raw p _ true ih
    | cons q qs => simp only [walk]; exact getProp_faithful raw p _ false ih

theorem innerStep_faithful (raw : Bytes) (k kf : Obj → Obj × StepOut) (hk : Keeps raw k) (hkf : Keeps raw kf) :
    Keeps raw (innerStep raw k kf) := by
  intro o s hf
  cases o with
  | none => simpa [innerStep] using hkf _ _ hf
  | err => simpa [innerStep] using hkf _ _ hf
  | val v => exact hf.elim
  | layer h off inner =>
    obtain ⟨hp, hfi⟩ := hf
    cases inner with
    | none =>
      simp only [innerStep]
      split
      · split
        · exact ⟨hp, trivial⟩
        · rename_i hq; exact ⟨hp, hk _ _ (parseLayer_faithful hq)⟩
      · exact ⟨hp, trivial⟩
      · exact ⟨hp, trivial⟩
    | err => exact ⟨hp, hk _ _ hfi⟩
    | val v => exact hfi.elim
    | layer a b c => exact ⟨hp, hk _ _ hfi⟩

theorem descend_faithful (raw : Bytes) (kf : Obj → Obj × StepOut) (hkf : Keeps raw kf) :
    ∀ n, Keeps raw (descend raw kf n) := by
  intro n
  induction n with
  | zero => simpa [descend] using hkf
  | succ n ih => simp only [descend]; exact innerStep_faithful raw _ _ ih hkf

/-- the packet object of a script without assignments: the record header it was built with, and a faithful cache below -/
def RootOk (raw : Bytes) (ph : PcapHdr) (root : Obj) : Prop :=
  ∃ inner, root = .layer (.pcap ph) 0 inner ∧ Faithful raw 0 inner

theorem getProp_root (raw : Bytes) (ph : PcapHdr) (p : PP) (k : Obj → Obj × StepOut) (last : Bool) (hk : Keeps raw k)
    (root : Obj) (hr : RootOk raw ph root) : RootOk raw ph (getProp raw p k last root).1 := by
  obtain ⟨inner, rfl, hfi⟩ := hr
  simp only [getProp]
  split
  · cases inner with
    | none =>
      simp only []
      split
      · exact ⟨_, rfl, trivial⟩
      · rename_i hq; exact ⟨_, rfl, hk _ _ (parseLayer_faithful hq)⟩
    | err => exact ⟨_, rfl, hk _ _ hfi⟩
    | val v => exact hfi.elim
    | layer a b c => exact ⟨_, rfl, hk _ _ hfi⟩
  · split <;> exact ⟨_, rfl, hfi⟩

theorem walk_root (raw : Bytes) (ph : PcapHdr) (ps : List PP) (root : Obj) (hr : RootOk raw ph root) :
    RootOk raw ph (walk raw none ps root).1 := by
  cases ps with
  | nil => simpa [walk] using hr
  | cons p ps =>
    cases ps with
    | nil => simp only [walk]; exact getProp_root raw ph p _ true (walk_faithful raw []) root hr
    | cons q qs => simp only [walk]; exact getProp_root raw ph p _ false (walk_faithful raw _) root hr

theorem innerStep_root (raw : Bytes) (ph : PcapHdr) (k kf : Obj → Obj × StepOut) (hk : Keeps raw k)
    (root : Obj) (hr : RootOk raw ph root) : RootOk raw ph (innerStep raw k kf root).1 := by
  obtain ⟨inner, rfl, hfi⟩ := hr
  cases inner with
  | none =>
    simp only [innerStep, dispatch]
    split
    · exact ⟨_, rfl, trivial⟩
    · rename_i hq; exact ⟨_, rfl, hk _ _ (parseLayer_faithful hq)⟩
  | err => exact ⟨_, rfl, hk _ _ hfi⟩
  | val v => exact hfi.elim
  | layer a b c => exact ⟨_, rfl, hk _ _ hfi⟩

theorem descend_root (raw : Bytes) (ph : PcapHdr) (ps : List PP) (n : Nat) (root : Obj) (hr : RootOk raw ph root) :
    RootOk raw ph (descend raw (walk raw none ps) n root).1 := by
  cases n with
  | zero => simpa [descend] using walk_root raw ph ps root hr
  | succ n =>
    simp only [descend]
    exact innerStep_root raw ph _ _ (descend_faithful raw _ (walk_faithful raw ps) n) root hr

theorem access_root (raw : Bytes) (ph : PcapHdr) (hd : Head) (ps : List PP) (root : Obj) (hr : RootOk raw ph root) :
    RootOk raw ph (access raw root hd ps none).1 := by
  cases hd with
  | pkt => exact walk_root raw ph ps root hr
  | dollar n =>
    simp only [access]
    split
    · exact hr
    · exact descend_root raw ph ps _ root hr

/-- a step that assigns nothing and does not re-parse -/
def Step.isRead : Step → Bool
  | .get _ _ => true
  | .write => true
  | _ => false

theorem run_reads (ph : PcapHdr) (steps : List Step) (hro : ∀ st ∈ steps, Step.isRead st = true) :
    ∀ (p : Pkt), RootOk p.raw ph p.root → (p.run steps).1.raw = p.raw ∧ RootOk p.raw ph (p.run steps).1.root := by
  induction steps with
  | nil => intro p hr; exact ⟨rfl, hr⟩
  | cons st rest ih =>
    intro p hr
    have hst := hro st (by simp)
    have hrest : ∀ x ∈ rest, Step.isRead x = true := fun x hx => hro x (by simp [hx])
    cases st with
    | get hd path =>
      have := ih hrest { p with root := (access p.raw p.root hd path none).1 } (access_root p.raw ph hd path p.root hr)
      simpa [Pkt.run, Pkt.step] using this
    | write => simpa [Pkt.run, Pkt.step] using ih hrest p hr
    | set hd path v => simp [Step.isRead] at hst
    | reparse => simp [Step.isRead] at hst

/-- the cache tree below the packet object contains none of the shapes that lose bytes today: no TCP layer, every IPv4
layer with its payload right after the 20 fixed bytes (IHL = 5), an error object only where no captured byte is left -/
def LosslessRoot (raw : Bytes) : Obj → Bool
  | .layer (.pcap _) _ inner => Lossless raw 0 inner
  | _ => false

/-- **C15, partial form.**  After any script of reads (property paths, `$n`, intermediate writes) on a freshly captured
packet, if the cache tree the reads built is `LosslessRoot`, the packet serialises to record header ++ captured bytes. -/
theorem reads_preserve_bytes_partial (ph : PcapHdr) (raw : Bytes) (hw : wf raw) (steps : List Step)
    (hro : ∀ st ∈ steps, Step.isRead st = true)
    (hl : LosslessRoot raw ((Pkt.new ph raw).run steps).1.root = true) :
    ((Pkt.new ph raw).run steps).1.bytes = ph.toBytes ++ raw := by
  obtain ⟨hraw, inner, hroot, hfi⟩ := run_reads ph steps hro (Pkt.new ph raw) ⟨.none, rfl, trivial⟩
  have e : (Pkt.new ph raw).raw = raw := rfl
  rw [e] at hraw hfi
  simp only [Pkt.bytes, hraw, hroot]
  rw [hroot] at hl
  simp only [LosslessRoot] at hl
  rw [ser_layer_eq raw _ _ inner (fun hne => ser_exact raw hw inner 0 hfi hl hne)]
  simp [Hdr.toBytes]

/-- the invariant itself: whatever reads do, every cached layer is what `from_bytes` yields at its offset -/
theorem read_states_faithful (ph : PcapHdr) (raw : Bytes) (steps : List Step)
    (hro : ∀ st ∈ steps, Step.isRead st = true) :
    RootOk raw ph ((Pkt.new ph raw).run steps).1.root :=
  (run_reads ph steps hro (Pkt.new ph raw) ⟨.none, rfl, trivial⟩).2


end P2sh.Props.C15
