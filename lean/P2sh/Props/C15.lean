import P2sh.Model.Proto
/-!
# C15 — reading packet fields never alters the bytes written back out

* `*_toBytes_parse` — per header (pcap record, Ethernet, VLAN, IPv4 with its options, IPv6, TCP with its options, UDP):
  serialising the freshly parsed header gives back exactly the header bytes.
* `ser_exact` — a cached layer tree in which every layer is what `from_bytes` yields at its offset (`Faithful`) writes
  back the captured bytes from its offset on; a cached error object stands for the raw bytes.
* `read_states_faithful` — the invariant: whatever a script of reads does (property paths with right or wrong layer
  names, `$n`, intermediate writes, re-parsing), the cache tree stays `Faithful`.
* `reads_preserve_bytes` — **the property**: after any such script the packet serialises to record header ++ captured
  bytes.  The only hypotheses are that the captured bytes are bytes and that the four record-header words fit 32 bits.

History: before commits aefd4e7 (TCP codec), d83dd30 (IPv4 options) and 3d62d14 (cached error objects) of /repo this held
only for cache trees without a TCP layer, with IHL = 5 everywhere and without an error object in front of remaining
bytes; the theorem was `reads_preserve_bytes_partial` with that hypothesis and four kernel-checked counterexamples.
-/
namespace P2sh.Props.C15
open P2sh P2sh.Proto

def hdrBytes (b : Nat → Nat) (n : Nat) : Bytes := (List.range n).map b

theorem hdrBytes_split (b : Nat → Nat) (n k : Nat) :
    hdrBytes b (n + k) = hdrBytes b n ++ (List.range k).map (fun i => b (n + i)) := by
  simp [hdrBytes, List.range_add, List.map_map, Function.comp_def]

/-! ## headers -/

theorem pcap_toBytes_parse (b : Nat → Nat) (hb : ∀ i, b i < 256) : (PcapHdr.parse b).toBytes = hdrBytes b 16 := by
  have := hb 0; have := hb 1; have := hb 2; have := hb 3; have := hb 4; have := hb 5; have := hb 6; have := hb 7
  have := hb 8; have := hb 9; have := hb 10; have := hb 11; have := hb 12; have := hb 13; have := hb 14; have := hb 15
  simp [PcapHdr.parse, PcapHdr.toBytes, hdrBytes, le32, u32le, List.range, List.range.loop]
  omega

theorem eth_toBytes_parse (b : Nat → Nat) (hb : ∀ i, b i < 256) : (EthHdr.parse b).toBytes = hdrBytes b 14 := by
  have := hb 12; have := hb 13
  simp [EthHdr.parse, EthHdr.toBytes, hdrBytes, be16, u16be, List.range, List.range.loop]
  omega

theorem vlan_toBytes_parse (b : Nat → Nat) (hb : ∀ i, b i < 256) : (VlanHdr.parse b).toBytes = hdrBytes b 4 := by
  have := hb 0; have := hb 1; have := hb 2; have := hb 3
  simp only [VlanHdr.parse, VlanHdr.toBytes, hdrBytes, be16, u16be, List.range, List.range.loop, List.map, List.cons_append, List.nil_append]
  by_cases hd : b 0 / 16 % 2 = 1 <;> simp [hd] <;> omega

/-- IPv4: the fixed part and the options (`max(IHL·4, 20)` bytes in all) come back -/
theorem ipv4_toBytes_parse (b : Nat → Nat) (hb : ∀ i, b i < 256) :
    (Ipv4Hdr.parse b).toBytes = hdrBytes b (Ipv4Hdr.hdrLen b) := by
  have h20 : Ipv4Hdr.hdrLen b = 20 + (Ipv4Hdr.hdrLen b - 20) := by unfold Ipv4Hdr.hdrLen; omega
  rw [h20, hdrBytes_split]
  have := hb 0; have := hb 1; have := hb 2; have := hb 3; have := hb 4; have := hb 5; have := hb 6; have := hb 7
  have := hb 10; have := hb 11
  simp [Ipv4Hdr.parse, Ipv4Hdr.toBytes, hdrBytes, be16, u16be, List.range, List.range.loop]
  omega

/-- a header with IHL 7: 28 bytes come back -/
example : let b : Nat → Nat := fun i => if i = 0 then 0x47 else i
    Ipv4Hdr.hdrLen b = 28 ∧ ((Ipv4Hdr.parse b).toBytes).length = 28 := by decide

theorem udp_toBytes_parse (b : Nat → Nat) (hb : ∀ i, b i < 256) : (UdpHdr.parse b).toBytes = hdrBytes b 8 := by
  have := hb 0; have := hb 1; have := hb 2; have := hb 3; have := hb 4; have := hb 5; have := hb 6; have := hb 7
  simp [UdpHdr.parse, UdpHdr.toBytes, hdrBytes, be16, u16be, List.range, List.range.loop]
  omega

/-- TCP: all twenty fixed bytes — data offset, reserved and control bits, urgent pointer — and the options come back -/
theorem tcp_toBytes_parse (b : Nat → Nat) (hb : ∀ i, b i < 256) :
    (TcpHdr.parse b).toBytes = hdrBytes b (TcpHdr.hdrLen b) := by
  have h20 : TcpHdr.hdrLen b = 20 + (TcpHdr.hdrLen b - 20) := by unfold TcpHdr.hdrLen; omega
  rw [h20, hdrBytes_split]
  have := hb 0; have := hb 1; have := hb 2; have := hb 3; have := hb 4; have := hb 5; have := hb 6; have := hb 7
  have := hb 8; have := hb 9; have := hb 10; have := hb 11; have := hb 12; have := hb 13; have := hb 14; have := hb 15
  have := hb 16; have := hb 17; have := hb 18; have := hb 19
  simp [TcpHdr.parse, TcpHdr.toBytes, hdrBytes, be16, be32, u16be, u32be, List.range, List.range.loop]
  omega

/-- data offset 6, reserved bits 0xA, urgent pointer 0x1213: 24 bytes, the same ones -/
example : let b : Nat → Nat := fun i => if i = 12 then 0x6A else i
    TcpHdr.hdrLen b = 24 ∧ (TcpHdr.parse b).toBytes = hdrBytes b 24 := by decide

set_option maxRecDepth 100000 in
theorem or_nibbles : ∀ x : Fin 256, ((x.val / 16) * 16) ||| (x.val % 16) = x.val := by decide +kernel

theorem v6_addr_bytes (c : Nat → Nat) (hc : ∀ i, c i < 256) : v6Bytes (v6Groups c) = (List.range 16).map c := by
  have := hc 0; have := hc 1; have := hc 2; have := hc 3; have := hc 4; have := hc 5; have := hc 6; have := hc 7
  have := hc 8; have := hc 9; have := hc 10; have := hc 11; have := hc 12; have := hc 13; have := hc 14; have := hc 15
  simp [v6Bytes, v6Groups, be16, List.range, List.range.loop, List.flatMap]
  omega

theorem ipv6_toBytes_parse (b : Nat → Nat) (hb : ∀ i, b i < 256) : (Ipv6Hdr.parse b).toBytes = hdrBytes b 40 := by
  have h0 := hb 0; have h1 := hb 1; have h2 := hb 2; have h3 := hb 3; have h4 := hb 4; have h5 := hb 5
  have e1 : ((b 0 % 16 * 16 + b 1 / 16) * 16 % 256) = (b 1 / 16) * 16 := by omega
  have e2 : ((b 1 % 16 * 65536 + b 2 * 256 + b 3) / 65536 % 256) = b 1 % 16 := by omega
  have hs := v6_addr_bytes (fun i => b (8 + i)) (fun i => hb _)
  have hd := v6_addr_bytes (fun i => b (24 + i)) (fun i => hb _)
  simp only [Ipv6Hdr.parse, Ipv6Hdr.toBytes, hs, hd, e1, e2, or_nibbles ⟨b 1, h1⟩]
  simp [hdrBytes, be16, u16be, List.range, List.range.loop]
  omega

/-! ## the cache tree writes back the captured bytes -/

theorem hdrBytes_rd (raw : Bytes) (s n : Nat) : hdrBytes (rd raw s) n = slice raw s n := rfl

theorem drop_split (raw : Bytes) (s n : Nat) (h : s + n ≤ raw.length) :
    raw.drop s = slice raw s n ++ raw.drop (s + n) := by
  rw [slice_eq_take_drop raw s n h, ← List.drop_drop, List.take_append_drop]

/-- every cached layer below is what `from_bytes` yields at its offset; plain values (assignments) never appear -/
def Faithful (raw : Bytes) : Nat → Obj → Prop
  | _, .none => True
  | _, .err => True
  | _, .val _ => False
  | s, .layer h off inner => (∃ k, parseLayer raw k s = .layer h off .none) ∧ Faithful raw off inner

theorem parseLayer_faithful (raw : Bytes) (k : LayerKind) (s : Nat) : Faithful raw s (parseLayer raw k s) := by
  cases hk : parseLayer raw k s with
  | none => trivial
  | err => trivial
  | val v => cases k <;> simp only [parseLayer] at hk <;> (repeat' split at hk) <;> cases hk
  | layer h off inner =>
    have : inner = .none := by
      cases k <;> simp only [parseLayer] at hk <;> (repeat' split at hk) <;> cases hk <;> rfl
    subst this
    exact ⟨⟨k, hk⟩, trivial⟩

/-- a layer writes its header, then the raw bytes after its payload offset — or its cached inner object when that
object writes exactly those bytes -/
theorem ser_layer_eq (raw : Bytes) (h : Hdr) (off : Nat) (inner : Obj)
    (hin : ∀ h' off' i', inner = .layer h' off' i' → ser raw inner = raw.drop off) (hv : ∀ v, inner ≠ .val v) :
    ser raw (.layer h off inner) = h.toBytes ++ raw.drop off := by
  cases inner with
  | none => cases h <;> simp [ser]
  | err => cases h <;> simp [ser]
  | val v => exact absurd rfl (hv v)
  | layer a b c => have := hin a b c rfl; cases h <;> simp_all [ser]

/-- **a faithful layer tree writes back the captured bytes from its offset on** -/
theorem ser_exact (raw : Bytes) (hw : wf raw) :
    ∀ (o : Obj) (s : Nat) (h : Hdr) (off : Nat) (inner : Obj), o = .layer h off inner → Faithful raw s o →
      ser raw o = raw.drop s := by
  intro o
  induction o with
  | none => intro s h off inner e; cases e
  | err => intro s h off inner e; cases e
  | val v => intro s h off inner e; cases e
  | layer h0 off0 inner0 ih =>
    intro s h off inner e hf
    obtain ⟨⟨k, hk⟩, hfi⟩ := hf
    have hb := rd_lt hw s
    have hval : ∀ v, inner0 ≠ .val v := by intro v e; rw [e] at hfi; exact hfi
    have step : ser raw (.layer h0 off0 inner0) = h0.toBytes ++ raw.drop off0 :=
      ser_layer_eq raw h0 off0 inner0 (fun h' off' i' e' => ih off0 h' off' i' e' hfi) hval
    rw [step]
    cases k <;> simp only [parseLayer] at hk <;> (repeat' split at hk) <;> cases hk <;> simp only [Hdr.toBytes]
    · rw [eth_toBytes_parse _ hb, hdrBytes_rd]; exact (drop_split raw s 14 (by omega)).symm
    · rw [vlan_toBytes_parse _ hb, hdrBytes_rd]; exact (drop_split raw s 4 (by omega)).symm
    · rw [ipv4_toBytes_parse _ hb, hdrBytes_rd]; exact (drop_split raw s _ (by omega)).symm
    · rw [ipv6_toBytes_parse _ hb, hdrBytes_rd]; exact (drop_split raw s 40 (by omega)).symm
    · rw [tcp_toBytes_parse _ hb, hdrBytes_rd]; exact (drop_split raw s _ (by omega)).symm
    · rw [udp_toBytes_parse _ hb, hdrBytes_rd]; exact (drop_split raw s 8 (by omega)).symm

/-! ## reads keep the cache tree faithful -/

/-- a continuation that keeps faithful objects faithful -/
def Keeps (raw : Bytes) (k : Obj → Obj × StepOut) : Prop := ∀ o s, Faithful raw s o → Faithful raw s (k o).1

theorem getProp_faithful (raw : Bytes) (p : PP) (k : Obj → Obj × StepOut) (last : Bool) (hk : Keeps raw k) :
    Keeps raw (getProp raw p k last) := by
  intro o s hf
  cases o with
  | none => simpa [getProp] using hf
  | err => simpa [getProp] using hf
  | val v => exact hf.elim
  | layer h off inner =>
    obtain ⟨hp, hfi⟩ := hf
    simp only [getProp]
    split
    · split
      · exact ⟨hp, hfi⟩
      · cases inner with
        | none => exact ⟨hp, hk _ _ (parseLayer_faithful raw _ off)⟩
        | err => exact ⟨hp, hk _ _ hfi⟩
        | val v => exact hfi.elim
        | layer a b c => exact ⟨hp, hk _ _ hfi⟩
    · split <;> exact ⟨hp, hfi⟩

theorem walk_faithful (raw : Bytes) : ∀ ps, Keeps raw (walk raw none ps) := by
  intro ps
  induction ps with
  | nil => intro o s h; simpa [walk] using h
  | cons p ps ih =>
    cases ps with
    | nil => simp only [walk]; exact getProp_faithful raw p _ true ih
    | cons q qs => simp only [walk]; exact getProp_faithful raw p _ false ih

theorem innerStep_faithful (raw : Bytes) (k kf : Obj → Obj × StepOut) (hk : Keeps raw k) (hkf : Keeps raw kf) :
    Keeps raw (innerStep raw k kf) := by
  intro o s hf
  cases o with
  | none => simpa [innerStep] using hkf _ _ hf
  | err => simpa [innerStep] using hkf _ _ hf
  | val v => exact hf.elim
  | layer h off inner =>
    obtain ⟨hp, hfi⟩ := hf
    cases inner with
    | none =>
      simp only [innerStep]
      split
      · exact ⟨hp, hk _ _ (parseLayer_faithful raw _ off)⟩
      · exact ⟨hp, trivial⟩
    | err => exact ⟨hp, hk _ _ hfi⟩
    | val v => exact hfi.elim
    | layer a b c => exact ⟨hp, hk _ _ hfi⟩

theorem descend_faithful (raw : Bytes) (kf : Obj → Obj × StepOut) (hkf : Keeps raw kf) :
    ∀ n, Keeps raw (descend raw kf n) := by
  intro n
  induction n with
  | zero => simpa [descend] using hkf
  | succ n ih => simp only [descend]; exact innerStep_faithful raw _ _ ih hkf

/-- the packet object of a script without assignments: the record header it was built with, and a faithful cache below -/
def RootOk (raw : Bytes) (ph : PcapHdr) (root : Obj) : Prop :=
  ∃ inner, root = .layer (.pcap ph) 0 inner ∧ Faithful raw 0 inner

theorem getProp_root (raw : Bytes) (ph : PcapHdr) (p : PP) (k : Obj → Obj × StepOut) (last : Bool) (hk : Keeps raw k)
    (root : Obj) (hr : RootOk raw ph root) : RootOk raw ph (getProp raw p k last root).1 := by
  obtain ⟨inner, rfl, hfi⟩ := hr
  simp only [getProp]
  split
  · split
    · exact ⟨_, rfl, hfi⟩
    · cases inner with
      | none => exact ⟨_, rfl, hk _ _ (parseLayer_faithful raw _ 0)⟩
      | err => exact ⟨_, rfl, hk _ _ hfi⟩
      | val v => exact hfi.elim
      | layer a b c => exact ⟨_, rfl, hk _ _ hfi⟩
  · split <;> exact ⟨_, rfl, hfi⟩

theorem walk_root (raw : Bytes) (ph : PcapHdr) (ps : List PP) (root : Obj) (hr : RootOk raw ph root) :
    RootOk raw ph (walk raw none ps root).1 := by
  cases ps with
  | nil => simpa [walk] using hr
  | cons p ps =>
    cases ps with
    | nil => simp only [walk]; exact getProp_root raw ph p _ true (walk_faithful raw []) root hr
    | cons q qs => simp only [walk]; exact getProp_root raw ph p _ false (walk_faithful raw _) root hr

theorem innerStep_root (raw : Bytes) (ph : PcapHdr) (k kf : Obj → Obj × StepOut) (hk : Keeps raw k)
    (root : Obj) (hr : RootOk raw ph root) : RootOk raw ph (innerStep raw k kf root).1 := by
  obtain ⟨inner, rfl, hfi⟩ := hr
  cases inner with
  | none => simp only [innerStep, dispatch]; exact ⟨_, rfl, hk _ _ (parseLayer_faithful raw _ 0)⟩
  | err => exact ⟨_, rfl, hk _ _ hfi⟩
  | val v => exact hfi.elim
  | layer a b c => exact ⟨_, rfl, hk _ _ hfi⟩

theorem descend_root (raw : Bytes) (ph : PcapHdr) (ps : List PP) (n : Nat) (root : Obj) (hr : RootOk raw ph root) :
    RootOk raw ph (descend raw (walk raw none ps) n root).1 := by
  cases n with
  | zero => simpa [descend] using walk_root raw ph ps root hr
  | succ n =>
    simp only [descend]
    exact innerStep_root raw ph _ _ (descend_faithful raw _ (walk_faithful raw ps) n) root hr

theorem access_root (raw : Bytes) (ph : PcapHdr) (hd : Head) (ps : List PP) (root : Obj) (hr : RootOk raw ph root) :
    RootOk raw ph (access raw root hd ps none).1 := by
  cases hd with
  | pkt => exact walk_root raw ph ps root hr
  | dollar n =>
    simp only [access]
    split
    · exact hr
    · exact descend_root raw ph ps _ root hr

/-- the bytes of a packet whose cache is faithful -/
theorem bytes_of_root (raw : Bytes) (hw : wf raw) (ph : PcapHdr) (root : Obj) (hr : RootOk raw ph root) :
    ser raw root = ph.toBytes ++ raw := by
  obtain ⟨inner, rfl, hfi⟩ := hr
  have hval : ∀ v, inner ≠ .val v := by intro v e; rw [e] at hfi; exact hfi
  rw [ser_layer_eq raw _ _ inner (fun h' off' i' e => ser_exact raw hw inner 0 h' off' i' e hfi) hval]
  simp [Hdr.toBytes]

/-- a step that assigns nothing -/
def Step.isRead : Step → Bool
  | .set _ _ _ => false
  | _ => true

/-- the four words of the record header fit 32 bits (they were read from a savefile) -/
def PcapHdr.fits (h : PcapHdr) : Prop :=
  h.sec < 4294967296 ∧ h.usec < 4294967296 ∧ h.caplen < 4294967296 ∧ h.wirelen < 4294967296

theorem pcap_reparse (h : PcapHdr) (hf : PcapHdr.fits h) (rest : Bytes) : PcapHdr.parse (rd (h.toBytes ++ rest) 0) = h := by
  obtain ⟨s, u, c, w⟩ := h
  obtain ⟨h1, h2, h3, h4⟩ := hf
  simp [PcapHdr.parse, PcapHdr.toBytes, rd, getB, le32, u32le] at *
  omega

theorem pcap_toBytes_length (h : PcapHdr) : h.toBytes.length = 16 := by simp [PcapHdr.toBytes, le32]

theorem run_reads (ph : PcapHdr) (hfit : PcapHdr.fits ph) (raw : Bytes) (hw : wf raw) (steps : List Step)
    (hro : ∀ st ∈ steps, Step.isRead st = true) :
    ∀ (p : Pkt), p.raw = raw → RootOk raw ph p.root → (p.run steps).1.raw = raw ∧ RootOk raw ph (p.run steps).1.root := by
  induction steps with
  | nil => intro p hraw hr; exact ⟨hraw, hr⟩
  | cons st rest ih =>
    intro p hraw hr
    have hst := hro st (by simp)
    have hrest : ∀ x ∈ rest, Step.isRead x = true := fun x hx => hro x (by simp [hx])
    cases st with
    | get hd path =>
      have := ih hrest { p with root := (access p.raw p.root hd path none).1 } hraw
        (by simpa [hraw] using access_root raw ph hd path p.root hr)
      simpa [Pkt.run, Pkt.step] using this
    | write => simpa [Pkt.run, Pkt.step] using ih hrest p hraw hr
    | set hd path v => simp [Step.isRead] at hst
    | reparse =>
      -- the bytes are record header ++ raw, so the re-parsed packet is the captured one with an empty cache
      have hb : p.bytes = ph.toBytes ++ raw := by
        simpa [Pkt.bytes, hraw] using bytes_of_root raw hw ph p.root hr
      have hre : p.reparse = Pkt.new ph raw := by
        have hd : (ph.toBytes ++ raw).drop 16 = raw := by
          rw [← pcap_toBytes_length ph]; simp
        simp only [Pkt.reparse, hb, pcap_reparse ph hfit raw, hd]
      have := ih hrest (Pkt.new ph raw) rfl ⟨.none, rfl, trivial⟩
      simpa [Pkt.run, Pkt.step, hre] using this

/-- the invariant: whatever reads do, every cached layer is what `from_bytes` yields at its offset -/
theorem read_states_faithful (ph : PcapHdr) (hfit : PcapHdr.fits ph) (raw : Bytes) (hw : wf raw) (steps : List Step)
    (hro : ∀ st ∈ steps, Step.isRead st = true) :
    RootOk raw ph ((Pkt.new ph raw).run steps).1.root :=
  (run_reads ph hfit raw hw steps hro (Pkt.new ph raw) rfl ⟨.none, rfl, trivial⟩).2

/-- **C15.**  After any script without assignments — property paths whose layer names agree or disagree with the type
fields, `$n`, intermediate writes, re-parsing — on a captured packet of any length and content, the packet serialises
to record header ++ captured bytes. -/
theorem reads_preserve_bytes (ph : PcapHdr) (hfit : PcapHdr.fits ph) (raw : Bytes) (hw : wf raw) (steps : List Step)
    (hro : ∀ st ∈ steps, Step.isRead st = true) :
    ((Pkt.new ph raw).run steps).1.bytes = ph.toBytes ++ raw := by
  obtain ⟨hraw, hr⟩ := run_reads ph hfit raw hw steps hro (Pkt.new ph raw) rfl ⟨.none, rfl, trivial⟩
  simp only [Pkt.bytes, hraw]
  exact bytes_of_root raw hw ph _ hr

/-- Ethernet + IPv4 (IHL 6, four option bytes, protocol 6) + TCP (data offset 6, urgent pointer 0x1234, four option
bytes) truncated in the payload: reading through the right names, a wrong name, `$4` and a truncated inner layer, then
re-parsing and reading again, writes the captured bytes -/
def sampleFrame : Bytes :=
  [0,1,2,3,4,5, 6,7,8,9,10,11, 8,0,
   0x46,0,0,50, 0,0,0,0, 64,6,0,0, 10,0,0,1, 10,0,0,2, 1,2,3,4,
   0x1f,0x90,0,80, 0,0,0,1, 0,0,0,2, 0x6A,0x12,0xff,0xff, 0xab,0xcd,0x12,0x34, 9,9,9,9, 0xde,0xad]

example :
    let ph : PcapHdr := { sec := 1, usec := 2, caplen := sampleFrame.length, wirelen := 100 }
    ((Pkt.new ph sampleFrame).run
      [.get .pkt [.eth, .ipv4, .tcp, .flags], .get .pkt [.eth, .ipv6], .get (.dollar 4) [], .get .pkt [.eth, .ipv4, .tcp, .payload],
       .write, .reparse, .get .pkt [.eth, .ipv4, .udp], .write]).1.bytes = ph.toBytes ++ sampleFrame := by
  decide

end P2sh.Props.C15
