import P2sh.Core.Lines
/-!
# C13 for the core fragment: a runtime error carries the line of the failing operation

`fail_line`: whenever the reference evaluation of an (annotated) expression is a runtime error
raised by the operation of a node on line `L` (`Core.failLine`), the machine running the
compiled code gets stuck (`step = none`: the VM's runtime error) **at an instruction of that
expression's code whose recorded line (`Core.lineTable`) is `L`** — wherever the code is placed,
whatever precedes it (for a `match`: a range comparison against a scrutinee of another kind
fails on the line of the range's `..` token; a failure inside the selected arm on its own line).
`fail_line_stmts`/`fail_line_program` lift this to statements (`let`, expression statements,
blocks, `while` / `loop` with `break` / `continue`, statement-level `if`: a failure in the n-th
iteration is found after n-1 complete iterations) and to whole programs, where the line is read exactly as the VM reads
it: `lines[ip]` of the per-byte table (`Core.byteLines`).

`lineTable` is tied to the real compiler's `Instructions.lines` byte for byte, and `failLine` to
the line the real VM reports, by the `core` correspondence op on every generated core program.
-/
namespace P2sh.Props.C13
open P2sh P2sh.Core

/-- from `s0` the machine runs into a state in which it is stuck, at the instruction at byte
offset `off` of the block `c` placed at `pos`; the line recorded for that instruction is `L` -/
def FailsAt (C : List Instr) (K : List Val) (pos : Nat) (c : List Instr) (ls : List Nat) (s0 : St) (L : Nat) : Prop :=
  ∃ st off, Steps C K s0 st ∧ step C K st = none ∧ st.pc = pos + off ∧ lineAt c ls off = some L

theorem FailsAt.left {C K pos a la s0 L} (post : List Instr) (lpost : List Nat)
    (hf : FailsAt C K pos a la s0 L) : FailsAt C K pos (a ++ post) (la ++ lpost) s0 L := by
  obtain ⟨st, off, h1, h2, h3, h4⟩ := hf
  exact ⟨st, off, h1, h2, h3, lineAt_append_left h4⟩

theorem FailsAt.right {C K pos b lb s0 s1 L} (pre : List Instr) (lpre : List Nat)
    (hl : lpre.length = pre.length) (hs : Steps C K s0 s1)
    (hf : FailsAt C K (pos + bytes pre) b lb s1 L) : FailsAt C K pos (pre ++ b) (lpre ++ lb) s0 L := by
  obtain ⟨st, off, h1, h2, h3, h4⟩ := hf
  refine ⟨st, bytes pre + off, hs.trans h1, h2, by omega, ?_⟩
  rw [lineAt_append_right off hl]
  exact h4

/-- the machine is stuck in `s1`, at the single instruction that follows `pre` -/
theorem FailsAt.here {C K pos s0 s1} (pre : List Instr) (i : Instr) (lpre : List Nat) (l : Nat)
    (hl : lpre.length = pre.length) (hs : Steps C K s0 s1) (hpc : s1.pc = pos + bytes pre)
    (hstuck : step C K s1 = none) : FailsAt C K pos (pre ++ [i]) (lpre ++ [l]) s0 l := by
  refine ⟨s1, bytes pre + 0, hs, hstuck, by omega, ?_⟩
  rw [lineAt_append_right 0 hl]
  simp [lineAt]

theorem FailsAt.prefix {C K pos c ls s0 s1 L} (hs : Steps C K s0 s1) (hf : FailsAt C K pos c ls s1 L) :
    FailsAt C K pos c ls s0 L := by
  obtain ⟨st, off, h1, h2, h3, h4⟩ := hf
  exact ⟨st, off, hs.trans h1, h2, h3, h4⟩

/-! ## the instructions that can fail -/

theorem stuck_un {C K pc op v stk g} (h : codeAt C pc [unInstr op]) (hv : ∀ r, applyUn op v ≠ .ok r) :
    step C K ⟨pc, v :: stk, g⟩ = none := by
  cases op <;> simp only [unInstr] at h <;> simp only [applyUn] at hv <;> simp only [step, fetch_codeAt h]
  all_goals
    split
    · rename_i hh; exact absurd hh (hv _)
    · rfl

theorem stuck_op {C K pc o l r stk g} (h : codeAt C pc [Instr.op o]) (hv : ∀ v, execOperator o l r ≠ .ok v) :
    step C K ⟨pc, r :: l :: stk, g⟩ = none := by
  -- the `none` arm of the match on `execOperator o l r`: its side condition is `hv`
  simp only [step, fetch_codeAt h]

theorem stuck_setGlobal {C K pc i v stk g} (h : codeAt C pc [Instr.setGlobal i]) (hi : ¬ i < g.length) :
    step C K ⟨pc, v :: stk, g⟩ = none := by simp [step, fetch_codeAt h, hi]

theorem stuck_defGlobal {C K pc i v stk g} (h : codeAt C pc [Instr.defGlobal i]) (hi : ¬ i < g.length) :
    step C K ⟨pc, v :: stk, g⟩ = none := by simp [step, fetch_codeAt h, hi]

theorem opres_fail {r : OpRes} {l L : Nat}
    (h : (match r with | .ok _ => (none : Option Nat) | _ => some l) = some L) : L = l ∧ ∀ v, r ≠ .ok v := by
  cases r <;> simp_all

/-! ## expressions -/

/-- the statement of `fail_line` for one expression -/
def FailSpec (e : LExpr) : Prop :=
  ∀ (C : List Instr) (K : List Val) (pos k : Nat) (stk g : List Val) (L : Nat),
    codeAt C pos (compile pos k (erase e)) → poolAt K k (consts (erase e)) → failLine g e = some L →
    FailsAt C K pos (compile pos k (erase e)) (lineTable e) ⟨pos, stk, g⟩ L

/-- two operands evaluated one after the other (`e1` first), then a binary operator
instruction: the shape of every binary operator, with `<`/`<=` swapping the operands -/
theorem fail_two {e1 e2 : LExpr} (ih1 : FailSpec e1) (ih2 : FailSpec e2) (o : Operator) (l : Nat)
    (C : List Instr) (K : List Val) (pos k : Nat) (stk g : List Val) (L : Nat)
    (h : codeAt C pos (compile pos k (erase e1) ++
      compile (pos + bytes (compile pos k (erase e1))) (k + (consts (erase e1)).length) (erase e2) ++ [.op o]))
    (hp : poolAt K k (consts (erase e1) ++ consts (erase e2)))
    (hf : (match eval g (erase e1) with
      | some (v1, g1) =>
        (match eval g1 (erase e2) with
         | some (v2, _) => (match execOperator o v1 v2 with | .ok _ => none | _ => some l)
         | none => failLine g1 e2)
      | none => failLine g e1) = some L) :
    FailsAt C K pos (compile pos k (erase e1) ++
      compile (pos + bytes (compile pos k (erase e1))) (k + (consts (erase e1)).length) (erase e2) ++ [.op o])
      (lineTable e1 ++ lineTable e2 ++ [l]) ⟨pos, stk, g⟩ L := by
  have hl1 := lineTable_length pos k e1
  have hl2 := lineTable_length (pos + bytes (compile pos k (erase e1))) (k + (consts (erase e1)).length) e2
  have hc1 : codeAt C pos (compile pos k (erase e1)) := codeAt_left (codeAt_left h)
  have hc2 := codeAt_right (codeAt_left h)
  cases he1 : eval g (erase e1) with
  | none =>
    simp only [he1] at hf
    exact ((ih1 C K pos k stk g L hc1 (poolAt_left hp) hf).left _ _).left _ _
  | some r1 =>
    obtain ⟨v1, g1⟩ := r1
    simp only [he1] at hf
    have s1 := compile_correct (erase e1) C K pos k stk g v1 g1 hc1 (poolAt_left hp) he1
    cases he2 : eval g1 (erase e2) with
    | none =>
      simp only [he2] at hf
      have f2 := ih2 C K _ _ (v1 :: stk) g1 L hc2 (poolAt_right hp) hf
      exact (FailsAt.right _ _ hl1 s1 f2).left _ _
    | some r2 =>
      obtain ⟨v2, g2⟩ := r2
      simp only [he2] at hf
      obtain ⟨rfl, hne⟩ := opres_fail hf
      have s2 := compile_correct (erase e2) C K _ _ (v1 :: stk) g1 v2 g2 hc2 (poolAt_right hp) he2
      have ho : codeAt C (pos + bytes (compile pos k (erase e1) ++
          compile (pos + bytes (compile pos k (erase e1))) (k + (consts (erase e1)).length) (erase e2))) [Instr.op o] :=
        codeAt_right h
      refine FailsAt.here _ _ _ _ (by simp [hl1, hl2]) (s1.trans s2) (by simp [bytes_append]; omega) ?_
      have := stuck_op (K := K) (stk := stk) (g := g2) ho hne
      simpa [bytes_append, Nat.add_assoc] using this

/-! ## match: a range comparison against a scrutinee of another kind -/

theorem fail_pat (p : LPat) (la : Nat) (C : List Instr) (K : List Val) (pos k t : Nat) (v : Val) (stk g : List Val)
    (h : codeAt C pos (compilePat pos k t (erasePat p))) (hp : poolAt K k (patConsts (erasePat p)))
    (ht : patTest v (erasePat p) = none) :
    FailsAt C K pos (compilePat pos k t (erasePat p)) (lineTablePat la p) ⟨pos, v :: stk, g⟩ p.line := by
  cases p with
  | lit l c => simp [erasePat, patTest, execOperator] at ht
  | bool l c => simp [erasePat, patTest, execOperator] at ht
  | dflt l => simp [erasePat, patTest] at ht
  | range l incl lo hi =>
    simp only [erasePat, patTest] at ht
    simp only [erasePat, compilePat, lineTablePat, LPat.line] at h ⊢
    simp only [erasePat, patConsts] at hp
    have hA : codeAt C pos [.dup, .const k, .op .greaterEq, .jif (pos + 16)] :=
      codeAt_left (b := [.dup, .const (k + 1), .op (if incl then .greater else .greaterEq), .jif t]) (by simpa using h)
    have hB : codeAt C (pos + 8) [.dup, .const (k + 1), .op (if incl then .greater else .greaterEq), .jif t] := by
      have := codeAt_right (a := [.dup, .const k, .op .greaterEq, .jif (pos + 16)]) (by simpa using h)
      simpa [bytes, Instr.size] using this
    have hp1 : poolAt K k [lo] := poolAt_left (b := [hi]) (by simpa using hp)
    have hp2 : poolAt K (k + 1) [hi] := by
      have := poolAt_right (a := [lo]) (b := [hi]) (by simpa using hp)
      simpa using this
    obtain ⟨hd1, hA'⟩ := codeAt_cons hA
    obtain ⟨hc1, hA'⟩ := codeAt_cons hA'
    obtain ⟨ho1, _⟩ := codeAt_cons hA'
    have hc1 : codeAt C (pos + 1) [Instr.const k] := hc1
    have ho1 : codeAt C (pos + 1 + 3) [Instr.op .greaterEq] := ho1
    have sA : Steps C K ⟨pos, v :: stk, g⟩ ⟨pos + 1 + 3, lo :: v :: v :: stk, g⟩ :=
      (Steps.one (step_dup hd1)).trans (Steps.one (step_const hc1 (poolAt_get hp1)))
    cases hop1 : execOperator .greaterEq v lo with
    | ok r1 =>
      simp only [hop1] at ht
      by_cases hf : r1.isFalsey = true
      · simp [hf] at ht
      · simp only [hf, Bool.false_eq_true, if_false] at ht
        have hne : ∀ r, execOperator (if incl then .greater else .greaterEq) v hi ≠ .ok r := by
          intro r hr; simp [hr] at ht
        have s1 := cmp_steps (sz := 3) (g := g) (stk := stk) (.const k) rfl (fun stk' => step_const hc1 (poolAt_get hp1)) hA hop1
        simp only [hf, Bool.false_eq_true, if_false] at s1
        obtain ⟨hd2, hB'⟩ := codeAt_cons hB
        obtain ⟨hc2, hB'⟩ := codeAt_cons hB'
        obtain ⟨ho2, _⟩ := codeAt_cons hB'
        have hc2 : codeAt C (pos + 8 + 1) [Instr.const (k + 1)] := hc2
        have ho2 : codeAt C (pos + 8 + 1 + 3) [Instr.op (if incl then .greater else .greaterEq)] := ho2
        have sB : Steps C K ⟨pos + 8, v :: stk, g⟩ ⟨pos + 8 + 1 + 3, hi :: v :: v :: stk, g⟩ :=
          (Steps.one (step_dup hd2)).trans (Steps.one (step_const hc2 (poolAt_get hp2)))
        refine ⟨_, 12, (s1.to (by simp)).trans sB, stuck_op ho2 hne, by simp, ?_⟩
        simp [lineAt, Instr.size]
    | err m =>
      refine ⟨_, 4, sA, stuck_op ho1 (by intro r hr; simp [hop1] at hr), by simp, ?_⟩
      simp [lineAt, Instr.size]
    | panic m =>
      refine ⟨_, 4, sA, stuck_op ho1 (by intro r hr; simp [hop1] at hr), by simp, ?_⟩
      simp [lineAt, Instr.size]

theorem fail_pats (la : Nat) : ∀ (ps : List LPat) (C : List Instr) (K : List Val) (pos k t : Nat) (v : Val) (stk g : List Val) (L : Nat),
    codeAt C pos (compilePats pos k t (ps.map erasePat)) → poolAt K k (patsConsts (ps.map erasePat)) →
    patsFailLine v ps = some L →
    FailsAt C K pos (compilePats pos k t (ps.map erasePat)) (lineTablePats la ps) ⟨pos, v :: stk, g⟩ L
  | [], C, K, pos, k, t, v, stk, g, L, _, _, hf => by simp [patsFailLine] at hf
  | p :: ps, C, K, pos, k, t, v, stk, g, L, h, hp, hf => by
    simp only [List.map, compilePats, lineTablePats] at h ⊢
    simp only [List.map, patsConsts] at hp
    simp only [patsFailLine] at hf
    cases ht : patTest v (erasePat p) with
    | none =>
      simp only [ht, Option.some.injEq] at hf
      subst hf
      exact (fail_pat p la C K pos k t v stk g (codeAt_left h) (poolAt_left hp) ht).left _ _
    | some b =>
      cases b with
      | true => simp [ht] at hf
      | false =>
        simp only [ht] at hf
        have s1 := pat_correct (erasePat p) C K pos k t v stk g false (codeAt_left h) (poolAt_left hp) ht
        simp only [Bool.false_eq_true, if_false] at s1
        have hr := codeAt_right h
        have f2 := fail_pats la ps C K (pos + patBytes (erasePat p)) (k + (patConsts (erasePat p)).length) t v stk g L
          (by simpa [bytes_compilePat] using hr) (poolAt_right hp) hf
        refine FailsAt.right _ _ (lineTablePat_length la pos k t p) s1 ?_
        rw [bytes_compilePat]; exact f2

/-- the arms of a match, entered with the scrutinee on the stack -/
theorem fail_arms (lm : Nat) : ∀ (arms : LArms), arms.All FailSpec →
    ∀ (C : List Instr) (K : List Val) (pos k : Nat) (stk g : List Val) (v : Val) (L : Nat),
    codeAt C pos (compileArms pos k (eraseArms arms)) → poolAt K k (constsArms (eraseArms arms)) →
    failLineArms g v arms = some L →
    FailsAt C K pos (compileArms pos k (eraseArms arms)) (lineTableArms lm arms) ⟨pos, v :: stk, g⟩ L := by
  intro arms
  induction arms using LArms.ind with
  | last la lp d =>
    intro hall C K pos k stk g v L h hp hf
    simp only [LArms.All] at hall
    simp only [eraseArms, compileArms, lineTableArms] at h ⊢
    simp only [eraseArms, constsArms] at hp
    simp only [failLineArms] at hf
    generalize hcd : compile (pos + 3 + 3 + 1) k (erase d) = cd at *
    obtain ⟨h1, h'⟩ := codeAt_cons (by simpa using h)
    obtain ⟨_, h'⟩ := codeAt_cons h'
    obtain ⟨h3, h'⟩ := codeAt_cons h'
    have h3 : codeAt C (pos + 3 + 3) [Instr.pop] := h3
    have h' : codeAt C (pos + 3 + 3 + 1) cd := h'
    have s1 : Steps C K ⟨pos, v :: stk, g⟩ ⟨pos + 3 + 3 + 1, stk, g⟩ :=
      (Steps.one (step_jump h1)).trans (Steps.one (step_pop h3))
    have f2 := hall C K (pos + 3 + 3 + 1) k stk g L (hcd ▸ h') hp hf
    rw [hcd] at f2
    refine FailsAt.right [.jump (pos + 3 + 3), .jump (pos + 3 + 3 + 1 + bytes cd), .pop] [lp, la, la] rfl s1 ?_
    have e : pos + bytes [Instr.jump (pos + 3 + 3), Instr.jump (pos + 3 + 3 + 1 + bytes cd), Instr.pop] = pos + 3 + 3 + 1 := by
      simp [bytes, Instr.size]
    rw [e]; exact f2
  | cons la pats body rest ih =>
    intro hall C K pos k stk g v L h hp hf
    simp only [LArms.All] at hall
    simp only [eraseArms, compileArms, lineTableArms] at h ⊢
    simp only [eraseArms, constsArms] at hp
    simp only [failLineArms] at hf
    have hlp := lineTablePats_length la (pos + patsBytes (pats.map erasePat) + 3) pats pos k
    have hlb := lineTable_length (pos + patsBytes (pats.map erasePat) + 3 + 1) (k + (patsConsts (pats.map erasePat)).length) body
    generalize hps : pats.map erasePat = ps at *
    generalize hcb : compile (pos + patsBytes ps + 3 + 1) (k + (patsConsts ps).length) (erase body) = cb at *
    generalize hcr : compileArms (pos + patsBytes ps + 3 + 1 + bytes cb + 3)
      (k + (patsConsts ps).length + (consts (erase body)).length) (eraseArms rest) = cr at *
    have hpats : codeAt C pos (compilePats pos k (pos + patsBytes ps + 3) ps) :=
      codeAt_left (codeAt_left (codeAt_left (codeAt_left h)))
    have hjo : codeAt C (pos + patsBytes ps) [Instr.jump (pos + patsBytes ps + 3 + 1 + bytes cb + 3)] := by
      have := codeAt_mid (compilePats pos k (pos + patsBytes ps + 3) ps) [_]
        (.pop :: (cb ++ [.jump (pos + patsBytes ps + 3 + 1 + bytes cb + 3 + bytes cr)] ++ cr)) (by simpa using h)
      simpa [bytes_compilePats] using this
    have hpop : codeAt C (pos + patsBytes ps + 3) [Instr.pop] := by
      have := codeAt_mid (compilePats pos k (pos + patsBytes ps + 3) ps ++ [.jump (pos + patsBytes ps + 3 + 1 + bytes cb + 3)]) [.pop]
        (cb ++ [.jump (pos + patsBytes ps + 3 + 1 + bytes cb + 3 + bytes cr)] ++ cr) (by simpa using h)
      exact this.to (by simp [bytes_append, bytes_compilePats, bytes, Instr.size]; omega)
    have hbody : codeAt C (pos + patsBytes ps + 3 + 1) cb :=
      (codeAt_right (codeAt_left (codeAt_left h))).to (by simp [bytes_append, bytes_compilePats, bytes, Instr.size]; omega)
    have hrest : codeAt C (pos + patsBytes ps + 3 + 1 + bytes cb + 3) cr :=
      (codeAt_right h).to (by simp [bytes_append, bytes_compilePats, bytes, Instr.size]; omega)
    have hpp : poolAt K k (patsConsts ps) := poolAt_left (poolAt_left hp)
    have hpb : poolAt K (k + (patsConsts ps).length) (consts (erase body)) := poolAt_right (poolAt_left hp)
    have hpr : poolAt K (k + (patsConsts ps).length + (consts (erase body)).length) (constsArms (eraseArms rest)) := by
      have := poolAt_right hp
      simpa [Nat.add_assoc] using this
    cases hm : patsTest v ps with
    | none =>
      simp only [hm] at hf
      have f1 := fail_pats la pats C K pos k (pos + patsBytes ps + 3) v stk g L (by rw [hps]; exact hpats) (by rw [hps]; exact hpp) hf
      rw [hps] at f1
      exact (((f1.left _ _).left _ _).left _ _).left _ _
    | some b =>
      have sp := pats_correct ps C K pos k (pos + patsBytes ps + 3) v stk g b hpats hpp hm
      cases b with
      | true =>
        simp only [hm] at hf
        simp only [if_true] at sp
        have s1 := sp.trans (Steps.one (step_pop hpop))
        have f2 := hall.1 C K _ _ stk g L (hcb ▸ hbody) hpb hf
        rw [hcb] at f2
        refine ((FailsAt.right (compilePats pos k (pos + patsBytes ps + 3) ps ++
          [Instr.jump (pos + patsBytes ps + 3 + 1 + bytes cb + 3), Instr.pop]) (lineTablePats la pats ++ [la, la])
          (by simp [hlp]) s1 ?_).left _ _).left _ _
        have e : pos + bytes (compilePats pos k (pos + patsBytes ps + 3) ps ++
            [Instr.jump (pos + patsBytes ps + 3 + 1 + bytes cb + 3), Instr.pop]) = pos + patsBytes ps + 3 + 1 := by
          simp [bytes_append, bytes_compilePats, bytes, Instr.size]; omega
        rw [e]; exact f2
      | false =>
        simp only [hm] at hf
        simp only [Bool.false_eq_true, if_false] at sp
        have s1 := sp.trans (Steps.one (step_jump hjo))
        have f2 := ih hall.2 C K _ _ stk g v L (hcr ▸ hrest) hpr hf
        rw [hcr] at f2
        refine FailsAt.right (compilePats pos k (pos + patsBytes ps + 3) ps ++
          [Instr.jump (pos + patsBytes ps + 3 + 1 + bytes cb + 3), Instr.pop] ++ cb ++
          [Instr.jump (pos + patsBytes ps + 3 + 1 + bytes cb + 3 + bytes cr)])
          (lineTablePats la pats ++ [la, la] ++ lineTable body ++ [lm]) (by simp [hlp, hlb]) s1 ?_
        have e : pos + bytes (compilePats pos k (pos + patsBytes ps + 3) ps ++
            [Instr.jump (pos + patsBytes ps + 3 + 1 + bytes cb + 3), Instr.pop] ++ cb ++
            [Instr.jump (pos + patsBytes ps + 3 + 1 + bytes cb + 3 + bytes cr)]) = pos + patsBytes ps + 3 + 1 + bytes cb + 3 := by
          simp [bytes_append, bytes_compilePats, bytes, Instr.size]; omega
        rw [e]; exact f2

theorem fail_line_all (e : LExpr) : FailSpec e := by
  induction e with
  | lit | tru | fls | null | gget => intro C K pos k stk g L _ _ hf; simp [failLine] at hf
  | un l op a iha =>
    intro C K pos k stk g L h hp hf
    simp only [erase, compile, lineTable] at h ⊢
    simp only [erase, consts] at hp
    simp only [failLine] at hf
    have hla := lineTable_length pos k a
    have hca : codeAt C pos (compile pos k (erase a)) := codeAt_left h
    cases hea : eval g (erase a) with
    | none =>
      simp only [hea] at hf
      exact (iha C K pos k stk g L hca hp hf).left _ _
    | some r =>
      obtain ⟨va, g1⟩ := r
      simp only [hea] at hf
      obtain ⟨rfl, hne⟩ := opres_fail hf
      have s1 := compile_correct (erase a) C K pos k stk g va g1 hca hp hea
      exact FailsAt.here _ _ _ _ hla s1 rfl (stuck_un (codeAt_right h) hne)
  | gset l i a iha =>
    intro C K pos k stk g L h hp hf
    simp only [erase, compile, lineTable] at h ⊢
    simp only [erase, consts] at hp
    simp only [failLine] at hf
    have hla := lineTable_length pos k a
    have hca : codeAt C pos (compile pos k (erase a)) := codeAt_left h
    cases hea : eval g (erase a) with
    | none =>
      simp only [hea] at hf
      exact (iha C K pos k stk g L hca hp hf).left _ _
    | some r =>
      obtain ⟨va, g1⟩ := r
      simp only [hea] at hf
      have s1 := compile_correct (erase a) C K pos k stk g va g1 hca hp hea
      by_cases hi : i < g1.length
      · simp [hi] at hf
      · simp only [hi, if_false, Option.some.injEq] at hf
        subst hf
        exact FailsAt.here _ _ _ _ hla s1 rfl (stuck_setGlobal (codeAt_right h) hi)
  | bin l op a b iha ihb =>
    intro C K pos k stk g L h hp hf
    simp only [erase, compile, lineTable] at h ⊢
    simp only [erase, consts] at hp
    simp only [failLine] at hf
    exact fail_two iha ihb op l C K pos k stk g L h hp hf
  | lt l a b iha ihb =>
    intro C K pos k stk g L h hp hf
    simp only [erase, compile, lineTable] at h ⊢
    simp only [erase, consts] at hp
    simp only [failLine] at hf
    exact fail_two ihb iha .greater l C K pos k stk g L h hp hf
  | le l a b iha ihb =>
    intro C K pos k stk g L h hp hf
    simp only [erase, compile, lineTable] at h ⊢
    simp only [erase, consts] at hp
    simp only [failLine] at hf
    exact fail_two ihb iha .greaterEq l C K pos k stk g L h hp hf
  | and l a b iha ihb =>
    intro C K pos k stk g L h hp hf
    simp only [erase, compile, lineTable] at h ⊢
    simp only [erase, consts] at hp
    simp only [failLine] at hf
    have hla := lineTable_length pos k a
    generalize hcae : compile pos k (erase a) = ca at *
    generalize hcbe : compile (pos + bytes ca + 3 + 1) (k + (consts (erase a)).length) (erase b) = cb at *
    have hca : codeAt C pos ca := codeAt_left (codeAt_left h)
    cases hea : eval g (erase a) with
    | none =>
      simp only [hea] at hf
      have := iha C K pos k stk g L (hcae ▸ hca) (poolAt_left hp) hf
      rw [hcae] at this
      exact (this.left _ _).left _ _
    | some r =>
      obtain ⟨va, g1⟩ := r
      simp only [hea] at hf
      have s1 := compile_correct (erase a) C K pos k stk g va g1 (hcae ▸ hca) (poolAt_left hp) hea
      rw [hcae] at s1
      by_cases hfal : va.isFalsey = true
      · simp [hfal] at hf
      · simp only [hfal, Bool.false_eq_true, if_false] at hf
        have hj : codeAt C (pos + bytes ca) [Instr.jifnp (pos + bytes ca + 3 + 1 + bytes cb)] :=
          codeAt_mid ca [_] (.pop :: cb) (by simpa using h)
        have hpop : codeAt C (pos + bytes ca + 3) [Instr.pop] := by
          have := codeAt_mid (ca ++ [.jifnp (pos + bytes ca + 3 + 1 + bytes cb)]) [.pop] cb (by simpa using h)
          simpa [bytes_append, bytes, Instr.size, Nat.add_assoc] using this
        have hbb : codeAt C (pos + bytes ca + 3 + 1) cb := by
          have := codeAt_right h
          simpa [bytes_append, bytes, Instr.size, Nat.add_assoc] using this
        have f2 := ihb C K (pos + bytes ca + 3 + 1) (k + (consts (erase a)).length) stk g1 L (hcbe ▸ hbb) (poolAt_right hp) hf
        rw [hcbe] at f2
        have s2 : Steps C K ⟨pos, stk, g⟩ ⟨pos + bytes ca + 3 + 1, stk, g1⟩ := by
          refine s1.trans ((Steps.one (step_jifnp hj)).trans ?_)
          simp only [hfal, Bool.false_eq_true, if_false]
          exact Steps.one (step_pop hpop)
        refine FailsAt.right _ _ (by simp [hla]) s2 ?_
        have e : pos + bytes (ca ++ [Instr.jifnp (pos + bytes ca + 3 + 1 + bytes cb), Instr.pop]) = pos + bytes ca + 3 + 1 := by
          simp [bytes_append, bytes, Instr.size]; omega
        rw [e]; exact f2
  | or l a b iha ihb =>
    intro C K pos k stk g L h hp hf
    simp only [erase, compile, lineTable] at h ⊢
    simp only [erase, consts] at hp
    simp only [failLine] at hf
    have hla := lineTable_length pos k a
    generalize hcae : compile pos k (erase a) = ca at *
    generalize hcbe : compile (pos + bytes ca + 3 + 3 + 1) (k + (consts (erase a)).length) (erase b) = cb at *
    have hca : codeAt C pos ca := codeAt_left (codeAt_left h)
    cases hea : eval g (erase a) with
    | none =>
      simp only [hea] at hf
      have := iha C K pos k stk g L (hcae ▸ hca) (poolAt_left hp) hf
      rw [hcae] at this
      exact (this.left _ _).left _ _
    | some r =>
      obtain ⟨va, g1⟩ := r
      simp only [hea] at hf
      have s1 := compile_correct (erase a) C K pos k stk g va g1 (hcae ▸ hca) (poolAt_left hp) hea
      rw [hcae] at s1
      by_cases hfal : va.isFalsey = true
      · simp only [hfal, if_true] at hf
        have hj : codeAt C (pos + bytes ca) [Instr.jifnp (pos + bytes ca + 3 + 3)] :=
          codeAt_mid ca [_] (.jump (pos + bytes ca + 3 + 3 + 1 + bytes cb) :: .pop :: cb) (by simpa using h)
        have hpop : codeAt C (pos + bytes ca + 3 + 3) [Instr.pop] := by
          have := codeAt_mid (ca ++ [.jifnp (pos + bytes ca + 3 + 3), .jump (pos + bytes ca + 3 + 3 + 1 + bytes cb)]) [.pop] cb (by simpa using h)
          simpa [bytes_append, bytes, Instr.size, Nat.add_assoc] using this
        have hbb : codeAt C (pos + bytes ca + 3 + 3 + 1) cb := by
          have := codeAt_right h
          simpa [bytes_append, bytes, Instr.size, Nat.add_assoc] using this
        have f2 := ihb C K (pos + bytes ca + 3 + 3 + 1) (k + (consts (erase a)).length) stk g1 L (hcbe ▸ hbb) (poolAt_right hp) hf
        rw [hcbe] at f2
        have s2 : Steps C K ⟨pos, stk, g⟩ ⟨pos + bytes ca + 3 + 3 + 1, stk, g1⟩ := by
          refine s1.trans ((Steps.one (step_jifnp hj)).trans ?_)
          simp only [hfal, if_true]
          exact Steps.one (step_pop hpop)
        refine FailsAt.right _ _ (by simp [hla]) s2 ?_
        have e : pos + bytes (ca ++ [Instr.jifnp (pos + bytes ca + 3 + 3), Instr.jump (pos + bytes ca + 3 + 3 + 1 + bytes cb), Instr.pop])
            = pos + bytes ca + 3 + 3 + 1 := by
          simp [bytes_append, bytes, Instr.size]; omega
        rw [e]; exact f2
      · simp [hfal] at hf
  | ite l c t e ihc iht ihe =>
    intro C K pos k stk g L h hp hf
    simp only [erase, compile, lineTable] at h ⊢
    simp only [erase, consts] at hp
    simp only [failLine] at hf
    have hlc := lineTable_length pos k c
    have hlt := lineTable_length (pos + bytes (compile pos k (erase c)) + 3) (k + (consts (erase c)).length) t
    generalize hcce : compile pos k (erase c) = cc at *
    generalize hcte : compile (pos + bytes cc + 3) (k + (consts (erase c)).length) (erase t) = ct at *
    generalize hcee : compile (pos + bytes cc + 3 + bytes ct + 3) (k + (consts (erase c)).length + (consts (erase t)).length) (erase e) = ce at *
    have hcc : codeAt C pos cc := codeAt_left (codeAt_left (codeAt_left (codeAt_left h)))
    cases hec : eval g (erase c) with
    | none =>
      simp only [hec] at hf
      have := ihc C K pos k stk g L (hcce ▸ hcc) (poolAt_left (poolAt_left hp)) hf
      rw [hcce] at this
      exact (((this.left _ _).left _ _).left _ _).left _ _
    | some r =>
      obtain ⟨vc, g1⟩ := r
      simp only [hec] at hf
      have s1 := compile_correct (erase c) C K pos k stk g vc g1 (hcce ▸ hcc) (poolAt_left (poolAt_left hp)) hec
      rw [hcce] at s1
      have hj : codeAt C (pos + bytes cc) [Instr.jif (pos + bytes cc + 3 + bytes ct + 3)] :=
        codeAt_mid cc [_] (ct ++ [.jump (pos + bytes cc + 3 + bytes ct + 3 + bytes ce)] ++ ce) (by simpa using h)
      have s2 := s1.trans (Steps.one (step_jif (stk := stk) (g := g1) (v := vc) (K := K) hj))
      by_cases hfal : vc.isFalsey = true
      · simp only [hfal, if_true] at hf s2
        have hee : codeAt C (pos + bytes cc + 3 + bytes ct + 3) ce := by
          have := codeAt_right h
          simpa [bytes_append, bytes, Instr.size, Nat.add_assoc] using this
        have hpe : poolAt K (k + (consts (erase c)).length + (consts (erase t)).length) (consts (erase e)) := by
          have := poolAt_right hp
          simpa [Nat.add_assoc] using this
        have f2 := ihe C K _ _ stk g1 L (hcee ▸ hee) hpe hf
        rw [hcee] at f2
        refine FailsAt.right _ _ (by simp [hlc, hlt]) s2 ?_
        have e : pos + bytes (cc ++ [Instr.jif (pos + bytes cc + 3 + bytes ct + 3)] ++ ct ++
            [Instr.jump (pos + bytes cc + 3 + bytes ct + 3 + bytes ce)]) = pos + bytes cc + 3 + bytes ct + 3 := by
          simp [bytes_append, bytes, Instr.size]; omega
        rw [e]; exact f2
      · simp only [hfal, Bool.false_eq_true, if_false] at hf s2
        have htt : codeAt C (pos + bytes cc + 3) ct := by
          have := codeAt_right (codeAt_left (codeAt_left h))
          simpa [bytes_append, bytes, Instr.size, Nat.add_assoc] using this
        have f2 := iht C K _ _ stk g1 L (hcte ▸ htt) (poolAt_right (poolAt_left hp)) hf
        rw [hcte] at f2
        refine ((FailsAt.right _ _ (by simp [hlc]) s2 ?_).left _ _).left _ _
        have e : pos + bytes (cc ++ [Instr.jif (pos + bytes cc + 3 + bytes ct + 3)]) = pos + bytes cc + 3 := by
          simp [bytes_append, bytes, Instr.size]; omega
        rw [e]; exact f2
  | matchE l s arms ihs iharms =>
    intro C K pos k stk g L h hp hf
    simp only [erase, compile, lineTable] at h ⊢
    simp only [erase, consts] at hp
    simp only [failLine] at hf
    cases hes : eval g (erase s) with
    | none =>
      simp only [hes] at hf
      exact (ihs C K pos k stk g L (codeAt_left h) (poolAt_left hp) hf).left _ _
    | some r =>
      obtain ⟨v, g1⟩ := r
      simp only [hes] at hf
      have s1 := compile_correct (erase s) C K pos k stk g v g1 (codeAt_left h) (poolAt_left hp) hes
      have f2 := fail_arms l arms iharms C K _ _ stk g1 v L (codeAt_right h) (poolAt_right hp) hf
      exact FailsAt.right _ _ (lineTable_length pos k s) s1 f2


theorem lineAt_lt {c : List Instr} {ls : List Nat} {off L : Nat} (h : lineAt c ls off = some L) :
    off < bytes c ∧ (fetch c off).isSome = true := by
  induction c generalizing ls off with
  | nil => simp [lineAt] at h
  | cons i is ih =>
    cases ls with
    | nil => simp [lineAt] at h
    | cons l ls =>
      have hp := i.size_pos
      simp only [lineAt] at h
      simp only [bytes, fetch]
      by_cases h0 : off = 0
      · simp [h0]; omega
      · simp only [h0, if_false] at h ⊢
        by_cases h1 : off < i.size
        · simp [h1] at h
        · simp only [h1, if_false] at h ⊢
          have := ih h
          exact ⟨by omega, this.2⟩

/-- **C13, expressions.**  If the reference evaluation of `e` fails by the operation of a node
on line `L`, the machine running `compile pos k (erase e)` — placed anywhere (`codeAt`), after
whatever code, with any stack — gets stuck at the first byte of an instruction of this block
(`off < bytes …`, `fetch` succeeds there) and the line the compiler recorded for that
instruction is `L`. -/
theorem fail_line (e : LExpr) (C : List Instr) (K : List Val) (pos k : Nat) (stk g : List Val) (L : Nat)
    (h : codeAt C pos (compile pos k (erase e))) (hp : poolAt K k (consts (erase e)))
    (hf : failLine g e = some L) :
    ∃ st off, Steps C K ⟨pos, stk, g⟩ st ∧ step C K st = none ∧ st.pc = pos + off ∧
      off < bytes (compile pos k (erase e)) ∧ (fetch (compile pos k (erase e)) off).isSome = true ∧
      lineAt (compile pos k (erase e)) (lineTable e) off = some L := by
  obtain ⟨st, off, h1, h2, h3, h4⟩ := fail_line_all e C K pos k stk g L h hp hf
  exact ⟨st, off, h1, h2, h3, (lineAt_lt h4).1, (lineAt_lt h4).2, h4⟩

/-! ## statements and programs -/

def FailSpecS (fuel : Nat) : Prop :=
  ∀ (s : LStmt) (C : List Instr) (K : List Val) (pos k : Nat) (ctx : List LoopCtx) (stk g : List Val) (L : Nat),
    codeAt C pos (compileS pos k ctx (eraseS s)) → poolAt K k (constsS (eraseS s)) → failLineS fuel g s = some L →
    FailsAt C K pos (compileS pos k ctx (eraseS s)) (lineTableS s) ⟨pos, stk, g⟩ L

def FailSpecP (fuel : Nat) : Prop :=
  ∀ (ss : List LStmt) (C : List Instr) (K : List Val) (pos k : Nat) (ctx : List LoopCtx) (stk g : List Val) (L : Nat),
    codeAt C pos (compileP pos k ctx (eraseP ss)) → poolAt K k (constsP (eraseP ss)) → failLineP fuel g ss = some L →
    FailsAt C K pos (compileP pos k ctx (eraseP ss)) (lineTableP ss) ⟨pos, stk, g⟩ L

/-- a block in value position (a branch of an `if` on line `lif`) -/
def FailSpecV (fuel : Nat) : Prop :=
  ∀ (ss : List LStmt) (lif : Nat) (C : List Instr) (K : List Val) (pos k : Nat) (ctx : List LoopCtx) (stk g : List Val) (L : Nat),
    codeAt C pos (branchV pos k ctx (eraseP ss)) → poolAt K k (constsP (eraseP ss)) → failLineP fuel g ss = some L →
    FailsAt C K pos (branchV pos k ctx (eraseP ss)) (lineTableV lif ss) ⟨pos, stk, g⟩ L

/-- an `if` with statement blocks as an expression -/
def FailSpecIfV (fuel : Nat) : Prop :=
  ∀ (ls l : Nat) (c : LExpr) (thn els : List LStmt) (C : List Instr) (K : List Val) (pos k : Nat) (ctx : List LoopCtx) (stk g : List Val) (L : Nat),
    codeAt C pos (ifV pos k ctx (erase c) (eraseP thn) (eraseP els)) →
    poolAt K k (consts (erase c) ++ constsP (eraseP thn) ++ constsP (eraseP els)) →
    failLineS fuel g (.ifS ls l c thn els) = some L →
    FailsAt C K pos (ifV pos k ctx (erase c) (eraseP thn) (eraseP els)) (lineTableIfV l c thn els) ⟨pos, stk, g⟩ L

theorem failP_succ (fuel : Nat) (hS : FailSpecS fuel) (hP : FailSpecP fuel) : FailSpecP (fuel + 1) := by
  intro ss C K pos k ctx stk g L h hp hf
  cases ss with
  | nil => simp [failLineP] at hf
  | cons s rest =>
    simp only [failLineP] at hf
    simp only [eraseP, compileP, lineTableP] at h ⊢
    simp only [eraseP, constsP] at hp
    cases h1 : evalS fuel g (eraseS s) with
    | none =>
      simp only [h1] at hf
      exact (hS s C K pos k ctx stk g L (codeAt_left h) (poolAt_left hp) hf).left _ _
    | some r =>
      obtain ⟨g1, f1⟩ := r
      cases f1 with
      | normal =>
        simp only [h1] at hf
        have s1 := compileS_correct fuel (eraseS s) C K pos k ctx stk g g1 .normal (codeAt_left h) (poolAt_left hp) h1
        have f2 := hP rest C K _ _ ctx stk g1 L (codeAt_right h) (poolAt_right hp) hf
        exact FailsAt.right _ _ (lineTableS_length pos k ctx s) s1 f2
      | brk l => simp [h1] at hf
      | cont l => simp [h1] at hf

theorem failIfV_succ (fuel : Nat) (hV : FailSpecV fuel) : FailSpecIfV (fuel + 1) := by
  intro ls l c thn els C K pos k ctx stk g L h hp hf
  simp only [failLineS] at hf
  simp only [ifV, lineTableIfV] at h ⊢
  have hlc := lineTable_length pos k c
  have hlt := lineTableV_length l (pos + bytes (compile pos k (erase c)) + 3) (k + (consts (erase c)).length) ctx thn
  generalize hcce : compile pos k (erase c) = cc at *
  generalize hcte : branchV (pos + bytes cc + 3) (k + (consts (erase c)).length) ctx (eraseP thn) = ct at *
  generalize hcee : branchV (pos + bytes cc + 3 + bytes ct + 3) (k + (consts (erase c)).length + (constsP (eraseP thn)).length) ctx (eraseP els) = ce at *
  have hcc : codeAt C pos cc := codeAt_left (codeAt_left (codeAt_left (codeAt_left h)))
  cases hec : eval g (erase c) with
  | none =>
    simp only [hec] at hf
    have := fail_line_all c C K pos k stk g L (hcce ▸ hcc) (poolAt_left (poolAt_left hp)) hf
    rw [hcce] at this
    exact (((this.left _ _).left _ _).left _ _).left _ _
  | some r =>
    obtain ⟨vc, g1⟩ := r
    simp only [hec] at hf
    have s1 := compile_correct (erase c) C K pos k stk g vc g1 (hcce ▸ hcc) (poolAt_left (poolAt_left hp)) hec
    rw [hcce] at s1
    have hj : codeAt C (pos + bytes cc) [Instr.jif (pos + bytes cc + 3 + bytes ct + 3)] :=
      codeAt_mid cc [_] (ct ++ [.jump (pos + bytes cc + 3 + bytes ct + 3 + bytes ce)] ++ ce) (by simpa using h)
    have s2 := s1.trans (Steps.one (step_jif (stk := stk) (g := g1) (v := vc) (K := K) hj))
    by_cases hfal : vc.isFalsey = true
    · simp only [hfal, if_true] at hf s2
      have hee : codeAt C (pos + bytes cc + 3 + bytes ct + 3) ce := (codeAt_right h).to (by posarith)
      have hpe : poolAt K (k + (consts (erase c)).length + (constsP (eraseP thn)).length) (constsP (eraseP els)) := by
        have := poolAt_right hp
        simpa [Nat.add_assoc] using this
      have f2 := hV els l C K _ _ ctx stk g1 L (hcee ▸ hee) hpe hf
      rw [hcee] at f2
      refine FailsAt.right _ _ (by simp [hlc, hlt]) s2 ?_
      have e : pos + bytes (cc ++ [Instr.jif (pos + bytes cc + 3 + bytes ct + 3)] ++ ct ++
          [Instr.jump (pos + bytes cc + 3 + bytes ct + 3 + bytes ce)]) = pos + bytes cc + 3 + bytes ct + 3 := by posarith
      rw [e]; exact f2
    · simp only [hfal, Bool.false_eq_true, if_false] at hf s2
      have htt : codeAt C (pos + bytes cc + 3) ct := (codeAt_right (codeAt_left (codeAt_left h))).to (by posarith)
      have f2 := hV thn l C K _ _ ctx stk g1 L (hcte ▸ htt) (poolAt_right (poolAt_left hp)) hf
      rw [hcte] at f2
      refine ((FailsAt.right _ _ (by simp [hlc]) s2 ?_).left _ _).left _ _
      have e : pos + bytes (cc ++ [Instr.jif (pos + bytes cc + 3 + bytes ct + 3)]) = pos + bytes cc + 3 := by posarith
      rw [e]; exact f2

theorem failV_succ (fuel : Nat) (hS : FailSpecS fuel) (hV : FailSpecV fuel) (hI : FailSpecIfV fuel) : FailSpecV (fuel + 1) := by
  intro ss lif C K pos k ctx stk g L h hp hf
  cases ss with
  | nil => simp [failLineP] at hf
  | cons s rest =>
    simp only [failLineP] at hf
    rw [eraseP_cons] at h hp ⊢
    simp only [constsP] at hp
    cases rest with
    | cons s2 rest2 =>
      rw [eraseP_cons, branchV_cons2] at h ⊢
      rw [lineTableV_cons2]
      rw [eraseP_cons] at hp
      cases h1 : evalS fuel g (eraseS s) with
      | none =>
        simp only [h1] at hf
        exact (hS s C K pos k ctx stk g L (codeAt_left h) (poolAt_left hp) hf).left _ _
      | some r =>
        obtain ⟨g1, f1⟩ := r
        cases f1 with
        | normal =>
          simp only [h1] at hf
          have s1 := compileS_correct fuel (eraseS s) C K pos k ctx stk g g1 .normal (codeAt_left h) (poolAt_left hp) h1
          have f2 := hV (s2 :: rest2) lif C K _ _ ctx stk g1 L (by rw [eraseP_cons]; exact codeAt_right h)
            (by rw [eraseP_cons]; exact poolAt_right hp) hf
          rw [eraseP_cons] at f2
          exact FailsAt.right _ _ (lineTableS_length pos k ctx s) s1 f2
        | brk l => simp [h1] at hf
        | cont l => simp [h1] at hf
    | nil =>
      have hnil : eraseP ([] : List LStmt) = [] := by rw [eraseP]
      rw [hnil, branchV_single] at h ⊢
      rw [lineTableV_single]
      rw [hnil] at hp
      simp only [constsP, List.append_nil] at hp
      have hfs : failLineS fuel g s = some L := by
        cases h1 : evalS fuel g (eraseS s) with
        | none => simpa [h1] using hf
        | some r =>
          obtain ⟨g1, f1⟩ := r
          cases f1 with
          | normal =>
            simp only [h1] at hf
            cases fuel <;> simp [failLineP] at hf
          | brk l => simp [h1] at hf
          | cont l => simp [h1] at hf
      rw [isExprStmt_eraseS]
      cases s with
      | expr ls e =>
        have e1 : valueOf (LStmt.expr ls e).isExprStmt (compileS pos k ctx (eraseS (.expr ls e))) = compile pos k (erase e) := by
          simp [valueOf, LStmt.isExprStmt, eraseS, compileS]
        have e2 : valueLines (LStmt.expr ls e).isExprStmt lif (lineTableS (.expr ls e)) = lineTable e := by
          simp [valueLines, LStmt.isExprStmt, lineTableS]
        rw [isExprStmt_eraseS, e1] at h
        rw [e1, e2]
        cases fuel with
        | zero => simp [failLineS] at hfs
        | succ n =>
          simp only [failLineS] at hfs
          exact fail_line_all e C K pos k stk g L h (by simpa [eraseS, constsS] using hp) hfs
      | ifS ls l c thn els =>
        have e1 : valueOf (LStmt.ifS ls l c thn els).isExprStmt (compileS pos k ctx (eraseS (.ifS ls l c thn els))) =
            ifV pos k ctx (erase c) (eraseP thn) (eraseP els) := by
          simp [valueOf, LStmt.isExprStmt, eraseS, compileS_ifS]
        have e2 : valueLines (LStmt.ifS ls l c thn els).isExprStmt lif (lineTableS (.ifS ls l c thn els)) = lineTableIfV l c thn els := by
          have e3 : lineTableS (.ifS ls l c thn els) = lineTableIfV l c thn els ++ [ls] := by
            simp [lineTableS, lineTableIfV]
          simp only [valueLines, LStmt.isExprStmt, if_true, e3, List.dropLast_concat]
        rw [isExprStmt_eraseS, e1] at h
        rw [e1, e2]
        exact hI ls l c thn els C K pos k ctx stk g L h (by simpa [eraseS, constsS] using hp) hfs
      | letG l i e =>
        rw [isExprStmt_eraseS] at h
        simp only [valueOf, valueLines, LStmt.isExprStmt, Bool.false_eq_true, if_false] at h ⊢
        exact (hS _ C K pos k ctx stk g L (codeAt_left h) hp hfs).left _ _
      | block l b =>
        rw [isExprStmt_eraseS] at h
        simp only [valueOf, valueLines, LStmt.isExprStmt, Bool.false_eq_true, if_false] at h ⊢
        exact (hS _ C K pos k ctx stk g L (codeAt_left h) hp hfs).left _ _
      | whileS l lbl c b =>
        rw [isExprStmt_eraseS] at h
        simp only [valueOf, valueLines, LStmt.isExprStmt, Bool.false_eq_true, if_false] at h ⊢
        exact (hS _ C K pos k ctx stk g L (codeAt_left h) hp hfs).left _ _
      | loopS l lbl b =>
        rw [isExprStmt_eraseS] at h
        simp only [valueOf, valueLines, LStmt.isExprStmt, Bool.false_eq_true, if_false] at h ⊢
        exact (hS _ C K pos k ctx stk g L (codeAt_left h) hp hfs).left _ _
      | breakS l lbl => cases fuel <;> simp [failLineS] at hfs
      | continueS l lbl => cases fuel <;> simp [failLineS] at hfs

theorem failS_succ (fuel : Nat) (hS : FailSpecS fuel) (hP : FailSpecP fuel) (hI : FailSpecIfV (fuel + 1)) : FailSpecS (fuel + 1) := by
  intro s C K pos k ctx stk g L h hp hf
  cases s with
  | letG l i e =>
    simp only [failLineS] at hf
    simp only [eraseS, compileS, lineTableS] at h ⊢
    simp only [eraseS, constsS] at hp
    have hce : codeAt C pos (compile pos k (erase e)) := codeAt_left h
    cases hee : eval g (erase e) with
    | none =>
      simp only [hee] at hf
      exact (fail_line_all e C K pos k stk g L hce hp hf).left _ _
    | some r =>
      obtain ⟨v, g1⟩ := r
      simp only [hee] at hf
      have s1 := compile_correct (erase e) C K pos k stk g v g1 hce hp hee
      by_cases hi : i < g1.length
      · simp [hi] at hf
      · simp only [hi, if_false, Option.some.injEq] at hf
        subst hf
        exact FailsAt.here _ _ _ _ (lineTable_length pos k e) s1 rfl (stuck_defGlobal (codeAt_right h) hi)
  | expr l e =>
    simp only [failLineS] at hf
    simp only [eraseS, compileS, lineTableS] at h ⊢
    simp only [eraseS, constsS] at hp
    exact (fail_line_all e C K pos k stk g L (codeAt_left h) hp hf).left _ _
  | block l body =>
    simp only [failLineS] at hf
    simp only [eraseS, compileS, lineTableS] at h ⊢
    simp only [eraseS, constsS] at hp
    exact hP body C K pos k ctx stk g L h hp hf
  | breakS l lbl => simp [failLineS] at hf
  | continueS l lbl => simp [failLineS] at hf
  | ifS ls l c thn els =>
    have e1 : compileS pos k ctx (eraseS (.ifS ls l c thn els)) = ifV pos k ctx (erase c) (eraseP thn) (eraseP els) ++ [.pop] := by
      simp [eraseS, compileS_ifS]
    have e2 : lineTableS (.ifS ls l c thn els) = lineTableIfV l c thn els ++ [ls] := by
      simp [lineTableS, lineTableIfV]
    rw [e1] at h ⊢
    rw [e2]
    exact (hI ls l c thn els C K pos k ctx stk g L (codeAt_left h) (by simpa [eraseS, constsS] using hp) hf).left _ _
  | loopS l lbl body =>
    have hloop := h
    have hploop := hp
    simp only [failLineS] at hf
    simp only [eraseS, compileS, lineTableS] at h ⊢
    simp only [eraseS, constsS] at hp
    generalize hme : (⟨lbl, pos, pos + sizeP (eraseP body) + 3⟩ : LoopCtx) = me at *
    have hml : me.label = lbl := by rw [← hme]
    have hmb : me.begin = pos := by rw [← hme]
    generalize hcbe : compileP pos k (me :: ctx) (eraseP body) = cb at *
    have hbody : codeAt C pos cb := codeAt_left h
    cases hb : evalP fuel g (eraseP body) with
    | none =>
      simp only [hb] at hf
      have f2 := hP body C K pos k (me :: ctx) stk g L (hcbe ▸ hbody) hp hf
      rw [hcbe] at f2
      exact f2.left _ _
    | some r =>
      obtain ⟨g2, f2⟩ := r
      simp only [hb] at hf
      cases ha : loopAct lbl f2 with
      | again =>
        simp only [ha] at hf
        have hback : codeAt C (pos + bytes cb) [Instr.jump pos] := codeAt_right h
        have s3 := compileP_correct fuel (eraseP body) C K pos k (me :: ctx) stk g g2 f2 (hcbe ▸ hbody) hp hb
        rw [hcbe] at s3
        have s4 : Steps C K ⟨pos, stk, g⟩ ⟨pos, stk, g2⟩ := by
          rcases exitPc_again (ctx := ctx) (e := pos + bytes cb) (hml ▸ ha) with e | e
          · exact (s3.to (by rw [e])).trans (Steps.one (step_jump hback))
          · exact s3.to (by rw [e, hmb])
        have f := hS (.loopS l lbl body) C K pos k ctx stk g2 L hloop hploop hf
        simp only [eraseS, compileS, lineTableS, hme, hcbe] at f
        exact f.prefix s4
      | exit => simp [ha] at hf
      | propagate => simp [ha] at hf
  | whileS l lbl c body =>
    have hloop := h
    have hploop := hp
    simp only [failLineS] at hf
    simp only [eraseS, compileS, lineTableS] at h ⊢
    simp only [eraseS, constsS] at hp
    have hlc := lineTable_length pos k c
    generalize hcce : compile pos k (erase c) = cc at *
    generalize hme : (⟨lbl, pos, pos + bytes cc + 3 + sizeP (eraseP body) + 3⟩ : LoopCtx) = me at *
    have hml : me.label = lbl := by rw [← hme]
    have hmb : me.begin = pos := by rw [← hme]
    generalize hcbe : compileP (pos + bytes cc + 3) (k + (consts (erase c)).length) (me :: ctx) (eraseP body) = cb at *
    have hcc : codeAt C pos cc := codeAt_left (codeAt_left (codeAt_left h))
    cases hec : eval g (erase c) with
    | none =>
      simp only [hec] at hf
      have := fail_line_all c C K pos k stk g L (hcce ▸ hcc) (poolAt_left hp) hf
      rw [hcce] at this
      exact ((this.left _ _).left _ _).left _ _
    | some r =>
      obtain ⟨vc, g1⟩ := r
      simp only [hec] at hf
      have s1 := compile_correct (erase c) C K pos k stk g vc g1 (hcce ▸ hcc) (poolAt_left hp) hec
      rw [hcce] at s1
      have hj : codeAt C (pos + bytes cc) [Instr.jif (pos + bytes cc + 3 + sizeP (eraseP body) + 3)] :=
        codeAt_mid cc [_] (cb ++ [.jump pos]) (by simpa using h)
      have s2 := s1.trans (Steps.one (step_jif (stk := stk) (g := g1) (v := vc) (K := K) hj))
      by_cases hfal : vc.isFalsey = true
      · simp [hfal] at hf
      · simp only [hfal, Bool.false_eq_true, if_false] at hf s2
        have hbody : codeAt C (pos + bytes cc + 3) cb := (codeAt_right (codeAt_left h)).to (by posarith)
        cases hb : evalP fuel g1 (eraseP body) with
        | none =>
          simp only [hb] at hf
          have f2 := hP body C K _ _ (me :: ctx) stk g1 L (hcbe ▸ hbody) (poolAt_right hp) hf
          rw [hcbe] at f2
          refine (FailsAt.right _ _ (by simp [hlc]) s2 ?_).left _ _
          have e : pos + bytes (cc ++ [Instr.jif (pos + bytes cc + 3 + sizeP (eraseP body) + 3)]) = pos + bytes cc + 3 := by posarith
          rw [e]; exact f2
        | some r2 =>
          obtain ⟨g2, f2⟩ := r2
          simp only [hb] at hf
          cases ha : loopAct lbl f2 with
          | again =>
            simp only [ha] at hf
            have hback : codeAt C (pos + bytes cc + 3 + bytes cb) [Instr.jump pos] := (codeAt_right h).to (by posarith)
            have s3 := compileP_correct fuel (eraseP body) C K _ _ (me :: ctx) stk g1 g2 f2 (hcbe ▸ hbody) (poolAt_right hp) hb
            rw [hcbe] at s3
            have s4 : Steps C K ⟨pos, stk, g⟩ ⟨pos, stk, g2⟩ := by
              rcases exitPc_again (ctx := ctx) (e := pos + bytes cc + 3 + bytes cb) (hml ▸ ha) with e | e
              · exact (s2.trans (s3.to (by rw [e]))).trans (Steps.one (step_jump hback))
              · exact s2.trans (s3.to (by rw [e, hmb]))
            -- the next iteration: the same loop, from the globals the body left
            have f := hS (.whileS l lbl c body) C K pos k ctx stk g2 L hloop hploop hf
            simp only [eraseS, compileS, lineTableS, hcce, hme, hcbe] at f
            exact f.prefix s4
          | exit => simp [ha] at hf
          | propagate => simp [ha] at hf

theorem fail_all : ∀ fuel, FailSpecS fuel ∧ FailSpecP fuel ∧ FailSpecV fuel ∧ FailSpecIfV fuel
  | 0 => ⟨fun s C K pos k ctx stk g L _ _ hf => by simp [failLineS] at hf,
          fun ss C K pos k ctx stk g L _ _ hf => by simp [failLineP] at hf,
          fun ss lif C K pos k ctx stk g L _ _ hf => by simp [failLineP] at hf,
          fun ls l c thn els C K pos k ctx stk g L _ _ hf => by simp [failLineS] at hf⟩
  | fuel+1 =>
    have ih := fail_all fuel
    have hI := failIfV_succ fuel ih.2.2.1
    ⟨failS_succ fuel ih.1 ih.2.1 hI, failP_succ fuel ih.1 ih.2.1, failV_succ fuel ih.1 ih.2.2.1 ih.2.2.2, hI⟩

/-- **C13, statements**: `let`, expression statement, block, `while` / `loop` (a failure in the
n-th iteration is reached after n-1 complete iterations, whether they ended normally or by
`continue`), statement-level `if`, placed anywhere, under any loop stack -/
theorem fail_line_stmts (fuel : Nat) (ss : List LStmt) (C : List Instr) (K : List Val) (pos k : Nat) (ctx : List LoopCtx)
    (stk g : List Val) (L : Nat)
    (h : codeAt C pos (compileP pos k ctx (eraseP ss))) (hp : poolAt K k (constsP (eraseP ss)))
    (hf : failLineP fuel g ss = some L) :
    ∃ st off, Steps C K ⟨pos, stk, g⟩ st ∧ step C K st = none ∧ st.pc = pos + off ∧
      off < bytes (compileP pos k ctx (eraseP ss)) ∧ (fetch (compileP pos k ctx (eraseP ss)) off).isSome = true ∧
      lineAt (compileP pos k ctx (eraseP ss)) (lineTableP ss) off = some L := by
  obtain ⟨st, off, h1, h2, h3, h4⟩ := (fail_all fuel).2.1 ss C K pos k ctx stk g L h hp hf
  exact ⟨st, off, h1, h2, h3, (lineAt_lt h4).1, (lineAt_lt h4).2, h4⟩

/-- the machine is deterministic: the state in which a run gets stuck is unique -/
theorem stuck_unique {C K s a b} (ha : Steps C K s a) (hsa : step C K a = none)
    (hb : Steps C K s b) (hsb : step C K b = none) : a = b := by
  induction ha with
  | refl =>
    cases hb with
    | refl => rfl
    | cons h _ => rw [hsa] at h; cases h
  | cons h _ ih =>
    cases hb with
    | refl => rw [hsb] at h; cases h
    | cons h' hb' => rw [h] at h'; cases h'; exact ih hsa hb'

/-- **C13, whole programs.**  Code = the compiled program, pool = its constants, empty stack.
If the reference evaluation fails by an operation on line `L`, the machine gets stuck, and the
line the VM reads for the error — `lines[ip]` of the per-byte line table — is `L`. -/
theorem fail_line_program (fuel : Nat) (ss : List LStmt) (g : List Val) (L : Nat)
    (hf : failLineP fuel g ss = some L) :
    ∃ st, Steps (compileP 0 0 [] (eraseP ss)) (constsP (eraseP ss)) ⟨0, [], g⟩ st ∧
      step (compileP 0 0 [] (eraseP ss)) (constsP (eraseP ss)) st = none ∧
      (byteLines (compileP 0 0 [] (eraseP ss)) (lineTableP ss))[st.pc]? = some L := by
  obtain ⟨st, off, h1, h2, h3, h4⟩ := (fail_all fuel).2.1 ss (compileP 0 0 [] (eraseP ss)) (constsP (eraseP ss)) 0 0 [] [] g L
    ⟨[], [], by simp, rfl⟩ ⟨[], [], by simp, rfl⟩ hf
  refine ⟨st, h1, h2, ?_⟩
  have : st.pc = off := by omega
  rw [this]
  exact lineAt_byteLines h4

/-- … and every run that ends in a runtime error ends in that state: the line reported by the
executable machine (`runMachineL`, the model side of the `core` op) is `L` -/
theorem run_reports_failLine (fuel n : Nat) (ss : List LStmt) (g : List Val) (L : Nat) (st : St)
    (hf : failLineP fuel g ss = some L)
    (hr : runMachineL (compileP 0 0 [] (eraseP ss)) (constsP (eraseP ss)) n ⟨0, [], g⟩ = .stuck st) :
    (byteLines (compileP 0 0 [] (eraseP ss)) (lineTableP ss))[st.pc]? = some L := by
  obtain ⟨st', h1, h2, h3⟩ := fail_line_program fuel ss g L hf
  obtain ⟨r1, r2⟩ := runMachineL_stuck n _ _ hr
  rw [stuck_unique r1 r2 h1 h2]
  exact h3

/-! ## non-vacuity -/

/-- `1 +⏎ (2 / 0)`: the division on line 2 fails, not the addition on line 1 -/
def ex1 : LExpr := .bin 1 .add (.lit 1 (.int 1)) (.bin 2 .div (.lit 2 (.int 2)) (.lit 2 (.int 0)))
example : failLine [] ex1 = some 2 := by rfl
example : lineTable ex1 = [1, 2, 2, 2, 1] := by rfl
example : ∃ st, Steps (compile 0 0 (erase ex1)) (consts (erase ex1)) ⟨0, [], []⟩ st ∧
    step (compile 0 0 (erase ex1)) (consts (erase ex1)) st = none ∧
    lineAt (compile 0 0 (erase ex1)) (lineTable ex1) st.pc = some 2 := by
  obtain ⟨st, off, h1, h2, h3, _, _, h4⟩ := fail_line ex1 (compile 0 0 (erase ex1)) (consts (erase ex1)) 0 0 [] [] 2
    ⟨[], [], by simp, rfl⟩ ⟨[], [], by simp, rfl⟩ (by rfl)
  have : st.pc = off := by omega
  exact ⟨st, h1, h2, this ▸ h4⟩

/-- `if true {⏎ 'c' - 1 ⏎}`: the subtraction on line 2, inside the taken branch -/
def ex2 : LExpr := .ite 1 (.tru 1) (.bin 2 .sub (.lit 2 (.char 'c')) (.lit 2 (.int 1))) (.null 1)
example : failLine [] ex2 = some 2 := by rfl
example : lineTable ex2 = [1, 1, 2, 2, 2, 1, 1] := by rfl

/-- `1 <⏎ (null + 1)`: `<` evaluates its right operand first -/
def ex3 : LExpr := .lt 1 (.bin 1 .sub (.null 1) (.lit 1 (.int 1))) (.bin 2 .add (.null 2) (.lit 2 (.int 1)))
example : failLine [] ex3 = some 2 := by rfl

/-- ```
let i = 0;
while i < 5 {
  i = i + 1;
  10 / (3 - i);
}
``` fails on line 4, in the third iteration -/
def ex4 : List LStmt :=
  [.letG 1 0 (.lit 1 (.int 0)),
   .whileS 2 none (.lt 2 (.gget 2 0) (.lit 2 (.int 5)))
     [.expr 3 (.gset 3 0 (.bin 3 .add (.gget 3 0) (.lit 3 (.int 1)))),
      .expr 4 (.bin 4 .div (.lit 4 (.int 10)) (.bin 4 .sub (.lit 4 (.int 3)) (.gget 4 0)))]]
example : failLineP 30 [.null] ex4 = some 4 := by rfl
/-- two complete iterations precede the failure: with the globals after two iterations the
loop still fails, with those after three it would not even be entered … -/
example : evalP 30 [.int 2] (eraseP [ex4[1]]) = none ∧ failLineP 30 [.int 2] [ex4[1]] = some 4 := ⟨by rfl, by rfl⟩
example : ∃ st, Steps (compileP 0 0 [] (eraseP ex4)) (constsP (eraseP ex4)) ⟨0, [], [.null]⟩ st ∧
    step (compileP 0 0 [] (eraseP ex4)) (constsP (eraseP ex4)) st = none ∧
    (byteLines (compileP 0 0 [] (eraseP ex4)) (lineTableP ex4))[st.pc]? = some 4 :=
  fail_line_program 30 ex4 [.null] 4 (by rfl)
/-- the executable machine agrees: it is stuck at byte 37 (the `Div`), whose line is 4 -/
example : (match runMachineL (compileP 0 0 [] (eraseP ex4)) (constsP (eraseP ex4)) 200 ⟨0, [], [.null]⟩ with
    | .stuck st => some (st.pc, (byteLines (compileP 0 0 [] (eraseP ex4)) (lineTableP ex4))[st.pc]?)
    | _ => none) = some (37, some 4) := by rfl

/-- ```
let i = 0;
out: loop {
  i = i + 1;
  if i == 2 { continue out; }
  let r = match i {
    1 => 10,
    3 => 'a' - 1,
    _ => { break }
  };
}
``` is outside the fragment (a `break` inside a match arm); the variant below keeps the jumps
in statement position: the third round fails in the arm chosen for 3, on line 6 -/
def ex5 : List LStmt :=
  [.letG 1 0 (.lit 1 (.int 0)),
   .loopS 2 (some "out")
     [.expr 3 (.gset 3 0 (.bin 3 .add (.gget 3 0) (.lit 3 (.int 1)))),
      .ifS 4 4 (.bin 4 .equal (.gget 4 0) (.lit 4 (.int 2))) [.continueS 4 (some "out")] [],
      .expr 5 (.matchE 5 (.gget 5 0)
        (.cons 5 [.lit 5 (.int 1)] (.lit 5 (.int 10))
          (.cons 6 [.lit 6 (.int 3)] (.bin 6 .sub (.lit 6 (.char 'a')) (.lit 6 (.int 1)))
            (.last 7 7 (.null 7))))),
      .ifS 8 8 (.bin 8 .greater (.gget 8 0) (.lit 8 (.int 5))) [.breakS 8 none] []]]
example : failLineP 60 [.null] ex5 = some 6 := by rfl
example : ∃ st, Steps (compileP 0 0 [] (eraseP ex5)) (constsP (eraseP ex5)) ⟨0, [], [.null]⟩ st ∧
    step (compileP 0 0 [] (eraseP ex5)) (constsP (eraseP ex5)) st = none ∧
    (byteLines (compileP 0 0 [] (eraseP ex5)) (lineTableP ex5))[st.pc]? = some 6 :=
  fail_line_program 60 ex5 [.null] 6 (by rfl)
/-- `match "s" { 1 => 2, 3..⏎4 => 5 }`: the comparison of the range fails, on the line of its `..` -/
def ex6 : LExpr := .matchE 1 (.lit 1 (.str "s")) (.cons 1 [.lit 1 (.int 1)] (.lit 1 (.int 2)) (.cons 2 [.range 1 false (.int 3) (.int 4)] (.lit 2 (.int 5)) (.last 1 1 (.null 1))))
example : failLine [] ex6 = some 1 ∧ eval [] (erase ex6) = none := ⟨by rfl, by rfl⟩

end P2sh.Props.C13
