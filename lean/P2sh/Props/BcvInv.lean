import P2sh.Model.Bcv
import P2sh.Props.BcvWp
/-!
# The frame-stack invariant of checked code (definitions and the facts extracted from `Bcv.check`)
-/
namespace P2sh.Props.Bcv
open P2sh P2sh.Vm P2sh.Bcv P2sh.Code P2sh.Props.BcvWp

/-! ## one iteration of `VM::run` -/

def finish : Next → M Unit
  | .stay => pure ()
  | .advance => do
    let f' ← curFrame
    setIp (f'.ip + 1)

/-- the body of `runLoop`: `true` = go on, `false` = the current frame's code is exhausted (the run ends) -/
def tick : M Bool := do
  let f ← curFrame
  if f.ip < f.fn.code.length then do
    let op := opOfByte (f.fn.code.getD f.ip 0)
    match f.fn.lines[f.ip]? with
    | none => panicM "index out of bounds (lines)"
    | some line => do
      let nx ← step op f.fn.code f.ip line
      finish nx
      pure true
  else pure false

theorem exec_runLoop_succ (fuel : Nat) (s : St) :
    exec (runLoop (fuel + 1)) s = match exec tick s with
      | (.ok true, s') => exec (runLoop fuel) s'
      | (.ok false, s') => (.ok (), s')
      | (.error e, s') => (.error e, s') := by
  rw [runLoop, tick, exec_bind, exec_bind]
  cases hc : exec curFrame s with
  | mk r s1 =>
    cases r with
    | error e => rfl
    | ok f =>
      simp only []
      by_cases hlt : f.ip < f.fn.code.length
      · simp only [hlt, if_true]
        cases hl : f.fn.lines[f.ip]? with
        | none => simp only [panicM, exec_throw]
        | some line =>
          simp only []
          rw [exec_bind, exec_bind]
          cases hs : exec (step (opOfByte (f.fn.code.getD f.ip 0)) f.fn.code f.ip line) s1 with
          | mk r2 s2 =>
            cases r2 with
            | error e => rfl
            | ok nx =>
              cases nx with
              | stay => simp [finish, exec_bind]
              | advance =>
                simp only [finish, exec_bind]
                cases hc2 : exec curFrame s2 with
                | mk r3 s3 =>
                  cases r3 with
                  | error e => rfl
                  | ok f' =>
                    simp only []
                    cases hs3 : exec (setIp (f'.ip + 1)) s3 with
                    | mk r4 s4 => cases r4 <;> simp
      · simp [hlt]

/-! ## what an accepted function guarantees -/

theorem check_ok {consts : List Val} {kind : Bcv.Kind} {fn : FnDef} {sm : Summary} (h : check consts kind fn = .ok sm) :
    accept ⟨consts, kind, fn⟩ sm.heights = true ∧ fn.numLocals ≤ P2sh.Gen.Limits.STACK_SIZE ∧
      (kind = .main → fn.numLocals = 0) := by
  unfold check checkCx at h
  split at h
  · cases h
  · split at h
    · rename_i hacc
      cases h
      simp only [Bool.and_eq_true, decide_eq_true_eq] at hacc
      exact ⟨hacc.1.1, hacc.1.2, hacc.2⟩
    · cases h

theorem accept_entry {cx : Cx} {H : Heights} (h : accept cx H = true) : succOk cx H (0, 0) = true := by
  unfold accept at h
  simp only [Bool.and_eq_true] at h
  exact h.1

theorem accept_okAt {cx : Cx} {H : Heights} (h : accept cx H = true) {pc hh : Nat} (hpc : pc < cx.fn.code.length)
    (hH : hAt H pc = some hh) : okAt cx H pc hh = true := by
  unfold accept at h
  simp only [Bool.and_eq_true, List.all_eq_true, List.mem_range] at h
  have := h.2 pc hpc
  rw [hH] at this
  exact this

/-- the decoded instruction: what `instrAt = ok` says -/
theorem instrAt_ok {code : List Nat} {pc : Nat} {i : Instr} (h : instrAt code pc = .ok i) :
    ∃ ws, pc < code.length ∧ widthsOf (opOfByte (code.getD pc 0)) = some ws ∧ pc + 1 + ws.sum ≤ code.length ∧
      i.name = (P2sh.Gen.Opcodes.names[opOfByte (code.getD pc 0)]?).getD "Invalid" ∧ shapeOf i.name = some ws ∧
      i.ops = decodeOps code (pc + 1) ws ∧ i.len = 1 + ws.sum := by
  unfold instrAt at h
  split at h
  · cases h
  · rename_i hpc
    dsimp only at h
    split at h
    · cases h
    · rename_i ws hws
      split at h
      · cases h
      · rename_i hlen
        split at h
        · cases h
        · rename_i hshape
          cases h
          refine ⟨ws, by omega, hws, by omega, rfl, ?_, rfl, rfl⟩
          simpa using hshape

/-- what `okAt` says -/
theorem okAt_ok {cx : Cx} {H : Heights} {pc h : Nat} (hk : okAt cx H pc h = true) :
    pc < cx.fn.lines.length ∧ ∃ i succs, instrAt cx.fn.code pc = .ok i ∧ effect cx i pc h = .ok succs ∧
      ∀ p ∈ succs, succOk cx H p = true := by
  unfold okAt at hk
  simp only [Bool.and_eq_true, decide_eq_true_eq] at hk
  refine ⟨hk.1, ?_⟩
  have h2 := hk.2
  split at h2
  · cases h2
  · rename_i i hi
    split at h2
    · cases h2
    · rename_i succs hs
      exact ⟨i, succs, hi, hs, by simpa [List.all_eq_true] using h2⟩

/-! ## the invariant -/

/-- the kind of a frame is its position: the bottom frame runs the main code -/
def kindOf (rest : List Frame) : Bcv.Kind := if rest = [] then .main else .func

/-- frame `f` runs checked code and stands at an offset where the verifier computed height
`σ - f.bp - numLocals` (or, in the main code, at the end of the code with height 0) -/
def FrameAt (consts : List Val) (kind : Bcv.Kind) (f : Frame) (σ : Nat) : Prop :=
  ∃ sm h, check consts kind f.fn = .ok sm ∧ succOk ⟨consts, kind, f.fn⟩ sm.heights (f.ip, h) = true ∧
    σ = f.bp + f.fn.numLocals + h ∧ f.bp + f.fn.numLocals ≤ stackSize

/-- the suspended frames below a frame whose base pointer is `b`: each stands just after its `Call`, at the
height it will have when the callee has returned (`sp = b`) -/
def Below (consts : List Val) : List Frame → Nat → Prop
  | [], b => b = 0
  | f :: rest, b => 1 ≤ b ∧ FrameAt consts (kindOf rest) f b ∧ Below consts rest f.bp

structure Inv (consts : List Val) (s : St) : Prop where
  top : ∃ f rest, s.frames = f :: rest ∧ FrameAt consts (kindOf rest) f s.sp ∧ Below consts rest f.bp
  size : s.stack.size = stackSize
  globals : s.globals.size = P2sh.Gen.Limits.GLOBALS_SIZE
  consts : s.constants = consts.toArray

/-- a closure value that may be called: its code is checked, its captured vector is long enough -/
def ClosOk (consts : List Val) (h : Heap) (g : FnDef) (id : Nat) : Prop :=
  (∃ sm, check consts .func g = .ok sm) ∧ freeNeed g ≤ (h.getArr id).length

/-- **closure discipline** (what the store typing provides): every closure in a stack slot is callable, and
the captured vector of every running function frame is long enough -/
structure CD (consts : List Val) (s : St) : Prop where
  slots : ∀ i g fr id, s.stack.getD i .null = .clos g fr id → ClosOk consts s.heap g id
  frames : ∀ f rest, s.frames = f :: rest → rest ≠ [] → freeNeed f.fn ≤ (s.heap.getArr f.closId).length

end P2sh.Props.Bcv
