import P2sh.Props.BcvStep
/-! # Per-opcode lemmas, part 3: containers (`Array`, `Map`, `GetIndex`, `SetIndex`), `Closure`, `Call`, returns -/
namespace P2sh.Props.Bcv
open P2sh P2sh.Vm P2sh.Bcv P2sh.Code P2sh.Props.BcvWp

variable {consts : List Val} {s : St} {f : Frame} {rest : List Frame} {sm : Summary} {i : Instr} {ws : List Nat}
  {h : Nat} {succs : List (Nat × Nat)}

/-! ## `mapM` and heap-only computations -/

theorem wp_mapM {α β} (g : α → M β) (R : St → St → Prop) (hrefl : ∀ s, R s s)
    (htrans : ∀ a b c, R a b → R b c → R a c) (hg : ∀ x s, wp (g x) (fun _ s' => R s s') s) :
    ∀ (xs : List α) (s : St), wp (xs.mapM g) (fun _ s' => R s s') s := by
  intro xs
  induction xs with
  | nil => intro s; simp only [List.mapM_nil, wp_pure]; exact hrefl s
  | cons x xs ih =>
    intro s
    rw [List.mapM_cons]
    simp only [wp_bind, wp_pure]
    refine wp_mono (hg x s) ?_
    intro _ s1 h1
    refine wp_mono (ih s1) ?_
    intro _ s2 h2
    exact htrans _ _ _ h1 h2

/-- only the heap differs -/
def HeapOnly (s s' : St) : Prop := ∃ h', s' = { s with heap := h' }

theorem HeapOnly.refl (s : St) : HeapOnly s s := ⟨s.heap, rfl⟩
theorem HeapOnly.trans (a b c : St) (h1 : HeapOnly a b) (h2 : HeapOnly b c) : HeapOnly a c := by
  obtain ⟨h, rfl⟩ := h1; obtain ⟨h', rfl⟩ := h2; exact ⟨h', rfl⟩

theorem heapOnly_reifyM (v : Val) (s : St) : wp (reifyM v) (fun _ s' => HeapOnly s s') s := by
  rw [wp_reifyM]; exact HeapOnly.refl s
theorem heapOnly_reflectM (v : Val) (s : St) : wp (reflectM v) (fun _ s' => HeapOnly s s') s := by
  rw [wp_reflectM]; exact ⟨_, rfl⟩

/-! ## `execIndex` -/

theorem shape_execIndex (l ix : Val) (sv : Option Val) (line : Nat) (s : St) :
    wp (execIndex l ix sv line) (fun _ s' => Same s s' ∧ s'.sp = s.sp + 1) s := by
  unfold execIndex
  simp only [wp_bind, wp_get]
  split
  · simp only [wp_ite, wp_rtErr]
    split
    · trivial
    · split
      · trivial
      · split
        · simp only [wp_bind, wp_modify, wp_push]
          intro _
          simp [Same]
        · simp only [wp_push]
          intro _
          simp [Same]
  · simp only [wp_bind, wp_reifyM, wp_ite, wp_rtErr, wp_pure]
    split
    · trivial
    · refine wp_mono (wp_mapM _ (fun a b => HeapOnly a b) HeapOnly.refl HeapOnly.trans ?_ _ s) ?_
      · intro x s0
        simp only [wp_bind, wp_reifyM, wp_pure]
        exact HeapOnly.refl s0
      · intro rkvs s1 ⟨h1, hs1⟩
        subst hs1
        split
        · simp only [wp_bind, wp_modify, wp_push]
          intro _
          simp [Same]
        · simp only [wp_ite, wp_rtErr, wp_push]
          split
          · trivial
          · intro _
            simp [Same]
  · simp only [wp_rtErr]

theorem t_GetIndex (T : Top consts s f rest sm i ws h succs) (line : Nat) (hn : i.name = "GetIndex") : Goal consts s f line := by
  bcv_pre T hn
  obtain ⟨hp, rfl⟩ := simple_ok he
  apply goal_of T
  unfold step; simp only [hnm]
  simp only [wp_bind, wp_pop]
  intro h1 h2
  refine wp_mono (shape_execIndex _ _ _ _ _) ?_
  intro _ s' ⟨hs, hsp'⟩
  simp only [wp_pure]
  refine ⟨_, _, List.mem_singleton.mpr rfl, f.ip, rfl, moved_of_same hs hfr ?_⟩
  dsimp only at hsp' h2; omega

theorem t_SetIndex (T : Top consts s f rest sm i ws h succs) (line : Nat) (hn : i.name = "SetIndex") : Goal consts s f line := by
  bcv_pre T hn
  obtain ⟨hp, rfl⟩ := simple_ok he
  apply goal_of T
  unfold step; simp only [hnm]
  simp only [wp_bind, wp_pop]
  intro h1 h2 h3
  refine wp_mono (shape_execIndex _ _ _ _ _) ?_
  intro _ s' ⟨hs, hsp'⟩
  simp only [wp_pure]
  refine ⟨_, _, List.mem_singleton.mpr rfl, f.ip, rfl, moved_of_same hs hfr ?_⟩
  dsimp only at hsp' h2 h3; omega

/-! ## `Array`, `Map` -/

theorem t_Array (T : Top consts s f rest sm i ws h succs) (line : Nat) (hn : i.name = "Array") : Goal consts s f line := by
  bcv_pre T hn
  obtain ⟨hp, rfl⟩ := simple_ok he
  apply goal_of T
  unfold step; simp only [hnm]
  rw [wp_bind, wp_readU16 _ _ _ _ (by omega)]
  simp only [wp_bind, wp_get, wp_ite, wp_panicM, wp_pure, wp_set, wp_reflectM, wp_push, wp_setIp, withIp, hfr]
  rw [if_neg (by omega)]
  intro _
  refine ⟨_, _, List.mem_singleton.mpr rfl, f.ip + 2, by omega, rfl, ?_, by simp, rfl, rfl⟩
  dsimp only; omega

theorem shape_build (line : Nat) : ∀ (n : Nat) (xs : List Val) (acc racc : List (Val × Val)) (s : St), xs.length ≤ n →
    wp (step.build line xs acc racc) (fun _ s' => s' = s) s := by
  intro n
  induction n with
  | zero =>
    intro xs acc racc s hl
    have : xs = [] := List.length_eq_zero_iff.mp (by omega)
    subst this
    unfold step.build
    simp only [wp_pure]
  | succ n ih =>
    intro xs acc racc s hl
    match xs with
    | [] => unfold step.build; simp only [wp_pure]
    | [k] =>
      unfold step.build
      simp only [wp_bind, wp_reifyM, wp_ite, wp_rtErr, wp_pure]
      split <;> trivial
    | k :: v :: rest' =>
      unfold step.build
      simp only [wp_bind, wp_reifyM, wp_ite, wp_rtErr, wp_pure]
      split
      · trivial
      · exact ih _ _ _ _ (by simp only [List.length_cons] at hl; omega)

theorem t_Map (T : Top consts s f rest sm i ws h succs) (line : Nat) (hn : i.name = "Map") : Goal consts s f line := by
  bcv_pre T hn
  obtain ⟨hp, rfl⟩ := simple_ok he
  apply goal_of T
  unfold step; simp only [hnm]
  rw [wp_bind, wp_readU16 _ _ _ _ (by omega)]
  simp only [wp_bind, wp_get, wp_ite, wp_panicM, wp_pure]
  rw [if_neg (by omega)]
  refine wp_mono (shape_build line _ _ _ _ s (Nat.le_refl _)) ?_
  intro pairs s' hs'
  subst hs'
  simp only [wp_bind, wp_modify, wp_get, wp_set, wp_push, wp_setIp, withIp, hfr, wp_pure]
  intro _
  refine ⟨_, _, List.mem_singleton.mpr rfl, f.ip + 2, by omega, rfl, ?_, by simp, rfl, rfl⟩
  dsimp only; omega

/-! ## `Closure` -/

theorem t_Closure (T : Top consts s f rest sm i ws h succs) (line : Nat) (hn : i.name = "Closure") : Goal consts s f line := by
  bcv_pre T hn
  split at he
  case h_2 => cases he
  case h_3 => cases he
  rename_i g hg
  split at he
  case isFalse => cases he
  obtain ⟨hp, rfl⟩ := simple_ok he
  have hc := T.inv.consts
  have e3 : f.ip + 1 + 2 = f.ip + 3 := rfl
  rename_i hfn
  rw [e3] at hp hfn T
  apply goal_of T
  unfold step; simp only [hnm]
  rw [wp_bind, wp_readU16 _ _ _ _ (by omega), wp_bind, wp_readU8 _ _ _ _ (by omega)]
  simp only [wp_bind, wp_get]
  have hcs : s.constants[f.fn.code.getD (f.ip + 1) 0 * 256 + f.fn.code.getD (f.ip + 1 + 1) 0]? = some (.func g) := by
    rw [hc]; simpa using hg
  rw [hcs]
  simp only [wp_ite, wp_panicM, wp_bind, wp_pure, wp_set, wp_push, wp_setIp, withIp, hfr]
  rw [if_neg (by omega)]
  intro _
  refine ⟨_, _, List.mem_singleton.mpr rfl, f.ip + 3, by omega, rfl, ?_, by simp, rfl, rfl⟩
  dsimp only; omega

/-! ## returns -/

theorem below_cons {r : Frame} {rest' : List Frame} {b : Nat} (hb : Below consts (r :: rest') b) :
    1 ≤ b ∧ FrameAt consts (kindOf rest') r b ∧ Below consts rest' r.bp := hb

theorem kindOf_main {rest : List Frame} (hk : ¬ kindOf rest = .main) : ∃ r rest', rest = r :: rest' := by
  cases rest with
  | nil => exact absurd rfl hk
  | cons r rest' => exact ⟨r, rest', rfl⟩

theorem inv_return (T : Top consts s f rest sm i ws h succs) (hk : ¬ kindOf rest = .main) {s' : St}
    (hfr' : s'.frames = rest) (hsp' : s'.sp = f.bp) (hsz : s'.stack.size = s.stack.size)
    (hg : s'.globals.size = s.globals.size) (hc : s'.constants = s.constants) : Inv consts s' := by
  obtain ⟨r, rest', rfl⟩ := kindOf_main hk
  obtain ⟨_, hfa, hbl⟩ := below_cons T.below
  refine ⟨⟨r, rest', hfr', ?_, hbl⟩, ?_, ?_, ?_⟩
  · rw [hsp']; exact hfa
  · rw [hsz]; exact T.inv.size
  · rw [hg]; exact T.inv.globals
  · rw [hc]; exact T.inv.consts

theorem t_ReturnValue (T : Top consts s f rest sm i ws h succs) (line : Nat) (hn : i.name = "ReturnValue") :
    Goal consts s f line := by
  bcv_pre T hn
  split at he
  case isTrue => cases he
  rename_i hk
  split at he
  case isFalse => cases he
  obtain ⟨r, rest', hr⟩ := kindOf_main hk
  have hb1 : 1 ≤ f.bp := by
    have := T.below; rw [hr] at this; exact (below_cons this).1
  unfold Goal step; simp only [hnm]
  simp only [wp_bind, wp_pop, wp_get, hfr, wp_ite, wp_panicM, wp_set, wp_push, wp_pure, finish]
  intro _
  rw [if_neg (by omega)]
  intro _
  exact inv_return T hk rfl (by dsimp only; omega) (by simp) rfl rfl

theorem t_Return (T : Top consts s f rest sm i ws h succs) (line : Nat) (hn : i.name = "Return") :
    Goal consts s f line := by
  bcv_pre T hn
  split at he
  case isTrue => cases he
  rename_i hk
  obtain ⟨r, rest', hr⟩ := kindOf_main hk
  have hb1 : 1 ≤ f.bp := by
    have := T.below; rw [hr] at this; exact (below_cons this).1
  unfold Goal step; simp only [hnm]
  simp only [wp_bind, wp_get, hfr, wp_ite, wp_panicM, wp_set, wp_push, wp_pure, finish]
  rw [if_neg (by omega)]
  intro _
  exact inv_return T hk rfl (by dsimp only; omega) (by simp) rfl rfl

end P2sh.Props.Bcv
