import P2sh.Model.Proto
import P2sh.Spec.Rfc
import P2sh.Props.C15
import P2sh.Props.C16Path
import P2sh.Props.C17More
/-!
# C17 on the packet — one assignment, then the bytes written out

C17 / C17More speak about one HEADER.  Here the statement is about the PACKET model (`Pkt`, `access`, `walk`, `descend`,
`setProp`, `ser`): a fresh packet over a well-formed frame, ONE assignment `pkt.<names>.p = v` or `$n.<names>.p = v`,
where the layer names lead the REFERENCE cursor (`Rfc.cursorAt names (Rfc.headCur hd)`) to layer `l` at byte `s`.

* `set_then_serialise_hdr` — any accepted assignment to a property of that layer (numbers, flags, addresses): the
  statement yields the value; the packet serialises to record header ++ frame[..s] ++ new header bytes ++ frame[end of
  header..]: no byte outside the layer's own header moves.  (Proof: the cache tree after the assignment and the cache
  tree after READING the same path have the same spine, `C16.Spine`; the read tree writes the captured bytes,
  `C15.bytes_of_root`; `C15.ser_exact` places the header.)
* `set_then_serialise` — **(1)**: for a numeric field with `Rfc.layout l p = (o, w)`: the serialisation is record header ++
  `Rfc.setBits frame (8·s + o) w n`, `n < 2^w` the value the getter now returns: exactly the field's bit range is
  replaced (`set_bytes_local`, `setBits_frame`).  Structural fields included.  `set_then_serialise_in_range`: for an
  integer within the width the assignment is accepted and `n` is that integer.
* `set_then_reparse_packet` — **(2a)**: after serialise + re-parse the packet IS the fresh packet over the patched frame
  (record header within 32 bits).  What reads on it yield is then `C16.named_path_reads_reference` on the patched
  frame; that the layering of the patched frame is the old one for non-structural fields (so "every other property
  reads as before") is NOT proved here — see the report.
* `set_then_read` — the immediate read-back THROUGH THE PACKET (same head and layer names, no re-parse): the assigned
  field reads `n`, the same `n` whose bits stand in the serialisation, and every other field of that layer reads what
  it read on the untouched packet (`set_frame`; the alias `tcp.len` / `tcp.dataoff` excepted).  Uses the re-walk clause
  of `C16.access_spine`: walking the same names over the cache the assignment left reaches the assigned header.
* `mac_set_then_serialise_partial`, `v4_set_then_serialise_partial`, `v6_set_then_serialise_partial` — **(3)**, partial:
  an address assigned from any text `from_str` accepts rewrites only the header's bytes, to a header that re-parses to
  itself and reads the text of the parsed address (`*_assign_addr`); the read through the re-parsed packet is not stated.

Not covered: the record layer itself (`pkt.caplen = …`, little-endian: `pcap_set_bytes_local` is the header statement).
-/
namespace P2sh.Props.C17
open P2sh P2sh.Proto P2sh.Spec
open P2sh.Props.C16 (hdrLayer parseAs Stands Parsed headOf specState kindLayer Spine IsLayer)

theorem parseLayer_bounds (raw : List Nat) (kind : LayerKind) (s : Nat) (h : Hdr) (off : Nat) (inner : Obj)
    (hp : parseLayer raw kind s = .layer h off inner) :
    s + Rfc.fixedSize (kindLayer kind) ≤ off ∧ off ≤ raw.length ∧ inner = .none := by
  cases kind <;> simp only [parseLayer] at hp <;> (repeat' split at hp) <;> cases hp <;>
    refine ⟨?_, ?_, rfl⟩ <;> (try simp only [kindLayer, Rfc.fixedSize, Ipv4Hdr.hdrLen, TcpHdr.hdrLen] at *) <;> omega

/-- the header `from_bytes` built at `s` serialises to the captured bytes between `s` and its payload offset -/
theorem target_bytes (raw : List Nat) (hw : wf raw) (kind : LayerKind) (s : Nat) (h : Hdr) (off : Nat)
    (hp : parseLayer raw kind s = .layer h off .none) : h.toBytes ++ raw.drop off = raw.drop s := by
  have h1 := C15.ser_exact raw hw (.layer h off .none) s h off .none rfl ⟨⟨kind, hp⟩, trivial⟩
  have h2 : ser raw (.layer h off .none) = h.toBytes ++ raw.drop off := by cases h <;> simp [ser]
  rw [← h2, h1]

theorem layout_field (l : Rfc.Layer) (p : PP) (o w : Nat) (hlay : Rfc.layout l p = some (o, w)) :
    Rfc.Layer.propOf p = none ∧ p ≠ .payload ∧ (l ≠ .record → o + w ≤ 8 * Rfc.fixedSize l) := by
  cases l <;> cases p <;> simp [Rfc.layout] at hlay <;> obtain ⟨rfl, rfl⟩ := hlay <;>
    simp [Rfc.Layer.propOf, Rfc.fixedSize]

theorem layerProp_none (h : Hdr) (p : PP) (hp : Rfc.Layer.propOf p = none) : layerProp h p = none := by
  cases h <;> cases p <;> simp [Rfc.Layer.propOf] at hp <;> rfl

theorem getProp_field_tree (raw : List Nat) (p : PP) (k : Obj → Obj × StepOut) (last : Bool) (h : Hdr) (off : Nat)
    (inner : Obj) (hp : layerProp h p = none) : (getProp raw p k last (.layer h off inner)).1 = .layer h off inner := by
  simp only [getProp, hp]
  split <;> rfl


/-- the target of a path of layer names: its object, header, payload offset, and the bytes around it -/
theorem target_object (raw : List Nat) (hw : wf raw) (o' : Obj) (l : Rfc.Layer) (s d : Nat) (e : List Nat)
    (hl : l ≠ .record) (hst : Stands raw o' (.at l s d e)) (hpa : Parsed raw o' (.at l s d e)) :
    o' = .layer (parseAs l (rd raw s)) (s + Rfc.headerLen raw l s) .none ∧
    s + Rfc.fixedSize l ≤ s + Rfc.headerLen raw l s ∧ s + Rfc.headerLen raw l s ≤ raw.length ∧
    (parseAs l (rd raw s)).toBytes ++ raw.drop (s + Rfc.headerLen raw l s) = raw.drop s := by
  rcases hst with ⟨hr, _⟩ | ⟨_, ho⟩
  · exact absurd hr hl
  · rcases hpa with hr | ⟨kind, hk, hp⟩
    · exact absurd hr hl
    · rw [ho] at hp
      obtain ⟨b1, b2, _⟩ := parseLayer_bounds raw kind s _ _ _ hp.symm
      rw [hk] at b1
      exact ⟨ho, b1, b2, target_bytes raw hw kind s _ _ hp.symm⟩

/-- **one accepted assignment to a property of a layer, seen in the bytes written out**: for a fresh packet over a
well-formed frame and an assignment `pkt.<names>.p = v` / `$n.<names>.p = v` whose names lead the reference cursor to
layer `l` at byte `s`, if the header's setter accepts the value (new header `h1`), the statement yields the value and
the packet serialises to the record header, the captured bytes before `s`, the bytes of `h1`, and the captured bytes
after the header: nothing outside the header's own bytes moves -/
theorem set_then_serialise_hdr (ph : PcapHdr) (raw : List Nat) (hw : wf raw) (hd : Head) (names : List PP) (p : PP) (v : Val)
    (l : Rfc.Layer) (s d : Nat) (e : List Nat)
    (hcur : Rfc.cursorAt (specState ph raw) names (Rfc.headCur (specState ph raw) (headOf hd)) = .at l s d e)
    (hl : l ≠ .record) (hfield : Rfc.Layer.propOf p = none) (hpay : p ≠ .payload) (h1 : Hdr)
    (hs : (parseAs l (rd raw s)).set p (toSetVal v) = some h1) :
    (access raw (Pkt.new ph raw).root hd (names ++ [p]) (some v)).2 = .ok v ∧
    ser raw (access raw (Pkt.new ph raw).root hd (names ++ [p]) (some v)).1 =
      ph.toBytes ++ (raw.take s ++ h1.toBytes ++ raw.drop (s + Rfc.headerLen raw l s)) := by
  obtain ⟨o', hst, hpa, hout, hsp, -⟩ := C16.access_spine ph raw hw hd names p [] l s d e hcur
  obtain ⟨ho, b1, b2, hb⟩ := target_object raw hw o' l s d e hl hst hpa
  have hlp := layerProp_none (parseAs l (rd raw s)) p hfield
  have hset : walk raw (some v) [p] o' = (.layer h1 (s + Rfc.headerLen raw l s) .none, .ok v) := by
    rw [ho]; simp [walk, setProp, hlp, hpay, hs]
  have hget : (walk raw none [p] o').1 = o' := by
    rw [ho]; simp only [walk]; exact getProp_field_tree raw p _ true _ _ _ hlp
  refine ⟨by rw [hout, hset], ?_⟩
  have sp := hsp (some v) none
  rw [hset, hget] at sp
  obtain ⟨pre, e1, e2⟩ := C16.ser_spine raw sp trivial (by rw [ho]; trivial)
  -- the tree of the read serialises to the captured bytes
  have hread : ser raw (access raw (Pkt.new ph raw).root hd (names ++ [p]) none).1 = ph.toBytes ++ raw :=
    C15.bytes_of_root raw hw ph _ (C15.access_root raw ph hd _ _ ⟨.none, rfl, trivial⟩)
  have hso : ser raw o' = raw.drop s := by
    rw [ho]
    have : ser raw (.layer (parseAs l (rd raw s)) (s + Rfc.headerLen raw l s) .none) =
        (parseAs l (rd raw s)).toBytes ++ raw.drop (s + Rfc.headerLen raw l s) := by
      cases (parseAs l (rd raw s)) <;> simp [ser]
    rw [this, hb]
  have hs1 : ser raw (.layer h1 (s + Rfc.headerLen raw l s) .none) = h1.toBytes ++ raw.drop (s + Rfc.headerLen raw l s) := by
    cases h1 <;> simp [ser]
  rw [e2, hso] at hread
  have hpre : pre = ph.toBytes ++ raw.take s := by
    have : pre ++ raw.drop s = (ph.toBytes ++ raw.take s) ++ raw.drop s := by
      rw [hread, List.append_assoc, List.take_append_drop]
    exact List.append_cancel_right this
  rw [e1, hs1, hpre]
  simp [List.append_assoc]

theorem bytesOk_take (raw : List Nat) (hw : wf raw) (n : Nat) : bytesOk (raw.take n) :=
  fun x hx => hw x (List.mem_of_mem_take hx)

theorem bytesOk_drop (raw : List Nat) (hw : wf raw) (n : Nat) : bytesOk (raw.drop n) :=
  fun x hx => hw x (List.mem_of_mem_drop hx)

/-- **C17 on the packet, (1): one assignment of a numeric field, then the bytes.**  For a fresh packet over a well-formed
frame and one assignment `pkt.<names>.p = v` or `$n.<names>.p = v` of a numeric field `p` (bit range `(o, w)` of
`Rfc.layout`) of the layer `l` the names lead to (reference cursor at byte `s`), accepted by the setter: the statement
yields `v`, the field then holds some `n < 2^w` (the reduced value, see `set_then_serialise_value`), and the packet
serialises to the record header followed by the captured frame with exactly the bits `8·s + o … 8·s + o + w` replaced by
`n` — `Rfc.setBits`, the patch the reference state applies.  Structural fields included: this is about the bytes only. -/
theorem set_then_serialise (ph : PcapHdr) (raw : List Nat) (hw : wf raw) (hd : Head) (names : List PP) (p : PP) (v : Val)
    (l : Rfc.Layer) (s d : Nat) (e : List Nat) (o w : Nat)
    (hcur : Rfc.cursorAt (specState ph raw) names (Rfc.headCur (specState ph raw) (headOf hd)) = .at l s d e)
    (hl : l ≠ .record) (hlay : Rfc.layout l p = some (o, w)) (hk : Rfc.kindOf l p = .num) (h1 : Hdr)
    (hs : (parseAs l (rd raw s)).set p (toSetVal v) = some h1) :
    ∃ n, n < 2 ^ w ∧ h1.get p = some (.num n) ∧
      ((Pkt.new ph raw).run [.set hd (names ++ [p]) v]).2 = [.ok v] ∧
      ((Pkt.new ph raw).run [.set hd (names ++ [p]) v]).1.bytes = ph.toBytes ++ Rfc.setBits raw (8 * s + o) w n := by
  obtain ⟨hfield, hpay, hwithin⟩ := layout_field l p o w hlay
  obtain ⟨hout, hser⟩ := set_then_serialise_hdr ph raw hw hd names p v l s d e hcur hl hfield hpay h1 hs
  obtain ⟨o', hst, hpa, -, -, -⟩ := C16.access_spine ph raw hw hd names p [] l s d e hcur
  obtain ⟨-, b1, b2, hb⟩ := target_object raw hw o' l s d e hl hst hpa
  have hL : hdrLayer (parseAs l (rd raw s)) = l := C16.hdrLayer_parseAs l _
  obtain ⟨n, hget, hn, hbytes⟩ := set_bytes_local (parseAs l (rd raw s)) h1 (parse_wf l _ (rd_lt hw s)) p o w (toSetVal v)
    (by rw [hL]; exact hl) (by rw [hL]; exact hlay) (by rw [hL]; exact hk) hs
  refine ⟨n, hn, hget, ?_, ?_⟩
  · simp [Pkt.run, Pkt.step, Pkt.new, StepOut.toOut] at hout ⊢
    rw [hout]
  · have hlen : ((parseAs l (rd raw s)).toBytes).length = Rfc.headerLen raw l s := by
      have := congrArg List.length hb
      simp only [List.length_append, List.length_drop] at this
      omega
    have hraw : raw.take s ++ (parseAs l (rd raw s)).toBytes ++ raw.drop (s + Rfc.headerLen raw l s) = raw := by
      rw [List.append_assoc, hb, List.take_append_drop]
    have hA : bytesOk (parseAs l (rd raw s)).toBytes := by
      intro x hx
      have : x ∈ raw.drop s := by rw [← hb]; exact List.mem_append_left _ hx
      exact hw x (List.mem_of_mem_drop this)
    have hts : (raw.take s).length = s := by simp; omega
    have hfr := setBits_frame (raw.take s) (parseAs l (rd raw s)).toBytes h1.toBytes (raw.drop (s + Rfc.headerLen raw l s)) o w n
      (bytesOk_take raw hw s) hA (bytesOk_drop raw hw _) (by rw [hbytes, setBits_length])
      (by rw [hlen]; have := hwithin hl; omega) hbytes.symm
    rw [hraw, hts] at hfr
    have : ((Pkt.new ph raw).run [.set hd (names ++ [p]) v]).1.bytes =
        ser raw (access raw (Pkt.new ph raw).root hd (names ++ [p]) (some v)).1 := by
      simp [Pkt.run, Pkt.step, Pkt.new, Pkt.bytes]
    rw [this, hser, hfr]


/-- **(1) for an integer within the field's width**: accepted without further hypothesis, the field holds exactly that
integer, and exactly the field's bits of the written frame hold it -/
theorem set_then_serialise_in_range (ph : PcapHdr) (raw : List Nat) (hw : wf raw) (hd : Head) (names : List PP) (p : PP)
    (i : Int64) (l : Rfc.Layer) (s d : Nat) (e : List Nat) (o w : Nat)
    (hcur : Rfc.cursorAt (specState ph raw) names (Rfc.headCur (specState ph raw) (headOf hd)) = .at l s d e)
    (hl : l ≠ .record) (hlay : Rfc.layout l p = some (o, w)) (hk : Rfc.kindOf l p = .num)
    (hro : Rfc.readOnly l p = false) (h0 : 0 ≤ i.toInt) (h1 : i.toInt < (2 ^ w : Nat)) :
    ((Pkt.new ph raw).run [.set hd (names ++ [p]) (.int i)]).2 = [.ok (.int i)] ∧
    ((Pkt.new ph raw).run [.set hd (names ++ [p]) (.int i)]).1.bytes =
      ph.toBytes ++ Rfc.setBits raw (8 * s + o) w i.toInt.toNat := by
  have hL : hdrLayer (parseAs l (rd raw s)) = l := C16.hdrLayer_parseAs l _
  have hsg := set_get_in_range (parseAs l (rd raw s)) p o w i.toInt (by rw [hL]; exact hlay) (by rw [hL]; exact hk)
    (by rw [hL]; exact hro) h0 h1
  cases hset : (parseAs l (rd raw s)).set p (.int i.toInt) with
  | none => rw [hset] at hsg; cases hsg
  | some hd1 =>
    rw [hset] at hsg
    simp only [Option.bind_some] at hsg
    obtain ⟨n, -, hget, hout, hbytes⟩ := set_then_serialise ph raw hw hd names p (.int i) l s d e o w hcur hl hlay hk hd1 hset
    rw [hsg] at hget
    cases hget
    exact ⟨hout, hbytes⟩

/-- **(2a) after serialise + re-parse the packet is the fresh packet over the patched frame** -/
theorem set_then_reparse_packet (ph : PcapHdr) (hfit : C15.PcapHdr.fits ph) (raw : List Nat) (hw : wf raw) (hd : Head)
    (names : List PP) (p : PP) (v : Val) (l : Rfc.Layer) (s d : Nat) (e : List Nat) (o w : Nat)
    (hcur : Rfc.cursorAt (specState ph raw) names (Rfc.headCur (specState ph raw) (headOf hd)) = .at l s d e)
    (hl : l ≠ .record) (hlay : Rfc.layout l p = some (o, w)) (hk : Rfc.kindOf l p = .num) (h1 : Hdr)
    (hs : (parseAs l (rd raw s)).set p (toSetVal v) = some h1) :
    ∃ n, n < 2 ^ w ∧ h1.get p = some (.num n) ∧
      ((Pkt.new ph raw).run [.set hd (names ++ [p]) v, .reparse]).1 = Pkt.new ph (Rfc.setBits raw (8 * s + o) w n) := by
  obtain ⟨n, hn, hget, -, hbytes⟩ := set_then_serialise ph raw hw hd names p v l s d e o w hcur hl hlay hk h1 hs
  refine ⟨n, hn, hget, ?_⟩
  have hrun : ((Pkt.new ph raw).run [.set hd (names ++ [p]) v, .reparse]).1 =
      ((Pkt.new ph raw).run [.set hd (names ++ [p]) v]).1.reparse := by
    simp [Pkt.run, Pkt.step]
  rw [hrun]
  simp only [Pkt.reparse, hbytes, C15.pcap_reparse ph hfit]
  have hd16 : (ph.toBytes ++ Rfc.setBits raw (8 * s + o) w n).drop 16 = Rfc.setBits raw (8 * s + o) w n := by
    rw [← C15.pcap_toBytes_length ph]; simp
  rw [hd16]

/-- `pkt.eth.ipv4.ttl = 5` and `$2.tcp.winsize = 513` on the Ethernet + IPv4 + TCP frame: byte 22 resp. bytes 48–49 change -/
example :
    ((Pkt.new (rec0 tcpFrame) tcpFrame).run [.set .pkt [.eth, .ipv4, .ttl] (.int 5)]).1.bytes =
      (rec0 tcpFrame).toBytes ++ Rfc.setBits tcpFrame (8 * 14 + 64) 8 5 :=
  (set_then_serialise_in_range (rec0 tcpFrame) tcpFrame (by unfold wf; decide) .pkt [.eth, .ipv4] .ttl 5 .ipv4 14 2 [56] 64 8
    (by rfl) (by decide) rfl rfl rfl (by decide) (by decide)).2

example :
    ((Pkt.new (rec0 tcpFrame) tcpFrame).run [.set (.dollar 2) [.tcp, .winsize] (.int 513)]).1.bytes =
      (rec0 tcpFrame).toBytes ++ Rfc.setBits tcpFrame (8 * 34 + 112) 16 513 :=
  (set_then_serialise_in_range (rec0 tcpFrame) tcpFrame (by unfold wf; decide) (.dollar 2) [.tcp] .winsize 513 .tcp 34 3 [56] 112 16
    (by rfl) (by decide) rfl rfl rfl (by decide) (by decide)).2

example : Rfc.setBits tcpFrame (8 * 14 + 64) 8 5 = tcpFrame.take 22 ++ [5] ++ tcpFrame.drop 23 ∧
    Rfc.setBits tcpFrame (8 * 34 + 112) 16 513 = tcpFrame.take 48 ++ [2, 1] ++ tcpFrame.drop 50 := by decide


/-! ## reading back through the packet, before any re-parse -/

theorem read_field_out (raw : List Nat) (q : PP) (h : Hdr) (off : Nat) (inner : Obj)
    (hq : Rfc.Layer.propOf q = none) (hpay : q ≠ .payload) :
    (walk raw none [q] (.layer h off inner)).2 = match h.get q with | some fv => .ok fv.toVal | none => .rterr := by
  simp only [walk, getProp, layerProp_none h q hq, hpay, if_false]
  cases h.get q <;> rfl

/-- **one assignment, then reads of the same layer through the packet** (no re-parse in between): the assigned numeric
field reads the reduced value `n` — the same `n` whose bits stand in the serialisation — and every other field of that
layer (apart from the documented alias `tcp.len` / `tcp.dataoff`) reads what it read on the untouched packet -/
theorem set_then_read (ph : PcapHdr) (raw : List Nat) (hw : wf raw) (hd : Head) (names : List PP) (p : PP) (v : Val)
    (l : Rfc.Layer) (s d : Nat) (e : List Nat) (o w : Nat)
    (hcur : Rfc.cursorAt (specState ph raw) names (Rfc.headCur (specState ph raw) (headOf hd)) = .at l s d e)
    (hl : l ≠ .record) (hlay : Rfc.layout l p = some (o, w)) (hk : Rfc.kindOf l p = .num) (h1 : Hdr)
    (hs : (parseAs l (rd raw s)).set p (toSetVal v) = some h1) :
    ∃ n, n < 2 ^ w ∧
      ((Pkt.new ph raw).run [.set hd (names ++ [p]) v]).1.bytes = ph.toBytes ++ Rfc.setBits raw (8 * s + o) w n ∧
      ((Pkt.new ph raw).run [.set hd (names ++ [p]) v, .get hd (names ++ [p])]).2 = [.ok v, .ok (numVal n)] ∧
      ∀ q, q ≠ p → (¬(p = .dataoff ∧ q = .len) ∧ ¬(p = .len ∧ q = .dataoff)) → Rfc.Layer.propOf q = none → q ≠ .payload →
        ((Pkt.new ph raw).run [.set hd (names ++ [p]) v, .get hd (names ++ [q])]).2 =
          .ok v :: ((Pkt.new ph raw).run [.get hd (names ++ [q])]).2 := by
  obtain ⟨n, hn, hget, -, hbytes⟩ := set_then_serialise ph raw hw hd names p v l s d e o w hcur hl hlay hk h1 hs
  obtain ⟨hfield, hpay, -⟩ := layout_field l p o w hlay
  obtain ⟨o', hst, hpa, hout, -, hagain⟩ := C16.access_spine ph raw hw hd names p [] l s d e hcur
  obtain ⟨ho, -, -, -⟩ := target_object raw hw o' l s d e hl hst hpa
  have hlp := layerProp_none (parseAs l (rd raw s)) p hfield
  have hset : walk raw (some v) [p] o' = (.layer h1 (s + Rfc.headerLen raw l s) .none, .ok v) := by
    rw [ho]; simp [walk, setProp, hlp, hpay, hs]
  have hlayer : IsLayer (walk raw (some v) [p] o').1 := by rw [hset]; trivial
  have hrun2 : ∀ q, ((Pkt.new ph raw).run [.set hd (names ++ [p]) v, .get hd (names ++ [q])]).2 =
      [(access raw (Pkt.new ph raw).root hd (names ++ [p]) (some v)).2.toOut,
       (access raw (access raw (Pkt.new ph raw).root hd (names ++ [p]) (some v)).1 hd (names ++ [q]) none).2.toOut] := by
    intro q; simp [Pkt.run, Pkt.step, Pkt.new]
  refine ⟨n, hn, hbytes, ?_, ?_⟩
  · rw [hrun2, hout, hagain (some v) none p [] hlayer, hset, read_field_out raw p _ _ _ hfield hpay, hget]
    rfl
  · intro q hqp halias hq hqpay
    have hrun1 : ((Pkt.new ph raw).run [.get hd (names ++ [q])]).2 =
        [(access raw (Pkt.new ph raw).root hd (names ++ [q]) none).2.toOut] := by
      simp [Pkt.run, Pkt.step, Pkt.new]
    obtain ⟨o2, hst2, hpa2, hout2, -, -⟩ := C16.access_spine ph raw hw hd names q [] l s d e hcur
    obtain ⟨ho2, -, -, -⟩ := target_object raw hw o2 l s d e hl hst2 hpa2
    rw [hrun2, hrun1, hout, hagain (some v) none q [] hlayer, hset, hout2, ho2,
      read_field_out raw q _ _ _ hq hqpay, read_field_out raw q _ _ _ hq hqpay,
      set_frame _ _ p q _ hs hqp halias]
    rfl

/-- `pkt.eth.ipv4.ttl = 5` on the sample frame: the setter accepts (so the hypothesis `hs` is satisfiable), and the
script `ttl = 5; ttl; proto` reads 5 and the old protocol number 6 -/
example : ((parseAs .ipv4 (rd tcpFrame 14)).set .ttl (toSetVal (.int 5))).isSome = true ∧
    ((Pkt.new (rec0 tcpFrame) tcpFrame).run [.set .pkt [.eth, .ipv4, .ttl] (.int 5), .get .pkt [.eth, .ipv4, .ttl],
      .get .pkt [.eth, .ipv4, .proto]]).2.map numOf = [some 5, some 5, some 6] := by decide

example (h1 : Hdr) (hs : (parseAs .ipv4 (rd tcpFrame 14)).set .ttl (toSetVal (.int 5)) = some h1) :
    ∃ n, n < 2 ^ 8 ∧
      ((Pkt.new (rec0 tcpFrame) tcpFrame).run [.set .pkt ([.eth, .ipv4] ++ [.ttl]) (.int 5)]).1.bytes =
        (rec0 tcpFrame).toBytes ++ Rfc.setBits tcpFrame (8 * 14 + 64) 8 n ∧
      ((Pkt.new (rec0 tcpFrame) tcpFrame).run [.set .pkt ([.eth, .ipv4] ++ [.ttl]) (.int 5), .get .pkt ([.eth, .ipv4] ++ [.ttl])]).2 =
        [.ok (.int 5), .ok (numVal n)] := by
  obtain ⟨n, a, b, c, -⟩ := set_then_read (rec0 tcpFrame) tcpFrame (by unfold wf; decide) .pkt [.eth, .ipv4] .ttl (.int 5) .ipv4 14 2 [56] 64 8
    (by rfl) (by decide) rfl rfl h1 hs
  exact ⟨n, a, b, c⟩

/-! ## (3) addresses assigned from text, on the packet

`_partial`: the bytes written are stated for the packet; "reads back as the text of the address, other properties as
before" is stated for the header re-parsed from the bytes it wrote (the `*_assign_addr` theorems), not yet for a read
through the re-parsed packet. -/

theorem isAddr_field (p : PP) (hp : isAddr p) : Rfc.Layer.propOf p = none ∧ p ≠ .payload := by
  rcases hp with rfl | rfl <;> exact ⟨rfl, by decide⟩

theorem run_set_one (ph : PcapHdr) (raw : List Nat) (hd : Head) (path : List PP) (v : Val) :
    ((Pkt.new ph raw).run [.set hd path v]).2 = [(access raw (Pkt.new ph raw).root hd path (some v)).2.toOut] ∧
    ((Pkt.new ph raw).run [.set hd path v]).1.bytes = ser raw (access raw (Pkt.new ph raw).root hd path (some v)).1 := by
  simp [Pkt.run, Pkt.step, Pkt.new, Pkt.bytes]

/-- **MAC address assigned from text on the packet**: accepted for every text `from_str` accepts; only the fourteen
bytes of the Ethernet header are rewritten, to a header that re-parses to itself, reads the text of the parsed address
at `p` and everything else as before -/
theorem mac_set_then_serialise_partial (ph : PcapHdr) (raw : List Nat) (hw : wf raw) (hd : Head) (names : List PP) (p : PP)
    (hp : isAddr p) (t : String) (a : List Nat) (ht : Proto.parseMac t.toList = some a) (s d : Nat) (e : List Nat)
    (hcur : Rfc.cursorAt (specState ph raw) names (Rfc.headCur (specState ph raw) (headOf hd)) = .at .ethernet s d e) :
    ∃ h' : EthHdr, (EthHdr.parse (rd raw s)).set p (.str t.toList) = some h' ∧
      ((Pkt.new ph raw).run [.set hd (names ++ [p]) (.str t)]).2 = [.ok (.str t)] ∧
      ((Pkt.new ph raw).run [.set hd (names ++ [p]) (.str t)]).1.bytes =
        ph.toBytes ++ (raw.take s ++ h'.toBytes ++ raw.drop (s + 14)) ∧
      EthHdr.parse (reader h'.toBytes) = h' ∧ h'.get p = some (.text (showMac a)) ∧
      ∀ q, q ≠ p → h'.get q = (EthHdr.parse (rd raw s)).get q := by
  have hwf : EthWf (EthHdr.parse (rd raw s)) := parse_wf .ethernet _ (rd_lt hw s)
  obtain ⟨h', h1, -, h3, h4, h5⟩ := eth_assign_addr _ hwf p hp t.toList a ht
  obtain ⟨hf, hpay⟩ := isAddr_field p hp
  have hs : (parseAs .ethernet (rd raw s)).set p (toSetVal (.str t)) = some (.eth h') := by
    simp [parseAs, Hdr.set, toSetVal, h1]
  obtain ⟨hout, hser⟩ := set_then_serialise_hdr ph raw hw hd names p (.str t) .ethernet s d e hcur (by decide) hf hpay _ hs
  obtain ⟨r1, r2⟩ := run_set_one ph raw hd (names ++ [p]) (.str t)
  refine ⟨h', h1, by rw [r1, hout]; rfl, by rw [r2, hser]; rfl, h3, by rw [← h3]; exact h4, fun q hq => ?_⟩
  rw [← h3]; exact h5 q hq

theorem ipv4_parse_opts (b : Nat → Nat) :
    (Ipv4Hdr.parse b).options.length = max ((Ipv4Hdr.parse b).ihl * 4) 20 - 20 := by
  simp [Ipv4Hdr.parse, Ipv4Hdr.hdrLen]

/-- **IPv4 address assigned from text on the packet** -/
theorem v4_set_then_serialise_partial (ph : PcapHdr) (raw : List Nat) (hw : wf raw) (hd : Head) (names : List PP) (p : PP)
    (hp : isAddr p) (t : String) (a : List Nat) (ht : Proto.parseV4 t.toList = some a) (s d : Nat) (e : List Nat)
    (hcur : Rfc.cursorAt (specState ph raw) names (Rfc.headCur (specState ph raw) (headOf hd)) = .at .ipv4 s d e) :
    ∃ h' : Ipv4Hdr, (Ipv4Hdr.parse (rd raw s)).set p (.str t.toList) = some h' ∧
      ((Pkt.new ph raw).run [.set hd (names ++ [p]) (.str t)]).2 = [.ok (.str t)] ∧
      ((Pkt.new ph raw).run [.set hd (names ++ [p]) (.str t)]).1.bytes =
        ph.toBytes ++ (raw.take s ++ h'.toBytes ++ raw.drop (s + Rfc.headerLen raw .ipv4 s)) ∧
      Ipv4Hdr.parse (reader h'.toBytes) = h' ∧ h'.get p = some (.text (showV4 a)) ∧
      ∀ q, q ≠ p → h'.get q = (Ipv4Hdr.parse (rd raw s)).get q := by
  have hwf : Ipv4Wf (Ipv4Hdr.parse (rd raw s)) := parse_wf .ipv4 _ (rd_lt hw s)
  obtain ⟨h', h1, -, h3, h4, h5⟩ := ipv4_assign_addr _ hwf (ipv4_parse_opts _) p hp t.toList a ht
  obtain ⟨hf, hpay⟩ := isAddr_field p hp
  have hs : (parseAs .ipv4 (rd raw s)).set p (toSetVal (.str t)) = some (.ipv4 h') := by
    simp [parseAs, Hdr.set, toSetVal, h1]
  obtain ⟨hout, hser⟩ := set_then_serialise_hdr ph raw hw hd names p (.str t) .ipv4 s d e hcur (by decide) hf hpay _ hs
  obtain ⟨r1, r2⟩ := run_set_one ph raw hd (names ++ [p]) (.str t)
  refine ⟨h', h1, by rw [r1, hout]; rfl, by rw [r2, hser]; rfl, h3, by rw [← h3]; exact h4, fun q hq => ?_⟩
  rw [← h3]; exact h5 q hq

/-- **IPv6 address assigned from text on the packet** (form 1 or 2, whatever `from_str` accepts) -/
theorem v6_set_then_serialise_partial (ph : PcapHdr) (raw : List Nat) (hw : wf raw) (hd : Head) (names : List PP) (p : PP)
    (hp : isAddr p) (t : String) (a : List Nat) (ht : Proto.parseV6 t.toList = some a) (s d : Nat) (e : List Nat)
    (hcur : Rfc.cursorAt (specState ph raw) names (Rfc.headCur (specState ph raw) (headOf hd)) = .at .ipv6 s d e) :
    ∃ h' : Ipv6Hdr, (Ipv6Hdr.parse (rd raw s)).set p (.str t.toList) = some h' ∧
      ((Pkt.new ph raw).run [.set hd (names ++ [p]) (.str t)]).2 = [.ok (.str t)] ∧
      ((Pkt.new ph raw).run [.set hd (names ++ [p]) (.str t)]).1.bytes =
        ph.toBytes ++ (raw.take s ++ h'.toBytes ++ raw.drop (s + 40)) ∧
      Ipv6Hdr.parse (reader h'.toBytes) = h' ∧ h'.get p = some (.text (showV6 a)) ∧
      ∀ q, q ≠ p → h'.get q = (Ipv6Hdr.parse (rd raw s)).get q := by
  have hwf : Ipv6Wf (Ipv6Hdr.parse (rd raw s)) := parse_wf .ipv6 _ (rd_lt hw s)
  obtain ⟨h', h1, -, h3, h4, h5⟩ := ipv6_assign_addr _ hwf p hp t.toList a ht
  obtain ⟨hf, hpay⟩ := isAddr_field p hp
  have hs : (parseAs .ipv6 (rd raw s)).set p (toSetVal (.str t)) = some (.ipv6 h') := by
    simp [parseAs, Hdr.set, toSetVal, h1]
  obtain ⟨hout, hser⟩ := set_then_serialise_hdr ph raw hw hd names p (.str t) .ipv6 s d e hcur (by decide) hf hpay _ hs
  obtain ⟨r1, r2⟩ := run_set_one ph raw hd (names ++ [p]) (.str t)
  refine ⟨h', h1, by rw [r1, hout]; rfl, by rw [r2, hser]; rfl, h3, by rw [← h3]; exact h4, fun q hq => ?_⟩
  rw [← h3]; exact h5 q hq

/-- `pkt.eth.src = "0a:0B:0c:0d:0e:0f"` on the sample frame: the hypotheses of the theorem are satisfiable -/
example : ∃ h' : EthHdr, (EthHdr.parse (rd tcpFrame 0)).set .src (.str "0a:0B:0c:0d:0e:0f".toList) = some h' ∧
    ((Pkt.new (rec0 tcpFrame) tcpFrame).run [.set .pkt ([.eth] ++ [.src]) (.str "0a:0B:0c:0d:0e:0f")]).2 = [.ok (.str "0a:0B:0c:0d:0e:0f")] ∧
    ((Pkt.new (rec0 tcpFrame) tcpFrame).run [.set .pkt ([.eth] ++ [.src]) (.str "0a:0B:0c:0d:0e:0f")]).1.bytes =
      (rec0 tcpFrame).toBytes ++ (tcpFrame.take 0 ++ h'.toBytes ++ tcpFrame.drop (0 + 14)) ∧
    EthHdr.parse (reader h'.toBytes) = h' ∧ h'.get .src = some (.text (showMac [10, 11, 12, 13, 14, 15])) ∧
    ∀ q, q ≠ .src → h'.get q = (EthHdr.parse (rd tcpFrame 0)).get q :=
  mac_set_then_serialise_partial (rec0 tcpFrame) tcpFrame (by unfold wf; decide) .pkt [.eth] .src (Or.inr rfl)
    "0a:0B:0c:0d:0e:0f" [10, 11, 12, 13, 14, 15] (by decide) 0 1 [] (by rfl)

end P2sh.Props.C17
