import P2sh.Props.BcvStep
/-! # Per-opcode lemmas, part 1: opcodes without operands (except index / return) -/
namespace P2sh.Props.Bcv
open P2sh P2sh.Vm P2sh.Bcv P2sh.Code P2sh.Props.BcvWp

variable {consts : List Val} {s : St} {f : Frame} {rest : List Frame} {sm : Summary} {i : Instr} {ws : List Nat}
  {h : Nat} {succs : List (Nat × Nat)}

theorem t_Pop (T : Top consts s f rest sm i ws h succs) (line : Nat) (hn : i.name = "Pop") : Goal consts s f line := by
  bcv_pre T hn
  obtain ⟨hp, rfl⟩ := simple_ok he
  apply goal_of T
  unfold step; simp only [hnm]
  simp only [wp_bind, wp_pop, wp_pure]
  intro _
  refine ⟨_, _, List.mem_singleton.mpr rfl, f.ip, rfl, hfr, ?_, rfl, rfl, rfl⟩
  dsimp only; omega

set_option hygiene false in
/-- an opcode whose arm is `m; pure .advance` with `m` of a known shape (`sp` drops by one, two operands) -/
macro "bcv_two_one" T:ident hn:ident shape:term : tactic => `(tactic| (
  bcv_pre $T $hn
  obtain ⟨hp, rfl⟩ := simple_ok he
  apply goal_of $T
  unfold step; simp only [hnm]
  simp only [wp_bind]
  refine wp_mono $shape ?_
  intro _ s' ⟨hs, hsp', h2⟩
  simp only [wp_pure]
  exact ⟨_, _, List.mem_singleton.mpr rfl, f.ip, rfl, moved_of_same hs hfr (by omega)⟩))

theorem t_Add (T : Top consts s f rest sm i ws h succs) (line : Nat) (hn : i.name = "Add") : Goal consts s f line := by
  bcv_two_one T hn (shape_binaryVm _ line s)
theorem t_Sub (T : Top consts s f rest sm i ws h succs) (line : Nat) (hn : i.name = "Sub") : Goal consts s f line := by
  bcv_two_one T hn (shape_binaryVm _ line s)
theorem t_Mul (T : Top consts s f rest sm i ws h succs) (line : Nat) (hn : i.name = "Mul") : Goal consts s f line := by
  bcv_two_one T hn (shape_binaryVm _ line s)
theorem t_Div (T : Top consts s f rest sm i ws h succs) (line : Nat) (hn : i.name = "Div") : Goal consts s f line := by
  bcv_two_one T hn (shape_binaryVm _ line s)
theorem t_Mod (T : Top consts s f rest sm i ws h succs) (line : Nat) (hn : i.name = "Mod") : Goal consts s f line := by
  bcv_two_one T hn (shape_binaryVm _ line s)
theorem t_Greater (T : Top consts s f rest sm i ws h succs) (line : Nat) (hn : i.name = "Greater") : Goal consts s f line := by
  bcv_two_one T hn (shape_binaryVm _ line s)
theorem t_GreaterEq (T : Top consts s f rest sm i ws h succs) (line : Nat) (hn : i.name = "GreaterEq") : Goal consts s f line := by
  bcv_two_one T hn (shape_binaryVm _ line s)
theorem t_And (T : Top consts s f rest sm i ws h succs) (line : Nat) (hn : i.name = "And") : Goal consts s f line := by
  bcv_two_one T hn (shape_bitwiseVm _ line s)
theorem t_Or (T : Top consts s f rest sm i ws h succs) (line : Nat) (hn : i.name = "Or") : Goal consts s f line := by
  bcv_two_one T hn (shape_bitwiseVm _ line s)
theorem t_Xor (T : Top consts s f rest sm i ws h succs) (line : Nat) (hn : i.name = "Xor") : Goal consts s f line := by
  bcv_two_one T hn (shape_bitwiseVm _ line s)
theorem t_ShiftLeft (T : Top consts s f rest sm i ws h succs) (line : Nat) (hn : i.name = "ShiftLeft") : Goal consts s f line := by
  bcv_two_one T hn (shape_bitwiseVm _ line s)
theorem t_ShiftRight (T : Top consts s f rest sm i ws h succs) (line : Nat) (hn : i.name = "ShiftRight") : Goal consts s f line := by
  bcv_two_one T hn (shape_bitwiseVm _ line s)

set_option hygiene false in
/-- arms made of `pop` / `push` / `peek` / `reifyM` only -/
macro "bcv_direct" T:ident hn:ident : tactic => `(tactic| (
  bcv_pre $T $hn
  obtain ⟨hp, rfl⟩ := simple_ok he
  apply goal_of $T
  unfold step; simp only [hnm]
  simp only [wp_bind, wp_pop, wp_push, wp_pure, wp_reifyM, wp_peek0]
  intros
  refine ⟨_, _, List.mem_singleton.mpr rfl, f.ip, rfl, hfr, ?_, by simp, rfl, rfl⟩
  dsimp only; omega))

theorem t_True (T : Top consts s f rest sm i ws h succs) (line : Nat) (hn : i.name = "True") : Goal consts s f line := by
  bcv_direct T hn
theorem t_False (T : Top consts s f rest sm i ws h succs) (line : Nat) (hn : i.name = "False") : Goal consts s f line := by
  bcv_direct T hn
theorem t_Null (T : Top consts s f rest sm i ws h succs) (line : Nat) (hn : i.name = "Null") : Goal consts s f line := by
  bcv_direct T hn
theorem t_Equal (T : Top consts s f rest sm i ws h succs) (line : Nat) (hn : i.name = "Equal") : Goal consts s f line := by
  bcv_direct T hn
theorem t_NotEqual (T : Top consts s f rest sm i ws h succs) (line : Nat) (hn : i.name = "NotEqual") : Goal consts s f line := by
  bcv_direct T hn
theorem t_Bang (T : Top consts s f rest sm i ws h succs) (line : Nat) (hn : i.name = "Bang") : Goal consts s f line := by
  bcv_direct T hn

theorem t_Dup (T : Top consts s f rest sm i ws h succs) (line : Nat) (hn : i.name = "Dup") : Goal consts s f line := by
  bcv_pre T hn
  split at he
  case isFalse => cases he
  cases he
  apply goal_of T
  unfold step; simp only [hnm]
  simp only [wp_bind, wp_push, wp_pure, wp_peek0]
  intros
  refine ⟨_, _, List.mem_singleton.mpr rfl, f.ip, rfl, hfr, ?_, by simp, rfl, rfl⟩
  dsimp only; omega

theorem t_Minus (T : Top consts s f rest sm i ws h succs) (line : Nat) (hn : i.name = "Minus") : Goal consts s f line := by
  bcv_pre T hn
  obtain ⟨hp, rfl⟩ := simple_ok he
  apply goal_of T
  unfold step; simp only [hnm]
  simp only [wp_bind, wp_peek0, wp_ite, wp_rtErr, wp_pure, wp_pop, wp_ofOpRes]
  generalize (if s.sp = 0 then Val.null else s.stack.getD (s.sp - 1) Val.null) = t
  split
  · trivial
  · intro _
    split
    · simp only [wp_bind, wp_push, wp_pure]
      intros
      refine ⟨_, _, List.mem_singleton.mpr rfl, f.ip, rfl, hfr, ?_, by simp, rfl, rfl⟩
      dsimp only; omega
    · trivial
    · rename_i msg hm
      exact absurd hm ((C09.unary_no_panic _).1 msg)

theorem t_Not (T : Top consts s f rest sm i ws h succs) (line : Nat) (hn : i.name = "Not") : Goal consts s f line := by
  bcv_pre T hn
  obtain ⟨hp, rfl⟩ := simple_ok he
  apply goal_of T
  unfold step; simp only [hnm]
  simp only [wp_bind, wp_pop, wp_ofOpRes]
  intro _
  split
  · simp only [wp_bind, wp_push, wp_pure]
    intros
    refine ⟨_, _, List.mem_singleton.mpr rfl, f.ip, rfl, hfr, ?_, by simp, rfl, rfl⟩
    dsimp only; omega
  · trivial
  · rename_i msg hm
    exact absurd hm ((C09.unary_no_panic _).2.2 msg)

theorem t_Dollar (T : Top consts s f rest sm i ws h succs) (line : Nat) (hn : i.name = "Dollar") : Goal consts s f line := by
  have hnm := T.name.symm.trans hn
  unfold Goal step; simp only [hnm]
  simp only [wp_bind, wp_throw_unmodelled]
theorem t_GetProp (T : Top consts s f rest sm i ws h succs) (line : Nat) (hn : i.name = "GetProp") : Goal consts s f line := by
  have hnm := T.name.symm.trans hn
  unfold Goal step; simp only [hnm]
  simp only [wp_bind, wp_throw_unmodelled]
theorem t_SetProp (T : Top consts s f rest sm i ws h succs) (line : Nat) (hn : i.name = "SetProp") : Goal consts s f line := by
  have hnm := T.name.symm.trans hn
  unfold Goal step; simp only [hnm]
  simp only [wp_bind, wp_throw_unmodelled]

theorem t_CurrClosure (T : Top consts s f rest sm i ws h succs) (line : Nat) (hn : i.name = "CurrClosure") : Goal consts s f line := by
  bcv_pre T hn
  split at he
  case isTrue => cases he
  obtain ⟨hp, rfl⟩ := simple_ok he
  apply goal_of T
  unfold step; simp only [hnm]
  simp only [wp_bind, wp_curFrame', hfr, wp_push, wp_pure]
  intros
  refine ⟨_, _, List.mem_singleton.mpr rfl, f.ip, rfl, rfl, ?_, by simp, rfl, rfl⟩
  dsimp only; omega

end P2sh.Props.Bcv
