import P2sh.Props.FnVm
import P2sh.Props.RefFn
set_option linter.unusedSimpArgs false
set_option linter.unusedVariables false
/-!
# The run hypotheses of `FnVm` discharged statically for compiled programs with functions

`Props/FnVm.lean` proves that the machine with frames of `Core/Fn` (`fstep`) is refined by the VM model, one
`fstep` = one iteration of the VM's loop — under side conditions on the run of `fstep` (`preOk` / `postOk`, bundled in
`dstep` / `DSteps` / `checkedRun`): every operand and every local slot an instruction reads has been written since
it became live (the VM's `Call` leaves the callee's non-parameter slots stale), the callee of a `Call` is a closure,
the stack stays within `STACK_SIZE`, the frames below `MAX_FRAMES`.  `FnVm.program_run_refines_partial` takes them as
the HYPOTHESIS `checkedRun … = true` over the intermediate states.  This file proves that hypothesis for compiled
programs, the way `Props/Chain.lean` does it for the function-free fragment: compiler correctness for functions
(`Core.Fn.sound_all`) is re-proved in a CHECKED form (`csound_all`: the same induction on the fuel, `DSteps` with the
shadow of defined slots threaded), with static source-level side conditions.

* `fragOK T`  — the fragment: the instructions `FnVm` covers (no arrays, maps, indexing, builtin functions), no
  `match`; functions, calls, recursion, locals, `let` in loops and blocks, closures (`mkclos` / `fget` / `fset`), loops,
  `break` / `continue` / `return` are in.
* `initOK T`  — DEFINEDNESS, decidable, on the source: no local slot is read (`lget`, captured `loc`) or assigned
  (`lset`) before the `let` that defines it has run on every path (a `let x = e` whose `e` names `x` is what it rejects).
* `fits T fuel` — BOUNDS, relative to the evaluation: `needT T + fuel * maxFrameNeed T < STACK_SIZE ∧ fuel < MAX_FRAMES`
  (`maxFrameNeed T`: the largest `num_locals + code size + 3` of a function literal of `T`; every nested evaluation uses
  one unit of fuel, an activation at most `maxFrameNeed T` slots).
* `csound_all`          — the checked compiler correctness (expressions, arguments, statements, blocks in value /
  return position): `DSteps`, `Post` (slot count, defined slots stay defined, no builtin-function value stored).
* `program_checked_fn`  — terminating `evalT` + `fragOK` + `initOK` + `fits` ⇒ the `DSteps` run of the compiled program.
* `program_checkedRun_fn` — the same as `∃ k, FnVm.checkedRun … k … = true`.
* `program_vm_fn`       — MAIN: composed with `FnVm.program_run_refines_partial`: `Vm.run` on the encoded main code and
  constants ends normally with the evaluator's globals; no hypothesis about intermediate machine states.
* `oracle_vm_fn_partial` — composed with `RefFn.ref_program_fn_partial`: oracle run ⇒ evaluation with some fuel `k`,
  related to the oracle's final state, and (if `fits T k`) the VM model's run.
* `Example`             — `fact(3)` with a non-parameter local (recursion), `FnVm`'s `mk(1)(2)` (closures); every
  hypothesis by `rfl` / `decide`; a `let m = m - 1` is rejected by `initOK`.

What REMAINS a hypothesis of `program_vm_fn`: the evaluation terminates (`evalT … = some …`), the numeric condition
`fits` on ITS fuel, and static facts about the compiled program (operands fit their widths, `codedB`, no
`CurrentClosure` in the main code, scalar constants, `n ≤ GLOBALS_SIZE`) — all decidable, none about a machine state.
-/
namespace P2sh.FnChain
open P2sh P2sh.Core.Fn
open P2sh.Core hiding SoundIfV SoundP SoundS SoundV branchV branchV_cons2 branchV_single bytes_branchV bytes_compileArms bytes_compileP bytes_compileS compileArms compileP compileS compileS_ifS constsArms constsP constsS evalArms evalP evalS ifV sizeArms sizeE sizeP sizeS sizeV sizeV_cons2 sizeV_single soundIfV_succ soundP_succ soundS_succ soundV_succ sound_all sound_zero valueOf_expr valueOf_ifS valueOf_other
open P2sh.FnVm (DSteps dstep dsteps preOk postOk nextD noHeapI checkedRun)
open P2sh.Vm (stackSize maxFrames)

/-! ## values that are not builtin functions -/

/-- not a builtin function (`FnVm`'s `Call` covers closures only; a program of the fragment never
creates a builtin-function value, so the callee of every call it makes is a closure) -/
def nb : Val → Bool
  | .builtin _ => false
  | _ => true

theorem arithInt_nb {op a b v} (h : arithInt op a b = .ok v) : nb v = true := by
  unfold arithInt at h
  split at h <;> (try split at h) <;> cases h <;> rfl

theorem arithByte_nb {op a b v} (h : arithByte op a b = .ok v) : nb v = true := by
  unfold arithByte at h
  split at h <;> (try split at h) <;> cases h <;> rfl

theorem arithFloat_nb (op a b) : nb (arithFloat op a b) = true := by
  cases op <;> rfl

theorem arith_nb {op l r v} (h : arith op l r = .ok v) : nb v = true := by
  unfold arith at h
  split at h
  all_goals first
    | exact arithInt_nb h
    | exact arithByte_nb h
    | (cases h; exact arithFloat_nb _ _ _)
    | cases h

theorem applyBin_nb {k l r v} (h : applyBin k l r = .ok v) : nb v = true := by
  unfold applyBin at h
  split at h
  · exact arith_nb h
  · cases h; rfl
  · cases h; rfl

theorem binaryOp_nb {k l r v} (h : binaryOp k l r = .ok v) : nb v = true := by
  unfold binaryOp at h
  split at h
  · split at h
    · cases h
    · split at h
      · cases h
      · exact applyBin_nb h
  · split at h
    · split at h <;> first | exact applyBin_nb h | (cases h; rfl) | cases h
    · split at h <;> first | exact applyBin_nb h | (cases h; rfl) | cases h
    · split at h
      · split at h
        · cases h
        · split at h
          · cases h
          · cases h; rfl
      · cases h
    · split at h
      · split at h
        · cases h
        · split at h
          · cases h
          · cases h; rfl
      · cases h
    · split at h
      · cases h; rfl
      · cases h
    · cases h

theorem bitwiseOp_nb {op l r v} (h : bitwiseOp op l r = .ok v) : nb v = true := by
  unfold bitwiseOp at h
  split at h
  · cases h; rfl
  · cases h

theorem execOperator_nb {o l r v} (h : execOperator o l r = .ok v) : nb v = true := by
  cases o <;> simp only [execOperator] at h
  all_goals first
    | exact binaryOp_nb h
    | exact bitwiseOp_nb h
    | (cases h; rfl)

theorem storeNew_arr_nb (a : Heap) (id : Nat) (xs : List Val) : nb (storeNew a (.arr id xs)).1 = true := by
  unfold storeNew
  split <;> rfl

theorem storeNew_map_nb (a : Heap) (id : Nat) (xs : List (Val × Val)) : nb (storeNew a (.map id xs)).1 = true := by
  unfold storeNew
  split <;> rfl

theorem opH_same_nb {a : Heap} {o : Operator} {l r v : Val} (h : opH a o l r = .same v) : nb v = true := by
  unfold opH at h
  split at h
  · split at h; cases h
  · split at h; cases h
  · split at h <;> (cases h; rfl)
  · rename_i w _ _ _ hw
    cases h
    exact execOperator_nb hw
  · cases h

theorem opH_new_nb {a a' : Heap} {o : Operator} {l r v : Val} (h : opH a o l r = .new v a') : nb v = true := by
  unfold opH at h
  split at h
  · rename_i id xs _
    have := storeNew_arr_nb a id xs
    split at h
    rename_i v1 a1 hs
    rw [hs] at this
    cases h
    exact this
  · rename_i id xs _
    have := storeNew_map_nb a id xs
    split at h
    rename_i v1 a1 hs
    rw [hs] at this
    cases h
    exact this
  · split at h <;> cases h
  · cases h
  · cases h

theorem unH_nb {a : Heap} {op : UnOp} {v r : Val} (h : unH a op v = .ok r) : nb r = true := by
  cases op with
  | bang => simp only [unH, OpRes.ok.injEq] at h; subst h; rfl
  | minus =>
    simp only [unH] at h
    unfold unaryMinus at h
    split at h <;> cases h <;> rfl
  | bnot =>
    simp only [unH] at h
    unfold unaryNot at h
    split at h <;> cases h <;> rfl

def nbs (l : List Val) : Prop := ∀ v ∈ l, nb v = true

theorem nbs_set {l : List Val} (h : nbs l) {v : Val} (hv : nb v = true) (i : Nat) : nbs (l.set i v) := by
  intro x hx
  rcases List.mem_or_eq_of_mem_set hx with hx | rfl
  · exact h x hx
  · exact hv

theorem nbs_append {l l' : List Val} (h : nbs l) (h' : nbs l') : nbs (l ++ l') := by
  intro x hx
  rcases List.mem_append.mp hx with hx | hx
  · exact h x hx
  · exact h' x hx

theorem nbs_replicate_null (n : Nat) : nbs (List.replicate n .null) := by
  intro x hx
  rw [List.eq_of_mem_replicate hx]; rfl

theorem nbs_getD {l : List Val} (h : nbs l) (i : Nat) : nb (l.getD i .null) = true := by
  rw [List.getD_eq_getElem?_getD]
  cases hi : l[i]? with
  | none => rfl
  | some v => exact h v (List.mem_of_getElem? hi)

/-- no builtin-function value in the slots, the globals, the closure objects -/
structure NBS (σ : Sto) : Prop where
  l : nbs σ.l
  g : nbs σ.g
  h : ∀ c ∈ σ.h, nbs c

/-! ## the fragment, and `initOK`: no local is read before its `let` has stored it -/

mutual
/-- the fragment `FnVm` covers (no arrays, maps, indexing, builtin functions), without `match`;
no literal is a builtin function -/
def fragE : FExpr → Bool
  | .lit _ v => nb v
  | .tru _ | .fls _ | .null _ | .gget .. | .lget .. | .curr _ | .fget .. => true
  | .un _ _ e => fragE e
  | .bin _ _ a b => fragE a && fragE b
  | .lt _ a b | .le _ a b | .and _ a b | .or _ a b => fragE a && fragE b
  | .ite _ c t e => fragE c && fragE t && fragE e
  | .gset _ _ e | .lset _ _ e | .fset _ _ e => fragE e
  | .call _ f args => fragE f && fragArgs args
  | .mkclos .. => true
  | .matchE .. | .arrLit .. | .mapLit .. | .index .. | .setIndex .. | .bfn .. => false
def fragArgs : FArgs → Bool
  | .nil => true
  | .cons a r => fragE a && fragArgs r
def fragS : FStmt → Bool
  | .letG _ _ e | .letL _ _ e | .expr _ e | .ret _ e => fragE e
  | .block _ b => fragP b
  | .loopS _ _ b => fragP b
  | .whileS _ _ c b => fragE c && fragP b
  | .breakS .. | .continueS .. | .retN _ => true
  | .ifS _ _ c t e => fragE c && fragP t && fragP e
def fragP : List FStmt → Bool
  | [] => true
  | s :: r => fragS s && fragP r
end

/-- the stored slots after a statement: a `let` adds its slot -/
def defS (s : FStmt) (D : List Nat) : List Nat :=
  match s with
  | .letL _ i _ => i :: D
  | _ => D

def capOK (D : List Nat) : Cap → Bool
  | .loc i => decide (i ∈ D)
  | _ => true

mutual
/-- `D`: the slots that have certainly been stored (the parameters, and the `let`s already executed
on every path to here).  Every slot an expression reads (`lget`, a captured local) or assigns
(`lset`) is in `D`: the source never names a local inside its own initialiser or before its `let`. -/
def initE (D : List Nat) : FExpr → Bool
  | .lget _ i => decide (i ∈ D)
  | .lset _ i e => decide (i ∈ D) && initE D e
  | .mkclos _ _ _ _ _ _ caps => caps.all (capOK D)
  | .un _ _ e => initE D e
  | .bin _ _ a b => initE D a && initE D b
  | .lt _ a b | .le _ a b | .and _ a b | .or _ a b => initE D a && initE D b
  | .ite _ c t e => initE D c && initE D t && initE D e
  | .gset _ _ e | .fset _ _ e => initE D e
  | .call _ f args => initE D f && initArgs D args
  | _ => true
def initArgs (D : List Nat) : FArgs → Bool
  | .nil => true
  | .cons a r => initE D a && initArgs D r
/-- a `let` adds its slot for the statements that follow it in its block; a block, a branch, a loop
body give nothing to what follows them -/
def initS (D : List Nat) : FStmt → Bool
  | .letG _ _ e | .letL _ _ e | .expr _ e | .ret _ e => initE D e
  | .block _ b => initP D b
  | .loopS _ _ b => initP D b
  | .whileS _ _ c b => initE D c && initP D b
  | .breakS .. | .continueS .. | .retN _ => true
  | .ifS _ _ c t e => initE D c && initP D t && initP D e
def initP (D : List Nat) : List FStmt → Bool
  | [] => true
  | s :: r =>
    initS D s && initP (defS s D) r
end

theorem initP_cons (D : List Nat) (s : FStmt) (r : List FStmt) : initP D (s :: r) = (initS D s && initP (defS s D) r) := by
  rw [initP]

/-! ## the shadow of a state inside an activation -/

/-- the shadow of `X.st pc ops σ`: `n` operands (all pushed: defined), the local slots (`dl`, slot 0
first), the stack below the activation (`db`) -/
def sh (n : Nat) (dl db : List Bool) : List Bool := List.replicate n true ++ (dl.reverse ++ db)

theorem sh_succ (n : Nat) (dl db : List Bool) : sh (n + 1) dl db = true :: sh n dl db := by
  simp [sh, List.replicate_succ]

theorem sh_add (m n : Nat) (dl db : List Bool) : sh (m + n) dl db = List.replicate m true ++ sh n dl db := by
  simp [sh, ← List.replicate_append_replicate]

theorem sh_length (n : Nat) (dl db : List Bool) : (sh n dl db).length = n + dl.length + db.length := by
  simp [sh]; omega

theorem sh_get (n : Nat) (dl db : List Bool) (i : Nat) (h : i < dl.length) : (sh n dl db).reverse[db.length + i]? = dl[i]? := by
  unfold sh
  simp only [List.reverse_append, List.reverse_reverse]
  rw [List.getElem?_append_left (by simp; omega), List.getElem?_append_right (by simp)]
  simp

theorem sh_set (n : Nat) (dl db : List Bool) (i : Nat) (h : i < dl.length) :
    ((sh n dl db).reverse.set (db.length + i) true).reverse = sh n (dl.set i true) db := by
  unfold sh
  simp only [List.reverse_append, List.reverse_reverse]
  rw [List.set_append_left _ _ (by simp; omega), List.set_append_right _ _ (by simp)]
  simp

theorem set_true_id {dl : List Bool} {i : Nat} (h : dl[i]? = some true) : dl.set i true = dl := by
  apply List.ext_getElem?
  intro j
  by_cases hj : i = j
  · subst hj
    have : i < dl.length := by
      cases hlt : decide (i < dl.length) with
      | true => simpa using hlt
      | false =>
        have : dl.length ≤ i := by simpa using hlt
        rw [List.getElem?_eq_none this] at h
        cases h
    have hv := (List.getElem?_eq_some_iff.mp h).2
    simp [this, hv]
  · simp [List.getElem?_set_ne hj]

theorem lt_of_get {α : Type} {l : List α} {i : Nat} {v : α} (h : l[i]? = some v) : i < l.length :=
  (List.getElem?_eq_some_iff.mp h).1

theorem take_rep (n : Nat) (t : List Bool) : (List.replicate n true ++ true :: t).take (n + 1) = List.replicate (n + 1) true := by
  induction n with
  | zero => simp
  | succ k ih => simp [List.replicate_succ, ih]

theorem drop_tail (xs db : List Bool) : (xs ++ db).drop ((xs ++ db).length - (db.length - 1)) = db.tail := by
  cases db with
  | nil => simp
  | cons b t =>
    have : (xs ++ b :: t).length - ((b :: t).length - 1) = xs.length + 1 := by simp; omega
    rw [this]
    simp [List.drop_append]

/-! ## checked runs -/

section
variable {K : List Val} {F : FnDef → Option (List Instr)}

theorem _root_.P2sh.FnVm.DSteps.trans {x y z : FSt × List Bool} (h1 : DSteps K F x y) (h2 : DSteps K F y z) : DSteps K F x z := by
  induction h1 with
  | refl => exact h2
  | cons hs _ ih => exact .cons hs (ih h2)

theorem DS.one {x y : FSt × List Bool} (h : dstep K F x = some y) : DSteps K F x y := .cons h (.refl _)

theorem _root_.P2sh.FnVm.DSteps.to {x y y' : FSt × List Bool} (h : DSteps K F x y) (e : y = y') : DSteps K F x y' := e ▸ h

theorem _root_.P2sh.FnVm.DSteps.toPc {x : FSt × List Bool} {X : Ctxt} {a b : Nat} {ops : List Val} {σ : Sto} {d : List Bool}
    (h : DSteps K F x (X.st a ops σ, d)) (e : a = b) : DSteps K F x (X.st b ops σ, d) := e ▸ h

theorem dstep_mk {s s' : FSt} {d d' : List Bool} {i : Instr} (hf : fetch s.act.code s.act.pc = some i)
    (hs : fstep K F s = some s') (hpre : preOk i s d = true) (hpost : postOk i s' = true) (hd : nextD i s d = d') :
    dstep K F (s, d) = some (s', d') := by
  simp [dstep, hf, hpre, hs, hpost, hd]

/-- room for a state of the activation `X` with `m` operands and slots: within `STACK_SIZE`, fewer than `MAX_FRAMES` frames below -/
def Room (X : Ctxt) (m : Nat) : Prop := m + X.base.length ≤ stackSize ∧ X.callers.length < maxFrames

variable {X : Ctxt}

theorem postOk_nocall {i : Instr} {s' : FSt} (hi : ∀ n, i ≠ .call n) :
    postOk i s' = (decide (s'.stk.length ≤ stackSize) && decide (s'.callers.length < maxFrames)) := by
  cases i <;> first | (simp [postOk]; done) | exact absurd rfl (hi _)

theorem post_st {i : Instr} {pc : Nat} {ops : List Val} {σ : Sto} (hi : ∀ n, i ≠ .call n) (hr : Room X (ops.length + σ.l.length)) :
    postOk i (X.st pc ops σ) = true := by
  obtain ⟨h1, h2⟩ := hr
  have hl : (X.st pc ops σ).stk.length = ops.length + σ.l.length + X.base.length := by
    simp [Ctxt.st, Ctxt.at]; omega
  have hc : (X.st pc ops σ).callers = X.callers := rfl
  rw [postOk_nocall hi, hl, hc]
  simp only [Bool.and_eq_true, decide_eq_true_eq]
  exact ⟨by omega, h2⟩

macro "nocall" : tactic => `(tactic| (intro _ hh; cases hh))

theorem cs_const {pc idx v ops σ dl db} (h : codeAt X.code pc [Instr.const idx]) (hk : K[idx]? = some v)
    (hr : Room X (ops.length + 1 + σ.l.length)) :
    dstep K F (X.st pc ops σ, sh ops.length dl db) = some (X.st (pc + 3) (v :: ops) σ, sh (ops.length + 1) dl db) :=
  dstep_mk (fetch_codeAt h) (fs_const h hk) (by simp [preOk, noHeapI, FnVm.need]) (post_st (by nocall) hr) (by simp [nextD, sh_succ])

theorem cs_tru {pc ops σ dl db} (h : codeAt X.code pc [Instr.tru]) (hr : Room X (ops.length + 1 + σ.l.length)) :
    dstep K F (X.st pc ops σ, sh ops.length dl db) = some (X.st (pc + 1) (.bool true :: ops) σ, sh (ops.length + 1) dl db) :=
  dstep_mk (fetch_codeAt h) (fs_tru h) (by simp [preOk, noHeapI, FnVm.need]) (post_st (by nocall) hr) (by simp [nextD, sh_succ])

theorem cs_fls {pc ops σ dl db} (h : codeAt X.code pc [Instr.fls]) (hr : Room X (ops.length + 1 + σ.l.length)) :
    dstep K F (X.st pc ops σ, sh ops.length dl db) = some (X.st (pc + 1) (.bool false :: ops) σ, sh (ops.length + 1) dl db) :=
  dstep_mk (fetch_codeAt h) (fs_fls h) (by simp [preOk, noHeapI, FnVm.need]) (post_st (by nocall) hr) (by simp [nextD, sh_succ])

theorem cs_null {pc ops σ dl db} (h : codeAt X.code pc [Instr.null]) (hr : Room X (ops.length + 1 + σ.l.length)) :
    dstep K F (X.st pc ops σ, sh ops.length dl db) = some (X.st (pc + 1) (.null :: ops) σ, sh (ops.length + 1) dl db) :=
  dstep_mk (fetch_codeAt h) (fs_null h) (by simp [preOk, noHeapI, FnVm.need]) (post_st (by nocall) hr) (by simp [nextD, sh_succ])

theorem cs_getGlobal {pc i ops σ dl db} (h : codeAt X.code pc [Instr.getGlobal i]) (hr : Room X (ops.length + 1 + σ.l.length)) :
    dstep K F (X.st pc ops σ, sh ops.length dl db) = some (X.st (pc + 3) (σ.g.getD i .null :: ops) σ, sh (ops.length + 1) dl db) :=
  dstep_mk (fetch_codeAt h) (fs_getGlobal h) (by simp [preOk, noHeapI, FnVm.need]) (post_st (by nocall) hr) (by simp [nextD, sh_succ])

theorem cs_currClosure {pc ops σ dl db} (h : codeAt X.code pc [Instr.currClosure]) (hr : Room X (ops.length + 1 + σ.l.length)) :
    dstep K F (X.st pc ops σ, sh ops.length dl db) = some (X.st (pc + 1) (.clos X.fd [] X.cid :: ops) σ, sh (ops.length + 1) dl db) :=
  dstep_mk (fetch_codeAt h) (fstep_currClosure h) (by simp [preOk, noHeapI, FnVm.need]) (post_st (by nocall) hr) (by simp [nextD, sh_succ])

theorem cs_getFree {pc i v ops} {σ : Sto} {dl db} (h : codeAt X.code pc [Instr.getFree i]) (hv : freeGet σ.h X.cid i = some v)
    (hr : Room X (ops.length + 1 + σ.l.length)) :
    dstep K F (X.st pc ops σ, sh ops.length dl db) = some (X.st (pc + 2) (v :: ops) σ, sh (ops.length + 1) dl db) :=
  dstep_mk (fetch_codeAt h) (fstep_getFree h hv) (by simp [preOk, noHeapI, FnVm.need]) (post_st (by nocall) hr) (by simp [nextD, sh_succ])

theorem cs_getLocal {pc i v ops} {σ : Sto} {dl db} (h : codeAt X.code pc [Instr.getLocal i]) (hv : σ.l[i]? = some v)
    (hd : dl[i]? = some true) (hdb : db.length = X.base.length) (hr : Room X (ops.length + 1 + σ.l.length)) :
    dstep K F (X.st pc ops σ, sh ops.length dl db) = some (X.st (pc + 2) (v :: ops) σ, sh (ops.length + 1) dl db) := by
  refine dstep_mk (fetch_codeAt h) (fstep_getLocal h hv) ?_ (post_st (by nocall) hr) (by simp [nextD, sh_succ])
  have hb : (X.st pc ops σ).act.bp = db.length := hdb.symm
  simp only [preOk, noHeapI, FnVm.need, hb, sh_get _ _ _ _ (lt_of_get hd), hd]
  simp

theorem cs_pop {pc v ops σ dl db} (h : codeAt X.code pc [Instr.pop]) (hr : Room X (ops.length + σ.l.length)) :
    dstep K F (X.st pc (v :: ops) σ, sh (ops.length + 1) dl db) = some (X.st (pc + 1) ops σ, sh ops.length dl db) :=
  dstep_mk (fetch_codeAt h) (fs_pop h) (by simp [preOk, noHeapI, FnVm.need, sh_succ]) (post_st (by nocall) hr) (by simp [nextD, sh_succ])

theorem cs_op {pc o l r v ops} {σ : Sto} {dl db} (h : codeAt X.code pc [Instr.op o]) (hv : opH σ.a o l r = .same v)
    (hr : Room X (ops.length + 1 + σ.l.length)) :
    dstep K F (X.st pc (r :: l :: ops) σ, sh (ops.length + 1 + 1) dl db) = some (X.st (pc + 1) (v :: ops) σ, sh (ops.length + 1) dl db) :=
  dstep_mk (fetch_codeAt h) (fs_op h hv) (by simp [preOk, noHeapI, FnVm.need, sh_succ]) (post_st (by nocall) hr) (by simp [nextD, sh_succ])

theorem cs_opNew {pc o l r v ops} {σ : Sto} {a' : Heap} {dl db} (h : codeAt X.code pc [Instr.op o]) (hv : opH σ.a o l r = .new v a')
    (hr : Room X (ops.length + 1 + σ.l.length)) :
    dstep K F (X.st pc (r :: l :: ops) σ, sh (ops.length + 1 + 1) dl db) =
      some (X.st (pc + 1) (v :: ops) ⟨σ.l, σ.g, σ.h, a'⟩, sh (ops.length + 1) dl db) :=
  dstep_mk (fetch_codeAt h) (fs_opNew h hv) (by simp [preOk, noHeapI, FnVm.need, sh_succ]) (post_st (σ := ⟨σ.l, σ.g, σ.h, a'⟩) (by nocall) hr)
    (by simp [nextD, sh_succ])

theorem cs_un {pc op v r ops} {σ : Sto} {dl db} (h : codeAt X.code pc [unInstr op]) (hv : unH σ.a op v = .ok r)
    (hr : Room X (ops.length + 1 + σ.l.length)) :
    dstep K F (X.st pc (v :: ops) σ, sh (ops.length + 1) dl db) = some (X.st (pc + 1) (r :: ops) σ, sh (ops.length + 1) dl db) := by
  cases op with
  | bang => exact dstep_mk (i := .bang) (fetch_codeAt h) (fs_un h hv) (by simp [preOk, noHeapI, FnVm.need, sh_succ]) (post_st (by nocall) hr) (by simp [nextD, sh_succ])
  | minus => exact dstep_mk (i := .minus) (fetch_codeAt h) (fs_un h hv) (by simp [preOk, noHeapI, FnVm.need, sh_succ]) (post_st (by nocall) hr) (by simp [nextD, sh_succ])
  | bnot => exact dstep_mk (i := .bnot) (fetch_codeAt h) (fs_un h hv) (by simp [preOk, noHeapI, FnVm.need, sh_succ]) (post_st (by nocall) hr) (by simp [nextD, sh_succ])

theorem cs_jump {pc t ops σ dl db} (h : codeAt X.code pc [Instr.jump t]) (hr : Room X (ops.length + σ.l.length)) :
    dstep K F (X.st pc ops σ, sh ops.length dl db) = some (X.st t ops σ, sh ops.length dl db) :=
  dstep_mk (fetch_codeAt h) (fs_jump h) (by simp [preOk, noHeapI, FnVm.need]) (post_st (by nocall) hr) (by simp [nextD])

theorem cs_jif {pc t v ops} {σ : Sto} {dl db} (h : codeAt X.code pc [Instr.jif t]) (hr : Room X (ops.length + σ.l.length)) :
    dstep K F (X.st pc (v :: ops) σ, sh (ops.length + 1) dl db) =
      some (X.st (if falseyH σ.a v then t else pc + 3) ops σ, sh ops.length dl db) :=
  dstep_mk (fetch_codeAt h) (fs_jif h) (by simp [preOk, noHeapI, FnVm.need, sh_succ]) (post_st (by nocall) hr) (by simp [nextD, sh_succ])

theorem cs_jifnp {pc t v ops} {σ : Sto} {dl db} (h : codeAt X.code pc [Instr.jifnp t]) (hr : Room X (ops.length + 1 + σ.l.length)) :
    dstep K F (X.st pc (v :: ops) σ, sh (ops.length + 1) dl db) =
      some (X.st (if falseyH σ.a v then t else pc + 3) (v :: ops) σ, sh (ops.length + 1) dl db) :=
  dstep_mk (fetch_codeAt h) (fs_jifnp h) (by simp [preOk, noHeapI, FnVm.need, sh_succ]) (post_st (by nocall) hr) (by simp [nextD])

theorem cs_setGlobal {pc i v ops} {σ : Sto} {dl db} (h : codeAt X.code pc [Instr.setGlobal i]) (hi : i < σ.g.length)
    (hr : Room X (ops.length + 1 + σ.l.length)) :
    dstep K F (X.st pc (v :: ops) σ, sh (ops.length + 1) dl db) =
      some (X.st (pc + 3) (v :: ops) ⟨σ.l, σ.g.set i v, σ.h, σ.a⟩, sh (ops.length + 1) dl db) :=
  dstep_mk (fetch_codeAt h) (fs_setGlobal h hi) (by simp [preOk, noHeapI, FnVm.need, sh_succ])
    (post_st (σ := ⟨σ.l, σ.g.set i v, σ.h, σ.a⟩) (by nocall) hr) (by simp [nextD])

theorem cs_defGlobal {pc i v ops} {σ : Sto} {dl db} (h : codeAt X.code pc [Instr.defGlobal i]) (hi : i < σ.g.length)
    (hr : Room X (ops.length + σ.l.length)) :
    dstep K F (X.st pc (v :: ops) σ, sh (ops.length + 1) dl db) =
      some (X.st (pc + 3) ops ⟨σ.l, σ.g.set i v, σ.h, σ.a⟩, sh ops.length dl db) :=
  dstep_mk (fetch_codeAt h) (fs_defGlobal h hi) (by simp [preOk, noHeapI, FnVm.need, sh_succ])
    (post_st (σ := ⟨σ.l, σ.g.set i v, σ.h, σ.a⟩) (by nocall) hr) (by simp [nextD, sh_succ])

theorem cs_setFree {pc i v ops} {σ : Sto} {h' : List (List Val)} {dl db} (h : codeAt X.code pc [Instr.setFree i])
    (hv : freeSet σ.h X.cid i v = some h') (hr : Room X (ops.length + 1 + σ.l.length)) :
    dstep K F (X.st pc (v :: ops) σ, sh (ops.length + 1) dl db) =
      some (X.st (pc + 2) (v :: ops) ⟨σ.l, σ.g, h', σ.a⟩, sh (ops.length + 1) dl db) :=
  dstep_mk (fetch_codeAt h) (fstep_setFree h hv) (by simp [preOk, noHeapI, FnVm.need, sh_succ])
    (post_st (σ := ⟨σ.l, σ.g, h', σ.a⟩) (by nocall) hr) (by simp [nextD])

theorem cs_setLocal {pc i v ops} {σ : Sto} {dl db} (h : codeAt X.code pc [Instr.setLocal i]) (hi : i < σ.l.length)
    (hdl : dl.length = σ.l.length) (hdb : db.length = X.base.length) (hr : Room X (ops.length + 1 + σ.l.length)) :
    dstep K F (X.st pc (v :: ops) σ, sh (ops.length + 1) dl db) =
      some (X.st (pc + 2) (v :: ops) ⟨σ.l.set i v, σ.g, σ.h, σ.a⟩, sh (ops.length + 1) (dl.set i true) db) := by
  refine dstep_mk (fetch_codeAt h) (fstep_setLocal h hi) (by simp [preOk, noHeapI, FnVm.need, sh_succ])
    (post_st (σ := ⟨σ.l.set i v, σ.g, σ.h, σ.a⟩) (by nocall) (by simpa using hr)) ?_
  have hb : (X.st pc (v :: ops) σ).act.bp = db.length := hdb.symm
  simp only [nextD, hb]
  exact sh_set _ _ _ _ (by omega)

theorem cs_defLocal {pc i v ops} {σ : Sto} {dl db} (h : codeAt X.code pc [Instr.defLocal i]) (hi : i < σ.l.length)
    (hdl : dl.length = σ.l.length) (hdb : db.length = X.base.length) (hr : Room X (ops.length + σ.l.length)) :
    dstep K F (X.st pc (v :: ops) σ, sh (ops.length + 1) dl db) =
      some (X.st (pc + 2) ops ⟨σ.l.set i v, σ.g, σ.h, σ.a⟩, sh ops.length (dl.set i true) db) := by
  refine dstep_mk (fetch_codeAt h) (fstep_defLocal h hi) (by simp [preOk, noHeapI, FnVm.need, sh_succ])
    (post_st (σ := ⟨σ.l.set i v, σ.g, σ.h, σ.a⟩) (by nocall) (by simpa using hr)) ?_
  have hb : (X.st pc (v :: ops) σ).act.bp = db.length := hdb.symm
  simp only [nextD, hb, sh_succ, List.drop_succ_cons, List.drop_zero]
  exact sh_set _ _ _ _ (by omega)

theorem cs_closure {pc c : Nat} {vs ops : List Val} {σ : Sto} {fd : FnDef} {dl db}
    (h : codeAt X.code pc [Instr.closure c vs.length]) (hk : K[c]? = some (.func fd)) (hr : Room X (ops.length + 1 + σ.l.length)) :
    dstep K F (X.st pc (vs.reverse ++ ops) σ, sh (vs.length + ops.length) dl db) =
      some (X.st (pc + 4) (.clos fd [] σ.h.length :: ops) ⟨σ.l, σ.g, σ.h ++ [vs], σ.a⟩, sh (ops.length + 1) dl db) := by
  refine dstep_mk (fetch_codeAt h) (fstep_closure h hk) ?_ (post_st (σ := ⟨σ.l, σ.g, σ.h ++ [vs], σ.a⟩) (by nocall) hr) ?_
  · simp [preOk, noHeapI, FnVm.need, sh_add]
  · simp [nextD, sh_add, sh_succ]

/-- `Call`: the callee's slots that are not parameters are NOT defined -/
theorem cs_call {pc n : Nat} {vs ops fr : List Val} {σ : Sto} {fd : FnDef} {id : Nat} {code : List Instr} {dl db}
    (h : codeAt X.code pc [Instr.call n]) (hn : vs.length = n) (hp : n = fd.numParams) (hF : F fd = some code)
    (hroom : (fd.numLocals - n) + n + 1 + ops.length + σ.l.length + X.base.length < stackSize) (hfr : X.callers.length + 1 < maxFrames) :
    dstep K F (X.st pc (vs.reverse ++ (.clos fd fr id :: ops)) σ, sh (vs.length + (ops.length + 1)) dl db) =
      some ((X.callee pc code fd id (.clos fd fr id :: (ops ++ (σ.l.reverse ++ X.base)))).st 0 []
              ⟨vs ++ List.replicate (fd.numLocals - n) .null, σ.g, σ.h, σ.a⟩,
            sh 0 (List.replicate n true ++ List.replicate (fd.numLocals - n) false) (sh (ops.length + 1) dl db)) := by
  have hst : X.st pc (vs.reverse ++ Val.clos fd fr id :: ops) σ =
      X.at pc (vs.reverse ++ (Val.clos fd fr id :: (ops ++ (σ.l.reverse ++ X.base)))) σ.g σ.h σ.a := by
    simp [Ctxt.st]
  have hget : (X.st pc (vs.reverse ++ Val.clos fd fr id :: ops) σ).stk[n]? = some (Val.clos fd fr id) := by
    rw [hst]
    show (vs.reverse ++ (Val.clos fd fr id :: (ops ++ (σ.l.reverse ++ X.base))))[n]? = _
    rw [List.getElem?_append_right (by simp [hn])]
    simp [hn]
  refine dstep_mk (fetch_codeAt h) (by rw [hst]; exact fstep_call h hn hp hF) ?_ ?_ ?_
  · simp only [preOk, noHeapI, FnVm.need, hget, Bool.true_and, Bool.and_true]
    rw [← hn, sh_add, sh_succ, take_rep]
    simp
  · simp only [postOk, Bool.and_eq_true, decide_eq_true_eq]
    simp [Ctxt.st, Ctxt.at, Ctxt.callee, hn]
    omega
  · simp only [nextD, hget]
    rw [sh_add]
    simp [sh, hn, List.reverse_append]

theorem cs_retv {pc v ops σ dl db} (h : codeAt X.code pc [Instr.retv]) (hc : X.callers ≠ []) (hdb : db.length = X.base.length)
    (hr : Room X 1) :
    dstep K F (X.st pc (v :: ops) σ, sh (ops.length + 1) dl db) = some (retSt X v σ.g σ.h σ.a, true :: db.tail) := by
  obtain ⟨hr1, hr2⟩ := hr
  refine dstep_mk (fetch_codeAt h) (fs_retv h hc) ?_ ?_ ?_
  · simp [preOk, noHeapI, FnVm.need, sh_succ, Ctxt.st, Ctxt.at]
    omega
  · cases hcs : X.callers with
    | nil => exact absurd hcs hc
    | cons c cs =>
      rw [hcs] at hr2
      simp [postOk, retSt, hcs] at hr2 ⊢
      omega
  · have hb : (X.st pc (v :: ops) σ).act.bp = db.length := hdb.symm
    simp only [nextD, hb]
    unfold sh
    rw [← List.append_assoc, drop_tail]

theorem cs_ret {pc ops σ dl db} (h : codeAt X.code pc [Instr.ret]) (hc : X.callers ≠ []) (hdb : db.length = X.base.length)
    (hr : Room X 1) :
    dstep K F (X.st pc ops σ, sh ops.length dl db) = some (retSt X .null σ.g σ.h σ.a, true :: db.tail) := by
  obtain ⟨hr1, hr2⟩ := hr
  refine dstep_mk (fetch_codeAt h) (fs_ret h hc) ?_ ?_ ?_
  · simp [preOk, noHeapI, FnVm.need, Ctxt.st, Ctxt.at]
    omega
  · cases hcs : X.callers with
    | nil => exact absurd hcs hc
    | cons c cs =>
      rw [hcs] at hr2
      simp [postOk, retSt, hcs] at hr2 ⊢
      omega
  · have hb : (X.st pc ops σ).act.bp = db.length := hdb.symm
    simp only [nextD, hb]
    unfold sh
    rw [← List.append_assoc, drop_tail]

end


/-! ## what is known before and after an evaluation inside an activation -/

/-- before: the shadow `db` / `dl` has the shape of the activation, the slots of `D` are defined, no
builtin-function value is stored, and there is room: `need` more operands in this activation plus
`W` stack slots and one frame per unit of `fuel` -/
structure Pre (W : Nat) (X : Ctxt) (db : List Bool) (ops : List Val) (σ : Sto) (dl : List Bool) (D : List Nat) (need fuel : Nat) : Prop where
  dbl : db.length = X.base.length
  dll : dl.length = σ.l.length
  defd : ∀ i ∈ D, dl[i]? = some true
  nbS : NBS σ
  stk : ops.length + σ.l.length + X.base.length + need + fuel * W < stackSize
  frm : X.callers.length + fuel < maxFrames

/-- after: same number of slots, the defined slots stay defined, no builtin-function value is stored -/
structure Post (σ σ' : Sto) (dl dl' : List Bool) : Prop where
  len : σ'.l.length = σ.l.length
  dlen : dl'.length = dl.length
  mono : ∀ i : Nat, dl[i]? = some true → dl'[i]? = some true
  nbS : NBS σ'

section
variable {W : Nat} {X : Ctxt} {db dl dl' dl'' : List Bool} {ops ops' : List Val} {σ σ' σ'' : Sto} {D D' : List Nat} {n n' fuel : Nat}

theorem Pre.room (P : Pre W X db ops σ dl D n fuel) (j : Nat) (h : j ≤ n) : Room X (ops.length + j + σ.l.length) := by
  have h1 := P.stk
  have h2 := P.frm
  exact ⟨by omega, by omega⟩

theorem Pre.room0 (P : Pre W X db ops σ dl D n fuel) : Room X (ops.length + σ.l.length) := P.room 0 (Nat.zero_le _)

theorem Pre.room1 (P : Pre W X db ops σ dl D n fuel) : Room X 1 := by
  have h1 := P.stk
  have h2 := P.frm
  have : 1 ≤ stackSize := by decide
  exact ⟨by omega, by omega⟩

theorem Pre.sub (P : Pre W X db ops σ dl D n (fuel + 1)) (h : ops'.length + n' ≤ ops.length + n) : Pre W X db ops' σ dl D n' fuel := by
  have h1 := P.stk
  have h2 := P.frm
  rw [Nat.succ_mul] at h1
  exact ⟨P.dbl, P.dll, P.defd, P.nbS, by omega, by omega⟩

theorem Pre.sub0 (P : Pre W X db ops σ dl D n fuel) (h : ops'.length + n' ≤ ops.length + n) : Pre W X db ops' σ dl D n' fuel := by
  have h1 := P.stk
  exact ⟨P.dbl, P.dll, P.defd, P.nbS, by omega, P.frm⟩

theorem Pre.next (P : Pre W X db ops σ dl D n fuel) (Q : Post σ σ' dl dl') : Pre W X db ops σ' dl' D n fuel := by
  have h1 := P.stk
  have h2 := Q.len
  have h3 := Q.dlen
  have h4 := P.dll
  exact ⟨P.dbl, by omega, fun i hi => Q.mono i (P.defd i hi), Q.nbS, by omega, P.frm⟩

theorem Pre.withD (P : Pre W X db ops σ dl D n fuel) (h : ∀ i ∈ D', dl[i]? = some true) : Pre W X db ops σ dl D' n fuel :=
  ⟨P.dbl, P.dll, h, P.nbS, P.stk, P.frm⟩

theorem Post.rfl' (h : NBS σ) : Post σ σ dl dl := ⟨rfl, rfl, fun _ h => h, h⟩

theorem Post.trans (Q1 : Post σ σ' dl dl') (Q2 : Post σ' σ'' dl' dl'') : Post σ σ'' dl dl'' :=
  ⟨Q2.len.trans Q1.len, Q2.dlen.trans Q1.dlen, fun i h => Q2.mono i (Q1.mono i h), Q2.nbS⟩

theorem Post.setA (Q : Post σ σ' dl dl') (a' : Heap) : Post σ ⟨σ'.l, σ'.g, σ'.h, a'⟩ dl dl' :=
  ⟨Q.len, Q.dlen, Q.mono, ⟨Q.nbS.l, Q.nbS.g, Q.nbS.h⟩⟩

theorem Post.gset (Q : Post σ σ' dl dl') {v : Val} (hv : nb v = true) (i : Nat) : Post σ ⟨σ'.l, σ'.g.set i v, σ'.h, σ'.a⟩ dl dl' :=
  ⟨Q.len, Q.dlen, Q.mono, ⟨Q.nbS.l, nbs_set Q.nbS.g hv i, Q.nbS.h⟩⟩

theorem Post.lset (Q : Post σ σ' dl dl') {v : Val} (hv : nb v = true) (i : Nat) : Post σ ⟨σ'.l.set i v, σ'.g, σ'.h, σ'.a⟩ dl dl' :=
  ⟨by simpa using Q.len, Q.dlen, Q.mono, ⟨nbs_set Q.nbS.l hv i, Q.nbS.g, Q.nbS.h⟩⟩

theorem Post.letL (Q : Post σ σ' dl dl') {v : Val} (hv : nb v = true) (i : Nat) :
    Post σ ⟨σ'.l.set i v, σ'.g, σ'.h, σ'.a⟩ dl (dl'.set i true) := by
  refine ⟨by simpa using Q.len, by simpa using Q.dlen, fun j hj => ?_, ⟨nbs_set Q.nbS.l hv i, Q.nbS.g, Q.nbS.h⟩⟩
  have := Q.mono j hj
  by_cases hij : i = j
  · subst hij
    simp [lt_of_get this]
  · simpa [List.getElem?_set_ne hij] using this

theorem Post.setH (Q : Post σ σ' dl dl') {h' : List (List Val)} (hh : ∀ c ∈ h', nbs c) : Post σ ⟨σ'.l, σ'.g, h', σ'.a⟩ dl dl' :=
  ⟨Q.len, Q.dlen, Q.mono, ⟨Q.nbS.l, Q.nbS.g, hh⟩⟩

theorem freeGet_nb {h : List (List Val)} (hN : ∀ c ∈ h, nbs c) {id i : Nat} {v : Val} (hg : freeGet h id i = some v) : nb v = true := by
  unfold freeGet at hg
  cases hc : h[id]? with
  | none => simp [hc] at hg
  | some fr =>
    simp only [hc] at hg
    exact hN fr (List.mem_of_getElem? hc) v (List.mem_of_getElem? hg)

theorem freeSet_nbs {h h' : List (List Val)} (hN : ∀ c ∈ h, nbs c) {id i : Nat} {v : Val} (hv : nb v = true)
    (hs : freeSet h id i v = some h') : ∀ c ∈ h', nbs c := by
  unfold freeSet at hs
  cases hc : h[id]? with
  | none => simp [hc] at hs
  | some fr =>
    simp only [hc] at hs
    by_cases hi : i < fr.length
    · simp only [hi, if_true, Option.some.injEq] at hs
      subst hs
      intro c hcm
      rcases List.mem_or_eq_of_mem_set hcm with hcm | rfl
      · exact hN c hcm
      · exact nbs_set (hN fr (List.mem_of_getElem? hc)) hv i
    · simp [hi] at hs

theorem pushH_nbs {h : List (List Val)} (hN : ∀ c ∈ h, nbs c) {vs : List Val} (hv : nbs vs) : ∀ c ∈ h ++ [vs], nbs c := by
  intro c hc
  rcases List.mem_append.mp hc with hc | hc
  · exact hN c hc
  · simp at hc; subst hc; exact hv

end

/-! ## the checked statements of compiler correctness -/

/-- where a statement ends, with the shadow there: in the caller's frame after a `return` (the
callee slot and everything above it replaced by the value) -/
def exitSD (X : Ctxt) (ctx : List LoopCtx) (endPos : Nat) (ops : List Val) (σ : Sto) (dl db : List Bool) (f : FFlow) : FSt × List Bool :=
  (exitS X ctx endPos ops σ f,
    match f with
    | .ret _ => true :: db.tail
    | _ => sh ops.length dl db)

def exitVD (X : Ctxt) (ctx : List LoopCtx) (endPos : Nat) (ops : List Val) (σ : Sto) (dl db : List Bool) (f : FFlow) (bv : Val) : FSt × List Bool :=
  (exitV X ctx endPos ops σ f bv,
    match f with
    | .normal => sh (ops.length + 1) dl db
    | .ret _ => true :: db.tail
    | _ => sh ops.length dl db)

def exitTD (X : Ctxt) (ctx : List LoopCtx) (ops : List Val) (σ : Sto) (dl db : List Bool) (f : FFlow) (bv : Val) : FSt × List Bool :=
  (exitT X ctx ops σ f bv,
    match f with
    | .normal => true :: db.tail
    | .ret _ => true :: db.tail
    | _ => sh ops.length dl db)

/-- what a statement leaves: `Post`, and neither its value nor a returned value is a builtin function -/
structure PostS (σ σ' : Sto) (dl dl' : List Bool) (f : FFlow) (bv : Val) : Prop where
  post : Post σ σ' dl dl'
  bv : nb bv = true
  fl : ∀ v, f = .ret v → nb v = true

section
variable (Φ : FnDef → Option FDecl) (K : List Val) (F : FnDef → Option (List Instr)) (W : Nat)

/-- every declaration is in the fragment, reads no slot before its `let` (the parameters are
defined at entry), and an activation of it needs at most `W` stack slots -/
def GoodΦ : Prop :=
  ∀ fd d, Φ fd = some d → fragP d.body = true ∧ initP (List.range d.np) d.body = true ∧ d.np ≤ d.nl ∧ d.nl + sizeP d.body + 3 ≤ W

def CSoundE (fuel : Nat) : Prop :=
  ∀ (e : FExpr) (X : Ctxt) (pos k : Nat) (ops : List Val) (cx : Option (FnDef × Nat)) (σ σ' : Sto) (v : Val) (db dl : List Bool) (D : List Nat),
    codeAt X.code pos (compileE pos k e) → poolAt K k (constsE e) → Agree cx X → evalE Φ fuel cx σ e = some (v, σ') →
    fragE e = true → initE D e = true → Pre W X db ops σ dl D (sizeE e) fuel →
    DSteps K F (X.st pos ops σ, sh ops.length dl db) (X.st (pos + bytes (compileE pos k e)) (v :: ops) σ', sh (ops.length + 1) dl db)
      ∧ Post σ σ' dl dl ∧ nb v = true

def CSoundArgs (fuel : Nat) : Prop :=
  ∀ (args : FArgs) (X : Ctxt) (pos k : Nat) (ops : List Val) (cx : Option (FnDef × Nat)) (σ σ' : Sto) (vs : List Val) (db dl : List Bool) (D : List Nat),
    codeAt X.code pos (compileArgs pos k args) → poolAt K k (constsArgs args) → Agree cx X →
    evalArgs Φ fuel cx σ args = some (vs, σ') →
    fragArgs args = true → initArgs D args = true → Pre W X db ops σ dl D (sizeArgs args) fuel →
    DSteps K F (X.st pos ops σ, sh ops.length dl db)
        (X.st (pos + bytes (compileArgs pos k args)) (vs.reverse ++ ops) σ', sh (vs.length + ops.length) dl db)
      ∧ vs.length = args.length ∧ Post σ σ' dl dl ∧ nbs vs

def CSoundS (fuel : Nat) : Prop :=
  ∀ (s : FStmt) (X : Ctxt) (pos k : Nat) (ctx : List LoopCtx) (ops : List Val) (cx : Option (FnDef × Nat)) (σ σ' : Sto) (f : FFlow) (bv : Val)
    (db dl : List Bool) (D : List Nat),
    codeAt X.code pos (compileS pos k ctx s) → poolAt K k (constsS s) → Agree cx X →
    evalS Φ fuel cx σ s = some (σ', f, bv) →
    fragS s = true → initS D s = true → Pre W X db ops σ dl D (sizeS s) fuel →
    ∃ dl', DSteps K F (X.st pos ops σ, sh ops.length dl db) (exitSD X ctx (pos + bytes (compileS pos k ctx s)) ops σ' dl' db f)
      ∧ PostS σ σ' dl dl' f bv ∧ (f = .normal → ∀ i ∈ defS s D, dl'[i]? = some true)

def CSoundSV (fuel : Nat) : Prop :=
  ∀ (s : FStmt) (X : Ctxt) (pos k : Nat) (ctx : List LoopCtx) (ops : List Val) (cx : Option (FnDef × Nat)) (σ σ' : Sto) (f : FFlow) (bv : Val)
    (db dl : List Bool) (D : List Nat),
    codeAt X.code pos (valueOf s.isExprStmt (compileS pos k ctx s)) → poolAt K k (constsS s) → Agree cx X →
    evalS Φ fuel cx σ s = some (σ', f, bv) →
    fragS s = true → initS D s = true → Pre W X db ops σ dl D (sizeS s + 1) fuel →
    ∃ dl', DSteps K F (X.st pos ops σ, sh ops.length dl db)
        (exitVD X ctx (pos + bytes (valueOf s.isExprStmt (compileS pos k ctx s))) ops σ' dl' db f bv)
      ∧ PostS σ σ' dl dl' f bv

def CSoundST (fuel : Nat) : Prop :=
  ∀ (s : FStmt) (X : Ctxt) (pos k : Nat) (ctx : List LoopCtx) (ops : List Val) (fd : FnDef) (id : Nat) (σ σ' : Sto) (f : FFlow) (bv : Val)
    (db dl : List Bool) (D : List Nat),
    codeAt X.code pos (tailOf s (compileS pos k ctx s)) → poolAt K k (constsS s) → Agree (some (fd, id)) X →
    evalS Φ fuel (some (fd, id)) σ s = some (σ', f, bv) →
    fragS s = true → initS D s = true → Pre W X db ops σ dl D (sizeS s + 1) fuel →
    ∃ dl', DSteps K F (X.st pos ops σ, sh ops.length dl db) (exitTD X ctx ops σ' dl' db f bv) ∧ PostS σ σ' dl dl' f bv

def CSoundP (fuel : Nat) : Prop :=
  ∀ (ss : List FStmt) (X : Ctxt) (pos k : Nat) (ctx : List LoopCtx) (ops : List Val) (cx : Option (FnDef × Nat)) (σ σ' : Sto) (f : FFlow) (bv : Val)
    (db dl : List Bool) (D : List Nat),
    codeAt X.code pos (compileP pos k ctx ss) → poolAt K k (constsP ss) → Agree cx X →
    evalP Φ fuel cx σ ss = some (σ', f, bv) →
    fragP ss = true → initP D ss = true → Pre W X db ops σ dl D (sizeP ss) fuel →
    ∃ dl', DSteps K F (X.st pos ops σ, sh ops.length dl db) (exitSD X ctx (pos + bytes (compileP pos k ctx ss)) ops σ' dl' db f)
      ∧ PostS σ σ' dl dl' f bv

def CSoundV (fuel : Nat) : Prop :=
  ∀ (ss : List FStmt) (X : Ctxt) (pos k : Nat) (ctx : List LoopCtx) (ops : List Val) (cx : Option (FnDef × Nat)) (σ σ' : Sto) (f : FFlow) (bv : Val)
    (db dl : List Bool) (D : List Nat),
    codeAt X.code pos (branchV pos k ctx ss) → poolAt K k (constsP ss) → Agree cx X →
    evalP Φ fuel cx σ ss = some (σ', f, bv) →
    fragP ss = true → initP D ss = true → Pre W X db ops σ dl D (sizeP ss + 1) fuel →
    ∃ dl', DSteps K F (X.st pos ops σ, sh ops.length dl db) (exitVD X ctx (pos + bytes (branchV pos k ctx ss)) ops σ' dl' db f bv)
      ∧ PostS σ σ' dl dl' f bv

def CSoundT (fuel : Nat) : Prop :=
  ∀ (ss : List FStmt) (X : Ctxt) (pos k : Nat) (ctx : List LoopCtx) (ops : List Val) (fd : FnDef) (id : Nat) (σ σ' : Sto) (f : FFlow) (bv : Val)
    (db dl : List Bool) (D : List Nat),
    codeAt X.code pos (tailP pos k ctx ss) → poolAt K k (constsP ss) → Agree (some (fd, id)) X →
    evalP Φ fuel (some (fd, id)) σ ss = some (σ', f, bv) →
    fragP ss = true → initP D ss = true → Pre W X db ops σ dl D (sizeP ss + 1) fuel →
    ∃ dl', DSteps K F (X.st pos ops σ, sh ops.length dl db) (exitTD X ctx ops σ' dl' db f bv) ∧ PostS σ σ' dl dl' f bv

def CSoundIfV (fuel : Nat) : Prop :=
  ∀ (ls l : Nat) (c : FExpr) (thn els : List FStmt) (X : Ctxt) (pos k : Nat) (ctx : List LoopCtx) (ops : List Val) (cx : Option (FnDef × Nat))
    (σ σ' : Sto) (f : FFlow) (bv : Val) (db dl : List Bool) (D : List Nat),
    codeAt X.code pos (ifV pos k ctx c thn els) → poolAt K k (constsE c ++ constsP thn ++ constsP els) → Agree cx X →
    evalS Φ fuel cx σ (.ifS ls l c thn els) = some (σ', f, bv) →
    fragS (.ifS ls l c thn els) = true → initS D (.ifS ls l c thn els) = true → Pre W X db ops σ dl D (sizeS (.ifS ls l c thn els)) fuel →
    ∃ dl', DSteps K F (X.st pos ops σ, sh ops.length dl db) (exitVD X ctx (pos + bytes (ifV pos k ctx c thn els)) ops σ' dl' db f bv)
      ∧ PostS σ σ' dl dl' f bv

structure CSound (fuel : Nat) : Prop where
  E : CSoundE Φ K F W fuel
  Args : CSoundArgs Φ K F W fuel
  S : CSoundS Φ K F W fuel
  SV : CSoundSV Φ K F W fuel
  ST : CSoundST Φ K F W fuel
  P : CSoundP Φ K F W fuel
  V : CSoundV Φ K F W fuel
  T : CSoundT Φ K F W fuel
  IfV : CSoundIfV Φ K F W fuel

end

theorem sizeArms_pos (a : FArms) : 1 ≤ Fn.sizeArms a := by
  cases a <;> simp only [Fn.sizeArms] <;> omega

theorem sizeE_pos (e : FExpr) : 1 ≤ Fn.sizeE e := by
  cases e with
  | matchE l s arms => have := sizeArms_pos arms; simp only [Fn.sizeE]; omega
  | _ => simp only [Fn.sizeE] <;> omega

macro "sz" : tactic =>
  `(tactic| ((try simp only [sizeE, sizeArgs, sizeS, sizeP, capsBytes, capInstr, Instr.size, List.length_cons, List.length_nil, List.length_append,
      List.length_reverse]) <;> omega))


section
variable {Φ : FnDef → Option FDecl} {K : List Val} {F : FnDef → Option (List Instr)} {W : Nat}

theorem capVal_nb {cx : Option (FnDef × Nat)} {σ : Sto} (hN : NBS σ) {c : Cap} {v : Val} (h : capVal cx σ c = some v) : nb v = true := by
  cases c with
  | loc i => exact hN.l v (List.mem_of_getElem? h)
  | free i =>
    cases cx with
    | none => simp [capVal] at h
    | some cc => exact freeGet_nb hN.h h
  | self =>
    cases cx with
    | none => simp [capVal] at h
    | some cc => simp only [capVal, Option.some.injEq] at h; subst h; rfl

/-- the captured values are loaded in the order of their free indices; a captured local is a defined slot -/
theorem caps_load_c : ∀ (caps : List Cap) (X : Ctxt) (pos : Nat) (ops : List Val) (cx : Option (FnDef × Nat)) (σ : Sto) (vs : List Val)
    (db dl : List Bool) (D : List Nat) (fuel : Nat),
    codeAt X.code pos (caps.map capInstr) → Agree cx X → capVals cx σ caps = some vs →
    caps.all (capOK D) = true → Pre W X db ops σ dl D (capsBytes caps) fuel →
    DSteps K F (X.st pos ops σ, sh ops.length dl db) (X.st (pos + bytes (caps.map capInstr)) (vs.reverse ++ ops) σ, sh (vs.length + ops.length) dl db)
      ∧ vs.length = caps.length ∧ nbs vs
  | [], X, pos, ops, cx, σ, vs, db, dl, D, fuel, _, _, hc, _, _ => by
    simp only [capVals, Option.some.injEq] at hc
    subst hc
    refine ⟨(DSteps.refl _).to (by simp [bytes]), rfl, ?_⟩
    intro v hv; cases hv
  | c :: rest, X, pos, ops, cx, σ, vs, db, dl, D, fuel, h, hx, hc, hok, hP => by
    simp only [capVals] at hc
    cases hv : capVal cx σ c with
    | none => simp [hv] at hc
    | some v =>
      simp only [hv] at hc
      cases hr : capVals cx σ rest with
      | none => simp [hr] at hc
      | some vr =>
        simp only [hr, Option.some.injEq] at hc
        subst hc
        simp only [List.map_cons] at h ⊢
        simp only [List.all_cons, Bool.and_eq_true] at hok
        obtain ⟨h1, h2⟩ := codeAt_cons h
        have hnv := capVal_nb hP.nbS hv
        have s1 : DSteps K F (X.st pos ops σ, sh ops.length dl db) (X.st (pos + (capInstr c).size) (v :: ops) σ, sh (ops.length + 1) dl db) := by
          cases c with
          | loc i =>
            simp only [capVal] at hv
            simp only [capInstr] at h1 ⊢
            have hi : i ∈ D := by simpa [capOK] using hok.1
            exact DS.one (cs_getLocal h1 hv (hP.defd i hi) hP.dbl (hP.room 1 (by sz)))
          | free i =>
            cases cx with
            | none => simp [capVal] at hv
            | some cc =>
              obtain ⟨fd, id⟩ := cc
              simp only [capVal] at hv
              simp only [capInstr] at h1 ⊢
              obtain ⟨_, hid, _⟩ := hx fd id rfl
              exact DS.one (cs_getFree h1 (by rw [hid]; exact hv) (hP.room 1 (by sz)))
          | self =>
            cases cx with
            | none => simp [capVal] at hv
            | some cc =>
              obtain ⟨fd, id⟩ := cc
              simp only [capVal, Option.some.injEq] at hv
              subst hv
              simp only [capInstr] at h1 ⊢
              obtain ⟨hfd, hid, _⟩ := hx fd id rfl
              exact (DS.one (cs_currClosure h1 (hP.room 1 (by sz)))).to (by rw [hfd, hid]; rfl)
        have hsz := (capInstr c).size_pos
        obtain ⟨s2, hl, hnr⟩ := caps_load_c rest X (pos + (capInstr c).size) (v :: ops) cx σ vr db dl D fuel h2 hx hr hok.2
          (hP.sub0 (by simp only [capsBytes, List.length_cons]; omega))
        have e1 : pos + (capInstr c).size + bytes (rest.map capInstr) = pos + bytes (capInstr c :: rest.map capInstr) := by
          simp [bytes]; omega
        have e2 : vr.reverse ++ v :: ops = (v :: vr).reverse ++ ops := by simp
        have e3 : vr.length + (v :: ops).length = (v :: vr).length + ops.length := by simp; omega
        refine ⟨(s1.trans s2).to (by rw [e1, e2, e3]), by simp [hl], ?_⟩
        · intro x hx'
          rcases List.mem_cons.mp hx' with rfl | hx'
          · exact hnv
          · exact hnr x hx'

theorem csoundE_succ (fuel : Nat) (ih : CSound Φ K F W fuel) (hL : Linked Φ K F) (hG : GoodΦ Φ W) : CSoundE Φ K F W (fuel + 1) := by
  intro e X pos k ops cx σ σ' v db dl D h hp hx he hfr hin hP
  cases e with
  | lit l x =>
    simp only [evalE, Option.some.injEq, Prod.mk.injEq] at he
    obtain ⟨rfl, rfl⟩ := he
    simp only [compileE] at h ⊢
    simp only [constsE] at hp
    simp only [fragE] at hfr
    exact ⟨(DS.one (cs_const h (poolAt_get hp) (hP.room 1 (by sz)))).toPc (by parith), .rfl' hP.nbS, hfr⟩
  | tru l =>
    simp only [evalE, Option.some.injEq, Prod.mk.injEq] at he
    obtain ⟨rfl, rfl⟩ := he
    simp only [compileE] at h ⊢
    exact ⟨(DS.one (cs_tru h (hP.room 1 (by sz)))).toPc (by parith), .rfl' hP.nbS, rfl⟩
  | fls l =>
    simp only [evalE, Option.some.injEq, Prod.mk.injEq] at he
    obtain ⟨rfl, rfl⟩ := he
    simp only [compileE] at h ⊢
    exact ⟨(DS.one (cs_fls h (hP.room 1 (by sz)))).toPc (by parith), .rfl' hP.nbS, rfl⟩
  | null l =>
    simp only [evalE, Option.some.injEq, Prod.mk.injEq] at he
    obtain ⟨rfl, rfl⟩ := he
    simp only [compileE] at h ⊢
    exact ⟨(DS.one (cs_null h (hP.room 1 (by sz)))).toPc (by parith), .rfl' hP.nbS, rfl⟩
  | gget l i =>
    simp only [evalE, Option.some.injEq, Prod.mk.injEq] at he
    obtain ⟨rfl, rfl⟩ := he
    simp only [compileE] at h ⊢
    exact ⟨(DS.one (cs_getGlobal h (hP.room 1 (by sz)))).toPc (by parith), .rfl' hP.nbS, nbs_getD hP.nbS.g i⟩
  | lget l i =>
    simp only [evalE] at he
    cases hv : σ.l[i]? with
    | none => simp [hv] at he
    | some x =>
      simp only [hv, Option.some.injEq, Prod.mk.injEq] at he
      obtain ⟨rfl, rfl⟩ := he
      simp only [compileE] at h ⊢
      have hi : i ∈ D := by simpa [initE] using hin
      exact ⟨(DS.one (cs_getLocal h hv (hP.defd i hi) hP.dbl (hP.room 1 (by sz)))).toPc (by parith), .rfl' hP.nbS,
        hP.nbS.l _ (List.mem_of_getElem? hv)⟩
  | curr l =>
    simp only [evalE] at he
    cases cx with
    | none => simp at he
    | some c =>
      obtain ⟨fd, id⟩ := c
      simp only [Option.some.injEq, Prod.mk.injEq] at he
      obtain ⟨rfl, rfl⟩ := he
      simp only [compileE] at h ⊢
      obtain ⟨hfd, hid, _⟩ := hx fd id rfl
      exact ⟨((DS.one (cs_currClosure h (hP.room 1 (by sz)))).to (by rw [hfd, hid])).toPc (by parith), .rfl' hP.nbS, rfl⟩
  | fget l i =>
    simp only [evalE] at he
    cases cx with
    | none => simp at he
    | some c =>
      obtain ⟨fd, id⟩ := c
      simp only at he
      cases hv : freeGet σ.h id i with
      | none => simp [hv] at he
      | some x =>
        simp only [hv, Option.some.injEq, Prod.mk.injEq] at he
        obtain ⟨rfl, rfl⟩ := he
        simp only [compileE] at h ⊢
        obtain ⟨_, hid, _⟩ := hx fd id rfl
        exact ⟨(DS.one (cs_getFree h (by rw [hid]; exact hv) (hP.room 1 (by sz)))).toPc (by parith), .rfl' hP.nbS, freeGet_nb hP.nbS.h hv⟩
  | fset l i a =>
    simp only [compileE] at h ⊢
    simp only [evalE] at he
    simp only [constsE] at hp
    simp only [fragE] at hfr
    simp only [initE] at hin
    cases hea : evalE Φ fuel cx σ a with
    | none => simp [hea] at he
    | some r =>
      obtain ⟨va, σ1⟩ := r
      simp only [hea] at he
      cases cx with
      | none => simp at he
      | some c =>
        obtain ⟨fd, id⟩ := c
        simp only at he
        cases hv : freeSet σ1.h id i va with
        | none => simp [hv] at he
        | some h' =>
          simp only [hv, Option.some.injEq, Prod.mk.injEq] at he
          obtain ⟨rfl, rfl⟩ := he
          generalize hca : compileE pos k a = ca at *
          obtain ⟨ha, Qa, nva⟩ := ih.E a X pos k ops (some (fd, id)) σ σ1 va db dl D (hca ▸ codeAt_left h) hp hx hea hfr hin (hP.sub (by sz))
          rw [hca] at ha
          have hs : codeAt X.code (pos + bytes ca) [Instr.setFree i] := codeAt_right h
          obtain ⟨_, hid, _⟩ := hx fd id rfl
          exact ⟨(ha.trans (DS.one (cs_setFree hs (by rw [hid]; exact hv) ((hP.next Qa).room 1 (by sz))))).toPc (by parith),
            Qa.setH (freeSet_nbs Qa.nbS.h nva hv), nva⟩
  | mkclos l code lines np nl body caps =>
    simp only [compileE] at h ⊢
    simp only [evalE] at he
    simp only [constsE] at hp
    simp only [initE] at hin
    cases hc : capVals cx σ caps with
    | none => simp [hc] at he
    | some vs =>
      simp only [hc, Option.some.injEq, Prod.mk.injEq] at he
      obtain ⟨rfl, rfl⟩ := he
      obtain ⟨s1, hlen, hnvs⟩ := caps_load_c (K := K) (F := F) (W := W) caps X pos ops cx σ vs db dl D fuel (codeAt_left h) hx hc hin (hP.sub (by sz))
      have hcl : codeAt X.code (pos + bytes (caps.map capInstr)) [Instr.closure (k + (constsP body).length) vs.length] := by
        rw [hlen]; exact codeAt_right h
      have hk : K[k + (constsP body).length]? = some (.func (mkFd code lines ⟨np, nl, body, l⟩)) := poolAt_get (poolAt_right hp)
      exact ⟨(s1.trans (DS.one (cs_closure hcl hk (hP.room 1 (by sz))))).toPc (by parith),
        (Post.rfl' hP.nbS).setH (pushH_nbs hP.nbS.h hnvs), rfl⟩
  | un l op a =>
    simp only [compileE] at h ⊢
    simp only [evalE] at he
    simp only [constsE] at hp
    simp only [fragE] at hfr
    simp only [initE] at hin
    cases hea : evalE Φ fuel cx σ a with
    | none => simp [hea] at he
    | some r =>
      obtain ⟨va, σ1⟩ := r
      simp only [hea] at he
      cases hop : unH σ1.a op va with
      | ok r' =>
        simp only [hop, Option.some.injEq, Prod.mk.injEq] at he
        obtain ⟨rfl, rfl⟩ := he
        generalize hca : compileE pos k a = ca at *
        obtain ⟨ha, Qa, nva⟩ := ih.E a X pos k ops cx σ σ1 va db dl D (hca ▸ codeAt_left h) hp hx hea hfr hin (hP.sub (by sz))
        rw [hca] at ha
        have hu : codeAt X.code (pos + bytes ca) [unInstr op] := codeAt_right h
        exact ⟨(ha.trans (DS.one (cs_un hu hop ((hP.next Qa).room 1 (by sz))))).toPc
          (by simp [bytes_append, bytes]; cases op <;> simp [unInstr, Instr.size] <;> omega), Qa, unH_nb hop⟩
      | err m => simp [hop] at he
      | panic m => simp [hop] at he
  | bin l op a b =>
    simp only [compileE] at h ⊢
    simp only [evalE] at he
    simp only [constsE] at hp
    simp only [fragE, Bool.and_eq_true] at hfr
    simp only [initE, Bool.and_eq_true] at hin
    cases hea : evalE Φ fuel cx σ a with
    | none => simp [hea] at he
    | some ra =>
      obtain ⟨va, σ1⟩ := ra
      simp only [hea] at he
      cases heb : evalE Φ fuel cx σ1 b with
      | none => simp [heb] at he
      | some rb =>
        obtain ⟨vb, σ2⟩ := rb
        simp only [heb] at he
        generalize hca : compileE pos k a = ca at *
        generalize hcb : compileE (pos + bytes ca) (k + (constsE a).length) b = cb at *
        obtain ⟨ha, Qa, nva⟩ := ih.E a X pos k ops cx σ σ1 va db dl D (hca ▸ codeAt_left (codeAt_left h)) (poolAt_left hp) hx hea hfr.1 hin.1
          (hP.sub (by sz))
        obtain ⟨hb, Qb, nvb⟩ := ih.E b X (pos + bytes ca) (k + (constsE a).length) (va :: ops) cx σ1 σ2 vb db dl D
          (hcb ▸ codeAt_right (codeAt_left h)) (poolAt_right hp) hx heb hfr.2 hin.2 ((hP.next Qa).sub (by sz))
        rw [hca] at ha; rw [hcb] at hb
        have ho : codeAt X.code (pos + bytes ca + bytes cb) [Instr.op op] := (codeAt_right h).to (by parith)
        have hR := (hP.next (Qa.trans Qb)).room 1 (by sz)
        cases hop : opH σ2.a op va vb with
        | same r' =>
          simp only [hop, Option.some.injEq, Prod.mk.injEq] at he
          obtain ⟨rfl, rfl⟩ := he
          exact ⟨((ha.trans hb).trans (DS.one (cs_op ho hop hR))).toPc (by parith), Qa.trans Qb, opH_same_nb hop⟩
        | new r' a' =>
          simp only [hop, Option.some.injEq, Prod.mk.injEq] at he
          obtain ⟨rfl, rfl⟩ := he
          exact ⟨((ha.trans hb).trans (DS.one (cs_opNew ho hop hR))).toPc (by parith), (Qa.trans Qb).setA a', opH_new_nb hop⟩
        | fail => simp [hop] at he
  | lt l a b =>
    simp only [compileE] at h ⊢
    simp only [evalE] at he
    simp only [constsE] at hp
    simp only [fragE, Bool.and_eq_true] at hfr
    simp only [initE, Bool.and_eq_true] at hin
    cases heb : evalE Φ fuel cx σ b with
    | none => simp [heb] at he
    | some rb =>
      obtain ⟨vb, σ1⟩ := rb
      simp only [heb] at he
      cases hea : evalE Φ fuel cx σ1 a with
      | none => simp [hea] at he
      | some ra =>
        obtain ⟨va, σ2⟩ := ra
        simp only [hea] at he
        generalize hcb : compileE pos k b = cb at *
        generalize hca : compileE (pos + bytes cb) (k + (constsE b).length) a = ca at *
        obtain ⟨hb, Qb, nvb⟩ := ih.E b X pos k ops cx σ σ1 vb db dl D (hcb ▸ codeAt_left (codeAt_left h)) (poolAt_left hp) hx heb hfr.2 hin.2
          (hP.sub (by sz))
        obtain ⟨ha, Qa, nva⟩ := ih.E a X (pos + bytes cb) (k + (constsE b).length) (vb :: ops) cx σ1 σ2 va db dl D
          (hca ▸ codeAt_right (codeAt_left h)) (poolAt_right hp) hx hea hfr.1 hin.1 ((hP.next Qb).sub (by sz))
        rw [hcb] at hb; rw [hca] at ha
        have ho : codeAt X.code (pos + bytes cb + bytes ca) [Instr.op .greater] := (codeAt_right h).to (by parith)
        have hR := (hP.next (Qb.trans Qa)).room 1 (by sz)
        cases hop : opH σ2.a .greater vb va with
        | same r' =>
          simp only [hop, Option.some.injEq, Prod.mk.injEq] at he
          obtain ⟨rfl, rfl⟩ := he
          exact ⟨((hb.trans ha).trans (DS.one (cs_op ho hop hR))).toPc (by parith), Qb.trans Qa, opH_same_nb hop⟩
        | new r' a' =>
          simp only [hop, Option.some.injEq, Prod.mk.injEq] at he
          obtain ⟨rfl, rfl⟩ := he
          exact ⟨((hb.trans ha).trans (DS.one (cs_opNew ho hop hR))).toPc (by parith), (Qb.trans Qa).setA a', opH_new_nb hop⟩
        | fail => simp [hop] at he
  | le l a b =>
    simp only [compileE] at h ⊢
    simp only [evalE] at he
    simp only [constsE] at hp
    simp only [fragE, Bool.and_eq_true] at hfr
    simp only [initE, Bool.and_eq_true] at hin
    cases heb : evalE Φ fuel cx σ b with
    | none => simp [heb] at he
    | some rb =>
      obtain ⟨vb, σ1⟩ := rb
      simp only [heb] at he
      cases hea : evalE Φ fuel cx σ1 a with
      | none => simp [hea] at he
      | some ra =>
        obtain ⟨va, σ2⟩ := ra
        simp only [hea] at he
        generalize hcb : compileE pos k b = cb at *
        generalize hca : compileE (pos + bytes cb) (k + (constsE b).length) a = ca at *
        obtain ⟨hb, Qb, nvb⟩ := ih.E b X pos k ops cx σ σ1 vb db dl D (hcb ▸ codeAt_left (codeAt_left h)) (poolAt_left hp) hx heb hfr.2 hin.2
          (hP.sub (by sz))
        obtain ⟨ha, Qa, nva⟩ := ih.E a X (pos + bytes cb) (k + (constsE b).length) (vb :: ops) cx σ1 σ2 va db dl D
          (hca ▸ codeAt_right (codeAt_left h)) (poolAt_right hp) hx hea hfr.1 hin.1 ((hP.next Qb).sub (by sz))
        rw [hcb] at hb; rw [hca] at ha
        have ho : codeAt X.code (pos + bytes cb + bytes ca) [Instr.op .greaterEq] := (codeAt_right h).to (by parith)
        have hR := (hP.next (Qb.trans Qa)).room 1 (by sz)
        cases hop : opH σ2.a .greaterEq vb va with
        | same r' =>
          simp only [hop, Option.some.injEq, Prod.mk.injEq] at he
          obtain ⟨rfl, rfl⟩ := he
          exact ⟨((hb.trans ha).trans (DS.one (cs_op ho hop hR))).toPc (by parith), Qb.trans Qa, opH_same_nb hop⟩
        | new r' a' =>
          simp only [hop, Option.some.injEq, Prod.mk.injEq] at he
          obtain ⟨rfl, rfl⟩ := he
          exact ⟨((hb.trans ha).trans (DS.one (cs_opNew ho hop hR))).toPc (by parith), (Qb.trans Qa).setA a', opH_new_nb hop⟩
        | fail => simp [hop] at he
  | and l a b =>
    simp only [compileE] at h ⊢
    simp only [evalE] at he
    simp only [constsE] at hp
    simp only [fragE, Bool.and_eq_true] at hfr
    simp only [initE, Bool.and_eq_true] at hin
    cases hea : evalE Φ fuel cx σ a with
    | none => simp [hea] at he
    | some ra =>
      obtain ⟨va, σ1⟩ := ra
      simp only [hea] at he
      generalize hca : compileE pos k a = ca at *
      generalize hcb : compileE (pos + bytes ca + 3 + 1) (k + (constsE a).length) b = cb at *
      obtain ⟨ha, Qa, nva⟩ := ih.E a X pos k ops cx σ σ1 va db dl D (hca ▸ codeAt_left (codeAt_left h)) (poolAt_left hp) hx hea hfr.1 hin.1
        (hP.sub (by sz))
      rw [hca] at ha
      have hj : codeAt X.code (pos + bytes ca) [Instr.jifnp (pos + bytes ca + 3 + 1 + bytes cb)] :=
        codeAt_mid ca [_] (.pop :: cb) (by simpa using h)
      have hpop : codeAt X.code (pos + bytes ca + 3) [Instr.pop] := by
        have := codeAt_mid (ca ++ [.jifnp (pos + bytes ca + 3 + 1 + bytes cb)]) [.pop] cb (by simpa using h)
        simpa [bytes_append, bytes, Instr.size, Nat.add_assoc] using this
      have hbb : codeAt X.code (pos + bytes ca + 3 + 1) cb := (codeAt_right h).to (by parith)
      have hP1 := hP.next Qa
      by_cases hf : falseyH σ1.a va = true
      · simp only [hf, if_true, Option.some.injEq, Prod.mk.injEq] at he
        obtain ⟨rfl, rfl⟩ := he
        refine ⟨ha.trans ((DS.one (cs_jifnp hj (hP1.room 1 (by sz)))).toPc ?_), Qa, nva⟩
        simp [hf, bytes_append, bytes, Instr.size]; omega
      · simp only [hf, Bool.false_eq_true, if_false] at he
        obtain ⟨hb, Qb, nvb⟩ := ih.E b X (pos + bytes ca + 3 + 1) (k + (constsE a).length) ops cx σ1 σ' v db dl D (hcb ▸ hbb) (poolAt_right hp) hx he
          hfr.2 hin.2 (hP1.sub (by sz))
        rw [hcb] at hb
        refine ⟨ha.trans (((DS.one (cs_jifnp hj (hP1.room 1 (by sz)))).toPc ?_).trans (((DS.one (cs_pop hpop hP1.room0)).trans hb).toPc (by parith))),
          Qa.trans Qb, nvb⟩
        simp [hf]
  | or l a b =>
    simp only [compileE] at h ⊢
    simp only [evalE] at he
    simp only [constsE] at hp
    simp only [fragE, Bool.and_eq_true] at hfr
    simp only [initE, Bool.and_eq_true] at hin
    cases hea : evalE Φ fuel cx σ a with
    | none => simp [hea] at he
    | some ra =>
      obtain ⟨va, σ1⟩ := ra
      simp only [hea] at he
      generalize hca : compileE pos k a = ca at *
      generalize hcb : compileE (pos + bytes ca + 3 + 3 + 1) (k + (constsE a).length) b = cb at *
      obtain ⟨ha, Qa, nva⟩ := ih.E a X pos k ops cx σ σ1 va db dl D (hca ▸ codeAt_left (codeAt_left h)) (poolAt_left hp) hx hea hfr.1 hin.1
        (hP.sub (by sz))
      rw [hca] at ha
      have hj : codeAt X.code (pos + bytes ca) [Instr.jifnp (pos + bytes ca + 3 + 3)] :=
        codeAt_mid ca [_] (.jump (pos + bytes ca + 3 + 3 + 1 + bytes cb) :: .pop :: cb) (by simpa using h)
      have hjmp : codeAt X.code (pos + bytes ca + 3) [Instr.jump (pos + bytes ca + 3 + 3 + 1 + bytes cb)] := by
        have := codeAt_mid (ca ++ [.jifnp (pos + bytes ca + 3 + 3)]) [.jump (pos + bytes ca + 3 + 3 + 1 + bytes cb)] (.pop :: cb) (by simpa using h)
        simpa [bytes_append, bytes, Instr.size, Nat.add_assoc] using this
      have hpop : codeAt X.code (pos + bytes ca + 3 + 3) [Instr.pop] := by
        have := codeAt_mid (ca ++ [.jifnp (pos + bytes ca + 3 + 3), .jump (pos + bytes ca + 3 + 3 + 1 + bytes cb)]) [.pop] cb (by simpa using h)
        simpa [bytes_append, bytes, Instr.size, Nat.add_assoc] using this
      have hbb : codeAt X.code (pos + bytes ca + 3 + 3 + 1) cb := (codeAt_right h).to (by parith)
      have hP1 := hP.next Qa
      by_cases hf : falseyH σ1.a va = true
      · simp only [hf, if_true] at he
        obtain ⟨hb, Qb, nvb⟩ := ih.E b X (pos + bytes ca + 3 + 3 + 1) (k + (constsE a).length) ops cx σ1 σ' v db dl D (hcb ▸ hbb) (poolAt_right hp) hx he
          hfr.2 hin.2 (hP1.sub (by sz))
        rw [hcb] at hb
        refine ⟨ha.trans (((DS.one (cs_jifnp hj (hP1.room 1 (by sz)))).toPc ?_).trans (((DS.one (cs_pop hpop hP1.room0)).trans hb).toPc (by parith))),
          Qa.trans Qb, nvb⟩
        simp [hf]
      · simp only [hf, Bool.false_eq_true, if_false, Option.some.injEq, Prod.mk.injEq] at he
        obtain ⟨rfl, rfl⟩ := he
        refine ⟨ha.trans (((DS.one (cs_jifnp hj (hP1.room 1 (by sz)))).toPc ?_).trans ((DS.one (cs_jump (ops := va :: ops) hjmp (hP1.room 1 (by sz)))).toPc (by parith))),
          Qa, nva⟩
        simp [hf]
  | ite l c t e =>
    simp only [compileE] at h ⊢
    simp only [evalE] at he
    simp only [constsE] at hp
    simp only [fragE, Bool.and_eq_true] at hfr
    simp only [initE, Bool.and_eq_true] at hin
    cases hec : evalE Φ fuel cx σ c with
    | none => simp [hec] at he
    | some rc =>
      obtain ⟨vc, σ1⟩ := rc
      simp only [hec] at he
      generalize hcc : compileE pos k c = cc at *
      generalize hct : compileE (pos + bytes cc + 3) (k + (constsE c).length) t = ct at *
      generalize hce : compileE (pos + bytes cc + 3 + bytes ct + 3) (k + (constsE c).length + (constsE t).length) e = ce at *
      obtain ⟨hc, Qc, nvc⟩ := ih.E c X pos k ops cx σ σ1 vc db dl D (hcc ▸ codeAt_mid [] cc _ (by simpa using h)) (poolAt_left (poolAt_left hp)) hx hec
        hfr.1.1 hin.1.1 (hP.sub (by sz))
      rw [hcc] at hc
      have hj : codeAt X.code (pos + bytes cc) [Instr.jif (pos + bytes cc + 3 + bytes ct + 3)] :=
        codeAt_mid cc [_] (ct ++ [.jump (pos + bytes cc + 3 + bytes ct + 3 + bytes ce)] ++ ce) (by simpa using h)
      have htt : codeAt X.code (pos + bytes cc + 3) ct :=
        (codeAt_right (codeAt_left (codeAt_left h))).to (by parith)
      have hm : codeAt X.code (pos + bytes cc + 3 + bytes ct) [Instr.jump (pos + bytes cc + 3 + bytes ct + 3 + bytes ce)] :=
        (codeAt_right (codeAt_left h)).to (by parith)
      have hee : codeAt X.code (pos + bytes cc + 3 + bytes ct + 3) ce := (codeAt_right h).to (by parith)
      have hpt : poolAt K (k + (constsE c).length) (constsE t) := poolAt_right (poolAt_left hp)
      have hpe : poolAt K (k + (constsE c).length + (constsE t).length) (constsE e) := by
        have := poolAt_right hp
        simpa [Nat.add_assoc] using this
      have hP1 := hP.next Qc
      refine (fun (x : _ ∧ _) => ⟨hc.trans x.1, x.2⟩) ?_
      by_cases hf : falseyH σ1.a vc = true
      · simp only [hf, if_true] at he
        obtain ⟨hb, Qb, nvb⟩ := ih.E e X (pos + bytes cc + 3 + bytes ct + 3) _ ops cx σ1 σ' v db dl D (hce ▸ hee) hpe hx he hfr.2 hin.2 (hP1.sub (by sz))
        rw [hce] at hb
        exact ⟨((DS.one (cs_jif hj hP1.room0)).toPc (by simp [hf])).trans (hb.toPc (by parith)), Qc.trans Qb, nvb⟩
      · simp only [hf, Bool.false_eq_true, if_false] at he
        obtain ⟨ha, Qa, nva⟩ := ih.E t X (pos + bytes cc + 3) _ ops cx σ1 σ' v db dl D (hct ▸ htt) hpt hx he hfr.1.2 hin.1.2 (hP1.sub (by sz))
        rw [hct] at ha
        exact ⟨((DS.one (cs_jif hj hP1.room0)).toPc (by simp [hf])).trans
          ((ha.trans (DS.one (cs_jump hm ((hP1.next Qa).room 1 (by sz))))).toPc (by parith)), Qc.trans Qa, nva⟩
  | gset l i a =>
    simp only [compileE] at h ⊢
    simp only [evalE] at he
    simp only [constsE] at hp
    simp only [fragE] at hfr
    simp only [initE] at hin
    cases hea : evalE Φ fuel cx σ a with
    | none => simp [hea] at he
    | some r =>
      obtain ⟨va, σ1⟩ := r
      simp only [hea] at he
      by_cases hi : i < σ1.g.length
      · simp only [hi, if_true, Option.some.injEq, Prod.mk.injEq] at he
        obtain ⟨rfl, rfl⟩ := he
        generalize hca : compileE pos k a = ca at *
        obtain ⟨ha, Qa, nva⟩ := ih.E a X pos k ops cx σ σ1 va db dl D (hca ▸ codeAt_left h) hp hx hea hfr hin (hP.sub (by sz))
        rw [hca] at ha
        have hs : codeAt X.code (pos + bytes ca) [Instr.setGlobal i] := codeAt_right h
        exact ⟨(ha.trans (DS.one (cs_setGlobal hs hi ((hP.next Qa).room 1 (by sz))))).toPc (by parith), Qa.gset nva i, nva⟩
      · simp [hi] at he
  | lset l i a =>
    simp only [compileE] at h ⊢
    simp only [evalE] at he
    simp only [constsE] at hp
    simp only [fragE] at hfr
    simp only [initE, Bool.and_eq_true, decide_eq_true_eq] at hin
    cases hea : evalE Φ fuel cx σ a with
    | none => simp [hea] at he
    | some r =>
      obtain ⟨va, σ1⟩ := r
      simp only [hea] at he
      by_cases hi : i < σ1.l.length
      · simp only [hi, if_true, Option.some.injEq, Prod.mk.injEq] at he
        obtain ⟨rfl, rfl⟩ := he
        generalize hca : compileE pos k a = ca at *
        obtain ⟨ha, Qa, nva⟩ := ih.E a X pos k ops cx σ σ1 va db dl D (hca ▸ codeAt_left h) hp hx hea hfr hin.2 (hP.sub (by sz))
        rw [hca] at ha
        have hs : codeAt X.code (pos + bytes ca) [Instr.setLocal i] := codeAt_right h
        have hP1 := hP.next Qa
        have hstep := cs_setLocal (K := K) (F := F) (v := va) (ops := ops) (dl := dl) (db := db) hs hi hP1.dll hP1.dbl (hP1.room 1 (by sz))
        rw [set_true_id (hP.defd i hin.1)] at hstep
        exact ⟨(ha.trans (DS.one hstep)).toPc (by parith), Qa.lset nva i, nva⟩
      · simp [hi] at he
  | matchE l s arms => simp [fragE] at hfr
  | call l f args =>
    simp only [compileE] at h ⊢
    simp only [evalE] at he
    simp only [constsE] at hp
    simp only [fragE, Bool.and_eq_true] at hfr
    simp only [initE, Bool.and_eq_true] at hin
    cases hef : evalE Φ fuel cx σ f with
    | none => simp [hef] at he
    | some rf =>
      obtain ⟨vf, σ1⟩ := rf
      simp only [hef] at he
      cases hea : evalArgs Φ fuel cx σ1 args with
      | none => simp [hea] at he
      | some ra =>
        obtain ⟨vs, σ2⟩ := ra
        simp only [hea] at he
        generalize hcf : compileE pos k f = cf at *
        generalize hca : compileArgs (pos + bytes cf) (k + (constsE f).length) args = ca at *
        obtain ⟨s1, Q1, nvf⟩ := ih.E f X pos k ops cx σ σ1 vf db dl D (hcf ▸ codeAt_left (codeAt_left h)) (poolAt_left hp) hx hef hfr.1 hin.1
          (hP.sub (by sz))
        rw [hcf] at s1
        obtain ⟨s2, hlen, Q2, nvs⟩ := ih.Args args X (pos + bytes cf) (k + (constsE f).length) (vf :: ops) cx σ1 σ2 vs db dl D
          (hca ▸ codeAt_right (codeAt_left h)) (poolAt_right hp) hx hea hfr.2 hin.2 ((hP.next Q1).sub (by sz))
        rw [hca] at s2
        have hcall : codeAt X.code (pos + bytes cf + bytes ca) [Instr.call args.length] := (codeAt_right h).to (by parith)
        have Q12 := Q1.trans Q2
        have hP2 := hP.next Q12
        cases vf with
        | clos fd fr id =>
          simp only at he
          cases hd : Φ fd with
          | none => simp [hd] at he
          | some d =>
            simp only [hd] at he
            obtain ⟨kd, hF, hpd, hnp, hnl⟩ := hL fd d hd
            obtain ⟨hgf, hgi, hgn, hgw⟩ := hG fd d hd
            by_cases harity : vs.length = d.np
            · simp only [harity, if_true] at he
              have hstk := hP2.stk
              have hfrm := hP2.frm
              rw [Nat.succ_mul] at hstk
              have hstep := cs_call (K := K) (F := F) (X := X) (σ := σ2) (fr := fr) (id := id) (ops := ops) (dl := dl) (db := db)
                hcall hlen (by rw [hnp, ← harity, hlen]) hF (by rw [hnl]; omega) (by omega)
              let X' := X.callee (pos + bytes cf + bytes ca) (compileFn kd d) fd id (.clos fd fr id :: (ops ++ (σ2.l.reverse ++ X.base)))
              have hx' : Agree (some (fd, id)) X' := by
                intro fd' id' hfd'
                cases hfd'
                exact ⟨rfl, rfl, by simp [X', Ctxt.callee]⟩
              simp only [Sto.enter_eq, Sto.back_eq] at he
              cases hb : evalP Φ fuel (some (fd, id)) ⟨vs ++ List.replicate (d.nl - d.np) .null, σ2.g, σ2.h, σ2.a⟩ d.body with
              | none => simp [hb] at he
              | some rb =>
                obtain ⟨σ3, fb, bv⟩ := rb
                -- the callee's activation: the parameters are defined, the other slots are not
                have hP' : Pre W X' (sh (ops.length + 1) dl db) [] ⟨vs ++ List.replicate (d.nl - d.np) .null, σ2.g, σ2.h, σ2.a⟩
                    (List.replicate d.np true ++ List.replicate (d.nl - d.np) false) (List.range d.np) (sizeP d.body + 1) fuel := by
                  refine ⟨?_, by simp [harity], ?_, ⟨nbs_append nvs (nbs_replicate_null _), hP2.nbS.g, hP2.nbS.h⟩, ?_, ?_⟩
                  · simp [X', Ctxt.callee, sh_length, hP.dbl, hP2.dll]; omega
                  · intro i hi
                    have hi' : i < d.np := by simpa using hi
                    rw [List.getElem?_append_left (by simpa using hi')]
                    simp [hi']
                  · simp [X', Ctxt.callee, harity]; omega
                  · simp [X', Ctxt.callee]; omega
                obtain ⟨dl3, hbody, Q3⟩ := ih.T d.body X' 0 kd [] [] fd id _ σ3 fb bv _ _ _ ⟨[], [], by simp [X', Ctxt.callee, compileFn], rfl⟩ hpd hx' hb
                  hgf hgi hP'
                have hstart : DSteps K F (X.st pos ops σ, sh ops.length dl db)
                    (X'.st 0 [] ⟨vs ++ List.replicate (d.nl - d.np) .null, σ2.g, σ2.h, σ2.a⟩,
                      sh 0 (List.replicate d.np true ++ List.replicate (d.nl - d.np) false) (sh (ops.length + 1) dl db)) := by
                  refine (s1.trans s2).trans (DS.one ?_)
                  have := hstep
                  rw [hnl, ← hlen, harity] at this
                  show dstep K F (_, sh (vs.length + (ops.length + 1)) dl db) = _
                  rw [harity]
                  exact this
                simp only [hb] at he
                have hnb3 : NBS ⟨σ2.l, σ3.g, σ3.h, σ3.a⟩ := ⟨hP2.nbS.l, Q3.post.nbS.g, Q3.post.nbS.h⟩
                have Qr : Post σ ⟨σ2.l, σ3.g, σ3.h, σ3.a⟩ dl dl := ⟨Q12.len, rfl, fun _ h => h, hnb3⟩
                cases fb with
                | normal =>
                  simp only [Option.some.injEq, Prod.mk.injEq] at he
                  obtain ⟨rfl, rfl⟩ := he
                  refine ⟨(hstart.trans hbody).to ?_, Qr, Q3.bv⟩
                  simp [exitTD, exitT, retSt, X', Ctxt.callee, Ctxt.st, Ctxt.at, bytes_append, bytes, Instr.size, Nat.add_assoc, sh_succ]
                | ret rv =>
                  simp only [Option.some.injEq, Prod.mk.injEq] at he
                  obtain ⟨rfl, rfl⟩ := he
                  refine ⟨(hstart.trans hbody).to ?_, Qr, Q3.fl _ rfl⟩
                  simp [exitTD, exitT, exitS, retSt, X', Ctxt.callee, Ctxt.st, Ctxt.at, bytes_append, bytes, Instr.size, Nat.add_assoc, sh_succ]
                | brk lb => simp at he
                | cont lb => simp at he
            · simp [harity] at he
        | builtin name => simp [nb] at nvf
        | _ => simp at he
  | arrLit l es => simp [fragE] at hfr
  | mapLit l es => simp [fragE] at hfr
  | index l c i => simp [fragE] at hfr
  | setIndex l c i e => simp [fragE] at hfr
  | bfn l i => simp [fragE] at hfr

theorem csoundArgs_succ (fuel : Nat) (ih : CSound Φ K F W fuel) : CSoundArgs Φ K F W (fuel + 1) := by
  intro args X pos k ops cx σ σ' vs db dl D h hp hx he hfr hin hP
  cases args with
  | nil =>
    simp only [evalArgs, Option.some.injEq, Prod.mk.injEq] at he
    obtain ⟨rfl, rfl⟩ := he
    refine ⟨(DSteps.refl _).to (by simp [compileArgs, bytes]), rfl, .rfl' hP.nbS, ?_⟩
    intro v hv; cases hv
  | cons a rest =>
    simp only [compileArgs] at h ⊢
    simp only [constsArgs] at hp
    simp only [evalArgs] at he
    simp only [fragArgs, Bool.and_eq_true] at hfr
    simp only [initArgs, Bool.and_eq_true] at hin
    cases hea : evalE Φ fuel cx σ a with
    | none => simp [hea] at he
    | some ra =>
      obtain ⟨va, σ1⟩ := ra
      simp only [hea] at he
      cases her : evalArgs Φ fuel cx σ1 rest with
      | none => simp [her] at he
      | some rr =>
        obtain ⟨vr, σ2⟩ := rr
        simp only [her, Option.some.injEq, Prod.mk.injEq] at he
        obtain ⟨rfl, rfl⟩ := he
        generalize hca : compileE pos k a = ca at *
        have hpa := sizeE_pos a
        obtain ⟨s1, Q1, nva⟩ := ih.E a X pos k ops cx σ σ1 va db dl D (hca ▸ codeAt_left h) (poolAt_left hp) hx hea hfr.1 hin.1 (hP.sub (by sz))
        rw [hca] at s1
        obtain ⟨s2, hl, Q2, nvr⟩ := ih.Args rest X (pos + bytes ca) (k + (constsE a).length) (va :: ops) cx σ1 σ2 vr db dl D
          (codeAt_right h) (poolAt_right hp) hx her hfr.2 hin.2 ((hP.next Q1).sub (by sz))
        have s12 : DSteps K F (X.st pos ops σ, sh ops.length dl db)
            (X.st (pos + bytes (ca ++ compileArgs (pos + bytes ca) (k + (constsE a).length) rest)) (vr.reverse ++ va :: ops) σ2,
              sh (vr.length + (ops.length + 1)) dl db) := (s1.trans s2).toPc (by simp [bytes_append]; omega)
        have e2 : vr.reverse ++ va :: ops = (va :: vr).reverse ++ ops := by simp
        have e3 : vr.length + (ops.length + 1) = (va :: vr).length + ops.length := by simp; omega
        refine ⟨s12.to (by rw [e2, e3]), by simp [FArgs.length, hl], Q1.trans Q2, ?_⟩
        · intro x hx'
          rcases List.mem_cons.mp hx' with rfl | hx'
          · exact nva
          · exact nvr x hx'

end


/-! ## where a statement ends -/

section
variable {X : Ctxt} {ctx : List LoopCtx} {ops : List Val} {σ : Sto} {dl db : List Bool} {f : FFlow}

theorem exitSD_pc {a b : Nat} (h : a = b) : exitSD X ctx a ops σ dl db f = exitSD X ctx b ops σ dl db f := h ▸ rfl
theorem exitVD_pc {a b : Nat} {bv : Val} (h : a = b) : exitVD X ctx a ops σ dl db f bv = exitVD X ctx b ops σ dl db f bv := h ▸ rfl

theorem exitSD_normal_eq {a b : Nat} (h : a = b) : (X.st a ops σ, sh ops.length dl db) = exitSD X ctx b ops σ dl db .normal := by
  subst h; rfl
theorem exitVD_normal_eq {a b : Nat} {bv : Val} (h : a = b) :
    (X.st a (bv :: ops) σ, sh (ops.length + 1) dl db) = exitVD X ctx b ops σ dl db .normal bv := by
  subst h; rfl

theorem exitSD_ne_normal {e1 e2 : Nat} (h : f ≠ FFlow.normal) : exitSD X ctx e1 ops σ dl db f = exitSD X ctx e2 ops σ dl db f := by
  cases f <;> simp_all [exitSD, exitS]
theorem exitVD_S {e1 e2 : Nat} {bv : Val} (h : f ≠ FFlow.normal) : exitVD X ctx e1 ops σ dl db f bv = exitSD X ctx e2 ops σ dl db f := by
  cases f <;> simp_all [exitSD, exitVD, exitV, exitS]
theorem exitSD_V {e1 e2 : Nat} {bv : Val} (h : f ≠ FFlow.normal) : exitSD X ctx e1 ops σ dl db f = exitVD X ctx e2 ops σ dl db f bv := by
  cases f <;> simp_all [exitSD, exitVD, exitV, exitS]
theorem exitVD_V {e1 e2 : Nat} {b1 b2 : Val} (h : f ≠ FFlow.normal) : exitVD X ctx e1 ops σ dl db f b1 = exitVD X ctx e2 ops σ dl db f b2 := by
  cases f <;> simp_all [exitVD, exitV, exitS]
theorem exitSD_T {e1 : Nat} {bv : Val} (h : f ≠ FFlow.normal) : exitSD X ctx e1 ops σ dl db f = exitTD X ctx ops σ dl db f bv := by
  cases f <;> simp_all [exitSD, exitTD, exitT, exitS]
theorem exitVD_T {e1 : Nat} {b1 b2 : Val} (h : f ≠ FFlow.normal) : exitVD X ctx e1 ops σ dl db f b1 = exitTD X ctx ops σ dl db f b2 := by
  cases f <;> simp_all [exitVD, exitTD, exitV, exitT, exitS]
theorem exitTD_T {b1 b2 : Val} (h : f ≠ FFlow.normal) : exitTD X ctx ops σ dl db f b1 = exitTD X ctx ops σ dl db f b2 := by
  cases f <;> simp_all [exitTD, exitT, exitS]

theorem exitSD_propagate {me : LoopCtx} {e1 e2 : Nat} (h : floopAct me.label f = .propagate) :
    exitSD X (me :: ctx) e1 ops σ dl db f = exitSD X ctx e2 ops σ dl db f := by
  unfold exitSD
  rw [exitS_propagate (e2 := e2) h]

theorem exitSD_again {me : LoopCtx} {e : Nat} (h : floopAct me.label f = .again) :
    exitSD X (me :: ctx) e ops σ dl db f = (X.st e ops σ, sh ops.length dl db) ∨
      exitSD X (me :: ctx) e ops σ dl db f = (X.st me.begin ops σ, sh ops.length dl db) := by
  have hnr : ∀ v, f ≠ .ret v := by intro v hv; subst hv; simp [floopAct] at h
  rcases exitS_again (X := X) (ctx := ctx) (e := e) (ops := ops) (σ := σ) h with e1 | e1
  · left
    unfold exitSD
    rw [e1]
    cases f <;> simp_all
  · right
    unfold exitSD
    rw [e1]
    cases f <;> simp_all

theorem exitSD_exit {me : LoopCtx} {e : Nat} (h : floopAct me.label f = .exit) :
    exitSD X (me :: ctx) e ops σ dl db f = (X.st me.endp ops σ, sh ops.length dl db) := by
  have hnr : ∀ v, f ≠ .ret v := by intro v hv; subst hv; simp [floopAct] at h
  unfold exitSD
  rw [exitS_exit h]
  cases f <;> simp_all

end

theorem sizeP_le_sizeV : ∀ ss : List FStmt, sizeP ss ≤ sizeV ss + 1
  | [] => by simp [sizeP, sizeV]
  | [s] => by
    rw [sizeV_single]
    simp only [sizeP]
    split <;> omega
  | s :: s2 :: rest => by
    rw [sizeV_cons2]
    have := sizeP_le_sizeV (s2 :: rest)
    simp only [sizeP] at this ⊢
    omega

section
variable {Φ : FnDef → Option FDecl} {K : List Val} {F : FnDef → Option (List Instr)} {W : Nat}

theorem csoundP_succ (fuel : Nat) (ih : CSound Φ K F W fuel) : CSoundP Φ K F W (fuel + 1) := by
  intro ss X pos k ctx ops cx σ σ' f bv db dl D h hp hx he hfr hin hP
  cases ss with
  | nil =>
    simp only [evalP, Option.some.injEq, Prod.mk.injEq] at he
    obtain ⟨rfl, rfl, rfl⟩ := he
    exact ⟨dl, (DSteps.refl _).to (exitSD_normal_eq (by simp [compileP, bytes])), ⟨.rfl' hP.nbS, rfl, by intro v hv; cases hv⟩⟩
  | cons s rest =>
    simp only [evalP] at he
    cases h1 : evalS Φ fuel cx σ s with
    | none => simp [h1] at he
    | some r1 =>
      obtain ⟨σ1, f1, v1⟩ := r1
      simp only [compileP] at h ⊢
      simp only [constsP] at hp
      simp only [fragP, Bool.and_eq_true] at hfr
      rw [initP_cons] at hin
      simp only [Bool.and_eq_true] at hin
      generalize hcs : compileS pos k ctx s = cs at *
      obtain ⟨dl1, hs, Q1, hd1⟩ := ih.S s X pos k ctx ops cx σ σ1 f1 v1 db dl D (hcs ▸ codeAt_left h) (poolAt_left hp) hx h1 hfr.1 hin.1
        (hP.sub (by sz))
      rw [hcs] at hs
      cases f1 with
      | normal =>
        simp only [h1] at he
        cases rest with
        | nil =>
          simp only [Option.some.injEq, Prod.mk.injEq] at he
          obtain ⟨rfl, rfl, rfl⟩ := he
          exact ⟨dl1, hs.to (exitSD_pc (by simp [compileP, bytes_append, bytes])), Q1⟩
        | cons s2 rest2 =>
          simp only at he
          obtain ⟨dl2, hr, Q2⟩ := ih.P (s2 :: rest2) X (pos + bytes cs) (k + (constsS s).length) ctx ops cx σ1 σ' f bv db dl1 (defS s D)
            (codeAt_right h) (poolAt_right hp) hx he hfr.2 hin.2 (((hP.next Q1.post).withD (hd1 rfl)).sub (by sz))
          exact ⟨dl2, (hs.trans hr).to (exitSD_pc (by simp [bytes_append, Nat.add_assoc])), ⟨Q1.post.trans Q2.post, Q2.bv, Q2.fl⟩⟩
      | brk lb =>
        simp only [h1, Option.some.injEq, Prod.mk.injEq] at he
        obtain ⟨rfl, rfl, rfl⟩ := he
        exact ⟨dl1, hs.to (exitSD_ne_normal (by simp)), ⟨Q1.post, rfl, Q1.fl⟩⟩
      | cont lb =>
        simp only [h1, Option.some.injEq, Prod.mk.injEq] at he
        obtain ⟨rfl, rfl, rfl⟩ := he
        exact ⟨dl1, hs.to (exitSD_ne_normal (by simp)), ⟨Q1.post, rfl, Q1.fl⟩⟩
      | ret rv =>
        simp only [h1, Option.some.injEq, Prod.mk.injEq] at he
        obtain ⟨rfl, rfl, rfl⟩ := he
        exact ⟨dl1, hs.to (exitSD_ne_normal (by simp)), ⟨Q1.post, rfl, Q1.fl⟩⟩

theorem csoundIfV_succ (fuel : Nat) (ih : CSound Φ K F W fuel) : CSoundIfV Φ K F W (fuel + 1) := by
  intro ls l c thn els X pos k ctx ops cx σ σ' f bv db dl D h hp hx he hfr hin hP
  simp only [evalS] at he
  simp only [fragS, Bool.and_eq_true] at hfr
  simp only [initS, Bool.and_eq_true] at hin
  have hzt := sizeP_le_sizeV thn
  have hze := sizeP_le_sizeV els
  cases hec : evalE Φ fuel cx σ c with
  | none => simp [hec] at he
  | some rc =>
    obtain ⟨vc, σ1⟩ := rc
    simp only [hec] at he
    simp only [ifV] at h ⊢
    generalize hcc : compileE pos k c = cc at *
    generalize hct : branchV (pos + bytes cc + 3) (k + (constsE c).length) ctx thn = ct at *
    generalize hce : branchV (pos + bytes cc + 3 + bytes ct + 3) (k + (constsE c).length + (constsP thn).length) ctx els = ce at *
    obtain ⟨hc, Qc, nvc⟩ := ih.E c X pos k ops cx σ σ1 vc db dl D (hcc ▸ codeAt_mid [] cc _ (by simpa using h)) (poolAt_left (poolAt_left hp)) hx hec
      hfr.1.1 hin.1.1 (hP.sub (by sz))
    rw [hcc] at hc
    have hj : codeAt X.code (pos + bytes cc) [Instr.jif (pos + bytes cc + 3 + bytes ct + 3)] :=
      codeAt_mid cc [_] (ct ++ [.jump (pos + bytes cc + 3 + bytes ct + 3 + bytes ce)] ++ ce) (by simpa using h)
    have htt : codeAt X.code (pos + bytes cc + 3) ct :=
      (codeAt_right (codeAt_left (codeAt_left h))).to (by parith)
    have hm : codeAt X.code (pos + bytes cc + 3 + bytes ct) [Instr.jump (pos + bytes cc + 3 + bytes ct + 3 + bytes ce)] :=
      (codeAt_right (codeAt_left h)).to (by parith)
    have hee : codeAt X.code (pos + bytes cc + 3 + bytes ct + 3) ce :=
      (codeAt_right h).to (by parith)
    have hpt : poolAt K (k + (constsE c).length) (constsP thn) := poolAt_right (poolAt_left hp)
    have hpe : poolAt K (k + (constsE c).length + (constsP thn).length) (constsP els) := by
      have := poolAt_right hp
      simpa [Nat.add_assoc] using this
    have hP1 := hP.next Qc
    have s0 := hc.trans (DS.one (cs_jif hj hP1.room0))
    by_cases hf : falseyH σ1.a vc = true
    · simp only [hf, if_true] at he s0
      obtain ⟨dl2, hb, Q2⟩ := ih.V els X _ _ ctx ops cx σ1 σ' f bv db dl D (hce ▸ hee) hpe hx he hfr.2 hin.2 (hP1.sub (by sz))
      rw [hce] at hb
      exact ⟨dl2, (s0.trans hb).to (exitVD_pc (by parith)), ⟨Qc.trans Q2.post, Q2.bv, Q2.fl⟩⟩
    · simp only [hf, Bool.false_eq_true, if_false] at he s0
      obtain ⟨dl2, hb, Q2⟩ := ih.V thn X _ _ ctx ops cx σ1 σ' f bv db dl D (hct ▸ htt) hpt hx he hfr.1.2 hin.1.2 (hP1.sub (by sz))
      rw [hct] at hb
      have Q : PostS σ σ' dl dl2 f bv := ⟨Qc.trans Q2.post, Q2.bv, Q2.fl⟩
      by_cases hn : f = .normal
      · subst hn
        have hb' : DSteps K F (X.st (pos + bytes cc + 3) ops σ1, sh ops.length dl db)
            (X.st (pos + bytes cc + 3 + bytes ct) (bv :: ops) σ', sh (ops.length + 1) dl2 db) := hb
        exact ⟨dl2, ((s0.trans hb').trans (DS.one (cs_jump (ops := bv :: ops) hm ((hP1.next Q2.post).room 1 (by sz))))).to
          (exitVD_normal_eq (by parith)), Q⟩
      · exact ⟨dl2, (s0.trans hb).to (exitVD_V hn), Q⟩

theorem csoundS_succ (fuel : Nat) (ih : CSound Φ K F W fuel) (hI : CSoundIfV Φ K F W (fuel + 1)) : CSoundS Φ K F W (fuel + 1) := by
  intro s X pos k ctx ops cx σ σ' f bv db dl D h hp hx he hfr hin hP
  cases s with
  | letG l i e =>
    simp only [evalS] at he
    simp only [constsS] at hp
    simp only [fragS] at hfr
    simp only [initS] at hin
    cases hee : evalE Φ fuel cx σ e with
    | none => simp [hee] at he
    | some r =>
      obtain ⟨v, σ1⟩ := r
      simp only [hee] at he
      by_cases hi : i < σ1.g.length
      · simp only [hi, if_true, Option.some.injEq, Prod.mk.injEq] at he
        obtain ⟨rfl, rfl, rfl⟩ := he
        simp only [compileS] at h ⊢
        generalize hce : compileE pos k e = ce at *
        obtain ⟨h1, Q1, nv⟩ := ih.E e X pos k ops cx σ σ1 v db dl D (hce ▸ codeAt_left h) hp hx hee hfr hin (hP.sub (by sz))
        rw [hce] at h1
        have hs : codeAt X.code (pos + bytes ce) [Instr.defGlobal i] := codeAt_right h
        have Q := Q1.gset nv i
        exact ⟨dl, (h1.trans (DS.one (cs_defGlobal hs hi (hP.next Q1).room0))).to (exitSD_normal_eq (by parith)),
          ⟨Q, rfl, by intro w hw; cases hw⟩, fun _ j hj => Q.mono j (hP.defd j hj)⟩
      · simp [hi] at he
  | letL l i e =>
    simp only [evalS] at he
    simp only [constsS] at hp
    simp only [fragS] at hfr
    simp only [initS] at hin
    cases hee : evalE Φ fuel cx σ e with
    | none => simp [hee] at he
    | some r =>
      obtain ⟨v, σ1⟩ := r
      simp only [hee] at he
      by_cases hi : i < σ1.l.length
      · simp only [hi, if_true, Option.some.injEq, Prod.mk.injEq] at he
        obtain ⟨rfl, rfl, rfl⟩ := he
        simp only [compileS] at h ⊢
        generalize hce : compileE pos k e = ce at *
        obtain ⟨h1, Q1, nv⟩ := ih.E e X pos k ops cx σ σ1 v db dl D (hce ▸ codeAt_left h) hp hx hee hfr hin (hP.sub (by sz))
        rw [hce] at h1
        have hs : codeAt X.code (pos + bytes ce) [Instr.defLocal i] := codeAt_right h
        have hP1 := hP.next Q1
        have Q := Q1.letL nv i
        refine ⟨dl.set i true, (h1.trans (DS.one (cs_defLocal hs hi hP1.dll hP1.dbl hP1.room0))).to (exitSD_normal_eq (by parith)),
          ⟨Q, rfl, by intro w hw; cases hw⟩, fun _ j hj => ?_⟩
        simp only [defS, List.mem_cons] at hj
        rcases hj with rfl | hj
        · have : j < dl.length := by rw [hP1.dll]; exact hi
          simp [this]
        · exact Q.mono j (hP.defd j hj)
      · simp [hi] at he
  | expr l e =>
    simp only [evalS] at he
    simp only [constsS] at hp
    simp only [fragS] at hfr
    simp only [initS] at hin
    cases hee : evalE Φ fuel cx σ e with
    | none => simp [hee] at he
    | some r =>
      obtain ⟨v, σ1⟩ := r
      simp only [hee, Option.some.injEq, Prod.mk.injEq] at he
      obtain ⟨rfl, rfl, rfl⟩ := he
      simp only [compileS] at h ⊢
      generalize hce : compileE pos k e = ce at *
      obtain ⟨h1, Q1, nv⟩ := ih.E e X pos k ops cx σ σ1 v db dl D (hce ▸ codeAt_left h) hp hx hee hfr hin (hP.sub (by sz))
      rw [hce] at h1
      have hpop : codeAt X.code (pos + bytes ce) [Instr.pop] := codeAt_right h
      exact ⟨dl, (h1.trans (DS.one (cs_pop hpop (hP.next Q1).room0))).to (exitSD_normal_eq (by parith)),
        ⟨Q1, nv, by intro w hw; cases hw⟩, fun _ j hj => Q1.mono j (hP.defd j hj)⟩
  | ret l e =>
    simp only [evalS] at he
    simp only [constsS] at hp
    simp only [fragS] at hfr
    simp only [initS] at hin
    cases cx with
    | none => simp at he
    | some c =>
      obtain ⟨fd, id⟩ := c
      simp only at he
      cases hee : evalE Φ fuel (some (fd, id)) σ e with
      | none => simp [hee] at he
      | some r =>
        obtain ⟨v, σ1⟩ := r
        simp only [hee, Option.some.injEq, Prod.mk.injEq] at he
        obtain ⟨rfl, rfl, rfl⟩ := he
        simp only [compileS] at h ⊢
        obtain ⟨h1, Q1, nv⟩ := ih.E e X pos k ops (some (fd, id)) σ σ1 v db dl D (codeAt_left h) hp hx hee hfr hin (hP.sub (by sz))
        exact ⟨dl, (h1.trans (DS.one (cs_retv (codeAt_right h) (hx fd id rfl).2.2 hP.dbl hP.room1))).to rfl,
          ⟨Q1, rfl, by intro w hw; cases hw; exact nv⟩, by intro hf; cases hf⟩
  | retN l =>
    simp only [evalS] at he
    cases cx with
    | none => simp at he
    | some c =>
      obtain ⟨fd, id⟩ := c
      simp only [Option.some.injEq, Prod.mk.injEq] at he
      obtain ⟨rfl, rfl, rfl⟩ := he
      simp only [compileS] at h ⊢
      obtain ⟨h1, h2⟩ := codeAt_cons h
      simp only [Instr.size] at h2
      exact ⟨dl, ((DS.one (cs_null h1 (hP.room 1 (by sz)))).trans (DS.one (cs_retv h2 (hx fd id rfl).2.2 hP.dbl hP.room1))).to rfl,
        ⟨.rfl' hP.nbS, rfl, by intro w hw; cases hw; rfl⟩, by intro hf; cases hf⟩
  | block l body =>
    simp only [evalS] at he
    simp only [constsS] at hp
    simp only [fragS] at hfr
    simp only [initS] at hin
    simp only [compileS] at h ⊢
    cases hb : evalP Φ fuel cx σ body with
    | none => simp [hb] at he
    | some r =>
      obtain ⟨σ1, f1, v1⟩ := r
      simp only [hb, Option.some.injEq, Prod.mk.injEq] at he
      obtain ⟨rfl, rfl, rfl⟩ := he
      obtain ⟨dl1, hb1, Q1⟩ := ih.P body X pos k ctx ops cx σ σ1 f1 v1 db dl D h hp hx hb hfr hin (hP.sub (by sz))
      exact ⟨dl1, hb1, ⟨Q1.post, rfl, Q1.fl⟩, fun _ j hj => Q1.post.mono j (hP.defd j hj)⟩
  | breakS l lb =>
    simp only [evalS, Option.some.injEq, Prod.mk.injEq] at he
    obtain ⟨rfl, rfl, rfl⟩ := he
    simp only [compileS] at h
    exact ⟨dl, (DS.one (cs_jump h hP.room0)).to rfl, ⟨.rfl' hP.nbS, rfl, by intro w hw; cases hw⟩, by intro hf; cases hf⟩
  | continueS l lb =>
    simp only [evalS, Option.some.injEq, Prod.mk.injEq] at he
    obtain ⟨rfl, rfl, rfl⟩ := he
    simp only [compileS] at h
    exact ⟨dl, (DS.one (cs_jump h hP.room0)).to rfl, ⟨.rfl' hP.nbS, rfl, by intro w hw; cases hw⟩, by intro hf; cases hf⟩
  | ifS ls l c thn els =>
    rw [compileS_ifS] at h ⊢
    obtain ⟨dl1, hv, Q1⟩ := hI ls l c thn els X pos k ctx ops cx σ σ' f bv db dl D (codeAt_left h) (by simpa [constsS] using hp) hx he hfr hin hP
    by_cases hn : f = .normal
    · subst hn
      have hpop : codeAt X.code (pos + bytes (ifV pos k ctx c thn els)) [Instr.pop] := codeAt_right h
      have hv' : DSteps K F (X.st pos ops σ, sh ops.length dl db)
          (X.st (pos + bytes (ifV pos k ctx c thn els)) (bv :: ops) σ', sh (ops.length + 1) dl1 db) := hv
      exact ⟨dl1, (hv'.trans (DS.one (cs_pop hpop (hP.next Q1.post).room0))).to (exitSD_normal_eq (by parith)), Q1,
        fun _ j hj => Q1.post.mono j (hP.defd j hj)⟩
    · exact ⟨dl1, hv.to (exitVD_S hn), Q1, fun hf => absurd hf hn⟩
  | loopS l lbl body =>
    simp only [evalS] at he
    simp only [constsS] at hp
    have hfr0 := hfr
    have hin0 := hin
    simp only [fragS] at hfr
    simp only [initS] at hin
    have hloop := h
    simp only [compileS] at h ⊢
    generalize hme : (⟨lbl, pos, pos + sizeP body + 3⟩ : LoopCtx) = me at *
    have hml : me.label = lbl := by rw [← hme]
    have hmb : me.begin = pos := by rw [← hme]
    have hmend : me.endp = pos + sizeP body + 3 := by rw [← hme]
    generalize hcb : compileP pos k (me :: ctx) body = cb at *
    have hsz : bytes cb = sizeP body := by rw [← hcb, bytes_compileP]
    have hback : codeAt X.code (pos + bytes cb) [Instr.jump pos] := codeAt_right h
    cases hb : evalP Φ fuel cx σ body with
    | none => simp [hb] at he
    | some r =>
      obtain ⟨σ2, f2, v2⟩ := r
      simp only [hb] at he
      obtain ⟨dl2, h1, Q2⟩ := ih.P body X pos k (me :: ctx) ops cx σ σ2 f2 v2 db dl D (hcb ▸ codeAt_left h) hp hx hb hfr hin (hP.sub (by sz))
      rw [hcb] at h1
      have hP2 := hP.next Q2.post
      cases ha : floopAct lbl f2 with
      | again =>
        simp only [ha] at he
        obtain ⟨dl3, h2, Q3, _⟩ := ih.S (.loopS l lbl body) X pos k ctx ops cx σ2 σ' f bv db dl2 D hloop (by simpa [constsS] using hp) hx he
          hfr0 hin0 (hP2.sub (by omega))
        simp only [compileS, hme, hcb] at h2
        have Q : PostS σ σ' dl dl3 f bv := ⟨Q2.post.trans Q3.post, Q3.bv, Q3.fl⟩
        rcases exitSD_again (X := X) (ctx := ctx) (e := pos + bytes cb) (ops := ops) (σ := σ2) (dl := dl2) (db := db) (hml ▸ ha) with e | e
        · exact ⟨dl3, (h1.to e).trans ((DS.one (cs_jump hback hP2.room0)).trans h2), Q, fun _ j hj => Q.post.mono j (hP.defd j hj)⟩
        · exact ⟨dl3, (h1.to (by rw [e, hmb])).trans h2, Q, fun _ j hj => Q.post.mono j (hP.defd j hj)⟩
      | exit =>
        simp only [ha, Option.some.injEq, Prod.mk.injEq] at he
        obtain ⟨rfl, rfl, rfl⟩ := he
        refine ⟨dl2, h1.to ?_, ⟨Q2.post, rfl, by intro w hw; cases hw⟩, fun _ j hj => Q2.post.mono j (hP.defd j hj)⟩
        rw [exitSD_exit (hml ▸ ha), hmend]
        exact exitSD_normal_eq (by simp [bytes_append, bytes, Instr.size, hsz]; omega)
      | propagate =>
        simp only [ha, Option.some.injEq, Prod.mk.injEq] at he
        obtain ⟨rfl, rfl, rfl⟩ := he
        exact ⟨dl2, h1.to (exitSD_propagate (hml ▸ ha)), ⟨Q2.post, rfl, Q2.fl⟩, fun _ j hj => Q2.post.mono j (hP.defd j hj)⟩
  | whileS l lbl c body =>
    simp only [evalS] at he
    simp only [constsS] at hp
    have hfr0 := hfr
    have hin0 := hin
    simp only [fragS, Bool.and_eq_true] at hfr
    simp only [initS, Bool.and_eq_true] at hin
    cases hec : evalE Φ fuel cx σ c with
    | none => simp [hec] at he
    | some rc =>
      obtain ⟨vc, σ1⟩ := rc
      simp only [hec] at he
      have hloop := h
      simp only [compileS] at h ⊢
      generalize hcc : compileE pos k c = cc at *
      generalize hme : (⟨lbl, pos, pos + bytes cc + 3 + sizeP body + 3⟩ : LoopCtx) = me at *
      have hml : me.label = lbl := by rw [← hme]
      have hmb : me.begin = pos := by rw [← hme]
      have hmend : me.endp = pos + bytes cc + 3 + sizeP body + 3 := by rw [← hme]
      generalize hcb : compileP (pos + bytes cc + 3) (k + (constsE c).length) (me :: ctx) body = cb at *
      have hsz : bytes cb = sizeP body := by rw [← hcb, bytes_compileP]
      obtain ⟨hc, Qc, nvc⟩ := ih.E c X pos k ops cx σ σ1 vc db dl D (hcc ▸ codeAt_mid [] cc _ (by simpa using h)) (poolAt_left hp) hx hec
        hfr.1 hin.1 (hP.sub (by sz))
      rw [hcc] at hc
      have hj : codeAt X.code (pos + bytes cc) [Instr.jif (pos + bytes cc + 3 + sizeP body + 3)] :=
        codeAt_mid cc [_] (cb ++ [.jump pos]) (by simpa using h)
      have hbody : codeAt X.code (pos + bytes cc + 3) cb :=
        (codeAt_right (codeAt_left h)).to (by parith)
      have hback : codeAt X.code (pos + bytes cc + 3 + bytes cb) [Instr.jump pos] :=
        (codeAt_right h).to (by parith)
      have hP1 := hP.next Qc
      have s0 := hc.trans (DS.one (cs_jif hj hP1.room0))
      by_cases hf : falseyH σ1.a vc = true
      · simp only [hf, if_true, Option.some.injEq, Prod.mk.injEq] at he s0
        obtain ⟨rfl, rfl, rfl⟩ := he
        exact ⟨dl, s0.to (exitSD_normal_eq (by simp [bytes_append, bytes, Instr.size, hsz]; omega)),
          ⟨Qc, rfl, by intro w hw; cases hw⟩, fun _ j hj => Qc.mono j (hP.defd j hj)⟩
      · simp only [hf, Bool.false_eq_true, if_false] at he s0
        cases hb : evalP Φ fuel cx σ1 body with
        | none => simp [hb] at he
        | some r =>
          obtain ⟨σ2, f2, v2⟩ := r
          simp only [hb] at he
          obtain ⟨dl2, h1, Q2⟩ := ih.P body X (pos + bytes cc + 3) _ (me :: ctx) ops cx σ1 σ2 f2 v2 db dl D (hcb ▸ hbody) (poolAt_right hp) hx hb
            hfr.2 hin.2 (hP1.sub (by sz))
          rw [hcb] at h1
          have Q12 := Qc.trans Q2.post
          have hP2 := hP.next Q12
          cases ha : floopAct lbl f2 with
          | again =>
            simp only [ha] at he
            obtain ⟨dl3, h2, Q3, _⟩ := ih.S (.whileS l lbl c body) X pos k ctx ops cx σ2 σ' f bv db dl2 D hloop (by simpa [constsS] using hp) hx he
              hfr0 hin0 (hP2.sub (by omega))
            simp only [compileS, hcc, hme, hcb] at h2
            have Q : PostS σ σ' dl dl3 f bv := ⟨Q12.trans Q3.post, Q3.bv, Q3.fl⟩
            rcases exitSD_again (X := X) (ctx := ctx) (e := pos + bytes cc + 3 + bytes cb) (ops := ops) (σ := σ2) (dl := dl2) (db := db) (hml ▸ ha)
              with e | e
            · exact ⟨dl3, s0.trans ((h1.to e).trans ((DS.one (cs_jump hback hP2.room0)).trans h2)), Q, fun _ j hj => Q.post.mono j (hP.defd j hj)⟩
            · exact ⟨dl3, s0.trans ((h1.to (by rw [e, hmb])).trans h2), Q, fun _ j hj => Q.post.mono j (hP.defd j hj)⟩
          | exit =>
            simp only [ha, Option.some.injEq, Prod.mk.injEq] at he
            obtain ⟨rfl, rfl, rfl⟩ := he
            refine ⟨dl2, s0.trans (h1.to ?_), ⟨Q12, rfl, by intro w hw; cases hw⟩, fun _ j hj => Q12.mono j (hP.defd j hj)⟩
            rw [exitSD_exit (hml ▸ ha), hmend]
            exact exitSD_normal_eq (by simp [bytes_append, bytes, Instr.size, hsz]; omega)
          | propagate =>
            simp only [ha, Option.some.injEq, Prod.mk.injEq] at he
            obtain ⟨rfl, rfl, rfl⟩ := he
            exact ⟨dl2, s0.trans (h1.to (exitSD_propagate (hml ▸ ha))), ⟨Q12, rfl, Q2.fl⟩, fun _ j hj => Q12.mono j (hP.defd j hj)⟩

theorem csoundSV_succ (fuel : Nat) (ih : CSound Φ K F W fuel) (hS1 : CSoundS Φ K F W (fuel + 1)) (hI : CSoundIfV Φ K F W (fuel + 1)) :
    CSoundSV Φ K F W (fuel + 1) := by
  intro s X pos k ctx ops cx σ σ' f bv db dl D h hp hx he hfr hin hP
  by_cases hxs : s.isExprStmt = true
  · cases s <;> try (simp [FStmt.isExprStmt] at hxs)
    case expr l e =>
      rw [valueOf_expr] at h ⊢
      simp only [evalS] at he
      simp only [fragS] at hfr
      simp only [initS] at hin
      cases hee : evalE Φ fuel cx σ e with
      | none => simp [hee] at he
      | some r =>
        obtain ⟨v, σ2⟩ := r
        simp only [hee, Option.some.injEq, Prod.mk.injEq] at he
        obtain ⟨rfl, rfl, rfl⟩ := he
        obtain ⟨h1, Q1, nv⟩ := ih.E e X pos k ops cx σ σ2 v db dl D h (by simpa [constsS] using hp) hx hee hfr hin (hP.sub (by sz))
        exact ⟨dl, h1, ⟨Q1, nv, by intro w hw; cases hw⟩⟩
    case ifS ls l c thn els =>
      rw [valueOf_ifS] at h ⊢
      exact hI ls l c thn els X pos k ctx ops cx σ σ' f bv db dl D h (by simpa [constsS] using hp) hx he hfr hin (hP.sub0 (by omega))
  · have hx' : s.isExprStmt = false := by simpa using hxs
    rw [valueOf_other _ _ _ _ hx'] at h ⊢
    obtain ⟨dl1, hs, Q1, _⟩ := hS1 s X pos k ctx ops cx σ σ' f bv db dl D (codeAt_left h) hp hx he hfr hin (hP.sub0 (by omega))
    by_cases hn : f = .normal
    · subst hn
      have hnull : codeAt X.code (pos + bytes (compileS pos k ctx s)) [Instr.null] := codeAt_right h
      have hbv := evalS_other_null (Φ := Φ) _ _ _ _ _ _ hx' he
      subst hbv
      have hs' : DSteps K F (X.st pos ops σ, sh ops.length dl db) (X.st (pos + bytes (compileS pos k ctx s)) ops σ', sh ops.length dl1 db) := hs
      exact ⟨dl1, (hs'.trans (DS.one (cs_null hnull ((hP.next Q1.post).room 1 (by omega))))).to (exitVD_normal_eq (by parith)), Q1⟩
    · exact ⟨dl1, hs.to (exitSD_V hn), Q1⟩

theorem csoundV_succ (fuel : Nat) (ih : CSound Φ K F W fuel) : CSoundV Φ K F W (fuel + 1) := by
  intro ss X pos k ctx ops cx σ σ' f bv db dl D h hp hx he hfr hin hP
  cases ss with
  | nil =>
    simp only [evalP, Option.some.injEq, Prod.mk.injEq] at he
    obtain ⟨rfl, rfl, rfl⟩ := he
    simp only [branchV] at h ⊢
    exact ⟨dl, (DS.one (cs_null h (hP.room 1 (by omega)))).to (exitVD_normal_eq (by simp [bytes, Instr.size])),
      ⟨.rfl' hP.nbS, rfl, by intro w hw; cases hw⟩⟩
  | cons s rest =>
    simp only [evalP] at he
    cases h1 : evalS Φ fuel cx σ s with
    | none => simp [h1] at he
    | some r1 =>
      obtain ⟨σ1, f1, v1⟩ := r1
      simp only [constsP] at hp
      simp only [fragP, Bool.and_eq_true] at hfr
      rw [initP_cons] at hin
      simp only [Bool.and_eq_true] at hin
      cases rest with
      | cons s2 rest2 =>
        rw [branchV_cons2] at h ⊢
        generalize hcs : compileS pos k ctx s = cs at *
        obtain ⟨dl1, hs, Q1, hd1⟩ := ih.S s X pos k ctx ops cx σ σ1 f1 v1 db dl D (hcs ▸ codeAt_left h) (poolAt_left hp) hx h1 hfr.1 hin.1
          (hP.sub (by sz))
        rw [hcs] at hs
        by_cases hn : f1 = .normal
        · subst hn
          simp only [h1] at he
          obtain ⟨dl2, hr, Q2⟩ := ih.V (s2 :: rest2) X (pos + bytes cs) (k + (constsS s).length) ctx ops cx σ1 σ' f bv db dl1 (defS s D)
            (codeAt_right h) (poolAt_right hp) hx he hfr.2 hin.2 (((hP.next Q1.post).withD (hd1 rfl)).sub (by sz))
          exact ⟨dl2, (hs.trans hr).to (exitVD_pc (by simp [bytes_append, Nat.add_assoc])), ⟨Q1.post.trans Q2.post, Q2.bv, Q2.fl⟩⟩
        · have he' : σ' = σ1 ∧ f = f1 ∧ bv = .null := by
            cases f1 <;> simp_all
          obtain ⟨rfl, rfl, rfl⟩ := he'
          exact ⟨dl1, hs.to (exitSD_V hn), ⟨Q1.post, rfl, Q1.fl⟩⟩
      | nil =>
        simp only [constsP, List.append_nil] at hp
        rw [branchV_single] at h ⊢
        obtain ⟨dl1, hs, Q1⟩ := ih.SV s X pos k ctx ops cx σ σ1 f1 v1 db dl D h hp hx h1 hfr.1 hin.1 (hP.sub (by sz))
        by_cases hn : f1 = .normal
        · subst hn
          simp only [h1, Option.some.injEq, Prod.mk.injEq] at he
          obtain ⟨rfl, rfl, rfl⟩ := he
          exact ⟨dl1, hs, Q1⟩
        · have he' : σ' = σ1 ∧ f = f1 ∧ bv = .null := by
            cases f1 <;> simp_all
          obtain ⟨rfl, rfl, rfl⟩ := he'
          exact ⟨dl1, hs.to (exitVD_V hn), ⟨Q1.post, rfl, Q1.fl⟩⟩

theorem csoundST_succ (fuel : Nat) (ih : CSound Φ K F W fuel) (hS1 : CSoundS Φ K F W (fuel + 1)) (hI : CSoundIfV Φ K F W (fuel + 1)) :
    CSoundST Φ K F W (fuel + 1) := by
  intro s X pos k ctx ops fd id σ σ' f bv db dl D h hp hx he hfr hin hP
  have hcal : X.callers ≠ [] := (hx fd id rfl).2.2
  by_cases hxs : s.isExprStmt = true
  · cases s <;> try (simp [FStmt.isExprStmt] at hxs)
    case expr l e =>
      rw [tailOf_expr] at h
      simp only [evalS] at he
      simp only [fragS] at hfr
      simp only [initS] at hin
      cases hee : evalE Φ fuel (some (fd, id)) σ e with
      | none => simp [hee] at he
      | some r =>
        obtain ⟨v, σ2⟩ := r
        simp only [hee, Option.some.injEq, Prod.mk.injEq] at he
        obtain ⟨rfl, rfl, rfl⟩ := he
        obtain ⟨s1, Q1, nv⟩ := ih.E e X pos k ops (some (fd, id)) σ σ2 v db dl D (codeAt_left h) (by simpa [constsS] using hp) hx hee hfr hin
          (hP.sub (by sz))
        exact ⟨dl, (s1.trans (DS.one (cs_retv (codeAt_right h) hcal hP.dbl hP.room1))).to rfl, ⟨Q1, nv, by intro w hw; cases hw⟩⟩
    case ifS ls l c thn els =>
      rw [tailOf_ifS] at h
      obtain ⟨dl1, s1, Q1⟩ := hI ls l c thn els X pos k ctx ops (some (fd, id)) σ σ' f bv db dl D (codeAt_left h) (by simpa [constsS] using hp) hx he
        hfr hin (hP.sub0 (by omega))
      by_cases hn : f = .normal
      · subst hn
        have s1' : DSteps K F (X.st pos ops σ, sh ops.length dl db)
            (X.st (pos + bytes (ifV pos k ctx c thn els)) (bv :: ops) σ', sh (ops.length + 1) dl1 db) := s1
        exact ⟨dl1, (s1'.trans (DS.one (cs_retv (codeAt_right h) hcal hP.dbl hP.room1))).to rfl, Q1⟩
      · exact ⟨dl1, s1.to (exitVD_T hn), Q1⟩
  · have hx' : s.isExprStmt = false := by simpa using hxs
    by_cases hr : s.isRet = true
    · have hcode : tailOf s (compileS pos k ctx s) = compileS pos k ctx s := by simp [tailOf, hx', hr]
      rw [hcode] at h
      obtain ⟨dl1, hs, Q1, _⟩ := hS1 s X pos k ctx ops (some (fd, id)) σ σ' f bv db dl D h hp hx he hfr hin (hP.sub0 (by omega))
      have hn := evalS_ret_flow (Φ := Φ) _ _ _ _ _ _ _ hr he
      exact ⟨dl1, hs.to (exitSD_T hn), Q1⟩
    · have hcode : tailOf s (compileS pos k ctx s) = compileS pos k ctx s ++ [.ret] := by simp [tailOf, hx', hr]
      rw [hcode] at h
      obtain ⟨dl1, hs, Q1, _⟩ := hS1 s X pos k ctx ops (some (fd, id)) σ σ' f bv db dl D (codeAt_left h) hp hx he hfr hin (hP.sub0 (by omega))
      by_cases hn : f = .normal
      · subst hn
        have hbv := evalS_other_null (Φ := Φ) _ _ _ _ _ _ hx' he
        subst hbv
        have hs' : DSteps K F (X.st pos ops σ, sh ops.length dl db) (X.st (pos + bytes (compileS pos k ctx s)) ops σ', sh ops.length dl1 db) := hs
        exact ⟨dl1, (hs'.trans (DS.one (cs_ret (codeAt_right h) hcal hP.dbl hP.room1))).to rfl, Q1⟩
      · exact ⟨dl1, hs.to (exitSD_T hn), Q1⟩

theorem csoundT_succ (fuel : Nat) (ih : CSound Φ K F W fuel) : CSoundT Φ K F W (fuel + 1) := by
  intro ss X pos k ctx ops fd id σ σ' f bv db dl D h hp hx he hfr hin hP
  have hcal : X.callers ≠ [] := (hx fd id rfl).2.2
  cases ss with
  | nil =>
    simp only [evalP, Option.some.injEq, Prod.mk.injEq] at he
    obtain ⟨rfl, rfl, rfl⟩ := he
    simp only [tailP] at h
    exact ⟨dl, (DS.one (cs_ret h hcal hP.dbl hP.room1)).to rfl, ⟨.rfl' hP.nbS, rfl, by intro w hw; cases hw⟩⟩
  | cons s rest =>
    simp only [evalP] at he
    cases h1 : evalS Φ fuel (some (fd, id)) σ s with
    | none => simp [h1] at he
    | some r1 =>
      obtain ⟨σ1, f1, v1⟩ := r1
      simp only [constsP] at hp
      simp only [fragP, Bool.and_eq_true] at hfr
      rw [initP_cons] at hin
      simp only [Bool.and_eq_true] at hin
      cases rest with
      | cons s2 rest2 =>
        rw [tailP_cons2] at h
        generalize hcs : compileS pos k ctx s = cs at *
        obtain ⟨dl1, hs, Q1, hd1⟩ := ih.S s X pos k ctx ops (some (fd, id)) σ σ1 f1 v1 db dl D (hcs ▸ codeAt_left h) (poolAt_left hp) hx h1
          hfr.1 hin.1 (hP.sub (by sz))
        rw [hcs] at hs
        by_cases hn : f1 = .normal
        · subst hn
          simp only [h1] at he
          obtain ⟨dl2, hr, Q2⟩ := ih.T (s2 :: rest2) X (pos + bytes cs) (k + (constsS s).length) ctx ops fd id σ1 σ' f bv db dl1 (defS s D)
            (codeAt_right h) (poolAt_right hp) hx he hfr.2 hin.2 (((hP.next Q1.post).withD (hd1 rfl)).sub (by sz))
          exact ⟨dl2, hs.trans hr, ⟨Q1.post.trans Q2.post, Q2.bv, Q2.fl⟩⟩
        · have he' : σ' = σ1 ∧ f = f1 ∧ bv = .null := by
            cases f1 <;> simp_all
          obtain ⟨rfl, rfl, rfl⟩ := he'
          exact ⟨dl1, hs.to (exitSD_T hn), ⟨Q1.post, rfl, Q1.fl⟩⟩
      | nil =>
        simp only [constsP, List.append_nil] at hp
        rw [tailP_single] at h
        obtain ⟨dl1, hs, Q1⟩ := ih.ST s X pos k ctx ops fd id σ σ1 f1 v1 db dl D h hp hx h1 hfr.1 hin.1 (hP.sub (by sz))
        by_cases hn : f1 = .normal
        · subst hn
          simp only [h1, Option.some.injEq, Prod.mk.injEq] at he
          obtain ⟨rfl, rfl, rfl⟩ := he
          exact ⟨dl1, hs, Q1⟩
        · have he' : σ' = σ1 ∧ f = f1 ∧ bv = .null := by
            cases f1 <;> simp_all
          obtain ⟨rfl, rfl, rfl⟩ := he'
          exact ⟨dl1, hs.to (exitTD_T hn), ⟨Q1.post, rfl, Q1.fl⟩⟩

theorem csound_zero : CSound Φ K F W 0 where
  E := by intro e X pos k ops cx σ σ' v db dl D _ _ _ he; simp [evalE] at he
  Args := by intro a X pos k ops cx σ σ' vs db dl D _ _ _ he; simp [evalArgs] at he
  S := by intro s X pos k ctx ops cx σ σ' f bv db dl D _ _ _ he; simp [evalS] at he
  SV := by intro s X pos k ctx ops cx σ σ' f bv db dl D _ _ _ he; simp [evalS] at he
  ST := by intro s X pos k ctx ops fd id σ σ' f bv db dl D _ _ _ he; simp [evalS] at he
  P := by intro s X pos k ctx ops cx σ σ' f bv db dl D _ _ _ he; simp [evalP] at he
  V := by intro s X pos k ctx ops cx σ σ' f bv db dl D _ _ _ he; simp [evalP] at he
  T := by intro s X pos k ctx ops fd id σ σ' f bv db dl D _ _ _ he; simp [evalP] at he
  IfV := by intro ls l c t e X pos k ctx ops cx σ σ' f bv db dl D _ _ _ he; simp [evalS] at he

/-- **checked soundness of the compiler with functions and closures** (the fragment `frag…`, no slot read
before its `let`: `init…`): the run `Core.Fn.sound_all` produces passes `FnVm`'s checks at every step -/
theorem csound_all (hL : Linked Φ K F) (hG : GoodΦ Φ W) : ∀ fuel, CSound Φ K F W fuel
  | 0 => csound_zero
  | fuel+1 =>
    have ih := csound_all hL hG fuel
    have hI := csoundIfV_succ fuel ih
    have hS := csoundS_succ fuel ih hI
    { E := csoundE_succ fuel ih hL hG
      Args := csoundArgs_succ fuel ih
      S := hS
      SV := csoundSV_succ fuel ih hS hI
      ST := csoundST_succ fuel ih hS hI
      P := csoundP_succ fuel ih
      V := csoundV_succ fuel ih
      T := csoundT_succ fuel ih
      IfV := hI }

end


/-! ## whole programs -/

/-- the top-level statements are in the fragment -/
def fragT : List FTop → Bool
  | [] => true
  | .stmt s :: r => fragS s && fragT r
  | _ :: r => fragT r

/-- the top-level statements read no local slot (there is none at top level) before it is stored -/
def initT : List FTop → Bool
  | [] => true
  | .stmt s :: r => initS [] s && initT r
  | _ :: r => initT r

/-- operand-stack need of the main code -/
def needT : List FTop → Nat
  | [] => 1
  | .stmt s :: r => sizeS s + needT r
  | _ :: r => 1 + needT r

/-- what an activation of `d` needs on the stack: the callee slot, its slots, its operands -/
def frameNeed (d : FDecl) : Nat := d.nl + sizeP d.body + 3

def maxNeed : List (FnDef × FDecl) → Nat
  | [] => 0
  | x :: r => max (frameNeed x.2) (maxNeed r)

theorem maxNeed_mem : ∀ {L : List (FnDef × FDecl)} {x : FnDef × FDecl}, x ∈ L → frameNeed x.2 ≤ maxNeed L
  | [], _, h => by cases h
  | y :: r, x, h => by
    simp only [maxNeed]
    rcases List.mem_cons.mp h with rfl | h
    · exact Nat.le_max_left _ _
    · exact Nat.le_trans (maxNeed_mem h) (Nat.le_max_right _ _)

/-- the largest stack need of an activation of any function literal of the program (at any nesting depth) -/
def maxFrameNeed (T : List FTop) : Nat := maxNeed (declsT T)

/-- **the fragment**: `FnVm`'s instructions (no arrays, maps, indexing, builtin functions) and no `match`, in
the top-level statements and in the body of every function literal of the program; `num_params ≤ num_locals` -/
def fragOK (T : List FTop) : Bool :=
  fragT T && (declsT T).all fun x => fragP x.2.body && decide (x.2.np ≤ x.2.nl)

/-- **no local is read before it is stored**: in every function literal of the program (at any nesting
depth) with the parameters defined at entry, and in the top-level statements.  A `let x = e` whose `e`
names `x` (the slot being defined) is what this excludes — the real compiler emits `GetLocal` of a slot
that `Call` left stale for it (`FnVm.Stale.stale_local_diverges`). -/
def initOK (T : List FTop) : Bool :=
  initT T && (declsT T).all fun x => initP (List.range x.2.np) x.2.body

theorem goodΦ_program {T : List FTop} (hf : fragOK T = true) (hi : initOK T = true) : GoodΦ (phiT T) (maxFrameNeed T) := by
  intro fd d h
  have hm : (fd, d) ∈ declsT T := FnVm.lookupFd_mem h
  simp only [fragOK, Bool.and_eq_true, List.all_eq_true, decide_eq_true_eq] at hf
  simp only [initOK, Bool.and_eq_true, List.all_eq_true] at hi
  have h1 := hf.2 _ hm
  have h2 := hi.2 _ hm
  have h3 := maxNeed_mem hm
  exact ⟨h1.1, h2, h1.2, h3⟩

section
variable {Φ : FnDef → Option FDecl} {K : List Val} {F : FnDef → Option (List Instr)} {W : Nat}

theorem sh_nil : sh 0 [] [] = [] := rfl

/-- the checked form of `Core.Fn.tops_correct` -/
theorem tops_checked (hL : Linked Φ K F) (hG : GoodΦ Φ W) (fuel : Nat) (X : Ctxt) (hXb : X.base = []) (hXc : X.callers = []) :
    ∀ (T : List FTop) (pos k : Nat) (g g' : List Val) (hp hp' : List (List Val)) (a a' : Heap),
    codeAt X.code pos (compileT pos k T) → poolAt K k (constsT T) → evalT Φ fuel g hp a T = some (g', hp', a') →
    fragT T = true → initT T = true → NBS ⟨[], g, hp, a⟩ → needT T + fuel * W < stackSize → fuel < maxFrames →
    DSteps K F (X.st pos [] ⟨[], g, hp, a⟩, []) (X.st (pos + bytes (compileT pos k T)) [] ⟨[], g', hp', a'⟩, [])
  | [], pos, k, g, g', hq, hq', a, a', _, _, he, _, _, _, _, _ => by
    simp only [evalT, Option.some.injEq, Prod.mk.injEq] at he
    obtain ⟨rfl, rfl, rfl⟩ := he
    exact (DSteps.refl _).to (by simp [compileT, bytes])
  | .stmt s :: rest, pos, k, g, g', hq, hq', a, a', h, hp, he, hfr, hin, hnb, hst, hfm => by
    simp only [compileT, compileTop] at h ⊢
    simp only [constsT, constsTop] at hp
    simp only [evalT] at he
    simp only [fragT, Bool.and_eq_true] at hfr
    simp only [initT, Bool.and_eq_true] at hin
    simp only [needT] at hst
    cases hs : evalS Φ fuel none ⟨[], g, hq, a⟩ s with
    | none => simp [hs] at he
    | some r =>
      obtain ⟨σ1, f1, v1⟩ := r
      cases f1 with
      | normal =>
        simp only [hs] at he
        have hP : Pre W X [] [] ⟨[], g, hq, a⟩ [] [] (sizeS s) fuel :=
          ⟨by simp [hXb], rfl, (by intro i hi; cases hi), hnb, (by simp [hXb] <;> omega), (by simp [hXc] <;> omega)⟩
        obtain ⟨dl1, s1, Q1, _⟩ := (csound_all hL hG fuel).S s X pos k [] [] none ⟨[], g, hq, a⟩ σ1 .normal v1 [] [] [] (codeAt_left h) (poolAt_left hp)
          (agree_none X) hs hfr.1 hin.1 hP
        have hl := Q1.post.len
        have hdl := Q1.post.dlen
        have hσ1 : σ1 = ⟨[], σ1.g, σ1.h, σ1.a⟩ := by
          cases σ1 with
          | mk l1 g1 h1 a1 =>
            have : l1 = [] := by simpa using hl
            simp [this]
        have hdl1 : dl1 = [] := by simpa using hdl
        have hnb1 : NBS ⟨[], σ1.g, σ1.h, σ1.a⟩ := ⟨(by intro v hv; cases hv), Q1.post.nbS.g, Q1.post.nbS.h⟩
        have s2 := tops_checked hL hG fuel X hXb hXc rest _ _ σ1.g g' σ1.h hq' σ1.a a' (codeAt_right h) (poolAt_right hp) he hfr.2 hin.2 hnb1
          (by omega) hfm
        subst hdl1
        have s1' : DSteps K F (X.st pos [] ⟨[], g, hq, a⟩, []) (X.st (pos + bytes (compileS pos k [] s)) [] σ1, []) := s1
        rw [hσ1] at s1'
        exact (s1'.trans s2).toPc (by simp [bytes_append, Nat.add_assoc])
      | brk l => simp [hs] at he
      | cont l => simp [hs] at he
      | ret v => simp [hs] at he
  | .fnDef l gi code lines d :: rest, pos, k, g, g', hq, hq', a, a', h, hp, he, hfr, hin, hnb, hst, hfm => by
    simp only [compileT, compileTop] at h ⊢
    simp only [constsT, constsTop] at hp
    simp only [evalT] at he
    simp only [fragT] at hfr
    simp only [initT] at hin
    simp only [needT] at hst
    by_cases hi : gi < g.length
    · simp only [hi, if_true] at he
      have hc : codeAt X.code pos [Instr.closure (k + (constsP d.body).length) 0] := codeAt_left (b := [.defGlobal gi]) (codeAt_left h)
      have hdg : codeAt X.code (pos + 4) [Instr.defGlobal gi] := by
        have := codeAt_right (a := [Instr.closure (k + (constsP d.body).length) 0]) (b := [.defGlobal gi]) (codeAt_left h)
        simpa [bytes, Instr.size] using this
      have hk : K[k + (constsP d.body).length]? = some (.func (mkFd code lines d)) := poolAt_get (poolAt_right (poolAt_left hp))
      have hR1 : Room X (0 + 1 + 0) := ⟨(by simp [hXb] <;> omega), (by simp [hXc] <;> omega)⟩
      have hR0 : Room X (0 + 0) := ⟨(by simp [hXb] <;> omega), (by simp [hXc] <;> omega)⟩
      have s1 := DS.one (cs_closure (K := K) (F := F) (X := X) (vs := []) (ops := []) (σ := ⟨[], g, hq, a⟩) (dl := []) (db := []) hc hk hR1)
      have s2 := DS.one (cs_defGlobal (K := K) (F := F) (X := X) (v := .clos (mkFd code lines d) [] hq.length) (ops := [])
        (σ := ⟨[], g, hq ++ [[]], a⟩) (dl := []) (db := []) hdg hi hR0)
      have hnb1 : NBS ⟨[], g.set gi (.clos (mkFd code lines d) [] hq.length), hq ++ [[]], a⟩ :=
        ⟨hnb.l, nbs_set hnb.g rfl gi, pushH_nbs hnb.h (by intro v hv; cases hv)⟩
      have s3 := tops_checked hL hG fuel X hXb hXc rest _ _ _ g' _ hq' a a' (codeAt_right h) (poolAt_right hp) he hfr hin hnb1 (by omega) hfm
      have hb : bytes [Instr.closure (k + (constsP d.body).length) 0, Instr.defGlobal gi] = 7 := by simp [bytes, Instr.size]
      rw [hb] at s3
      have s12 : DSteps K F (X.st pos [] ⟨[], g, hq, a⟩, []) (X.st (pos + 7) [] ⟨[], g.set gi (.clos (mkFd code lines d) [] hq.length), hq ++ [[]], a⟩, []) :=
        (s1.trans s2).toPc (by omega)
      exact (s12.trans s3).toPc (by simp [bytes, Instr.size]; omega)
    · simp [hi] at he
  | .fnSet ls l gi code lines d :: rest, pos, k, g, g', hq, hq', a, a', h, hp, he, hfr, hin, hnb, hst, hfm => by
    simp only [compileT, compileTop] at h ⊢
    simp only [constsT, constsTop] at hp
    simp only [evalT] at he
    simp only [fragT] at hfr
    simp only [initT] at hin
    simp only [needT] at hst
    by_cases hi : gi < g.length
    · simp only [hi, if_true] at he
      obtain ⟨hc, h2⟩ := codeAt_cons (codeAt_left h)
      obtain ⟨hsg, h3⟩ := codeAt_cons h2
      simp only [Instr.size] at hsg h3
      have hk : K[k + (constsP d.body).length]? = some (.func (mkFd code lines d)) := poolAt_get (poolAt_right (poolAt_left hp))
      have hR1 : Room X (0 + 1 + 0) := ⟨(by simp [hXb] <;> omega), (by simp [hXc] <;> omega)⟩
      have hR0 : Room X (0 + 0) := ⟨(by simp [hXb] <;> omega), (by simp [hXc] <;> omega)⟩
      have s1 := DS.one (cs_closure (K := K) (F := F) (X := X) (vs := []) (ops := []) (σ := ⟨[], g, hq, a⟩) (dl := []) (db := []) hc hk hR1)
      have s2 := DS.one (cs_setGlobal (K := K) (F := F) (X := X) (v := .clos (mkFd code lines d) [] hq.length) (ops := [])
        (σ := ⟨[], g, hq ++ [[]], a⟩) (dl := []) (db := []) hsg hi hR1)
      have s2' := DS.one (cs_pop (K := K) (F := F) (X := X) (v := .clos (mkFd code lines d) [] hq.length) (ops := [])
        (σ := ⟨[], g.set gi (.clos (mkFd code lines d) [] hq.length), hq ++ [[]], a⟩) (dl := []) (db := []) h3 hR0)
      have hnb1 : NBS ⟨[], g.set gi (.clos (mkFd code lines d) [] hq.length), hq ++ [[]], a⟩ :=
        ⟨hnb.l, nbs_set hnb.g rfl gi, pushH_nbs hnb.h (by intro v hv; cases hv)⟩
      have s3 := tops_checked hL hG fuel X hXb hXc rest _ _ _ g' _ hq' a a' (codeAt_right h) (poolAt_right hp) he hfr hin hnb1 (by omega) hfm
      have hb : bytes [Instr.closure (k + (constsP d.body).length) 0, Instr.setGlobal gi, Instr.pop] = 8 := by simp [bytes, Instr.size]
      rw [hb] at s3
      have s12 : DSteps K F (X.st pos [] ⟨[], g, hq, a⟩, []) (X.st (pos + 8) [] ⟨[], g.set gi (.clos (mkFd code lines d) [] hq.length), hq ++ [[]], a⟩, []) :=
        ((s1.trans s2).trans s2').toPc (by omega)
      exact (s12.trans s3).toPc (by simp [bytes, Instr.size]; omega)
    · simp [hi] at he

end

theorem DSteps_dsteps {K : List Val} {F : FnDef → Option (List Instr)} {x y : FSt × List Bool} (h : DSteps K F x y) :
    ∃ k, dsteps K F k x = some y := by
  induction h with
  | refl x => exact ⟨0, rfl⟩
  | cons hd _ ih =>
    obtain ⟨k, hk⟩ := ih
    exact ⟨k + 1, by simp [dsteps, hd, hk]⟩

/-- the static hypotheses on the program, and the numeric condition relative to the evaluation's fuel:
`fuel` activations of at most `maxFrameNeed T` slots each on top of the main code's operands fit the stack,
and `fuel` frames fit the frame stack -/
def fits (T : List FTop) (fuel : Nat) : Prop :=
  needT T + fuel * maxFrameNeed T < stackSize ∧ fuel < maxFrames

instance (T : List FTop) (fuel : Nat) : Decidable (fits T fuel) := by unfold fits; exact inferInstance

/-- **DEFINEDNESS and BOUNDS** — the run of the machine with frames that `Core.Fn.program_correct_fn` produces
for a terminating evaluation passes the checks of `FnVm.fstep_refines_partial` at every step (`DSteps`: operands
and local slots read are defined, the callee of every `Call` is a closure, stack ≤ `STACK_SIZE`, frames <
`MAX_FRAMES`), for every program of the fragment (`fragOK`) that stores every local before reading it
(`initOK`), when the evaluation's fuel satisfies the numeric condition `fits`. -/
theorem program_checked_fn (fuel : Nat) (T : List FTop) (n : Nat) (a a' : Heap) (g' : List Val) (h' : List (List Val))
    (he : evalT (phiT T) fuel (List.replicate n .null) [[]] a T = some (g', h', a'))
    (hf : fragOK T = true) (hi : initOK T = true) (hfit : fits T fuel) :
    DSteps (constsT T) (codeT T) (FnVm.progInit T n a, [])
      (⟨⟨compileT 0 0 T, ⟨[], [], 0, 0, 0⟩, 0, bytes (compileT 0 0 T), 0⟩, [], g', h', a', []⟩, []) := by
  have hft : fragT T = true := by simp only [fragOK, Bool.and_eq_true] at hf; exact hf.1
  have hit : initT T = true := by simp only [initOK, Bool.and_eq_true] at hi; exact hi.1
  have hnb : NBS ⟨[], List.replicate n .null, [[]], a⟩ :=
    ⟨(by intro v hv; cases hv), nbs_replicate_null n, (by intro c hc; simp at hc; subst hc; intro v hv; cases hv)⟩
  have := tops_checked (linked_program T) (goodΦ_program hf hi) fuel (mainCtxt (compileT 0 0 T)) rfl rfl T 0 0 _ g' _ h' a a'
    ⟨[], [], by simp [mainCtxt], rfl⟩ ⟨[], [], by simp, rfl⟩ he hft hit hnb hfit.1 hfit.2
  simpa [Ctxt.st, Ctxt.at, mainCtxt, FnVm.progInit] using this

/-- the same as an instance of `FnVm`'s executable predicate -/
theorem program_checkedRun_fn (fuel : Nat) (T : List FTop) (n : Nat) (a a' : Heap) (g' : List Val) (h' : List (List Val))
    (he : evalT (phiT T) fuel (List.replicate n .null) [[]] a T = some (g', h', a'))
    (hf : fragOK T = true) (hi : initOK T = true) (hfit : fits T fuel) :
    ∃ k, checkedRun (constsT T) (codeT T) k (FnVm.progInit T n a, []) = true := by
  obtain ⟨k, hk⟩ := DSteps_dsteps (program_checked_fn fuel T n a a' g' h' he hf hi hfit)
  exact ⟨k, by simp [checkedRun, hk]⟩

/-- **MAIN**: a terminating evaluation (`Core.Fn.evalT`, fuel `efuel`) of a program with functions, locals,
recursion and closures that is in the fragment (`fragOK`), stores every local before reading it (`initOK`) and
whose fuel fits (`fits`: `needT T + efuel * maxFrameNeed T < STACK_SIZE`, `efuel < MAX_FRAMES`) ⇒ `Vm.run` on the
encoded main code and the program's constants ends normally with the evaluator's globals, the empty stack and the
main frame alone.  NO hypothesis about an intermediate state of either machine: the remaining hypotheses are
static facts about the compiled program (operands fit their widths, the function constants hold the encoding of
their code, no `CurrentClosure` in the main code, no array / map constant, `n` globals fit). -/
theorem program_vm_fn (T : List FTop) (efuel n : Nat) (a a' : Heap) (g' : List Val) (h' : List (List Val))
    (he : evalT (phiT T) efuel (List.replicate n .null) [[]] a T = some (g', h', a'))
    (hf : fragOK T = true) (hi : initOK T = true) (hfit : fits T efuel)
    (main : FnDef) (hcode : main.code = Core.encode (compileT 0 0 T)) (hlines : main.code.length ≤ main.lines.length)
    (hfits : (compileT 0 0 T).all Core.fitsI = true) (hnc : FnVm.noCurr (compileT 0 0 T) = true)
    (hF : FnVm.codedB (codesT 0 T) = true) (hK : FnVm.scalars (constsT T)) (hn : n ≤ P2sh.Gen.Limits.GLOBALS_SIZE) :
    ∃ fuel vs', Vm.run main (constsT T) fuel = (.ok (), vs') ∧ CoreVm.GRel vs'.globals g' ∧ vs'.sp = 0 ∧ vs'.frames.length = 1 := by
  obtain ⟨k, hk⟩ := program_checkedRun_fn efuel T n a a' g' h' he hf hi hfit
  exact FnVm.program_run_refines_partial T efuel n k a a' g' h' he main hcode hlines hfits hnc hF hK hn hk


/-! ## the oracle ⇒ the VM model, for programs with functions -/

/-- **oracle ⇒ VM model** (`_partial`: `RefFn`'s fragment `okTop` and this file's `fragOK`).  When the oracle
(`Spec/Ref.lean`) runs the embedding of the program to its normal end, `Core.Fn.evalT` ends with some fuel `k` in a
configuration related to the oracle's (`RefFn.TopR`), and — when that fuel fits (`fits T k`) — `Vm.run` on the encoded
compiled program ends normally with those globals. -/
theorem oracle_vm_fn_partial {N : RefFn.Names} (hN : RefFn.NamesOK N) (n : Nat) {T : List FTop} {fuel : Nat} {v : Val} {env' : Ref.Env}
    {st' : Ref.St} (a : Heap) (hok : RefFn.okTop N (phiT T) n 0 T = true)
    (hrun : RefCore.run (Ref.evalStmts fuel [[]] (RefFn.toTops N T) .null) {} = (.ok (.normal, v, env'), st'))
    (hf : fragOK T = true) (hi : initOK T = true)
    (main : FnDef) (hcode : main.code = Core.encode (compileT 0 0 T)) (hlines : main.code.length ≤ main.lines.length)
    (hfits : (compileT 0 0 T).all Core.fitsI = true) (hnc : FnVm.noCurr (compileT 0 0 T) = true)
    (hF : FnVm.codedB (codesT 0 T) = true) (hK : FnVm.scalars (constsT T)) (hn : n ≤ P2sh.Gen.Limits.GLOBALS_SIZE) :
    ∃ k g' h' a' CT n', evalT (phiT T) k (List.replicate n .null) [[]] a T = some (g', h', a') ∧
      RefFn.TopR N (phiT T) n n' env' CT st' g' h' a' ∧
      (fits T k → ∃ vfuel vs', Vm.run main (constsT T) vfuel = (.ok (), vs') ∧ CoreVm.GRel vs'.globals g' ∧ vs'.sp = 0 ∧
        vs'.frames.length = 1) := by
  obtain ⟨k, g', h', a', CT, n', hev, hr⟩ := RefFn.ref_program_fn_partial hN n [[]] a hok hrun
  exact ⟨k, g', h', a', CT, n', hev, hr, fun hfit =>
    program_vm_fn T k n a a' g' h' hev hf hi hfit main hcode hlines hfits hnc hF hK hn⟩

/-! ## non-vacuity -/

namespace Example
open P2sh.FnVm.Example (argsOf)

/-- `fn fact(n) { let m = n - 1; if n < 1 { 1 } else { n * fact(m) } }` — one parameter, one local that is
not a parameter (slot 1: stale after `Call`, stored by `DefineLocal 1` before `GetLocal 1` reads it),
recursion through the global `fact` -/
def factD : FDecl := ⟨1, 2,
  [.letL 1 1 (.bin 1 .sub (.lget 1 0) (.lit 1 (.int 1))),
   .expr 1 (.ite 1 (.lt 1 (.lget 1 0) (.lit 1 (.int 1))) (.lit 1 (.int 1))
     (.bin 1 .mul (.lget 1 0) (.call 1 (.gget 1 0) (argsOf [.lget 1 1]))))], 1⟩
def factC : List Nat × List Nat := fnTop 0 factD

/-- `fn fact(n) {…}  let r = fact(3);` -/
def prog : List FTop :=
  [.fnDef 1 0 factC.1 factC.2 factD,
   .stmt (.letG 2 1 (.call 2 (.gget 2 0) (argsOf [.lit 2 (.int 3)])))]

/-- the function's code: slot 1 is stored (`DefineLocal 1`) before `GetLocal 1` reads it -/
example : (codesT 0 prog).map (·.2) =
    [[.getLocal 0, .const 0, .op .sub, .defLocal 1, .const 1, .getLocal 0, .op .greater, .jif 23, .const 2, .jump 33,
      .getLocal 0, .getGlobal 0, .getLocal 1, .call 1, .op .mul, .retv]] := by rfl
example : maxFrameNeed prog = 39 ∧ needT prog = 13 ∧ maxFrameNeed FnVm.Example.prog = 11 ∧ needT FnVm.Example.prog = 18 :=
  ⟨by rfl, by rfl, by rfl, by rfl⟩

def exMain : FnDef := ⟨Core.encode (compileT 0 0 prog), List.replicate (Core.encode (compileT 0 0 prog)).length 1, 0, 0, 0⟩

/-- the static hypotheses, and the numeric condition for fuel 40 -/
example : fragOK prog = true ∧ initOK prog = true := ⟨by rfl, by rfl⟩
example : fits prog 40 := by decide

/-- **the main theorem, instantiated on a recursive function**: `Vm.run` on the encoded program ends normally,
the global `r` holds `3! = 6`; every hypothesis by `rfl` / `decide` -/
theorem fact_run : ∃ fuel vs', Vm.run exMain (constsT prog) fuel = (.ok (), vs') ∧
      CoreVm.GRel vs'.globals [.clos (mkFd factC.1 factC.2 factD) [] 1, .int 6] ∧ vs'.sp = 0 ∧ vs'.frames.length = 1 :=
  program_vm_fn prog 40 2 {} {} _ [[], []] (by rfl) (by rfl) (by rfl) (by decide) exMain rfl (by simp [exMain]) (by decide) rfl (by decide)
    (FnVm.scalars_of_all rfl) (by decide)

/-- the same program with the local read in its own initialiser (`let m = m - 1`) is rejected by `initOK` -/
def badD : FDecl := ⟨1, 2, [.letL 1 1 (.bin 1 .sub (.lget 1 1) (.lit 1 (.int 1))), .expr 1 (.lget 1 1)], 1⟩
example : initOK [.fnDef 1 0 (fnTop 0 badD).1 (fnTop 0 badD).2 badD] = false := by rfl

/-- **closures**: `FnVm`'s `fn mk(a) { return fn(b) { a + b }; }  let r = mk(1)(2);` -/
example : fragOK FnVm.Example.prog = true ∧ initOK FnVm.Example.prog = true := ⟨by rfl, by rfl⟩
example : fits FnVm.Example.prog 40 := by decide

theorem closure_run : ∃ fuel vs', Vm.run FnVm.Example.exMain (constsT FnVm.Example.prog) fuel = (.ok (), vs') ∧
      CoreVm.GRel vs'.globals [.clos (mkFd FnVm.Example.mkC.1 FnVm.Example.mkC.2 FnVm.Example.mkD) [] 1, .int 3] ∧
      vs'.sp = 0 ∧ vs'.frames.length = 1 :=
  program_vm_fn FnVm.Example.prog 40 2 {} {} _ [[], [], [.int 1]] (by rfl) (by rfl) (by rfl) (by decide) FnVm.Example.exMain rfl
    (by decide) (by decide) rfl (by decide) (FnVm.scalars_of_all rfl) (by decide)

end Example

#print axioms csound_all
#print axioms program_checked_fn
#print axioms program_checkedRun_fn
#print axioms program_vm_fn
#print axioms oracle_vm_fn_partial
#print axioms Example.fact_run
#print axioms Example.closure_run

end P2sh.FnChain
