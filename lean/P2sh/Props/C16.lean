import P2sh.Model.Proto
import P2sh.Spec.Rfc
import P2sh.Gen.Props
import P2sh.Gen.Limits
/-!
# C16 — header accessors decode the RFC-defined fields and layers

* `props_table_agrees` — the model's property enumeration is the table generated from `src/code/prop.rs` / `rules.rs`.
* `getter_is_slice` — for every numeric property of every layer except `tcp.flags`: the getter applied to the parsed
  header is the big-endian bit slice `Rfc.layout` names; `record_getter_is_le_slice` for the little-endian record header;
  `dei_is_slice` for the one flag; `mac_text_is_reference`, `v4_text_is_reference` for address text.
* `tcp_flags_low_byte_partial` + `tcp_flags_whole_word_witness` — `tcp.flags` is the whole 16-bit word: only its low
  byte is the RFC 9293 control-bit field.
* `payload_offset_fixed`, `ipv4_payload_offset`, `tcp_payload_offset_partial` + `tcp_payload_fixed_witness`.
* `dispatch_agrees_partial` + `vlan_ipv6_rterr_witness` — `$n` dispatch is the RFC table except below a VLAN tag whose
  EtherType is IPv6.
* `named_getter_ignores_type_witness` — a named layer getter does not look at the type field.
-/
namespace P2sh.Props.C16
open P2sh P2sh.Proto P2sh.Spec

/-! ## the property table -/

theorem props_table_agrees :
    PP.all.map (fun p => (p.code, p.name)) = P2sh.Gen.Props.enumOrder.map (fun e => (e.2, (P2sh.Gen.Props.displayNames.lookup e.1).getD "")) ∧
    P2sh.Gen.Props.aliases = [("nsec", "USec")] ∧
    maxProtoDepth = P2sh.Gen.Limits.MAX_PROTO_DEPTH := by
  decide

/-! ## fields -/

def hdrBytes (b : Nat → Nat) (n : Nat) : List Nat := (List.range n).map b

theorem byteAt_hdr (b : Nat → Nat) (n i : Nat) (h : i < n) : Rfc.byteAt (hdrBytes b n) i = b i := by
  simp [Rfc.byteAt, hdrBytes, List.getD_eq_getElem?_getD, h]

/-- the header `from_bytes` builds for a layer -/
def parseAs : Rfc.Layer → (Nat → Nat) → Hdr
  | .record, b => .pcap (PcapHdr.parse b)
  | .ethernet, b => .eth (EthHdr.parse b)
  | .dot1q, b => .vlan (VlanHdr.parse b)
  | .ipv4, b => .ipv4 (Ipv4Hdr.parse b)
  | .ipv6, b => .ipv6 (Ipv6Hdr.parse b)
  | .tcp, b => .tcp (TcpHdr.parse b)
  | .udp, b => .udp (UdpHdr.parse b)

def hdrLen : Rfc.Layer → Nat
  | .record => 16
  | l => Rfc.fixedSize l

set_option maxHeartbeats 4000000 in
set_option maxRecDepth 100000 in
/-- **every numeric getter is the RFC bit slice** (all layers but the record header, all properties but `tcp.flags`) -/
theorem getter_is_slice (L : Rfc.Layer) (p : PP) (o w : Nat) (b : Nat → Nat) (hb : ∀ i, b i < 256)
    (hlay : Rfc.layout L p = some (o, w)) (hk : Rfc.kindOf L p = .num) (hL : L ≠ .record)
    (hx : ¬(L = .tcp ∧ p = .flags)) :
    (parseAs L b).get p = some (.num (Rfc.bitSlice (hdrBytes b (hdrLen L)) o w)) := by
  have h0 := hb 0; have h1 := hb 1; have h2 := hb 2; have h3 := hb 3; have h4 := hb 4; have h5 := hb 5
  have h6 := hb 6; have h7 := hb 7; have h8 := hb 8; have h9 := hb 9; have h10 := hb 10; have h11 := hb 11
  have h12 := hb 12; have h13 := hb 13; have h14 := hb 14; have h15 := hb 15; have h16 := hb 16; have h17 := hb 17
  have h18 := hb 18; have h19 := hb 19
  cases L <;> cases p <;> simp [Rfc.layout, Rfc.kindOf] at hlay hk hL hx <;> obtain ⟨rfl, rfl⟩ := hlay <;>
    simp [parseAs, hdrLen, Rfc.fixedSize, Hdr.get, EthHdr.get, VlanHdr.get, Ipv4Hdr.get, Ipv6Hdr.get, TcpHdr.get, UdpHdr.get,
      EthHdr.parse, VlanHdr.parse, Ipv4Hdr.parse, Ipv6Hdr.parse, TcpHdr.parse, UdpHdr.parse, u16be, u32be,
      Rfc.bitSlice, Rfc.beNat, byteAt_hdr, List.range, List.range.loop] <;> omega


theorem record_getter_is_le_slice (p : PP) (o w : Nat) (b : Nat → Nat)
    (hlay : Rfc.layout .record p = some (o, w)) :
    (parseAs .record b).get p = some (.num (Rfc.leSlice (hdrBytes b 16) (o / 8) (w / 8))) := by
  cases p <;> simp [Rfc.layout] at hlay <;> obtain ⟨rfl, rfl⟩ := hlay <;>
    simp [parseAs, Hdr.get, PcapHdr.get, PcapHdr.parse, u32le, Rfc.leSlice, Rfc.leNat, byteAt_hdr, List.range, List.range.loop] <;> omega

theorem dei_is_slice (b : Nat → Nat) (hb : ∀ i, b i < 256) :
    (parseAs .dot1q b).get .dei = some (.flag (decide (Rfc.bitSlice (hdrBytes b 4) 3 1 = 1))) := by
  have h0 := hb 0
  simp [parseAs, Hdr.get, VlanHdr.get, VlanHdr.parse, Rfc.bitSlice, Rfc.beNat, byteAt_hdr, List.range, List.range.loop]

/-! ### address text -/

theorem joinSep_eq_join (sep : Char) (xs : List (List Char)) : joinSep sep xs = Rfc.join sep xs := by
  induction xs with
  | nil => rfl
  | cons x xs ih =>
    cases xs with
    | nil => rfl
    | cons y ys => simp [joinSep, Rfc.join, ih]

set_option maxRecDepth 100000 in
theorem hex2U_ref : ∀ x : Fin 256, hex2U x.val = (Rfc.digits 16 2 x.val).map Rfc.digitU := by decide +kernel

set_option maxRecDepth 100000 in
theorem dec8_ref : ∀ x : Fin 256, dec8 x.val = (Rfc.digits 10 0 x.val).map Rfc.digitL := by decide +kernel

theorem map_congr_bytes {f g : Nat → List Char} (hfg : ∀ x : Fin 256, f x.val = g x.val) :
    ∀ (a : List Nat), (∀ x ∈ a, x < 256) → a.map f = a.map g := by
  intro a ha
  apply List.map_congr_left
  intro x hx
  exact hfg ⟨x, ha x hx⟩

/-- the MAC text the code prints is the reference upper-case rendering -/
theorem mac_text_is_reference (a : List Nat) (ha : ∀ x ∈ a, x < 256) : showMac a = Rfc.showMacU a := by
  simp only [showMac, Rfc.showMacU, joinSep_eq_join]
  rw [map_congr_bytes (f := hex2U) (g := fun b => (Rfc.digits 16 2 b).map Rfc.digitU) hex2U_ref a ha]

theorem v4_text_is_reference (a : List Nat) (ha : ∀ x ∈ a, x < 256) : showV4 a = Rfc.showV4 a := by
  simp only [showV4, Rfc.showV4, joinSep_eq_join]
  rw [map_congr_bytes (f := dec8) (g := fun b => (Rfc.digits 10 0 b).map Rfc.digitL) dec8_ref a ha]


/-! ### TCP flags: the whole 16-bit word -/

/-- only the low byte of what `tcp.flags` returns is the control-bit field; the top nibble is the data offset -/
theorem tcp_flags_low_byte_partial (b : Nat → Nat) (hb : ∀ i, b i < 256) :
    (TcpHdr.parse b).flags % 256 = Rfc.bitSlice (hdrBytes b 20) 104 8 ∧
    (TcpHdr.parse b).flags / 4096 = Rfc.bitSlice (hdrBytes b 20) 96 4 := by
  have h12 := hb 12; have h13 := hb 13
  constructor <;>
    simp [TcpHdr.parse, u16be, Rfc.bitSlice, Rfc.beNat, byteAt_hdr, List.range, List.range.loop] <;> omega

/-- a SYN/ACK segment with data offset 5: `flags` reads 0x5012, neither the 8 control bits (0x12) nor the 12 bits with the reserved ones -/
theorem tcp_flags_whole_word_witness :
    let b : Nat → Nat := fun i => [0x1f,0x90,0,80, 0,0,0,1, 0,0,0,2, 0x50,0x12,0xff,0xff, 0,0,0,0].getD i 0
    (TcpHdr.parse b).get .flags = some (.num 0x5012) ∧
    Rfc.bitSlice (hdrBytes b 20) 104 8 = 0x12 ∧ Rfc.bitSlice (hdrBytes b 20) 100 12 = 0x012 := by
  decide

/-! ### payload offsets -/

theorem byteAt_drop (raw : List Nat) (s i : Nat) : Rfc.byteAt (raw.drop s) i = getB raw (s + i) := by
  simp [Rfc.byteAt, getB, List.getD_eq_getElem?_getD, List.getElem?_drop]

def kindLayer : LayerKind → Rfc.Layer
  | .eth => .ethernet | .vlan => .dot1q | .ipv4 => .ipv4 | .ipv6 => .ipv6 | .tcp => .tcp | .udp => .udp

/-- every layer but TCP puts its payload where the header it parsed says the header ends -/
theorem payload_offset_partial (raw : List Nat) (hw : wf raw) (k : LayerKind) (s off : Nat) (h : Hdr)
    (hp : parseLayer raw k s = .obj (.layer h off .none)) (hk : k ≠ .tcp) :
    off = s + Rfc.headerLen raw (kindLayer k) s := by
  have h0 := getB_lt hw (s + 0)
  cases k <;> simp only [parseLayer] at hp <;> (repeat' split at hp) <;> cases hp <;>
    simp [kindLayer, Rfc.headerLen, Rfc.fixedSize, Rfc.bitSlice, Rfc.beNat, byteAt_drop, Ipv4Hdr.parse, rd, List.range, List.range.loop] at * <;> omega

/-- TCP with data offset 6: the payload is said to start after 20 bytes, the header is 24 bytes long -/
theorem tcp_payload_fixed_witness :
    let raw : List Nat := [0x1f,0x90,0,80, 0,0,0,1, 0,0,0,2, 0x60,0x12,0xff,0xff, 0,0,0,0, 1,2,3,4, 0xaa,0xbb]
    (match parseLayer raw .tcp 0 with | .obj (.layer _ off _) => some off | _ => none) = some 20 ∧
    Rfc.headerLen raw .tcp 0 = 24 := by
  decide



def hdrLayer : Hdr → Rfc.Layer
  | .pcap _ => .record | .eth _ => .ethernet | .vlan _ => .dot1q | .ipv4 _ => .ipv4
  | .ipv6 _ => .ipv6 | .tcp _ => .tcp | .udp _ => .udp

/-- the value of the field that selects the next layer -/
def typeVal : Hdr → Nat
  | .eth h => h.ethertype | .vlan h => h.ethertype | .ipv4 h => h.proto | .ipv6 h => h.nh
  | _ => 0

def dispLayer : Disp → Option Rfc.Layer
  | .parse k => some (kindLayer k)
  | _ => none

/-- `$n` descends into the layer the RFC table selects, for every header except a VLAN tag whose EtherType is IPv6 -/
theorem dispatch_agrees_partial (h : Hdr) (hne : ∀ ph, h ≠ .pcap ph)
    (hx : ∀ v, h = .vlan v → v.ethertype ≠ 0x86DD) :
    dispLayer (dispatch h) = Rfc.nextLayer (hdrLayer h) (typeVal h) ∧ dispatch h ≠ .rterr := by
  cases h with
  | pcap ph => exact absurd rfl (hne ph)
  | eth e =>
    simp only [dispatch, hdrLayer, typeVal]
    by_cases h1 : e.ethertype = 0x8100
    · simp [h1, dispLayer, kindLayer, Rfc.nextLayer]
    · by_cases h2 : e.ethertype = 0x0800
      · simp [h2, dispLayer, kindLayer, Rfc.nextLayer]
      · by_cases h3 : e.ethertype = 0x86DD
        · simp [h3, dispLayer, kindLayer, Rfc.nextLayer]
        · simp [h1, h2, h3, dispLayer]
          unfold Rfc.nextLayer
          split <;> simp_all
  | vlan e =>
    have hv := hx e rfl
    simp only [dispatch, hdrLayer, typeVal]
    by_cases h1 : e.ethertype = 0x8100
    · simp [h1, dispLayer, kindLayer, Rfc.nextLayer]
    · by_cases h2 : e.ethertype = 0x0800
      · simp [h2, dispLayer, kindLayer, Rfc.nextLayer]
      · simp [h1, h2, hv, dispLayer]
        unfold Rfc.nextLayer
        split <;> simp_all
  | ipv4 e =>
    simp only [dispatch, hdrLayer, typeVal]
    by_cases h1 : e.proto = 17
    · simp [h1, dispLayer, kindLayer, Rfc.nextLayer]
    · by_cases h2 : e.proto = 6
      · simp [h2, dispLayer, kindLayer, Rfc.nextLayer]
      · by_cases h3 : e.proto = 41
        · simp [h3, dispLayer, kindLayer, Rfc.nextLayer]
        · simp [h1, h2, h3, dispLayer]
          unfold Rfc.nextLayer
          split <;> simp_all
  | ipv6 e =>
    simp only [dispatch, hdrLayer, typeVal]
    by_cases h1 : e.nh = 17
    · simp [h1, dispLayer, kindLayer, Rfc.nextLayer]
    · by_cases h2 : e.nh = 6
      · simp [h2, dispLayer, kindLayer, Rfc.nextLayer]
      · simp [h1, h2, dispLayer]
        unfold Rfc.nextLayer
        split <;> simp_all
  | tcp e => simp [dispatch, dispLayer, hdrLayer, Rfc.nextLayer]
  | udp e => simp [dispatch, dispLayer, hdrLayer, Rfc.nextLayer]

/-- below a VLAN tag whose EtherType is IPv6 `$n` asks the VLAN object for a property it does not have -/
theorem vlan_ipv6_rterr_witness (v : VlanHdr) (h : v.ethertype = 0x86DD) :
    (match dispatch (.vlan v) with | .rterr => true | _ => false) = true ∧
    Rfc.nextLayer .dot1q v.ethertype = some .ipv6 ∧ layerProp (.vlan v) .ipv6 = none := by
  simp [dispatch, h, Rfc.nextLayer, layerProp]

/-- an ARP frame (EtherType 0x0806, 28 bytes after the header): `eth.ipv4` parses the ARP body as an IPv4 header
although the type field does not select IPv4 (there the reference gives no layer at all) -/
theorem named_getter_ignores_type_witness :
    let raw : List Nat := [0,1,2,3,4,5, 6,7,8,9,10,11, 8,6] ++ List.replicate 28 1
    let r := (Pkt.new { sec := 0, usec := 0, caplen := 42, wirelen := 42 } raw).run [.get .pkt [.eth, .ipv4]]
    (match r.2 with | [.ok (.other k)] => k | _ => "") = "ipv4" ∧ Rfc.nextLayer .ethernet 0x0806 = none := by
  decide

/-- and the wrongly parsed object stays cached: a later `eth.vlan` returns the IPv4 object -/
theorem stale_inner_witness :
    let raw : List Nat := [0,1,2,3,4,5, 6,7,8,9,10,11, 0x81,0] ++ List.replicate 28 1
    let r := (Pkt.new { sec := 0, usec := 0, caplen := 42, wirelen := 42 } raw).run [.get .pkt [.eth, .ipv4], .get .pkt [.eth, .vlan]]
    (match r.2 with | [_, .ok (.other k)] => k | _ => "") = "ipv4" := by
  decide

end P2sh.Props.C16
