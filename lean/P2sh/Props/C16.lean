import P2sh.Model.Proto
import P2sh.Spec.Rfc
import P2sh.Gen.Props
import P2sh.Gen.Limits
/-!
# C16 — header accessors decode the RFC-defined fields and layers

* `props_table_agrees` — the model's property enumeration is the table generated from `src/code/prop.rs` / `rules.rs`.
* `getter_is_slice` — for every numeric property of every layer (TCP `flags` included): the getter applied to the parsed
  header is the big-endian bit slice `Rfc.layout` names; `record_getter_is_le_slice` for the little-endian record header;
  `dei_is_slice` for the one flag; `mac_text_is_reference`, `v4_text_is_reference` for address text.
* `payload_offset` — every layer puts its payload where the header it parsed says the header ends (IHL·4, data offset·4,
  fixed otherwise), never inside the fixed part; `truncated_is_error_object` — a layer is an error object exactly when
  the capture ends before that point.
* `dispatch_agrees` — what `$n` parses below a header is the layer the RFC table selects (null where it selects none).
* `named_getter_agrees_dispatch`, `named_getter_null_on_mismatch` — a named layer property yields the layer `$n` would
  descend into, and null (touching nothing) when the type field selects another one.

Still open (see obligations.json): `v6_text_is_reference` (the kernel needs 19 minutes to `decide` the 65 536 groups; the
IPv6 text is tied by the correspondence and oracle runs) and `$n` as a theorem over `descend`.

History: before /repo commits aefd4e7, cc7014b and 7e7b19c, `tcp.flags` was the whole 16-bit word, the TCP payload offset
was fixed at 20, `$n` raised an error below a VLAN tag with EtherType IPv6, and named getters ignored the type field; the
theorems carried those exclusions (`*_partial`) and five witnesses.
-/
namespace P2sh.Props.C16
open P2sh P2sh.Proto P2sh.Spec

/-! ## the property table -/

theorem props_table_agrees :
    PP.all.map (fun p => (p.code, p.name)) = P2sh.Gen.Props.enumOrder.map (fun e => (e.2, (P2sh.Gen.Props.displayNames.lookup e.1).getD "")) ∧
    P2sh.Gen.Props.aliases = [("nsec", "USec")] ∧
    maxProtoDepth = P2sh.Gen.Limits.MAX_PROTO_DEPTH := by
  decide

/-! ## fields -/

def hdrBytes (b : Nat → Nat) (n : Nat) : List Nat := (List.range n).map b

theorem byteAt_hdr (b : Nat → Nat) (n i : Nat) (h : i < n) : Rfc.byteAt (hdrBytes b n) i = b i := by
  simp [Rfc.byteAt, hdrBytes, List.getD_eq_getElem?_getD, h]

/-- the header `from_bytes` builds for a layer -/
def parseAs : Rfc.Layer → (Nat → Nat) → Hdr
  | .record, b => .pcap (PcapHdr.parse b)
  | .ethernet, b => .eth (EthHdr.parse b)
  | .dot1q, b => .vlan (VlanHdr.parse b)
  | .ipv4, b => .ipv4 (Ipv4Hdr.parse b)
  | .ipv6, b => .ipv6 (Ipv6Hdr.parse b)
  | .tcp, b => .tcp (TcpHdr.parse b)
  | .udp, b => .udp (UdpHdr.parse b)

def hdrLen : Rfc.Layer → Nat
  | .record => 16
  | l => Rfc.fixedSize l

set_option maxHeartbeats 4000000 in
set_option maxRecDepth 100000 in
/-- **every numeric getter is the RFC bit slice** (all layers; the little-endian record header has its own theorem) -/
theorem getter_is_slice (L : Rfc.Layer) (p : PP) (o w : Nat) (b : Nat → Nat) (hb : ∀ i, b i < 256)
    (hlay : Rfc.layout L p = some (o, w)) (hk : Rfc.kindOf L p = .num) (hL : L ≠ .record) :
    (parseAs L b).get p = some (.num (Rfc.bitSlice (hdrBytes b (hdrLen L)) o w)) := by
  have h0 := hb 0; have h1 := hb 1; have h2 := hb 2; have h3 := hb 3; have h4 := hb 4; have h5 := hb 5
  have h6 := hb 6; have h7 := hb 7; have h8 := hb 8; have h9 := hb 9; have h10 := hb 10; have h11 := hb 11
  have h12 := hb 12; have h13 := hb 13; have h14 := hb 14; have h15 := hb 15; have h16 := hb 16; have h17 := hb 17
  have h18 := hb 18; have h19 := hb 19
  cases L <;> cases p <;> simp [Rfc.layout, Rfc.kindOf] at hlay hk hL <;> obtain ⟨rfl, rfl⟩ := hlay <;>
    simp [parseAs, hdrLen, Rfc.fixedSize, Hdr.get, EthHdr.get, VlanHdr.get, Ipv4Hdr.get, Ipv6Hdr.get, TcpHdr.get, UdpHdr.get,
      EthHdr.parse, VlanHdr.parse, Ipv4Hdr.parse, Ipv6Hdr.parse, TcpHdr.parse, UdpHdr.parse, u16be, u32be,
      Rfc.bitSlice, Rfc.beNat, byteAt_hdr, List.range, List.range.loop] <;> omega


theorem record_getter_is_le_slice (p : PP) (o w : Nat) (b : Nat → Nat)
    (hlay : Rfc.layout .record p = some (o, w)) :
    (parseAs .record b).get p = some (.num (Rfc.leSlice (hdrBytes b 16) (o / 8) (w / 8))) := by
  cases p <;> simp [Rfc.layout] at hlay <;> obtain ⟨rfl, rfl⟩ := hlay <;>
    simp [parseAs, Hdr.get, PcapHdr.get, PcapHdr.parse, u32le, Rfc.leSlice, Rfc.leNat, byteAt_hdr, List.range, List.range.loop] <;> omega

theorem dei_is_slice (b : Nat → Nat) (hb : ∀ i, b i < 256) :
    (parseAs .dot1q b).get .dei = some (.flag (decide (Rfc.bitSlice (hdrBytes b 4) 3 1 = 1))) := by
  have h0 := hb 0
  simp [parseAs, Hdr.get, VlanHdr.get, VlanHdr.parse, Rfc.bitSlice, Rfc.beNat, byteAt_hdr, List.range, List.range.loop]

/-! ### address text -/

theorem joinSep_eq_join (sep : Char) (xs : List (List Char)) : joinSep sep xs = Rfc.join sep xs := by
  induction xs with
  | nil => rfl
  | cons x xs ih =>
    cases xs with
    | nil => rfl
    | cons y ys => simp [joinSep, Rfc.join, ih]

set_option maxRecDepth 100000 in
theorem hex2U_ref : ∀ x : Fin 256, hex2U x.val = (Rfc.digits 16 2 x.val).map Rfc.digitU := by decide +kernel

set_option maxRecDepth 100000 in
theorem dec8_ref : ∀ x : Fin 256, dec8 x.val = (Rfc.digits 10 0 x.val).map Rfc.digitL := by decide +kernel

theorem map_congr_bytes {f g : Nat → List Char} (hfg : ∀ x : Fin 256, f x.val = g x.val) :
    ∀ (a : List Nat), (∀ x ∈ a, x < 256) → a.map f = a.map g := by
  intro a ha
  apply List.map_congr_left
  intro x hx
  exact hfg ⟨x, ha x hx⟩

/-- the MAC text the code prints is the reference upper-case rendering -/
theorem mac_text_is_reference (a : List Nat) (ha : ∀ x ∈ a, x < 256) : showMac a = Rfc.showMacU a := by
  simp only [showMac, Rfc.showMacU, joinSep_eq_join]
  rw [map_congr_bytes (f := hex2U) (g := fun b => (Rfc.digits 16 2 b).map Rfc.digitU) hex2U_ref a ha]

theorem v4_text_is_reference (a : List Nat) (ha : ∀ x ∈ a, x < 256) : showV4 a = Rfc.showV4 a := by
  simp only [showV4, Rfc.showV4, joinSep_eq_join]
  rw [map_congr_bytes (f := dec8) (g := fun b => (Rfc.digits 10 0 b).map Rfc.digitL) dec8_ref a ha]


/-- SYN/ACK with data offset 5 and reserved bits 0xA: `tcp.flags` is 0x12, `tcp.dataoff` is 5 -/
example : let b : Nat → Nat := fun i => [0x1f,0x90,0,80, 0,0,0,1, 0,0,0,2, 0x5A,0x12,0xff,0xff, 0,0,0,0].getD i 0
    (parseAs .tcp b).get .flags = some (.num 0x12) ∧ (parseAs .tcp b).get .dataoff = some (.num 5) ∧
    Rfc.bitSlice (hdrBytes b 20) 104 8 = 0x12 := by decide

/-! ### payload offsets, truncated layers -/

theorem byteAt_drop (raw : List Nat) (s i : Nat) : Rfc.byteAt (raw.drop s) i = getB raw (s + i) := by
  simp [Rfc.byteAt, getB, List.getD_eq_getElem?_getD, List.getElem?_drop]

def kindLayer : LayerKind → Rfc.Layer
  | .eth => .ethernet | .vlan => .dot1q | .ipv4 => .ipv4 | .ipv6 => .ipv6 | .tcp => .tcp | .udp => .udp

/-- where the reference puts the end of the header that starts at `s`: the announced length, at least the fixed part -/
def headerEnd (raw : List Nat) (k : LayerKind) (s : Nat) : Nat :=
  s + max (Rfc.headerLen raw (kindLayer k) s) (Rfc.fixedSize (kindLayer k))

theorem ipv4_hdrLen_rfc (raw : List Nat) (hw : wf raw) (s : Nat) :
    Ipv4Hdr.hdrLen (rd raw s) = max (Rfc.headerLen raw .ipv4 s) 20 := by
  have h0 := getB_lt hw (s + 0)
  simp [Ipv4Hdr.hdrLen, Rfc.headerLen, Rfc.bitSlice, Rfc.beNat, byteAt_drop, rd, List.range, List.range.loop] at *
  omega

theorem tcp_hdrLen_rfc (raw : List Nat) (hw : wf raw) (s : Nat) :
    TcpHdr.hdrLen (rd raw s) = max (Rfc.headerLen raw .tcp s) 20 := by
  have h12 := getB_lt hw (s + 12)
  simp [TcpHdr.hdrLen, Rfc.headerLen, Rfc.bitSlice, Rfc.beNat, byteAt_drop, rd, List.range, List.range.loop] at *
  omega

/-- **every layer puts its payload where the header it parsed ends** -/
theorem payload_offset (raw : List Nat) (hw : wf raw) (k : LayerKind) (s off : Nat) (h : Hdr) (inner : Obj)
    (hp : parseLayer raw k s = .layer h off inner) : off = headerEnd raw k s := by
  have e4 := ipv4_hdrLen_rfc raw hw s
  have e6 := tcp_hdrLen_rfc raw hw s
  cases k <;> simp only [parseLayer] at hp <;> (repeat' split at hp) <;> cases hp <;>
    simp [headerEnd, kindLayer, Rfc.headerLen, Rfc.fixedSize, e4, e6]

/-- **a layer is the error object exactly when the capture ends before the end of its header** -/
theorem truncated_is_error_object (raw : List Nat) (hw : wf raw) (k : LayerKind) (s : Nat) :
    parseLayer raw k s = .err ↔ raw.length < headerEnd raw k s := by
  have e4 := ipv4_hdrLen_rfc raw hw s
  have e6 := tcp_hdrLen_rfc raw hw s
  cases k
  · simp only [parseLayer, headerEnd, kindLayer, Rfc.headerLen, Rfc.fixedSize]; split <;> simp <;> omega
  · simp only [parseLayer, headerEnd, kindLayer, Rfc.headerLen, Rfc.fixedSize]; split <;> simp <;> omega
  · simp only [parseLayer, headerEnd, kindLayer, Rfc.fixedSize, e4]; (repeat' split) <;> simp <;> omega
  · simp only [parseLayer, headerEnd, kindLayer, Rfc.headerLen, Rfc.fixedSize]; split <;> simp <;> omega
  · simp only [parseLayer, headerEnd, kindLayer, Rfc.fixedSize, e6]; (repeat' split) <;> simp <;> omega
  · simp only [parseLayer, headerEnd, kindLayer, Rfc.headerLen, Rfc.fixedSize]; split <;> simp <;> omega

/-- TCP with data offset 6: the payload starts after 24 bytes; with only 22 bytes captured the layer is an error object -/
example : let raw : List Nat := [0x1f,0x90,0,80, 0,0,0,1, 0,0,0,2, 0x60,0x12,0xff,0xff, 0,0,0,0, 1,2,3,4, 0xaa,0xbb]
    (match parseLayer raw .tcp 0 with | .layer _ off _ => some off | _ => none) = some 24 ∧ headerEnd raw .tcp 0 = 24 ∧
    (parseLayer (raw.take 22) .tcp 0 matches .err) = true := by decide

/-! ### dispatch -/

def hdrLayer : Hdr → Rfc.Layer
  | .pcap _ => .record | .eth _ => .ethernet | .vlan _ => .dot1q | .ipv4 _ => .ipv4
  | .ipv6 _ => .ipv6 | .tcp _ => .tcp | .udp _ => .udp

/-- the value of the field that selects the next layer -/
def typeVal : Hdr → Nat
  | .eth h => h.ethertype | .vlan h => h.ethertype | .ipv4 h => h.proto | .ipv6 h => h.nh
  | _ => 0

/-- **`$n` descends into the layer the RFC table selects** (null where the table has no entry) -/
theorem dispatch_agrees (h : Hdr) (hne : ∀ ph, h ≠ .pcap ph) :
    (dispatch h).map kindLayer = Rfc.nextLayer (hdrLayer h) (typeVal h) := by
  cases h with
  | pcap ph => exact absurd rfl (hne ph)
  | eth e =>
    simp only [dispatch, hdrLayer, typeVal]
    by_cases h1 : e.ethertype = 0x8100
    · simp [h1, kindLayer, Rfc.nextLayer]
    · by_cases h2 : e.ethertype = 0x0800
      · simp [h2, kindLayer, Rfc.nextLayer]
      · by_cases h3 : e.ethertype = 0x86DD
        · simp [h3, kindLayer, Rfc.nextLayer]
        · simp [h1, h2, h3]
          unfold Rfc.nextLayer
          split <;> simp_all
  | vlan e =>
    simp only [dispatch, hdrLayer, typeVal]
    by_cases h1 : e.ethertype = 0x8100
    · simp [h1, kindLayer, Rfc.nextLayer]
    · by_cases h2 : e.ethertype = 0x0800
      · simp [h2, kindLayer, Rfc.nextLayer]
      · by_cases h3 : e.ethertype = 0x86DD
        · simp [h3, kindLayer, Rfc.nextLayer]
        · simp [h1, h2, h3]
          unfold Rfc.nextLayer
          split <;> simp_all
  | ipv4 e =>
    simp only [dispatch, hdrLayer, typeVal]
    by_cases h1 : e.proto = 17
    · simp [h1, kindLayer, Rfc.nextLayer]
    · by_cases h2 : e.proto = 6
      · simp [h2, kindLayer, Rfc.nextLayer]
      · by_cases h3 : e.proto = 41
        · simp [h3, kindLayer, Rfc.nextLayer]
        · simp [h1, h2, h3]
          unfold Rfc.nextLayer
          split <;> simp_all
  | ipv6 e =>
    simp only [dispatch, hdrLayer, typeVal]
    by_cases h1 : e.nh = 17
    · simp [h1, kindLayer, Rfc.nextLayer]
    · by_cases h2 : e.nh = 6
      · simp [h2, kindLayer, Rfc.nextLayer]
      · simp [h1, h2]
        unfold Rfc.nextLayer
        split <;> simp_all
  | tcp e => simp [dispatch, hdrLayer, Rfc.nextLayer]
  | udp e => simp [dispatch, hdrLayer, Rfc.nextLayer]

/-- IPv6 below a VLAN tag -/
example : dispatch (.vlan { priority := 0, dei := false, vid := 1, ethertype := 0x86DD }) = some .ipv6 := by decide

/-- **a named layer property whose name agrees with the type field yields the layer `$n` descends into** -/
theorem named_getter_agrees_dispatch (h : Hdr) (p : PP) (k : LayerKind) (hne : ∀ ph, h ≠ .pcap ph)
    (hl : layerProp h p = some k) (hm : typeMismatch h k = false) : dispatch h = some k := by
  cases h <;> cases p <;> simp [layerProp] at hl <;> subst hl <;>
    simp [typeMismatch, typeWanted, dispatch] at hm ⊢ <;> first | simp [hm] | exact absurd rfl (hne _)

/-- **and null, leaving the object as it is, when the type field selects another layer** -/
theorem named_getter_null_on_mismatch (raw : List Nat) (h : Hdr) (off : Nat) (inner : Obj) (p : PP) (k : LayerKind)
    (cont : Obj → Obj × StepOut) (last : Bool) (hl : layerProp h p = some k) (hm : typeMismatch h k = true) :
    getProp raw p cont last (.layer h off inner) = (.layer h off inner, (cont (.val .null)).2) := by
  simp [getProp, hl, hm]

/-- an ARP frame: `eth.ipv4` is null and `eth.vlan` afterwards still is; an IPv4 frame: `eth.vlan` is null, `eth.ipv4` the layer -/
example :
    let arp : List Nat := [0,1,2,3,4,5, 6,7,8,9,10,11, 8,6] ++ List.replicate 28 1
    let ip : List Nat := [0,1,2,3,4,5, 6,7,8,9,10,11, 8,0, 0x45] ++ List.replicate 27 1
    let show_ (o : Out) : String := match o with | .ok (.other k) => k | .ok .null => "null" | _ => "?"
    ((Pkt.new { sec := 0, usec := 0, caplen := 42, wirelen := 42 } arp).run [.get .pkt [.eth, .ipv4], .get .pkt [.eth, .vlan]]).2.map show_
      = ["null", "null"] ∧
    ((Pkt.new { sec := 0, usec := 0, caplen := 42, wirelen := 42 } ip).run [.get .pkt [.eth, .vlan], .get .pkt [.eth, .ipv4]]).2.map show_
      = ["null", "ipv4"] := by
  decide

end P2sh.Props.C16
