import P2sh.Model.Ops
import P2sh.Proofs.IntLemmas
/-!
# C05 — match ranges: `a..b` excludes `b`, `a..=b` includes it

The compiler tests a range pattern with two comparisons of the VM (`GreaterEq` against the lower
bound, then `GreaterEq` — exclusive — or `Greater` — inclusive — against the upper bound, the
body being entered when the second one is *false*).  `rangeTest` is that test on the operator
model; the theorems say it is exactly interval membership on integers, for all operands.
-/
namespace P2sh.Props.C05
open P2sh P2sh.Proofs

/-- the value-level test the match template performs for `lo..hi` / `lo..=hi` -/
def rangeTest (incl : Bool) (v lo hi : Val) : Bool :=
  v.ge lo && !(if incl then v.gt hi else v.ge hi)

theorem int_cmp (a b : Int64) :
    (Val.int a).partialCmp (.int b) =
      some (if a.toInt < b.toInt then .lt else if a.toInt = b.toInt then .eq else .gt) := by
  simp only [Val.partialCmp, cmpOf]
  rcases Int.lt_trichotomy a.toInt b.toInt with h | h | h
  · have h1 : a < b := Int64.lt_iff_toInt_lt.mpr h
    simp [h1, h]
  · have e : a = b := Int64.toInt_inj.mp h
    subst e
    have : ¬ a < a := fun h' => by have := Int64.lt_iff_toInt_lt.mp h'; omega
    simp [this]
  · have h2 : ¬ a < b := fun h' => by have := Int64.lt_iff_toInt_lt.mp h'; omega
    have h3 : a ≠ b := by intro e; subst e; omega
    have h4 : ¬ a.toInt < b.toInt := by omega
    have h5 : ¬ a.toInt = b.toInt := by omega
    simp [h2, h3, h4, h5]

theorem int_ge_iff (a b : Int64) : (Val.int a).ge (.int b) = decide (b.toInt ≤ a.toInt) := by
  simp only [Val.ge, int_cmp]
  rcases Int.lt_trichotomy a.toInt b.toInt with h | h | h
  · have h4 : ¬ b.toInt ≤ a.toInt := by omega
    simp [h, h4]
  · simp [h]
  · have h4 : ¬ a.toInt < b.toInt := by omega
    have h5 : ¬ a.toInt = b.toInt := by omega
    have h6 : b.toInt ≤ a.toInt := by omega
    simp [h4, h5, h6]

theorem int_gt_iff (a b : Int64) : (Val.int a).gt (.int b) = decide (b.toInt < a.toInt) := by
  simp only [Val.gt, int_cmp]
  rcases Int.lt_trichotomy a.toInt b.toInt with h | h | h
  · have h4 : ¬ b.toInt < a.toInt := by omega
    simp [h, h4]
  · have h4 : ¬ b.toInt < a.toInt := by omega
    simp [h, h4]
  · have h4 : ¬ a.toInt < b.toInt := by omega
    have h5 : ¬ a.toInt = b.toInt := by omega
    simp [h4, h5, h]

/-- **`a..b` excludes `b`** -/
theorem range_excl (v lo hi : Int64) :
    rangeTest false (.int v) (.int lo) (.int hi) = decide (lo.toInt ≤ v.toInt ∧ v.toInt < hi.toInt) := by
  simp only [rangeTest, int_ge_iff, Bool.false_eq_true, if_false]
  by_cases h1 : lo.toInt ≤ v.toInt <;> by_cases h2 : hi.toInt ≤ v.toInt <;> simp [h1, h2] <;> omega

/-- **`a..=b` includes `b`** -/
theorem range_incl (v lo hi : Int64) :
    rangeTest true (.int v) (.int lo) (.int hi) = decide (lo.toInt ≤ v.toInt ∧ v.toInt ≤ hi.toInt) := by
  simp only [rangeTest, int_ge_iff, int_gt_iff, if_true]
  by_cases h1 : lo.toInt ≤ v.toInt <;> by_cases h2 : hi.toInt < v.toInt <;> simp [h1, h2] <;> omega

/-- the boundary cases the statement names -/
example : rangeTest false (.int 5) (.int 3) (.int 5) = false ∧ rangeTest true (.int 5) (.int 3) (.int 5) = true ∧
    rangeTest false (.int 3) (.int 3) (.int 5) = true := by
  simp [range_excl, range_incl]

/-- an equality pattern matches exactly the equal integer (the template's `NotEqual` is the negation of `==`) -/
theorem eq_pattern_int (v p : Int64) :
    execOperator .notEqual (.int v) (.int p) = .ok (.bool (decide (v ≠ p))) := by
  by_cases h : v = p <;> simp [execOperator, Val.eq, h]

end P2sh.Props.C05
