import P2sh.Model.Ops
import P2sh.Proofs.IntLemmas
import P2sh.Core.Prog
import P2sh.Core.Match
/-!
# C05 — match ranges: `a..b` excludes `b`, `a..=b` includes it

The compiler tests a range pattern with two comparisons of the VM (`GreaterEq` against the lower
bound, then `GreaterEq` — exclusive — or `Greater` — inclusive — against the upper bound, the
body being entered when the second one is *false*).  `rangeTest` is that test on the operator
model; the theorems say it is exactly interval membership on integers, for all operands.
-/
namespace P2sh.Props.C05
open P2sh P2sh.Proofs

/-- the value-level test the match template performs for `lo..hi` / `lo..=hi` -/
def rangeTest (incl : Bool) (v lo hi : Val) : Bool :=
  v.ge lo && !(if incl then v.gt hi else v.ge hi)

theorem int_cmp (a b : Int64) :
    (Val.int a).partialCmp (.int b) =
      some (if a.toInt < b.toInt then .lt else if a.toInt = b.toInt then .eq else .gt) := by
  simp only [Val.partialCmp, cmpOf]
  rcases Int.lt_trichotomy a.toInt b.toInt with h | h | h
  · have h1 : a < b := Int64.lt_iff_toInt_lt.mpr h
    simp [h1, h]
  · have e : a = b := Int64.toInt_inj.mp h
    subst e
    have : ¬ a < a := fun h' => by have := Int64.lt_iff_toInt_lt.mp h'; omega
    simp [this]
  · have h2 : ¬ a < b := fun h' => by have := Int64.lt_iff_toInt_lt.mp h'; omega
    have h3 : a ≠ b := by intro e; subst e; omega
    have h4 : ¬ a.toInt < b.toInt := by omega
    have h5 : ¬ a.toInt = b.toInt := by omega
    simp [h2, h3, h4, h5]

theorem int_ge_iff (a b : Int64) : (Val.int a).ge (.int b) = decide (b.toInt ≤ a.toInt) := by
  simp only [Val.ge, int_cmp]
  rcases Int.lt_trichotomy a.toInt b.toInt with h | h | h
  · have h4 : ¬ b.toInt ≤ a.toInt := by omega
    simp [h, h4]
  · simp [h]
  · have h4 : ¬ a.toInt < b.toInt := by omega
    have h5 : ¬ a.toInt = b.toInt := by omega
    have h6 : b.toInt ≤ a.toInt := by omega
    simp [h4, h5, h6]

theorem int_gt_iff (a b : Int64) : (Val.int a).gt (.int b) = decide (b.toInt < a.toInt) := by
  simp only [Val.gt, int_cmp]
  rcases Int.lt_trichotomy a.toInt b.toInt with h | h | h
  · have h4 : ¬ b.toInt < a.toInt := by omega
    simp [h, h4]
  · have h4 : ¬ b.toInt < a.toInt := by omega
    simp [h, h4]
  · have h4 : ¬ a.toInt < b.toInt := by omega
    have h5 : ¬ a.toInt = b.toInt := by omega
    simp [h4, h5, h]

/-- **`a..b` excludes `b`** -/
theorem range_excl (v lo hi : Int64) :
    rangeTest false (.int v) (.int lo) (.int hi) = decide (lo.toInt ≤ v.toInt ∧ v.toInt < hi.toInt) := by
  simp only [rangeTest, int_ge_iff, Bool.false_eq_true, if_false]
  by_cases h1 : lo.toInt ≤ v.toInt <;> by_cases h2 : hi.toInt ≤ v.toInt <;> simp [h1, h2] <;> omega

/-- **`a..=b` includes `b`** -/
theorem range_incl (v lo hi : Int64) :
    rangeTest true (.int v) (.int lo) (.int hi) = decide (lo.toInt ≤ v.toInt ∧ v.toInt ≤ hi.toInt) := by
  simp only [rangeTest, int_ge_iff, int_gt_iff, if_true]
  by_cases h1 : lo.toInt ≤ v.toInt <;> by_cases h2 : hi.toInt < v.toInt <;> simp [h1, h2] <;> omega

/-- the boundary cases the statement names -/
example : rangeTest false (.int 5) (.int 3) (.int 5) = false ∧ rangeTest true (.int 5) (.int 3) (.int 5) = true ∧
    rangeTest false (.int 3) (.int 3) (.int 5) = true := by
  simp [range_excl, range_incl]

/-- an equality pattern matches exactly the equal integer (the template's `NotEqual` is the negation of `==`) -/
theorem eq_pattern_int (v p : Int64) :
    execOperator .notEqual (.int v) (.int p) = .ok (.bool (decide (v ≠ p))) := by
  by_cases h : v = p <;> simp [execOperator, Val.eq, h]

/-! ### `while` repeats its body until the condition is falsey (core fragment)

The reference evaluation of `while c { body }` (`Core.evalS`) is, by definition, "evaluate `c`;
falsey ⇒ leave; else run the body and start again".  `Core.compileS_correct` proves that the
code the compiler emits for the loop (condition, `JumpIfFalse` to the exit, body, `Jump` back)
reproduces every terminating run of it, whatever the number of iterations.  The three lemmas
below are the loop's defining equations in the form the statement uses. -/

open P2sh.Core in
theorem while_exits_on_falsey (fuel : Nat) (c : CExpr) (body : List CStmt) (g g1 : List Val) (vc : Val)
    (hc : eval g c = some (vc, g1)) (hf : vc.isFalsey = true) :
    evalS (fuel + 1) g (.whileS c body) = some g1 := by
  simp [evalS, hc, hf]

open P2sh.Core in
theorem while_repeats_on_truthy (fuel : Nat) (c : CExpr) (body : List CStmt) (g g1 g2 : List Val) (vc : Val)
    (hc : eval g c = some (vc, g1)) (hf : vc.isFalsey = false) (hb : evalP fuel g1 body = some g2) :
    evalS (fuel + 1) g (.whileS c body) = evalS fuel g2 (.whileS c body) := by
  simp [evalS, hc, hf, hb]

open P2sh.Core in
/-- the compiled loop: condition, exit test, body, back edge — and it reproduces every terminating run -/
theorem while_compiled (fuel : Nat) (c : CExpr) (body : List CStmt) (C : List Instr) (K : List Val) (pos k : Nat)
    (stk g g' : List Val) (h : codeAt C pos (compileS pos k (.whileS c body))) (hp : poolAt K k (constsS (.whileS c body)))
    (he : evalS fuel g (.whileS c body) = some g') :
    Steps C K ⟨pos, stk, g⟩ ⟨pos + bytes (compileS pos k (.whileS c body)), stk, g'⟩ :=
  compileS_correct fuel _ C K pos k stk g g' h hp he

/-! ### `match` (core fragment)

`Core.eval` of `match s { arms }` evaluates `s` once and hands its value to `Core.evalArms`,
which tests the arms in order (`Core.patTest`: the VM's `NotEqual` for a literal pattern, the
two comparisons `rangeTest` for a range) and evaluates the body of the first arm that matches;
the last arm is always the default arm (`_ => e` of the user, `_ => null` appended by the
parser).  The theorems below say what the *compiled* match does. -/

open P2sh.Core

/-- a range pattern on integers is `rangeTest`, hence interval membership (`range_excl`, `range_incl`) -/
theorem patTest_range_int (incl : Bool) (v lo hi : Int64) :
    patTest (.int v) (.range incl (.int lo) (.int hi)) = some (rangeTest incl (.int v) (.int lo) (.int hi)) := by
  cases incl <;>
    simp [patTest, execOperator, binaryOp, isNumKind, applyBin, rangeTest, Val.isFalsey] <;>
    cases (Val.int v).ge (Val.int lo) <;> simp

/-- `a..b` as a pattern: matches exactly the integers `a ≤ v < b` -/
theorem pattern_range_excl (v lo hi : Int64) :
    patTest (.int v) (.range false (.int lo) (.int hi)) = some (decide (lo.toInt ≤ v.toInt ∧ v.toInt < hi.toInt)) := by
  rw [patTest_range_int, range_excl]

/-- `a..=b` as a pattern: matches exactly the integers `a ≤ v ≤ b` -/
theorem pattern_range_incl (v lo hi : Int64) :
    patTest (.int v) (.range true (.int lo) (.int hi)) = some (decide (lo.toInt ≤ v.toInt ∧ v.toInt ≤ hi.toInt)) := by
  rw [patTest_range_int, range_incl]

/-- a literal pattern matches exactly the value that is `==` to it (the VM's equality) -/
theorem pattern_lit (v p : Val) : patTest v (.lit p) = some (v.eq p) := by
  simp [patTest, execOperator, Val.isFalsey]

theorem pattern_bool (v : Val) (b : Bool) : patTest v (.bool b) = some (v.eq (.bool b)) := by
  simp [patTest, execOperator, Val.isFalsey]

/-- **the first matching arm, and only it.**  The match is compiled anywhere (`codeAt`); the
scrutinee evaluates to `v` leaving the globals `g1`; `selectArm` names the first arm one of whose
patterns matches `v` (else the default arm): its body `b`, whose code sits at byte `pb`.  Then
* the reference value of the match is the value of `b` in the globals the scrutinee left —
  the scrutinee is evaluated once, no other arm's body is evaluated;
* the machine goes from the start of the match to the first byte of `b`'s code with the stack it
  started with (the scrutinee and all its copies popped) and the globals `g1` (nothing but the
  scrutinee has run);
* `b`'s code is what sits there, and once it has pushed its value the machine reaches the end of
  the match with that value on the stack. -/
theorem match_first_arm (s : CExpr) (arms : CArms) (C : List Instr) (K : List Val) (pos k : Nat) (stk g : List Val)
    (v : Val) (g1 : List Val) (pb kb : Nat) (b : CExpr)
    (h : codeAt C pos (compile pos k (.matchE s arms))) (hp : poolAt K k (consts (.matchE s arms)))
    (hs : eval g s = some (v, g1))
    (hsel : selectArm (pos + bytes (compile pos k s)) (k + (consts s).length) v arms = some (pb, kb, b)) :
    eval g (.matchE s arms) = eval g1 b ∧
    codeAt C pb (compile pb kb b) ∧ poolAt K kb (consts b) ∧
    Steps C K ⟨pos, stk, g⟩ ⟨pb, stk, g1⟩ ∧
    ∀ (r : Val) (g' : List Val), eval g1 b = some (r, g') →
      Steps C K ⟨pb, stk, g1⟩ ⟨pos + bytes (compile pos k (.matchE s arms)), r :: stk, g'⟩ := by
  simp only [compile] at h ⊢
  simp only [consts] at hp
  have s1 := compile_correct s C K pos k stk g v g1 (codeAt_left h) (poolAt_left hp) hs
  obtain ⟨c1, c2, c3, c4⟩ := select_steps v arms C K _ _ pb kb b stk g1 (codeAt_right h) (poolAt_right hp) hsel
  refine ⟨?_, c1, c2, s1.trans c3, fun r g' hb => ?_⟩
  · simp only [eval, hs]
    rw [evalArms_select g1 v arms (pos + bytes (compile pos k s)) (k + (consts s).length), hsel]
  · have s2 := compile_correct b C K pb kb stk g1 r g' c1 c2 hb
    exact (s2.trans (c4 _ _)).to (by simp [bytes_append]; omega)

/-- no arm before the default arm matches `v` -/
def noArmMatches (v : Val) : CArms → Prop
  | .last _ => True
  | .cons pats _ rest => patsTest v pats = some false ∧ noArmMatches v rest

/-- the body of the default arm -/
def defaultOf : CArms → CExpr
  | .last d => d
  | .cons _ _ rest => defaultOf rest

theorem evalArms_none_match (g : List Val) (v : Val) : ∀ arms : CArms, noArmMatches v arms →
    evalArms g v arms = eval g (defaultOf arms) := by
  intro arms
  induction arms using CArms.ind with
  | last d => intro _; simp [evalArms, defaultOf]
  | cons pats body rest ih =>
    intro hn
    simp only [noArmMatches] at hn
    simp [evalArms, defaultOf, hn.1, ih hn.2]

/-- **null when no arm matches**: a match without a `_` arm of its own (the parser appends
`_ => null`) whose patterns all fail to match yields null — on the compiled code as well, with
the scrutinee popped and the globals the scrutinee left -/
theorem match_none_is_null (s : CExpr) (arms : CArms) (C : List Instr) (K : List Val) (pos k : Nat) (stk g : List Val)
    (v : Val) (g1 : List Val)
    (h : codeAt C pos (compile pos k (.matchE s arms))) (hp : poolAt K k (consts (.matchE s arms)))
    (hs : eval g s = some (v, g1)) (hn : noArmMatches v arms) (hd : defaultOf arms = .null) :
    eval g (.matchE s arms) = some (.null, g1) ∧
    Steps C K ⟨pos, stk, g⟩ ⟨pos + bytes (compile pos k (.matchE s arms)), .null :: stk, g1⟩ := by
  have he : eval g (.matchE s arms) = some (.null, g1) := by
    simp only [eval, hs]
    rw [evalArms_none_match g1 v arms hn, hd]
    simp [eval]
  exact ⟨he, compile_correct _ C K pos k stk g .null g1 h hp he⟩

/-- the compiled match reproduces the reference evaluation (instance of `Core.compile_correct`) -/
theorem match_compiled (s : CExpr) (arms : CArms) (C : List Instr) (K : List Val) (pos k : Nat) (stk g : List Val)
    (r : Val) (g' : List Val)
    (h : codeAt C pos (compile pos k (.matchE s arms))) (hp : poolAt K k (consts (.matchE s arms)))
    (he : eval g (.matchE s arms) = some (r, g')) :
    Steps C K ⟨pos, stk, g⟩ ⟨pos + bytes (compile pos k (.matchE s arms)), r :: stk, g'⟩ :=
  compile_correct _ C K pos k stk g r g' h hp he

/-! non-vacuity: `match x = x + 1 { 1 | 2 => 10, 3..6 => 20, 6..=9 => 30, _ => 40 }` with `x = 5`:
the scrutinee is evaluated once (`x` ends as 6), 6 is outside `3..6`, inside `6..=9` -/
def exArms : CArms :=
  .cons [.lit (.int 1), .lit (.int 2)] (.lit (.int 10))
    (.cons [.range false (.int 3) (.int 6)] (.lit (.int 20))
      (.cons [.range true (.int 6) (.int 9)] (.lit (.int 30)) (.last (.lit (.int 40)))))
def exScrut : CExpr := .gset 0 (.bin .add (.gget 0) (.lit (.int 1)))
def exMatch : CExpr := .matchE exScrut exArms

example : eval [.int 5] exMatch = some (.int 30, [.int 6]) := by rfl
example : eval [.int 2] exMatch = some (.int 20, [.int 3]) := by rfl
example : eval [.int 1] exMatch = some (.int 10, [.int 2]) := by rfl
example : eval [.int 9] exMatch = some (.int 40, [.int 10]) := by rfl
/-- the selected arm for 6: the third, whose body sits at byte 82 (constant index 9) -/
example : selectArm (0 + bytes (compile 0 0 exScrut)) (0 + (consts exScrut).length) (.int 6) exArms
    = some (82, 9, .lit (.int 30)) := by rfl
example : Steps (compile 0 0 exMatch) (consts exMatch) ⟨0, [], [.int 5]⟩ ⟨82, [], [.int 6]⟩ :=
  (match_first_arm exScrut exArms (compile 0 0 exMatch) (consts exMatch) 0 0 [] [.int 5] (.int 6) [.int 6] 82 9 (.lit (.int 30))
    ⟨[], [], by simp [exMatch], rfl⟩ ⟨[], [], by simp [exMatch], rfl⟩ (by rfl) (by rfl)).2.2.2.1
/-- `match 7 { 1 => 2 }` (the parser's arms: `1 => 2, _ => null`) is null -/
example : eval [] (.matchE (.lit (.int 7)) (.cons [.lit (.int 1)] (.lit (.int 2)) (.last .null))) = some (.null, []) :=
  (match_none_is_null (.lit (.int 7)) (.cons [.lit (.int 1)] (.lit (.int 2)) (.last .null))
    (compile 0 0 (.matchE (.lit (.int 7)) (.cons [.lit (.int 1)] (.lit (.int 2)) (.last .null))))
    (consts (.matchE (.lit (.int 7)) (.cons [.lit (.int 1)] (.lit (.int 2)) (.last .null)))) 0 0 [] [] (.int 7) []
    ⟨[], [], by simp, rfl⟩ ⟨[], [], by simp, rfl⟩ (by rfl) ⟨by rfl, trivial⟩ rfl).1
example : patTest (.int 6) (.range false (.int 3) (.int 6)) = some false ∧
    patTest (.int 6) (.range true (.int 3) (.int 6)) = some true ∧
    patTest (.int 3) (.range false (.int 3) (.int 6)) = some true := ⟨by rfl, by rfl, by rfl⟩
/-- a range against a scrutinee of another kind is a runtime error of the comparison -/
example : patTest (.str "a") (.range false (.int 3) (.int 6)) = none := by rfl

end P2sh.Props.C05
