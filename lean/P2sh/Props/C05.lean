import P2sh.Model.Ops
import P2sh.Proofs.IntLemmas
import P2sh.Core.Prog
import P2sh.Core.Match
/-!
# C05 — match ranges: `a..b` excludes `b`, `a..=b` includes it

The compiler tests a range pattern with two comparisons of the VM (`GreaterEq` against the lower
bound, then `GreaterEq` — exclusive — or `Greater` — inclusive — against the upper bound, the
body being entered when the second one is *false*).  `rangeTest` is that test on the operator
model; the theorems say it is exactly interval membership on integers, for all operands.
-/
namespace P2sh.Props.C05
open P2sh P2sh.Proofs

/-- the value-level test the match template performs for `lo..hi` / `lo..=hi` -/
def rangeTest (incl : Bool) (v lo hi : Val) : Bool :=
  v.ge lo && !(if incl then v.gt hi else v.ge hi)

theorem int_cmp (a b : Int64) :
    (Val.int a).partialCmp (.int b) =
      some (if a.toInt < b.toInt then .lt else if a.toInt = b.toInt then .eq else .gt) := by
  simp only [Val.partialCmp, cmpOf]
  rcases Int.lt_trichotomy a.toInt b.toInt with h | h | h
  · have h1 : a < b := Int64.lt_iff_toInt_lt.mpr h
    simp [h1, h]
  · have e : a = b := Int64.toInt_inj.mp h
    subst e
    have : ¬ a < a := fun h' => by have := Int64.lt_iff_toInt_lt.mp h'; omega
    simp [this]
  · have h2 : ¬ a < b := fun h' => by have := Int64.lt_iff_toInt_lt.mp h'; omega
    have h3 : a ≠ b := by intro e; subst e; omega
    have h4 : ¬ a.toInt < b.toInt := by omega
    have h5 : ¬ a.toInt = b.toInt := by omega
    simp [h2, h3, h4, h5]

theorem int_ge_iff (a b : Int64) : (Val.int a).ge (.int b) = decide (b.toInt ≤ a.toInt) := by
  simp only [Val.ge, int_cmp]
  rcases Int.lt_trichotomy a.toInt b.toInt with h | h | h
  · have h4 : ¬ b.toInt ≤ a.toInt := by omega
    simp [h, h4]
  · simp [h]
  · have h4 : ¬ a.toInt < b.toInt := by omega
    have h5 : ¬ a.toInt = b.toInt := by omega
    have h6 : b.toInt ≤ a.toInt := by omega
    simp [h4, h5, h6]

theorem int_gt_iff (a b : Int64) : (Val.int a).gt (.int b) = decide (b.toInt < a.toInt) := by
  simp only [Val.gt, int_cmp]
  rcases Int.lt_trichotomy a.toInt b.toInt with h | h | h
  · have h4 : ¬ b.toInt < a.toInt := by omega
    simp [h, h4]
  · have h4 : ¬ b.toInt < a.toInt := by omega
    simp [h, h4]
  · have h4 : ¬ a.toInt < b.toInt := by omega
    have h5 : ¬ a.toInt = b.toInt := by omega
    simp [h4, h5, h]

/-- **`a..b` excludes `b`** -/
theorem range_excl (v lo hi : Int64) :
    rangeTest false (.int v) (.int lo) (.int hi) = decide (lo.toInt ≤ v.toInt ∧ v.toInt < hi.toInt) := by
  simp only [rangeTest, int_ge_iff, Bool.false_eq_true, if_false]
  by_cases h1 : lo.toInt ≤ v.toInt <;> by_cases h2 : hi.toInt ≤ v.toInt <;> simp [h1, h2] <;> omega

/-- **`a..=b` includes `b`** -/
theorem range_incl (v lo hi : Int64) :
    rangeTest true (.int v) (.int lo) (.int hi) = decide (lo.toInt ≤ v.toInt ∧ v.toInt ≤ hi.toInt) := by
  simp only [rangeTest, int_ge_iff, int_gt_iff, if_true]
  by_cases h1 : lo.toInt ≤ v.toInt <;> by_cases h2 : hi.toInt < v.toInt <;> simp [h1, h2] <;> omega

/-- the boundary cases the statement names -/
example : rangeTest false (.int 5) (.int 3) (.int 5) = false ∧ rangeTest true (.int 5) (.int 3) (.int 5) = true ∧
    rangeTest false (.int 3) (.int 3) (.int 5) = true := by
  simp [range_excl, range_incl]

/-- an equality pattern matches exactly the equal integer (the template's `NotEqual` is the negation of `==`) -/
theorem eq_pattern_int (v p : Int64) :
    execOperator .notEqual (.int v) (.int p) = .ok (.bool (decide (v ≠ p))) := by
  by_cases h : v = p <;> simp [execOperator, Val.eq, h]

/-! ### `while` repeats its body until the condition is falsey (core fragment)

The reference evaluation of `while c { body }` (`Core.evalS`) is, by definition, "evaluate `c`;
falsey ⇒ leave; else run the body and start again".  `Core.compileS_correct` proves that the
code the compiler emits for the loop (condition, `JumpIfFalse` to the exit, body, `Jump` back)
reproduces every terminating run of it, whatever the number of iterations.  The three lemmas
below are the loop's defining equations in the form the statement uses. -/

open P2sh.Core in
theorem while_exits_on_falsey (fuel : Nat) (lbl : Option String) (c : CExpr) (body : List CStmt) (g g1 : List Val) (vc : Val)
    (hc : eval g c = some (vc, g1)) (hf : vc.isFalsey = true) :
    evalS (fuel + 1) g (.whileS lbl c body) = some (g1, .normal) := by
  simp [evalS, hc, hf]

open P2sh.Core in
/-- the body ended normally, or in a `continue` addressed to this loop: the loop starts again -/
theorem while_repeats_on_truthy (fuel : Nat) (lbl : Option String) (c : CExpr) (body : List CStmt) (g g1 g2 : List Val) (vc : Val) (f : Flow)
    (hc : eval g c = some (vc, g1)) (hf : vc.isFalsey = false) (hb : evalP fuel g1 body = some (g2, f))
    (ha : loopAct lbl f = .again) :
    evalS (fuel + 1) g (.whileS lbl c body) = evalS fuel g2 (.whileS lbl c body) := by
  simp [evalS, hc, hf, hb, ha]

open P2sh.Core in
/-- the compiled loop: condition, exit test, body, back edge — and it reproduces every terminating run -/
theorem while_compiled (fuel : Nat) (lbl : Option String) (c : CExpr) (body : List CStmt) (C : List Instr) (K : List Val) (pos k : Nat)
    (ctx : List LoopCtx) (stk g g' : List Val) (f : Flow)
    (h : codeAt C pos (compileS pos k ctx (.whileS lbl c body))) (hp : poolAt K k (constsS (.whileS lbl c body)))
    (he : evalS fuel g (.whileS lbl c body) = some (g', f)) :
    Steps C K ⟨pos, stk, g⟩ ⟨exitPc ctx (pos + bytes (compileS pos k ctx (.whileS lbl c body))) f, stk, g'⟩ :=
  compileS_correct fuel _ C K pos k ctx stk g g' f h hp he

/-! ### `break` / `continue`, plain and labelled (core fragment)

`Core.lookupLoop` is the compiler's search of its loop stack: a plain `break` / `continue` is
addressed to the innermost loop, a labelled one to the innermost loop carrying that label
(`Core.targets`).  A loop consumes the flows addressed to it (`Core.loopAct`) and lets the
others through to the enclosing loops.  The theorems are instances of `Core.sound_all`: the
machine is at the end / the beginning of the addressed loop, with the stack the loop was
entered with. -/

open P2sh.Core in
/-- **`break` leaves the named loop**: the body of `lbl: loop { … }` ends in a `break l`
addressed to this loop (plain, or `l = lbl`) — the loop ends normally with the globals at the
`break`, and the compiled code is at the byte after the loop, with the loop's entry stack -/
theorem break_leaves_named_loop (fuel : Nat) (lbl l : Option String) (body : List CStmt) (C : List Instr) (K : List Val)
    (pos k : Nat) (ctx : List LoopCtx) (stk g g2 : List Val)
    (h : codeAt C pos (compileS pos k ctx (.loopS lbl body))) (hp : poolAt K k (constsS (.loopS lbl body)))
    (hb : evalP fuel g body = some (g2, .brk l)) (ht : targets lbl l = true) :
    evalS (fuel + 1) g (.loopS lbl body) = some (g2, .normal) ∧
    Steps C K ⟨pos, stk, g⟩ ⟨pos + bytes (compileS pos k ctx (.loopS lbl body)), stk, g2⟩ := by
  have he : evalS (fuel + 1) g (.loopS lbl body) = some (g2, .normal) := by simp [evalS, hb, loopAct, ht]
  exact ⟨he, compileS_correct (fuel + 1) _ C K pos k ctx stk g g2 .normal h hp he⟩

open P2sh.Core in
/-- … and a `break l` addressed to another loop leaves this loop too, and goes on to the end of
the loop the enclosing loop stack resolves `l` to: the innermost one for a plain `break`, the
innermost one labelled `l` otherwise -/
theorem break_leaves_enclosing_loop (fuel : Nat) (lbl l : Option String) (body : List CStmt) (C : List Instr) (K : List Val)
    (pos k : Nat) (ctx : List LoopCtx) (stk g g2 : List Val)
    (h : codeAt C pos (compileS pos k ctx (.loopS lbl body))) (hp : poolAt K k (constsS (.loopS lbl body)))
    (hb : evalP fuel g body = some (g2, .brk l)) (ht : targets lbl l = false) :
    evalS (fuel + 1) g (.loopS lbl body) = some (g2, .brk l) ∧
    Steps C K ⟨pos, stk, g⟩ ⟨breakTarget ctx l, stk, g2⟩ := by
  have he : evalS (fuel + 1) g (.loopS lbl body) = some (g2, .brk l) := by simp [evalS, hb, loopAct, ht]
  exact ⟨he, compileS_correct (fuel + 1) _ C K pos k ctx stk g g2 (.brk l) h hp he⟩

open P2sh.Core in
/-- the same for `while` (the condition was truthy) -/
theorem break_leaves_named_while (fuel : Nat) (lbl l : Option String) (c : CExpr) (body : List CStmt) (C : List Instr) (K : List Val)
    (pos k : Nat) (ctx : List LoopCtx) (stk g g1 g2 : List Val) (vc : Val)
    (h : codeAt C pos (compileS pos k ctx (.whileS lbl c body))) (hp : poolAt K k (constsS (.whileS lbl c body)))
    (hc : eval g c = some (vc, g1)) (hf : vc.isFalsey = false)
    (hb : evalP fuel g1 body = some (g2, .brk l)) (ht : targets lbl l = true) :
    evalS (fuel + 1) g (.whileS lbl c body) = some (g2, .normal) ∧
    Steps C K ⟨pos, stk, g⟩ ⟨pos + bytes (compileS pos k ctx (.whileS lbl c body)), stk, g2⟩ := by
  have he : evalS (fuel + 1) g (.whileS lbl c body) = some (g2, .normal) := by simp [evalS, hc, hf, hb, loopAct, ht]
  exact ⟨he, compileS_correct (fuel + 1) _ C K pos k ctx stk g g2 .normal h hp he⟩

open P2sh.Core in
/-- **`continue` restarts the named loop**: the body of `lbl: loop { … }` ends in a
`continue l` addressed to this loop — the evaluation goes on with a fresh iteration in the
globals at the `continue`, and the compiled code is back at the loop's first byte with the
loop's entry stack -/
theorem continue_restarts_named_loop (fuel : Nat) (lbl l : Option String) (body : List CStmt) (C : List Instr) (K : List Val)
    (pos k : Nat) (ctx : List LoopCtx) (stk g g2 : List Val)
    (h : codeAt C pos (compileS pos k ctx (.loopS lbl body))) (hp : poolAt K k (constsS (.loopS lbl body)))
    (hb : evalP fuel g body = some (g2, .cont l)) (ht : targets lbl l = true) :
    evalS (fuel + 1) g (.loopS lbl body) = evalS fuel g2 (.loopS lbl body) ∧
    Steps C K ⟨pos, stk, g⟩ ⟨pos, stk, g2⟩ := by
  refine ⟨by simp [evalS, hb, loopAct, ht], ?_⟩
  simp only [compileS] at h
  simp only [constsS] at hp
  have := compileP_correct fuel body C K pos k (⟨lbl, pos, pos + sizeP body + 3⟩ :: ctx) stk g g2 (.cont l) (codeAt_left h) hp hb
  exact this.to (by simp [exitPc, contTarget, lookupLoop, ht])

open P2sh.Core in
/-- for `while`: the loop's first byte is the condition — it is evaluated again -/
theorem continue_restarts_named_while (fuel : Nat) (lbl l : Option String) (c : CExpr) (body : List CStmt) (C : List Instr) (K : List Val)
    (pos k : Nat) (ctx : List LoopCtx) (stk g g1 g2 : List Val) (vc : Val)
    (h : codeAt C pos (compileS pos k ctx (.whileS lbl c body))) (hp : poolAt K k (constsS (.whileS lbl c body)))
    (hc : eval g c = some (vc, g1)) (hf : vc.isFalsey = false)
    (hb : evalP fuel g1 body = some (g2, .cont l)) (ht : targets lbl l = true) :
    evalS (fuel + 1) g (.whileS lbl c body) = evalS fuel g2 (.whileS lbl c body) ∧
    Steps C K ⟨pos, stk, g⟩ ⟨pos, stk, g2⟩ := by
  refine ⟨by simp [evalS, hc, hf, hb, loopAct, ht], ?_⟩
  simp only [compileS] at h
  simp only [constsS] at hp
  have s1 := compile_correct c C K pos k stk g vc g1 (codeAt_left (codeAt_left (codeAt_left h))) (poolAt_left hp) hc
  have hj := codeAt_right (codeAt_left (codeAt_left h))
  have s2 := Steps.one (step_jif (stk := stk) (g := g1) (v := vc) (K := K) hj)
  simp only [hf, Bool.false_eq_true, if_false] at s2
  have hbody := codeAt_right (codeAt_left h)
  have s3 := compileP_correct fuel body C K _ _ (⟨lbl, pos, pos + bytes (compile pos k c) + 3 + sizeP body + 3⟩ :: ctx) stk g1 g2 (.cont l)
    (hbody.to (by posarith)) (poolAt_right hp) hb
  exact ((s1.trans s2).trans s3).to (by simp [exitPc, contTarget, lookupLoop, ht])

open P2sh.Core in
/-- … and a `continue l` addressed to another loop leaves this one for the beginning of the
loop the enclosing stack resolves `l` to -/
theorem continue_restarts_enclosing_loop (fuel : Nat) (lbl l : Option String) (body : List CStmt) (C : List Instr) (K : List Val)
    (pos k : Nat) (ctx : List LoopCtx) (stk g g2 : List Val)
    (h : codeAt C pos (compileS pos k ctx (.loopS lbl body))) (hp : poolAt K k (constsS (.loopS lbl body)))
    (hb : evalP fuel g body = some (g2, .cont l)) (ht : targets lbl l = false) :
    evalS (fuel + 1) g (.loopS lbl body) = some (g2, .cont l) ∧
    Steps C K ⟨pos, stk, g⟩ ⟨contTarget ctx l, stk, g2⟩ := by
  have he : evalS (fuel + 1) g (.loopS lbl body) = some (g2, .cont l) := by simp [evalS, hb, loopAct, ht]
  exact ⟨he, compileS_correct (fuel + 1) _ C K pos k ctx stk g g2 (.cont l) h hp he⟩

open P2sh.Core in
/-- the loop stack is searched from the innermost loop outwards; a plain `break` takes the
innermost loop, a labelled one the innermost loop with that label -/
example : let ctx : List LoopCtx := [⟨none, 30, 40⟩, ⟨some "a", 20, 50⟩, ⟨some "b", 10, 60⟩, ⟨some "a", 0, 70⟩]
    breakTarget ctx none = 40 ∧ breakTarget ctx (some "a") = 50 ∧ breakTarget ctx (some "b") = 60 ∧
    contTarget ctx (some "b") = 10 ∧ contTarget ctx none = 30 := by
  simp [breakTarget, contTarget, lookupLoop, targets]

open P2sh.Core in
/-- non-vacuity:
```
let i = 0; let s = 0;
a: while i < 3 { i = i + 1; let j = 0;
  loop { j = j + 1; if j > 2 { break; } if i == 2 { continue a; } s = s + 1; } }
``` ends with `i = 3`, `s = 4` (the inner loop runs two full rounds for `i = 1, 3`, none for `i = 2`) -/
example : evalP 200 [.null, .null, .null]
    [.letG 0 (.lit (.int 0)), .letG 1 (.lit (.int 0)),
     .whileS (some "a") (.lt (.gget 0) (.lit (.int 3)))
       [.expr (.gset 0 (.bin .add (.gget 0) (.lit (.int 1)))), .letG 2 (.lit (.int 0)),
        .loopS none
          [.expr (.gset 2 (.bin .add (.gget 2) (.lit (.int 1)))),
           .ifS (.bin .greater (.gget 2) (.lit (.int 2))) [.breakS none] [],
           .ifS (.bin .equal (.gget 0) (.lit (.int 2))) [.continueS (some "a")] [],
           .expr (.gset 1 (.bin .add (.gget 1) (.lit (.int 1))))]]]
    = some ([.int 3, .int 4, .int 3], .normal) := by rfl

/-! ### `match` (core fragment)

`Core.eval` of `match s { arms }` evaluates `s` once and hands its value to `Core.evalArms`,
which tests the arms in order (`Core.patTest`: the VM's `NotEqual` for a literal pattern, the
two comparisons `rangeTest` for a range) and evaluates the body of the first arm that matches;
the last arm is always the default arm (`_ => e` of the user, `_ => null` appended by the
parser).  The theorems below say what the *compiled* match does. -/

open P2sh.Core

/-- a range pattern on integers is `rangeTest`, hence interval membership (`range_excl`, `range_incl`) -/
theorem patTest_range_int (incl : Bool) (v lo hi : Int64) :
    patTest (.int v) (.range incl (.int lo) (.int hi)) = some (rangeTest incl (.int v) (.int lo) (.int hi)) := by
  cases incl <;>
    simp [patTest, execOperator, binaryOp, isNumKind, isByteVal, applyBin, rangeTest, Val.isFalsey] <;>
    cases (Val.int v).ge (Val.int lo) <;> simp

/-- `a..b` as a pattern: matches exactly the integers `a ≤ v < b` -/
theorem pattern_range_excl (v lo hi : Int64) :
    patTest (.int v) (.range false (.int lo) (.int hi)) = some (decide (lo.toInt ≤ v.toInt ∧ v.toInt < hi.toInt)) := by
  rw [patTest_range_int, range_excl]

/-- `a..=b` as a pattern: matches exactly the integers `a ≤ v ≤ b` -/
theorem pattern_range_incl (v lo hi : Int64) :
    patTest (.int v) (.range true (.int lo) (.int hi)) = some (decide (lo.toInt ≤ v.toInt ∧ v.toInt ≤ hi.toInt)) := by
  rw [patTest_range_int, range_incl]

/-- a literal pattern matches exactly the value that is `==` to it (the VM's equality) -/
theorem pattern_lit (v p : Val) : patTest v (.lit p) = some (v.eq p) := by
  simp [patTest, execOperator, Val.isFalsey]

theorem pattern_bool (v : Val) (b : Bool) : patTest v (.bool b) = some (v.eq (.bool b)) := by
  simp [patTest, execOperator, Val.isFalsey]

/-- **the first matching arm, and only it.**  The match is compiled anywhere (`codeAt`); the
scrutinee evaluates to `v` leaving the globals `g1`; `selectArm` names the first arm one of whose
patterns matches `v` (else the default arm): its body `b`, whose code sits at byte `pb`.  Then
* the reference value of the match is the value of `b` in the globals the scrutinee left —
  the scrutinee is evaluated once, no other arm's body is evaluated;
* the machine goes from the start of the match to the first byte of `b`'s code with the stack it
  started with (the scrutinee and all its copies popped) and the globals `g1` (nothing but the
  scrutinee has run);
* `b`'s code is what sits there, and once it has pushed its value the machine reaches the end of
  the match with that value on the stack. -/
theorem match_first_arm (s : CExpr) (arms : CArms) (C : List Instr) (K : List Val) (pos k : Nat) (stk g : List Val)
    (v : Val) (g1 : List Val) (pb kb : Nat) (b : CExpr)
    (h : codeAt C pos (compile pos k (.matchE s arms))) (hp : poolAt K k (consts (.matchE s arms)))
    (hs : eval g s = some (v, g1))
    (hsel : selectArm (pos + bytes (compile pos k s)) (k + (consts s).length) v arms = some (pb, kb, b)) :
    eval g (.matchE s arms) = eval g1 b ∧
    codeAt C pb (compile pb kb b) ∧ poolAt K kb (consts b) ∧
    Steps C K ⟨pos, stk, g⟩ ⟨pb, stk, g1⟩ ∧
    ∀ (r : Val) (g' : List Val), eval g1 b = some (r, g') →
      Steps C K ⟨pb, stk, g1⟩ ⟨pos + bytes (compile pos k (.matchE s arms)), r :: stk, g'⟩ := by
  simp only [compile] at h ⊢
  simp only [consts] at hp
  have s1 := compile_correct s C K pos k stk g v g1 (codeAt_left h) (poolAt_left hp) hs
  obtain ⟨c1, c2, c3, c4⟩ := select_steps v arms C K _ _ pb kb b stk g1 (codeAt_right h) (poolAt_right hp) hsel
  refine ⟨?_, c1, c2, s1.trans c3, fun r g' hb => ?_⟩
  · simp only [eval, hs]
    rw [evalArms_select g1 v arms (pos + bytes (compile pos k s)) (k + (consts s).length), hsel]
  · have s2 := compile_correct b C K pb kb stk g1 r g' c1 c2 hb
    exact (s2.trans (c4 _ _)).to (by simp [bytes_append]; omega)

/-- no arm before the default arm matches `v` -/
def noArmMatches (v : Val) : CArms → Prop
  | .last _ => True
  | .cons pats _ rest => patsTest v pats = some false ∧ noArmMatches v rest

/-- the body of the default arm -/
def defaultOf : CArms → CExpr
  | .last d => d
  | .cons _ _ rest => defaultOf rest

theorem evalArms_none_match (g : List Val) (v : Val) : ∀ arms : CArms, noArmMatches v arms →
    evalArms g v arms = eval g (defaultOf arms) := by
  intro arms
  induction arms using CArms.ind with
  | last d => intro _; simp [evalArms, defaultOf]
  | cons pats body rest ih =>
    intro hn
    simp only [noArmMatches] at hn
    simp [evalArms, defaultOf, hn.1, ih hn.2]

/-- **null when no arm matches**: a match without a `_` arm of its own (the parser appends
`_ => null`) whose patterns all fail to match yields null — on the compiled code as well, with
the scrutinee popped and the globals the scrutinee left -/
theorem match_none_is_null (s : CExpr) (arms : CArms) (C : List Instr) (K : List Val) (pos k : Nat) (stk g : List Val)
    (v : Val) (g1 : List Val)
    (h : codeAt C pos (compile pos k (.matchE s arms))) (hp : poolAt K k (consts (.matchE s arms)))
    (hs : eval g s = some (v, g1)) (hn : noArmMatches v arms) (hd : defaultOf arms = .null) :
    eval g (.matchE s arms) = some (.null, g1) ∧
    Steps C K ⟨pos, stk, g⟩ ⟨pos + bytes (compile pos k (.matchE s arms)), .null :: stk, g1⟩ := by
  have he : eval g (.matchE s arms) = some (.null, g1) := by
    simp only [eval, hs]
    rw [evalArms_none_match g1 v arms hn, hd]
    simp [eval]
  exact ⟨he, compile_correct _ C K pos k stk g .null g1 h hp he⟩

/-- the compiled match reproduces the reference evaluation (instance of `Core.compile_correct`) -/
theorem match_compiled (s : CExpr) (arms : CArms) (C : List Instr) (K : List Val) (pos k : Nat) (stk g : List Val)
    (r : Val) (g' : List Val)
    (h : codeAt C pos (compile pos k (.matchE s arms))) (hp : poolAt K k (consts (.matchE s arms)))
    (he : eval g (.matchE s arms) = some (r, g')) :
    Steps C K ⟨pos, stk, g⟩ ⟨pos + bytes (compile pos k (.matchE s arms)), r :: stk, g'⟩ :=
  compile_correct _ C K pos k stk g r g' h hp he

/-! non-vacuity: `match x = x + 1 { 1 | 2 => 10, 3..6 => 20, 6..=9 => 30, _ => 40 }` with `x = 5`:
the scrutinee is evaluated once (`x` ends as 6), 6 is outside `3..6`, inside `6..=9` -/
def exArms : CArms :=
  .cons [.lit (.int 1), .lit (.int 2)] (.lit (.int 10))
    (.cons [.range false (.int 3) (.int 6)] (.lit (.int 20))
      (.cons [.range true (.int 6) (.int 9)] (.lit (.int 30)) (.last (.lit (.int 40)))))
def exScrut : CExpr := .gset 0 (.bin .add (.gget 0) (.lit (.int 1)))
def exMatch : CExpr := .matchE exScrut exArms

example : eval [.int 5] exMatch = some (.int 30, [.int 6]) := by rfl
example : eval [.int 2] exMatch = some (.int 20, [.int 3]) := by rfl
example : eval [.int 1] exMatch = some (.int 10, [.int 2]) := by rfl
example : eval [.int 9] exMatch = some (.int 40, [.int 10]) := by rfl
/-- the selected arm for 6: the third, whose body sits at byte 82 (constant index 9) -/
example : selectArm (0 + bytes (compile 0 0 exScrut)) (0 + (consts exScrut).length) (.int 6) exArms
    = some (82, 9, .lit (.int 30)) := by rfl
example : Steps (compile 0 0 exMatch) (consts exMatch) ⟨0, [], [.int 5]⟩ ⟨82, [], [.int 6]⟩ :=
  (match_first_arm exScrut exArms (compile 0 0 exMatch) (consts exMatch) 0 0 [] [.int 5] (.int 6) [.int 6] 82 9 (.lit (.int 30))
    ⟨[], [], by simp [exMatch], rfl⟩ ⟨[], [], by simp [exMatch], rfl⟩ (by rfl) (by rfl)).2.2.2.1
/-- `match 7 { 1 => 2 }` (the parser's arms: `1 => 2, _ => null`) is null -/
example : eval [] (.matchE (.lit (.int 7)) (.cons [.lit (.int 1)] (.lit (.int 2)) (.last .null))) = some (.null, []) :=
  (match_none_is_null (.lit (.int 7)) (.cons [.lit (.int 1)] (.lit (.int 2)) (.last .null))
    (compile 0 0 (.matchE (.lit (.int 7)) (.cons [.lit (.int 1)] (.lit (.int 2)) (.last .null))))
    (consts (.matchE (.lit (.int 7)) (.cons [.lit (.int 1)] (.lit (.int 2)) (.last .null)))) 0 0 [] [] (.int 7) []
    ⟨[], [], by simp, rfl⟩ ⟨[], [], by simp, rfl⟩ (by rfl) ⟨by rfl, trivial⟩ rfl).1
example : patTest (.int 6) (.range false (.int 3) (.int 6)) = some false ∧
    patTest (.int 6) (.range true (.int 3) (.int 6)) = some true ∧
    patTest (.int 3) (.range false (.int 3) (.int 6)) = some true := ⟨by rfl, by rfl, by rfl⟩
/-- a range against a scrutinee of another kind is a runtime error of the comparison -/
example : patTest (.str "a") (.range false (.int 3) (.int 6)) = none := by rfl

end P2sh.Props.C05
