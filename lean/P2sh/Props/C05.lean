import P2sh.Model.Ops
import P2sh.Proofs.IntLemmas
import P2sh.Core.Prog
/-!
# C05 — match ranges: `a..b` excludes `b`, `a..=b` includes it

The compiler tests a range pattern with two comparisons of the VM (`GreaterEq` against the lower
bound, then `GreaterEq` — exclusive — or `Greater` — inclusive — against the upper bound, the
body being entered when the second one is *false*).  `rangeTest` is that test on the operator
model; the theorems say it is exactly interval membership on integers, for all operands.
-/
namespace P2sh.Props.C05
open P2sh P2sh.Proofs

/-- the value-level test the match template performs for `lo..hi` / `lo..=hi` -/
def rangeTest (incl : Bool) (v lo hi : Val) : Bool :=
  v.ge lo && !(if incl then v.gt hi else v.ge hi)

theorem int_cmp (a b : Int64) :
    (Val.int a).partialCmp (.int b) =
      some (if a.toInt < b.toInt then .lt else if a.toInt = b.toInt then .eq else .gt) := by
  simp only [Val.partialCmp, cmpOf]
  rcases Int.lt_trichotomy a.toInt b.toInt with h | h | h
  · have h1 : a < b := Int64.lt_iff_toInt_lt.mpr h
    simp [h1, h]
  · have e : a = b := Int64.toInt_inj.mp h
    subst e
    have : ¬ a < a := fun h' => by have := Int64.lt_iff_toInt_lt.mp h'; omega
    simp [this]
  · have h2 : ¬ a < b := fun h' => by have := Int64.lt_iff_toInt_lt.mp h'; omega
    have h3 : a ≠ b := by intro e; subst e; omega
    have h4 : ¬ a.toInt < b.toInt := by omega
    have h5 : ¬ a.toInt = b.toInt := by omega
    simp [h2, h3, h4, h5]

theorem int_ge_iff (a b : Int64) : (Val.int a).ge (.int b) = decide (b.toInt ≤ a.toInt) := by
  simp only [Val.ge, int_cmp]
  rcases Int.lt_trichotomy a.toInt b.toInt with h | h | h
  · have h4 : ¬ b.toInt ≤ a.toInt := by omega
    simp [h, h4]
  · simp [h]
  · have h4 : ¬ a.toInt < b.toInt := by omega
    have h5 : ¬ a.toInt = b.toInt := by omega
    have h6 : b.toInt ≤ a.toInt := by omega
    simp [h4, h5, h6]

theorem int_gt_iff (a b : Int64) : (Val.int a).gt (.int b) = decide (b.toInt < a.toInt) := by
  simp only [Val.gt, int_cmp]
  rcases Int.lt_trichotomy a.toInt b.toInt with h | h | h
  · have h4 : ¬ b.toInt < a.toInt := by omega
    simp [h, h4]
  · have h4 : ¬ b.toInt < a.toInt := by omega
    simp [h, h4]
  · have h4 : ¬ a.toInt < b.toInt := by omega
    have h5 : ¬ a.toInt = b.toInt := by omega
    simp [h4, h5, h]

/-- **`a..b` excludes `b`** -/
theorem range_excl (v lo hi : Int64) :
    rangeTest false (.int v) (.int lo) (.int hi) = decide (lo.toInt ≤ v.toInt ∧ v.toInt < hi.toInt) := by
  simp only [rangeTest, int_ge_iff, Bool.false_eq_true, if_false]
  by_cases h1 : lo.toInt ≤ v.toInt <;> by_cases h2 : hi.toInt ≤ v.toInt <;> simp [h1, h2] <;> omega

/-- **`a..=b` includes `b`** -/
theorem range_incl (v lo hi : Int64) :
    rangeTest true (.int v) (.int lo) (.int hi) = decide (lo.toInt ≤ v.toInt ∧ v.toInt ≤ hi.toInt) := by
  simp only [rangeTest, int_ge_iff, int_gt_iff, if_true]
  by_cases h1 : lo.toInt ≤ v.toInt <;> by_cases h2 : hi.toInt < v.toInt <;> simp [h1, h2] <;> omega

/-- the boundary cases the statement names -/
example : rangeTest false (.int 5) (.int 3) (.int 5) = false ∧ rangeTest true (.int 5) (.int 3) (.int 5) = true ∧
    rangeTest false (.int 3) (.int 3) (.int 5) = true := by
  simp [range_excl, range_incl]

/-- an equality pattern matches exactly the equal integer (the template's `NotEqual` is the negation of `==`) -/
theorem eq_pattern_int (v p : Int64) :
    execOperator .notEqual (.int v) (.int p) = .ok (.bool (decide (v ≠ p))) := by
  by_cases h : v = p <;> simp [execOperator, Val.eq, h]

/-! ### `while` repeats its body until the condition is falsey (core fragment)

The reference evaluation of `while c { body }` (`Core.evalS`) is, by definition, "evaluate `c`;
falsey ⇒ leave; else run the body and start again".  `Core.compileS_correct` proves that the
code the compiler emits for the loop (condition, `JumpIfFalse` to the exit, body, `Jump` back)
reproduces every terminating run of it, whatever the number of iterations.  The three lemmas
below are the loop's defining equations in the form the statement uses. -/

open P2sh.Core in
theorem while_exits_on_falsey (fuel : Nat) (c : CExpr) (body : List CStmt) (g g1 : List Val) (vc : Val)
    (hc : eval g c = some (vc, g1)) (hf : vc.isFalsey = true) :
    evalS (fuel + 1) g (.whileS c body) = some g1 := by
  simp [evalS, hc, hf]

open P2sh.Core in
theorem while_repeats_on_truthy (fuel : Nat) (c : CExpr) (body : List CStmt) (g g1 g2 : List Val) (vc : Val)
    (hc : eval g c = some (vc, g1)) (hf : vc.isFalsey = false) (hb : evalP fuel g1 body = some g2) :
    evalS (fuel + 1) g (.whileS c body) = evalS fuel g2 (.whileS c body) := by
  simp [evalS, hc, hf, hb]

open P2sh.Core in
/-- the compiled loop: condition, exit test, body, back edge — and it reproduces every terminating run -/
theorem while_compiled (fuel : Nat) (c : CExpr) (body : List CStmt) (C : List Instr) (K : List Val) (pos k : Nat)
    (stk g g' : List Val) (h : codeAt C pos (compileS pos k (.whileS c body))) (hp : poolAt K k (constsS (.whileS c body)))
    (he : evalS fuel g (.whileS c body) = some g') :
    Steps C K ⟨pos, stk, g⟩ ⟨pos + bytes (compileS pos k (.whileS c body)), stk, g'⟩ :=
  compileS_correct fuel _ C K pos k stk g g' h hp he

end P2sh.Props.C05
