import P2sh.Model.MainLoop
/-!
# C23 — REPL lines accumulate state like one program; rejected lines have no effect

Over the model of `run_prompt`'s state carrying (tied to the binary by the `repl` end-to-end
engine, whose oracle is the reference semantics folded over the lines):
-/
namespace P2sh.Props.C23
open P2sh.MainLoop

/-- **a rejected line has no effect**: whatever the parser or the compiler did before giving
up, the state carried to the next line is the state the line started with -/
theorem rejected_line_no_effect {σ} (st : σ) (half : σ) :
    replStep st (LineResult.parseError : LineResult σ) = st ∧
    replStep st (LineResult.compileError half) = st ∧
    replStep st (LineResult.blank : LineResult σ) = st := ⟨rfl, rfl, rfl⟩

/-- **lines accumulate like one program**: running a history is running its first part and
then the rest from the state reached — the state after `ls₁ ++ ls₂` is a fold -/
theorem history_composes {σ} (step : σ → String → LineResult σ) :
    ∀ (ls₁ ls₂ : List String) (st : σ),
      replRun st step (ls₁ ++ ls₂) = replRun (replRun st step ls₁) step ls₂ := by
  intro ls₁
  induction ls₁ with
  | nil => intros; rfl
  | cons l ls ih => intro ls₂ st; simp only [List.cons_append, replRun]; exact ih ls₂ _

/-- a line that is rejected in the current state does not change what any later history does -/
theorem rejected_line_is_skipped {σ} (step : σ → String → LineResult σ) (st : σ) (l : String) (rest : List String)
    (h : (∃ half, step st l = .compileError half) ∨ step st l = .parseError ∨ step st l = .blank) :
    replRun st step (l :: rest) = replRun st step rest := by
  simp only [replRun]
  rcases h with ⟨half, h⟩ | h | h <;> simp [h, replStep]

/-- an accepted line carries exactly the state its run produced (also after a runtime error) -/
theorem accepted_line_carries_its_state {σ} (st after : σ) (out : String) (e : Bool) :
    replStep st (LineResult.ran after out e) = after := rfl

end P2sh.Props.C23
