import P2sh.Props.BcvStore5
/-!
# Bcv — the bytecode verifier is sound for the VM model (C07: stack heights; C08: no panic)

`Bcv.checkProgram consts main = .ok _` (`ProgOk`): the main code and every function constant pass `Bcv.check`
(a table of operand-stack heights satisfying the local condition `okAt` at every entry) and the constants are plain.
For such programs, along every run of the VM model `Vm.run`:

* **the invariant** is `Inv consts s ∧ SInv consts s`:
  - `Inv` (`BcvInv.lean`): every frame runs checked code; the top frame stands at an offset `ip` with
    `sp = bp + numLocals + H[ip]` (`H` the table of its function; the end of the main code counts with height 0); every
    suspended frame stands just after its `Call`, at the height it will have on return (`callee.bp = bp + numLocals + H[ip]`);
    function frames have `1 ≤ bp`; `bp + numLocals ≤ STACK_SIZE`; the stack and globals arrays keep their sizes; the
    constants are the pool's;
  - `SInv` (`BcvStore.lean`, the store typing): every closure value anywhere (stack slots, globals, constants, heap objects,
    running frames) is a checked function constant whose captured vector in the heap has at least `freeNeed` entries, and no
    array / map value aliases a captured vector.
* `init_inv_full`, `step_preserves_inv`, `no_panic_step`, `vm_safe`; `sound_heights`, `loop_constant_stack`.

The only `Res.panic` left is the memory exclusion of property C08: the message "capacity overflow" (`"s" * n` beyond
2^24 bytes, `P2sh.Props.C09.hugeRepeat`).
-/
namespace P2sh.Props.Bcv
open P2sh P2sh.Vm P2sh.Bcv P2sh.Code P2sh.Props.BcvWp

section
variable {consts : List Val} {main : FnDef}

/-- the whole invariant: frame stack + store typing -/
def FullInv (consts : List Val) (s : St) : Prop := Inv consts s ∧ SInv consts s

theorem progOk_fns (hp : ProgOk consts main) : ∀ g, Val.func g ∈ consts → ∃ sm, Bcv.check consts .func g = .ok sm := by
  obtain ⟨ps, hps⟩ := hp
  exact (checkProgram_ok hps).2.2

/-- **`init_inv`**: the initial state of an accepted program satisfies the invariant -/
theorem init_inv_full (hp : ProgOk consts main) : FullInv consts (initState main consts) := by
  obtain ⟨ps, hps⟩ := hp
  exact ⟨init_inv ⟨ps, hps⟩, sinv_init main (checkProgram_ok hps).1⟩

/-- **`step_preserves_inv`** (full invariant): a successful iteration of `VM::run` re-establishes it -/
theorem step_preserves_full {s s' : St} {b : Bool} (hp : ProgOk consts main) (hI : FullInv consts s)
    (he : exec tick s = (.ok b, s')) : FullInv consts s' :=
  wp_ok (a := b) (tick_inv_sinv (progOk_fns hp) hI.1 hI.2) he

/-- **`no_panic_step`** (full invariant): an iteration from a state satisfying the invariant never yields `Res.panic`
other than the memory exclusion; it may yield a runtime error or `unmodelled` -/
theorem no_panic_step_full {s s' : St} {msg : String} (hI : FullInv consts s)
    (he : exec tick s = (.error (.panic msg), s')) : msg = "capacity overflow" :=
  no_panic_step hI.1 (sinv_cd hI.2) he

/-- every state at an iteration boundary of a run of an accepted program satisfies the invariant -/
theorem reach_full (hp : ProgOk consts main) {s : St} (hr : Reach (initState main consts) s) : FullInv consts s := by
  induction hr with
  | init => exact init_inv_full hp
  | step _ he ih => exact step_preserves_full hp ih he

/-- the closure discipline holds along every run: the assumption of the `_partial` theorems is discharged -/
theorem cd_reach (hp : ProgOk consts main) (s : St) (hr : Reach (initState main consts) s) : CD consts s :=
  sinv_cd (reach_full hp hr).2

/-- **`vm_safe`**: on a program accepted by `Bcv.checkProgram`, `Vm.run` never returns `panic` (for any fuel), except
the memory exclusion "capacity overflow" -/
theorem vm_safe (hp : ProgOk consts main) (fuel : Nat) (msg : String) :
    (run main consts fuel).1 = .error (.panic msg) → msg = "capacity overflow" :=
  vm_safe_partial hp (cd_reach hp) fuel msg

/-- **`sound_heights`**: along every execution of an accepted program, whenever the running frame's `ip` is inside its
code, the verifier's table (of that frame's function) has an entry for `ip` and `sp = bp + numLocals + that height`;
`kindOf rest` is `.main` for the bottom frame and `.func` for every other frame -/
theorem sound_heights (hp : ProgOk consts main) {s : St} (hr : Reach (initState main consts) s)
    {f : Frame} {rest : List Frame} (hf : s.frames = f :: rest) (hlt : f.ip < f.fn.code.length) :
    ∃ sm h, check consts (kindOf rest) f.fn = .ok sm ∧ sm.heightAt f.ip = some h ∧ s.sp = f.bp + f.fn.numLocals + h :=
  sound_heights_partial hp (cd_reach hp) hr hf hlt

/-- **`loop_constant_stack`**: any two visits of the same instruction of the same function (e.g. a loop head) see the
same operand-stack height — for all checked code: loops, functions, closures, `match`, `break` / `continue` included -/
theorem loop_constant_stack (hp : ProgOk consts main) {s1 s2 : St}
    (hr1 : Reach (initState main consts) s1) (hr2 : Reach (initState main consts) s2)
    {f1 f2 : Frame} {r1 r2 : List Frame} (hf1 : s1.frames = f1 :: r1) (hf2 : s2.frames = f2 :: r2)
    (hfn : f1.fn = f2.fn) (hip : f1.ip = f2.ip) (hk : kindOf r1 = kindOf r2) (hlt : f1.ip < f1.fn.code.length) :
    s1.sp - (f1.bp + f1.fn.numLocals) = s2.sp - (f2.bp + f2.fn.numLocals) :=
  loop_constant_stack_partial hp (cd_reach hp) hr1 hr2 hf1 hf2 hfn hip hk hlt

/-- top-level statements are balanced: whenever the main code is at an offset the verifier computed height `0` for
(pc 0, the end of the code, every statement boundary recorded in `Summary.stmtStarts` with height 0), the operand stack
is empty -/
theorem main_statement_boundary (hp : ProgOk consts main) {s : St} (hr : Reach (initState main consts) s)
    {f : Frame} (hf : s.frames = [f]) (hlt : f.ip < f.fn.code.length) :
    ∃ sm h, check consts .main f.fn = .ok sm ∧ sm.heightAt f.ip = some h ∧ s.sp = h := by
  obtain ⟨sm, h, hck, hh, hsp⟩ := sound_heights hp hr hf hlt
  have hI := (reach_full hp hr).1
  obtain ⟨f', rest', hf', ⟨_, _, hck', _, _, _⟩, hb⟩ := hI.top
  rw [hf] at hf'
  cases hf'
  have hb0 : f.bp = 0 := hb
  have hz := (check_ok hck).2.2 rfl
  exact ⟨sm, h, hck, hh, by omega⟩

/-- a run of an accepted program that reaches the end of the main code ends with an empty operand stack -/
theorem run_ends_balanced (hp : ProgOk consts main) {s : St} (hr : Reach (initState main consts) s)
    {f : Frame} (hf : s.frames = [f]) (hend : f.ip = f.fn.code.length) : s.sp = 0 := by
  have hI := (reach_full hp hr).1
  have h1 := end_height_zero hI hf hend
  obtain ⟨f', rest', hf', ⟨sm, _, hck, _, _, _⟩, _⟩ := hI.top
  rw [hf] at hf'
  cases hf'
  have hz := (check_ok hck).2.2 rfl
  omega
end

/-! ## non-vacuity: `check` on small hand-made codes -/

def mk (code : List Nat) (nl := 0) (np := 0) : FnDef :=
  { code := code, lines := code.map (fun _ => 1), numLocals := nl, numParams := np, line := 1 }

def isOk {α} : Except String α → Bool
  | .ok _ => true
  | .error _ => false

/-- a loop: `0 True; 1 JumpIfFalse 9; 4 Null; 5 Pop; 6 Jump 0; 9 end` -/
example : isOk (check [] .main (mk [7, 16,0,9, 18, 1, 15,0,0])) = true := by decide +kernel
/-- an if/else leaving one value that the statement pops -/
example : isOk (check [.int 1] .main (mk [7, 16,0,10, 0,0,0, 15,0,11, 18, 1])) = true := by decide +kernel
/-- a call: `Closure 0 0; Call 0; Pop` with the callee `Null; ReturnValue` -/
example : isOk (checkProgram [.func (mk [18, 27])] (mk [34,0,0,0, 26,0, 1])) = true := by decide +kernel
/-- unbalanced branch: the else branch pushes two values -/
example : isOk (check [.int 1] .main (mk [7, 16,0,10, 0,0,0, 15,0,12, 18, 18, 1])) = false := by decide +kernel
/-- a jump into the middle of an instruction -/
example : isOk (check [.int 1] .main (mk [15,0,4, 0,0,0, 1])) = false := by decide +kernel
/-- constant index out of range -/
example : isOk (check [.int 1] .main (mk [0,0,1, 1])) = false := by decide +kernel
/-- a captured variable read by a closure created without captured values -/
example : isOk (checkProgram [.func (mk [35,0, 27])] (mk [34,0,0,0, 26,0, 1])) = false := by decide +kernel
/-- `return` in the main code (the VM would compute `bp - 1` with `bp = 0`) -/
example : isOk (check [] .main (mk [18, 27])) = false := by decide +kernel



end P2sh.Props.Bcv
