import P2sh.Model.Bcv
/-!
# Bcv — the bytecode verifier is sound for the VM model (C07 heights, C08 no panic)
-/
namespace P2sh.Props.Bcv
open P2sh P2sh.Bcv

/-! ## non-vacuity: `check` on small hand-made codes -/

def mk (code : List Nat) (nl := 0) (np := 0) : FnDef :=
  { code := code, lines := code.map (fun _ => 1), numLocals := nl, numParams := np, line := 1 }

def isOk {α} : Except String α → Bool
  | .ok _ => true
  | .error _ => false

/-- a loop: `0 True; 1 JumpIfFalse 9; 4 Null; 5 Pop; 6 Jump 0; 9 end` -/
example : isOk (check [] .main (mk [7, 16,0,9, 18, 1, 15,0,0])) = true := by decide +kernel
/-- an if/else leaving one value that the statement pops -/
example : isOk (check [.int 1] .main (mk [7, 16,0,10, 0,0,0, 15,0,11, 18, 1])) = true := by decide +kernel
/-- a call: `Closure 0 0; Call 0; Pop` with the callee `Null; ReturnValue` -/
example : isOk (checkProgram [.func (mk [18, 27])] (mk [34,0,0,0, 26,0, 1])) = true := by decide +kernel
/-- unbalanced branch: the else branch pushes two values -/
example : isOk (check [.int 1] .main (mk [7, 16,0,10, 0,0,0, 15,0,12, 18, 18, 1])) = false := by decide +kernel
/-- a jump into the middle of an instruction -/
example : isOk (check [.int 1] .main (mk [15,0,4, 0,0,0, 1])) = false := by decide +kernel
/-- constant index out of range -/
example : isOk (check [.int 1] .main (mk [0,0,1, 1])) = false := by decide +kernel
/-- a captured variable read by a closure created without captured values -/
example : isOk (checkProgram [.func (mk [35,0, 27])] (mk [34,0,0,0, 26,0, 1])) = false := by decide +kernel
/-- `return` in the main code (the VM would compute `bp - 1` with `bp = 0`) -/
example : isOk (check [] .main (mk [18, 27])) = false := by decide +kernel

end P2sh.Props.Bcv
