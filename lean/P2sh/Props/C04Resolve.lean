import P2sh.Model.Resolver
import P2sh.Spec.Lexical
import P2sh.Props.C04
set_option linter.unusedSimpArgs false
/-!
# C04 — `resolve_agrees`: the compiler's use of the symbol table implements lexical scoping

`P2sh.Resolver` (model of the compiler's walk over the `Symtab` model, tied to the real compiler
by the op `resolve`) against `P2sh.Lex` (the lexical reference, written from the statement).
-/
namespace P2sh.Props.C04Resolve
open P2sh P2sh.Symtab P2sh.Symtab.Table P2sh.Resolver P2sh.Lex P2sh.Props.C04

/-! ## what a symbol denotes -/

/-- the definition site a non-captured symbol of the function instance `fid` stands for -/
def symBinding (fid : Nat) (s : Symbol) : Option Binding :=
  match s.scope with
  | .global => some (.glob s.index)
  | .local => some (.loc fid s.index)
  | .function => some (.self fid)
  | .builtinFn => some (.builtinFn s.index)
  | .builtinVar => some (.builtinVar s.index)
  | .free => none

/-- the definition site a symbol stands for, given the chain of function instances being compiled
(innermost first) and their captured-symbol lists: `free i` is whatever the i-th captured symbol
stands for in the enclosing function -/
def den : List Nat → List (List Symbol) → Symbol → Option Binding
  | fid :: fids, fr :: frs, s =>
    if s.scope = .free then
      match fr[s.index]? with
      | some s' => den fids frs s'
      | none => none
    else symBinding fid s
  | _, _, _ => none

/-- what the model emitted (`Item`s) denotes what the lexical reference answered (`LItem`s) -/
inductive Rel : List Nat → List (List Symbol) → List Item → List LItem → Prop
  | nil {fids frs} : Rel fids frs [] []
  | use {fids frs a s b is ls} : den fids frs s = some b → Rel fids frs is ls →
      Rel fids frs (.use a s :: is) (.use a b :: ls)
  | defn {fids frs s b is ls} : den fids frs s = some b → Rel fids frs is ls →
      Rel fids frs (.defn s :: is) (.defn b :: ls)
  | closure {fids frs c frees body fid lbody is ls} :
      Rel (fid :: fids) (frees :: frs) body lbody →
      (∀ s ∈ frees, ∃ b o, den fids frs s = some b ∧ b.owner? = some o ∧ o ∈ fids) →
      Rel fids frs is ls →
      Rel fids frs (.closure c frees body :: is) (.mkfn fid lbody :: ls)
  | filter {fids frs e body fid lbody is ls} :
      Rel (fid :: fids) ([] :: frs) body lbody → Rel fids frs is ls →
      Rel fids frs (.filter e body :: is) (.filter fid e lbody :: ls)

/-- captured-symbol lists only grow, at the end -/
def Ext : List (List Symbol) → List (List Symbol) → Prop
  | [], [] => True
  | a :: as, b :: bs => (∃ t, b = a ++ t) ∧ Ext as bs
  | _, _ => False

theorem Ext.refl : ∀ frs, Ext frs frs
  | [] => trivial
  | a :: as => ⟨⟨[], by simp⟩, Ext.refl as⟩

theorem Ext.trans : ∀ {a b c}, Ext a b → Ext b c → Ext a c
  | [], [], [], _, _ => trivial
  | _ :: _, _ :: _, _ :: _, ⟨⟨t1, h1⟩, r1⟩, ⟨⟨t2, h2⟩, r2⟩ =>
    ⟨⟨t1 ++ t2, by rw [h2, h1, List.append_assoc]⟩, Ext.trans r1 r2⟩
  | [], [], _ :: _, _, h => by simp [Ext] at h
  | [], _ :: _, _, h, _ => by simp [Ext] at h
  | _ :: _, [], _, h, _ => by simp [Ext] at h
  | _ :: _, _ :: _, [], _, h => by simp [Ext] at h

theorem getElem?_append_some {α} (a t : List α) (i : Nat) (x : α) (h : a[i]? = some x) :
    (a ++ t)[i]? = some x := by
  have hi : i < a.length := by
    rcases Nat.lt_or_ge i a.length with h' | h'
    · exact h'
    · rw [List.getElem?_eq_none h'] at h; cases h
  rw [List.getElem?_append_left hi]; exact h

theorem den_mono : ∀ {fids frs frs' s b}, Ext frs frs' → den fids frs s = some b → den fids frs' s = some b
  | [], _, _, _, _, _, h => by simp [den] at h
  | _ :: _, [], [], _, _, _, h => by simp [den] at h
  | _ :: _, [], _ :: _, _, _, he, _ => by simp [Ext] at he
  | _ :: _, _ :: _, [], _, _, he, _ => by simp [Ext] at he
  | fid :: fids, fr :: frs, fr' :: frs', s, b, ⟨⟨t, ht⟩, he⟩, h => by
    simp only [den] at h ⊢
    split
    · rename_i hs
      simp only [hs, if_true] at h
      cases hfr : fr[s.index]? with
      | none => simp [hfr] at h
      | some s' =>
        simp only [hfr] at h
        have := getElem?_append_some fr t s.index s' hfr
        rw [ht, this]
        exact den_mono he h
    · rename_i hs
      simpa [hs] using h

theorem den_owner : ∀ {fids frs s b o}, den fids frs s = some b → b.owner? = some o → o ∈ fids
  | [], _, _, _, _, h, _ => by simp [den] at h
  | _ :: _, [], _, _, _, h, _ => by simp [den] at h
  | fid :: fids, fr :: frs, s, b, o, h, ho => by
    simp only [den] at h
    split at h
    · cases hfr : fr[s.index]? with
      | none => simp [hfr] at h
      | some s' =>
        simp only [hfr] at h
        exact List.mem_cons_of_mem _ (den_owner h ho)
    · simp only [symBinding] at h
      split at h <;> simp at h <;> subst h <;> simp [Binding.owner?] at ho
      · subst ho; exact List.mem_cons_self
      · subst ho; exact List.mem_cons_self

theorem Rel.mono {fids frs is ls} (h : Rel fids frs is ls) : ∀ {frs'}, Ext frs frs' → Rel fids frs' is ls := by
  induction h with
  | nil => intro _ _; exact .nil
  | use hd _ ih => intro _ he; exact .use (den_mono he hd) (ih he)
  | defn hd _ ih => intro _ he; exact .defn (den_mono he hd) (ih he)
  | closure _ hc _ ihb ih =>
    intro _ he
    refine .closure (ihb ⟨⟨[], by simp⟩, he⟩) ?_ (ih he)
    intro s hs
    obtain ⟨b, o, h1, h2, h3⟩ := hc s hs
    exact ⟨b, o, den_mono he h1, h2, h3⟩
  | filter _ _ ihb ih => intro _ he; exact .filter (ihb ⟨⟨[], by simp⟩, he⟩) (ih he)

theorem Rel.append {fids frs is ls is' ls'} (h : Rel fids frs is ls) (h' : Rel fids frs is' ls') :
    Rel fids frs (is ++ is') (ls ++ ls') := by
  induction h with
  | nil => simpa using h'
  | use hd _ ih => exact .use hd (ih h')
  | defn hd _ ih => exact .defn hd (ih h')
  | closure hb hc _ _ ih => exact .closure hb hc (ih h')
  | filter hb _ _ ih => exact .filter hb (ih h')


/-! ## the simulation invariant -/

/-- (block depth, definition site) of every binding of `x` in the scopes, outermost / earliest first -/
def bindingsOf (x : String) : List BlockScope → List (Nat × Binding)
  | [] => []
  | sc :: rest => bindingsOf x rest ++ ((sc.reverse.filter (fun p => p.1 == x)).map fun p => (rest.length, p.2))

/-- (depth, definition site) of a stored symbol that is not a captured one; symbols that are not
variables (function name, builtins) live at depth 0 -/
def toB (fid : Nat) (s : Symbol) : Option (Nat × Binding) :=
  match symBinding fid s with
  | none => none
  | some b => if s.scope = .global ∨ s.scope = .local ∨ s.depth = 0 then some (s.depth, b) else none

theorem lookupScope_eq (x : String) (sc : BlockScope) :
    lookupScope x sc = ((sc.reverse.filter (fun p => p.1 == x)).getLast?).map (·.2) := by
  induction sc with
  | nil => rfl
  | cons p rest ih =>
    obtain ⟨n, b⟩ := p
    simp only [lookupScope, List.reverse_cons, List.filter_append, List.filter_cons, List.filter_nil]
    by_cases h : (n == x) = true
    · simp [h]
    · simp [h, ih]

theorem lookupScopes_eq (x : String) : ∀ scs : List BlockScope,
    lookupScopes x scs = ((bindingsOf x scs).getLast?).map (·.2)
  | [] => rfl
  | sc :: rest => by
    simp only [lookupScopes, bindingsOf, lookupScope_eq]
    cases h : (sc.reverse.filter (fun p => p.1 == x)).getLast? with
    | none =>
      have : sc.reverse.filter (fun p => p.1 == x) = [] := List.getLast?_eq_none_iff.mp h
      simp [this, lookupScopes_eq x rest]
    | some p =>
      have hne : sc.reverse.filter (fun p => p.1 == x) ≠ [] := by
        intro h0; rw [h0] at h; simp at h
      rw [List.getLast?_append, List.getLast?_map, h]
      rfl

theorem bindingsOf_depth (x : String) : ∀ (scs : List BlockScope) (p : Nat × Binding),
    p ∈ bindingsOf x scs → p.1 < scs.length
  | [], p, h => by simp [bindingsOf] at h
  | sc :: rest, p, h => by
    simp only [bindingsOf, List.mem_append, List.mem_map] at h
    rcases h with h | ⟨q, _, rfl⟩
    · have := bindingsOf_depth x rest p h
      simp only [List.length_cons]; omega
    · simp

theorem bindingsOf_add_same (x : String) (b : Binding) (sc : BlockScope) (rest : List BlockScope) :
    bindingsOf x (((x, b) :: sc) :: rest) = bindingsOf x (sc :: rest) ++ [(rest.length, b)] := by
  simp [bindingsOf, List.filter_append]

theorem bindingsOf_add_other (x y : String) (b : Binding) (sc : BlockScope) (rest : List BlockScope) (h : y ≠ x) :
    bindingsOf x (((y, b) :: sc) :: rest) = bindingsOf x (sc :: rest) := by
  have : (y == x) = false := by simpa using h
  simp [bindingsOf, List.filter_append, this]

/-- `pick` returns the latest symbol when everything stored is visible -/
theorem pick_last (D : Nat) (syms : List Symbol) (h : ∀ s ∈ syms, s.depth ≤ D ∨ s.scope = .free) :
    pick D syms = syms.getLast? := by
  unfold pick
  rcases List.eq_nil_or_concat syms with rfl | ⟨init, last, rfl⟩
  · rfl
  · have hl := h last (by simp)
    have : (decide (last.depth ≤ D) || last.scope == Scope.free) = true := by
      rcases hl with h1 | h1 <;> simp [h1]
    simp [this]

theorem setStore_keys (name : String) (syms : List Symbol) : ∀ st : List (String × List Symbol),
    (setStore name syms st).map Prod.fst = if name ∈ st.map Prod.fst then st.map Prod.fst else st.map Prod.fst ++ [name]
  | [] => by simp [setStore]
  | (n, s) :: rest => by
    by_cases h : n = name
    · subst h; simp [setStore]
    · have hb : (n == name) = false := by simpa using h
      have ih := setStore_keys name syms rest
      have hne : ¬ name = n := fun e => h e.symm
      simp only [setStore, hb, List.map_cons, Bool.false_eq_true, if_false, List.mem_cons, hne, false_or]
      rw [ih]
      by_cases hm : name ∈ rest.map Prod.fst
      · simp [hm]
      · simp [hm]

theorem setStore_nodup (name : String) (syms : List Symbol) (st : List (String × List Symbol))
    (h : (st.map Prod.fst).Nodup) : ((setStore name syms st).map Prod.fst).Nodup := by
  rw [setStore_keys]
  split
  · exact h
  · rename_i hm
    rw [List.nodup_append]
    refine ⟨h, by simp, ?_⟩
    intro a ha b hb
    simp at hb; subst hb
    intro e; subst e; exact hm ha

theorem lookupStore_none_of_not_mem (x : String) : ∀ st : List (String × List Symbol),
    x ∉ st.map Prod.fst → lookupStore x st = none
  | [], _ => rfl
  | (n, s) :: rest, h => by
    simp only [List.map_cons, List.mem_cons, not_or] at h
    have hb : (n == x) = false := by simpa using fun e : n = x => h.1 e.symm
    simp [lookupStore, hb, lookupStore_none_of_not_mem x rest h.2]

def leaveStore (d : Nat) (st : List (String × List Symbol)) : List (String × List Symbol) :=
  (st.map (fun p => (p.1, p.2.filter (keep d)))).filter (fun p => !p.2.isEmpty)

theorem leaveStore_keys_sub (d : Nat) (x : String) : ∀ st : List (String × List Symbol),
    x ∈ (leaveStore d st).map Prod.fst → x ∈ st.map Prod.fst
  | [], h => by simp [leaveStore] at h
  | (n, s) :: rest, h => by
    simp only [leaveStore, List.map_cons, List.filter_cons] at h
    split at h
    · simp only [List.map_cons, List.mem_cons] at h
      rcases h with h | h
      · simp [h]
      · exact List.mem_cons_of_mem _ (leaveStore_keys_sub d x rest h)
    · exact List.mem_cons_of_mem _ (leaveStore_keys_sub d x rest h)

theorem leaveStore_nodup (d : Nat) : ∀ st : List (String × List Symbol),
    (st.map Prod.fst).Nodup → ((leaveStore d st).map Prod.fst).Nodup
  | [], _ => by simp [leaveStore]
  | (n, s) :: rest, h => by
    simp only [List.map_cons, List.nodup_cons] at h
    have ih := leaveStore_nodup d rest h.2
    simp only [leaveStore, List.map_cons, List.filter_cons]
    split
    · simp only [List.map_cons, List.nodup_cons]
      exact ⟨fun hm => h.1 (leaveStore_keys_sub d n rest hm), ih⟩
    · exact ih

theorem lookup_leaveStore (d : Nat) (x : String) : ∀ st : List (String × List Symbol),
    (st.map Prod.fst).Nodup →
    lookupStore x (leaveStore d st) =
      match lookupStore x st with
      | none => none
      | some syms => if (syms.filter (keep d)).isEmpty then none else some (syms.filter (keep d))
  | [], _ => rfl
  | (n, s) :: rest, h => by
    simp only [List.map_cons, List.nodup_cons] at h
    have ih := lookup_leaveStore d x rest h.2
    by_cases hn : n = x
    · subst hn
      have hnone : lookupStore n (leaveStore d rest) = none :=
        lookupStore_none_of_not_mem n _ (fun hm => h.1 (leaveStore_keys_sub d n rest hm))
      simp only [leaveStore, List.map_cons, List.filter_cons, lookupStore, beq_self_eq_true, if_true]
      by_cases he : (s.filter (keep d)).isEmpty = true
      · simp only [he, Bool.not_true, Bool.false_eq_true, if_false, if_true]
        exact hnone
      · simp [he, lookupStore]
    · have hb : (n == x) = false := by simpa using hn
      simp only [leaveStore, List.map_cons, List.filter_cons, lookupStore, hb, Bool.false_eq_true, if_false]
      split
      · simp only [lookupStore, hb, Bool.false_eq_true, if_false]; exact ih
      · exact ih


def fidsOf (env : List Frame) : List Nat := env.map (·.fid)
def freesOf (tab : Table) : List (List Symbol) := tab.map (·.free)

/-- what the store of a level says about the name `x`, against the block scopes of the frame:
possibly one captured symbol (whose original is in the level's `free` list) at the bottom, then
exactly the frame's live bindings of `x`, outermost first, with their depths -/
def StoreRel (fid : Nat) (free : List Symbol) (scopes : List BlockScope) (x : String) : Option (List Symbol) → Prop
  | none => bindingsOf x scopes = []
  | some syms => ∃ pre body, syms = pre ++ body ∧ syms ≠ [] ∧
      body.map (toB fid) = (bindingsOf x scopes).map some ∧
      (∀ s ∈ syms, s.name = x) ∧
      (pre = [] ∨ ∃ fs, pre = [fs] ∧ fs.scope = .free ∧ ∃ s0, free[fs.index]? = some s0 ∧ s0.name = x)

structure LevelRel (l : Level) (sc : Resolver.Scope) (fr : Frame) (ofids : List Nat) (ofrees : List (List Symbol))
    (oenv : List Frame) : Prop where
  hdepth : fr.scopes.length = sc.depth + 1
  hfilter : sc.isFilter = fr.isFilter
  hloops : sc.loops = fr.loops
  hndefs : l.numDefs = fr.ndefs
  hnodup : (l.store.map Prod.fst).Nodup
  hstore : ∀ x, StoreRel fr.fid l.free fr.scopes x (lookupStore x l.store)
  hfree : ∀ (i : Nat) (s0 : Symbol), l.free[i]? = some s0 →
    ∃ b, den ofids ofrees s0 = some b ∧ lookup s0.name oenv = some b ∧ b.owner?.isSome = true

inductive Chain : Table → List Resolver.Scope → List Frame → Prop
  | nil : Chain [] [] []
  | cons {l rest sc scs fr frs} : LevelRel l sc fr (fidsOf frs) (freesOf rest) frs → Chain rest scs frs →
      Chain (l :: rest) (sc :: scs) (fr :: frs)

theorem LevelRel.mono_outer {l sc fr ofids ofrees ofrees' oenv} (h : LevelRel l sc fr ofids ofrees oenv)
    (he : Ext ofrees ofrees') : LevelRel l sc fr ofids ofrees' oenv := by
  refine ⟨h.hdepth, h.hfilter, h.hloops, h.hndefs, h.hnodup, h.hstore, ?_⟩
  intro i s0 hi
  obtain ⟨b, h1, h2, h3⟩ := h.hfree i s0 hi
  exact ⟨b, den_mono he h1, h2, h3⟩

theorem StoreRel.mono_free {fid free scopes x o} (t : List Symbol) (h : StoreRel fid free scopes x o) :
    StoreRel fid (free ++ t) scopes x o := by
  cases o with
  | none => exact h
  | some syms =>
    obtain ⟨pre, body, h1, h2, h3, h4, h5⟩ := h
    refine ⟨pre, body, h1, h2, h3, h4, ?_⟩
    rcases h5 with h5 | ⟨fs, hp, hs, s0, hg, hn⟩
    · exact .inl h5
    · exact .inr ⟨fs, hp, hs, s0, getElem?_append_some _ _ _ _ hg, hn⟩

theorem StoreRel.congr {fid free scopes scopes' x o} (hb : bindingsOf x scopes = bindingsOf x scopes')
    (h : StoreRel fid free scopes x o) : StoreRel fid free scopes' x o := by
  cases o with
  | none => simp only [StoreRel] at h ⊢; rw [← hb]; exact h
  | some syms => simp only [StoreRel] at h ⊢; rw [← hb]; exact h

theorem toB_some {fid s d b} (h : toB fid s = some (d, b)) :
    s.depth = d ∧ symBinding fid s = some b ∧ s.scope ≠ .free ∧ (s.scope = .global ∨ s.scope = .local ∨ d = 0) := by
  unfold toB at h
  cases hb : symBinding fid s with
  | none => simp [hb] at h
  | some b' =>
    simp only [hb] at h
    split at h
    · rename_i hk
      simp only [Option.some.injEq, Prod.mk.injEq] at h
      obtain ⟨h1, h2⟩ := h
      subst h1 h2
      refine ⟨rfl, rfl, ?_, hk⟩
      intro hf
      simp [symBinding, hf] at hb
    · cases h

theorem body_facts {fid scopes x} {body : List Symbol}
    (hb : body.map (toB fid) = (bindingsOf x scopes).map some) :
    ∀ s ∈ body, s.depth < scopes.length ∧ s.scope ≠ .free := by
  intro s hs
  have hm : toB fid s ∈ body.map (toB fid) := List.mem_map_of_mem hs
  rw [hb] at hm
  obtain ⟨p, hp, hpe⟩ := List.mem_map.mp hm
  obtain ⟨d, b⟩ := p
  have := toB_some hpe.symm
  have hd := bindingsOf_depth x scopes (d, b) hp
  exact ⟨by rw [this.1]; exact hd, this.2.2.1⟩

theorem kind_of_symBinding {fid s b} (h : symBinding fid s = some b) :
    s.scope = .global ∨ s.scope = .builtinFn ∨ s.scope = .builtinVar ∨ b.owner?.isSome = true := by
  unfold symBinding at h
  split at h <;> simp at h <;> subst h <;> simp_all [Binding.owner?]

/-- the result of `resolve`, read against the lexical environment -/
def ResOK (fids : List Nat) (frs : List (List Symbol)) (env : List Frame) (x : String) : Option Symbol → Prop
  | none => lookup x env = none
  | some s => s.name = x ∧ ∃ b, den fids frs s = some b ∧ lookup x env = some b ∧
      (s.scope = .global ∨ s.scope = .builtinFn ∨ s.scope = .builtinVar ∨ b.owner?.isSome = true)

theorem lookup_cons_of_nil {x : String} {fr : Frame} {frs : List Frame} (h : bindingsOf x fr.scopes = []) :
    lookup x (fr :: frs) = lookup x frs := by
  simp [lookup, lookupScopes_eq, h]

/-- **`resolve` finds the innermost visible binding**: on a table that mirrors the lexical
environment, `resolve` answers a symbol that denotes exactly the binding `Lex.lookup` finds (or
neither finds anything); the table it leaves behind still mirrors the environment, and the
captured-symbol lists have only grown -/
theorem resolve_sim {tab scs env} (hc : Chain tab scs env) (x : String) :
    ∀ D, (∀ sc, scs.head? = some sc → sc.depth ≤ D) → (∀ sc ∈ scs.tail, sc.depth ≤ maxDepth) →
    Chain (resolve tab x D).1 scs env ∧ Ext (freesOf tab) (freesOf (resolve tab x D).1) ∧
    ResOK (fidsOf env) (freesOf (resolve tab x D).1) env x (resolve tab x D).2 := by
  induction hc with
  | nil => intro D _ _; exact ⟨.nil, trivial, rfl⟩
  | @cons l rest sc scs fr frs hl hrest ih =>
    intro D hD hM
    have hD' : sc.depth ≤ D := hD sc rfl
    have hst := hl.hstore x
    simp only [resolve]
    cases hlk : lookupStore x l.store with
    | some syms =>
      simp only [hlk] at hst ⊢
      obtain ⟨pre, body, hsyms, hne, hbody, hnames, hpre⟩ := hst
      have hbf := body_facts hbody
      have hvis : ∀ s ∈ syms, s.depth ≤ D ∨ s.scope = .free := by
        intro s hs
        rw [hsyms, List.mem_append] at hs
        rcases hs with hs | hs
        · rcases hpre with hp | ⟨fs, hp, hfs, _⟩
          · rw [hp] at hs; cases hs
          · rw [hp] at hs; simp at hs; subst hs; exact .inr hfs
        · have := (hbf s hs).1
          rw [hl.hdepth] at this
          exact .inl (by omega)
      refine ⟨.cons hl hrest, Ext.refl _, ?_⟩
      rw [pick_last D syms hvis]
      rcases List.eq_nil_or_concat body with hb0 | ⟨binit, blast, hb1⟩
      · -- only a captured symbol
        subst hb0
        simp only [List.append_nil] at hsyms
        rcases hpre with hp | ⟨fs, hp, hfs, s0, hg, hn⟩
        · rw [hp] at hsyms; exact absurd hsyms hne
        · rw [hsyms, hp, show [fs].getLast? = some fs from rfl]
          simp only [List.map_nil] at hbody
          have hnil : bindingsOf x fr.scopes = [] := by
            cases hbo : bindingsOf x fr.scopes with
            | nil => rfl
            | cons a t => rw [hbo] at hbody; cases hbody
          obtain ⟨b, h1, h2, h3⟩ := hl.hfree fs.index s0 hg
          refine ⟨hnames fs (by rw [hsyms, hp]; simp), b, ?_, ?_, .inr (.inr (.inr h3))⟩
          · simp only [fidsOf, freesOf, List.map_cons, den, hfs, if_true, hg]
            exact h1
          · rw [lookup_cons_of_nil hnil, ← hn]; exact h2
      · -- a live binding of this function
        rw [List.concat_eq_append] at hb1
        subst hb1
        have hlast : (pre ++ (binit ++ [blast])).getLast? = some blast := by
          rw [← List.append_assoc]; simp
        rw [hsyms, hlast]
        have hg := congrArg List.getLast? hbody
        rw [List.getLast?_map, List.getLast?_map] at hg
        simp only [List.getLast?_append, List.getLast?_singleton, Option.some_or, Option.map_some] at hg
        cases hbl : (bindingsOf x fr.scopes).getLast? with
        | none => rw [hbl] at hg; cases hg
        | some p =>
          rw [hbl] at hg
          simp only [Option.map_some, Option.some.injEq] at hg
          obtain ⟨d, b⟩ := p
          have ht := toB_some hg
          refine ⟨hnames blast (by rw [hsyms]; simp), b, ?_, ?_, kind_of_symBinding ht.2.1⟩
          · simp only [fidsOf, freesOf, List.map_cons, den, ht.2.2.1, if_false]
            exact ht.2.1
          · simp [lookup, lookupScopes_eq, hbl]
    | none =>
      simp only [hlk] at hst ⊢
      have hlook : lookup x (fr :: frs) = lookup x frs := lookup_cons_of_nil hst
      cases hrest with
      | nil =>
        simp only [List.isEmpty_nil, if_true]
        refine ⟨.cons hl .nil, Ext.refl _, ?_⟩
        show lookup x [fr] = none
        rw [hlook]; rfl
      | @cons l1 rest1 sc1 scs1 fr1 frs1 hl1 hrest1 =>
        simp only [List.isEmpty_cons, Bool.false_eq_true, if_false]
        have hM1 : ∀ sc', (sc1 :: scs1).head? = some sc' → sc'.depth ≤ maxDepth := by
          intro sc' h; simp at h; subst h; exact hM sc1 (by simp)
        have hM2 : ∀ sc' ∈ (sc1 :: scs1).tail, sc'.depth ≤ maxDepth := by
          intro sc' h; exact hM sc' (by simp at h ⊢; exact .inr h)
        obtain ⟨hc', hext', hres'⟩ := ih maxDepth hM1 hM2
        cases hr : resolve (l1 :: rest1) x maxDepth with
        | mk outer' r' =>
          rw [hr] at hc' hext' hres'
          simp only at hc' hext' hres'
          have hl' := hl.mono_outer hext'
          cases r' with
          | none =>
            simp only
            refine ⟨.cons hl' hc', ⟨⟨[], by simp⟩, hext'⟩, ?_⟩
            simp only [ResOK] at hres' ⊢
            rw [hlook]; exact hres'
          | some sym =>
            obtain ⟨hname, b, hden, hlk', hkind⟩ := hres'
            simp only
            cases hc' with
            | @cons l1' rest1' _ _ _ _ hl1' hrest1' =>
            split
            · -- a global or a builtin: used as it is
              rename_i hg
              refine ⟨.cons hl' (.cons hl1' hrest1'), ⟨⟨[], by simp⟩, hext'⟩, hname, b, ?_, by rw [hlook]; exact hlk', hkind⟩
              have hnf : sym.scope ≠ .free := by
                intro hf; simp [hf] at hg
              simp only [fidsOf, freesOf, List.map_cons, den, hnf, if_false] at hden ⊢
              unfold symBinding at hden ⊢
              rcases (by simpa using hg : (sym.scope = .global ∨ sym.scope = .builtinFn) ∨ sym.scope = .builtinVar) with (h | h) | h <;>
                simp only [h] at hden ⊢ <;> exact hden
            · -- a variable of an enclosing function: captured
              rename_i hg
              have hown : b.owner?.isSome = true := by
                rcases hkind with h | h | h | h
                · simp [h] at hg
                · simp [h] at hg
                · simp [h] at hg
                · exact h
              refine ⟨.cons ?_ (.cons hl1' hrest1'), ⟨⟨[sym], rfl⟩, hext'⟩, hname, b, ?_, by rw [hlook]; exact hlk', .inr (.inr (.inr hown))⟩
              · refine { hl' with hnodup := setStore_nodup _ _ _ hl.hnodup, hstore := ?_, hfree := ?_ }
                · intro y
                  by_cases hy : y = sym.name
                  · subst hy
                    simp only [lookup_setStore_same]
                    refine ⟨[_], [], rfl, by simp, ?_, by simp, .inr ⟨_, rfl, rfl, sym, by simp, rfl⟩⟩
                    rw [hname]
                    show List.map (toB fr.fid) [] = List.map some (bindingsOf x fr.scopes)
                    rw [show bindingsOf x fr.scopes = [] from hst]; rfl
                  · simp only [lookup_setStore_other _ _ _ _ hy]
                    exact (hl.hstore y).mono_free [sym]
                · intro i s0 hi
                  rcases Nat.lt_or_ge i l.free.length with hlt | hge
                  · rw [List.getElem?_append_left hlt] at hi
                    exact hl'.hfree i s0 hi
                  · rw [List.getElem?_append_right hge] at hi
                    have : i - l.free.length = 0 := by
                      rcases Nat.eq_zero_or_pos (i - l.free.length) with h0 | h0
                      · exact h0
                      · rw [List.getElem?_eq_none (by simp only [List.length_cons, List.length_nil]; omega)] at hi; cases hi
                    rw [this] at hi
                    simp only [List.getElem?_cons_zero, Option.some.injEq] at hi
                    subst hi
                    exact ⟨b, hden, by rw [hname]; exact hlk', hown⟩
              · simp only [fidsOf, freesOf, List.map_cons, den, if_true]
                simp only [List.getElem?_append_right (Nat.le_refl _), Nat.sub_self, List.getElem?_cons_zero]
                exact hden


/-! ## the other symbol-table operations -/

theorem chain_isEmpty {rest scs frs} (h : Chain rest scs frs) : rest.isEmpty = frs.isEmpty := by
  cases h <;> rfl

theorem scopes_cons {l sc fr ofids ofrees oenv} (h : LevelRel l sc fr ofids ofrees oenv) :
    ∃ top below, fr.scopes = top :: below ∧ below.length = sc.depth := by
  have := h.hdepth
  cases hs : fr.scopes with
  | nil => rw [hs] at this; simp at this
  | cons top below => rw [hs] at this; exact ⟨top, below, rfl, by simpa using this⟩

theorem define_cons (l : Level) (rest : Table) (x : String) (d : Nat) :
    Table.define (l :: rest) x d =
      ({ l with
          store := setStore x ((lookupStore x l.store).getD [] ++
            [Symbol.mk x (if rest.isEmpty = true then Scope.global else Scope.local) l.numDefs d]) l.store
          numDefs := l.numDefs + 1 } :: rest,
       Symbol.mk x (if rest.isEmpty = true then Scope.global else Scope.local) l.numDefs d) := rfl

theorem lexDefine_cons (fr : Frame) (frs : List Frame) (x : String) :
    Lex.define (fr :: frs) x =
      ({ fr with
          ndefs := fr.ndefs + 1
          scopes := addToScopes x (if frs.isEmpty = true then Binding.glob fr.ndefs else Binding.loc fr.fid fr.ndefs) fr.scopes } :: frs,
       if frs.isEmpty = true then Binding.glob fr.ndefs else Binding.loc fr.fid fr.ndefs) := rfl

/-- **`let` / function statement / parameter**: `define` at the current block depth against a new
definition site in the innermost lexical scope -/
theorem define_sim {l rest sc scs fr frs} (hc : Chain (l :: rest) (sc :: scs) (fr :: frs)) (x : String) :
    Chain (Table.define (l :: rest) x sc.depth).1 (sc :: scs) (Lex.define (fr :: frs) x).1 ∧
    freesOf (Table.define (l :: rest) x sc.depth).1 = freesOf (l :: rest) ∧
    fidsOf (Lex.define (fr :: frs) x).1 = fidsOf (fr :: frs) ∧
    den (fidsOf (fr :: frs)) (freesOf (l :: rest)) (Table.define (l :: rest) x sc.depth).2 =
      some (Lex.define (fr :: frs) x).2 := by
  cases hc with
  | cons hl hrest =>
  obtain ⟨top, below, hsc, hbl⟩ := scopes_cons hl
  have hemp := chain_isEmpty hrest
  rw [define_cons, lexDefine_cons]
  -- the new symbol and the new definition site
  have htoB : toB fr.fid (Symbol.mk x (if rest.isEmpty = true then Scope.global else Scope.local) l.numDefs sc.depth) =
      some (sc.depth, if frs.isEmpty = true then Binding.glob fr.ndefs else Binding.loc fr.fid fr.ndefs) := by
    rw [hemp, hl.hndefs]
    by_cases he : frs.isEmpty = true <;> simp [toB, symBinding, he]
  refine ⟨.cons ?_ hrest, rfl, rfl, ?_⟩
  · refine ⟨by simp [hsc, addToScopes, ← hl.hdepth], hl.hfilter, hl.hloops, by simp [hl.hndefs],
      setStore_nodup _ _ _ hl.hnodup, ?_, hl.hfree⟩
    intro y
    by_cases hy : y = x
    · subst hy
      simp only [lookup_setStore_same, hsc, addToScopes, StoreRel]
      rw [bindingsOf_add_same, hbl, ← hsc]
      have hst := hl.hstore y
      cases hlk : lookupStore y l.store with
      | none =>
        rw [hlk] at hst
        refine ⟨[], [_], rfl, by simp, ?_, by simp, .inl rfl⟩
        rw [show bindingsOf y fr.scopes = [] from hst]
        simp only [List.nil_append, List.map_cons, List.map_nil]
        rw [htoB]
      | some syms =>
        rw [hlk] at hst
        obtain ⟨pre, body, h1, h2, h3, h4, h5⟩ := hst
        refine ⟨pre, body ++ [_], by rw [Option.getD_some, h1, List.append_assoc], by simp, ?_, ?_, h5⟩
        · simp only [List.map_append, h3, List.map_cons, List.map_nil, htoB]
        · intro s hs
          simp only [Option.getD_some, List.mem_append, List.mem_singleton] at hs
          rcases hs with hs | hs
          · exact h4 s hs
          · subst hs; rfl
    · simp only [lookup_setStore_other _ _ _ _ hy, hsc, addToScopes]
      refine (hl.hstore y).congr ?_
      rw [bindingsOf_add_other _ _ _ _ _ (fun e => hy e.symm), ← hsc]
  · have := toB_some htoB
    have hnf : (if rest.isEmpty = true then Scope.global else Scope.local) ≠ Scope.free := this.2.2.1
    simp only [fidsOf, freesOf, List.map_cons, den]
    rw [if_neg hnf]
    exact this.2.1

/-- a block begins: one level deeper, a new innermost scope -/
theorem push_sim {l rest sc scs fr frs} (hc : Chain (l :: rest) (sc :: scs) (fr :: frs)) :
    Chain (l :: rest) ({ sc with depth := sc.depth + 1 } :: scs) ({ fr with scopes := [] :: fr.scopes } :: frs) := by
  cases hc with
  | cons hl hrest =>
  refine .cons ⟨by simp [hl.hdepth], hl.hfilter, hl.hloops, hl.hndefs, hl.hnodup, ?_, hl.hfree⟩ hrest
  intro y
  exact (hl.hstore y).congr (by simp [bindingsOf])

theorem filter_keep_body {fid d} {body : List Symbol} {B T : List (Nat × Binding)}
    (hb : body.map (toB fid) = (B ++ T).map some) (hB : ∀ p ∈ B, p.1 ≤ d) (hT : ∀ p ∈ T, d < p.1) :
    (body.filter (keep d)).map (toB fid) = B.map some := by
  let q : Option (Nat × Binding) → Bool := fun o => match o with | some p => decide (p.1 ≤ d) | none => true
  have hq : ∀ s ∈ body, keep d s = q (toB fid s) := by
    intro s hs
    have hm : toB fid s ∈ body.map (toB fid) := List.mem_map_of_mem hs
    rw [hb] at hm
    obtain ⟨p, _, hpe⟩ := List.mem_map.mp hm
    obtain ⟨dep, b⟩ := p
    have ht := toB_some hpe.symm
    rw [← hpe]
    simp only [q, keep, ht.1]
    by_cases hle : dep ≤ d
    · simp [hle]
    · have hne : dep ≠ 0 := by omega
      rcases ht.2.2.2 with h | h | h
      · simp [hle, h]
      · simp [hle, h]
      · exact absurd h hne
  have h1 : body.filter (keep d) = body.filter (q ∘ toB fid) :=
    List.filter_congr (fun s hs => by simp [hq s hs])
  rw [h1, ← List.filter_map, hb, List.map_append, List.filter_append]
  have hBk : (B.map some).filter q = B.map some := by
    apply List.filter_eq_self.mpr
    intro o ho
    obtain ⟨p, hp, rfl⟩ := List.mem_map.mp ho
    simp [q, hB p hp]
  have hTk : (T.map some).filter q = [] := by
    apply List.filter_eq_nil_iff.mpr
    intro o ho
    obtain ⟨p, hp, rfl⟩ := List.mem_map.mp ho
    have := hT p hp
    simp only [q, decide_eq_true_eq]; omega
  rw [hBk, hTk, List.append_nil]

/-- **a block ends**: `leave_block` forgets exactly the bindings of the innermost scope -/
theorem leave_sim {l rest sc scs fr frs} (hc : Chain (l :: rest) (sc :: scs) (fr :: frs)) (d : Nat)
    (hd : sc.depth = d + 1) :
    Chain (leaveBlock (l :: rest) d) ({ sc with depth := d } :: scs) ({ fr with scopes := fr.scopes.tail } :: frs) := by
  cases hc with
  | cons hl hrest =>
  obtain ⟨top, below, hsc, hbl⟩ := scopes_cons hl
  simp only [leaveBlock, updCur]
  refine .cons ⟨by simp [hsc, hbl, hd], hl.hfilter, hl.hloops, hl.hndefs, leaveStore_nodup d _ hl.hnodup, ?_, hl.hfree⟩ hrest
  intro y
  show StoreRel fr.fid l.free fr.scopes.tail y (lookupStore y (leaveStore d l.store))
  rw [lookup_leaveStore d y _ hl.hnodup, hsc, List.tail_cons]
  have hst := hl.hstore y
  rw [hsc] at hst
  have hB : ∀ p ∈ bindingsOf y below, p.1 ≤ d := by
    intro p hp
    have := bindingsOf_depth y below p hp
    omega
  have hT : ∀ p ∈ (top.reverse.filter (fun p => p.1 == y)).map (fun p => (below.length, p.2)), d < p.1 := by
    intro p hp
    obtain ⟨q, _, rfl⟩ := List.mem_map.mp hp
    simp only; omega
  cases hlk : lookupStore y l.store with
  | none =>
    rw [hlk] at hst
    have hst' : bindingsOf y below ++ (top.reverse.filter (fun p => p.1 == y)).map (fun p => (below.length, p.2)) = [] := hst
    exact (List.append_eq_nil_iff.mp hst').1
  | some syms =>
    rw [hlk] at hst
    obtain ⟨pre, body, h1, h2, h3, h4, h5⟩ := hst
    have h3' : body.map (toB fr.fid) =
        (bindingsOf y below ++ (top.reverse.filter (fun p => p.1 == y)).map (fun p => (below.length, p.2))).map some := h3
    have hbody := filter_keep_body h3' hB hT
    have hpre : pre.filter (keep d) = pre := by
      rcases h5 with h5 | ⟨fs, hp, hfs, _⟩
      · rw [h5]; rfl
      · rw [hp]; simp [keep, hfs]
    have hf : syms.filter (keep d) = pre ++ body.filter (keep d) := by
      rw [h1, List.filter_append, hpre]
    by_cases hemp : (syms.filter (keep d)).isEmpty = true
    · simp only [hemp, if_true]
      rw [hf] at hemp
      simp only [List.isEmpty_iff, List.append_eq_nil_iff] at hemp
      rw [hemp.2] at hbody
      simp only [List.map_nil] at hbody
      show bindingsOf y below = []
      cases hb : bindingsOf y below with
      | nil => rfl
      | cons a t => rw [hb] at hbody; cases hbody
    · simp only [hemp]
      refine ⟨pre, body.filter (keep d), hf, ?_, hbody, ?_, h5⟩
      · intro h0; rw [h0] at hemp; simp at hemp
      · intro s hs
        rw [hf] at hs
        simp only [List.mem_append] at hs
        rcases hs with hs | hs
        · exact h4 s (by rw [h1]; exact List.mem_append_left _ hs)
        · exact h4 s (by rw [h1]; exact List.mem_append_right _ (List.mem_filter.mp hs).1)


/-- a function literal or a filter begins: a new table, a new frame -/
theorem enter_sim {tab scs env} (hc : Chain tab scs env) (fid : Nat) (isFilter : Bool) :
    Chain (Table.enclosed tab) ({ isFilter := isFilter } :: scs)
      ({ fid := fid, isFilter := isFilter, scopes := [[]] } :: env) := by
  refine .cons ⟨rfl, rfl, rfl, rfl, by simp, ?_, ?_⟩ hc
  · intro y; simp [StoreRel, lookupStore, bindingsOf]
  · intro i s0 hi; simp at hi

/-- the function's own name, bound around the parameters -/
theorem fnname_sim {tab scs env} (hc : Chain tab scs env) (fid : Nat) (name : String) :
    Chain (defineFunctionName (Table.enclosed tab) name) ({} :: scs)
      ({ fid := fid, scopes := [[(name, Binding.self fid)]] } :: env) := by
  refine .cons ⟨rfl, rfl, rfl, rfl, by simp [Table.enclosed, defineFunctionName, updCur, setStore], ?_, ?_⟩ hc
  · intro y
    simp only [Table.enclosed, defineFunctionName, updCur, setStore, lookupStore]
    by_cases hy : name = y
    · subst hy
      simp only [beq_self_eq_true, if_true, StoreRel]
      refine ⟨[], [_], rfl, by simp, ?_, by simp, .inl rfl⟩
      simp [bindingsOf, toB, symBinding]
    · have : (name == y) = false := by simpa using hy
      simp [this, StoreRel, bindingsOf]
  · intro i s0 hi
    simp [Table.enclosed, defineFunctionName, updCur] at hi

/-! ## the two walks, side by side -/

structure R (st : St) (ls : LSt) : Prop where
  chain : Chain st.tab st.scopes ls.env
  hasEnd : st.hasEnd = ls.hasEnd
  ne : st.tab ≠ []

/-- what a successful sub-walk guarantees -/
structure Post (st : St) (ls : LSt) (st' : St) (ls' : LSt) (is : List Item) (lis : List LItem) : Prop where
  r : R st' ls'
  scopes : st'.scopes = st.scopes
  fids : fidsOf ls'.env = fidsOf ls.env
  ext : Ext (freesOf st.tab) (freesOf st'.tab)
  rel : Rel (fidsOf ls'.env) (freesOf st'.tab) is lis
  tail : ls'.env.tail = ls.env.tail

theorem Post.refl {st ls} (h : R st ls) : Post st ls st ls [] [] :=
  ⟨h, rfl, rfl, Ext.refl _, .nil, rfl⟩

/-- the constant counter does not matter -/
theorem Post.rebase {st0 st ls st' ls' is lis} (ht : st0.tab = st.tab) (hs : st0.scopes = st.scopes)
    (h : Post st0 ls st' ls' is lis) : Post st ls st' ls' is lis :=
  ⟨h.r, by rw [h.scopes, hs], h.fids, by rw [← ht]; exact h.ext, h.rel, h.tail⟩

theorem Post.seq {st ls st1 ls1 st2 ls2 i1 l1 i2 l2} (h1 : Post st ls st1 ls1 i1 l1) (h2 : Post st1 ls1 st2 ls2 i2 l2) :
    Post st ls st2 ls2 (i1 ++ i2) (l1 ++ l2) :=
  ⟨h2.r, h2.scopes.trans h1.scopes, h2.fids.trans h1.fids, h1.ext.trans h2.ext,
    (by have := h1.rel.mono h2.ext; rw [← h2.fids] at this; exact this.append h2.rel), h2.tail.trans h1.tail⟩

/-- errors about which the statement is silent: assigning to a name that is not a variable
(a builtin, a function's own name), a filter reaching for the variables of a function around it -/
def unconstrained : Err → Bool
  | .filterCapture _ | .invalidLvalue _ => true
  | _ => false

/-- the two walks correspond: both succeed and the results are related, or both stop with the
same error — unless one of them stops with an error about which the statement is silent -/
def Corr (P : St → LSt → List Item → List LItem → Prop)
    (m : Resolver.M (St × List Item)) (m' : Lex.M (LSt × List LItem)) : Prop :=
  match m, m' with
  | .ok a, .ok b => P a.1 b.1 a.2 b.2
  | .error e, .error e' => unconstrained e = true ∨ unconstrained e' = true ∨ e = e'
  | .error e, .ok _ => unconstrained e = true
  | .ok _, .error e' => unconstrained e' = true

theorem Corr.bind {P Q m m'} {f : St × List Item → Resolver.M (St × List Item)}
    {f' : LSt × List LItem → Lex.M (LSt × List LItem)} (h : Corr P m m')
    (hf : ∀ st1 i1 ls1 l1, P st1 ls1 i1 l1 → Corr Q (f (st1, i1)) (f' (ls1, l1))) :
    Corr Q (m >>= f) (m' >>= f') := by
  cases m with
  | error e =>
    cases m' with
    | error e' => exact h
    | ok b =>
      show Corr Q (.error e) (f' b)
      cases f' b with
      | error e' => exact .inl h
      | ok _ => exact h
  | ok a =>
    cases m' with
    | error e' =>
      show Corr Q (f a) (.error e')
      cases f a with
      | error e => exact .inr (.inl h)
      | ok _ => exact h
    | ok b => exact hf a.1 a.2 b.1 b.2 h

theorem Corr.err {P} (e : Err) : Corr P (.error e) (.error e) := .inr (.inr rfl)

/-- room for the block depth: `resolve` asks the enclosing tables with depth `usize::MAX` -/
def Bnd (st : St) (fuel : Nat) : Prop := fuel ≤ maxDepth ∧ ∀ sc ∈ st.scopes, sc.depth + fuel ≤ maxDepth

theorem Bnd.weaken {st fuel} (h : Bnd st (fuel + 1)) : Bnd st fuel :=
  ⟨by have := h.1; omega, fun sc hs => by have := h.2 sc hs; omega⟩

theorem Bnd.of_scopes {st st' fuel} (h : Bnd st fuel) (hs : st'.scopes = st.scopes) : Bnd st' fuel :=
  ⟨h.1, by intro sc hsc; rw [hs] at hsc; exact h.2 sc hsc⟩

structure Good (fuel : Nat) : Prop where
  e : ∀ st ls e, R st ls → Bnd st fuel → Corr (Post st ls) (walkE fuel st e) (lexE fuel ls e)
  es : ∀ st ls es, R st ls → Bnd st fuel → Corr (Post st ls) (walkEs fuel st es) (lexEs fuel ls es)
  kvs : ∀ st ls kvs, R st ls → Bnd st fuel → Corr (Post st ls) (walkKVs fuel st kvs) (lexKVs fuel ls kvs)
  arms : ∀ st ls first arms, R st ls → Bnd st fuel →
    Corr (Post st ls) (walkArms fuel st first arms) (lexArms fuel ls first arms)
  fn : ∀ st ls name params body, R st ls → Bnd st fuel →
    Corr (Post st ls) (walkFn fuel st name params body) (lexFn fuel ls name params body)
  block : ∀ st ls b, R st ls → Bnd st fuel → Corr (Post st ls) (walkBlock fuel st b) (lexBlock fuel ls b)
  stmts : ∀ st ls ss, R st ls → Bnd st fuel → Corr (Post st ls) (walkStmts fuel st ss) (lexStmts fuel ls ss)
  stmt : ∀ st ls s, R st ls → Bnd st fuel → Corr (Post st ls) (walkStmt fuel st s) (lexStmt fuel ls s)

theorem good_zero : Good 0 := by
  constructor <;> intros <;> simp only [walkE, lexE, walkEs, lexEs, walkKVs, lexKVs, walkArms, lexArms, walkFn, lexFn,
    walkBlock, lexBlock, walkStmts, lexStmts, walkStmt, lexStmt] <;> exact Corr.err _


theorem Corr.mono {P Q m m'} (hpq : ∀ a b c d, P a b c d → Q a b c d) (h : Corr P m m') : Corr Q m m' := by
  cases m <;> cases m' <;> first | exact h | exact hpq _ _ _ _ h

theorem R.nconsts {st ls} (h : R st ls) (n : Nat) : R { st with nconsts := n } ls := ⟨h.chain, h.hasEnd, h.ne⟩

theorem chain_length {tab scs env} (h : Chain tab scs env) : scs.length = env.length ∧ tab.length = env.length := by
  induction h with
  | nil => exact ⟨rfl, rfl⟩
  | cons _ _ ih => simp [ih.1, ih.2]

/-- `compile_identifier` against the lexical lookup -/
theorem ident_ok {st ls} (hR : R st ls) (hM : ∀ sc ∈ st.scopes.tail, sc.depth ≤ maxDepth) (l : Nat) (name : String)
    (acc : Access) : Corr (Post st ls) (walkIdent st l name acc) (lexIdent ls l name acc) := by
  have hD : ∀ sc, st.scopes.head? = some sc → sc.depth ≤ st.depth := by
    intro sc h
    unfold St.depth
    cases hs : st.scopes with
    | nil => rw [hs] at h; cases h
    | cons a t => rw [hs] at h; simp at h; subst h; exact Nat.le_refl _
  have hs := resolve_sim hR.chain name st.depth hD hM
  unfold walkIdent lexIdent
  cases hr : st.tab.resolve name st.depth with
  | mk tab' r =>
  rw [hr] at hs
  obtain ⟨hc', hext, hres⟩ := hs
  have hne : tab' ≠ [] := by
    intro h0
    have h1 := (chain_length hc').2
    have h2 := (chain_length hR.chain).2
    have h3 := hR.ne
    rw [h0] at h1
    simp only [List.length_nil] at h1
    rw [← h1] at h2
    exact h3 (List.eq_nil_of_length_eq_zero h2)
  cases r with
  | none =>
    have : lookup name ls.env = none := hres
    simp only [this]
    exact Corr.err _
  | some sym =>
    obtain ⟨_, b, hden, hlk, _⟩ := hres
    simp only [hlk]
    have hpost : ∀ a, Post st ls { st with tab := tab' } ls [.use a sym] [.use a b] :=
      fun a => ⟨⟨hc', hR.hasEnd, hne⟩, rfl, rfl, hext, .use hden .nil, rfl⟩
    cases acc with
    | get => exact hpost .get
    | set =>
      simp only
      by_cases h1 : (sym.scope == Scope.global || sym.scope == Scope.local || sym.scope == Scope.free) = true <;>
        by_cases h2 : b.assignable = true <;> simp only [h1, h2, if_true, if_false]
      · exact hpost .set
      · exact (rfl : unconstrained (.invalidLvalue l) = true)
      · exact (rfl : unconstrained (.invalidLvalue l) = true)
      · exact .inl rfl


theorem freesOf_leaveBlock (l : Level) (rest : Table) (d : Nat) :
    freesOf (leaveBlock (l :: rest) d) = freesOf (l :: rest) := rfl

/-- `compile_block_statement` against a lexical block -/
theorem block_ok {fuel} (ih : Good fuel) (st : St) (ls : LSt) (b : Block) (hR : R st ls) (hB : Bnd st (fuel + 1)) :
    Corr (Post st ls) (walkBlock (fuel + 1) st b) (lexBlock (fuel + 1) ls b) := by
  obtain ⟨tab, scopes, nconsts, hasEnd⟩ := st
  obtain ⟨env, nextFid, lhasEnd⟩ := ls
  have hc := hR.chain
  cases hc with
  | nil => exact absurd rfl hR.ne
  | @cons l rest sc scs fr frs hl hrest =>
    simp only [walkBlock, lexBlock]
    have hR1 : R ⟨l :: rest, { sc with depth := sc.depth + 1 } :: scs, nconsts, hasEnd⟩
        ⟨{ fr with scopes := [] :: fr.scopes } :: frs, nextFid, lhasEnd⟩ :=
      ⟨push_sim (.cons hl hrest), hR.hasEnd, by simp⟩
    have hB1 : Bnd ⟨l :: rest, { sc with depth := sc.depth + 1 } :: scs, nconsts, hasEnd⟩ fuel := by
      refine ⟨hB.weaken.1, ?_⟩
      intro s hs
      simp only [List.mem_cons] at hs
      rcases hs with hs | hs
      · subst hs
        have := hB.2 sc (by simp)
        simp only; omega
      · have := hB.2 s (by simp [hs]); omega
    refine Corr.bind (ih.stmts _ _ b.stmts hR1 hB1) fun st2 i2 ls2 l2 h2 => ?_
    obtain ⟨tab2, scopes2, nconsts2, hasEnd2⟩ := st2
    obtain ⟨env2, nextFid2, lhasEnd2⟩ := ls2
    have hsc2 : scopes2 = { sc with depth := sc.depth + 1 } :: scs := h2.scopes
    subst hsc2
    have hc2 := h2.r.chain
    cases hc2 with
    | @cons l2 rest2 _ _ fr2 frs2 hl2 hrest2 =>
    have hleave := leave_sim (.cons hl2 hrest2) sc.depth rfl
    refine ⟨⟨?_, h2.r.hasEnd, by simp [St.updScope, leaveBlock, updCur]⟩, rfl, h2.fids, ?_, ?_, ?_⟩
    · simpa [St.updScope, St.depth, popScope, LSt.upd, updFrame] using hleave
    · have := h2.ext
      simpa [St.updScope, St.depth, freesOf_leaveBlock] using this
    · have := h2.rel
      simpa [St.updScope, St.depth, freesOf_leaveBlock, popScope, LSt.upd, updFrame, fidsOf] using this
    · have := h2.tail
      simpa [popScope, pushScope, LSt.upd, updFrame] using this


/-- the parameters: definitions at depth 0 of the new table against definition sites of the new frame -/
theorem defineParams_sim : ∀ (ps : List String) (st : St) (env : List Frame),
    Chain st.tab st.scopes env → st.tab ≠ [] → (∀ sc, st.scopes.head? = some sc → sc.depth = 0) →
    Chain (st.defineParams ps).tab (st.defineParams ps).scopes (Lex.defineParams env ps) ∧
    (st.defineParams ps).scopes = st.scopes ∧ freesOf (st.defineParams ps).tab = freesOf st.tab ∧
    fidsOf (Lex.defineParams env ps) = fidsOf env ∧ (st.defineParams ps).hasEnd = st.hasEnd ∧
    (st.defineParams ps).tab ≠ []
  | [], st, env, hc, hne, _ => ⟨hc, rfl, rfl, rfl, rfl, hne⟩
  | p :: ps, st, env, hc, hne, hd => by
    obtain ⟨tab, scopes, nconsts, hasEnd⟩ := st
    cases hc with
    | nil => exact absurd rfl hne
    | @cons l rest sc scs fr frs hl hrest =>
      have hd0 : sc.depth = 0 := hd sc rfl
      have hdef := define_sim (.cons hl hrest) p
      rw [hd0] at hdef
      obtain ⟨hc1, hfr1, hfid1, _⟩ := hdef
      have ih := defineParams_sim ps
        ⟨(Table.define (l :: rest) p 0).1, sc :: scs, nconsts, hasEnd⟩ (Lex.define (fr :: frs) p).1 hc1
        (by rw [define_cons]; simp) hd
      obtain ⟨h1, h2, h3, h4, h5, h6⟩ := ih
      refine ⟨h1, h2, ?_, ?_, h5, h6⟩
      · exact h3.trans hfr1
      · exact h4.trans hfid1

theorem defineParams_tail : ∀ (ps : List String) (fr : Frame) (frs : List Frame),
    (Lex.defineParams (fr :: frs) ps).tail = frs
  | [], _, _ => rfl
  | p :: ps, fr, frs => by
    show (Lex.defineParams (Lex.define (fr :: frs) p).1 ps).tail = frs
    rw [lexDefine_cons]
    exact defineParams_tail ps _ frs

theorem mem_getElem? {α} {l : List α} {x : α} (h : x ∈ l) : ∃ i : Nat, l[i]? = some x := by
  obtain ⟨i, hi, he⟩ := List.mem_iff_getElem.mp h
  exact ⟨i, by rw [List.getElem?_eq_getElem hi, he]⟩

/-- the end of a function literal: `leave_scope`, the captured symbols, `Closure` -/
theorem fn_finish {st : St} {ls : LSt} {st3 : St} {ls1 : LSt} {st4 : St} {ls2 : LSt} {items litems} {fid : Nat}
    (hR : R st ls) (hsc : st3.scopes = {} :: st.scopes) (hfree0 : freesOf st3.tab = [] :: freesOf st.tab)
    (hfids : fidsOf ls1.env = fid :: fidsOf ls.env) (htl : ls1.env.tail = ls.env)
    (h : Post st3 ls1 st4 ls2 items litems) :
    Post st ls st4.leave.addConst { ls2 with env := ls2.env.tail }
      [.closure st4.leave.nconsts (Table.free st4.tab) items] [.mkfn fid litems] := by
  obtain ⟨tab4, scopes4, nconsts4, hasEnd4⟩ := st4
  obtain ⟨env2, nextFid2, lhasEnd2⟩ := ls2
  have hs4 : scopes4 = {} :: st.scopes := h.scopes.trans hsc
  subst hs4
  have hc4 := h.r.chain
  cases hc4 with
  | @cons l4 rest4 _ _ fr4 frs4 hl4 hrest4 =>
  have hf := h.fids
  rw [hfids] at hf
  simp only [fidsOf, List.map_cons, List.cons.injEq] at hf
  have hext := h.ext
  rw [hfree0] at hext
  have hne : rest4 ≠ [] := by
    intro h0
    have h1 := (chain_length hrest4).2
    have h2 := (chain_length hrest4).1
    have h3 := (chain_length hR.chain)
    rw [h0] at h1
    have : st.tab.length = 0 := by rw [h3.2, ← h3.1, h2, ← h1]; rfl
    exact hR.ne (List.eq_nil_of_length_eq_zero this)
  have htail : frs4 = ls.env := by have := h.tail; rw [htl] at this; exact this
  refine ⟨⟨hrest4, h.r.hasEnd, hne⟩, rfl, hf.2, hext.2, ?_, by show frs4.tail = ls.env.tail; rw [htail]⟩
  refine .closure ?_ ?_ .nil
  · have := h.rel
    simp only [fidsOf, freesOf, List.map_cons] at this
    rw [hf.1] at this
    exact this
  · intro s hs
    obtain ⟨i, hi⟩ := mem_getElem? (show s ∈ l4.free from hs)
    obtain ⟨b, h1, _, h3⟩ := hl4.hfree i s hi
    cases ho : b.owner? with
    | none => rw [ho] at h3; cases h3
    | some o => exact ⟨b, o, h1, ho, den_owner h1 ho⟩

/-- `compile_function_literal` against a lexical function literal -/
theorem fn_ok {fuel} (ih : Good fuel) (st : St) (ls : LSt) (name : String) (params : List String) (body : Block)
    (hR : R st ls) (hB : Bnd st (fuel + 1)) :
    Corr (Post st ls) (walkFn (fuel + 1) st name params body) (lexFn (fuel + 1) ls name params body) := by
  simp only [walkFn, lexFn]
  have hB0 : ∀ sc ∈ ({} : Resolver.Scope) :: st.scopes, sc.depth + fuel ≤ maxDepth := by
    intro sc hs
    simp only [List.mem_cons] at hs
    rcases hs with hs | hs
    · subst hs; have := hB.weaken.1; simpa using this
    · exact hB.weaken.2 sc hs
  by_cases hn : (name == "") = true
  · simp only [hn, if_true]
    have hc0 := enter_sim hR.chain ls.nextFid false
    have hp := defineParams_sim params (st.enter false) _ hc0 (by simp [St.enter, Table.enclosed])
      (by intro sc h; simp [St.enter] at h; subst h; rfl)
    obtain ⟨h1, h2, h3, h4, h5, h6⟩ := hp
    refine Corr.bind (ih.block _ _ body ⟨h1, h5.trans hR.hasEnd, h6⟩ ⟨hB.weaken.1, by rw [h2]; exact hB0⟩)
      fun st4 items ls2 litems h => ?_
    exact fn_finish hR h2 h3 h4 (defineParams_tail _ _ _) h
  · simp only [hn, Bool.false_eq_true, if_false]
    have hc0 := fnname_sim hR.chain ls.nextFid name
    have hp := defineParams_sim params { st.enter false with tab := defineFunctionName (st.enter false).tab name } _ hc0
      (by simp [St.enter, Table.enclosed, defineFunctionName, updCur])
      (by intro sc h; simp [St.enter] at h; subst h; rfl)
    obtain ⟨h1, h2, h3, h4, h5, h6⟩ := hp
    refine Corr.bind (ih.block _ _ body ⟨h1, h5.trans hR.hasEnd, h6⟩ ⟨hB.weaken.1, by rw [h2]; exact hB0⟩)
      fun st4 items ls2 litems h => ?_
    exact fn_finish hR h2 h3 h4 (defineParams_tail _ _ _) h


theorem loops_sim {l rest sc scs fr frs} (hc : Chain (l :: rest) (sc :: scs) (fr :: frs))
    (f : List (Option String) → List (Option String)) :
    Chain (l :: rest) ({ sc with loops := f sc.loops } :: scs) ({ fr with loops := f fr.loops } :: frs) := by
  cases hc with
  | cons hl hrest =>
  exact .cons ⟨hl.hdepth, hl.hfilter, by simp [hl.hloops], hl.hndefs, hl.hnodup, hl.hstore, hl.hfree⟩ hrest

/-- `let` and function statements: the name is defined before its value is compiled -/
theorem def_finish {st : St} {ls : LSt} {st1 : St} {ls1 : LSt} {st2 : St} {ls2 : LSt} {i1 l1} {sym : Symbol} {b : Binding}
    (h1 : Post st1 ls1 st2 ls2 i1 l1)
    (hR1 : R st1 ls1) (hsc : st1.scopes = st.scopes) (hfid : fidsOf ls1.env = fidsOf ls.env)
    (hfr : freesOf st1.tab = freesOf st.tab) (hden : den (fidsOf ls.env) (freesOf st.tab) sym = some b)
    (htl : ls1.env.tail = ls.env.tail) :
    Post st ls st2 ls2 (i1 ++ [.defn sym]) (l1 ++ [.defn b]) := by
  have h0 : Post st ls st1 ls1 [] [] := ⟨hR1, hsc, hfid, by rw [hfr]; exact Ext.refl _, .nil, htl⟩
  have hd : den (fidsOf ls2.env) (freesOf st2.tab) sym = some b := by
    rw [h1.fids, hfid]
    exact den_mono (by rw [← hfr]; exact h1.ext) hden
  have h2 : Post st2 ls2 st2 ls2 [.defn sym] [.defn b] := ⟨h1.r, rfl, rfl, Ext.refl _, .defn hd .nil, rfl⟩
  simpa using (h0.seq h1).seq h2

theorem loop_finish {st : St} {ls : LSt} {st1 : St} {ls1 : LSt} {st2 : St} {ls2 : LSt} {i l} {sc : Resolver.Scope} {scs}
    {label : Option String}
    (h2 : Post st1 ls1 st2 ls2 i l) (hs : st.scopes = sc :: scs)
    (hs1 : st1.scopes = { sc with loops := label :: sc.loops } :: scs) (ht : st1.tab = st.tab)
    (hf : fidsOf ls1.env = fidsOf ls.env) (htl : ls1.env.tail = ls.env.tail) :
    Post st ls (st2.updScope fun s => { s with loops := s.loops.tail })
      (ls2.upd fun fr => { fr with loops := fr.loops.tail }) i l := by
  obtain ⟨tab2, scopes2, nconsts2, hasEnd2⟩ := st2
  obtain ⟨env2, nextFid2, lhasEnd2⟩ := ls2
  have hsc2 : scopes2 = { sc with loops := label :: sc.loops } :: scs := h2.scopes.trans hs1
  subst hsc2
  have hc2 := h2.r.chain
  cases hc2 with
  | @cons l2 rest2 _ _ fr2 frs2 hl2 hrest2 =>
  have hl := loops_sim (.cons hl2 hrest2) List.tail
  refine ⟨⟨?_, h2.r.hasEnd, by simp [St.updScope]⟩, ?_, ?_, ?_, ?_, ?_⟩
  rotate_right
  · have := h2.tail; rw [htl] at this
    simpa [LSt.upd, updFrame] using this
  · simpa [St.updScope, LSt.upd, updFrame] using hl
  · simp [St.updScope, hs]
  · have := h2.fids; rw [hf] at this
    simpa [LSt.upd, updFrame, fidsOf] using this
  · have := h2.ext; rw [ht] at this
    simpa [St.updScope] using this
  · have := h2.rel
    simpa [St.updScope, LSt.upd, updFrame, fidsOf] using this

theorem Corr.unc_left {P e} {m' : Lex.M (LSt × List LItem)} (h : unconstrained e = true) : Corr P (.error e) m' := by
  cases m' with
  | error e' => exact .inl h
  | ok _ => exact h

theorem Corr.unc_right {P e'} {m : Resolver.M (St × List Item)} (h : unconstrained e' = true) : Corr P m (.error e') := by
  cases m with
  | error e => exact .inr (.inl h)
  | ok _ => exact h

/-- the end of a filter statement that captured nothing -/
theorem filter_finish {st : St} {ls : LSt} {st1 : St} {ls1 : LSt} {st3 : St} {ls3 : LSt} {items litems} {fid : Nat}
    (isEnd : Bool) (h : Post st1 ls1 st3 ls3 items litems)
    (hR : R st ls) (hsc : st1.scopes = { isFilter := true } :: st.scopes)
    (hfree0 : freesOf st1.tab = [] :: freesOf st.tab) (hfids : fidsOf ls1.env = fid :: fidsOf ls.env)
    (htl : ls1.env.tail = ls.env) (hempty : (Table.free st3.tab).isEmpty = true) :
    Post st ls { st3.leave with hasEnd := st3.leave.hasEnd || isEnd }
      { ({ ls3 with env := ls3.env.tail } : LSt) with hasEnd := ls3.hasEnd || isEnd }
      [.filter isEnd items] [.filter fid isEnd litems] := by
  obtain ⟨tab3, scopes3, nconsts3, hasEnd3⟩ := st3
  obtain ⟨env3, nextFid3, lhasEnd3⟩ := ls3
  have hs3 : scopes3 = { isFilter := true } :: st.scopes := h.scopes.trans hsc
  subst hs3
  have hc3 := h.r.chain
  cases hc3 with
  | @cons l3 rest3 _ _ fr3 frs3 hl3 hrest3 =>
  have hf := h.fids
  rw [hfids] at hf
  simp only [fidsOf, List.map_cons, List.cons.injEq] at hf
  have hext := h.ext
  rw [hfree0] at hext
  have hne : rest3 ≠ [] := by
    intro h0
    have h1 := (chain_length hrest3).2
    have h2 := (chain_length hrest3).1
    have h3 := (chain_length hR.chain)
    rw [h0] at h1
    have : st.tab.length = 0 := by rw [h3.2, ← h3.1, h2, ← h1]; rfl
    exact hR.ne (List.eq_nil_of_length_eq_zero this)
  have hl3free : l3.free = [] := by
    have : l3.free.isEmpty = true := hempty
    exact List.isEmpty_iff.mp this
  have hend : hasEnd3 = lhasEnd3 := h.r.hasEnd
  have htail : frs3 = ls.env := by have := h.tail; rw [htl] at this; exact this
  refine ⟨⟨hrest3, by simp [St.leave, hend], hne⟩, rfl, hf.2, hext.2, ?_, by show frs3.tail = ls.env.tail; rw [htail]⟩
  refine .filter ?_ .nil
  have := h.rel
  simp only [fidsOf, freesOf, List.map_cons] at this
  rw [hf.1, hl3free] at this
  exact this

theorem filter_tail {st : St} {ls : LSt} {st1 : St} {ls1 : LSt} {st3 : St} {ls3 : LSt} {items litems} {fid : Nat}
    (isEnd : Bool) (fl : Nat) (h : Post st1 ls1 st3 ls3 items litems)
    (hR : R st ls) (hsc : st1.scopes = { isFilter := true } :: st.scopes)
    (hfree0 : freesOf st1.tab = [] :: freesOf st.tab) (hfids : fidsOf ls1.env = fid :: fidsOf ls.env)
    (htl : ls1.env.tail = ls.env) (hempty : (Table.free st3.tab).isEmpty = true) :
    Corr (Post st ls)
      (if (isEnd && st3.leave.hasEnd) = true then Except.error (Err.other fl)
       else pure ({ st3.leave with hasEnd := st3.leave.hasEnd || isEnd }, [Item.filter isEnd items]))
      (if (isEnd && ls3.hasEnd) = true then Except.error (Err.other fl)
       else pure ({ ({ ls3 with env := ls3.env.tail } : LSt) with hasEnd := ls3.hasEnd || isEnd },
          [LItem.filter fid isEnd litems])) := by
  have hend : st3.leave.hasEnd = ls3.hasEnd := h.r.hasEnd
  rw [hend]
  by_cases hdup : (isEnd && ls3.hasEnd) = true
  · simp only [hdup, if_true]; exact Corr.err _
  · simp only [hdup, Bool.false_eq_true, if_false]
    have := filter_finish isEnd h hR hsc hfree0 hfids htl hempty
    rw [hend] at this
    exact this

theorem stmt_ok {fuel} (ih : Good fuel) (st : St) (ls : LSt) (s : Stmt) (hR : R st ls) (hB : Bnd st (fuel + 1)) :
    Corr (Post st ls) (walkStmt (fuel + 1) st s) (lexStmt (fuel + 1) ls s) := by
  obtain ⟨tab, scopes, nconsts, hasEnd⟩ := st
  obtain ⟨env, nextFid, lhasEnd⟩ := ls
  have hc := hR.chain
  cases hc with
  | nil => exact absurd rfl hR.ne
  | @cons l rest sc scs fr frs hl hrest =>
  have hcc : Chain (l :: rest) (sc :: scs) (fr :: frs) := .cons hl hrest
  cases s with
  | exprS _ e => simp only [walkStmt, lexStmt]; exact ih.e _ _ e hR hB.weaken
  | block b => simp only [walkStmt, lexStmt]; exact ih.block _ _ b hR hB.weaken
  | invalid => simp only [walkStmt, lexStmt]; exact Corr.err _
  | letS _ _ name e =>
    simp only [walkStmt, lexStmt, St.depth, List.headD]
    have hdef := define_sim hcc name
    rw [define_cons, lexDefine_cons] at hdef ⊢
    dsimp only at hdef ⊢
    obtain ⟨hc1, hfr1, hfid1, hden⟩ := hdef
    refine Corr.bind (ih.e _ _ e ⟨hc1, hR.hasEnd, by simp⟩ hB.weaken) fun st2 i1 ls2 l1 h1 => ?_
    exact def_finish h1 ⟨hc1, hR.hasEnd, by simp⟩ rfl hfid1 hfr1 hden rfl
  | fnS _ _ name params body =>
    simp only [walkStmt, lexStmt, St.depth, List.headD]
    have hdef := define_sim hcc name
    rw [define_cons, lexDefine_cons] at hdef ⊢
    dsimp only at hdef ⊢
    obtain ⟨hc1, hfr1, hfid1, hden⟩ := hdef
    refine Corr.bind (ih.fn _ _ name params body ⟨hc1, hR.hasEnd, by simp⟩ hB.weaken) fun st2 i1 ls2 l1 h1 => ?_
    exact def_finish h1 ⟨hc1, hR.hasEnd, by simp⟩ rfl hfid1 hfr1 hden rfl
  | ret l e =>
    simp only [walkStmt, lexStmt, curFrame, List.headD]
    have hlen : (sc :: scs).length = (fr :: frs).length := (chain_length hcc).1
    simp only [hlen, hl.hfilter]
    by_cases hcond : (decide ((fr :: frs).length ≤ 1) || fr.isFilter) = true
    · simp only [hcond, if_true]; exact Corr.err _
    · simp only [hcond, Bool.false_eq_true, if_false]
      cases e with
      | none => exact Post.refl hR
      | some e => exact ih.e _ _ e hR hB.weaken
  | breakS l label =>
    simp only [walkStmt, lexStmt, curFrame, List.headD, hl.hloops]
    cases jumpFault fr.loops l label with
    | none => exact Post.refl hR
    | some e => exact Corr.err _
  | continueS l label =>
    simp only [walkStmt, lexStmt, curFrame, List.headD, hl.hloops]
    cases jumpFault fr.loops l label with
    | none => exact Post.refl hR
    | some e => exact Corr.err _
  | loop _ label b =>
    simp only [walkStmt, lexStmt]
    have hR1 : R ⟨l :: rest, { sc with loops := label :: sc.loops } :: scs, nconsts, hasEnd⟩
        ⟨{ fr with loops := label :: fr.loops } :: frs, nextFid, lhasEnd⟩ :=
      ⟨loops_sim hcc (label :: ·), hR.hasEnd, by simp⟩
    have hB1 : Bnd ⟨l :: rest, { sc with loops := label :: sc.loops } :: scs, nconsts, hasEnd⟩ fuel := by
      refine ⟨hB.weaken.1, ?_⟩
      intro s hs
      simp only [List.mem_cons] at hs
      rcases hs with hs | hs
      · subst hs; exact hB.weaken.2 sc (by simp)
      · exact hB.weaken.2 s (by simp [hs])
    refine Corr.bind (ih.block _ _ b hR1 hB1) fun st2 i2 ls2 l2 h2 => ?_
    exact loop_finish h2 rfl rfl rfl rfl rfl
  | whileS _ label c b =>
    simp only [walkStmt, lexStmt]
    have hR1 : R ⟨l :: rest, { sc with loops := label :: sc.loops } :: scs, nconsts, hasEnd⟩
        ⟨{ fr with loops := label :: fr.loops } :: frs, nextFid, lhasEnd⟩ :=
      ⟨loops_sim hcc (label :: ·), hR.hasEnd, by simp⟩
    have hB1 : Bnd ⟨l :: rest, { sc with loops := label :: sc.loops } :: scs, nconsts, hasEnd⟩ fuel := by
      refine ⟨hB.weaken.1, ?_⟩
      intro s hs
      simp only [List.mem_cons] at hs
      rcases hs with hs | hs
      · subst hs; exact hB.weaken.2 sc (by simp)
      · exact hB.weaken.2 s (by simp [hs])
    refine Corr.bind (ih.e _ _ c hR1 hB1) fun st1 i1 ls1 l1 h1 => ?_
    refine Corr.bind (ih.block _ _ b h1.r (hB1.of_scopes h1.scopes)) fun st2 i2 ls2 l2 h2 => ?_
    exact loop_finish (h1.seq h2) rfl rfl rfl rfl rfl
  | filter fl pat action =>
    simp only [walkStmt, lexStmt]
    have hc0 := enter_sim hcc nextFid true
    have hR1 : R (St.enter ⟨l :: rest, sc :: scs, nconsts, hasEnd⟩ true)
        ⟨{ fid := nextFid, isFilter := true, scopes := [[]] } :: fr :: frs, nextFid + 1, lhasEnd⟩ :=
      ⟨hc0, hR.hasEnd, by simp [St.enter, Table.enclosed]⟩
    have hB1 : Bnd (St.enter ⟨l :: rest, sc :: scs, nconsts, hasEnd⟩ true) fuel := by
      refine ⟨hB.weaken.1, ?_⟩
      intro s hs
      simp only [St.enter, List.mem_cons] at hs
      rcases hs with hs | hs | hs
      · subst hs; have := hB.weaken.1; simpa using this
      · subst hs; exact hB.weaken.2 s (by simp)
      · exact hB.weaken.2 s (by simp [hs])
    have hpat : Corr (Post (St.enter ⟨l :: rest, sc :: scs, nconsts, hasEnd⟩ true)
          ⟨{ fid := nextFid, isFilter := true, scopes := [[]] } :: fr :: frs, nextFid + 1, lhasEnd⟩)
        (match pat with
          | .expr e => walkE fuel (St.enter ⟨l :: rest, sc :: scs, nconsts, hasEnd⟩ true) e
          | _ => .ok (St.enter ⟨l :: rest, sc :: scs, nconsts, hasEnd⟩ true, []))
        (match pat with
          | .expr e => lexE fuel ⟨{ fid := nextFid, isFilter := true, scopes := [[]] } :: fr :: frs, nextFid + 1, lhasEnd⟩ e
          | _ => .ok (⟨{ fid := nextFid, isFilter := true, scopes := [[]] } :: fr :: frs, nextFid + 1, lhasEnd⟩, [])) := by
      cases pat with
      | expr e => exact ih.e _ _ e hR1 hB1
      | none => exact Post.refl hR1
      | fend => exact Post.refl hR1
    refine Corr.bind hpat fun st2 i2 ls2 l2 h2 => ?_
    have hact : Corr (Post st2 ls2)
        (match action with
          | some b => walkBlock fuel st2 b
          | none => .ok (st2, []))
        (match action with
          | some b => lexBlock fuel ls2 b
          | none => .ok (ls2, [])) := by
      cases action with
      | some b => exact ih.block _ _ b h2.r (hB1.of_scopes h2.scopes)
      | none => exact Post.refl h2.r
    refine Corr.bind hact fun st3 i3 ls3 l3 h3 => ?_
    dsimp only
    by_cases hfree : (Table.free st3.tab).isEmpty = true
    · simp only [hfree, Bool.not_true, Bool.false_eq_true, if_false]
      by_cases huse : usesOuter nextFid (l2 ++ l3) = true
      · simp only [huse, if_true]
        exact Corr.unc_right rfl
      · simp only [huse, Bool.false_eq_true, if_false]
        have h23 := h2.seq h3
        cases pat <;> exact filter_tail _ fl h23 hR rfl rfl rfl rfl hfree
    · simp only [hfree, Bool.not_false, if_true]
      exact Corr.unc_left rfl


theorem Post.addConst {st ls} (h : R st ls) : Post st ls st.addConst ls [] [] :=
  ⟨⟨h.chain, h.hasEnd, h.ne⟩, rfl, rfl, Ext.refl _, .nil, rfl⟩

theorem Bnd.tail {st fuel} (h : Bnd st fuel) : ∀ sc ∈ st.scopes.tail, sc.depth ≤ maxDepth := by
  intro sc hs
  have := h.2 sc (List.mem_of_mem_tail hs)
  omega

theorem e_ok {fuel} (ih : Good fuel) (st : St) (ls : LSt) (e : Expr) (hR : R st ls) (hB : Bnd st (fuel + 1)) :
    Corr (Post st ls) (walkE (fuel + 1) st e) (lexE (fuel + 1) ls e) := by
  have hBw := hB.weaken
  cases e with
  | null _ => simp only [walkE, lexE]; exact Post.refl hR
  | bool _ _ => simp only [walkE, lexE]; exact Post.refl hR
  | prop _ _ _ => simp only [walkE, lexE]; exact Post.refl hR
  | invalid => simp only [walkE, lexE]; exact Post.refl hR
  | score l => simp only [walkE, lexE]; exact Corr.err _
  | range l _ _ _ => simp only [walkE, lexE]; exact Corr.err _
  | bid _ _ => simp only [walkE, lexE]; exact Post.addConst hR
  | int _ _ => simp only [walkE, lexE]; exact Post.addConst hR
  | float _ _ => simp only [walkE, lexE]; exact Post.addConst hR
  | str _ _ => simp only [walkE, lexE]; exact Post.addConst hR
  | char _ _ => simp only [walkE, lexE]; exact Post.addConst hR
  | byte _ _ => simp only [walkE, lexE]; exact Post.addConst hR
  | ident l name acc => simp only [walkE, lexE]; exact ident_ok hR hB.tail l name acc
  | arr _ es => simp only [walkE, lexE]; exact ih.es _ _ es hR hBw
  | map _ kvs => simp only [walkE, lexE]; exact ih.kvs _ _ kvs hR hBw
  | fn _ name params body => simp only [walkE, lexE]; exact ih.fn _ _ name params body hR hBw
  | unary l op a =>
    simp only [walkE, lexE]
    refine Corr.bind (ih.e _ _ a hR hBw) fun st1 i1 ls1 l1 h1 => ?_
    dsimp only
    by_cases h : unaryOps.contains op = true
    · simp only [h, if_true]; exact h1
    · simp only [h, Bool.false_eq_true, if_false]; exact Corr.err _
  | binary l op a b =>
    simp only [walkE, lexE]
    by_cases h1c : (op == "&&" || op == "||") = true
    · simp only [h1c, if_true]
      refine Corr.bind (ih.e _ _ a hR hBw) fun st1 i1 ls1 l1 h1 => ?_
      refine Corr.bind (ih.e _ _ b h1.r (hBw.of_scopes h1.scopes)) fun st2 i2 ls2 l2 h2 => ?_
      exact h1.seq h2
    · simp only [h1c, Bool.false_eq_true, if_false]
      by_cases h2c : (op == "<" || op == "<=") = true
      · simp only [h2c, if_true]
        refine Corr.bind (ih.e _ _ b hR hBw) fun st1 i1 ls1 l1 h1 => ?_
        refine Corr.bind (ih.e _ _ a h1.r (hBw.of_scopes h1.scopes)) fun st2 i2 ls2 l2 h2 => ?_
        exact h1.seq h2
      · simp only [h2c, Bool.false_eq_true, if_false]
        refine Corr.bind (ih.e _ _ a hR hBw) fun st1 i1 ls1 l1 h1 => ?_
        refine Corr.bind (ih.e _ _ b h1.r (hBw.of_scopes h1.scopes)) fun st2 i2 ls2 l2 h2 => ?_
        dsimp only
        by_cases h : binaryOps.contains op = true
        · simp only [h, if_true]; exact h1.seq h2
        · simp only [h, Bool.false_eq_true, if_false]; exact Corr.err _
  | index _ a i _ =>
    simp only [walkE, lexE]
    refine Corr.bind (ih.e _ _ a hR hBw) fun st1 i1 ls1 l1 h1 => ?_
    refine Corr.bind (ih.e _ _ i h1.r (hBw.of_scopes h1.scopes)) fun st2 i2 ls2 l2 h2 => ?_
    exact h1.seq h2
  | dot _ a p _ =>
    simp only [walkE, lexE]
    refine Corr.bind (ih.e _ _ a hR hBw) fun st1 i1 ls1 l1 h1 => ?_
    refine Corr.bind (ih.e _ _ p h1.r (hBw.of_scopes h1.scopes)) fun st2 i2 ls2 l2 h2 => ?_
    exact h1.seq h2
  | call _ f args =>
    simp only [walkE, lexE]
    refine Corr.bind (ih.e _ _ f hR hBw) fun st1 i1 ls1 l1 h1 => ?_
    refine Corr.bind (ih.es _ _ args h1.r (hBw.of_scopes h1.scopes)) fun st2 i2 ls2 l2 h2 => ?_
    exact h1.seq h2
  | assign l lhs rhs =>
    simp only [walkE, lexE]
    by_cases h : (!assignable lhs) = true
    · simp only [h, if_true]; exact Corr.err _
    · simp only [h, Bool.false_eq_true, if_false]
      refine Corr.bind (ih.e _ _ rhs hR hBw) fun st1 i1 ls1 l1 h1 => ?_
      refine Corr.bind (ih.e _ _ lhs h1.r (hBw.of_scopes h1.scopes)) fun st2 i2 ls2 l2 h2 => ?_
      exact h1.seq h2
  | matchE _ scrut arms =>
    simp only [walkE, lexE]
    refine Corr.bind (ih.e _ _ scrut hR hBw) fun st1 i1 ls1 l1 h1 => ?_
    dsimp only
    cases firstPat arms with
    | none => exact Corr.err _
    | some p =>
      refine Corr.bind (ih.arms _ _ (patKind p) arms h1.r (hBw.of_scopes h1.scopes)) fun st2 i2 ls2 l2 h2 => ?_
      exact h1.seq h2
  | ifE l c t els =>
    simp only [walkE, lexE]
    refine Corr.bind (ih.e _ _ c hR hBw) fun st1 i1 ls1 l1 h1 => ?_
    refine Corr.bind (ih.block _ _ t h1.r (hBw.of_scopes h1.scopes)) fun st2 i2 ls2 l2 h2 => ?_
    have hB2 : Bnd st2 fuel := (hBw.of_scopes h1.scopes).of_scopes h2.scopes
    cases els with
    | none => exact h1.seq h2
    | els b =>
      refine Corr.bind (ih.block _ _ b h2.r hB2) fun st3 i3 ls3 l3 h3 => ?_
      exact (h1.seq h2).seq h3
    | elif e' =>
      cases e' with
      | ifE l2 c2 t2 e2 =>
        refine Corr.bind (ih.e _ _ (.ifE l2 c2 t2 e2) h2.r hB2) fun st3 i3 ls3 l3 h3 => ?_
        exact (h1.seq h2).seq h3
      | _ => exact Corr.err _

theorem es_ok {fuel} (ih : Good fuel) (st : St) (ls : LSt) (es : List Expr) (hR : R st ls) (hB : Bnd st (fuel + 1)) :
    Corr (Post st ls) (walkEs (fuel + 1) st es) (lexEs (fuel + 1) ls es) := by
  cases es with
  | nil => simp only [walkEs, lexEs]; exact Post.refl hR
  | cons e es =>
    simp only [walkEs, lexEs]
    refine Corr.bind (ih.e _ _ e hR hB.weaken) fun st1 i1 ls1 l1 h1 => ?_
    refine Corr.bind (ih.es _ _ es h1.r (hB.weaken.of_scopes h1.scopes)) fun st2 i2 ls2 l2 h2 => ?_
    exact h1.seq h2

theorem kvs_ok {fuel} (ih : Good fuel) (st : St) (ls : LSt) (kvs : List (Expr × Expr)) (hR : R st ls)
    (hB : Bnd st (fuel + 1)) : Corr (Post st ls) (walkKVs (fuel + 1) st kvs) (lexKVs (fuel + 1) ls kvs) := by
  cases kvs with
  | nil => simp only [walkKVs, lexKVs]; exact Post.refl hR
  | cons kv rest =>
    obtain ⟨k, v⟩ := kv
    simp only [walkKVs, lexKVs]
    refine Corr.bind (ih.e _ _ k hR hB.weaken) fun st1 i1 ls1 l1 h1 => ?_
    refine Corr.bind (ih.e _ _ v h1.r (hB.weaken.of_scopes h1.scopes)) fun st2 i2 ls2 l2 h2 => ?_
    refine Corr.bind (ih.kvs _ _ rest h2.r ((hB.weaken.of_scopes h1.scopes).of_scopes h2.scopes))
      fun st3 i3 ls3 l3 h3 => ?_
    exact (h1.seq h2).seq h3

theorem stmts_ok {fuel} (ih : Good fuel) (st : St) (ls : LSt) (ss : List Stmt) (hR : R st ls) (hB : Bnd st (fuel + 1)) :
    Corr (Post st ls) (walkStmts (fuel + 1) st ss) (lexStmts (fuel + 1) ls ss) := by
  cases ss with
  | nil => simp only [walkStmts, lexStmts]; exact Post.refl hR
  | cons s ss =>
    simp only [walkStmts, lexStmts]
    refine Corr.bind (ih.stmt _ _ s hR hB.weaken) fun st1 i1 ls1 l1 h1 => ?_
    refine Corr.bind (ih.stmts _ _ ss h1.r (hB.weaken.of_scopes h1.scopes)) fun st2 i2 ls2 l2 h2 => ?_
    exact h1.seq h2

theorem arms_ok {fuel} (ih : Good fuel) (st : St) (ls : LSt) (first : Option PK) (arms : List Arm) (hR : R st ls)
    (hB : Bnd st (fuel + 1)) :
    Corr (Post st ls) (walkArms (fuel + 1) st first arms) (lexArms (fuel + 1) ls first arms) := by
  cases arms with
  | nil => simp only [walkArms, lexArms]; exact Post.refl hR
  | cons arm rest =>
    obtain ⟨l, pats, body⟩ := arm
    simp only [walkArms, lexArms]
    cases walkPats first l pats 0 with
    | error e => exact Corr.err _
    | ok k =>
      refine Corr.bind (ih.block { st with nconsts := st.nconsts + k } ls body (hR.nconsts _) hB.weaken)
        fun st1 i1 ls1 l1 h1 => ?_
      refine Corr.bind (ih.arms _ _ first rest h1.r (hB.weaken.of_scopes h1.scopes)) fun st2 i2 ls2 l2 h2 => ?_
      exact Post.rebase (st0 := { st with nconsts := st.nconsts + k }) rfl rfl (h1.seq h2)

theorem good : ∀ fuel, Good fuel
  | 0 => good_zero
  | fuel + 1 =>
    have ih := good fuel
    ⟨e_ok ih, es_ok ih, kvs_ok ih, arms_ok ih, fn_ok ih, block_ok ih, stmts_ok ih, stmt_ok ih⟩


/-! ## the initial state: the builtins -/

def bdefs : List (String × Symbol) :=
  (builtinFnSyms.map fun p => (p.2, (⟨p.2, .builtinFn, p.1, 0⟩ : Symbol))) ++
  (builtinVarSyms.map fun p => (p.2, (⟨p.2, .builtinVar, p.1, 0⟩ : Symbol)))

def bOf (s : Symbol) : Binding := if s.scope = .builtinFn then .builtinFn s.index else .builtinVar s.index

theorem initTable_eq : initTable = [{ store := bdefs.map (fun p => (p.1, [p.2])), numDefs := 0, free := [] }] := by rfl
theorem builtinScope_eq : builtinScope.reverse = bdefs.map (fun p => (p.1, bOf p.2)) := by decide
theorem bdefs_nodup : (bdefs.map (·.1)).Nodup := by decide
theorem bdefs_ok : ∀ p ∈ bdefs, p.2.name = p.1 ∧ (p.2.scope = .builtinFn ∨ p.2.scope = .builtinVar) ∧ p.2.depth = 0 := by
  decide

theorem toB_builtin (s : Symbol) (h : s.scope = .builtinFn ∨ s.scope = .builtinVar) (hd : s.depth = 0) :
    toB 0 s = some (0, bOf s) := by
  rcases h with h | h <;> simp [toB, symBinding, bOf, h, hd]

theorem builtin_store (x : String) : ∀ ds : List (String × Symbol), (ds.map (·.1)).Nodup →
    (∀ p ∈ ds, p.2.name = p.1 ∧ (p.2.scope = .builtinFn ∨ p.2.scope = .builtinVar) ∧ p.2.depth = 0) →
    StoreRel 0 [] [(ds.map (fun p => (p.1, bOf p.2))).reverse] x (lookupStore x (ds.map (fun p => (p.1, [p.2]))))
  | [], _, _ => by simp [StoreRel, lookupStore, bindingsOf]
  | (n, s) :: rest, hnd, hok => by
    simp only [List.map_cons, List.nodup_cons] at hnd
    have ih := builtin_store x rest hnd.2 (fun p hp => hok p (List.mem_cons_of_mem _ hp))
    have hs := hok (n, s) List.mem_cons_self
    by_cases hn : n = x
    · subst hn
      have hnone : lookupStore n (rest.map (fun p => (p.1, [p.2]))) = none := by
        apply lookupStore_none_of_not_mem
        simpa [List.map_map] using hnd.1
      rw [hnone] at ih
      simp only [StoreRel, bindingsOf, List.reverse_reverse, List.length_nil, List.nil_append] at ih
      simp only [List.map_cons, lookupStore, beq_self_eq_true, if_true, StoreRel, bindingsOf, List.reverse_reverse,
        List.length_nil, List.nil_append, List.filter_cons]
      refine ⟨[], [s], rfl, by simp, ?_, by simpa using hs.1, .inl rfl⟩
      have hfil : List.filter (fun p => p.1 == n) (List.map (fun p => (p.1, bOf p.2)) rest) = [] := by
        cases hf : List.filter (fun p => p.1 == n) (List.map (fun p => (p.1, bOf p.2)) rest) with
        | nil => rfl
        | cons a t => rw [hf] at ih; simp at ih
      simp [hfil, toB_builtin s hs.2.1 hs.2.2]
    · have hb : (n == x) = false := by simpa using hn
      simp only [List.map_cons, lookupStore, hb, Bool.false_eq_true, if_false]
      refine ih.congr ?_
      simp [bindingsOf, List.filter_cons, hb]

theorem init_chain : Chain initTable [{}] [{ fid := 0, scopes := [builtinScope] }] := by
  rw [initTable_eq]
  refine .cons ⟨rfl, rfl, rfl, rfl, ?_, ?_, ?_⟩ .nil
  · have : List.map Prod.fst (List.map (fun p => (p.1, [p.2])) bdefs) = bdefs.map (·.1) := by
      rw [List.map_map]; rfl
    rw [this]; exact bdefs_nodup
  · intro x
    have := builtin_store x bdefs bdefs_nodup bdefs_ok
    rw [← builtinScope_eq, List.reverse_reverse] at this
    exact this
  · intro i s0 hi; simp at hi

theorem init_R : R St.init LSt.init :=
  ⟨init_chain, rfl, by show initTable ≠ []; rw [initTable_eq]; simp⟩

/-! ## the theorems -/

/-- the top-level table captures nothing -/
theorem top_free_nil {l sc fr} (h : Chain [l] [sc] [fr]) : l.free = [] := by
  cases h with
  | cons hl _ =>
  cases hf : l.free with
  | nil => rfl
  | cons a t =>
    obtain ⟨b, h1, _⟩ := hl.hfree 0 a (by rw [hf]; rfl)
    simp [fidsOf, den] at h1

/-- **`resolve_agrees`** — the compiler's way of using the symbol table implements lexical scoping.
For every program (and every fuel the block depth counter of `resolve` can hold): either both
walks succeed, and then what the compiler emits for every identifier occurrence, every `let` /
function statement and every function literal, in compilation order, *denotes* (`Rel`, `den`)
the definition site the lexical reference answers for it:

* `global i` ⇔ the binding is the i-th top-level (or top-level-block) definition,
* `local i` ⇔ it is the i-th definition (parameter / `let` / fn statement) of the current function,
* `currClosure` ⇔ it is the current function's own name,
* `builtinFn i` / `builtinVar i` ⇔ it is that builtin,
* `free i` ⇔ it is a binding of an enclosing function, and the i-th captured symbol of this
  function's `Closure` (the operand loaded in the enclosing function) denotes that same binding,

and every captured symbol of every `Closure` denotes a binding of a function around it;
or both stop with the same error — `undefined` at the same line exactly when the lexical
reference finds no visible binding.  The statement is silent (`unconstrained`) only when one of
the two stops at an assignment to a name that is not a variable or at a filter that reaches for
the variables of a function around it. -/
theorem resolve_agrees (p : Program) (fuel : Nat) (hf : fuel ≤ maxDepth) :
    match Resolver.run p fuel, Lex.run p fuel with
    | .ok items, .ok litems => Rel [0] [[]] items litems
    | .error e, .error e' => unconstrained e = true ∨ unconstrained e' = true ∨ e = e'
    | .error e, .ok _ => unconstrained e = true
    | .ok _, .error e' => unconstrained e' = true := by
  have hB : Bnd St.init fuel := ⟨hf, by intro sc hs; simp [St.init] at hs; subst hs; simpa using hf⟩
  have h := (good fuel).stmts St.init LSt.init p.stmts init_R hB
  unfold Resolver.run Lex.run
  cases hm : walkStmts fuel St.init p.stmts with
  | error e =>
    cases hl : lexStmts fuel LSt.init p.stmts with
    | error e' => rw [hm, hl] at h; exact h
    | ok b => rw [hm, hl] at h; exact h
  | ok a =>
    cases hl : lexStmts fuel LSt.init p.stmts with
    | error e' => rw [hm, hl] at h; exact h
    | ok b =>
      rw [hm, hl] at h
      obtain ⟨st', items⟩ := a
      obtain ⟨ls', litems⟩ := b
      have hp : Post St.init LSt.init st' ls' items litems := h
      simp only
      obtain ⟨tab', scopes', nconsts', hasEnd'⟩ := st'
      obtain ⟨env', nextFid', lhasEnd'⟩ := ls'
      have hsc : scopes' = [{}] := hp.scopes
      subst hsc
      have hc := hp.r.chain
      cases hc with
      | @cons l' rest' _ _ fr' frs' hl' hrest' =>
      cases hrest' with
      | nil =>
      have hfree := top_free_nil (.cons hl' .nil)
      have hfid : fr'.fid = 0 := by
        have := hp.fids
        simpa [fidsOf, LSt.init] using this
      have hrel := hp.rel
      simpa [fidsOf, freesOf, hfree, hfid] using hrel

/-- a name with no visible binding is a compile error, at the line of the name -/
theorem undefined_iff_unbound (p : Program) (fuel : Nat) (hf : fuel ≤ maxDepth) (l : Nat)
    (hm : ∀ e, Resolver.run p fuel = .error e → unconstrained e = false)
    (hl : ∀ e, Lex.run p fuel = .error e → unconstrained e = false) :
    Resolver.run p fuel = .error (.undefined l) ↔ Lex.run p fuel = .error (.undefined l) := by
  have h := resolve_agrees p fuel hf
  cases hr : Resolver.run p fuel with
  | error e =>
    cases hx : Lex.run p fuel with
    | error e' =>
      rw [hr, hx] at h
      have h1 := hm e hr
      have h2 := hl e' hx
      rcases h with h | h | h
      · rw [h1] at h; cases h
      · rw [h2] at h; cases h
      · subst h; simp
    | ok b =>
      rw [hr, hx] at h
      have h1 := hm e hr
      simp only at h
      rw [h1] at h; cases h
  | ok a =>
    cases hx : Lex.run p fuel with
    | error e' =>
      rw [hr, hx] at h
      have h2 := hl e' hx
      simp only at h
      rw [h2] at h; cases h
    | ok b => simp

/-- the compile-time half of "a closure captures the visible locals and parameters of the
functions enclosing it": every operand loaded before `Closure` denotes a binding (a local, a
parameter or the own name) of a function instance around the literal; with `Rel.use` for
`free i`, each use of a captured variable inside the function denotes what the i-th operand denotes -/
theorem closure_captures_enclosing {fids frs c frees body fid lbody is ls}
    (h : Rel fids frs (.closure c frees body :: is) (.mkfn fid lbody :: ls)) :
    (∀ s ∈ frees, ∃ b o, den fids frs s = some b ∧ b.owner? = some o ∧ o ∈ fids) ∧
    Rel (fid :: fids) (frees :: frs) body lbody := by
  cases h with
  | closure hb hc _ => exact ⟨hc, hb⟩

/-- `free i` inside a function denotes what the i-th captured operand denotes in the enclosing function -/
theorem free_is_captured (fid : Nat) (fids : List Nat) (frees : List Symbol) (frs : List (List Symbol)) (s s' : Symbol)
    (hs : s.scope = .free) (hi : frees[s.index]? = some s') :
    den (fid :: fids) (frees :: frs) s = den fids frs s' := by
  simp [den, hs, hi]


/-- the captured symbols at the end of a function literal, read in the environment in which the
literal is written -/
theorem fn_caps {st : St} {ls : LSt} {st3 : St} {ls1 : LSt} {st4 : St} {ls2 : LSt} {items litems}
    (hsc : st3.scopes = {} :: st.scopes) (htl : ls1.env.tail = ls.env)
    (h : Post st3 ls1 st4 ls2 items litems) :
    ∀ s ∈ Table.free st4.tab, ∃ b, den (fidsOf ls.env) (freesOf st4.leave.tab) s = some b ∧
      lookup s.name ls.env = some b ∧ b.owner?.isSome = true := by
  obtain ⟨tab4, scopes4, nconsts4, hasEnd4⟩ := st4
  obtain ⟨env2, nextFid2, lhasEnd2⟩ := ls2
  have hs4 : scopes4 = {} :: st.scopes := h.scopes.trans hsc
  subst hs4
  have hc4 := h.r.chain
  cases hc4 with
  | @cons l4 rest4 _ _ fr4 frs4 hl4 hrest4 =>
  have htail : frs4 = ls.env := by have := h.tail; rw [htl] at this; exact this
  intro s hs
  obtain ⟨i, hi⟩ := mem_getElem? (show s ∈ l4.free from hs)
  obtain ⟨b, h1, h2, h3⟩ := hl4.hfree i s hi
  rw [htail] at h1 h2
  exact ⟨b, h1, h2, h3⟩

/-- **`closure_captures_visible`** — the compile-time half of "a closure captures, at the moment it
is created, the current values of the visible locals and parameters of the functions enclosing
it": in any state of the walk (`R`: the table mirrors the lexical environment), when the
compiler has compiled a function literal, every symbol it loads before `Closure` (in the function
in which the literal is written) denotes the binding that is lexically VISIBLE under that name at
the point where the literal is written (`Lex.lookup` in the environment of the literal), and that
binding is a local, a parameter or the own name of a function around the literal.  Together with
`resolve_agrees` (`Rel.use` for a `free i` symbol: the use denotes what the i-th of these operands
denotes) the captured variable a use reads is the lexically visible one. -/
theorem closure_captures_visible {fuel : Nat} {st : St} {ls : LSt} {name : String} {params : List String} {body : Block}
    {st' : St} {ls' : LSt} {c : Nat} {frees : List Symbol} {items : List Item} {litems : List LItem}
    (hR : R st ls) (hB : Bnd st (fuel + 1))
    (hw : walkFn (fuel + 1) st name params body = .ok (st', [.closure c frees items]))
    (hl : lexFn (fuel + 1) ls name params body = .ok (ls', litems)) :
    ∀ s ∈ frees, ∃ b, den (fidsOf ls.env) (freesOf st'.tab) s = some b ∧ lookup s.name ls.env = some b ∧
      b.owner?.isSome = true := by
  let P' : St → LSt → List Item → List LItem → Prop := fun st' _ is _ =>
    ∀ c frees items, is = [Item.closure c frees items] →
      ∀ s ∈ frees, ∃ b, den (fidsOf ls.env) (freesOf st'.tab) s = some b ∧ lookup s.name ls.env = some b ∧
        b.owner?.isSome = true
  have key : Corr P' (walkFn (fuel + 1) st name params body) (lexFn (fuel + 1) ls name params body) := by
    have ih := good fuel
    simp only [walkFn, lexFn]
    have hB0 : ∀ sc ∈ ({} : Resolver.Scope) :: st.scopes, sc.depth + fuel ≤ maxDepth := by
      intro sc hs
      simp only [List.mem_cons] at hs
      rcases hs with hs | hs
      · subst hs; have := hB.weaken.1; simpa using this
      · exact hB.weaken.2 sc hs
    by_cases hn : (name == "") = true
    · simp only [hn, if_true]
      have hc0 := enter_sim hR.chain ls.nextFid false
      have hp := defineParams_sim params (st.enter false) _ hc0 (by simp [St.enter, Table.enclosed])
        (by intro sc h; simp [St.enter] at h; subst h; rfl)
      obtain ⟨h1, h2, h3, h4, h5, h6⟩ := hp
      refine Corr.bind (ih.block _ _ body ⟨h1, h5.trans hR.hasEnd, h6⟩ ⟨hB.weaken.1, by rw [h2]; exact hB0⟩)
        fun st4 items ls2 litems h => ?_
      intro c' frees' items' heq
      simp only [pure, Except.pure, List.cons.injEq, Item.closure.injEq, and_true] at heq
      rw [← heq.2.1]
      exact fn_caps h2 (defineParams_tail _ _ _) h
    · simp only [hn, Bool.false_eq_true, if_false]
      have hc0 := fnname_sim hR.chain ls.nextFid name
      have hp := defineParams_sim params { st.enter false with tab := defineFunctionName (st.enter false).tab name } _ hc0
        (by simp [St.enter, Table.enclosed, defineFunctionName, updCur])
        (by intro sc h; simp [St.enter] at h; subst h; rfl)
      obtain ⟨h1, h2, h3, h4, h5, h6⟩ := hp
      refine Corr.bind (ih.block _ _ body ⟨h1, h5.trans hR.hasEnd, h6⟩ ⟨hB.weaken.1, by rw [h2]; exact hB0⟩)
        fun st4 items ls2 litems h => ?_
      intro c' frees' items' heq
      simp only [pure, Except.pure, List.cons.injEq, Item.closure.injEq, and_true] at heq
      rw [← heq.2.1]
      exact fn_caps h2 (defineParams_tail _ _ _) h
  rw [hw, hl] at key
  exact key c frees items rfl

/-! ## non-vacuity -/

section Examples
private def gx (i d : Nat) : Symbol := ⟨"x", .global, i, d⟩

/-- shadowing in nested blocks: `let x = 1; { let x = 2; { let x = 3; x } x } x` — each use sees the
innermost live `x`, and the outer ones come back when the blocks end -/
def exShadow : Program := ⟨[.letS 1 0 "x" (.int 1 1),
  .block (.mk 2 [.letS 2 1 "x" (.int 2 2),
    .block (.mk 3 [.letS 3 2 "x" (.int 3 3), .exprS 3 (.ident 3 "x" .get)]),
    .exprS 4 (.ident 4 "x" .get)]),
  .exprS 5 (.ident 5 "x" .get)]⟩

example : Resolver.run exShadow 30 = .ok [.defn (gx 0 0), .defn (gx 1 1), .defn (gx 2 2),
    .use .get (gx 2 2), .use .get (gx 1 1), .use .get (gx 0 0)] := by rfl
example : Lex.run exShadow 30 = .ok [.defn (.glob 0), .defn (.glob 1), .defn (.glob 2),
    .use .get (.glob 2), .use .get (.glob 1), .use .get (.glob 0)] := by rfl
example : Rel [0] [[]] [.defn (gx 0 0), .defn (gx 1 1), .defn (gx 2 2), .use .get (gx 2 2), .use .get (gx 1 1),
      .use .get (gx 0 0)]
    [.defn (.glob 0), .defn (.glob 1), .defn (.glob 2), .use .get (.glob 2), .use .get (.glob 1), .use .get (.glob 0)] :=
  resolve_agrees exShadow 30 (by decide)

/-- a closure inside a nested block capturing a block-local:
`fn f() { { let y = 1; let k = fn() { y }; } }` -/
def exBlockCapture : Program := ⟨[.fnS 1 0 "f" [] (.mk 1 [.block (.mk 2 [.letS 2 1 "y" (.int 2 1),
  .letS 3 2 "k" (.fn 3 "k" [] (.mk 3 [.exprS 3 (.ident 3 "y" .get)]))])])]⟩

example : Resolver.run exBlockCapture 30 = .ok [
    .closure 2 [] [
      .defn ⟨"y", .local, 0, 2⟩,
      .closure 1 [⟨"y", .local, 0, 2⟩] [.use .get ⟨"y", .free, 0, 2⟩],
      .defn ⟨"k", .local, 1, 2⟩],
    .defn ⟨"f", .global, 0, 0⟩] := by rfl
example : Lex.run exBlockCapture 30 = .ok [
    .mkfn 1 [.defn (.loc 1 0), .mkfn 2 [.use .get (.loc 1 0)], .defn (.loc 1 1)],
    .defn (.glob 0)] := by rfl

/-- … and the block-local is gone after its block: `fn f() { { let y = 1; } y }` is rejected by both -/
def exBlockEnds : Program := ⟨[.fnS 1 0 "f" [] (.mk 1 [.block (.mk 2 [.letS 2 1 "y" (.int 2 1)]),
  .exprS 4 (.ident 4 "y" .get)])]⟩
example : Resolver.run exBlockEnds 30 = .error (.undefined 4) := by rfl
example : Lex.run exBlockEnds 30 = .error (.undefined 4) := by rfl

/-- a function using its own name (and its parameter) from a nested function:
`fn f(n) { fn g() { f(n) } g }` — `f` is captured as `CurrClosure`, `n` as local 0 -/
def exOwnName : Program := ⟨[.fnS 1 0 "f" ["n"] (.mk 1 [
  .fnS 2 1 "g" [] (.mk 2 [.exprS 2 (.call 2 (.ident 2 "f" .get) [.ident 2 "n" .get])]),
  .exprS 3 (.ident 3 "g" .get)])]⟩

example : Resolver.run exOwnName 30 = .ok [
    .closure 1 [] [
      .closure 0 [⟨"f", .function, 0, 0⟩, ⟨"n", .local, 0, 0⟩]
        [.use .get ⟨"f", .free, 0, 0⟩, .use .get ⟨"n", .free, 1, 0⟩],
      .defn ⟨"g", .local, 1, 1⟩,
      .use .get ⟨"g", .local, 1, 1⟩],
    .defn ⟨"f", .global, 0, 0⟩] := by rfl
example : Lex.run exOwnName 30 = .ok [
    .mkfn 1 [.mkfn 2 [.use .get (.self 1), .use .get (.loc 1 0)], .defn (.loc 1 1), .use .get (.loc 1 1)],
    .defn (.glob 0)] := by rfl
/-- the captured operands denote the enclosing function's own name and its parameter -/
example : den [2, 1, 0] [[⟨"f", .function, 0, 0⟩, ⟨"n", .local, 0, 0⟩], [], []] ⟨"f", .free, 0, 0⟩ = some (.self 1) ∧
    den [2, 1, 0] [[⟨"f", .function, 0, 0⟩, ⟨"n", .local, 0, 0⟩], [], []] ⟨"n", .free, 1, 0⟩ = some (.loc 1 0) := by
  decide

/-- sibling blocks reusing a name: `{ let a = 1; a } { let a = 2; a } a` — each block sees its own `a`,
and after both blocks there is none -/
def exSiblings : Program := ⟨[.block (.mk 1 [.letS 1 0 "a" (.int 1 1), .exprS 1 (.ident 1 "a" .get)]),
  .block (.mk 2 [.letS 2 1 "a" (.int 2 2), .exprS 2 (.ident 2 "a" .get)])]⟩
example : Resolver.run exSiblings 30 = .ok [.defn ⟨"a", .global, 0, 1⟩, .use .get ⟨"a", .global, 0, 1⟩,
    .defn ⟨"a", .global, 1, 1⟩, .use .get ⟨"a", .global, 1, 1⟩] := by rfl
example : Lex.run exSiblings 30 = .ok [.defn (.glob 0), .use .get (.glob 0), .defn (.glob 1), .use .get (.glob 1)] := by
  rfl
example : Resolver.run ⟨exSiblings.stmts ++ [.exprS 3 (.ident 3 "a" .get)]⟩ 30 = .error (.undefined 3) := by rfl
example : Lex.run ⟨exSiblings.stmts ++ [.exprS 3 (.ident 3 "a" .get)]⟩ 30 = .error (.undefined 3) := by rfl

end Examples

end P2sh.Props.C04Resolve
