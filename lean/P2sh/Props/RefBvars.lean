import P2sh.Spec.Ref
/-!
# The reference evaluator never changes the builtin variables

`St.bvars` (NP, PL, WL, TSS, TSU as the stream loop of filter mode sets them) is only *read* by
`Spec/Ref.lean`: an identifier that is neither bound nor a builtin function is looked up there;
no construct writes it (assignment to a name that is not bound is `unc`).  This file proves it
for the whole evaluator, whatever the outcome (value, jump, runtime error, `unc`, out of fuel):

* `Pres m` — the monadic action `m` leaves `bvars` as it found it, in every start state;
* `pres_pure`, `pres_throw`, `pres_bind`, `pres_mapM`, `pres_forIn`, … — the walk over a `do` block
  (tactic `pres_all`);
* `all_pres : ∀ fuel, All fuel` — all ten mutually recursive functions, by induction on the fuel;
* `bvars_preserved` (`evalE`), `bvars_preserved_stmts`, `bvars_preserved_block`, `bvars_preserved_stmt`,
  `bvars_preserved_call` — the statement on `run`.

Used by `Props/C20Bytes.lean` (`np_sequence_spec`: filter j on packet i still sees NP = i).
-/
namespace P2sh.Props.RefBvars
open P2sh P2sh.Ref

/-- `m` leaves the builtin variables unchanged, whatever its outcome -/
structure Pres {α} (m : M α) : Prop where
  h : ∀ s : St, (m.run.run s).2.bvars = s.bvars

theorem pres_pure {α} (a : α) : Pres (pure a : M α) := ⟨fun _ => rfl⟩
theorem pres_throw {α} (e : Err) : Pres (throw e : M α) := ⟨fun _ => rfl⟩

theorem run_bind {α β} (m : M α) (f : α → M β) (s : St) :
    (m >>= f).run.run s =
      match m.run.run s with
      | (.ok a, s') => (f a).run.run s'
      | (.error e, s') => (.error e, s') := by
  show (ExceptT.bind m f).run.run s = _
  unfold ExceptT.bind ExceptT.bindCont
  simp only [ExceptT.run, ExceptT.mk, StateT.run, bind, StateT.bind]
  rcases m s with ⟨r | r, s'⟩ <;> rfl

theorem pres_bind {α β} {m : M α} {f : α → M β} (hm : Pres m) (hf : ∀ a, Pres (f a)) : Pres (m >>= f) := by
  constructor
  intro s
  rw [run_bind]
  have := hm.h s
  rcases h : m.run.run s with ⟨r | r, s'⟩
  · rw [h] at this; exact this
  · rw [h] at this; simp only []; rw [(hf r).h s', this]

theorem pres_get : Pres (get : M St) := ⟨fun _ => rfl⟩
theorem pres_modify (g : St → St) (h : ∀ s, (g s).bvars = s.bvars) : Pres (modify g : M Unit) := ⟨fun s => h s⟩

theorem pres_getCell (c : Nat) : Pres (getCell c) := ⟨fun _ => rfl⟩
theorem pres_setCell (c : Nat) (v : Val) : Pres (setCell c v) := ⟨fun _ => rfl⟩
theorem run_reifyM (v : Val) (s : St) :
    (reifyM v).run.run s =
      if expandsWithin s.heap reifyDepth v = true then (.ok (reify s.heap reifyDepth v), s) else (.error .unc, s) := by
  unfold reifyM
  by_cases h : expandsWithin s.heap reifyDepth v = true
  · rw [if_pos h]
    show (if expandsWithin s.heap reifyDepth v = true then _ else _ : M Val).run.run s = _
    rw [if_pos h]; rfl
  · rw [if_neg h]
    show (if expandsWithin s.heap reifyDepth v = true then _ else _ : M Val).run.run s = _
    rw [if_neg h]; rfl

theorem pres_reifyM (v : Val) : Pres (reifyM v) := ⟨fun s => by rw [run_reifyM]; split <;> rfl⟩
theorem pres_reflectM (v : Val) : Pres (reflectM v) := ⟨fun _ => rfl⟩
theorem pres_mkClos (c : RClos) : Pres (mkClos c) := ⟨fun _ => rfl⟩
theorem pres_get_bind {β} (f : St → M β) (h : ∀ s, ((f s).run.run s).2.bvars = s.bvars) :
    Pres (get >>= f) := by
  constructor; intro s; rw [run_bind]; exact h s

theorem pres_markKeyM (k : Val) : Pres (markKeyM k) := by
  unfold markKeyM
  exact pres_get_bind _ (fun s => by split <;> rfl)

theorem pres_guardKeyed (id : Nat) : Pres (guardKeyed id) := by
  unfold guardKeyed
  exact pres_get_bind _ (fun s => by split <;> rfl)

theorem pres_siteCell (c : Nat) : Pres (siteCell c) := by
  unfold siteCell
  apply pres_get_bind
  intro s
  split <;> rfl

theorem pres_ofExpect (l : Nat) (e : Spec.Expect) : Pres (ofExpect l e) := by
  cases e <;> exact ⟨fun _ => rfl⟩

theorem pres_mapM {α β} (f : α → M β) (hf : ∀ a, Pres (f a)) : ∀ l : List α, Pres (l.mapM f)
  | [] => by rw [List.mapM_nil]; exact pres_pure _
  | a :: l => by
    rw [List.mapM_cons]
    exact pres_bind (hf a) fun _ => pres_bind (pres_mapM f hf l) fun _ => pres_pure _

theorem pres_forIn {α β} (f : α → β → M (ForInStep β)) (hf : ∀ a b, Pres (f a b)) :
    ∀ (l : List α) (b : β), Pres (forIn l b f)
  | [], b => by rw [List.forIn_nil]; exact pres_pure _
  | a :: l, b => by
    rw [List.forIn_cons]
    refine pres_bind (hf a b) fun r => ?_
    cases r
    · exact pres_pure _
    · exact pres_forIn f hf l _


/-- one step of the syntactic walk over a monadic term -/
macro "pres_step" : tactic => `(tactic| first
  | with_reducible exact pres_pure _
  | with_reducible exact pres_throw _
  | with_reducible exact pres_get
  | with_reducible exact pres_getCell _
  | with_reducible exact pres_setCell _ _
  | with_reducible exact pres_reifyM _
  | with_reducible exact pres_reflectM _
  | with_reducible exact pres_mkClos _
  | with_reducible exact pres_siteCell _
  | with_reducible exact pres_markKeyM _
  | with_reducible exact pres_guardKeyed _
  | with_reducible exact pres_ofExpect _ _
  | ((with_reducible apply pres_modify); intro _; rfl)
  | with_reducible assumption
  | ((with_reducible apply pres_mapM); intro _)
  | ((with_reducible apply pres_forIn); intro _ _)
  | with_reducible apply pres_bind
  | intro _
  | split
  | dsimp only)

macro "pres" : tactic => `(tactic| repeat pres_step)

theorem pres_truthy (v : Val) : Pres (truthy v) := by
  unfold truthy
  exact pres_bind (pres_reifyM v) (fun _ => pres_pure _)

theorem pres_mutateM (t n : Val) : Pres (mutateM t n) := by
  unfold mutateM
  pres

theorem pres_applyBinary (l : Nat) (op : Spec.Op) (a b : Val) : Pres (applyBinary l op a b) := by
  unfold applyBinary
  pres

theorem pres_patMatches (v : Val) (p : Pat) : Pres (patMatches v p) := by
  unfold patMatches
  pres

theorem pres_indexGet (l : Nat) (a i : Val) : Pres (indexGet l a i) := by
  unfold indexGet
  pres

theorem pres_indexSet (l : Nat) (a i v : Val) : Pres (indexSet l a i v) := by
  unfold indexSet
  pres


structure All (fuel : Nat) : Prop where
  evalE : ∀ env e, Pres (evalE fuel env e)
  evalBranch : ∀ env b, Pres (evalBranch fuel env b)
  evalArms : ∀ env v arms, Pres (evalArms fuel env v arms)
  evalArgs : ∀ env es, Pres (evalArgs fuel env es)
  evalPairs : ∀ env kvs, Pres (evalPairs fuel env kvs)
  callValue : ∀ l vf vargs, Pres (callValue fuel l vf vargs)
  evalBlock : ∀ env b, Pres (evalBlock fuel env b)
  evalStmts : ∀ env ss last, Pres (evalStmts fuel env ss last)
  evalStmt : ∀ env s, Pres (evalStmt fuel env s)
  evalLoop : ∀ env label cond b, Pres (evalLoop fuel env label cond b)

macro "pres_rec" ih:term : tactic => `(tactic| first
  | with_reducible exact ($ih).evalE _ _
  | with_reducible exact ($ih).evalBranch _ _
  | with_reducible exact ($ih).evalArms _ _ _
  | with_reducible exact ($ih).evalArgs _ _
  | with_reducible exact ($ih).evalPairs _ _
  | with_reducible exact ($ih).callValue _ _ _
  | with_reducible exact ($ih).evalBlock _ _
  | with_reducible exact ($ih).evalStmts _ _ _
  | with_reducible exact ($ih).evalStmt _ _
  | with_reducible exact ($ih).evalLoop _ _ _ _
  | with_reducible exact pres_truthy _
  | with_reducible exact pres_mutateM _ _
  | with_reducible exact pres_applyBinary _ _ _ _
  | with_reducible exact pres_patMatches _ _
  | with_reducible exact pres_indexGet _ _ _
  | with_reducible exact pres_indexSet _ _ _ _
  | pres_step)

macro "pres_all" ih:term : tactic => `(tactic| repeat pres_rec $ih)

theorem step_evalArms (fuel : Nat) (ih : All fuel) : ∀ env v arms, Pres (evalArms (fuel+1) env v arms) := by
  intro env v arms
  cases arms with
  | nil => rw [evalArms.eq_2 _ _ _ (Nat.succ_ne_zero _)]; pres_all ih
  | cons a rest => cases a; rw [evalArms.eq_3]; pres_all ih

theorem step_evalBranch (fuel : Nat) (ih : All fuel) : ∀ env b, Pres (evalBranch (fuel+1) env b) := by
  intro env b
  unfold evalBranch
  pres_all ih

theorem step_evalArgs (fuel : Nat) (ih : All fuel) : ∀ env es, Pres (evalArgs (fuel+1) env es) := by
  intro env es
  cases es with
  | nil => rw [evalArgs.eq_2 _ _ (Nat.succ_ne_zero _)]; pres_all ih
  | cons a rest => rw [evalArgs.eq_3]; pres_all ih

theorem step_evalPairs (fuel : Nat) (ih : All fuel) : ∀ env es, Pres (evalPairs (fuel+1) env es) := by
  intro env es
  cases es with
  | nil => rw [evalPairs.eq_2 _ _ (Nat.succ_ne_zero _)]; pres_all ih
  | cons a rest => cases a; rw [evalPairs.eq_3]; pres_all ih

theorem step_evalBlock (fuel : Nat) (ih : All fuel) : ∀ env es, Pres (evalBlock (fuel+1) env es) := by
  intro env b
  unfold evalBlock
  pres_all ih

theorem step_evalStmts (fuel : Nat) (ih : All fuel) : ∀ env ss l, Pres (evalStmts (fuel+1) env ss l) := by
  intro env ss l
  cases ss with
  | nil => rw [evalStmts.eq_2 _ _ _ (Nat.succ_ne_zero _)]; pres_all ih
  | cons a rest => rw [evalStmts.eq_3]; pres_all ih

theorem step_evalLoop (fuel : Nat) (ih : All fuel) : ∀ env l c b, Pres (evalLoop (fuel+1) env l c b) := by
  intro env l c b
  unfold evalLoop
  pres_all ih

theorem step_callValue (fuel : Nat) (ih : All fuel) : ∀ l vf vargs, Pres (callValue (fuel+1) l vf vargs) := by
  intro l vf vargs
  unfold callValue
  pres_all ih

theorem step_evalStmt (fuel : Nat) (ih : All fuel) : ∀ env s, Pres (evalStmt (fuel+1) env s) := by
  intro env s
  unfold evalStmt
  pres_all ih


theorem step_evalE (fuel : Nat) (ih : All fuel) : ∀ env e, Pres (evalE (fuel+1) env e) := by
  intro env e
  unfold evalE
  pres_all ih


theorem all_zero : All 0 :=
  ⟨fun _ _ => pres_throw _, fun _ _ => pres_throw _, fun _ _ _ => pres_throw _, fun _ _ => pres_throw _,
   fun _ _ => pres_throw _, fun _ _ _ => pres_throw _, fun _ _ => pres_throw _, fun _ _ _ => pres_throw _,
   fun _ _ => pres_throw _, fun _ _ _ _ => pres_throw _⟩

/-- every function of the evaluator, at every fuel -/
theorem all_pres : ∀ fuel, All fuel
  | 0 => all_zero
  | fuel + 1 =>
    have ih := all_pres fuel
    ⟨step_evalE fuel ih, step_evalBranch fuel ih, step_evalArms fuel ih, step_evalArgs fuel ih,
     step_evalPairs fuel ih, step_callValue fuel ih, step_evalBlock fuel ih, step_evalStmts fuel ih,
     step_evalStmt fuel ih, step_evalLoop fuel ih⟩

/-- **bvars_preserved**: evaluating an expression never changes the builtin variables -/
theorem bvars_preserved (fuel : Nat) (env : Env) (e : Expr) (s : St) :
    ((evalE fuel env e).run.run s).2.bvars = s.bvars := ((all_pres fuel).evalE env e).h s

theorem bvars_preserved_stmts (fuel : Nat) (env : Env) (ss : List Stmt) (last : Val) (s : St) :
    ((evalStmts fuel env ss last).run.run s).2.bvars = s.bvars := ((all_pres fuel).evalStmts env ss last).h s

theorem bvars_preserved_stmt (fuel : Nat) (env : Env) (st : Stmt) (s : St) :
    ((evalStmt fuel env st).run.run s).2.bvars = s.bvars := ((all_pres fuel).evalStmt env st).h s

theorem bvars_preserved_block (fuel : Nat) (env : Env) (b : Block) (s : St) :
    ((evalBlock fuel env b).run.run s).2.bvars = s.bvars := ((all_pres fuel).evalBlock env b).h s

theorem bvars_preserved_call (fuel l : Nat) (vf : Val) (vargs : List Val) (s : St) :
    ((callValue fuel l vf vargs).run.run s).2.bvars = s.bvars := ((all_pres fuel).callValue l vf vargs).h s

/-! ### non-vacuity: the variables are read, assignments to other things do not touch them -/

section Examples
def s7 : St := { bvars := [("NP", .int 7), ("PL", .int 60)] }

-- `NP` is read from `bvars`
example : ((evalE 5 [[]] (.ident 1 "NP" .get)).run.run s7).1.toOption.map (fun r => match r with | .val (.int n) _ => n.toInt | _ => -1)
    = some 7 := by decide +kernel
-- `NP = 3` is not an assignment the documents define: `unc`, and `bvars` stays
example : (match ((evalE 5 [[]] (.assign 1 (.ident 1 "NP" .set) (.int 1 3))).run.run s7).1 with
    | .error .unc => true | _ => false) = true := by decide +kernel
example : ((evalE 5 [[]] (.assign 1 (.ident 1 "NP" .set) (.int 1 3))).run.run s7).2.bvars = s7.bvars :=
  bvars_preserved _ _ _ _
-- a runtime error half-way (`puts("x"); 1/0`) has changed `out` but not `bvars`
example : ((evalStmts 9 [[]] [.exprS 1 (.call 1 (.ident 1 "puts" .get) [.str 1 "x"]),
    .exprS 2 (.binary 2 "/" (.int 2 1) (.int 2 0))] .null).run.run s7).2.out = ["x"] := by decide +kernel
end Examples

end P2sh.Props.RefBvars
