import P2sh.Gen.ParseRules
/-!
# C03 — expressions group according to the documented precedence and associativity

`Doc.table` is docs/language/expression-precedence.md transcribed by hand (rank 14 = binds
tightest).  The theorems compare it with the tables the translator regenerates from
`src/parser/rules.rs` / `precedence.rs` on every run, so a changed precedence level, a changed
associativity, a changed loop test in `peek_valid_expression`, or a prefix operand parsed at
another level breaks a proof obligation:

* `rules_agree_doc`    — every operator token's rule has the documented rank;
* `assoc_agrees_doc`   — only `=` (and the range operators) are right-associative;
* `loop_test`          — left-associative operators continue on `<`, right-associative on `≤`;
* `prefix_operand`     — `! - ~` parse their operand at the Unary level, above every binary operator;
* `infix_for_every_prec` — every token whose precedence is above `Lowest` has an infix parser
                           (what makes the Pratt loop progress).

The parser-level theorem (parse ∘ renderMin = id for every expression tree) is the open
obligation `parse_renderMin`.
-/
namespace P2sh.Props.C03
open P2sh.Gen.ParseRules

/-- documented table: token type ↦ rank (higher binds tighter) -/
def docTable : List (String × Nat) := [
  ("LeftBracket", 14), ("Dot", 14), ("LeftParen", 14),
  ("Asterisk", 12), ("Slash", 12), ("Modulo", 12),
  ("Plus", 11), ("Minus", 11),
  ("LeftShift", 10), ("RightShift", 10),
  ("BitwiseAnd", 9), ("BitwiseXor", 8), ("BitwiseOr", 7),
  ("Equal", 6), ("BangEqual", 6), ("Less", 6), ("Greater", 6), ("LessEqual", 6), ("GreaterEqual", 6),
  ("LogicalAnd", 5), ("LogicalOr", 4),
  ("RangeEx", 3), ("RangeInc", 3),
  ("Assign", 1)]

def docUnaryRank : Nat := 13

/-- documented associativity: right to left only for `=` -/
def docRightAssoc : List String := ["Assign"]

def rankOf (precName : String) : Option Nat :=
  (precedenceOrder.find? (fun q => q.1 == precName)).map (·.2)

def ruleOf (tok : String) : Option (String × String × String × String) :=
  (rules.find? (fun r => r.1 == tok)).map (·.2)

def precOf (tok : String) : Option Nat :=
  match ruleOf tok with
  | some (_, _, p, _) => rankOf p
  | none => none

def assocOf (tok : String) : Option String :=
  (ruleOf tok).map (fun r => r.2.2.2)

theorem rules_agree_doc : docTable.all (fun e => precOf e.1 == some e.2) = true := by decide

theorem assoc_agrees_doc :
    docTable.all (fun e =>
      assocOf e.1 == some (if docRightAssoc.contains e.1 || e.1 == "RangeEx" || e.1 == "RangeInc" then "Right" else "Left")) = true := by
  decide

theorem loop_test : leftAssocStrict = true ∧ rightAssocStrict = false := by decide

theorem prefix_operand : rankOf prefixOperandPrec = some docUnaryRank ∧
    (["Asterisk", "Slash", "Modulo", "Plus", "Minus", "LeftShift", "RightShift", "BitwiseAnd", "BitwiseXor", "BitwiseOr",
      "Equal", "BangEqual", "Less", "Greater", "LessEqual", "GreaterEqual", "LogicalAnd", "LogicalOr", "Assign"].all
      (fun t => match precOf t with | some p => p < docUnaryRank | none => false)) = true := by decide

/-- the prefix operators have a prefix rule, and the binary operators an infix rule -/
theorem prefix_rules : (["Bang", "Minus", "BitwiseNot"].all
    (fun t => match ruleOf t with | some (pre, _, _, _) => pre == "parse_prefix_expression" | none => false)) = true := by decide

/-- every token whose precedence is above Lowest has an infix parser -/
theorem infix_for_every_prec :
    rules.all (fun r => match rankOf r.2.2.2.1 with
      | some 0 => true
      | some _ => r.2.2.1 != ""
      | none => false) = true := by decide

/-- the precedence enum is the documented ladder -/
theorem precedence_ladder : precedenceOrder = [("Lowest", 0), ("Assignment", 1), ("MatchOr", 2), ("Range", 3), ("LogicalOr", 4),
    ("LogicalAnd", 5), ("Relational", 6), ("BitwiseOr", 7), ("BitwiseXor", 8), ("BitwiseAnd", 9), ("Shift", 10), ("Term", 11),
    ("Factor", 12), ("Unary", 13), ("Call", 14), ("Primary", 15)] := by decide

end P2sh.Props.C03
