import P2sh.Props.C03Parse
import P2sh.Props.C24Scan
/-!
# C03 — the text of a rendering scans back to its tokens (`scan_render`), and parses back to the tree

* `tokText` / `textOf` — the canonical spelling of a token (operators and punctuation read off the
  scanner's generated tables `Gen.ParseRules.singles/twins`, `..`/`..=`, decimal digits, the word
  itself) and of a token list (spellings separated by one space);
* `scannable` — integers below 2^63; identifiers non-empty, first character a letter or `_`, then
  letters, digits, `_`, not a keyword; the operator/punctuation tokens of the expression sub-grammar;
* `first_token` — on the spelling of a scannable token followed by a space or the end of the text,
  `next_token` returns that token and stops right behind it (`first_word`, `first_number`, `first_op`);
* **`scan_textOf`** (`scan_render`) — `scan (textOf ts)` = the tokens `ts` (under `ofToken`) plus `Eof`;
  the step from one token to the next uses the offset simulation `run_shift` of `Props/C24Scan.lean`;
* **`parse_text_renderMin`**, **`parseText_renderMin`** — parsing the text of the minimal rendering
  of a well-formed tree whose atoms are scannable gives back the tree.

Facts about the generated tables are stated as `decide` lemmas (`op_facts`, `dot_facts`, `keys_facts`,
`kw_true`) and are re-checked against the regenerated tables on every build.
-/
namespace P2sh.Props.C03Text
open P2sh.Scanner P2sh.Parser P2sh.Props.C01 P2sh.Props.C24 P2sh.Gen.ParseRules

/-! ## canonical text of a token list -/

/-- spelling of an operator / punctuation token, read off the scanner's generated tables -/
def spell (tt : String) : Option String :=
  match singles.find? (·.2 == tt) with
  | some (c, _) => some c
  | none =>
    match twins.find? (·.2.1 == tt) with
    | some (c, _, _) => some c
    | none =>
      match twins.findSome? (fun e => (e.2.2.find? (·.2 == tt)).map (fun k => e.1 ++ k.1)) with
      | some s => some s
      | none => if tt == "RangeEx" then some ".." else if tt == "RangeInc" then some "..=" else none

def tokText : Tok → String
  | .int n => String.ofList (Nat.toDigits 10 n)
  | .badInt => ""
  | .bool true => "true"
  | .bool false => "false"
  | .ident s => s
  | .t tt => (spell tt).getD ""
  | .lit _ _ => ""

/-- the spellings separated by one space -/
def textOf : List Tok → String
  | [] => ""
  | [t] => tokText t
  | t :: ts => tokText t ++ " " ++ textOf ts

/-- the operator and punctuation tokens of the expression sub-grammar (what `renderMin` emits) -/
def opToks : List String :=
  C03Parse.binOps ++ C03Parse.prefixOps ++ C03Parse.rangeOps ++
    ["Assign", "LeftBracket", "RightBracket", "LeftParen", "RightParen", "Comma"]

/-- the scanner's view of one character followed by `k`: token type, literal, and whether `k` was consumed -/
def sot (c k : Char) : Option (String × String × Bool) :=
  let cs := String.singleton c
  match singles.find? (·.1 == cs) with
  | some (_, t) => some (t, cs, false)
  | none =>
    match twins.find? (·.1 == cs) with
    | some (_, single, nexts) =>
      let pk := String.singleton k
      match nexts.find? (·.1 == pk) with
      | some (_, t2) => some (t2, cs ++ pk, true)
      | none => some (single, cs, false)
    | none => none

/-- what the proof needs to know about the spelling of an operator token, as a check on the
generated tables -/
def opShape (tt : String) : Bool :=
  (tt != "Decimal" && tt != "True" && tt != "False" && tt != "Identifier" && tt != "Eof") &&
  match (spell tt).map String.toList with
  | some [c] =>
    sot c ' ' == some (tt, String.singleton c, false) && sot c nul == some (tt, String.singleton c, false) &&
      !isBlank c && c != '#' && c != nul
  | some [c, k] =>
    if tt == "RangeEx" then c == '.' && k == '.'
    else sot c k == some (tt, String.singleton c ++ String.singleton k, true) &&
      !isBlank c && c != '#' && c != nul && !(c == '/' && k == '/')
  | some [a, b, c] => tt == "RangeInc" && a == '.' && b == '.' && c == '='
  | _ => false

/-- every operator token of the sub-grammar has a spelling the scanner reads back as that token
(re-checked against the regenerated tables on every build) -/
theorem op_facts : ∀ tt ∈ opToks, opShape tt = true := by decide +kernel

theorem dot_facts : sot '.' '.' = none ∧ isBlank '.' = false := by decide +kernel

theorem singleOrTwin_eq (s : S) :
    singleOrTwin s = (sot s.ch s.peekChar).map
      (fun r => if r.2.2 then (mk s.readChar r.1 r.2.1, s.readChar) else (mk s r.1 r.2.1, s)) := by
  simp only [singleOrTwin, sot]
  cases List.find? (fun x => x.fst == String.singleton s.ch) singles with
  | some x => rfl
  | none =>
    cases List.find? (fun x => x.fst == String.singleton s.ch) twins with
    | none => rfl
    | some y =>
      obtain ⟨y1, y2, y3⟩ := y
      simp only []
      cases List.find? (fun x => x.fst == String.singleton s.peekChar) y3 <;> rfl

/-! ## the arms of `next_token`, for a state that stands on the first character of a token -/

theorem nextToken_sot {s : S} (hb : isBlank s.ch = false) (hc : atComment s = false) (hn : s.ch ≠ nul)
    {t : Token} {s' : S} (h : singleOrTwin s = some (t, s')) : nextToken s = .tok t s'.readChar := by
  have hn' : ¬ (s.ch == nul) = true := by simpa using hn
  simp only [nextToken, skipWhitespace_id _ _ hb, skipComments_id _ _ hc, if_neg hn', h]

theorem nextToken_ident {s : S} (hb : isBlank s.ch = false) (hc : atComment s = false)
    (h : singleOrTwin s = none) (hi : isIdentFirst s.ch = true) : nextToken s = readIdentifier s := by
  have hn' : ¬ (s.ch == nul) = true := by
    intro e; rw [eq_of_beq e] at hi; exact absurd hi (by decide)
  have h1 : ¬ (s.ch == '"') = true := by
    intro e; rw [eq_of_beq e] at hi; exact absurd hi (by decide)
  have h2 : ¬ (s.ch == '\'') = true := by
    intro e; rw [eq_of_beq e] at hi; exact absurd hi (by decide)
  simp only [nextToken, skipWhitespace_id _ _ hb, skipComments_id _ _ hc, if_neg hn', h, if_neg h1, if_neg h2,
    hi, if_true]

theorem digit_not_identFirst (c : Char) (h : c.isDigit = true) : isIdentFirst c = false := by
  simp only [Char.isDigit, Bool.and_eq_true, decide_eq_true_eq] at h
  have h1 : 48 ≤ c.val.toNat := by have := h.1; simpa [UInt32.le_iff_toNat_le] using this
  have h2 : c.val.toNat ≤ 57 := by have := h.2; simpa [UInt32.le_iff_toNat_le] using this
  have hn : c.toNat = c.val.toNat := rfl
  simp only [isIdentFirst, Char.isAlpha, Char.isUpper, Char.isLower, Bool.or_eq_false_iff, Bool.and_eq_false_iff,
    decide_eq_false_iff_not, beq_eq_false_iff_ne, ne_eq]
  refine ⟨⟨⟨?_, ?_⟩, ?_⟩, ?_⟩
  · simp [UInt32.le_iff_toNat_le]; omega
  · simp [UInt32.le_iff_toNat_le]; omega
  · intro e; subst e; exact absurd h2 (by decide)
  · left; left; left; rw [hn]; omega

theorem nextToken_number {s : S} (hb : isBlank s.ch = false) (hc : atComment s = false)
    (h : singleOrTwin s = none) (hd : s.ch.isDigit = true) : nextToken s = readNumber s := by
  have hn' : ¬ (s.ch == nul) = true := by
    intro e; rw [eq_of_beq e] at hd; exact absurd hd (by decide)
  have h1 : ¬ (s.ch == '"') = true := by
    intro e; rw [eq_of_beq e] at hd; exact absurd hd (by decide)
  have h2 : ¬ (s.ch == '\'') = true := by
    intro e; rw [eq_of_beq e] at hd; exact absurd hd (by decide)
  have h3 : (s.ch == '.') = false := by
    cases h3 : s.ch == '.'
    · rfl
    · rw [eq_of_beq h3] at hd; exact absurd hd (by decide)
  have h4 : ¬ isIdentFirst s.ch = true := by rw [digit_not_identFirst _ hd]; exact Bool.false_ne_true
  simp only [nextToken, skipWhitespace_id _ _ hb, skipComments_id _ _ hc, if_neg hn', h, if_neg h1, if_neg h2,
    if_neg h4, h3, Bool.false_and, Bool.false_eq_true, if_false, bne, Bool.not_false, Bool.true_and, hd, if_true]

/-! ## the characters of the text -/

section Text
variable (cs tail : List Char)

theorem getA_lt {i : Nat} (h : i < cs.length) : (cs ++ tail).toArray.getD i nul = cs[i] := by
  rw [getD_list, List.getElem?_append_left h, List.getElem?_eq_getElem h]; rfl

theorem getA_end : (cs ++ tail).toArray.getD cs.length nul = tail.head?.getD nul := by
  rw [getD_list, List.getElem?_append_right (Nat.le_refl _), Nat.sub_self]
  cases tail <;> rfl

/-- what follows a token in `textOf`: the end of the text, or a space -/
def Follow (tail : List Char) : Prop := tail = [] ∨ tail.head? = some ' '

theorem follow_char {tail : List Char} (h : Follow tail) : tail.head?.getD nul = nul ∨ tail.head?.getD nul = ' ' := by
  rcases h with rfl | h
  · exact Or.inl rfl
  · rw [h]; exact Or.inr rfl

end Text

/-- a `while p(ch)` loop over `j` characters satisfying `p`, stopping at one that does not -/
theorem readWhile_at (P : Char → Bool) (A : Array Char) (ln : Nat) : ∀ (j p f : Nat),
    (∀ i, p ≤ i → i < p + j → P (A.getD i nul) = true) → P (A.getD (p + j) nul) = false → j < f →
    readWhile P f (at_ A p ln) = at_ A (p + j) ln
  | _, _, 0, _, _, hf => absurd hf (Nat.not_lt_zero _)
  | 0, p, f+1, _, hend, _ => by
    have : P (at_ A p ln).ch = false := hend
    simp only [readWhile, this, Bool.false_eq_true, if_false, Nat.add_zero]
  | j+1, p, f+1, hmid, hend, hf => by
    have h1 : P (at_ A p ln).ch = true := hmid p (Nat.le_refl _) (by omega)
    simp only [readWhile, h1, if_true]
    rw [at_readChar, readWhile_at P A ln j (p + 1) f (fun i h2 h3 => hmid i (by omega) (by omega))
      (by have e : p + 1 + j = p + (j + 1) := by omega
          rw [e]; exact hend) (by omega)]
    congr 1; omega

theorem slice_prefix (cs tail : List Char) (ln : Nat) :
    (at_ (cs ++ tail).toArray cs.length ln).slice 0 cs.length = some (String.ofList cs) := by
  simp [S.slice, at_]

/-! ## identifiers, keywords, numbers never enter the single/twin arms -/

def keyOK (k : String) : Bool := k.toList.all (fun ch => !isIdentFirst ch && !ch.isDigit)

/-- no key of the single/twin tables is a letter, `_` or a digit (re-checked on every build) -/
theorem keys_facts : singles.all (fun e => keyOK e.1) = true ∧ twins.all (fun e => keyOK e.1) = true := by
  decide +kernel

theorem sot_none (c k : Char) (h : isIdentFirst c = true ∨ c.isDigit = true) : sot c k = none := by
  have hbad : ∀ key : String, keyOK key = true → (key == String.singleton c) = true → False := by
    intro key hk he
    rw [eq_of_beq he] at hk
    simp only [keyOK, String.toList_singleton, List.all_cons, List.all_nil, Bool.and_true,
      Bool.and_eq_true, Bool.not_eq_true'] at hk
    rcases h with h | h
    · rw [h] at hk; exact Bool.noConfusion hk.1
    · rw [h] at hk; exact Bool.noConfusion hk.2
  simp only [sot]
  cases h1 : List.find? (fun x => x.fst == String.singleton c) singles with
  | some e =>
    have hp := List.find?_some h1
    exact (hbad e.1 (List.all_eq_true.mp keys_facts.1 e (List.mem_of_find?_eq_some h1)) hp).elim
  | none =>
    cases h2 : List.find? (fun x => x.fst == String.singleton c) twins with
    | some e =>
      have hp := List.find?_some h2
      exact (hbad e.1 (List.all_eq_true.mp keys_facts.2 e (List.mem_of_find?_eq_some h2)) hp).elim
    | none => rfl

theorem identFirst_plain {c : Char} (h : isIdentFirst c = true) :
    isBlank c = false ∧ c ≠ '#' ∧ c ≠ '/' ∧ c ≠ nul := by
  refine ⟨?_, ?_, ?_, ?_⟩
  · cases hb : isBlank c
    · rfl
    · simp only [isBlank, Bool.or_eq_true, beq_iff_eq] at hb
      rcases hb with ((rfl | rfl) | rfl) | rfl <;> exact absurd h (by decide)
  · rintro rfl; exact absurd h (by decide)
  · rintro rfl; exact absurd h (by decide)
  · rintro rfl; exact absurd h (by decide)

theorem digit_plain {c : Char} (h : c.isDigit = true) :
    isBlank c = false ∧ c ≠ '#' ∧ c ≠ '/' ∧ c ≠ nul := by
  refine ⟨?_, ?_, ?_, ?_⟩
  · cases hb : isBlank c
    · rfl
    · simp only [isBlank, Bool.or_eq_true, beq_iff_eq] at hb
      rcases hb with ((rfl | rfl) | rfl) | rfl <;> exact absurd h (by decide)
  · rintro rfl; exact absurd h (by decide)
  · rintro rfl; exact absurd h (by decide)
  · rintro rfl; exact absurd h (by decide)

theorem atComment_false {s : S} (h1 : s.ch ≠ '#') (h2 : s.ch ≠ '/') : atComment s = false := by
  simp [atComment, h1, h2]

/-- **an identifier or keyword**: on `cs ++ tail` (`cs` identifier characters, then the end or a
space), the first `next_token` returns the word `cs` with the type `keyword` gives it and stops
right behind it -/
theorem first_word (c0 : Char) (r tail : List Char) (h0 : isIdentFirst c0 = true)
    (hr : ∀ x ∈ r, isIdentRemaining x = true) (ht : Follow tail) :
    nextToken (at_ (c0 :: r ++ tail).toArray 0 1) =
      .tok ⟨keyword (String.ofList (c0 :: r)), String.ofList (c0 :: r), 1⟩
        (at_ (c0 :: r ++ tail).toArray (c0 :: r).length 1) := by
  generalize hcs : c0 :: r = cs
  generalize hA : (cs ++ tail).toArray = A
  have g0 : A.getD 0 nul = c0 := by
    rw [← hA, getA_lt cs tail (by rw [← hcs]; simp)]; simp [← hcs]
  have hch : (at_ A 0 1).ch = c0 := g0
  obtain ⟨p1, p2, p3, p4⟩ := identFirst_plain h0
  have hb : isBlank (at_ A 0 1).ch = false := by rw [hch]; exact p1
  have hc : atComment (at_ A 0 1) = false := atComment_false (by rw [hch]; exact p2) (by rw [hch]; exact p3)
  have hs : singleOrTwin (at_ A 0 1) = none := by
    rw [singleOrTwin_eq, hch, sot_none c0 _ (Or.inl h0)]; rfl
  rw [nextToken_ident hb hc hs (by rw [hch]; exact h0)]
  have hmem : ∀ x ∈ cs, isIdentRemaining x = true := by
    rw [← hcs]
    intro x hx
    rcases List.mem_cons.mp hx with e | e
    · rw [e]; exact identRemaining_of_first h0
    · exact hr _ e
  have hall : ∀ i, 0 ≤ i → i < 0 + cs.length → isIdentRemaining (A.getD i nul) = true := by
    intro i _ hi
    have hi' : i < cs.length := by omega
    rw [← hA, getA_lt cs tail hi']
    exact hmem _ (List.getElem_mem hi')
  have hend : isIdentRemaining (A.getD (0 + cs.length) nul) = false := by
    rw [Nat.zero_add, ← hA, getA_end]
    rcases follow_char ht with e | e <;> rw [e] <;> decide
  have hsz : cs.length < A.size + 1 := by rw [← hA]; simp; omega
  simp only [readIdentifier]
  rw [show (at_ A 0 1).input.size = A.size from rfl, readWhile_at isIdentRemaining A 1 cs.length 0 (A.size + 1) hall hend hsz,
    Nat.zero_add]
  have hsl : (at_ A cs.length 1).slice (at_ A 0 1).position (at_ A cs.length 1).position = some (String.ofList cs) := by
    rw [← hA]; exact slice_prefix cs tail 1
  rw [hsl]
  have hq : ((at_ A cs.length 1).ch == '\'' && String.ofList cs == "b") = false := by
    have : (at_ A cs.length 1).ch = tail.head?.getD nul := by rw [← hA]; exact getA_end cs tail
    rw [this]
    rcases follow_char ht with e | e <;> rw [e] <;> rfl
  simp only [hq, Bool.false_eq_true, if_false]
  rfl

/-! ## decimal literals -/

theorem beq_false_of_digit {c d : Char} (hc : c.isDigit = true ∨ c = nul ∨ c = ' ')
    (hd : d.isDigit = false ∧ d ≠ nul ∧ d ≠ ' ') : (c == d) = false := by
  cases h : c == d
  · rfl
  · have e := eq_of_beq h
    subst e
    rcases hc with h1 | h1 | h1
    · rw [hd.1] at h1; exact Bool.noConfusion h1
    · exact absurd h1 hd.2.1
    · exact absurd h1 hd.2.2

/-- **a decimal literal**: on `ds ++ tail` (`ds` digits, then the end or a space) the first
`next_token` returns the `Decimal` token with literal `ds` and stops right behind it -/
theorem first_number (ds tail : List Char) (hne : ds ≠ []) (hd : ∀ x ∈ ds, x.isDigit = true)
    (ht : Follow tail) :
    nextToken (at_ (ds ++ tail).toArray 0 1) =
      .tok ⟨"Decimal", String.ofList ds, 1⟩ (at_ (ds ++ tail).toArray ds.length 1) := by
  generalize hA : (ds ++ tail).toArray = A
  have hk : 0 < ds.length := List.length_pos_iff.mpr hne
  have gd : ∀ i, i < ds.length → (A.getD i nul).isDigit = true := by
    intro i hi; rw [← hA, getA_lt ds tail hi]; exact hd _ (List.getElem_mem hi)
  have gf : A.getD ds.length nul = nul ∨ A.getD ds.length nul = ' ' := by
    rw [← hA, getA_end]; exact follow_char ht
  have gany : ∀ i, i ≤ ds.length → ((A.getD i nul).isDigit = true ∨ A.getD i nul = nul ∨ A.getD i nul = ' ') := by
    intro i hi
    rcases Nat.lt_or_eq_of_le hi with h | h
    · exact Or.inl (gd i h)
    · rw [h]; exact Or.inr gf
  have hsz : A.size = ds.length + tail.length := by rw [← hA]; simp
  have hch : (at_ A 0 1).ch = A.getD 0 nul := rfl
  have hd0 : (at_ A 0 1).ch.isDigit = true := gd 0 hk
  obtain ⟨p1, p2, p3, p4⟩ := digit_plain hd0
  have hs : singleOrTwin (at_ A 0 1) = none := by
    rw [singleOrTwin_eq, sot_none _ _ (Or.inr hd0)]; rfl
  rw [nextToken_number p1 (atComment_false p2 p3) hs hd0, readNumber_eq]
  -- the prefix stage: nothing but possibly the leading `0` is consumed
  have hhead : ∃ p, p ≤ ds.length ∧ numHead (at_ A 0 1) = (at_ A p 1, false, false, false) := by
    simp only [numHead]
    split
    · rw [at_readChar]
      have c1 := gany (0 + 1) (by omega)
      have e1 : ((at_ A (0 + 1) 1).ch == 'x' || (at_ A (0 + 1) 1).ch == 'X') = false := by
        show (A.getD (0 + 1) nul == 'x' || A.getD (0 + 1) nul == 'X') = false
        rw [beq_false_of_digit c1 (by decide), beq_false_of_digit c1 (by decide)]; rfl
      have e2 : ((at_ A (0 + 1) 1).ch == 'o' || (at_ A (0 + 1) 1).ch == 'O') = false := by
        show (A.getD (0 + 1) nul == 'o' || A.getD (0 + 1) nul == 'O') = false
        rw [beq_false_of_digit c1 (by decide), beq_false_of_digit c1 (by decide)]; rfl
      have e3 : ((at_ A (0 + 1) 1).ch == 'b' || (at_ A (0 + 1) 1).ch == 'B') = false := by
        show (A.getD (0 + 1) nul == 'b' || A.getD (0 + 1) nul == 'B') = false
        rw [beq_false_of_digit c1 (by decide), beq_false_of_digit c1 (by decide)]; rfl
      simp only [e1, e2, e3, Bool.false_eq_true, if_false]
      exact ⟨0 + 1, by omega, rfl⟩
    · exact ⟨0, Nat.zero_le _, rfl⟩
  obtain ⟨p, hp, eH⟩ := hhead
  rw [eH]
  simp only []
  -- the digit loop
  have hpred : (fun c : Char => c.isDigit || (false && isHexDigit c)) = Char.isDigit := by
    funext c; simp
  rw [hpred, show (at_ A 0 1).input.size = A.size from rfl]
  have e4 : readWhile Char.isDigit (A.size + 1) (at_ A p 1) = at_ A ds.length 1 := by
    have := readWhile_at Char.isDigit A 1 (ds.length - p) p (A.size + 1)
      (fun i h1 h2 => gd i (by omega))
      (by have e : p + (ds.length - p) = ds.length := by omega
          rw [e]; rcases gf with h | h <;> rw [h] <;> decide)
      (by omega)
    rw [this]; congr 1; omega
  rw [e4]
  have hfc : (at_ A ds.length 1).ch = A.getD ds.length nul := rfl
  have e5 : numMid (A.size + 1) (at_ A ds.length 1) = (at_ A ds.length 1, false) := by
    have : ((at_ A ds.length 1).ch == '.' && (at_ A ds.length 1).peekChar != '.') = false := by
      rw [hfc]; rcases gf with h | h <;> rw [h] <;> rfl
    simp only [numMid, this, Bool.false_eq_true, if_false]
  rw [e5]
  simp only []
  have e6 : ((at_ A ds.length 1).ch == 'e' || (at_ A ds.length 1).ch == 'E') = false := by
    rw [hfc]; rcases gf with h | h <;> rw [h] <;> rfl
  have e7 : readWhile isIdentFirst (A.size + 1) (at_ A ds.length 1) = at_ A ds.length 1 :=
    readWhile_id _ _ _ (by rw [hfc]; rcases gf with h | h <;> rw [h] <;> decide)
  have hsl : (at_ A ds.length 1).slice (at_ A 0 1).position (at_ A ds.length 1).position = some (String.ofList ds) := by
    rw [← hA]; exact slice_prefix ds tail 1
  simp only [numTail, e6, Bool.false_eq_true, if_false, e7, hsl]
  rfl

/-! ## operators and punctuation -/

theorem nextToken_dots {s : S} (hch : s.ch = '.') (hpk : s.peekChar = '.') :
    nextToken s =
      if (s.readChar.readChar.ch == '=') = true then
        .tok (mk s.readChar.readChar.readChar "RangeInc" "..=") s.readChar.readChar.readChar
      else .tok (mk s.readChar.readChar "RangeEx" "..") s.readChar.readChar := by
  have hb : isBlank s.ch = false := by rw [hch]; decide
  have hc : atComment s = false := atComment_false (by rw [hch]; decide) (by rw [hch]; decide)
  have hs : singleOrTwin s = none := by rw [singleOrTwin_eq, hch, hpk, dot_facts.1]; rfl
  have h0 : ¬ (s.ch == nul) = true := by rw [hch]; decide
  have h1 : ¬ (s.ch == '"') = true := by rw [hch]; decide
  have h2 : ¬ (s.ch == '\'') = true := by rw [hch]; decide
  have h3 : ¬ isIdentFirst s.ch = true := by rw [hch]; decide
  have h4 : ¬ (s.ch == '.' && s.peekChar.isDigit) = true := by rw [hch, hpk]; decide
  have h5 : (s.ch == '.' && s.peekChar == '.') = true := by rw [hch, hpk]; decide
  simp only [nextToken, skipWhitespace_id _ _ hb, skipComments_id _ _ hc, if_neg h0, hs, if_neg h1, if_neg h2,
    if_neg h3, if_neg h4, if_pos h5]

/-- **an operator or punctuation token**: on its spelling followed by the end or a space, the first
`next_token` returns a token of that type and stops right behind it -/
theorem first_op (tt : String) (hm : tt ∈ opToks) (str : String) (hsp : spell tt = some str)
    (tail : List Char) (ht : Follow tail) :
    ∃ lit, nextToken (at_ (str.toList ++ tail).toArray 0 1) =
      .tok ⟨tt, lit, 1⟩ (at_ (str.toList ++ tail).toArray str.toList.length 1) := by
  have h := op_facts tt hm
  unfold opShape at h
  rw [hsp] at h
  simp only [Option.map_some, Bool.and_eq_true] at h
  obtain ⟨-, h⟩ := h
  generalize str.toList = cs at h ⊢
  generalize hA : (cs ++ tail).toArray = A
  have gA : ∀ i (hi : i < cs.length), A.getD i nul = cs[i] := fun i hi => by rw [← hA]; exact getA_lt cs tail hi
  have gf : A.getD cs.length nul = nul ∨ A.getD cs.length nul = ' ' := by
    rw [← hA, getA_end]; exact follow_char ht
  match cs, h, gA, gf with
  | [c], h, gA, gf =>
    dsimp only at h
    simp only [Bool.and_eq_true, beq_iff_eq, Bool.not_eq_true', bne_iff_ne, ne_eq] at h
    obtain ⟨⟨⟨⟨h1, h2⟩, h3⟩, h4⟩, h5⟩ := h
    have hch : (at_ A 0 1).ch = c := gA 0 (by simp)
    have hpk : (at_ A 0 1).peekChar = nul ∨ (at_ A 0 1).peekChar = ' ' := by
      rw [peekChar_eq]; exact gf
    have hsot : sot (at_ A 0 1).ch (at_ A 0 1).peekChar = some (tt, String.singleton c, false) := by
      rw [hch]; rcases hpk with e | e <;> rw [e]
      · exact h2
      · exact h1
    have hc : atComment (at_ A 0 1) = false := by
      have hp : ((at_ A 0 1).peekChar == '/') = false := by rcases hpk with e | e <;> rw [e] <;> rfl
      simp [atComment, hch, h4, hp]
    have hs : singleOrTwin (at_ A 0 1) = some (mk (at_ A 0 1) tt (String.singleton c), at_ A 0 1) := by
      rw [singleOrTwin_eq, hsot]; rfl
    rw [nextToken_sot (by rw [hch]; exact h3) hc (by rw [hch]; exact h5) hs, at_readChar]
    exact ⟨_, rfl⟩
  | [c, k], h, gA, gf =>
    dsimp only at h
    have hch : (at_ A 0 1).ch = c := gA 0 (by simp)
    have hpk : (at_ A 0 1).peekChar = k := by rw [peekChar_eq]; exact gA 1 (by simp)
    split at h
    · simp only [Bool.and_eq_true, beq_iff_eq] at h
      obtain ⟨rfl, rfl⟩ := h
      rename_i htt
      rw [nextToken_dots hch hpk, at_readChar, at_readChar]
      have : ((at_ A (0 + 1 + 1) 1).ch == '=') = false := by
        show (A.getD 2 nul == '=') = false
        rcases gf with e | e <;> (simp only [List.length_cons, List.length_nil] at e; rw [e]; rfl)
      rw [if_neg (by rw [this]; exact Bool.false_ne_true), eq_of_beq htt]
      exact ⟨_, rfl⟩
    · simp only [Bool.and_eq_true, beq_iff_eq, Bool.not_eq_true', bne_iff_ne, ne_eq] at h
      obtain ⟨⟨⟨⟨h1, h3⟩, h4⟩, h5⟩, h6⟩ := h
      have hsot : sot (at_ A 0 1).ch (at_ A 0 1).peekChar =
          some (tt, String.singleton c ++ String.singleton k, true) := by rw [hch, hpk]; exact h1
      have hc : atComment (at_ A 0 1) = false := by
        simp only [atComment, hch, hpk]
        simp only [Bool.and_eq_false_iff, beq_eq_false_iff_ne, ne_eq] at h6
        rcases h6 with e | e <;> simp [h4, e]
      have hs : singleOrTwin (at_ A 0 1) =
          some (mk (at_ A 0 1).readChar tt (String.singleton c ++ String.singleton k), (at_ A 0 1).readChar) := by
        rw [singleOrTwin_eq, hsot]; rfl
      rw [nextToken_sot (by rw [hch]; exact h3) hc (by rw [hch]; exact h5) hs, at_readChar, at_readChar]
      exact ⟨_, rfl⟩
  | [a, b, c], h, gA, gf =>
    dsimp only at h
    simp only [Bool.and_eq_true, beq_iff_eq] at h
    obtain ⟨⟨⟨rfl, rfl⟩, rfl⟩, rfl⟩ := h
    have hch : (at_ A 0 1).ch = '.' := gA 0 (by simp)
    have hpk : (at_ A 0 1).peekChar = '.' := by rw [peekChar_eq]; exact gA 1 (by simp)
    rw [nextToken_dots hch hpk, at_readChar, at_readChar]
    have : ((at_ A (0 + 1 + 1) 1).ch == '=') = true := by
      show (A.getD 2 nul == '=') = true
      rw [gA 2 (by simp)]; rfl
    rw [if_pos this, at_readChar]
    exact ⟨_, rfl⟩
  | [], h, _, _ => simp at h
  | _ :: _ :: _ :: _ :: _, h, _, _ => simp at h

/-! ## the decimal spelling of a number -/

/-- the value `decimalValue` folds out of a digit list -/
def val (l : List Char) (a : Nat) : Nat := l.foldl (fun acc c => acc * 10 + (c.toNat - 48)) a

theorem digitChar_val : ∀ d : Fin 10, (Nat.digitChar d.val).toNat - 48 = d.val := by decide

theorem core_val : ∀ (f n : Nat) (acc : List Char), n < f →
    val (Nat.toDigitsCore 10 f n acc) 0 = val acc n
  | 0, _, _, h => absurd h (Nat.not_lt_zero _)
  | f+1, n, acc, h => by
    rw [Nat.toDigitsCore]
    have hd : (Nat.digitChar (n % 10)).toNat - 48 = n % 10 := digitChar_val ⟨n % 10, Nat.mod_lt _ (by decide)⟩
    split
    · next h0 =>
      show val acc (0 * 10 + ((Nat.digitChar (n % 10)).toNat - 48)) = val acc n
      rw [hd]; congr 1; omega
    · next h0 =>
      rw [core_val f (n / 10) _ (by omega)]
      show val acc (n / 10 * 10 + ((Nat.digitChar (n % 10)).toNat - 48)) = val acc n
      rw [hd]; congr 1; omega

theorem toDigits_val (n : Nat) : val (Nat.toDigits 10 n) 0 = n :=
  core_val (n + 1) n [] (Nat.lt_succ_self _)

theorem decimalValue_toDigits (n : Nat) (h : n < 2 ^ 63) :
    decimalValue (String.ofList (Nat.toDigits 10 n)) = some n := by
  have h1 : (Nat.toDigits 10 n).isEmpty = false := by
    cases hh : Nat.toDigits 10 n with
    | nil => exact absurd hh Nat.toDigits_ne_nil
    | cons _ _ => rfl
  have h2 : (Nat.toDigits 10 n).all Char.isDigit = true :=
    List.all_eq_true.mpr (fun c hc => Nat.isDigit_of_mem_toDigits (by decide) (by decide) hc)
  have h3 := toDigits_val n
  unfold val at h3
  simp only [decimalValue, String.toList_ofList, h1, h2, Bool.not_true, Bool.or_self, Bool.false_eq_true,
    if_false, h3, h, if_true]

/-! ## tokens that survive the round trip through text -/

/-- what the scanner needs of a token to read its spelling back: integers fit an `i64`;
identifiers are non-empty, start with a letter or `_`, continue with letters, digits or `_`, and
are not keywords; operators are those of the expression sub-grammar -/
def scannable : Tok → Bool
  | .int n => decide (n < 2 ^ 63)
  | .badInt => false
  | .bool _ => true
  | .ident s =>
    (match s.toList with
     | c0 :: r => isIdentFirst c0 && r.all isIdentRemaining
     | [] => false) && keyword s == "Identifier"
  | .t tt => opToks.contains tt
  | .lit _ _ => false

theorem op_not_lit : ∀ tt ∈ opToks, (tt == "Str" || tt == "Char" || tt == "Byte") = false ∧
    (tt == "Octal" || tt == "Hexadecimal" || tt == "Binary" || tt == "Float") = false := by decide +kernel

theorem kw_true : keyword "true" = "True" ∧ keyword "false" = "False" := by decide +kernel

/-- **first_token**: on the spelling of a scannable token followed by the end of the text or a
space, the first `next_token` returns that token (as the parser sees it) and stops right behind it -/
theorem first_token (t : Tok) (h : scannable t = true) (tail : List Char) (ht : Follow tail) :
    ∃ tk, nextToken (at_ ((tokText t).toList ++ tail).toArray 0 1) =
        .tok tk (at_ ((tokText t).toList ++ tail).toArray (tokText t).toList.length 1) ∧
      ofToken tk = t ∧ (tk.ttype == "Eof") = false := by
  cases t with
  | int n =>
    have hn : n < 2 ^ 63 := by simpa [scannable] using h
    simp only [tokText, String.toList_ofList]
    refine ⟨_, first_number (Nat.toDigits 10 n) tail Nat.toDigits_ne_nil
      (fun c hc => Nat.isDigit_of_mem_toDigits (by decide) (by decide) hc) ht, ?_,
      (by decide : ("Decimal" == "Eof") = false)⟩
    simp only [ofToken, decimalValue_toDigits n hn]
    rfl
  | badInt => simp [scannable] at h
  | bool b =>
    cases b with
    | true =>
      have := first_word 't' ['r', 'u', 'e'] tail (by decide) (by decide) ht
      have e : String.ofList ['t', 'r', 'u', 'e'] = "true" := by decide
      rw [e, kw_true.1] at this
      exact ⟨_, this, by decide, by decide⟩
    | false =>
      have := first_word 'f' ['a', 'l', 's', 'e'] tail (by decide) (by decide) ht
      have e : String.ofList ['f', 'a', 'l', 's', 'e'] = "false" := by decide
      rw [e, kw_true.2] at this
      exact ⟨_, this, by decide, by decide⟩
  | ident s =>
    simp only [scannable, Bool.and_eq_true, beq_iff_eq] at h
    obtain ⟨h1, hk⟩ := h
    cases hl : s.toList with
    | nil => rw [hl] at h1; simp at h1
    | cons c0 r =>
      rw [hl] at h1
      simp only [Bool.and_eq_true, List.all_eq_true] at h1
      have := first_word c0 r tail h1.1 h1.2 ht
      have e : String.ofList (c0 :: r) = s := by rw [← hl]; exact String.ofList_toList
      rw [e, hk] at this
      simp only [tokText, hl]
      exact ⟨_, this, by simp [ofToken], (by decide : ("Identifier" == "Eof") = false)⟩
  | t tt =>
    have hm : tt ∈ opToks := by simpa [scannable] using h
    have hf := op_facts tt hm
    unfold opShape at hf
    simp only [Bool.and_eq_true, bne_iff_ne, ne_eq] at hf
    obtain ⟨⟨⟨⟨⟨d1, d2⟩, d3⟩, d4⟩, d5⟩, hf⟩ := hf
    cases hsp : spell tt with
    | none => rw [hsp] at hf; simp at hf
    | some str =>
      obtain ⟨lit, hl⟩ := first_op tt hm str hsp tail ht
      simp only [tokText, hsp, Option.getD_some]
      refine ⟨_, hl, ?_, by simpa using d5⟩
      simp [ofToken, d1, d2, d3, d4, (op_not_lit tt hm).1, (op_not_lit tt hm).2]
  | lit _ _ => simp [scannable] at h

/-! ## scanning the text of a token list -/

theorem run_cons (x : Token) : ∀ (f : Nat) (s : S) (acc ts : List Token), Inv s →
    run f s acc = .ok ts → run f s (x :: acc) = .ok (x :: ts)
  | 0, _, _, _, _, e => by rw [run_zero] at e; exact Run.noConfusion e
  | f+1, s, acc, ts, h, e => by
    obtain ⟨t, s', et, nx⟩ := nextToken_spec s h
    rw [run_succ_tok f s acc t s' et] at e
    rw [run_succ_tok f s (x :: acc) t s' et]
    split at e
    · next ht =>
      injection e with e
      rw [if_pos ht, ← e]; simp
    · next ht =>
      rw [if_neg ht]
      exact run_cons x f s' (acc ++ [t]) ts nx.inv e

theorem shiftTok_zero (t : Token) : shiftTok 0 t = t := rfl

theorem map_shiftTok_zero (ts : List Token) : ts.map (shiftTok 0) = ts := by
  induction ts with
  | nil => rfl
  | cons t ts ih => rw [List.map_cons, ih, shiftTok_zero]

/-- the state behind a token stands on a space: the next `next_token` starts behind the space -/
theorem nextToken_space (A : Array Char) (k : Nat) (h : A.getD k nul = ' ') :
    nextToken (at_ A k 1) = nextToken (at_ A (k + 1) 1) := by
  apply nextToken_congr
  show skipComments (A.size + 2) (skipWhitespace (A.size + 1 + 1) (at_ A k 1)) =
    skipComments (A.size + 2) (skipWhitespace (A.size + 2) (at_ A (k + 1) 1))
  rw [skipWhitespace_space _ A k 1 (by rw [h]; rfl),
    skipWhitespace_fuel (A.size + 1) (A.size + 2) _ (at_inv _ _ _)
      (by show A.size - (k + 1) < _; omega) (by show A.size - (k + 1) < _; omega)]

theorem eof_tok : ofToken ⟨"Eof", "", 1⟩ = .t "Eof" := by decide

/-- **scan_render** — scanning the text of a list of scannable tokens gives back exactly these
tokens (as the parser sees them), followed by `Eof` -/
theorem scan_textOf : ∀ (ts : List Tok), (∀ t ∈ ts, scannable t = true) →
    ∃ toks, scan (textOf ts) = .ok toks ∧ toks.map ofToken = ts ++ [.t "Eof"]
  | [], _ => ⟨[⟨"Eof", "", 1⟩], by rfl, by decide⟩
  | [t], h => by
    obtain ⟨tk, hN, hof, hne⟩ := first_token t (h t (List.mem_singleton.mpr rfl)) [] (Or.inl rfl)
    simp only [textOf]
    generalize hcs : (tokText t).toList = cs at hN
    generalize hA : (cs ++ []).toArray = A at hN
    have hsz : A.size = cs.length := by rw [← hA]; simp
    have hY : (at_ A cs.length 1).ch = nul := getD_nul_of_ge (by omega)
    have hskip : skipComments ((at_ A cs.length 1).input.size + 2)
        (skipWhitespace ((at_ A cs.length 1).input.size + 2) (at_ A cs.length 1)) = at_ A cs.length 1 := by
      have n1 : (nul == '#') = false := by decide
      have n2 : (nul == '/') = false := by decide
      rw [skipWhitespace_id _ _ (by rw [hY]; decide),
        skipComments_id _ _ (by simp only [atComment, hY, n1, n2, Bool.false_and, Bool.or_self])]
    have hE := nextToken_eof_of_skip hskip hY
    refine ⟨[tk, ⟨"Eof", "", 1⟩], ?_, by rw [List.map_cons, hof]; rfl⟩
    unfold scan
    rw [init_eq, hcs, ← List.append_nil cs, hA, run_succ_tok _ _ _ _ _ hN, if_neg (by rw [hne]; exact Bool.false_ne_true),
      run_succ_tok _ _ _ _ _ hE]
    rfl
  | t :: t' :: ts, h => by
    obtain ⟨toks', hs', hm'⟩ := scan_textOf (t' :: ts) (fun x hx => h x (List.mem_cons_of_mem _ hx))
    generalize hrest : textOf (t' :: ts) = rest at hs'
    obtain ⟨tk, hN, hof, hne⟩ := first_token t (h t List.mem_cons_self) (' ' :: rest.toList) (Or.inr rfl)
    have htext : textOf (t :: t' :: ts) = tokText t ++ " " ++ rest := by rw [← hrest]; rfl
    rw [htext]
    generalize hcs : (tokText t).toList = cs at hN
    have hfull : (tokText t ++ " " ++ rest).toList = cs ++ ' ' :: rest.toList := by
      rw [String.toList_append, String.toList_append, hcs]
      show (cs ++ [' ']) ++ rest.toList = _
      simp
    generalize hA : (cs ++ ' ' :: rest.toList).toArray = A at hN
    have hpre : (cs ++ [' ']).toArray ++ rest.toList.toArray = A := by rw [← hA]; simp
    have hsz : A.size = cs.length + 1 + rest.length := by
      rw [← hA]; simp [String.length_toList]; omega
    have hsp : A.getD cs.length nul = ' ' := by rw [← hA, getA_end]; rfl
    have hX : shift (cs ++ [' ']).toArray 0 (init rest) = at_ A (cs.length + 1) 1 := by
      have e : 0 + (cs ++ [' ']).toArray.size = cs.length + 1 := by simp
      rw [init_eq, shift_at, hpre, e]
    refine ⟨tk :: toks', ?_, by rw [List.map_cons, hof, hm']; rfl⟩
    have hlen : (tokText t ++ " " ++ rest).length = A.size := by
      rw [← String.length_toList, hfull, ← hA]; simp
    unfold scan at hs' ⊢
    rw [init_eq, hfull, hA, hlen, run_succ_tok _ _ _ _ _ hN, if_neg (by rw [hne]; exact Bool.false_ne_true)]
    apply run_cons tk _ _ _ _ (at_inv _ _ _)
    have r := run_shift (cs ++ [' ']).toArray 0 (rest.length + 2) (A.size + 1) (init rest) [] toks' (init_inv rest) hs'
      (by rw [input_size, init_position]; omega)
    rw [List.map_nil, map_shiftTok_zero, hX] at r
    rw [run_congr_first (at_inv A (cs.length + 1) 1) (nextToken_space A cs.length hsp)]
    exact r

/-! ## the minimal rendering of a tree consists of scannable tokens -/

open P2sh.Props.C03Parse

mutual
/-- the atoms of the tree can be spelled: integers fit an `i64`, identifiers are identifiers -/
def atomsScannable : PExpr → Bool
  | .int n => scannable (.int n)
  | .bool _ => true
  | .ident s => scannable (.ident s)
  | .un _ e => atomsScannable e
  | .bin _ a b => atomsScannable a && atomsScannable b
  | .assign a b => atomsScannable a && atomsScannable b
  | .range _ a b => atomsScannable a && atomsScannable b
  | .index a i => atomsScannable a && atomsScannable i
  | .call f args => atomsScannable f && atomsScannableList args
  | .ifE _ _ _ => false
  | .fnE _ _ => false
  | .null => false
  | .score => false
  | .matchE _ _ => false
  | .arr _ => false
  | .map _ => false
  | .lit _ _ => false
  | .bid _ => false
def atomsScannableList : List PExpr → Bool
  | [] => true
  | e :: es => atomsScannable e && atomsScannableList es
end

def AllSc (l : List Tok) : Prop := ∀ t ∈ l, scannable t = true

theorem AllSc.nil : AllSc [] := fun _ h => nomatch h
theorem AllSc.cons {t : Tok} {l : List Tok} (h1 : scannable t = true) (h2 : AllSc l) : AllSc (t :: l) := by
  intro x hx
  rcases List.mem_cons.mp hx with rfl | hx
  · exact h1
  · exact h2 x hx
theorem AllSc.append {l1 l2 : List Tok} (h1 : AllSc l1) (h2 : AllSc l2) : AllSc (l1 ++ l2) := by
  intro x hx
  rcases List.mem_append.mp hx with hx | hx
  · exact h1 x hx
  · exact h2 x hx
theorem sc_op {op : String} (h : op ∈ opToks) : scannable (.t op) = true := by
  simpa [scannable] using h
theorem AllSc.wrap {l : List Tok} (b : Bool) (h : AllSc l) : AllSc (wrapIf b l) := by
  cases b with
  | false => simpa [wrapIf] using h
  | true =>
    simp only [wrapIf, if_true]
    exact AllSc.cons (sc_op (by decide)) (AllSc.append h (AllSc.cons (sc_op (by decide)) AllSc.nil))

theorem mem_op_bin {op : String} (h : op ∈ binOps) : op ∈ opToks := by simp [opToks, h]
theorem mem_op_prefix {op : String} (h : op ∈ prefixOps) : op ∈ opToks := by simp [opToks, h]
theorem mem_op_range {op : String} (h : op ∈ rangeOps) : op ∈ opToks := by simp [opToks, h]

mutual
theorem render_scannable (T : Tbl) : ∀ (x : PExpr), wfT T x = true → atomsScannable x = true →
    AllSc (renderT T x)
  | .int n, _, h => by rw [renderT]; exact AllSc.cons (by simpa [atomsScannable] using h) AllSc.nil
  | .bool b, _, _ => by rw [renderT]; exact AllSc.cons rfl AllSc.nil
  | .ident s, _, h => by rw [renderT]; exact AllSc.cons (by simpa [atomsScannable] using h) AllSc.nil
  | .un op e, hw, h => by
    simp only [wfT, Bool.and_eq_true, List.contains_iff_mem] at hw
    simp only [atomsScannable] at h
    rw [renderT]
    exact AllSc.cons (sc_op (mem_op_prefix hw.1)) (AllSc.wrap _ (render_scannable T e hw.2 h))
  | .bin op a b, hw, h => by
    simp only [wfT, Bool.and_eq_true, List.contains_iff_mem] at hw
    simp only [atomsScannable, Bool.and_eq_true] at h
    rw [renderT]
    exact AllSc.append (AllSc.wrap _ (render_scannable T a hw.1.2 h.1))
      (AllSc.cons (sc_op (mem_op_bin hw.1.1)) (AllSc.wrap _ (render_scannable T b hw.2 h.2)))
  | .assign a b, hw, h => by
    simp only [wfT, Bool.and_eq_true] at hw
    simp only [atomsScannable, Bool.and_eq_true] at h
    rw [renderT]
    exact AllSc.append (AllSc.wrap _ (render_scannable T a hw.1.2 h.1))
      (AllSc.cons (sc_op (by decide)) (AllSc.wrap _ (render_scannable T b hw.2 h.2)))
  | .range op a b, hw, h => by
    simp only [wfT, Bool.and_eq_true, List.contains_iff_mem] at hw
    simp only [atomsScannable, Bool.and_eq_true] at h
    have wa : wfT T a = true := by cases a <;> cases b <;> simp_all [validRange, wfT]
    have wb : wfT T b = true := by cases a <;> cases b <;> simp_all [validRange, wfT]
    rw [renderT]
    exact AllSc.append (AllSc.wrap _ (render_scannable T a wa h.1))
      (AllSc.cons (sc_op (mem_op_range hw.1)) (AllSc.wrap _ (render_scannable T b wb h.2)))
  | .index a i, hw, h => by
    simp only [wfT, Bool.and_eq_true] at hw
    simp only [atomsScannable, Bool.and_eq_true] at h
    rw [renderT]
    exact AllSc.append (AllSc.wrap _ (render_scannable T a hw.1 h.1))
      (AllSc.cons (sc_op (by decide)) (AllSc.append (render_scannable T i hw.2 h.2)
        (AllSc.cons (sc_op (by decide)) AllSc.nil)))
  | .call f args, hw, h => by
    simp only [wfT, Bool.and_eq_true] at hw
    simp only [atomsScannable, Bool.and_eq_true] at h
    rw [renderT]
    exact AllSc.append (AllSc.wrap _ (render_scannable T f hw.1 h.1))
      (AllSc.cons (sc_op (by decide)) (renderArgs_scannable T args hw.2 h.2))
  | .ifE _ _ _, hw, _ => by simp [wfT] at hw
  | .fnE _ _, hw, _ => by simp [wfT] at hw
  | .null, hw, _ => by simp [wfT] at hw
  | .score, hw, _ => by simp [wfT] at hw
  | .matchE _ _, hw, _ => by simp [wfT] at hw
  | .arr _, hw, _ => by simp [wfT] at hw
  | .map _, hw, _ => by simp [wfT] at hw
  | .lit _ _, hw, _ => by simp [wfT] at hw
  | .bid _, hw, _ => by simp [wfT] at hw
theorem renderArgs_scannable (T : Tbl) : ∀ (es : List PExpr), wfListT T es = true →
    atomsScannableList es = true → AllSc (renderArgsT T es)
  | [], _, _ => by rw [renderArgsT]; exact AllSc.cons (sc_op (by decide)) AllSc.nil
  | e :: es, hw, h => by
    simp only [wfListT, Bool.and_eq_true] at hw
    simp only [atomsScannableList, Bool.and_eq_true] at h
    rw [renderArgsT]
    exact AllSc.append (render_scannable T e hw.1 h.1) (renderTail_scannable T es hw.2 h.2)
theorem renderTail_scannable (T : Tbl) : ∀ (es : List PExpr), wfListT T es = true →
    atomsScannableList es = true → AllSc (renderTailT T es)
  | [], _, _ => by rw [renderTailT]; exact AllSc.cons (sc_op (by decide)) AllSc.nil
  | e :: es, hw, h => by
    simp only [wfListT, Bool.and_eq_true] at hw
    simp only [atomsScannableList, Bool.and_eq_true] at h
    rw [renderTailT]
    exact AllSc.cons (sc_op (by decide))
      (AllSc.append (render_scannable T e hw.1 h.1) (renderTail_scannable T es hw.2 h.2))
end

/-! ## parsing the text of the minimal rendering -/

/-- scan, then parse (what the implementation does with a source text) -/
def parseText (src : String) : Parser.Res PExpr :=
  match scan src with
  | .ok toks => parseTokens toks
  | _ => .err

/-- **parse_text_renderMin** — parsing the TEXT of the minimal rendering of a well-formed tree whose
atoms can be spelled gives back the tree -/
theorem parse_text_renderMin (e : PExpr) (hw : wf e = true) (ha : atomsScannable e = true) :
    ∃ toks, scan (textOf (renderMin e)) = .ok toks ∧ parseTokens toks = .ok e := by
  obtain ⟨toks, hs, hm⟩ := scan_textOf (renderMin e) (render_scannable docTbl e hw ha)
  exact ⟨toks, hs, parseTokens_renderMin e hw toks hm⟩

theorem parseText_renderMin (e : PExpr) (hw : wf e = true) (ha : atomsScannable e = true) :
    parseText (textOf (renderMin e)) = .ok e := by
  obtain ⟨toks, hs, hp⟩ := parse_text_renderMin e hw ha
  unfold parseText
  rw [hs]
  exact hp

/-! ## concrete instances -/

section examples
private def e1 : PExpr := .bin "Asterisk" (.bin "Plus" (.int 1) (.int 2)) (.int 3)
private def e2 : PExpr := .call (.ident "f") [.int 10, .assign (.ident "x_1") (.un "Minus" (.ident "y"))]
private def e3 : PExpr := .bin "LogicalAnd" (.bin "LessEqual" (.ident "a") (.int 0)) (.un "Bang" (.bool true))
private def e4 : PExpr := .range "RangeInc" (.int 1) (.int 20)

example : textOf (renderMin e1) = "( 1 + 2 ) * 3" := by decide +kernel
example : textOf (renderMin e2) = "f ( 10 , x_1 = - y )" := by decide +kernel
example : textOf (renderMin e3) = "a <= 0 && ! true" := by decide +kernel
example : textOf (renderMin e4) = "1 ..= 20" := by decide +kernel
-- scanning such a text gives the tokens back …
example : (tokens (scan "a <= 0 && ! true")).map (·.map ofToken) = some
    [.ident "a", .t "LessEqual", .int 0, .t "LogicalAnd", .t "Bang", .bool true, .t "Eof"] := by decide +kernel
-- … and the theorems instantiated
example : parseText (textOf (renderMin e1)) = .ok e1 := parseText_renderMin e1 (by decide +kernel) (by decide +kernel)
example : parseText (textOf (renderMin e2)) = .ok e2 := parseText_renderMin e2 (by decide +kernel) (by decide +kernel)
example : parseText (textOf (renderMin e3)) = .ok e3 := parseText_renderMin e3 (by decide +kernel) (by decide +kernel)
example : parseText (textOf (renderMin e4)) = .ok e4 := parseText_renderMin e4 (by decide +kernel) (by decide +kernel)
-- what is not scannable: keywords, words starting with a digit, the empty word, integers beyond `i64`
example : scannable (.ident "let") = false := by decide +kernel
example : scannable (.ident "true") = false := by decide +kernel
example : scannable (.ident "_") = false := by decide +kernel
example : scannable (.ident "1x") = false := by decide +kernel
example : scannable (.ident "") = false := by decide +kernel
example : scannable (.ident "a b") = false := by decide +kernel
example : scannable (.ident "b") = true := by decide +kernel
example : scannable (.int (2 ^ 63)) = false := by decide
example : scannable (.int (2 ^ 63 - 1)) = true := by decide
example : scannable (.t "Semicolon") = false := by decide +kernel
end examples

end P2sh.Props.C03Text
