import P2sh.Model.Builtins
import P2sh.Spec.Format
/-!
# C12 — format and print (model of `src/builtins/print.rs` vs the reference renderer)

* `literal_text`       — a format string without braces renders as itself, whatever the arguments
                         (model), and the reference renderer agrees (`literal_text_spec`);
* `print_len`          — `print`/`println`/`eprint`/`eprintln` return the byte length of what they
                         write (plus one for the newline of the `ln` variants);
* `missing_argument`   — `{}` with no argument left is an error in the model and in the specification.

The general refinement `format_refines` (every grammar-derived string) is an open obligation;
it is covered by the differential run (all strings of ≤ 2 items + random longer ones).
-/
namespace P2sh.Props.C12
open P2sh P2sh.Builtins

def plain (cs : List Char) : Prop := ∀ c ∈ cs, c ≠ '{' ∧ c ≠ '}'

theorem formatLoop_plain (args : List Val) :
    ∀ (cs : List Char) (fuel : Nat) (st : FState), plain cs → cs.length < fuel → st.inSpec = false →
      formatLoop args fuel cs st = .ok ((cs.map String.singleton).reverse ++ st.out).reverse := by
  intro cs
  induction cs with
  | nil =>
    intro fuel st _ hf _
    cases fuel with
    | zero => simp at hf
    | succ n => simp [formatLoop]; rfl
  | cons c rest ih =>
    intro fuel st hp hf hs
    cases fuel with
    | zero => simp at hf
    | succ n =>
      have hc := hp c (List.mem_cons_self)
      have h1 : (c == '{') = false := by simpa using hc.1
      have h2 : (c == '}') = false := by simpa using hc.2
      simp only [formatLoop, h1, h2, hs, Bool.false_eq_true, if_false]
      rw [ih n _ (fun d hd => hp d (List.mem_cons_of_mem _ hd)) (by simp at hf; omega) (by simpa using hs)]
      simp

/-- **literal text**: a format string without braces is written out character by character,
whatever the arguments -/
theorem literal_text (s : String) (args : List Val) (h : plain s.toList) :
    formatBuf (.str s :: args) = .ok (s.toList.map String.singleton) := by
  simp only [formatBuf]
  rw [formatLoop_plain _ s.toList (s.length + 1) {} h (by simp [String.length]) rfl]
  simp

/-- the reference renderer agrees on literal text -/
theorem parse_plain : ∀ (cs : List Char) (fuel : Nat), plain cs → cs.length < fuel →
    Spec.Format.parse fuel cs = some (cs.map Spec.Format.Item.lit) := by
  intro cs
  induction cs with
  | nil => intro fuel _ hf; cases fuel with
    | zero => simp at hf
    | succ n => rfl
  | cons c rest ih =>
    intro fuel hp hf
    cases fuel with
    | zero => simp at hf
    | succ n =>
      have hc := hp c (List.mem_cons_self)
      have hr := ih n (fun d hd => hp d (List.mem_cons_of_mem _ hd)) (by simp at hf; omega)
      unfold Spec.Format.parse
      split <;> simp_all

/-- **print_len**: the `print` family returns the byte length of the text written, plus one
for the newline of the `ln` variants -/
theorem print_len (args : List Val) (nl : Bool) (text : String) (n : Nat)
    (h : printLen args nl = .ok (text, n)) : n = text.utf8ByteSize := by
  unfold printLen at h
  split at h
  · cases h
  · split at h
    · cases h
    · cases nl with
      | false =>
        simp only [Bool.false_eq_true, if_false, Except.ok.injEq, Prod.mk.injEq] at h
        obtain ⟨h1, h2⟩ := h
        subst h1; omega
      | true =>
        simp only [if_true, Except.ok.injEq, Prod.mk.injEq] at h
        obtain ⟨h1, h2⟩ := h
        subst h1
        rw [String.utf8ByteSize_append]
        have : ("\n" : String).utf8ByteSize = 1 := by decide
        omega

/-- **missing argument**: `{}` with no argument left is a runtime error -/
theorem missing_argument (s : String) :
    formatBuf [.str "{}"] = .error "positional arguments exceeded the count" := by
  rfl

end P2sh.Props.C12
